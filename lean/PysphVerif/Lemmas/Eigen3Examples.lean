import PysphVerif.Lemmas.Eigen3Full
import Mathlib.Analysis.Real.Sqrt
/-!
Satisfiability of the hypotheses used by the eigen-decomposition theorems of C13
(`Real.sqrt`), and executable checkers over `ℚ` for the non-vacuity examples: a rational
"square root" that is exact on quotients of perfect squares, so that the model can be run in
exact arithmetic on matrices whose decomposition is rational.
-/
set_option linter.unusedSectionVars false
namespace PysphVerif.Eigen3
open Matrix

/-- `Real.sqrt` has the two properties the theorems ask of `sqrt` -/
theorem sqrtOK_real : SqrtOK Real.sqrt :=
  ⟨Real.sqrt_nonneg, fun _ hx => Real.mul_self_sqrt hx⟩

/-- integer square root by linear search (structural, so the kernel can run it) -/
def isqrt (n : Nat) : Nat := (List.range (n+1)).foldl (fun k i => if i * i ≤ n then i else k) 0
/-- exact on `p²/q²` -/
def qsqrt (q : ℚ) : ℚ := (isqrt q.num.toNat : ℚ) / (isqrt q.den : ℚ)
def qabs (q : ℚ) : ℚ := if q < 0 then -q else q
/-- `2.0**-52.0` -/
def qeps : ℚ := 1 / 4503599627370496

def qmul (A B : Mat ℚ) : Mat ℚ :=
  Mat.ofFn fun i j => A i 0 * B 0 j + A i 1 * B 1 j + A i 2 * B 2 j
def qtr (A : Mat ℚ) : Mat ℚ := Mat.ofFn fun i j => A j i
def qdiag (d : Vec ℚ) : Mat ℚ := Mat.ofFn fun i j => if i = j then d i else 0
/-- the tridiagonal matrix `(d, e)` of `tred2` -/
def qtri (d e : Vec ℚ) : Mat ℚ := ⟨d 0, e 1, 0, e 1, d 1, e 2, 0, e 2, d 2⟩

/-- run `eigen_decomposition` (repaired `hypot2`) at `ℚ` and check, exactly, everything the
theorems conclude: it returns, `A V = V diag d`, `Vᵀ V = I`, `d` ascending, every dropped
entry is `0`, and the values are the expected ones -/
def eigCheck (fuel : Nat) (A : Mat ℚ) (V d : List ℚ) : Bool :=
  match eigenDecomposition qabs qsqrt (hypotSafe qabs qsqrt) qeps fuel A with
  | .error _ => false
  | .ok o =>
    decide (o.V.toList = V) && decide (o.d.toList = d) &&
    decide ((qmul A o.V).toList = (qmul o.V (qdiag o.d)).toList) &&
    decide ((qmul (qtr o.V) o.V).toList = (idMat : Mat ℚ).toList) &&
    decide (o.d 0 ≤ o.d 1 ∧ o.d 1 ≤ o.d 2) &&
    o.drops.all (fun x => decide (x.1 = 0))

/-- run `tred2` at `ℚ` and check `Vᵀ V = I`, `V T Vᵀ = A` and the expected `(d, e)` -/
def tred2Check (A : Mat ℚ) (d e : List ℚ) (log : List Nat) : Bool :=
  let s := tred2 qabs qsqrt ⟨A, Vec.ofFn (fun _ => 0), Vec.ofFn (fun _ => 0), []⟩
  decide (s.d.toList = d) && decide (s.e.toList = e) && decide (s.log = log) &&
  decide ((qmul (qtr s.V) s.V).toList = (idMat : Mat ℚ).toList) &&
  decide ((qmul (qmul s.V (qtri s.d s.e)) (qtr s.V)).toList = A.toList)

end PysphVerif.Eigen3
