import PysphVerif.Model.Stepper
/-!
Helper lemmas for C04 (`Props/C04.lean`): alignment makes `range nReal` the
set of real particles; the registers of the generated class track the stage
time computed from the program text; closed form of the trace.
-/
namespace PysphVerif.Stepper

/-- C06's invariant as the integrator relies on it: the first `n` slots are
real (tag 0), every later slot is a ghost (tag ≠ 0). -/
def Aligned (tags : List Nat) (n : Nat) : Prop :=
  ∃ ghosts : List Nat, tags = List.replicate n 0 ++ ghosts ∧ ∀ g ∈ ghosts, g ≠ 0

theorem filter_real_prefix (n : Nat) (ghosts : List Nat) :
    ∀ k, k ≤ n →
    (List.range k).filter (fun i => (List.replicate n 0 ++ ghosts)[i]? == some 0) = List.range k := by
  intro k hk
  apply List.filter_eq_self.mpr
  intro i hi
  have hi' : i < n := Nat.lt_of_lt_of_le (List.mem_range.mp hi) hk
  simp [List.getElem?_append_left, hi']

theorem filter_ghost_suffix (n : Nat) (ghosts : List Nat) (hg : ∀ g ∈ ghosts, g ≠ 0) :
    ((List.range ghosts.length).map (n + ·)).filter
      (fun i => (List.replicate n 0 ++ ghosts)[i]? == some 0) = [] := by
  apply List.filter_eq_nil_iff.mpr
  intro i hi
  obtain ⟨j, hj, rfl⟩ := List.mem_map.mp hi
  have hj' : j < ghosts.length := List.mem_range.mp hj
  have h1 : (List.replicate n 0 ++ ghosts)[n + j]? = ghosts[j]? := by
    rw [List.getElem?_append_right (by simp)]
    simp
  rw [h1]
  have h2 : ghosts[j]? = some ghosts[j] := List.getElem?_eq_getElem hj'
  rw [h2]
  have h3 : ghosts[j] ≠ 0 := hg _ (List.getElem_mem hj')
  simp [h3]

/-- under alignment the particles with tag 0 are exactly the indices `< n` -/
theorem realIdxs_of_aligned {tags : List Nat} {n : Nat} (h : Aligned tags n) :
    realIdxs tags = List.range n := by
  obtain ⟨ghosts, rfl, hg⟩ := h
  unfold realIdxs
  have hlen : (List.replicate n 0 ++ ghosts).length = n + ghosts.length := by simp
  rw [hlen, List.range_add, List.filter_append, filter_real_prefix n ghosts n (Nat.le_refl n),
    filter_ghost_suffix n ghosts hg, List.append_nil]

section
variable {σ τ : Type}

/-- the world keeps every array aligned in every state -/
def WorldAligned (W : World σ τ) : Prop :=
  ∀ d s, Aligned (W.tags d s) (W.nReal d s)

theorem litDest_eq_wrapperDest (W : World σ τ) (hW : WorldAligned W) (m : Meth) (t dt : τ)
    (s : σ) (a : ArrayCfg) : litDest W m t dt s a = wrapperDest W m t dt s a := by
  unfold litDest wrapperDest loopReal
  simp only
  split
  · rw [realIdxs_of_aligned (hW _ _)]
  · rfl

theorem litStage_eq_wrapper (W : World σ τ) (hW : WorldAligned W) (cfg : Cfg) (m : Meth)
    (r : Regs τ) (s : σ) : litStage W cfg m r.t r.dt s = wrapper W cfg m r s := by
  unfold litStage wrapper
  congr 1
  funext s a
  exact litDest_eq_wrapperDest W hW m r.t r.dt s a

theorem lastPost_snoc (done : List Cmd) (c : Cmd) :
    lastPost (done ++ [c]) =
      match c with
      | .doPostStage e _ => some e
      | _ => lastPost done := by
  induction done with
  | nil => cases c <;> rfl
  | cons c0 cs ih =>
    simp only [List.cons_append, lastPost, ih]
    cases c <;> rfl

theorem stageTime_snoc_post (A : Arith τ) (done : List Cmd) (e : Expr) (k : Nat) (t dt : τ) :
    stageTime A (done ++ [.doPostStage e k]) t dt = A.add t (e.eval A t dt) := by
  simp only [stageTime, lastPost_snoc]

theorem stageTime_snoc_other (A : Arith τ) (done : List Cmd) (c : Cmd) (t dt : τ)
    (hc : ∀ e k, c ≠ .doPostStage e k) :
    stageTime A (done ++ [c]) t dt = stageTime A done t dt := by
  -- the matcher's own equation for the wildcard arm is conditional on exactly `hc`
  simp only [stageTime, lastPost_snoc]

/-- the registers after a prefix `done` of the program -/
def RegsTrack (A : Arith τ) (done : List Cmd) (t dt : τ) (r : Regs τ) : Prop :=
  r.origT = t ∧ r.dt = dt ∧ r.t = stageTime A done t dt

theorem regsTrack_init (A : Arith τ) (t dt : τ) :
    RegsTrack A [] t dt { origT := t, t := t, dt := dt } := ⟨rfl, rfl, rfl⟩

/-- one statement: the generated code does what the literal reading says and
the registers keep tracking the stage time -/
theorem execCmd_denote (A : Arith τ) (W : World σ τ) (hW : WorldAligned W) (cfg : Cfg)
    (t dt : τ) (done : List Cmd) (r : Regs τ) (s : σ) (c : Cmd)
    (hr : RegsTrack A done t dt r) :
    (execCmd A W cfg t dt (r, s) c).2 = denote A W cfg t dt (stageTime A done t dt) c s ∧
    RegsTrack A (done ++ [c]) t dt (execCmd A W cfg t dt (r, s) c).1 := by
  obtain ⟨h1, h2, h3⟩ := hr
  rcases c with _ | k | ⟨i, upd⟩ | _ | ⟨e, k⟩
  · refine ⟨?_, h1, h2, ?_⟩
    · simp only [execCmd, denote]
      rw [← litStage_eq_wrapper W hW, h3, h2]
    · simp only [execCmd]
      rw [stageTime_snoc_other A done _ t dt (by intro e k h; cases h)]; exact h3
  · refine ⟨?_, h1, h2, ?_⟩
    · simp only [execCmd, denote]
      rw [← litStage_eq_wrapper W hW, h3, h2]
    · simp only [execCmd]
      rw [stageTime_snoc_other A done _ t dt (by intro e k h; cases h)]; exact h3
  · refine ⟨?_, h1, h2, ?_⟩
    · simp only [execCmd, denote, computeAccelerations, h3, h2]
    · simp only [execCmd]
      rw [stageTime_snoc_other A done _ t dt (by intro e k h; cases h)]; exact h3
  · refine ⟨rfl, h1, h2, ?_⟩
    simp only [execCmd]
    rw [stageTime_snoc_other A done _ t dt (by intro e k h; cases h)]; exact h3
  · refine ⟨?_, h1, h2, ?_⟩
    · simp only [execCmd, denote, h1, h2]
    · simp only [execCmd, h1]
      rw [stageTime_snoc_post]

theorem fold_eq_litGo (A : Arith τ) (W : World σ τ) (hW : WorldAligned W) (cfg : Cfg)
    (t dt : τ) (rest : List Cmd) :
    ∀ (done : List Cmd) (r : Regs τ) (s : σ), RegsTrack A done t dt r →
      (rest.foldl (execCmd A W cfg t dt) (r, s)).2 = litGo A W cfg t dt done rest s ∧
      RegsTrack A (done ++ rest) t dt (rest.foldl (execCmd A W cfg t dt) (r, s)).1 := by
  induction rest with
  | nil => intro done r s hr; simpa [litGo] using hr
  | cons c cs ih =>
    intro done r s hr
    obtain ⟨h1, h2⟩ := execCmd_denote A W hW cfg t dt done r s c hr
    have := ih (done ++ [c]) (execCmd A W cfg t dt (r, s) c).1
      (execCmd A W cfg t dt (r, s) c).2 h2
    simp only [List.foldl_cons, litGo]
    rw [← h1]
    simpa [List.append_assoc] using this

end

/-! ## the trace world -/

section
variable {τ : Type}

theorem growEntry_zero (d : String) (x : String × Nat × Nat) : growEntry d 0 x = x := by
  unfold growEntry
  split <;> simp

theorem traceWorld_aligned (grow : String → Meth → Nat) :
    WorldAligned (traceWorld (τ := τ) grow) := by
  intro d s
  refine ⟨List.replicate (sizeOf? s.sizes d).2 2, rfl, ?_⟩
  intro g hg
  have := List.eq_of_mem_replicate hg
  omega

/-- events of a loop over `range n` -/
theorem loopReal_trace (grow : String → Meth → Nat) (d : String) (m : Meth) (t dt : τ) (n : Nat)
    (s : TState τ) :
    loopReal (traceWorld grow) d m t dt n s =
      { events := s.events ++ (List.range n).map (fun i => Event.step d m i t dt),
        sizes := s.sizes } := by
  unfold loopReal
  induction n with
  | zero => simp
  | succ k ih =>
    rw [List.range_succ, List.foldl_append, ih]
    simp [loopStep, traceWorld, TState.emit, List.append_assoc]

end
end PysphVerif.Stepper

/-! ## closed form of the trace when no hook changes the array sizes -/
namespace PysphVerif.Stepper
section
variable {τ : Type}

/-- what a stage call does to one array, as events -/
def destEvents (sizes : List (String × Nat × Nat)) (m : Meth) (cur dt : τ) (a : ArrayCfg) :
    List (Event τ) :=
  (if m ∈ a.sig.hooks then [Event.hook a.name m cur dt] else []) ++
  (if m ∈ a.sig.methods then
    (List.range (sizeOf? sizes a.name).1).map (fun i => Event.step a.name m i cur dt) else [])

def stageEvents (cfg : Cfg) (sizes : List (String × Nat × Nat)) (m : Meth) (cur dt : τ) :
    List (Event τ) :=
  (destOrder cfg).flatMap (destEvents sizes m cur dt)

/-- events of one statement at stage time `cur` -/
def cmdEvents (A : Arith τ) (cfg : Cfg) (sizes : List (String × Nat × Nat)) (t dt cur : τ) :
    Cmd → List (Event τ)
  | .initialize => stageEvents cfg sizes .initialize cur dt
  | .stage k => stageEvents cfg sizes (.stage k) cur dt
  | .computeAccelerations i upd => (if upd then [Event.nnps] else []) ++ [Event.eval i cur dt]
  | .updateDomain => [Event.domain]
  | .doPostStage e k =>
    if cfg.hasCallback then [Event.callback (A.add t (e.eval A t dt)) dt k] else []

def specGo (A : Arith τ) (cfg : Cfg) (sizes : List (String × Nat × Nat)) (t dt : τ) :
    List Cmd → List Cmd → List (Event τ)
  | _, [] => []
  | done, c :: cs =>
    cmdEvents A cfg sizes t dt (stageTime A done t dt) c ++ specGo A cfg sizes t dt (done ++ [c]) cs

/-- the whole trace of one step, statement by statement, each at the stage
time determined by the statements before it -/
def specEvents (A : Arith τ) (cfg : Cfg) (sizes : List (String × Nat × Nat)) (prog : Program)
    (t dt : τ) : List (Event τ) :=
  specGo A cfg sizes t dt [] prog

/-- the tracer world in which no hook adds particles -/
def staticWorld : World (TState τ) τ := traceWorld (fun _ _ => 0)

theorem traceWorld_hook (grow : String → Meth → Nat) (d : String) (m : Meth) (t dt : τ)
    (s : TState τ) : (traceWorld grow).hook d m t dt s =
      { events := s.events ++ [Event.hook d m t dt],
        sizes := s.sizes.map (growEntry d (grow d m)) } := rfl

theorem traceWorld_nReal (grow : String → Meth → Nat) (d : String) (s : TState τ) :
    (traceWorld grow).nReal d s = (sizeOf? s.sizes d).1 := rfl

theorem wrapperDest_static (m : Meth) (t dt : τ) (s : TState τ) (a : ArrayCfg) :
    wrapperDest staticWorld m t dt s a =
      { events := s.events ++ destEvents s.sizes m t dt a, sizes := s.sizes } := by
  have hmap : s.sizes.map (growEntry a.name 0) = s.sizes := by
    rw [List.map_congr_left (g := id) (fun x _ => growEntry_zero a.name x)]; simp
  unfold wrapperDest destEvents staticWorld
  by_cases hh : m ∈ a.sig.hooks <;> by_cases hm : m ∈ a.sig.methods <;>
    simp [hh, hm, loopReal_trace, traceWorld_hook, traceWorld_nReal, hmap]

theorem foldl_events {α : Type} (f : TState τ → α → TState τ)
    (g : List (String × Nat × Nat) → α → List (Event τ))
    (hf : ∀ s a, f s a = { events := s.events ++ g s.sizes a, sizes := s.sizes }) (l : List α) :
    ∀ s, l.foldl f s = { events := s.events ++ l.flatMap (g s.sizes), sizes := s.sizes } := by
  induction l with
  | nil => intro s; simp
  | cons a as ih =>
    intro s
    simp only [List.foldl_cons, hf, ih, List.flatMap_cons, List.append_assoc]

theorem wrapper_static (cfg : Cfg) (m : Meth) (r : Regs τ) (s : TState τ) :
    wrapper staticWorld cfg m r s =
      { events := s.events ++ stageEvents cfg s.sizes m r.t r.dt, sizes := s.sizes } := by
  unfold wrapper stageEvents
  exact foldl_events _ (fun sz a => destEvents sz m r.t r.dt a)
    (fun s a => wrapperDest_static m r.t r.dt s a) _ s

theorem denote_static (A : Arith τ) (cfg : Cfg) (t dt cur : τ) (c : Cmd) (s : TState τ) :
    denote A staticWorld cfg t dt cur c s =
      { events := s.events ++ cmdEvents A cfg s.sizes t dt cur c, sizes := s.sizes } := by
  have hst : ∀ m, litStage staticWorld cfg m cur dt s =
      { events := s.events ++ stageEvents cfg s.sizes m cur dt, sizes := s.sizes } := by
    intro m
    have := litStage_eq_wrapper staticWorld (traceWorld_aligned _) cfg m
      { origT := cur, t := cur, dt := dt } s
    simp only at this
    rw [this, wrapper_static]
  rcases c with _ | k | ⟨i, upd⟩ | _ | ⟨e, k⟩
  · simp only [denote, cmdEvents, hst]
  · simp only [denote, cmdEvents, hst]
  · cases upd <;> simp [denote, cmdEvents, staticWorld, traceWorld, TState.emit, List.append_assoc]
  · simp [denote, cmdEvents, staticWorld, traceWorld, TState.emit]
  · by_cases hcb : cfg.hasCallback <;>
      simp [denote, cmdEvents, staticWorld, traceWorld, TState.emit, hcb]

theorem litGo_static (A : Arith τ) (cfg : Cfg) (t dt : τ) (rest : List Cmd) :
    ∀ (done : List Cmd) (s : TState τ),
      litGo A staticWorld cfg t dt done rest s =
        { events := s.events ++ specGo A cfg s.sizes t dt done rest, sizes := s.sizes } := by
  induction rest with
  | nil => intro done s; simp [litGo, specGo]
  | cons c cs ih =>
    intro done s
    simp only [litGo, specGo, denote_static, ih, List.append_assoc]

/-! ### projections of a trace -/

def Event.callback? : Event τ → Option (τ × τ × Nat)
  | .callback t dt k => some (t, dt, k)
  | .hook _ _ _ _ => none
  | .step _ _ _ _ _ => none
  | .nnps => none
  | .eval _ _ _ => none
  | .domain => none

/-- the post-stage callback invocations in a trace -/
def callbacksOf (l : List (Event τ)) : List (τ × τ × Nat) := l.filterMap Event.callback?

def Cmd.post? : Cmd → Option (Expr × Nat)
  | .doPostStage e k => some (e, k)
  | .initialize => none
  | .stage _ => none
  | .computeAccelerations _ _ => none
  | .updateDomain => none

/-- the `do_post_stage` statements of a program -/
def posts (p : Program) : List (Expr × Nat) := p.filterMap Cmd.post?

theorem callbacksOf_stageEvents (cfg : Cfg) (sizes : List (String × Nat × Nat)) (m : Meth)
    (cur dt : τ) : callbacksOf (stageEvents cfg sizes m cur dt) = [] := by
  unfold callbacksOf stageEvents
  apply List.filterMap_eq_nil_iff.mpr
  intro e he
  obtain ⟨a, _, hea⟩ := List.mem_flatMap.mp he
  unfold destEvents at hea
  rcases List.mem_append.mp hea with h | h
  · split at h
    · simp only [List.mem_singleton] at h; subst h; rfl
    · simp at h
  · split at h
    · obtain ⟨i, _, rfl⟩ := List.mem_map.mp h; rfl
    · simp at h

theorem callbacksOf_specGo (A : Arith τ) (cfg : Cfg) (sizes : List (String × Nat × Nat))
    (t dt : τ) (rest : List Cmd) :
    ∀ done, callbacksOf (specGo A cfg sizes t dt done rest) =
      if cfg.hasCallback then
        (posts rest).map (fun x => (A.add t (x.1.eval A t dt), dt, x.2))
      else [] := by
  induction rest with
  | nil => intro done; simp [specGo, callbacksOf, posts]
  | cons c cs ih =>
    intro done
    have happ : ∀ l1 l2 : List (Event τ), callbacksOf (l1 ++ l2) = callbacksOf l1 ++ callbacksOf l2 := by
      intro l1 l2; simp [callbacksOf, List.filterMap_append]
    rw [specGo, happ, ih]
    rcases c with _ | k | ⟨i, upd⟩ | _ | ⟨e, k⟩
    · simp [cmdEvents, callbacksOf_stageEvents, posts, List.filterMap_cons, Cmd.post?]
    · simp [cmdEvents, callbacksOf_stageEvents, posts, List.filterMap_cons, Cmd.post?]
    · cases upd <;>
        simp [cmdEvents, callbacksOf, Event.callback?, posts, List.filterMap_cons, Cmd.post?]
    · simp [cmdEvents, callbacksOf, Event.callback?, posts, List.filterMap_cons, Cmd.post?]
    · by_cases hcb : cfg.hasCallback <;>
        simp [cmdEvents, callbacksOf, Event.callback?, posts, Cmd.post?, hcb]

end
end PysphVerif.Stepper

/-! ## well-staged programs -/
namespace PysphVerif.Stepper

/-- stage / post-stage statements of a program, in order -/
def stagePosts (p : Program) : List Cmd :=
  p.filter (fun c => match c with
    | .stage _ => true
    | .doPostStage _ _ => true
    | _ => false)

/-- `stage k, do_post_stage(e, k), stage k+1, do_post_stage(e', k+1), …`, the
last `stage_dt` being the whole `dt` -/
def wellStagedFrom : Nat → List Cmd → Bool
  | _, [] => true
  | k, .stage j :: .doPostStage e j' :: rest =>
    j == k && j' == k && (if rest.isEmpty then e == Expr.dt else true) &&
      wellStagedFrom (k + 1) rest
  | _, _ => false

def wellStaged (p : Program) : Bool := wellStagedFrom 1 (stagePosts p)

theorem posts_stagePosts (p : Program) : posts (stagePosts p) = posts p := by
  unfold posts stagePosts
  induction p with
  | nil => rfl
  | cons c cs ih =>
    rcases c with _ | k | ⟨i, upd⟩ | _ | ⟨e, k⟩ <;>
      simp [List.filterMap_cons, Cmd.post?, ih]

theorem wellStagedFrom_posts (k : Nat) (l : List Cmd) (h : wellStagedFrom k l = true) :
    (posts l).map (·.2) = List.range' k (posts l).length ∧
    (l ≠ [] → ((posts l).map (·.1)).getLast? = some Expr.dt) := by
  fun_induction wellStagedFrom k l with
  | case1 k => simp [posts]
  | case2 k j e j' rest ih =>
    simp only [Bool.and_eq_true, beq_iff_eq] at h
    obtain ⟨⟨⟨hj, hj'⟩, hlast⟩, hrest⟩ := h
    obtain ⟨ih1, ih2⟩ := ih hrest
    have hp : posts (Cmd.stage j :: Cmd.doPostStage e j' :: rest) = (e, k) :: posts rest := by
      simp [posts, List.filterMap_cons, Cmd.post?, hj']
    rw [hp]
    refine ⟨?_, ?_⟩
    · simp [List.range'_succ, ih1]
    · intro _
      by_cases hr : rest = []
      · subst hr
        simp at hlast
        simp [posts, hlast]
      · have := ih2 hr
        simp only [List.map_cons]
        rw [List.getLast?_cons_of_ne_nil]
        · exact this
        · intro hnil
          rw [hnil] at this
          simp at this
  | case3 k l h1 h2 => simp at h

end PysphVerif.Stepper

/-! ## destination order -/
namespace PysphVerif.Stepper

theorem insertByName_perm (a : ArrayCfg) (l : List ArrayCfg) :
    (insertByName a l).Perm (a :: l) := by
  induction l with
  | nil => exact List.Perm.refl _
  | cons b bs ih =>
    unfold insertByName
    split
    · exact (List.Perm.cons b ih).trans (List.Perm.swap a b bs)
    · exact List.Perm.refl _

/-- `x` may come before `y` in `sorted(...)` -/
def NameLe (x y : ArrayCfg) : Prop := x.name ≤ y.name

theorem insertByName_sorted (a : ArrayCfg) (l : List ArrayCfg) (hl : l.Pairwise NameLe) :
    (insertByName a l).Pairwise NameLe := by
  induction l with
  | nil => simp [insertByName]
  | cons b bs ih =>
    obtain ⟨hb, hbs⟩ := List.pairwise_cons.mp hl
    unfold insertByName
    split
    · rename_i hlt
      refine List.pairwise_cons.mpr ⟨?_, ih hbs⟩
      intro y hy
      rcases List.mem_cons.mp ((insertByName_perm a bs).mem_iff.mp hy) with h | h
      · subst h
        exact String.not_lt.mp (fun h' => absurd (String.lt_trans hlt h') (String.lt_irrefl _))
      · exact hb y h
    · rename_i hnlt
      have hab : a.name ≤ b.name := String.not_lt.mp hnlt
      refine List.pairwise_cons.mpr ⟨?_, hl⟩
      intro y hy
      rcases List.mem_cons.mp hy with h | h
      · subst h; exact hab
      · exact String.le_trans hab (hb y h)

end PysphVerif.Stepper
