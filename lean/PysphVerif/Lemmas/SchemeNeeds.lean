import PysphVerif.Model.SchemeNeeds
/-! # C12 — helper lemmas: the Boolean completeness check is sound for the
specification `Complete`, for every table, every kind list, every body. -/
namespace PysphVerif.SchemeNeeds

/-! ## masks -/

theorem subsetB_testBit {a b : Nat} (h : subsetB a b = true) {p : Nat}
    (hp : a.testBit p = true) : b.testBit p = true := by
  unfold subsetB at h
  have h' : a &&& b = a := by simpa using h
  have h2 : (a &&& b).testBit p = a.testBit p := by rw [h']
  rw [Nat.testBit_and, hp] at h2
  simpa using h2

theorem testBit_subsetB {a b : Nat} (h : ∀ p, a.testBit p = true → b.testBit p = true) :
    subsetB a b = true := by
  unfold subsetB
  have : a &&& b = a := by
    apply Nat.eq_of_testBit_eq
    intro p
    rw [Nat.testBit_and]
    cases hp : a.testBit p
    · simp
    · simp [h p hp]
  simp [this]

theorem strictSubsetB_subsetB {a b : Nat} (h : strictSubsetB a b = true) : subsetB a b = true := by
  unfold strictSubsetB at h
  simp only [Bool.and_eq_true] at h
  exact h.1

theorem or_testBit_left {a b p : Nat} (h : a.testBit p = true) : (a ||| b).testBit p = true := by
  rw [Nat.testBit_or, h]; rfl

theorem or_testBit_right {a b p : Nat} (h : b.testBit p = true) : (a ||| b).testBit p = true := by
  rw [Nat.testBit_or, h]; simp

theorem foldl_or_init {α : Type} (f : α → Nat) (l : List α) (init p : Nat)
    (h : init.testBit p = true) :
    (l.foldl (fun acc x => acc ||| f x) init).testBit p = true := by
  induction l generalizing init with
  | nil => simpa using h
  | cons x xs ih =>
    simp only [List.foldl_cons]
    exact ih _ (or_testBit_left h)

theorem foldl_or_mem {α : Type} (f : α → Nat) (l : List α) (init p : Nat) {x : α}
    (hx : x ∈ l) (h : (f x).testBit p = true) :
    (l.foldl (fun acc x => acc ||| f x) init).testBit p = true := by
  induction l generalizing init with
  | nil => cases hx
  | cons y ys ih =>
    simp only [List.foldl_cons]
    rcases List.mem_cons.mp hx with rfl | hmem
    · exact foldl_or_init f ys _ p (or_testBit_right h)
    · exact ih _ hmem

theorem foldl_or_elim {α : Type} (f : α → Nat) (l : List α) (init p : Nat)
    (h : (l.foldl (fun acc x => acc ||| f x) init).testBit p = true) :
    init.testBit p = true ∨ ∃ x ∈ l, (f x).testBit p = true := by
  induction l generalizing init with
  | nil => left; simpa using h
  | cons y ys ih =>
    simp only [List.foldl_cons] at h
    rcases ih _ h with h1 | ⟨x, hx, hfx⟩
    · rw [Nat.testBit_or] at h1
      cases hi : init.testBit p
      · right
        refine ⟨y, List.mem_cons_self, ?_⟩
        simpa [hi] using h1
      · left; rfl
    · right; exact ⟨x, List.mem_cons_of_mem _ hx, hfx⟩

/-! ## `gather` -/

theorem gather_testBit (f : PreSym → Mask) (t : List PreSym) (i j : Nat) (c : Mask) (ps : PreSym)
    (p : Nat) (hget : t[j]? = some ps) (hc : c.testBit (i + j) = true)
    (hp : (f ps).testBit p = true) : (gather f t i c).testBit p = true := by
  induction t generalizing i j with
  | nil => simp at hget
  | cons x xs ih =>
    unfold gather
    cases j with
    | zero =>
      simp at hget
      subst hget
      apply or_testBit_left
      simp at hc
      simp [hc, hp]
    | succ j' =>
      apply or_testBit_right
      simp at hget
      apply ih (i + 1) j' hget
      have : i + 1 + j' = i + (j' + 1) := by omega
      rw [this]; exact hc

theorem gather_elim (f : PreSym → Mask) (t : List PreSym) (i : Nat) (c : Mask) (p : Nat)
    (h : (gather f t i c).testBit p = true) :
    ∃ j ps, t[j]? = some ps ∧ c.testBit (i + j) = true ∧ (f ps).testBit p = true := by
  induction t generalizing i with
  | nil => unfold gather at h; simp at h
  | cons x xs ih =>
    unfold gather at h
    rw [Nat.testBit_or] at h
    cases h1 : (if c.testBit i = true then f x else 0).testBit p
    · rw [h1] at h
      simp at h
      obtain ⟨j, ps, hj, hc, hp⟩ := ih (i + 1) h
      refine ⟨j + 1, ps, by simpa using hj, ?_, hp⟩
      have : i + (j + 1) = i + 1 + j := by omega
      rw [this]; exact hc
    · by_cases hci : c.testBit i = true
      · simp [hci] at h1
        exact ⟨0, x, by simp, by simpa using hci, h1⟩
      · simp [hci] at h1

/-! ## closure -/

/-- a closed superset of the loop symbols contains everything reachable -/
theorem reach_in_closed (t : List PreSym) (m0 c : Mask) (hsub : subsetB m0 c = true)
    (hcl : closedB t c = true) {i : Nat} (h : Reach t m0 i) : c.testBit i = true := by
  induction h with
  | base hb => exact subsetB_testBit hsub hb
  | step _ hget hdep ih =>
    unfold closedB at hcl
    apply subsetB_testBit hcl
    exact gather_testBit PreSym.deps t 0 _ c _ _ hget (by simpa using ih) hdep

theorem closureStep_sup (t : List PreSym) (c : Mask) : subsetB c (closureStep t c) = true :=
  testBit_subsetB (fun _ hp => or_testBit_left hp)

theorem subsetB_trans {a b c : Nat} (h1 : subsetB a b = true) (h2 : subsetB b c = true) :
    subsetB a c = true :=
  testBit_subsetB (fun _ hp => subsetB_testBit h2 (subsetB_testBit h1 hp))

theorem subsetB_refl (a : Nat) : subsetB a a = true := testBit_subsetB (fun _ h => h)

theorem closureLoop_sup (t : List PreSym) (fuel : Nat) (c : Mask) :
    subsetB c (closureLoop t fuel c) = true := by
  induction fuel generalizing c with
  | zero => exact subsetB_refl c
  | succ n ih =>
    unfold closureLoop
    simp only
    split
    · exact subsetB_refl c
    · exact subsetB_trans (closureStep_sup t c) (ih _)

/-- the loop symbols are in the closure -/
theorem closure_sup (t : List PreSym) (m0 : Mask) : subsetB m0 (closure t m0) = true :=
  closureLoop_sup t _ m0

/-- everything the loop adds is reachable: the closure is not too big -/
theorem closureLoop_reach (t : List PreSym) (m0 : Mask) (fuel : Nat) (c : Mask)
    (hc : ∀ i, c.testBit i = true → Reach t m0 i) :
    ∀ i, (closureLoop t fuel c).testBit i = true → Reach t m0 i := by
  induction fuel generalizing c with
  | zero => exact hc
  | succ n ih =>
    unfold closureLoop
    simp only
    split
    · exact hc
    · apply ih
      intro i hi
      unfold closureStep at hi
      rw [Nat.testBit_or] at hi
      cases h1 : c.testBit i
      · rw [h1] at hi
        simp at hi
        obtain ⟨j, ps, hj, hcj, hp⟩ := gather_elim PreSym.deps t 0 c i hi
        exact Reach.step (hc j (by simpa using hcj)) hj hp
      · exact hc i h1

theorem closure_reach (t : List PreSym) (m0 : Mask) :
    ∀ i, (closure t m0).testBit i = true → Reach t m0 i :=
  closureLoop_reach t m0 _ m0 (fun _ h => Reach.base h)

/-- when the loop has terminated (which the check tests), the closure is exactly
the reachable set -/
theorem closure_iff_reach (t : List PreSym) (m0 : Mask) (hcl : closedB t (closure t m0) = true)
    (i : Nat) : (closure t m0).testBit i = true ↔ Reach t m0 i :=
  ⟨closure_reach t m0 i, fun h => reach_in_closed t m0 _ (closure_sup t m0) hcl h⟩

/-! ## needs -/

theorem needsD_of_spec (t : List PreSym) (k : EqKind)
    (hcl : closedB t (closure t k.loopPre) = true) {p : Nat} (h : NeedsD t k p) :
    (needsD t k ||| k.implicitD).testBit p = true := by
  rcases h with ⟨hk, hmem, hp⟩ | himp | ⟨i, ps, hr, hget, hp⟩
  · apply or_testBit_left
    unfold needsD
    apply or_testBit_left
    exact foldl_or_mem (fun h => h.d) k.hooks 0 p hmem hp
  · exact or_testBit_right himp
  · apply or_testBit_left
    unfold needsD
    apply or_testBit_right
    have hc := reach_in_closed t k.loopPre _ (closure_sup t k.loopPre) hcl hr
    exact gather_testBit PreSym.d t 0 i _ ps p hget (by simpa using hc) hp

theorem needsS_of_spec (t : List PreSym) (k : EqKind)
    (hcl : closedB t (closure t k.loopPre) = true) {p : Nat} (h : NeedsS t k p) :
    (needsS t k).testBit p = true := by
  rcases h with ⟨hk, hmem, hp⟩ | ⟨i, ps, hr, hget, hp⟩
  · unfold needsS
    apply or_testBit_left
    exact foldl_or_mem (fun h => h.s) k.hooks 0 p hmem hp
  · unfold needsS
    apply or_testBit_right
    have hc := reach_in_closed t k.loopPre _ (closure_sup t k.loopPre) hcl hr
    exact gather_testBit PreSym.s t 0 i _ ps p hget (by simpa using hc) hp

/-- conversely the computed needs contain nothing the specification does not demand -/
theorem spec_of_needsD (t : List PreSym) (k : EqKind) {p : Nat}
    (h : (needsD t k ||| k.implicitD).testBit p = true) : NeedsD t k p := by
  rw [Nat.testBit_or] at h
  cases h1 : (needsD t k).testBit p
  · rw [h1] at h
    right; left; simpa using h
  · unfold needsD at h1
    rw [Nat.testBit_or] at h1
    cases h2 : (hooksD k).testBit p
    · rw [h2] at h1
      simp at h1
      obtain ⟨j, ps, hj, hcj, hp⟩ := gather_elim PreSym.d t 0 _ p h1
      right; right
      exact ⟨j, ps, closure_reach t k.loopPre j (by simpa using hcj), hj, hp⟩
    · unfold hooksD at h2
      rcases foldl_or_elim (fun h => h.d) k.hooks 0 p h2 with h0 | ⟨x, hx, hfx⟩
      · simp at h0
      · left; exact ⟨x, hx, hfx⟩

theorem spec_of_needsS (t : List PreSym) (k : EqKind) {p : Nat}
    (h : (needsS t k).testBit p = true) : NeedsS t k p := by
  unfold needsS at h
  rw [Nat.testBit_or] at h
  cases h2 : (hooksS k).testBit p
  · rw [h2] at h
    simp at h
    obtain ⟨j, ps, hj, hcj, hp⟩ := gather_elim PreSym.s t 0 _ p h
    right
    exact ⟨j, ps, closure_reach t k.loopPre j (by simpa using hcj), hj, hp⟩
  · unfold hooksS at h2
    rcases foldl_or_elim (fun h => h.s) k.hooks 0 p h2 with h0 | ⟨x, hx, hfx⟩
    · simp at h0
    · left; exact ⟨x, hx, hfx⟩

theorem stepNeeds_of_spec (k : StepKind) {p : Nat} (h : StepNeeds k p) :
    (stepNeeds k ||| k.implicitD).testBit p = true := by
  rcases h with ⟨m, hm, hp⟩ | himp
  · apply or_testBit_left
    unfold stepNeeds
    exact foldl_or_mem (fun m => m.2) k.methods 0 p hm hp
  · exact or_testBit_right himp

/-! ## the check implies the specification -/

theorem getElem?_isArray {b : Body} {a : Nat} {arr : Nat × Mask} (h : b.arrays[a]? = some arr) :
    IsArray b a := by
  unfold IsArray
  exact (List.getElem?_eq_some_iff.mp h).1

theorem completeEq_of_check (t : List PreSym) (kinds : List EqKind) (b : Body) (e : EqInst)
    (h : checkEq t kinds b e = true) : CompleteEq t kinds b e := by
  unfold checkEq at h
  split at h
  · rename_i k da hk hda
    simp only [Bool.and_eq_true] at h
    obtain ⟨⟨hcl, hd⟩, hs⟩ := h
    refine ⟨k, hk, getElem?_isArray hda, ?_, ?_⟩
    · intro p hp
      exact ⟨da, hda, subsetB_testBit hd (needsD_of_spec t k hcl hp)⟩
    · intro srcs hsrcs s hsmem
      rw [hsrcs] at hs
      simp only [List.all_eq_true] at hs
      have h1 := hs s hsmem
      split at h1
      · rename_i sa hsa
        exact ⟨getElem?_isArray hsa, fun p hp =>
          ⟨sa, hsa, subsetB_testBit h1 (needsS_of_spec t k hcl hp)⟩⟩
      · cases h1
  · cases h

theorem completeStepper_of_check (sk : List StepKind) (b : Body) (st : Nat × Nat)
    (h : checkStepper sk b st = true) : CompleteStepper sk b st := by
  unfold checkStepper at h
  split at h
  · rename_i k a hk ha
    exact ⟨k, hk, getElem?_isArray ha, fun p hp =>
      ⟨a, ha, subsetB_testBit h (stepNeeds_of_spec k hp)⟩⟩
  · cases h

/-- `complete_iff_check`, the direction the table theorem needs -/
theorem complete_of_check (t : List PreSym) (kinds : List EqKind) (sk : List StepKind) (b : Body)
    (h : checkBody t kinds sk b = true) : Complete t kinds sk b := by
  unfold checkBody at h
  simp only [Bool.and_eq_true, List.all_eq_true] at h
  exact ⟨fun e he => completeEq_of_check t kinds b e (h.1 e he),
         fun st hst => completeStepper_of_check sk b st (h.2 st hst)⟩

/-- the other direction, for configurations whose closure loops terminated
(the hypothesis is itself part of the check) -/
theorem check_of_complete (t : List PreSym) (kinds : List EqKind) (sk : List StepKind) (b : Body)
    (hcl : ∀ e ∈ b.eqs, ∀ k, kinds[e.kind]? = some k → closedB t (closure t k.loopPre) = true)
    (h : Complete t kinds sk b) : checkBody t kinds sk b = true := by
  unfold checkBody
  simp only [Bool.and_eq_true, List.all_eq_true]
  constructor
  · intro e he
    obtain ⟨k, hk, hda, hd, hs⟩ := h.1 e he
    unfold checkEq
    unfold IsArray at hda
    have hget : b.arrays[e.dest]? = some (b.arrays[e.dest]) := List.getElem?_eq_getElem hda
    rw [hk, hget]
    simp only [Bool.and_eq_true]
    refine ⟨⟨hcl e he k hk, ?_⟩, ?_⟩
    · apply testBit_subsetB
      intro p hp
      obtain ⟨arr, harr, hbit⟩ := hd p (spec_of_needsD t k hp)
      rw [hget] at harr
      cases harr
      exact hbit
    · cases hsrc : e.sources with
      | none => rfl
      | some srcs =>
        simp only [List.all_eq_true]
        intro s hsm
        obtain ⟨hsa, hsp⟩ := hs srcs hsrc s hsm
        unfold IsArray at hsa
        have hgs : b.arrays[s]? = some (b.arrays[s]) := List.getElem?_eq_getElem hsa
        rw [hgs]
        apply testBit_subsetB
        intro p hp
        obtain ⟨arr, harr, hbit⟩ := hsp p (spec_of_needsS t k hp)
        rw [hgs] at harr
        cases harr
        exact hbit
  · intro st hst
    obtain ⟨k, hk, ha, hp⟩ := h.2 st hst
    unfold checkStepper
    unfold IsArray at ha
    have hget : b.arrays[st.2]? = some (b.arrays[st.2]) := List.getElem?_eq_getElem ha
    rw [hk, hget]
    apply testBit_subsetB
    intro p hbit
    rw [Nat.testBit_or] at hbit
    have hsn : StepNeeds k p := by
      cases h1 : (stepNeeds k).testBit p
      · rw [h1] at hbit
        right; simpa using hbit
      · unfold stepNeeds at h1
        rcases foldl_or_elim (fun m => m.2) k.methods 0 p h1 with h0 | ⟨x, hx, hfx⟩
        · simp at h0
        · left; exact ⟨x, hx, hfx⟩
    obtain ⟨arr, harr, hb⟩ := hp p hsn
    rw [hget] at harr
    cases harr
    exact hb

/-! ## the type check implies its specification -/

theorem foldl_or_iff {α : Type} (f : α → Nat) (l : List α) (p : Nat) :
    (l.foldl (fun acc x => acc ||| f x) 0).testBit p = true ↔ ∃ x ∈ l, (f x).testBit p = true := by
  constructor
  · intro h
    rcases foldl_or_elim f l 0 p h with h0 | h1
    · simp at h0
    · exact h1
  · rintro ⟨x, hx, hfx⟩
    exact foldl_or_mem f l 0 p hx hfx

theorem intKnown_iff (b : Body) (p : Nat) :
    (intKnown b).testBit p = true ↔ ∃ t ∈ b.types, t.integral.testBit p = true :=
  foldl_or_iff ArrTypes.integral b.types p

theorem floatKnown_iff (b : Body) (p : Nat) :
    (floatKnown b).testBit p = true ↔ ∃ t ∈ b.types, t.floating.testBit p = true :=
  foldl_or_iff ArrTypes.floating b.types p

theorem eqIdx_iff (kinds : List EqKind) (e : EqInst) (p : Nat) :
    (eqIdx kinds e).testBit p = true ↔
      ∃ k, kinds[e.kind]? = some k ∧ (k.idxD.testBit p = true ∨ k.idxS.testBit p = true) := by
  unfold eqIdx
  cases hk : kinds[e.kind]? with
  | none => simp
  | some k => simp [Nat.testBit_or]

theorem stIdx_iff (sk : List StepKind) (st : Nat × Nat) (p : Nat) :
    (stIdx sk st).testBit p = true ↔ ∃ k, sk[st.1]? = some k ∧ k.idx.testBit p = true := by
  unfold stIdx
  cases hk : sk[st.1]? with
  | none => simp
  | some k => simp

/-- the mask `idxUsed` is exactly the set of names used as an index -/
theorem idxUsed_iff (kinds : List EqKind) (sk : List StepKind) (b : Body) (p : Nat) :
    (idxUsed kinds sk b).testBit p = true ↔ IndexUsed kinds sk b p := by
  unfold idxUsed IndexUsed
  rw [Nat.testBit_or, Bool.or_eq_true, foldl_or_iff (eqIdx kinds) b.eqs p,
    foldl_or_iff (stIdx sk) b.steppers p]
  constructor
  · rintro (⟨e, he, h⟩ | ⟨st, hst, h⟩)
    · left; exact ⟨e, he, (eqIdx_iff kinds e p).mp h⟩
    · right; exact ⟨st, hst, (stIdx_iff sk st p).mp h⟩
  · rintro (⟨e, he, h⟩ | ⟨st, hst, h⟩)
    · left; exact ⟨e, he, (eqIdx_iff kinds e p).mpr h⟩
    · right; exact ⟨st, hst, (stIdx_iff sk st p).mpr h⟩

theorem and_eq_zero_testBit {a b : Nat} (h : (a &&& b == 0) = true) {p : Nat}
    (ha : a.testBit p = true) : b.testBit p = false := by
  have h0 : a &&& b = 0 := by simpa using h
  have h1 : (a &&& b).testBit p = false := by rw [h0]; simp
  rw [Nat.testBit_and, ha] at h1
  simpa using h1

theorem testBit_and_eq_zero {a b : Nat} (h : ∀ p, a.testBit p = true → b.testBit p = false) :
    (a &&& b == 0) = true := by
  have : a &&& b = 0 := by
    apply Nat.eq_of_testBit_eq
    intro p
    rw [Nat.testBit_and]
    cases ha : a.testBit p
    · simp
    · simp [h p ha]
  simp [this]

theorem typedArr_spec {a : Nat × Mask} {t : ArrTypes} (h : typedArr a t = true) (p : Nat) :
    a.2.testBit p = true ↔ (t.integral ||| t.floating).testBit p = true := by
  unfold typedArr at h
  simp only [Bool.and_eq_true] at h
  have h1 : (t.int ||| t.uint ||| t.long ||| t.float ||| t.double) = a.2 := by simpa using h.1.1.1.1
  rw [← h1]
  unfold ArrTypes.integral ArrTypes.floating
  simp only [Nat.testBit_or, Bool.or_eq_true]
  constructor
  · rintro ((((h | h) | h) | h) | h)
    · exact Or.inl (Or.inl (Or.inl h))
    · exact Or.inl (Or.inl (Or.inr h))
    · exact Or.inl (Or.inr h)
    · exact Or.inr (Or.inl h)
    · exact Or.inr (Or.inr h)
  · rintro (((h | h) | h) | (h | h))
    · exact Or.inl (Or.inl (Or.inl (Or.inl h)))
    · exact Or.inl (Or.inl (Or.inl (Or.inr h)))
    · exact Or.inl (Or.inl (Or.inr h))
    · exact Or.inl (Or.inr h)
    · exact Or.inr h

theorem typedAll_spec (as : List (Nat × Mask)) (ts : List ArrTypes) (h : typedAll as ts = true) :
    AllTyped as ts := by
  induction as generalizing ts with
  | nil =>
    cases ts with
    | nil => trivial
    | cons t ts => simp [typedAll] at h
  | cons a as ih =>
    cases ts with
    | nil => simp [typedAll] at h
    | cons t ts =>
      simp only [typedAll, Bool.and_eq_true] at h
      exact ⟨typedArr_spec h.1, ih ts h.2⟩

/-- the index part of the check is EXACTLY its specification -/
theorem indexTypes_iff (kinds : List EqKind) (sk : List StepKind) (b : Body) :
    (subsetB (idxUsed kinds sk b) (intKnown b) &&
      ((idxUsed kinds sk b &&& floatKnown b) == 0)) = true ↔
    ∀ p, IndexUsed kinds sk b p → KnownIntegral b p := by
  rw [Bool.and_eq_true]
  constructor
  · rintro ⟨hsub, hdis⟩ p hp
    have hbit := (idxUsed_iff kinds sk b p).mpr hp
    refine ⟨(intKnown_iff b p).mp (subsetB_testBit hsub hbit), ?_⟩
    intro t ht
    have hf := and_eq_zero_testBit hdis hbit
    cases htf : t.floating.testBit p
    · rfl
    · have := (floatKnown_iff b p).mpr ⟨t, ht, htf⟩
      rw [this] at hf
      cases hf
  · intro h
    constructor
    · apply testBit_subsetB
      intro p hp
      exact (intKnown_iff b p).mpr (h p ((idxUsed_iff kinds sk b p).mp hp)).1
    · apply testBit_and_eq_zero
      intro p hp
      have hk := (h p ((idxUsed_iff kinds sk b p).mp hp)).2
      cases hfk : (floatKnown b).testBit p
      · rfl
      · obtain ⟨t, ht, htf⟩ := (floatKnown_iff b p).mp hfk
        rw [hk t ht] at htf
        cases htf

/-- soundness of the type check -/
theorem typesOk_sound (kinds : List EqKind) (sk : List StepKind) (b : Body)
    (h : typesOk kinds sk b = true) : TypesOk kinds sk b := by
  unfold typesOk at h
  rw [Bool.and_assoc, Bool.and_eq_true] at h
  exact ⟨typedAll_spec _ _ h.1, (indexTypes_iff kinds sk b).mp h.2⟩

/-- … and a configuration in which an index-used name is `double` somewhere,
or an integer nowhere, fails it -/
theorem typesOk_false_of_bad_index (kinds : List EqKind) (sk : List StepKind) (b : Body) (p : Nat)
    (hu : IndexUsed kinds sk b p) (hbad : ¬ KnownIntegral b p) : typesOk kinds sk b = false := by
  cases h : typesOk kinds sk b
  · rfl
  · exact absurd ((typesOk_sound kinds sk b h).2 p hu) hbad

/-! ## the real checker is at least as strict on what it looks at -/

/-- what `check_equation_array_properties` accepts has every explicit and
precomputed-symbol array (it does not see the `dst.<name>` reads of `reduce`) -/
theorem acceptsEq_subset (t : List PreSym) (kinds : List EqKind) (b : Body) (e : EqInst)
    (h : acceptsEq t kinds b e = true) :
    ∃ k da, kinds[e.kind]? = some k ∧ b.arrays[e.dest]? = some da ∧
      subsetB (needsD t k) da.2 = true := by
  unfold acceptsEq at h
  split at h
  · rename_i k da hk hda
    simp only [Bool.and_eq_true] at h
    exact ⟨k, da, hk, hda, strictSubsetB_subsetB h.1⟩
  · cases h

/-! ## run-length decoding and grid points -/

theorem length_expandRuns (rs : List (Nat × Nat)) :
    (expandRuns rs).length = (rs.map (·.1)).foldr (· + ·) 0 := by
  induction rs with
  | nil => rfl
  | cons r rest ih =>
    obtain ⟨n, c⟩ := r
    simp [expandRuns, ih]

theorem mem_expandRuns {rs : List (Nat × Nat)} {c : Nat} (h : c ∈ expandRuns rs) :
    ∃ r ∈ rs, r.2 = c := by
  induction rs with
  | nil => simp [expandRuns] at h
  | cons r rest ih =>
    obtain ⟨n, c'⟩ := r
    simp only [expandRuns, List.mem_append, List.mem_replicate] at h
    rcases h with ⟨_, rfl⟩ | h
    · exact ⟨(n, c), List.mem_cons_self, rfl⟩
    · obtain ⟨r, hr, hc⟩ := ih h
      exact ⟨r, List.mem_cons_of_mem _ hr, hc⟩

/-- every entry of the grid is `0` or points at a body that passes `chk` -/
def runsOk (chk : Body → Bool) (bodies : List Body) (g : SchemeGrid) : Bool :=
  g.runs.all (fun r => r.2 == 0 ||
    (match bodies[r.2 - 1]? with
     | some b => chk b
     | none => false))

/-- cheaper variant for the kernel: all bodies pass, and every entry is in range -/
def runsInRange (n : Nat) (g : SchemeGrid) : Bool := g.runs.all (fun r => r.2 ≤ n)

theorem point_of_runs (chk : Body → Bool) (bodies : List Body) (g : SchemeGrid)
    (hall : bodies.all chk = true) (hr : runsInRange bodies.length g = true)
    (i : Nat) (hi : i < g.bodyOf.length) :
    ∃ c, g.bodyOf[i]? = some c ∧ (c = 0 ∨ ∃ b, bodies[c - 1]? = some b ∧ chk b = true) := by
  refine ⟨g.bodyOf[i], List.getElem?_eq_getElem hi, ?_⟩
  have hmem : g.bodyOf[i] ∈ expandRuns g.runs := List.getElem_mem hi
  obtain ⟨r, hrm, hrc⟩ := mem_expandRuns hmem
  unfold runsInRange at hr
  simp only [List.all_eq_true, decide_eq_true_eq] at hr
  have hle := hr r hrm
  rw [hrc] at hle
  by_cases h0 : g.bodyOf[i] = 0
  · left; exact h0
  · right
    have hlt : g.bodyOf[i] - 1 < bodies.length := by omega
    refine ⟨bodies[g.bodyOf[i] - 1], List.getElem?_eq_getElem hlt, ?_⟩
    simp only [List.all_eq_true] at hall
    exact hall _ (List.getElem_mem hlt)

/-! ## mixed radix -/

theorem flatIndex_lt_aux (rs ds : List Nat) (acc bound : Nat) (h : ValidDigits rs ds)
    (hacc : acc < bound) : flatIndex rs ds acc < bound * rs.foldr (· * ·) 1 := by
  induction rs generalizing ds acc bound with
  | nil =>
    cases ds with
    | nil => simpa [flatIndex] using hacc
    | cons d ds => exact absurd h (by simp [ValidDigits])
  | cons r rs ih =>
    cases ds with
    | nil => exact absurd h (by simp [ValidDigits])
    | cons d ds =>
      obtain ⟨hd, hrest⟩ := h
      simp only [flatIndex, List.foldr_cons]
      have hb : acc * r + d < bound * r := by
        have h1 : (acc + 1) * r ≤ bound * r := Nat.mul_le_mul_right r hacc
        have h2 : (acc + 1) * r = acc * r + r := by rw [Nat.add_mul, Nat.one_mul]
        omega
      have := ih ds (acc * r + d) (bound * r) hrest hb
      rw [Nat.mul_assoc] at this
      exact this

/-- every legal multi-index is a grid point -/
theorem flatIndex_lt (g : SchemeGrid) (ds : List Nat) (h : ValidDigits (radices g) ds) :
    flatIndex (radices g) ds 0 < gridSize g := by
  have := flatIndex_lt_aux (radices g) ds 0 1 h (by omega)
  simpa [gridSize, radices] using this

end PysphVerif.SchemeNeeds
