import Mathlib.Analysis.Calculus.Deriv.Mul
import Mathlib.Analysis.Calculus.Deriv.Add
import Mathlib.Data.Rat.Cast.Order
import Mathlib.Tactic.Ring
import Mathlib.Tactic.Linarith
import Mathlib.Tactic.FieldSimp
import Mathlib.Tactic.LinearCombination
import PysphVerif.Model.Poly
/-!
General facts about coefficient-list polynomials, proved once (C08):

* `evR` — evaluation over ℝ of a rational coefficient list, with the algebra of
  `add/smul/mulX/neg/sub/mulLin/powLin/mulXpow`;
* `hasDerivAt_evR`        — the formal derivative is the derivative;
* `evR_eq_of_peq`         — `peq` (checked by `decide`) gives equal functions;
* `mob_identity`, `certOne_sound`, `certCuts_sound` — the Möbius sign certificate:
  all coefficients of the transformed list `≤ 0` ⇒ `p ≤ 0` on the interval;
* `evR_ratCast`           — evaluation at a rational point is the cast of exact `eval`.
-/
namespace PysphVerif.Poly

/-- real evaluation of a rational coefficient list -/
noncomputable def evR (p : List ℚ) (x : ℝ) : ℝ := evalC (fun a : ℚ => (a : ℝ)) p x

@[simp] theorem evR_nil (x : ℝ) : evR [] x = 0 := rfl
@[simp] theorem evR_cons (a : ℚ) (p : List ℚ) (x : ℝ) : evR (a :: p) x = (a : ℝ) + x * evR p x := rfl

theorem evR_add (p q : List ℚ) (x : ℝ) : evR (add p q) x = evR p x + evR q x := by
  induction p generalizing q with
  | nil => simp [add]
  | cons a p ih =>
    cases q with
    | nil => simp [add]
    | cons b q => simp only [add, evR_cons, ih]; push_cast; ring

theorem evR_smul (c : ℚ) (p : List ℚ) (x : ℝ) : evR (smul c p) x = (c : ℝ) * evR p x := by
  induction p with
  | nil => simp [smul]
  | cons a p ih =>
    have : smul c (a :: p) = (c * a) :: smul c p := rfl
    rw [this, evR_cons, evR_cons, ih]; push_cast; ring

theorem evR_mulX (p : List ℚ) (x : ℝ) : evR (mulX p) x = x * evR p x := by
  simp [mulX]

theorem evR_neg (p : List ℚ) (x : ℝ) : evR (neg p) x = - evR p x := by
  induction p with
  | nil => simp [neg]
  | cons a p ih =>
    have : neg (a :: p) = (-a) :: neg p := rfl
    rw [this, evR_cons, evR_cons, ih]; push_cast; ring

theorem evR_sub (p q : List ℚ) (x : ℝ) : evR (sub p q) x = evR p x - evR q x := by
  simp [sub, evR_add, evR_neg, sub_eq_add_neg]

theorem evR_mulLin (a b : ℚ) (p : List ℚ) (x : ℝ) :
    evR (mulLin a b p) x = ((a : ℝ) + b * x) * evR p x := by
  simp only [mulLin, evR_add, evR_smul, evR_mulX]; ring

theorem evR_powLin (a b : ℚ) (n : ℕ) (x : ℝ) : evR (powLin a b n) x = ((a : ℝ) + b * x) ^ n := by
  induction n with
  | zero => simp [powLin]
  | succ n ih => simp only [powLin, evR_mulLin, ih]; ring

theorem evR_mulXpow (k : ℕ) (p : List ℚ) (x : ℝ) : evR (mulXpow k p) x = x ^ k * evR p x := by
  induction k with
  | zero => simp [mulXpow]
  | succ k ih => simp only [mulXpow, evR_mulX, ih]; ring

/-- the formal derivative is the derivative -/
theorem hasDerivAt_evR (p : List ℚ) (x : ℝ) : HasDerivAt (evR p) (evR (deriv p) x) x := by
  induction p with
  | nil => exact hasDerivAt_const x (0 : ℝ)
  | cons a p ih =>
    have h := ((hasDerivAt_id x).mul ih).const_add (a : ℝ)
    have e : evR (deriv (a :: p)) x = 1 * evR p x + id x * evR (deriv p) x := by
      simp only [deriv, evR_add, evR_mulX, id]; ring
    rw [e]
    exact h

theorem evR_eq_zero_of_isZero {p : List ℚ} (h : isZero p = true) (x : ℝ) : evR p x = 0 := by
  induction p with
  | nil => rfl
  | cons a p ih =>
    simp only [isZero, List.all_cons, Bool.and_eq_true, beq_iff_eq] at h
    have hp : isZero p = true := by simpa [isZero] using h.2
    rw [evR_cons, h.1, ih hp]; simp

theorem evR_eq_of_peq {p q : List ℚ} (h : peq p q = true) (x : ℝ) : evR p x = evR q x := by
  have := evR_eq_zero_of_isZero h x
  rw [evR_sub] at this
  linarith

theorem evR_nonpos_of_allNonpos {p : List ℚ} (h : allNonpos p = true) {s : ℝ} (hs : 0 ≤ s) :
    evR p s ≤ 0 := by
  induction p with
  | nil => simp
  | cons a p ih =>
    simp only [allNonpos, List.all_cons, Bool.and_eq_true, decide_eq_true_eq] at h
    have hp : allNonpos p = true := by simpa [allNonpos] using h.2
    have ha : (a : ℝ) ≤ 0 := by exact_mod_cast h.1
    rw [evR_cons]
    exact add_nonpos ha (mul_nonpos_of_nonneg_of_nonpos hs (ih hp))

/-- evaluation at a rational point is the cast of the exact rational evaluation -/
theorem evR_ratCast (p : List ℚ) (x : ℚ) : evR p (x : ℝ) = ((eval p x : ℚ) : ℝ) := by
  induction p with
  | nil => simp [eval, evalC]
  | cons a p ih =>
    have : eval (a :: p) x = a + x * eval p x := rfl
    rw [this, evR_cons, ih]; push_cast; ring

/-- defining identity of the Möbius transform -/
theorem mob_identity (lo hi : ℚ) (p : List ℚ) (s : ℝ) (hs : 1 + s ≠ 0) :
    (1 + s) * evR (mob lo hi p) s =
      (1 + s) ^ p.length * evR p (((lo : ℝ) + hi * s) / (1 + s)) := by
  induction p with
  | nil => simp [mob]
  | cons a p ih =>
    have hX : (1 + s) * (((lo : ℝ) + hi * s) / (1 + s)) = (lo : ℝ) + hi * s := by
      field_simp
    simp only [mob, evR_add, evR_smul, evR_powLin, evR_mulLin, evR_cons, List.length_cons]
    push_cast
    linear_combination ((lo : ℝ) + hi * s) * ih -
      (1 + s) ^ p.length * evR p (((lo : ℝ) + hi * s) / (1 + s)) * hX

/-- soundness of the one-interval certificate -/
theorem certOne_sound {p : List ℚ} {a b : ℚ} (h : certOne p a b = true) {x : ℝ}
    (hax : (a : ℝ) ≤ x) (hxb : x ≤ (b : ℝ)) : evR p x ≤ 0 := by
  simp only [certOne, Bool.and_eq_true, decide_eq_true_eq] at h
  obtain ⟨⟨hab, hmob⟩, hb⟩ := h
  have hab' : (a : ℝ) < b := by exact_mod_cast hab
  rcases eq_or_lt_of_le hxb with heq | hlt
  · rw [heq, evR_ratCast]; exact_mod_cast hb
  · have hbx : 0 < (b : ℝ) - x := by linarith
    set s : ℝ := (x - a) / (b - x) with hs
    have hs0 : 0 ≤ s := div_nonneg (by linarith) hbx.le
    have h1s : 0 < 1 + s := by linarith
    have hne : (b : ℝ) - x ≠ 0 := hbx.ne'
    have hX : ((a : ℝ) + b * s) / (1 + s) = x := by
      rw [div_eq_iff h1s.ne', hs]; field_simp; ring
    have hid := mob_identity a b p s h1s.ne'
    rw [hX] at hid
    have hle : (1 + s) * evR (mob a b p) s ≤ 0 :=
      mul_nonpos_of_nonneg_of_nonpos h1s.le (evR_nonpos_of_allNonpos hmob hs0)
    rw [hid] at hle
    have hpow : 0 < (1 + s) ^ p.length := pow_pos h1s _
    by_contra hc
    rw [not_le] at hc
    have := mul_pos hpow hc
    linarith

/-- soundness of the certificate with cut points: `p ≤ 0` on `[a, last]` -/
theorem certCuts_sound {p : List ℚ} : ∀ (l : List ℚ) (a : ℚ), certCuts p (a :: l) = true →
    ∀ x : ℝ, (a : ℝ) ≤ x → x ≤ (lastOr a l : ℝ) → evR p x ≤ 0 := by
  intro l
  induction l with
  | nil => intro a h; simp [certCuts] at h
  | cons b l ih =>
    intro a h x hax hxl
    cases l with
    | nil =>
      simp only [certCuts] at h
      exact certOne_sound h hax (by simpa [lastOr] using hxl)
    | cons c l' =>
      simp only [certCuts, Bool.and_eq_true] at h
      by_cases hxb : x ≤ (b : ℝ)
      · exact certOne_sound h.1 hax hxb
      · rw [not_le] at hxb
        exact ih b h.2 x hxb.le (by simpa [lastOr] using hxl)

end PysphVerif.Poly
