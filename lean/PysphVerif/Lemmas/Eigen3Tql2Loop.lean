import PysphVerif.Lemmas.Eigen3Tql2
import Mathlib.Algebra.BigOperators.Group.Finset.Basic
import Mathlib.Tactic.Abel
/-!
The loops of `tql2` (`while cont`, `for l`, the sort): invariants for every number of
sweeps (any fuel) — `V` stays orthogonal, `V T Vᵀ` plus the dropped sub-diagonal entries
stays the matrix `tql2` was given.
-/
set_option linter.unusedSectionVars false
set_option linter.unusedVariables false
set_option linter.unusedSimpArgs false
set_option linter.unusedTactic false
set_option linter.unreachableTactic false
namespace PysphVerif.Eigen3
open Matrix

variable {K : Type} [Field K] [LinearOrder K] [IsStrictOrderedRing K]

/-- the symmetric perturbations `W offM(j, x) Wᵀ` that correspond to the sub-diagonal entries
`tql2` replaced by `0.0` (`TQ.drops`), summed -/
def dropSum (drops : List (K × Nat × Mat K)) : Matrix (Fin 3) (Fin 3) K :=
  (drops.map fun x => x.2.2.toM * offM x.2.1 x.1 * x.2.2.toMᵀ).sum

@[simp] theorem dropSum_nil : dropSum ([] : List (K × Nat × Mat K)) = 0 := rfl
@[simp] theorem dropSum_cons (x : K) (j : Nat) (W : Mat K) (ds : List (K × Nat × Mat K)) :
    dropSum ((x, j, W) :: ds) = W.toM * offM j x * W.toMᵀ + dropSum ds := by
  simp [dropSum]

theorem offM_zero (j : Nat) : offM j (0 : K) = 0 := by
  rcases j with _ | _ | j <;> ext a b <;> fin_cases a <;> fin_cases b <;> simp [offM]

/-- all dropped entries are exactly zero ⇒ no perturbation -/
theorem dropSum_eq_zero (ds : List (K × Nat × Mat K)) (h : ∀ x ∈ ds, x.1 = 0) : dropSum ds = 0 := by
  induction ds with
  | nil => rfl
  | cons x ds ih =>
    obtain ⟨v, j, W⟩ := x
    have hv : v = 0 := h (v, j, W) (List.mem_cons_self ..)
    rw [dropSum_cons, hv, offM_zero, Matrix.mul_zero, Matrix.zero_mul, zero_add]
    exact ih fun y hy => h y (List.mem_cons_of_mem _ hy)

/-! ## the search for `m` -/

theorem findM_spec (eps tst1 : K) (e : Vec K) : ∀ (fuel m0 : Nat),
    m0 ≤ findM abs eps tst1 e fuel m0 ∧
    ∀ i, m0 ≤ i → i < findM abs eps tst1 e fuel m0 → ¬ (|e i| ≤ eps * tst1) := by
  intro fuel
  induction fuel with
  | zero => intro m0; exact ⟨le_refl _, fun i h1 h2 => by simp [findM] at h2; omega⟩
  | succ n ih =>
    intro m0
    unfold findM
    split
    · split
      · exact ⟨le_refl _, fun i h1 h2 => by omega⟩
      · rename_i hlt hne
        obtain ⟨h1, h2⟩ := ih (m0 + 1)
        refine ⟨by omega, fun i hi1 hi2 => ?_⟩
        rcases Nat.eq_or_lt_of_le hi1 with rfl | hlt'
        · exact hne
        · exact h2 i (by omega) hi2
    · exact ⟨le_refl _, fun i h1 h2 => by omega⟩

theorem maxC_ge (a b : K) : b ≤ maxC a b := by
  unfold maxC; split
  · exact le_of_lt ‹_›
  · exact le_refl _

/-! ## `while cont` -/

/-- invariant of the QL iteration for the block `l..m`; `A0` is the matrix being decomposed,
`D` the perturbations dropped before (fixed during the iteration) -/
structure IterInv (A0 D : Matrix (Fin 3) (Fin 3) K) (l m : Nat) (t : TQ K) : Prop where
  o1 : t.V.toMᵀ * t.V.toM = 1
  o2 : t.V.toM * t.V.toMᵀ = 1
  sim : A0 = t.V.toM * (Tm l t.d t.e t.f - offM m (t.e m)) * t.V.toMᵀ + D
  low : ∀ i, i < l → t.e i = 0
  tst : 0 ≤ t.tst1

theorem iterInv_sweep (hyp : K → K → K) (hh : HypOK hyp) (A0 D : Matrix (Fin 3) (Fin 3) K)
    (l m : Nat) (hlm : l < m) (hm : m < 3) (t : TQ K) (hi : IterInv A0 D l m t)
    (hne : ∀ i, l ≤ i → i < m → t.e i ≠ 0) :
    IterInv A0 D l m (qlSweep hyp l m t) ∧ (qlSweep hyp l m t).e m = 0 ∧
    (∀ i, l < i → i < m → (qlSweep hyp l m t).e i ≠ 0) ∧
    (qlSweep hyp l m t).drops = t.drops := by
  have sp := qlSweep_spec hyp hh l m hlm hm t hne hi.low
  obtain ⟨G, hG1, hG2, hV, hT⟩ := sp.sim
  refine ⟨⟨?_, ?_, ?_, ?_, ?_⟩, sp.em, sp.mid, sp.drops⟩
  · rw [hV, Matrix.transpose_mul, Matrix.mul_assoc, ← Matrix.mul_assoc t.V.toMᵀ, hi.o1,
      Matrix.one_mul, hG1]
  · rw [hV, Matrix.transpose_mul, Matrix.mul_assoc, ← Matrix.mul_assoc G, hG2,
      Matrix.one_mul, hi.o2]
  · rw [sp.em, offM_zero, sub_zero, hV, hi.sim, ← hT]
    congr 1
    simp only [Matrix.transpose_mul, Matrix.mul_assoc]
  · intro i h; rw [sp.low i h]; exact hi.low i h
  · rw [sp.tst]; exact hi.tst

/-- **any number of sweeps.**  Whatever `fuel`, if the iteration returns, the invariant holds
for what it returns, and `e[m]` has been zeroed. -/
theorem qlIter_inv (hyp : K → K → K) (hh : HypOK hyp) (eps : K) (heps : 0 ≤ eps)
    (A0 D : Matrix (Fin 3) (Fin 3) K) (l m : Nat) (hlm : l < m) (hm : m < 3) :
    ∀ (fuel it : Nat) (t : TQ K) (r : TQ K × Nat), IterInv A0 D l m t →
      (∀ i, l ≤ i → i < m → t.e i ≠ 0) →
      qlIter abs hyp eps l m fuel it t = .ok r →
      IterInv A0 D l m r.1 ∧ r.1.e m = 0 ∧ r.1.drops = t.drops := by
  intro fuel
  induction fuel with
  | zero => intro it t r _ _ h; simp [qlIter] at h
  | succ n ih =>
    intro it t r hi hne h
    unfold qlIter at h
    obtain ⟨hi', hem, hmid, hdr⟩ := iterInv_sweep hyp hh A0 D l m hlm hm t hi hne
    simp only at h
    split at h
    · rename_i hc
      have hne' : ∀ i, l ≤ i → i < m → (qlSweep hyp l m t).e i ≠ 0 := by
        intro i h1 h2
        rcases Nat.eq_or_lt_of_le h1 with rfl | hlt
        · intro h0
          rw [h0, abs_zero] at hc
          have := mul_nonneg heps hi'.tst
          exact absurd hc (not_lt.mpr this)
        · exact hmid i hlt h2
      obtain ⟨a, b, c⟩ := ih (it + 1) _ r hi' hne' h
      exact ⟨a, b, c.trans hdr⟩
    · injection h with h
      subst h
      exact ⟨hi', hem, hdr⟩

/-! ## `for l in range(n)` -/

/-- invariant of the `for l` loop of `tql2` -/
structure TqInv (A0 : Matrix (Fin 3) (Fin 3) K) (l : Nat) (t : TQ K) : Prop where
  o1 : t.V.toMᵀ * t.V.toM = 1
  o2 : t.V.toM * t.V.toMᵀ = 1
  sim : A0 = t.V.toM * Tm l t.d t.e t.f * t.V.toMᵀ + dropSum t.drops
  low : ∀ i, i < l → t.e i = 0

/-- `d[l] += f; e[l] = 0.0` moves `e[l]` from the tridiagonal matrix to the dropped entries -/
theorem Tm_finish (l : Nat) (hl : l < 3) (d e : Vec K) (f : K) :
    Tm l d e f = Tm (l+1) (setV d l (d l + f)) (setV e l 0) f + offM l (e l) := by
  have : l = 0 ∨ l = 1 ∨ l = 2 := by omega
  rcases this with rfl | rfl | rfl <;> ext a b <;> fin_cases a <;> fin_cases b <;>
    simp [Tm, offM, setV, Vec.get]

theorem tqFinish_inv (A0 : Matrix (Fin 3) (Fin 3) K) (l m it : Nat) (hl : l < 3) (u : TQ K)
    (o1 : u.V.toMᵀ * u.V.toM = 1) (o2 : u.V.toM * u.V.toMᵀ = 1)
    (sim : A0 = u.V.toM * Tm l u.d u.e u.f * u.V.toMᵀ + dropSum u.drops)
    (low : ∀ i, i < l → u.e i = 0) : TqInv A0 (l+1) (tqFinish l m u it) := by
  refine ⟨o1, o2, ?_, ?_⟩
  · show A0 = u.V.toM * Tm (l+1) (setV u.d l (u.d l + u.f)) (setV u.e l 0) u.f * u.V.toMᵀ +
      dropSum ((u.e l, l, u.V) :: u.drops)
    rw [dropSum_cons, sim, Tm_finish l hl u.d u.e u.f, Matrix.mul_add, Matrix.add_mul]
    abel
  · intro i hi
    show (setV u.e l 0) i = 0
    have hl' : l = 0 ∨ l = 1 ∨ l = 2 := by omega
    rcases Nat.eq_or_lt_of_le (Nat.lt_succ_iff.mp hi) with rfl | hlt
    · rcases hl' with rfl | rfl | rfl <;> simp [setV, Vec.get]
    · have := low i hlt
      have hi' : i = 0 ∨ i = 1 := by omega
      rcases hl' with rfl | rfl | rfl <;> rcases hi' with rfl | rfl <;>
        first | omega | simpa [setV, Vec.get] using this

/-- the body of `for l` keeps the invariant, whatever the number of sweeps -/
theorem tqStep_inv (hyp : K → K → K) (hh : HypOK hyp) (eps : K) (heps : 0 ≤ eps) (fuel : Nat)
    (A0 : Matrix (Fin 3) (Fin 3) K) (l : Nat) (hl : l < 3) (t t' : TQ K) (hi : TqInv A0 l t)
    (h : tqStep abs hyp eps fuel t l = .ok t') : TqInv A0 (l+1) t' := by
  unfold tqStep at h
  simp only at h
  set tst1 := maxC t.tst1 (|t.d l| + |t.e l|) with htst
  have htst0 : 0 ≤ tst1 := le_trans (add_nonneg (abs_nonneg _) (abs_nonneg _)) (maxC_ge _ _)
  set m := findM abs eps tst1 t.e 3 l with hm
  obtain ⟨hlm, hne⟩ := findM_spec eps tst1 t.e 3 l
  rw [← hm] at hlm hne
  split at h
  · exact absurd h (by simp)
  · rename_i hm3
    have hm3 : m < 3 := by omega
    split at h
    · rename_i hlt
      cases hq : qlIter abs hyp eps l m fuel 0
          { t with tst1 := tst1, drops := (t.e m, m, t.V) :: t.drops } with
      | error err => rw [hq] at h; exact absurd h (by simp)
      | ok ti =>
        rw [hq] at h
        simp only at h
        injection h with h
        subst h
        have hI : IterInv A0 (dropSum ((t.e m, m, t.V) :: t.drops)) l m
            { t with tst1 := tst1, drops := (t.e m, m, t.V) :: t.drops } := by
          refine ⟨hi.o1, hi.o2, ?_, hi.low, htst0⟩
          show A0 = t.V.toM * (Tm l t.d t.e t.f - offM m (t.e m)) * t.V.toMᵀ +
            dropSum ((t.e m, m, t.V) :: t.drops)
          rw [dropSum_cons, hi.sim, Matrix.mul_sub, Matrix.sub_mul]
          abel
        have hne' : ∀ i, l ≤ i → i < m → t.e i ≠ 0 := by
          intro i h1 h2 h0
          apply hne i h1 h2
          rw [h0, abs_zero]
          exact mul_nonneg heps htst0
        obtain ⟨hJ, hem, hdr⟩ := qlIter_inv hyp hh eps heps A0 _ l m hlt hm3 fuel 0 _ ti hI hne' hq
        apply tqFinish_inv A0 l m ti.2 hl ti.1 hJ.o1 hJ.o2 _ hJ.low
        have := hJ.sim
        rw [hem, offM_zero, sub_zero] at this
        rw [this, hdr]
    · injection h with h
      subst h
      exact tqFinish_inv A0 l m 0 hl _ hi.o1 hi.o2 hi.sim hi.low

/-- `Tm` when every sub-diagonal entry has been finished -/
theorem Tm_three (d e : Vec K) (f : K) (h0 : e 0 = 0) (h1 : e 1 = 0) :
    Tm 3 d e f = Matrix.diagonal d.toF := by
  simp only [Vec.get0, Vec.get1] at h0 h1
  ext a b; fin_cases a <;> fin_cases b <;> simp [Tm, Vec.toF, Vec.get, h0, h1]

/-- the symmetric tridiagonal matrix `tred2` hands to `tql2`: diagonal `d`, `e[1]` couples
0 and 1, `e[2]` couples 1 and 2 -/
def Ttri (d e : Vec K) : Matrix (Fin 3) (Fin 3) K :=
  !![d 0, e 1, 0; e 1, d 1, e 2; 0, e 2, d 2]

/-- the state `tql2` starts its `for l` loop with (`e` renumbered, `e[n-1] = 0`) -/
def tqInit (s : St K) : TQ K :=
  { V := s.V, d := s.d, e := ⟨s.e 1, s.e 2, 0⟩, f := 0, tst1 := 0, log := s.log, drops := [] }

theorem tql2Core_eq (hyp : K → K → K) (eps : K) (fuel : Nat) (s : St K) :
    tql2Core abs hyp eps fuel s =
      (tqStep abs hyp eps fuel (tqInit s) 0 >>= fun t1 =>
       tqStep abs hyp eps fuel t1 1 >>= fun t2 => tqStep abs hyp eps fuel t2 2) := by
  unfold tql2Core
  simp only [List.range, List.range.loop, List.foldlM, bind_pure]
  rfl

/-- **`tql2` before the sort**, any fuel: `V` stays orthogonal and
`V₀ T₀ V₀ᵀ = V diag(d) Vᵀ + Σ dropped` -/
theorem tql2Core_spec (hyp : K → K → K) (hh : HypOK hyp) (eps : K) (heps : 0 ≤ eps) (fuel : Nat)
    (s : St K) (t : TQ K) (o1 : s.V.toMᵀ * s.V.toM = 1) (o2 : s.V.toM * s.V.toMᵀ = 1)
    (h : tql2Core abs hyp eps fuel s = .ok t) :
    t.V.toMᵀ * t.V.toM = 1 ∧ t.V.toM * t.V.toMᵀ = 1 ∧
    s.V.toM * Ttri s.d s.e * s.V.toMᵀ =
      t.V.toM * Matrix.diagonal t.d.toF * t.V.toMᵀ + dropSum t.drops := by
  rw [tql2Core_eq] at h
  set t0 := tqInit s with ht0
  have hi0 : TqInv (s.V.toM * Ttri s.d s.e * s.V.toMᵀ) 0 t0 := by
    refine ⟨o1, o2, ?_, fun i hi => by omega⟩
    show _ = s.V.toM * Tm 0 s.d ⟨s.e 1, s.e 2, 0⟩ 0 * s.V.toMᵀ + dropSum []
    rw [dropSum_nil, add_zero]
    congr 2
    ext a b; fin_cases a <;> fin_cases b <;> simp [Tm, Ttri, Vec.get]
  cases h1 : tqStep abs hyp eps fuel t0 0 with
  | error e => rw [h1] at h; exact absurd h (by simp [bind, Except.bind])
  | ok t1 =>
    rw [h1] at h
    simp only [bind, Except.bind] at h
    have hi1 := tqStep_inv hyp hh eps heps fuel _ 0 (by omega) t0 t1 hi0 h1
    cases h2 : tqStep abs hyp eps fuel t1 1 with
    | error e => rw [h2] at h; exact absurd h (by simp)
    | ok t2 =>
      rw [h2] at h
      simp only at h
      have hi2 := tqStep_inv hyp hh eps heps fuel _ 1 (by omega) t1 t2 hi1 h2
      cases h3 : tqStep abs hyp eps fuel t2 2 with
      | error e => rw [h3] at h; exact absurd h (by simp)
      | ok t3 =>
        rw [h3] at h
        injection h with h
        subst h
        have hi3 := tqStep_inv hyp hh eps heps fuel _ 2 (by omega) t2 t3 hi2 h3
        refine ⟨hi3.o1, hi3.o2, ?_⟩
        rw [hi3.sim, Tm_three _ _ _ (hi3.low 0 (by omega)) (hi3.low 1 (by omega))]

/-! ## the sort, and `tql2` as a whole -/

theorem recon_apply (W : Mat K) (e : Vec K) (a b : Fin 3) :
    (W.toM * Matrix.diagonal e.toF * W.toMᵀ) a b = ∑ j, W.toM a j * e.toF j * W.toM b j := by
  simp [Matrix.mul_apply, Matrix.diagonal_apply, Fin.sum_univ_three]

/-- permuting eigen-pairs consistently does not change `V diag(d) Vᵀ` -/
theorem recon_permuted {σ : Equiv.Perm (Fin 3)} {V V' : Mat K} {d d' : Vec K}
    (h : Permuted σ V d V' d') :
    V'.toM * Matrix.diagonal d'.toF * V'.toMᵀ = V.toM * Matrix.diagonal d.toF * V.toMᵀ := by
  ext a b
  rw [recon_apply, recon_apply]
  rw [← Equiv.sum_comp σ (fun j => V.toM a j * d.toF j * V.toM b j)]
  apply Finset.sum_congr rfl
  intro j _
  rw [h.2 a j, h.2 b j, h.1 j]

/-- **`tql2`**, any fuel, with the model's ghost record of dropped entries: if it returns,
`V` is orthogonal, `d` ascending, and `V₀ T₀ V₀ᵀ = V diag(d) Vᵀ + Σ (dropped entries)` -/
theorem tql2_spec (hyp : K → K → K) (hh : HypOK hyp) (eps : K) (heps : 0 ≤ eps) (fuel : Nat)
    (s : St K) (t : TQ K) (o1 : s.V.toMᵀ * s.V.toM = 1) (o2 : s.V.toM * s.V.toMᵀ = 1)
    (h : tql2 abs hyp eps fuel s = .ok t) :
    Orthonormal t.V ∧
    s.V.toM * Ttri s.d s.e * s.V.toMᵀ =
      t.V.toM * Matrix.diagonal t.d.toF * t.V.toMᵀ + dropSum t.drops ∧
    t.d 0 ≤ t.d 1 ∧ t.d 1 ≤ t.d 2 := by
  unfold tql2 at h
  cases hc : tql2Core abs hyp eps fuel s with
  | error e => rw [hc] at h; exact absurd h (by simp)
  | ok tc =>
    rw [hc] at h
    injection h with h
    subst h
    obtain ⟨c1, c2, c3⟩ := tql2Core_spec hyp hh eps heps fuel s tc o1 o2 hc
    obtain ⟨σ, hp, hs1, hs2⟩ := sortEig_spec tc
    refine ⟨hp.orthonormal c1, ?_, hs1, hs2⟩
    rw [recon_permuted hp, c3]
    congr 1
    -- the sort does not touch the ghost record
    have : ∀ (t : TQ K) i, (sortOuter t i).drops = t.drops := by
      intro t i; unfold sortOuter; simp only; split <;> rfl
    simp [sortEig, List.range, List.range.loop, List.foldl, this]

end PysphVerif.Eigen3
