import PysphVerif.Lemmas.PArraySpecOps2
/-!
C06: `add_property` without data at the record level, and the operations built
on it: `ensure_properties`, `empty_clone`, `extract_particles` into a fresh clone.
-/
namespace PysphVerif.PArray

/-- the default `add_property` records -/
def addDv (pa : PA) (name : String) (dflt : Option Int) : Int :=
  match dflt with
  | some v => v
  | none => if pa.hasProp name then pa.defaultOf name else 0

/-- `add_property(name, type, default, data=None, stride)`, structurally -/
theorem addProperty_nodata_struct {pa pa' : PA} {name ctype : String} {dflt : Option Int}
    {stride : Nat} (hr : pa.addProperty name ctype dflt none stride = some pa') :
    pa'.defaults = setKey pa.defaults name (addDv pa name dflt) ∧
    pa'.stride = strideSet pa.stride name stride ∧
    pa'.props = if pa.hasProp name then pa.props
      else pa.props ++ [⟨name, ctype, List.replicate (pa.n * stride) (addDv pa name dflt)⟩] := by
  unfold PA.addProperty at hr
  extract_lets n sizeOk dv pa1 noData d nElem pa2 nreal pa3 at hr
  have hdv : dv = addDv pa name dflt := rfl
  have hh : pa1.hasProp name = pa.hasProp name := rfl
  split at hr
  · rename_i hsz; exact absurd hsz (by simp [sizeOk])
  split at hr
  · rename_i hn0
    have hn0 : pa.n = 0 := by simpa [n] using hn0
    split at hr
    · split at hr
      · rename_i hp
        simp only [Option.some.injEq] at hr; subst hr
        rw [hh] at hp
        exact ⟨rfl, rfl, by rw [if_pos hp]⟩
      · rename_i hp
        simp only [Option.some.injEq] at hr; subst hr
        rw [hh] at hp
        refine ⟨by rw [setCol_defaults]; rfl, by rw [setCol_stride]; rfl, ?_⟩
        rw [if_neg hp, setCol_props, setColL_new _ _ (by
          show name ∉ pa.props.map Col.name
          exact fun hm => hp ((hasProp_iff pa name).mpr hm))]
        show pa.props ++ [(⟨name, ctype, []⟩ : Col)] = _
        rw [hn0]; simp
    · rename_i hno; exact absurd hno (by simp [noData])
  · split at hr
    · split at hr
      · rename_i hp
        simp only [Option.some.injEq] at hr; subst hr
        rw [hh] at hp
        exact ⟨rfl, rfl, by rw [if_pos hp]⟩
      · rename_i hp
        simp only [Option.some.injEq] at hr; subst hr
        rw [hh] at hp
        refine ⟨by rw [setCol_defaults]; rfl, by rw [setCol_stride]; rfl, ?_⟩
        rw [if_neg hp, setCol_props, setColL_new _ _ (by
          show name ∉ pa.props.map Col.name
          exact fun hm => hp ((hasProp_iff pa name).mpr hm))]
        rfl
    · rename_i hno; exact absurd hno (by simp [noData])

theorem flat_replicate_replicate (n s : Nat) (x : Int) :
    flat (List.replicate n (List.replicate s x)) = List.replicate (n * s) x := by
  induction n with
  | zero => simp [flat]
  | succ n ih =>
    rw [List.replicate_succ, Nat.succ_mul, Nat.add_comm, List.replicate_add]
    show flat (_ :: _) = _
    unfold flat at ih ⊢
    rw [List.flatten_cons, ih]

theorem rowsOf_replicate (n s : Nat) (hs : 0 < s) (x : Int) :
    rowsOf s (List.replicate (n * s) x) = List.replicate n (List.replicate s x) := by
  rw [← flat_replicate_replicate]
  apply rowsOf_flat s hs
  intro r hr
  rw [(List.mem_replicate.mp hr).2]; simp

/-- the stride `add_property` leaves for the name -/
def addStride (pa : PA) (name : String) (stride : Nat) : Nat :=
  if pa.hasProp name then (if stride = 1 then pa.strideOf name else stride) else stride

/-- **`add_property` without data** at the record level: the default row of the
name is (re)written; a new name is appended to every record with that row -/
theorem addProperty_nodata_abs {pa pa' : PA} {name ctype : String} {dflt : Option Int}
    {stride : Nat} (h : Inv pa) (h1 : 1 ≤ stride)
    (h2 : name ∈ pa.props.map Col.name → stride = 1 ∨ stride = pa.strideOf name ∨ pa.n = 0)
    (h3 : name = "tag" → stride = 1)
    (hr : pa.addProperty name ctype dflt none stride = some pa') :
    Inv pa' ∧ pa'.n = pa.n ∧
    (∀ x, x ≠ name → pa'.strideOf x = pa.strideOf x) ∧
    pa'.strideOf name = addStride pa name stride ∧
    pa'.props.map Col.name = (if pa.hasProp name then pa.props.map Col.name
      else pa.props.map Col.name ++ [name]) ∧
    absPA pa' =
      ⟨setKey (absPA pa).dflt name (List.replicate (addStride pa name stride) (addDv pa name dflt)),
       if pa.hasProp name then (absPA pa).recs
       else (absPA pa).recs.map (fun r => r ++
         [(name, List.replicate (addStride pa name stride) (addDv pa name dflt))])⟩ := by
  obtain ⟨hi', hn'⟩ := inv_addProperty_n h h1 h2 h3 (fun d hd => by simp at hd)
    (Or.inr (fun d hd => by simp at hd)) hr
  obtain ⟨hdf, hst, hpr⟩ := addProperty_nodata_struct hr
  have hso : ∀ x, x ≠ name → pa'.strideOf x = pa.strideOf x := by
    intro x hx; unfold PA.strideOf; rw [hst]; exact lookupD_strideSet_ne _ _ _ _ hx
  have hdo : ∀ x, x ≠ name → pa'.defaultOf x = pa.defaultOf x := by
    intro x hx; unfold PA.defaultOf; rw [hdf]; exact lookupD_setKey_ne _ _ _ _ _ hx
  have hdn : pa'.defaultOf name = addDv pa name dflt := by
    unfold PA.defaultOf; rw [hdf]; exact lookupD_setKey_self _ _ _ _
  have hsn : pa'.strideOf name = addStride pa name stride := by
    unfold PA.strideOf addStride
    rw [hst]
    by_cases hp : pa.hasProp name = true
    · rw [if_pos hp, lookupD_strideSet_self]; rfl
    · rw [if_neg hp]
      exact lookupD_strideSet_new h.toF name stride (fun hm => hp ((hasProp_iff pa name).mpr hm))
  refine ⟨hi', hn', hso, hsn, ?_, ?_⟩
  · rw [hpr]; split
    · rfl
    · simp
  by_cases hp : pa.hasProp name = true
  · -- the name exists: only the default row may change
    rw [if_pos hp] at hpr
    simp only [hp, if_true]
    have hmem : name ∈ pa.props.map Col.name := (hasProp_iff pa name).mp hp
    unfold absPA
    congr 1
    · unfold defaultParticle
      rw [setKey_map_props _ _ _ _ hmem, hpr]
      apply List.map_congr_left
      intro c _
      by_cases hc : c.name = name
      · simp only [hc, beq_self_eq_true, if_true]
        unfold defaultRow; rw [hsn, hdn]
      · have : (c.name == name) = false := by simpa using hc
        simp only [this, Bool.false_eq_true, if_false]
        unfold defaultRow; rw [hso _ hc, hdo _ hc]
    · -- records: unchanged (same strides, or no particles)
      unfold particles
      rw [hn']
      apply List.map_congr_left
      intro k hk
      have hk : k < pa.n := by simpa using hk
      unfold particleAt
      rw [hpr]
      apply List.map_congr_left
      intro c _
      by_cases hc : c.name = name
      · have : pa'.strideOf c.name = pa.strideOf c.name := by
          rw [hc, hsn]; unfold addStride; rw [if_pos hp]
          rcases h2 hmem with e | e | e
          · rw [if_pos e]
          · split
            · rfl
            · exact e
          · omega
        rw [this]
      · rw [hso _ hc]
  · -- a new name: one more field everywhere
    rw [if_neg hp] at hpr
    simp only [hp, Bool.false_eq_true, if_false]
    have hnm : name ∉ pa.props.map Col.name := fun hm => hp ((hasProp_iff pa name).mpr hm)
    have hs' : addStride pa name stride = stride := by unfold addStride; rw [if_neg hp]
    rw [hs'] at hsn ⊢
    have hold : ∀ c ∈ pa.props, c.name ≠ name :=
      fun c hc e => hnm (e ▸ List.mem_map_of_mem hc)
    unfold absPA
    congr 1
    · unfold defaultParticle
      rw [hpr, List.map_append, setKey_new _ _ _ (by rw [List.map_map]; exact hnm)]
      congr 1
      · apply List.map_congr_left
        intro c hc
        unfold defaultRow; rw [hso _ (hold c hc), hdo _ (hold c hc)]
      · simp only [List.map_cons, List.map_nil]
        unfold defaultRow; rw [hsn, hdn]
    · unfold particles
      rw [hn', List.map_map]
      apply List.map_congr_left
      intro k hk
      have hk : k < pa.n := by simpa using hk
      simp only [Function.comp]
      unfold particleAt
      rw [hpr, List.map_append]
      congr 1
      · apply List.map_congr_left
        intro c hc
        rw [hso _ (hold c hc)]
      · simp only [List.map_cons, List.map_nil]
        rw [hsn, rowsOf_replicate _ _ (by omega), List.getD_eq_getElem?_getD,
          List.getElem?_replicate, if_pos hk]
        rfl

theorem addProperty_nodata_isSome (pa : PA) (name ctype : String) (dflt : Option Int)
    (stride : Nat) : ∃ pa', pa.addProperty name ctype dflt none stride = some pa' := by
  unfold PA.addProperty
  extract_lets n sizeOk dv pa1 noData d nElem pa2 nreal pa3
  have h1 : sizeOk = true := rfl
  have h2 : noData = true := rfl
  simp only [h1, h2, Bool.not_true, Bool.false_eq_true, if_false, if_true]
  split <;> split <;> exact ⟨_, rfl⟩

theorem absPA_dflt_keys (pa : PA) : recKeys (absPA pa).dflt = pa.props.map Col.name :=
  defaultParticle_keys pa

theorem lookupD_absPA_dflt {pa : PA} (nm : String) (hm : nm ∈ pa.props.map Col.name) :
    lookupD (absPA pa).dflt nm [] = List.replicate (pa.strideOf nm) (pa.defaultOf nm) :=
  lookupD_defaultParticle nm hm

/-! ### ensure_properties -/

/-- the names `ensure_properties` walks -/
def ensureNames (src : PA) (props : Option (List String)) : List String :=
  match props with
  | some [] => src.props.map Col.name
  | some ps => ps
  | none => src.props.map Col.name

theorem ensureProperties_eq' (pa src : PA) (props : Option (List String)) :
    pa.ensureProperties src props = (ensureNames src props).foldl (ensureStep src) (some pa) := by
  cases props with
  | none => rfl
  | some l => cases l <;> rfl

theorem ensureNames_abs (src : PA) (props : Option (List String)) :
    specEnsureNames props (absPA src) = ensureNames src props := by
  unfold specEnsureNames ensureNames
  rw [absPA_dflt_keys]
  cases props with
  | none => rfl
  | some l => cases l <;> rfl

theorem cloneNames_abs (pa : PA) (props : Option (List String)) :
    specNames props (absPA pa) = cloneNames pa props := by
  unfold cloneNames specNames
  cases props with
  | none => exact absPA_dflt_keys pa
  | some ps => rfl

theorem ensure_refines {pa src : PA} (h : Inv pa) (hs : Inv src) (props : Option (List String))
    (hnames : ∀ nm ∈ ensureNames src props, nm ∈ src.props.map Col.name) :
    ∃ pa', pa.ensureProperties src props = some pa' ∧
      absPA pa' = specEnsure props (absPA pa) (absPA src) := by
  rw [ensureProperties_eq']
  unfold specEnsure
  rw [ensureNames_abs]
  generalize ensureNames src props = names at hnames ⊢
  obtain ⟨r, hr, hq⟩ := foldl_opt_exists (ensureStep src)
    (fun pre a => Inv a ∧ absPA a = pre.foldl (specEnsureStep (absPA src)) (absPA pa)) names
    (fun pre b suf a hl hq => by
      obtain ⟨hia, habs⟩ := hq
      have hb : b ∈ src.props.map Col.name := hnames b (by rw [hl]; simp)
      rw [List.foldl_append, List.foldl_cons, List.foldl_nil, ← habs]
      unfold ensureStep specEnsureStep
      simp only []
      by_cases hp : a.hasProp b = true
      · rw [if_pos hp, if_pos (by
          rw [absPA_dflt_keys]; simpa using (hasProp_iff a b).mp hp)]
        exact ⟨a, rfl, hia, rfl⟩
      · have hnm : b ∉ a.props.map Col.name := fun hm => hp ((hasProp_iff a b).mpr hm)
        rw [if_neg hp, if_neg (by rw [absPA_dflt_keys]; simpa using hnm)]
        obtain ⟨sc, hsc⟩ := col?_isSome_of_mem src b hb
        rw [hsc]
        simp only []
        obtain ⟨hscm, hscn⟩ := col?_some src b sc hsc
        have h1 : 1 ≤ src.strideOf b := by rw [← hscn]; exact (hs.len sc hscm).1
        obtain ⟨a', ha'⟩ := addProperty_nodata_isSome a b sc.ctype (some (src.defaultOf b))
          (src.strideOf b)
        obtain ⟨hi', _, _, _, _, habs'⟩ := addProperty_nodata_abs hia h1 (fun hm => absurd hm hnm)
          (fun e => absurd (e ▸ hia.toF.tagMem) hnm) ha'
        refine ⟨a', ha', hi', ?_⟩
        rw [habs']
        have hst : addStride a b (src.strideOf b) = src.strideOf b := by
          unfold addStride; rw [if_neg hp]
        simp only [hp, Bool.false_eq_true, if_false, hst, addDv]
        rw [lookupD_absPA_dflt b hb,
          setKey_new _ _ _ (by
            have := absPA_dflt_keys a
            unfold recKeys at this
            rw [this]; exact hnm)])
    pa ⟨h, rfl⟩
  exact ⟨r, hr, hq.2⟩

/-! ### empty_clone -/

theorem particles_of_n_zero (pa : PA) (h : pa.n = 0) : particles pa = [] := by
  unfold particles; rw [h]; rfl

theorem emptyClone_spec {pa : PA} (h : Inv pa) (props : Option (List String))
    (hnames : ∀ nm ∈ cloneNames pa props, nm ∈ pa.props.map Col.name) :
    ∃ d, pa.emptyClone props = some d ∧ Inv d ∧ d.n = 0 ∧
      absPA d = specEmptyClone props (absPA pa) ∧
      ∀ nm ∈ cloneNames pa props, d.hasProp nm = true ∧ d.strideOf nm = pa.strideOf nm := by
  rw [emptyClone_eq]
  have hall : (cloneNames pa props).all pa.hasProp = true := by
    rw [List.all_eq_true]
    intro nm hnm
    exact (hasProp_iff pa nm).mpr (hnames nm hnm)
  rw [hall]
  simp only [Bool.not_true, Bool.false_eq_true, if_false]
  have hstart : Inv ({ PA.empty "" with consts := pa.consts } : PA) :=
    InvF.toInv (pa := { PA.empty "" with consts := pa.consts }) (inv_empty "").toF
  obtain ⟨r, hr, hq⟩ := foldl_opt_exists (cloneStep pa)
    (fun pre a => Inv a ∧ a.n = 0 ∧
      (absPA a).dflt = pre.foldl (specCloneStep (absPA pa)) baseDflt ∧
      (∀ x, a.strideOf x = 1 ∨ a.strideOf x = pa.strideOf x) ∧
      (∀ nm ∈ pre, nm ∈ a.props.map Col.name ∧ a.strideOf nm = pa.strideOf nm))
    (cloneNames pa props)
    (fun pre b suf a hl hq => by
      obtain ⟨hia, hn0, habs, hstr, hpre⟩ := hq
      have hb : b ∈ pa.props.map Col.name := hnames b (by rw [hl]; simp)
      obtain ⟨c, hc⟩ := col?_isSome_of_mem pa b hb
      obtain ⟨hcm, hcn⟩ := col?_some pa b c hc
      have h1 : 1 ≤ pa.strideOf b := by rw [← hcn]; exact (h.len c hcm).1
      unfold cloneStep
      simp only [hc]
      obtain ⟨a', ha'⟩ := addProperty_nodata_isSome a b c.ctype (some (pa.defaultOf b))
        (pa.strideOf b)
      obtain ⟨hi', hn', hso, hsn, hnm', habs'⟩ := addProperty_nodata_abs hia h1
        (fun _ => Or.inr (Or.inr hn0)) (fun e => by rw [e]; exact h.tagStride) ha'
      have hst : addStride a b (pa.strideOf b) = pa.strideOf b := by
        unfold addStride
        split
        · split
          · rename_i h1'
            rcases hstr b with e | e
            · rw [e, h1']
            · exact e
          · rfl
        · rfl
      refine ⟨a', ha', hi', by rw [hn', hn0], ?_, ?_, ?_⟩
      · rw [List.foldl_append, List.foldl_cons, List.foldl_nil, ← habs, habs']
        simp only [hst, addDv]
        unfold specCloneStep
        rw [lookupD_absPA_dflt b hb]
      · intro x
        by_cases hx : x = b
        · rw [hx, hsn, hst]; exact Or.inr rfl
        · rw [hso x hx]; exact hstr x
      · intro nm hnm
        have hsub : ∀ y ∈ a.props.map Col.name, y ∈ a'.props.map Col.name := by
          intro y hy; rw [hnm']; split
          · exact hy
          · exact List.mem_append_left _ hy
        rcases List.mem_append.mp hnm with e | e
        · obtain ⟨e1, e2⟩ := hpre nm e
          refine ⟨hsub nm e1, ?_⟩
          by_cases hx : nm = b
          · rw [hx, hsn, hst]
          · rw [hso nm hx]; exact e2
        · have : nm = b := by simpa using e
          subst this
          refine ⟨?_, by rw [hsn, hst]⟩
          rw [hnm']; split
          · rename_i hp; exact (hasProp_iff a nm).mp hp
          · simp)
    _ ⟨hstart, rfl, rfl, fun x => Or.inl rfl, fun nm hnm => by simp at hnm⟩
  rw [hr]
  simp only []
  obtain ⟨hir, hn0, habs, _, hpre⟩ := hq
  have hcong : ∀ (nm : String) (outs : List String),
      absPA ({ r with name := nm, outputs := outs } : PA) = absPA r :=
    fun nm outs => absPA_congr_fields rfl rfl rfl
  refine ⟨_, rfl, InvF.toInv (pa := { r with name := _, outputs := _ }) hir.toF, hn0, ?_, ?_⟩
  · rw [hcong]
    unfold specEmptyClone
    rw [cloneNames_abs, ← habs]
    show (⟨defaultParticle r, particles r⟩ : RA) = _
    rw [particles_of_n_zero r hn0]
    rfl
  · intro nm hnm
    obtain ⟨e1, e2⟩ := hpre nm hnm
    exact ⟨(hasProp_iff r nm).mpr e1, e2⟩

/-- `extract_particles(idx, props)` into a fresh clone -/
theorem extract_refines {pa : PA} (h : Inv pa) (idx : List Nat) (al : Bool)
    (props : Option (List String))
    (hnames : ∀ nm ∈ cloneNames pa props, nm ∈ pa.props.map Col.name)
    (hin : ∀ i ∈ idx, i < pa.n) :
    ∃ pa', pa.extract idx al props = some pa' ∧
      (absPA pa').equiv (specExtractInto (cloneNames pa props) idx (absPA pa)
        (specEmptyClone props (absPA pa))) := by
  obtain ⟨d, hd, hid, _, habs, hdn⟩ := emptyClone_spec h props hnames
  unfold PA.extract
  rw [hd]
  simp only []
  obtain ⟨pa', hr⟩ := extractInto_isSome pa d idx al props
    (Or.inr (fun nm hnm => ⟨(hasProp_iff pa nm).mpr (hnames nm hnm), (hdn nm hnm).1⟩))
  refine ⟨pa', hr, ?_⟩
  rw [← habs]
  exact extractInto_refines h hid idx al props (fun nm hnm => ((hdn nm hnm).2).symm) hin hr

end PysphVerif.PArray
