import PysphVerif.Lemmas.PArraySpecOps2
/-!
C06: `add_property` without data at the record level, and the operations built
on it: `ensure_properties`, `empty_clone`, `extract_particles` into a fresh clone.
-/
namespace PysphVerif.PArray

/-- the default `add_property` records -/
def addDv (pa : PA) (name : String) (dflt : Option Int) : Int :=
  match dflt with
  | some v => v
  | none => if pa.hasProp name then pa.defaultOf name else 0

/-- `add_property(name, type, default, data=None, stride)`, structurally -/
theorem addProperty_nodata_struct {pa pa' : PA} {name ctype : String} {dflt : Option Int}
    {stride : Nat} (hr : pa.addProperty name ctype dflt none stride = some pa') :
    pa'.defaults = setKey pa.defaults name (addDv pa name dflt) ∧
    pa'.stride = strideSet pa.stride name stride ∧
    pa'.props = if pa.hasProp name then pa.props
      else pa.props ++ [⟨name, ctype, List.replicate (pa.n * stride) (addDv pa name dflt)⟩] := by
  unfold PA.addProperty at hr
  extract_lets n sizeOk dv pa1 noData d nElem pa2 nreal pa3 at hr
  have hdv : dv = addDv pa name dflt := rfl
  have hh : pa1.hasProp name = pa.hasProp name := rfl
  split at hr
  · rename_i hsz; exact absurd hsz (by simp [sizeOk])
  split at hr
  · rename_i hn0
    have hn0 : pa.n = 0 := by simpa [n] using hn0
    split at hr
    · split at hr
      · rename_i hp
        simp only [Option.some.injEq] at hr; subst hr
        rw [hh] at hp
        exact ⟨rfl, rfl, by rw [if_pos hp]⟩
      · rename_i hp
        simp only [Option.some.injEq] at hr; subst hr
        rw [hh] at hp
        refine ⟨by rw [setCol_defaults]; rfl, by rw [setCol_stride]; rfl, ?_⟩
        rw [if_neg hp, setCol_props, setColL_new _ _ (by
          show name ∉ pa.props.map Col.name
          exact fun hm => hp ((hasProp_iff pa name).mpr hm))]
        show pa.props ++ [(⟨name, ctype, []⟩ : Col)] = _
        rw [hn0]; simp
    · rename_i hno; exact absurd hno (by simp [noData])
  · split at hr
    · split at hr
      · rename_i hp
        simp only [Option.some.injEq] at hr; subst hr
        rw [hh] at hp
        exact ⟨rfl, rfl, by rw [if_pos hp]⟩
      · rename_i hp
        simp only [Option.some.injEq] at hr; subst hr
        rw [hh] at hp
        refine ⟨by rw [setCol_defaults]; rfl, by rw [setCol_stride]; rfl, ?_⟩
        rw [if_neg hp, setCol_props, setColL_new _ _ (by
          show name ∉ pa.props.map Col.name
          exact fun hm => hp ((hasProp_iff pa name).mpr hm))]
        rfl
    · rename_i hno; exact absurd hno (by simp [noData])

theorem flat_replicate_replicate (n s : Nat) (x : Int) :
    flat (List.replicate n (List.replicate s x)) = List.replicate (n * s) x := by
  induction n with
  | zero => simp [flat]
  | succ n ih =>
    rw [List.replicate_succ, Nat.succ_mul, Nat.add_comm, List.replicate_add]
    show flat (_ :: _) = _
    unfold flat at ih ⊢
    rw [List.flatten_cons, ih]

theorem rowsOf_replicate (n s : Nat) (hs : 0 < s) (x : Int) :
    rowsOf s (List.replicate (n * s) x) = List.replicate n (List.replicate s x) := by
  rw [← flat_replicate_replicate]
  apply rowsOf_flat s hs
  intro r hr
  rw [(List.mem_replicate.mp hr).2]; simp

/-- the stride `add_property` leaves for the name -/
def addStride (pa : PA) (name : String) (stride : Nat) : Nat :=
  if pa.hasProp name then (if stride = 1 then pa.strideOf name else stride) else stride

/-- **`add_property` without data** at the record level: the default row of the
name is (re)written; a new name is appended to every record with that row -/
theorem addProperty_nodata_abs {pa pa' : PA} {name ctype : String} {dflt : Option Int}
    {stride : Nat} (h : Inv pa) (h1 : 1 ≤ stride)
    (h2 : name ∈ pa.props.map Col.name → stride = 1 ∨ stride = pa.strideOf name ∨ pa.n = 0)
    (h3 : name = "tag" → stride = 1)
    (hr : pa.addProperty name ctype dflt none stride = some pa') :
    Inv pa' ∧ pa'.n = pa.n ∧
    (∀ x, x ≠ name → pa'.strideOf x = pa.strideOf x) ∧
    pa'.strideOf name = addStride pa name stride ∧
    pa'.props.map Col.name = (if pa.hasProp name then pa.props.map Col.name
      else pa.props.map Col.name ++ [name]) ∧
    absPA pa' =
      ⟨setKey (absPA pa).dflt name (List.replicate (addStride pa name stride) (addDv pa name dflt)),
       if pa.hasProp name then (absPA pa).recs
       else (absPA pa).recs.map (fun r => r ++
         [(name, List.replicate (addStride pa name stride) (addDv pa name dflt))])⟩ := by
  obtain ⟨hi', hn'⟩ := inv_addProperty_n h h1 h2 h3 (fun d hd => by simp at hd)
    (Or.inr (fun d hd => by simp at hd)) hr
  obtain ⟨hdf, hst, hpr⟩ := addProperty_nodata_struct hr
  have hso : ∀ x, x ≠ name → pa'.strideOf x = pa.strideOf x := by
    intro x hx; unfold PA.strideOf; rw [hst]; exact lookupD_strideSet_ne _ _ _ _ hx
  have hdo : ∀ x, x ≠ name → pa'.defaultOf x = pa.defaultOf x := by
    intro x hx; unfold PA.defaultOf; rw [hdf]; exact lookupD_setKey_ne _ _ _ _ _ hx
  have hdn : pa'.defaultOf name = addDv pa name dflt := by
    unfold PA.defaultOf; rw [hdf]; exact lookupD_setKey_self _ _ _ _
  have hsn : pa'.strideOf name = addStride pa name stride := by
    unfold PA.strideOf addStride
    rw [hst]
    by_cases hp : pa.hasProp name = true
    · rw [if_pos hp, lookupD_strideSet_self]; rfl
    · rw [if_neg hp]
      exact lookupD_strideSet_new h.toF name stride (fun hm => hp ((hasProp_iff pa name).mpr hm))
  refine ⟨hi', hn', hso, hsn, ?_, ?_⟩
  · rw [hpr]; split
    · rfl
    · simp
  by_cases hp : pa.hasProp name = true
  · -- the name exists: only the default row may change
    rw [if_pos hp] at hpr
    simp only [hp, if_true]
    have hmem : name ∈ pa.props.map Col.name := (hasProp_iff pa name).mp hp
    unfold absPA
    congr 1
    · unfold defaultParticle
      rw [setKey_map_props _ _ _ _ hmem, hpr]
      apply List.map_congr_left
      intro c _
      by_cases hc : c.name = name
      · simp only [hc, beq_self_eq_true, if_true]
        unfold defaultRow; rw [hsn, hdn]
      · have : (c.name == name) = false := by simpa using hc
        simp only [this, Bool.false_eq_true, if_false]
        unfold defaultRow; rw [hso _ hc, hdo _ hc]
    · -- records: unchanged (same strides, or no particles)
      unfold particles
      rw [hn']
      apply List.map_congr_left
      intro k hk
      have hk : k < pa.n := by simpa using hk
      unfold particleAt
      rw [hpr]
      apply List.map_congr_left
      intro c _
      by_cases hc : c.name = name
      · have : pa'.strideOf c.name = pa.strideOf c.name := by
          rw [hc, hsn]; unfold addStride; rw [if_pos hp]
          rcases h2 hmem with e | e | e
          · rw [if_pos e]
          · split
            · rfl
            · exact e
          · omega
        rw [this]
      · rw [hso _ hc]
  · -- a new name: one more field everywhere
    rw [if_neg hp] at hpr
    simp only [hp, Bool.false_eq_true, if_false]
    have hnm : name ∉ pa.props.map Col.name := fun hm => hp ((hasProp_iff pa name).mpr hm)
    have hs' : addStride pa name stride = stride := by unfold addStride; rw [if_neg hp]
    rw [hs'] at hsn ⊢
    have hold : ∀ c ∈ pa.props, c.name ≠ name :=
      fun c hc e => hnm (e ▸ List.mem_map_of_mem hc)
    unfold absPA
    congr 1
    · unfold defaultParticle
      rw [hpr, List.map_append, setKey_new _ _ _ (by rw [List.map_map]; exact hnm)]
      congr 1
      · apply List.map_congr_left
        intro c hc
        unfold defaultRow; rw [hso _ (hold c hc), hdo _ (hold c hc)]
      · simp only [List.map_cons, List.map_nil]
        unfold defaultRow; rw [hsn, hdn]
    · unfold particles
      rw [hn', List.map_map]
      apply List.map_congr_left
      intro k hk
      have hk : k < pa.n := by simpa using hk
      simp only [Function.comp]
      unfold particleAt
      rw [hpr, List.map_append]
      congr 1
      · apply List.map_congr_left
        intro c hc
        rw [hso _ (hold c hc)]
      · simp only [List.map_cons, List.map_nil]
        rw [hsn, rowsOf_replicate _ _ (by omega), List.getD_eq_getElem?_getD,
          List.getElem?_replicate, if_pos hk]
        rfl

end PysphVerif.PArray
