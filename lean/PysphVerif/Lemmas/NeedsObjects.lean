import PysphVerif.Model.NeedsObjects
/-
C20 — helper lemmas for `Model/NeedsObjects.lean` (stepper objects given to
keywords): membership in the (array, stepper) pairs, and the de-duplication by
object being the identity when no object is shared.
-/
namespace PysphVerif.Needs

theorem mem_pairsOf (objs : List StepObj) (kw : List (Name × Nat)) (st : Stepper) :
    st ∈ pairsOf objs kw ↔ ∃ k ∈ kw, ∃ o, objs[k.2]? = some o ∧ o.on k.1 = st := by
  simp only [pairsOf, pairOf, List.mem_filterMap, Option.map_eq_some_iff]

theorem on_dest (o : StepObj) (d : Name) : (o.on d).dest = d := rfl
theorem on_cls (o : StepObj) (d : Name) : (o.on d).cls = o.cls := rfl
theorem on_methods (o : StepObj) (d : Name) : (o.on d).methods = o.methods := rfl

theorem firstPerObject_eq_self (seen : List Nat) (kw : List (Name × Nat))
    (hnd : (kw.map (·.2)).Nodup) (hdis : ∀ k ∈ kw, k.2 ∉ seen) :
    firstPerObject seen kw = kw := by
  induction kw generalizing seen with
  | nil => rfl
  | cons k rest ih =>
    have hk : k.2 ∉ seen := hdis k List.mem_cons_self
    simp only [List.map_cons, List.nodup_cons, List.mem_map, not_exists, not_and] at hnd
    simp only [firstPerObject, List.contains_eq_mem, hk, decide_false, Bool.false_eq_true,
      if_false]
    congr 1
    apply ih _ hnd.2
    intro k' hk' hmem
    rcases List.mem_cons.mp hmem with h | h
    · exact hnd.1 k' hk' h
    · exact hdis k' (List.mem_cons_of_mem _ hk') h

end PysphVerif.Needs
