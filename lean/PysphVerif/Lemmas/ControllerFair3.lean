import PysphVerif.Lemmas.ControllerFair2
/-!
C18: strongly fair schedules exist for every set of well-formed programs (the
hypothesis of `fair_terminates` is satisfiable): run the finishing schedule of
`can_finish`, then the solver for ever.
-/
set_option linter.unusedVariables false
namespace PysphVerif.Controller

set_option maxHeartbeats 2000000 in
/-- a solver step changes an interface thread only by waking it from `plock.wait()` -/
theorem solver_th {s s' : State} {evs : List Ev} (u : Tid)
    (hw : ∀ v ∈ s.pWait, (s.th v).pc = IPc.wBlocked) (hu : (s.th u).pc ≠ IPc.wBlocked)
    (hs : stepSolver Cfg.fixed s = some (s', evs)) : s'.th u = s.th u := by
  unfold stepSolver at hs
  simp only [Cfg.fixed, runQueue, afterRun, checkPause, wakeAllP] at hs
  (repeat' split at hs) <;>
  first
  | (cases hs; done)
  | (simp only [Option.some.injEq, Prod.mk.injEq] at hs
     obtain ⟨rfl, -⟩ := hs
     (repeat' split) <;> grind)

/-- a finite enabled schedule followed along `σ` from position `k` -/
theorem trace_run (ps : List (List Op)) (σ : Nat → Tid) : ∀ (sched : List Tid) (k : Nat),
    (∀ i, (h : i < sched.length) → σ (k + i) = sched[i]) →
    runs Cfg.fixed (trace ps σ k) sched = true →
    trace ps σ (k + sched.length) = run Cfg.fixed (trace ps σ k) sched
  | [], k, _, _ => rfl
  | t :: ts, k, hσ, hruns => by
    have h0 : σ k = t := by
      have := hσ 0 (by simp)
      simpa only [Nat.add_zero, List.getElem_cons_zero] using this
    unfold runs at hruns
    unfold run
    cases hstep : step Cfg.fixed (trace ps σ k) t with
    | none => simp [hstep] at hruns
    | some x =>
      obtain ⟨s', evs⟩ := x
      simp only [hstep] at hruns ⊢
      have hk1 : trace ps σ (k + 1) = s' := trace_succ_some (by rw [h0]; exact hstep)
      have := trace_run ps σ ts (k + 1)
        (fun i h => by
          have := hσ (i + 1) (by simp; omega)
          simpa [Nat.add_assoc, Nat.add_comm 1 i] using this)
        (by rw [hk1]; exact hruns)
      rw [hk1] at this
      rw [← this]
      congr 1
      simp; omega

theorem strongly_fair_exists {ps : List (List Op)} (hwf : ∀ p ∈ ps, WF false p = true) :
    ∃ σ, StronglyFair ps σ := by
  obtain ⟨sched, -, hruns, hfin⟩ := can_finish hwf (init (progsOf ps)) Reachable.init
  refine ⟨fun i => sched.getD i 0, ?_⟩
  generalize hσ : (fun i => sched.getD i 0) = σ
  have hσ1 : ∀ i, (h : i < sched.length) → σ (0 + i) = sched[i] := by
    intro i h; subst hσ; simp [List.getD_eq_getElem?_getD, List.getElem?_eq_getElem h]
  have hσ2 : ∀ i, sched.length ≤ i → σ i = 0 := by
    intro i h; subst hσ; simp [List.getD_eq_getElem?_getD, List.getElem?_eq_none h]
  have hL : trace ps σ (0 + sched.length) = run Cfg.fixed (init (progsOf ps)) sched :=
    trace_run ps σ sched 0 hσ1 hruns
  rw [Nat.zero_add] at hL
  -- from the end of `sched` on every interface thread stays finished
  have hdone : ∀ j, sched.length ≤ j → ∀ t, 1 ≤ t → t ≤ ps.length →
      ((trace ps σ j).th t).pc = IPc.idle ∧ ((trace ps σ j).th t).prog = [] := by
    intro j hj
    induction j with
    | zero =>
      have : sched.length = 0 := by omega
      rw [this] at hL; rw [hL]; exact hfin.1
    | succ m ih =>
      by_cases hm : sched.length ≤ m
      · intro t h1 h2
        have hprev := ih hm t h1 h2
        cases hstep : step Cfg.fixed (trace ps σ m) (σ m) with
        | none => rw [trace_succ_none hstep]; exact hprev
        | some x =>
          obtain ⟨s', evs⟩ := x
          rw [trace_succ_some hstep]
          rw [hσ2 m hm] at hstep
          have hs : stepSolver Cfg.fixed (trace ps σ m) = some (s', evs) := by
            simpa [step] using hstep
          have hW := reachable_w (cfg := Cfg.fixed) rfl rfl (trace_reachable ps σ m)
          rw [solver_th t hW.waiting (by rw [hprev.1]; intro e; cases e) hs]
          exact hprev
      · have : sched.length = m + 1 := by omega
        rw [← this, hL]; exact hfin.1
  intro t htn hio i
  by_cases ht0 : t = 0
  · subst ht0
    obtain ⟨j, hj, hen⟩ := hio (max i sched.length)
    exact ⟨j, by omega, hσ2 j (by omega), hen⟩
  · exfalso
    obtain ⟨j, hj, hen⟩ := hio sched.length
    have := hdone j hj t (Nat.pos_of_ne_zero ht0) htn
    simp [enabled, step, ht0, stepIface, this.1, this.2] at hen

end PysphVerif.Controller
