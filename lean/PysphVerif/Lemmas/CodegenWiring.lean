import PysphVerif.Model.Codegen
/-!
C02 — wiring of array pointers, known types and per-thread scratch vectors
(model: `Model/Codegen.lean`, section 4).

* `wiring_sides`         every pointer line has the right side and property,
* `wiring_dest_cover`, `wiring_src_cover`, `wiring_precomp_cover`
                         every array an equation (or a precomputed code block)
                         mentions is wired in the block that runs it,
* `knownTypes_sound`     the declared type of an array is that of its property,
* `scratch_parts`        the per-thread parts of a scratch vector are disjoint
                         and inside the allocation.

Core Lean only.
-/
namespace PysphVerif.Codegen

/-! ## membership in the building blocks -/

theorem mem_sortDedup (l : List Name) (n : Name) : n ∈ sortDedup l ↔ n ∈ l := by
  unfold sortDedup
  rw [mem_isort, List.mem_eraseDups]

theorem mem_destList (eqs : List Eqn) (d : Name) :
    d ∈ destList eqs ↔ ∃ e ∈ eqs, e.dest = d := by
  simp only [destList, List.mem_eraseDups, List.mem_map]

theorem mem_sourceList (eqs : List Eqn) (D s : Name) :
    s ∈ sourceList eqs D ↔ ∃ e ∈ eqs, e.dest = D ∧ s ∈ e.sources := by
  simp only [sourceList, List.mem_eraseDups, List.mem_flatMap, List.mem_filter, beq_iff_eq]
  constructor
  · rintro ⟨e, ⟨he, hd⟩, hs⟩
    exact ⟨e, he, hd, hs⟩
  · rintro ⟨e, he, hd, hs⟩
    exact ⟨e, ⟨he, hd⟩, hs⟩

theorem mem_eqsOfSource (eqs : List Eqn) (D s : Name) (e : Eqn) :
    e ∈ eqsOfSource eqs D s ↔ e ∈ eqs ∧ e.dest = D ∧ s ∈ e.sources := by
  simp only [eqsOfSource, List.mem_flatMap, List.mem_filter, List.mem_map, beq_iff_eq]
  constructor
  · rintro ⟨e', ⟨he', hd⟩, x, ⟨hx, rfl⟩, rfl⟩
    exact ⟨he', hd, hx⟩
  · rintro ⟨he, hd, hs⟩
    exact ⟨e, ⟨he, hd⟩, s, ⟨hs, rfl⟩, rfl⟩

theorem mem_allEqsOf (eqs : List Eqn) (D : Name) (e : Eqn) :
    e ∈ allEqsOf eqs D ↔ e ∈ eqs ∧ e.dest = D := by
  simp only [allEqsOf, List.mem_eraseDups, List.mem_filter, beq_iff_eq]

theorem mem_noSrcEqsOf (eqs : List Eqn) (D : Name) (e : Eqn) :
    e ∈ noSrcEqsOf eqs D ↔ (e ∈ eqs ∧ e.dest = D) ∧ e.sources = [] := by
  simp only [noSrcEqsOf, List.mem_filter, beq_iff_eq, Eqn.noSource, List.isEmpty_iff]

theorem mem_groupNames (t : Table Name) (g : List Eqn) (x : Name) :
    x ∈ groupNames t g ↔
      (∃ e ∈ g, x ∈ e.allArgs) ∨ (∃ p ∈ groupPrecomp t g, x ∈ t.syms p) := by
  simp only [groupNames, List.mem_append, List.mem_flatMap]

theorem mem_srcSetup (t : Table Name) (g : List Eqn) (a : Assign) :
    a ∈ srcSetup t g ↔
      ∃ n, (n ∈ groupNames t g ∧ isSrcArr n = true) ∧ (⟨n, .src, strip n⟩ : Assign) = a := by
  simp only [srcSetup, List.mem_map, mem_sortDedup, groupSrcNames, List.mem_filter]

theorem mem_destSetup (t : Table Name) (ns : List Eqn) (gs : List (List Eqn)) (a : Assign) :
    a ∈ destSetup t ns gs ↔
      ∃ n, ((n ∈ groupNames t ns ∧ isDstArr n = true) ∨
          ∃ g ∈ gs, n ∈ groupNames t g ∧ isDstArr n = true) ∧
        (⟨n, .dst, strip n⟩ : Assign) = a := by
  simp only [destSetup, List.mem_map, mem_sortDedup, groupDstNames, List.mem_append,
    List.mem_filter, List.mem_flatMap]

theorem mem_wiring (t : Table Name) (eqs : List Eqn) (db : DestBlock) :
    db ∈ wiring t eqs ↔ ∃ D ∈ destList eqs, mkDestBlock t eqs D = db := by
  simp only [wiring, List.mem_map]

theorem mem_mkDestBlock_srcs (t : Table Name) (eqs : List Eqn) (D : Name) (sb : SrcBlock) :
    sb ∈ (mkDestBlock t eqs D).srcs ↔ ∃ s ∈ sourceList eqs D, mkSrcBlock t eqs D s = sb := by
  simp only [mkDestBlock, List.mem_map]

/-! ## the pointer lines -/

theorem wiring_sides (t : Table Name) (eqs : List Eqn) :
    ∀ db ∈ wiring t eqs,
      (∀ a ∈ db.assigns, a.side = .dst ∧ isDstArr a.lhs = true ∧ a.prop = strip a.lhs) ∧
      (∀ sb ∈ db.srcs, ∀ a ∈ sb.assigns,
        a.side = .src ∧ isSrcArr a.lhs = true ∧ a.prop = strip a.lhs) := by
  intro db hdb
  obtain ⟨D, _, rfl⟩ := (mem_wiring t eqs db).mp hdb
  constructor
  · intro a ha
    have ha' : a ∈ destSetup t (noSrcEqsOf eqs D)
        ((sourceList eqs D).map (eqsOfSource eqs D)) := ha
    obtain ⟨n, hn, rfl⟩ := (mem_destSetup t _ _ a).mp ha'
    refine ⟨rfl, ?_, rfl⟩
    rcases hn with hn | ⟨g, _, hn⟩
    · exact hn.2
    · exact hn.2
  · intro sb hsb a ha
    obtain ⟨s, _, rfl⟩ := (mem_mkDestBlock_srcs t eqs D sb).mp hsb
    have ha' : a ∈ srcSetup t (eqsOfSource eqs D s) := ha
    obtain ⟨n, hn, rfl⟩ := (mem_srcSetup t _ a).mp ha'
    exact ⟨rfl, hn.2, rfl⟩

theorem wiring_dest_cover (t : Table Name) (eqs : List Eqn) (e : Eqn) (he : e ∈ eqs)
    (x : Name) (hx : x ∈ e.allArgs) (hd : isDstArr x = true) :
    ∃ db ∈ wiring t eqs, db.dest = e.dest ∧ e ∈ db.allEqs ∧
      (⟨x, .dst, strip x⟩ : Assign) ∈ db.assigns := by
  refine ⟨mkDestBlock t eqs e.dest,
    (mem_wiring t eqs _).mpr ⟨e.dest, (mem_destList eqs _).mpr ⟨e, he, rfl⟩, rfl⟩, rfl,
    (mem_allEqsOf eqs e.dest e).mpr ⟨he, rfl⟩, ?_⟩
  show (⟨x, .dst, strip x⟩ : Assign) ∈ destSetup t (noSrcEqsOf eqs e.dest)
    ((sourceList eqs e.dest).map (eqsOfSource eqs e.dest))
  rw [mem_destSetup]
  refine ⟨x, ?_, rfl⟩
  cases hs : e.sources with
  | nil =>
    left
    exact ⟨(mem_groupNames t _ x).mpr
      (Or.inl ⟨e, (mem_noSrcEqsOf eqs e.dest e).mpr ⟨⟨he, rfl⟩, hs⟩, hx⟩), hd⟩
  | cons s ss =>
    right
    have hse : s ∈ e.sources := by rw [hs]; exact List.mem_cons_self
    refine ⟨eqsOfSource eqs e.dest s,
      List.mem_map.mpr ⟨s, (mem_sourceList eqs e.dest s).mpr ⟨e, he, rfl, hse⟩, rfl⟩, ?_, hd⟩
    exact (mem_groupNames t _ x).mpr
      (Or.inl ⟨e, (mem_eqsOfSource eqs e.dest s e).mpr ⟨he, rfl, hse⟩, hx⟩)

theorem wiring_src_cover (t : Table Name) (eqs : List Eqn) (e : Eqn) (he : e ∈ eqs)
    (s : Name) (hs : s ∈ e.sources) (x : Name) (hx : x ∈ e.allArgs) (hsrc : isSrcArr x = true) :
    ∃ db ∈ wiring t eqs, db.dest = e.dest ∧ ∃ sb ∈ db.srcs, sb.source = s ∧ e ∈ sb.eqs ∧
      (⟨x, .src, strip x⟩ : Assign) ∈ sb.assigns := by
  have hmem : e ∈ eqsOfSource eqs e.dest s := (mem_eqsOfSource eqs e.dest s e).mpr ⟨he, rfl, hs⟩
  refine ⟨mkDestBlock t eqs e.dest,
    (mem_wiring t eqs _).mpr ⟨e.dest, (mem_destList eqs _).mpr ⟨e, he, rfl⟩, rfl⟩, rfl,
    mkSrcBlock t eqs e.dest s,
    (mem_mkDestBlock_srcs t eqs e.dest _).mpr
      ⟨s, (mem_sourceList eqs e.dest s).mpr ⟨e, he, rfl, hs⟩, rfl⟩,
    rfl, hmem, ?_⟩
  show (⟨x, .src, strip x⟩ : Assign) ∈ srcSetup t (eqsOfSource eqs e.dest s)
  rw [mem_srcSetup]
  exact ⟨x, ⟨(mem_groupNames t _ x).mpr (Or.inl ⟨e, hmem, hx⟩), hsrc⟩, rfl⟩

theorem wiring_precomp_cover (t : Table Name) (eqs : List Eqn) :
    ∀ db ∈ wiring t eqs, ∀ sb ∈ db.srcs, ∀ p ∈ groupPrecomp t sb.eqs, ∀ x ∈ t.syms p,
      (isSrcArr x = true → (⟨x, .src, strip x⟩ : Assign) ∈ sb.assigns) ∧
      (isDstArr x = true → (⟨x, .dst, strip x⟩ : Assign) ∈ db.assigns) := by
  intro db hdb sb hsb p hp x hx
  obtain ⟨D, _, rfl⟩ := (mem_wiring t eqs db).mp hdb
  obtain ⟨s, hs, rfl⟩ := (mem_mkDestBlock_srcs t eqs D sb).mp hsb
  have hp' : p ∈ groupPrecomp t (eqsOfSource eqs D s) := hp
  have hg : x ∈ groupNames t (eqsOfSource eqs D s) :=
    (mem_groupNames t _ x).mpr (Or.inr ⟨p, hp', hx⟩)
  constructor
  · intro hsrc
    show (⟨x, .src, strip x⟩ : Assign) ∈ srcSetup t (eqsOfSource eqs D s)
    rw [mem_srcSetup]
    exact ⟨x, ⟨hg, hsrc⟩, rfl⟩
  · intro hdst
    show (⟨x, .dst, strip x⟩ : Assign) ∈ destSetup t (noSrcEqsOf eqs D)
      ((sourceList eqs D).map (eqsOfSource eqs D))
    rw [mem_destSetup]
    exact ⟨x, Or.inr ⟨eqsOfSource eqs D s, List.mem_map.mpr ⟨s, hs, rfl⟩, hg, hdst⟩, rfl⟩

/-! ## known types -/

theorem prefix_cancel (pre a b : String) (h : pre ++ a = pre ++ b) : a = b :=
  (String.append_right_inj pre).mp h

theorem s_ne_d (a b : String) : "s_" ++ a ≠ "d_" ++ b := by
  intro h
  have := congrArg String.toList h
  simp [String.toList_append] at this

/-- a dict lookup whose key is present and whose entries for that key agree -/
theorem lookupLast_eq (kt : List (Name × Name)) (k v : Name)
    (hex : ∃ e ∈ kt, e.1 = k) (hval : ∀ e ∈ kt, e.1 = k → e.2 = v) :
    lookupLast kt k = some v := by
  unfold lookupLast
  cases hf : kt.reverse.find? (fun e => e.1 == k) with
  | none =>
    rw [List.find?_eq_none] at hf
    obtain ⟨e, he, hk⟩ := hex
    exact absurd (by simpa using hk) (hf e (List.mem_reverse.mpr he))
  | some e =>
    have h1 := List.find?_some hf
    have h2 := List.mem_reverse.mp (List.mem_of_find?_eq_some hf)
    simp only [beq_iff_eq] at h1
    simp only [Option.map_some, Option.some.injEq]
    exact hval e h2 h1

/-- the entries of `get_all_array_names` -/
theorem mem_allArrayNames (pas : List PArr) (c : Name × Name × List Name) :
    c ∈ allArrayNames pas ↔
      ∃ q ∈ pas.flatMap (·.props), c = (q.2.1, q.2.2,
        (((pas.flatMap (·.props)).filter (fun r => r.2.1 == q.2.1)).map (·.1)).eraseDups) := by
  simp only [allArrayNames, List.mem_map, List.mem_eraseDups]
  constructor
  · rintro ⟨c', ⟨q, hq, rfl⟩, rfl⟩
    exact ⟨q, hq, rfl⟩
  · rintro ⟨q, hq, rfl⟩
    exact ⟨(q.2.1, q.2.2), ⟨q, hq, rfl⟩, rfl⟩

/-- the entries of `get_known_types_for_arrays` -/
theorem mem_knownTypes (an : List (Name × Name × List Name)) (e : Name × Name) :
    e ∈ knownTypes an ↔ ∃ c ∈ an, ∃ arr ∈ c.2.2,
      e = ("s_" ++ arr, c.2.1 ++ "*") ∨ e = ("d_" ++ arr, c.2.1 ++ "*") := by
  simp only [knownTypes, List.mem_flatMap, List.mem_cons, List.not_mem_nil, or_false]

/-- `knownTypes_sound` needs that a carray class has one C type (`hfun`): the
model (like the Python) takes the C type of a class from any property of that
class, so two properties of one class with different C types would clash. -/
theorem knownTypes_sound (pas : List PArr) (p cls cty : Name)
    (hex : ∃ pa ∈ pas, (p, cls, cty) ∈ pa.props)
    (hcons : ∀ pa ∈ pas, ∀ q ∈ pa.props, q.1 = p → q.2.2 = cty)
    (hfun : ∀ pa ∈ pas, ∀ q ∈ pa.props, ∀ pa' ∈ pas, ∀ q' ∈ pa'.props,
      q.2.1 = q'.2.1 → q.2.2 = q'.2.2) :
    lookupLast (knownTypes (allArrayNames pas)) ("d_" ++ p) = some (cty ++ "*") ∧
    lookupLast (knownTypes (allArrayNames pas)) ("s_" ++ p) = some (cty ++ "*") := by
  -- the value of every entry for property `p`
  have hval : ∀ e ∈ knownTypes (allArrayNames pas), ∀ arr, arr = p →
      (e.1 = "s_" ++ arr ∨ e.1 = "d_" ++ arr) → e.2 = cty ++ "*" := by
    intro e he arr harr hkey
    obtain ⟨c, hc, arr', harr', hee⟩ := (mem_knownTypes _ e).mp he
    obtain ⟨q', hq', rfl⟩ := (mem_allArrayNames pas c).mp hc
    have harr'' : arr' = p := by
      subst harr
      rcases hee with rfl | rfl <;> rcases hkey with hk | hk
      · exact prefix_cancel _ _ _ hk
      · exact absurd hk (s_ne_d _ _)
      · exact absurd hk.symm (s_ne_d _ _)
      · exact prefix_cancel _ _ _ hk
    simp only [List.mem_eraseDups, List.mem_map, List.mem_filter, beq_iff_eq] at harr'
    obtain ⟨q, ⟨hq, hqc⟩, hqn⟩ := harr'
    obtain ⟨pa, hpa, hqpa⟩ := List.mem_flatMap.mp hq
    obtain ⟨pa', hpa', hqpa'⟩ := List.mem_flatMap.mp hq'
    have h1 : q.2.2 = cty := hcons pa hpa q hqpa (hqn.trans harr'')
    have h2 : q.2.2 = q'.2.2 := hfun pa hpa q hqpa pa' hpa' q' hqpa' hqc
    have h3 : q'.2.2 = cty := h2 ▸ h1
    rcases hee with rfl | rfl <;> simp only [h3]
  -- both entries exist
  obtain ⟨pa, hpa, hp⟩ := hex
  have hall : (p, cls, cty) ∈ pas.flatMap (·.props) := List.mem_flatMap.mpr ⟨pa, hpa, hp⟩
  have hc := (mem_allArrayNames pas _).mpr ⟨(p, cls, cty), hall, rfl⟩
  have hnames : p ∈ (((pas.flatMap (·.props)).filter (fun r => r.2.1 == cls)).map
      (·.1)).eraseDups := by
    simp only [List.mem_eraseDups, List.mem_map, List.mem_filter, beq_iff_eq]
    exact ⟨(p, cls, cty), ⟨hall, rfl⟩, rfl⟩
  constructor
  · apply lookupLast_eq
    · exact ⟨("d_" ++ p, cty ++ "*"),
        (mem_knownTypes _ _).mpr ⟨_, hc, p, hnames, Or.inr rfl⟩, rfl⟩
    · intro e he hk
      exact hval e he p rfl (Or.inr hk)
  · apply lookupLast_eq
    · exact ⟨("s_" ++ p, cty ++ "*"),
        (mem_knownTypes _ _).mpr ⟨_, hc, p, hnames, Or.inl rfl⟩, rfl⟩
    · intro e he hk
      exact hval e he p rfl (Or.inl hk)

/-! ## scratch vectors -/

theorem le_aligned8 (n : Nat) : n ≤ aligned8 n := by
  unfold aligned8
  omega

theorem scratch_lt_next (A i j k : Nat) (hij : i < j) (hk : k < A) : i * A + k < j * A := by
  have h : (i + 1) * A ≤ j * A := Nat.mul_le_mul_right A hij
  rw [Nat.add_mul, Nat.one_mul] at h
  omega

set_option linter.unusedVariables false in
theorem scratch_parts (size n i j k l : Nat) (hi : i < n) (hj : j < n) (hij : i ≠ j)
    (hk : k < size) (hl : l < size) :
    scratchOffset size i + k ≠ scratchOffset size j + l ∧
    scratchOffset size i + k < scratchAlloc size n := by
  have hA := le_aligned8 size
  unfold scratchOffset scratchAlloc
  constructor
  · rcases Nat.lt_or_gt_of_ne hij with h | h
    · have := scratch_lt_next (aligned8 size) i j k h (by omega)
      omega
    · have := scratch_lt_next (aligned8 size) j i l h (by omega)
      omega
  · have := scratch_lt_next (aligned8 size) i n k hi (by omega)
    rw [Nat.mul_comm (aligned8 size) n]
    exact this

end PysphVerif.Codegen
