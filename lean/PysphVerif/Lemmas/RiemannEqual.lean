import PysphVerif.Lemmas.RiemannScale
/-!
# C15 — the iterative solvers on equal states, and positivity of a successful `van_leer`
-/
set_option linter.unusedSectionVars false
namespace PysphVerif.Riemann
open PysphVerif.Gen.Riemann

variable {K : Type} [Field K] [LinearOrder K] [IsStrictOrderedRing K]

/-! ## `van_leer` -/

theorem vlNewP_equal (Vl Vr g2 p u wl wr : K) : vlNewP Vl Vr g2 p p u u p wl wr = p := by
  simp [vlNewP]

theorem vlStep_of_true (cv : Bool) (h : cv = true) (it : Int) (P' WL WR P : K) (hP : P' = P) :
    vlStep cv it P' WL WR = (true, ⟨true, it, P, WL, WR⟩) := by
  subst h hP; rfl

/-- equal states: the first pass converges with `p* = p` (`sp ≤ p`, `tol > 0`, at least one pass) -/
theorem vlFrom_equal (sqrt : K → K) (pow : K → K → K) (c rho p u gamma : K) (niter : Int)
    (tol sp : K) (hsp : sp ≤ p) (htol : 0 < tol) (hn : 1 ≤ niter) :
    vlFrom (fieldOps sqrt pow) c c rho rho p p u u gamma niter tol sp = ⟨0, p, u⟩ := by
  unfold vlFrom
  have e0 : p + (p - p - c * (u - u)) * c / (c + c) = p := by
    rw [show p - p - c * (u - u) = 0 by ring, zero_mul, zero_div, add_zero]
  have e1 : pymax p sp = p := by rw [pymax_comm, pymax_of_le hsp]
  rw [e0, e1]
  obtain ⟨k, hk⟩ : ∃ k, niter.toNat = k + 1 := ⟨niter.toNat - 1, by omega⟩
  rw [hk]
  simp only [van_leer_loop]
  have hc : van_leer_loop_cond niter (⟨false, 0, p, 0, 0⟩ : van_leer_loopSt K) := by
    show (0 : Int) < niter
    omega
  rw [if_pos hc]
  have hP : pymax sp (vlNewP (1 / rho) (1 / rho) (1 + gamma) p p u u p
      (c * sqrt (1 + 1 / 2 * (1 + gamma) / gamma * (p - p) / p))
      (c * sqrt (1 + 1 / 2 * (1 + gamma) / gamma * (p - p) / p))) = p := by
    rw [vlNewP_equal, pymax_of_le hsp]
  have hb : van_leer_loop_body (fieldOps sqrt pow) (1 / rho) (1 / rho) c c (1 / 2 * (1 + gamma) / gamma)
      (1 + gamma) niter p p sp tol u u ⟨false, 0, p, 0, 0⟩
      = (true, ⟨true, 0, p, c * sqrt (1 + 1 / 2 * (1 + gamma) / gamma * (p - p) / p),
          c * sqrt (1 + 1 / 2 * (1 + gamma) / gamma * (p - p) / p)⟩) := by
    rw [van_leer_body_eq']
    refine vlStep_of_true _ (decide_eq_true ?_) _ _ _ _ _ hP
    show |pymax sp (vlNewP (1 / rho) (1 / rho) (1 + gamma) p p u u p
      (c * sqrt (1 + 1 / 2 * (1 + gamma) / gamma * (p - p) / p))
      (c * sqrt (1 + 1 / 2 * (1 + gamma) / gamma * (p - p) / p))) - p| /
      pymax sp (vlNewP (1 / rho) (1 / rho) (1 + gamma) p p u u p
      (c * sqrt (1 + 1 / 2 * (1 + gamma) / gamma * (p - p) / p))
      (c * sqrt (1 + 1 / 2 * (1 + gamma) / gamma * (p - p) / p))) < tol
    rw [hP, sub_self, abs_zero, zero_div]
    exact htol
  rw [hb]
  simp [vlFinish]
  ring

/-- every pass leaves `pstar` at or above the floor -/
theorem van_leer_body_floor_le (o : Ops K) (Vl Vr cl cr g1 g2 : K) (niter : Int)
    (pl pr sp tol ul ur : K) (s : van_leer_loopSt K) :
    sp ≤ (van_leer_loop_body o Vl Vr cl cr g1 g2 niter pl pr sp tol ul ur s).2.pstar := by
  rw [van_leer_body_eq']
  unfold vlStep
  split <;> (simp only [pymax_eq_max]; exact le_max_left _ _)

theorem van_leer_loop_floor_le (o : Ops K) (Vl Vr cl cr g1 g2 : K) (niter : Int)
    (pl pr sp tol ul ur : K) (fuel : Nat) (s : van_leer_loopSt K)
    (hs : s.converged = true → sp ≤ s.pstar) :
    (van_leer_loop o Vl Vr cl cr g1 g2 niter pl pr sp tol ul ur fuel s).converged = true →
      sp ≤ (van_leer_loop o Vl Vr cl cr g1 g2 niter pl pr sp tol ul ur fuel s).pstar := by
  induction fuel generalizing s with
  | zero => exact hs
  | succ n ih =>
    simp only [van_leer_loop]
    by_cases h : van_leer_loop_cond niter s
    · rw [if_pos h]
      by_cases hb : (van_leer_loop_body o Vl Vr cl cr g1 g2 niter pl pr sp tol ul ur s).1 = true
      · simp only [hb, if_true]
        exact fun _ => van_leer_body_floor_le o Vl Vr cl cr g1 g2 niter pl pr sp tol ul ur s
      · simp only [hb]
        exact ih _ (fun _ => van_leer_body_floor_le o Vl Vr cl cr g1 g2 niter pl pr sp tol ul ur s)
    · rw [if_neg h]; exact hs

/-- a successful `van_leer` returns a pressure at or above the floor -/
theorem vlFrom_success_floor (o : Ops K) (cl cr rhol rhor pl pr ul ur gamma : K) (niter : Int)
    (tol sp : K) :
    (vlFrom o cl cr rhol rhor pl pr ul ur gamma niter tol sp).code = 0 →
      sp ≤ (vlFrom o cl cr rhol rhor pl pr ul ur gamma niter tol sp).r0 := by
  unfold vlFrom
  have h := van_leer_loop_floor_le o (1 / rhol) (1 / rhor) cl cr (1 / 2 * (1 + gamma) / gamma) (1 + gamma)
    niter pl pr sp tol ul ur niter.toNat
    ⟨false, 0, pymax (pl + (pr - pl - cr * (ur - ul)) * cl / (cl + cr)) sp, 0, 0⟩ (fun h => by simp at h)
  revert h
  generalize van_leer_loop o (1 / rhol) (1 / rhor) cl cr (1 / 2 * (1 + gamma) / gamma) (1 + gamma)
    niter pl pr sp tol ul ur niter.toNat
    ⟨false, 0, pymax (pl + (pr - pl - cr * (ur - ul)) * cl / (cl + cr)) sp, 0, 0⟩ = S
  intro h
  unfold vlFinish
  cases hS : S.converged
  · simp
  · simp only [if_true]
    intro _
    exact h hS

/-! ## `exact` -/

/-- a pass whose relative change is within the tolerance leaves the loop -/
theorem exact_body_break (o : Ops K) (cl cr g1 g2 g4 g5 g6 : K) (niter : Int)
    (pl pr rhol rhor tol ud : K) (s : exact_loopSt K)
    (h : 2 * o.abs ((exNewP (pfF o s.pold rhol pl cl g1 g4 g5 g6) (pfD o s.pold rhol pl cl g2 g5 g6)
            (pfF o s.pold rhor pr cr g1 g4 g5 g6) (pfD o s.pold rhor pr cr g2 g5 g6) s.pold ud - s.pold) /
          (exNewP (pfF o s.pold rhol pl cl g1 g4 g5 g6) (pfD o s.pold rhol pl cl g2 g5 g6)
            (pfF o s.pold rhor pr cr g1 g4 g5 g6) (pfD o s.pold rhor pr cr g2 g5 g6) s.pold ud + s.pold)) ≤ tol) :
    exact_loop_body o cl cr g1 g2 g4 g5 g6 niter pl pr rhol rhor tol ud s =
      (true, ⟨pfF o s.pold rhol pl cl g1 g4 g5 g6, pfD o s.pold rhol pl cl g2 g5 g6,
        pfF o s.pold rhor pr cr g1 g4 g5 g6, pfD o s.pold rhor pr cr g2 g5 g6, s.i__k, s.i__k,
        exNewP (pfF o s.pold rhol pl cl g1 g4 g5 g6) (pfD o s.pold rhol pl cl g2 g5 g6)
          (pfF o s.pold rhor pr cr g1 g4 g5 g6) (pfD o s.pold rhor pr cr g2 g5 g6) s.pold ud, s.pold⟩) := by
  rw [exact_body_eq]
  exact if_pos h

theorem pfF_equal (sqrt : K → K) (pow : K → K → K) (p dk ck g1 g4 g5 g6 : K) (hp : p ≠ 0)
    (h1 : pow 1 g1 = 1) : pfF (fieldOps sqrt pow) p dk p ck g1 g4 g5 g6 = 0 := by
  unfold pfF
  rw [if_pos (le_refl p), div_self hp, fieldOps_pow, h1, sub_self, mul_zero]

theorem exStart_equal (o : Ops K) (c g1 g3 g4 g5 g6 g7 rho p u : K) (hp : 0 < p) :
    exStart o c c g1 g3 g4 g5 g6 g7 rho rho p p u u = p := by
  have hppv : exPpv c c rho rho p p u u = p := by
    unfold exPpv
    rw [show 1 / 2 * (p + p) + 1 / 2 * (u - u) * (1 / 4 * (rho + rho) * (c + c)) = p by ring,
      pymax_of_le hp.le]
  have hmax : pymax p p = p := by rw [pymax_eq_max, max_self]
  have hmin : pymin p p = p := by rw [pymin_eq_min, min_self]
  unfold exStart
  simp only [hppv, hmax, hmin]
  rw [if_pos ⟨by rw [div_self hp.ne']; norm_num, le_refl p, le_refl p⟩]

/-- equal states: the first pass of `exact` converges with `p* = p`; `niter ≥ 2`
because `exact` reports failure when the pass that converged is the last one allowed -/
theorem exFrom_equal (sqrt : K → K) (pow : K → K → K) (c g1 g2 g3 g4 g5 g6 g7 rho p u : K)
    (niter : Int) (tol r0 r1 : K) (hc : 0 < c) (hg4 : 0 < g4) (hp : 0 < p) (h1 : pow 1 g1 = 1)
    (htol : 0 ≤ tol) (hn : 2 ≤ niter) :
    exFrom (fieldOps sqrt pow) c c g1 g2 g3 g4 g5 g6 g7 rho rho p p u u niter tol r0 r1 = ⟨0, p, u⟩ := by
  unfold exFrom
  have hv : ¬ (g4 * (c + c) ≤ u - u) := by
    rw [sub_self, not_le]; positivity
  rw [if_neg hv, exStart_equal _ _ _ _ _ _ _ _ _ _ _ hp]
  obtain ⟨k, hk⟩ : ∃ k, niter.toNat = k + 1 := ⟨niter.toNat - 1, by omega⟩
  rw [hk]
  simp only [exact_loop]
  have hcond : exact_loop_cond niter (⟨0, 0, 0, 0, 0, 0, 0, p⟩ : exact_loopSt K) := by
    show (0 : Int) < niter
    omega
  rw [if_pos hcond]
  have hF := pfF_equal sqrt pow p rho c g1 g4 g5 g6 hp.ne' h1
  have hP : exNewP (pfF (fieldOps sqrt pow) p rho p c g1 g4 g5 g6) (pfD (fieldOps sqrt pow) p rho p c g2 g5 g6)
      (pfF (fieldOps sqrt pow) p rho p c g1 g4 g5 g6) (pfD (fieldOps sqrt pow) p rho p c g2 g5 g6) p (u - u) = p := by
    unfold exNewP
    rw [hF, sub_self, add_zero, add_zero, zero_div, sub_zero]
  have hb := exact_body_break (fieldOps sqrt pow) c c g1 g2 g4 g5 g6 niter p p rho rho tol (u - u)
    ⟨0, 0, 0, 0, 0, 0, 0, p⟩ (by
      show 2 * |(exNewP (pfF (fieldOps sqrt pow) p rho p c g1 g4 g5 g6) (pfD (fieldOps sqrt pow) p rho p c g2 g5 g6)
        (pfF (fieldOps sqrt pow) p rho p c g1 g4 g5 g6) (pfD (fieldOps sqrt pow) p rho p c g2 g5 g6) p (u - u) - p) /
        (exNewP (pfF (fieldOps sqrt pow) p rho p c g1 g4 g5 g6) (pfD (fieldOps sqrt pow) p rho p c g2 g5 g6)
        (pfF (fieldOps sqrt pow) p rho p c g1 g4 g5 g6) (pfD (fieldOps sqrt pow) p rho p c g2 g5 g6) p (u - u) + p)| ≤ tol
      rw [hP, sub_self, zero_div, abs_zero, mul_zero]
      exact htol)
  rw [hb]
  have hi : ¬ ((0 : Int) = niter - 1) := by omega
  simp only [exFinish, if_true, if_neg hi]
  show (⟨0, exNewP (pfF (fieldOps sqrt pow) p rho p c g1 g4 g5 g6) (pfD (fieldOps sqrt pow) p rho p c g2 g5 g6)
      (pfF (fieldOps sqrt pow) p rho p c g1 g4 g5 g6) (pfD (fieldOps sqrt pow) p rho p c g2 g5 g6) p (u - u),
      1 / 2 * (u + u + pfF (fieldOps sqrt pow) p rho p c g1 g4 g5 g6 - pfF (fieldOps sqrt pow) p rho p c g1 g4 g5 g6)⟩ : Res K)
    = ⟨0, p, u⟩
  rw [hP, hF]
  congr 1
  ring

end PysphVerif.Riemann
