/-
Pure list facts about the generic row operations of `Model/PArray.lean`
(`swapRemove`, `removeRows`, `gather`, `sortNat`, `alignIndex`), used by Props/C06.
-/
import PysphVerif.Model.PArray
import Mathlib.Data.List.Basic
import Mathlib.Data.List.Perm.Basic
import Mathlib.Data.List.Range
import Mathlib.Tactic.Ring

namespace PysphVerif.PArray

variable {β γ : Type}

/-! ## swapRemove -/

theorem swapRemove_concat (l : List β) (a : β) (i : Nat) :
    swapRemove (l ++ [a]) i =
      if i < l.length then l.set i a else if i = l.length then l else l ++ [a] := by
  unfold swapRemove
  by_cases h1 : i < l.length
  · have : i < (l ++ [a]).length := by simp; omega
    simp only [this, if_true, List.getLast?_append, List.getLast?_singleton, h1]
    simp [h1]
  · by_cases h2 : i = l.length
    · subst h2
      simp
    · have : ¬ i < (l ++ [a]).length := by simp; omega
      rw [if_neg this, if_neg h1, if_neg h2]

theorem swapRemove_nil (i : Nat) : swapRemove ([] : List β) i = [] := by
  simp [swapRemove]

theorem swapRemove_length (l : List β) (i : Nat) :
    (swapRemove l i).length = if i < l.length then l.length - 1 else l.length := by
  induction l using List.reverseRecOn with
  | nil => simp [swapRemove_nil]
  | append_singleton l a _ =>
    rw [swapRemove_concat]
    simp only [List.length_append, List.length_singleton]
    split_ifs <;> simp <;> omega

theorem swapRemove_subset (l : List β) (i : Nat) : ∀ x ∈ swapRemove l i, x ∈ l := by
  induction l using List.reverseRecOn with
  | nil => simp [swapRemove_nil]
  | append_singleton l a _ =>
    intro x hx
    rw [swapRemove_concat] at hx
    split_ifs at hx
    · rcases List.mem_or_eq_of_mem_set hx with h | h
      · simp [h]
      · simp [h]
    · simp [hx]
    · exact hx

theorem swapRemove_map (f : β → γ) (l : List β) (i : Nat) :
    (swapRemove l i).map f = swapRemove (l.map f) i := by
  induction l using List.reverseRecOn with
  | nil => simp [swapRemove_nil]
  | append_singleton l a _ =>
    rw [List.map_append, List.map_singleton, swapRemove_concat, swapRemove_concat]
    simp only [List.length_map]
    split_ifs <;> simp [List.map_set]

/-! ## removeRows -/

theorem removeRows_nil (l : List β) : removeRows [] l = l := by
  simp [removeRows]

theorem removeRows_concat (idx : List Nat) (i : Nat) (l : List β) :
    removeRows (idx ++ [i]) l = removeRows idx (swapRemove l i) := by
  simp [removeRows]

theorem removeRows_subset (idx : List Nat) (l : List β) : ∀ x ∈ removeRows idx l, x ∈ l := by
  induction idx using List.reverseRecOn generalizing l with
  | nil => simp [removeRows_nil]
  | append_singleton idx i ih =>
    intro x hx
    rw [removeRows_concat] at hx
    exact swapRemove_subset l i x (ih _ x hx)

theorem removeRows_map (f : β → γ) (idx : List Nat) (l : List β) :
    (removeRows idx l).map f = removeRows idx (l.map f) := by
  induction idx using List.reverseRecOn generalizing l with
  | nil => simp [removeRows_nil]
  | append_singleton idx i ih =>
    rw [removeRows_concat, removeRows_concat, ih, swapRemove_map]

theorem removeRows_length_eq (idx : List Nat) (l : List β) (l' : List γ)
    (h : l.length = l'.length) : (removeRows idx l).length = (removeRows idx l').length := by
  induction idx using List.reverseRecOn generalizing l l' with
  | nil => simpa [removeRows_nil] using h
  | append_singleton idx i ih =>
    rw [removeRows_concat, removeRows_concat]
    apply ih
    rw [swapRemove_length, swapRemove_length, h]

theorem removeRows_range_lt (idx : List Nat) (n : Nat) :
    ∀ i ∈ removeRows idx (List.range n), i < n := by
  intro i hi
  exact List.mem_range.mp (removeRows_subset idx _ i hi)

/-! ## gather -/

theorem gather_nil (l : List β) : gather [] l = [] := rfl

theorem gather_cons (i : Nat) (src : List Nat) (l : List β) :
    gather (i :: src) l = (match l[i]? with | some a => a :: gather src l | none => gather src l) := by
  simp only [gather, List.filterMap_cons]
  cases l[i]? <;> rfl

theorem gather_append (s t : List Nat) (l : List β) :
    gather (s ++ t) l = gather s l ++ gather t l := by
  simp [gather]

theorem gather_map (f : β → γ) (src : List Nat) (l : List β) :
    (gather src l).map f = gather src (l.map f) := by
  induction src with
  | nil => rfl
  | cons i src ih =>
    rw [gather_cons, gather_cons, List.getElem?_map]
    cases l[i]? <;> simp [ih]

theorem gather_eq_map (src : List Nat) (l : List β) (d : β) (h : ∀ i ∈ src, i < l.length) :
    gather src l = src.map (fun i => l.getD i d) := by
  induction src with
  | nil => rfl
  | cons i src ih =>
    have hi : i < l.length := h i (by simp)
    rw [gather_cons, List.getElem?_eq_getElem hi]
    simp only [List.map_cons, List.getD_eq_getElem?_getD, List.getElem?_eq_getElem hi,
      Option.getD_some]
    rw [ih (fun j hj => h j (by simp [hj]))]
    simp

theorem gather_length (src : List Nat) (l : List β) (h : ∀ i ∈ src, i < l.length) :
    (gather src l).length = src.length := by
  cases l with
  | nil =>
    cases src with
    | nil => rfl
    | cons i src => exact absurd (h i (by simp)) (by simp)
  | cons d l => rw [gather_eq_map src (d :: l) d h, List.length_map]

theorem gather_subset (src : List Nat) (l : List β) : ∀ x ∈ gather src l, x ∈ l := by
  intro x hx
  simp only [gather, List.mem_filterMap] at hx
  obtain ⟨i, _, hi⟩ := hx
  exact List.mem_of_getElem? hi

theorem gather_length_le (src : List Nat) (l : List β) : (gather src l).length ≤ src.length := by
  simp only [gather]
  exact List.length_filterMap_le _ _

theorem gather_length_eq (src : List Nat) (l : List β) (l' : List γ)
    (h : l.length = l'.length) : (gather src l).length = (gather src l').length := by
  induction src with
  | nil => rfl
  | cons i src ih =>
    rw [gather_cons, gather_cons]
    by_cases hi : i < l.length
    · rw [List.getElem?_eq_getElem hi, List.getElem?_eq_getElem (h ▸ hi)]
      simp [ih]
    · rw [List.getElem?_eq_none (by omega), List.getElem?_eq_none (by omega)]
      exact ih

/-- naturality of `removeRows`: it is the gather through the removed index array -/
theorem removeRows_eq_gather (idx : List Nat) (l : List β) :
    removeRows idx l = gather (removeRows idx (List.range l.length)) l := by
  cases hl : l with
  | nil =>
    have h1 : ∀ x ∈ removeRows idx ([] : List β), x ∈ ([] : List β) := removeRows_subset idx []
    have h2 : removeRows idx ([] : List β) = [] := List.eq_nil_iff_forall_not_mem.mpr
      (fun x hx => by simpa using h1 x hx)
    rw [h2]
    simp [gather]
  | cons d t =>
    rw [← hl]
    have hmap : l = (List.range l.length).map (fun i => l.getD i d) := by
      apply List.ext_getElem
      · simp
      · intro i h1 h2
        simp [List.getD_eq_getElem?_getD, List.getElem?_eq_getElem h1]
    conv_lhs => rw [hmap]
    rw [← removeRows_map]
    rw [gather_eq_map _ l d (removeRows_range_lt idx l.length)]

/-! ## exactly the addressed records disappear -/

theorem set_append_perm (l : List β) (i : Nat) (h : i < l.length) (a : β) :
    (l.set i a ++ [l[i]]).Perm (l ++ [a]) := by
  induction l generalizing i with
  | nil => simp at h
  | cons x xs ih =>
    cases i with
    | zero =>
      simp only [List.set_cons_zero, List.getElem_cons_zero, List.cons_append]
      have h1 : (xs ++ [x]).Perm (x :: xs) := List.perm_append_singleton x xs
      have h2 : (xs ++ [a]).Perm (a :: xs) := List.perm_append_singleton a xs
      exact ((h1.cons a).trans (List.Perm.swap x a xs)).trans (h2.cons x).symm
    | succ i =>
      simp only [List.set_cons_succ, List.getElem_cons_succ, List.cons_append]
      exact (ih i (by simpa using h)).cons x

theorem swapRemove_perm (l : List β) (i : Nat) (h : i < l.length) :
    (swapRemove l i ++ [l[i]]).Perm l := by
  induction l using List.reverseRecOn with
  | nil => simp at h
  | append_singleton l a _ =>
    rw [swapRemove_concat]
    by_cases h1 : i < l.length
    · rw [if_pos h1, List.getElem_append_left h1]
      exact set_append_perm l i h1 a
    · have h2 : i = l.length := by simp at h; omega
      subst h2
      simp

theorem swapRemove_getElem?_lt (l : List β) (i j : Nat) (hj : j < i) (hi : i < l.length) :
    (swapRemove l i)[j]? = l[j]? := by
  induction l using List.reverseRecOn with
  | nil => simp at hi
  | append_singleton l a _ =>
    rw [swapRemove_concat]
    by_cases h1 : i < l.length
    · rw [if_pos h1, List.getElem?_set_ne (by omega), List.getElem?_append_left (by omega)]
    · have h2 : i = l.length := by simp at hi; omega
      subst h2
      simp only [lt_irrefl, if_false, if_true]
      rw [List.getElem?_append_left hj]

theorem gather_congr (src : List Nat) (l l' : List β) (h : ∀ j ∈ src, l[j]? = l'[j]?) :
    gather src l = gather src l' := by
  unfold gather
  exact List.filterMap_congr h

theorem removeRows_perm (idx : List Nat) (l : List β) (hs : idx.Pairwise (· < ·))
    (hr : ∀ i ∈ idx, i < l.length) : (removeRows idx l ++ gather idx l).Perm l := by
  induction idx using List.reverseRecOn generalizing l with
  | nil => simp [removeRows_nil, gather_nil]
  | append_singleton idx i ih =>
    have hi : i < l.length := hr i (by simp)
    rw [List.pairwise_append] at hs
    obtain ⟨hs1, -, hs2⟩ := hs
    have hlt : ∀ j ∈ idx, j < i := fun j hj => hs2 j hj i (by simp)
    have hlen : (swapRemove l i).length = l.length - 1 := by
      rw [swapRemove_length, if_pos hi]
    have hg : gather idx (swapRemove l i) = gather idx l :=
      gather_congr _ _ _ (fun j hj => swapRemove_getElem?_lt l i j (hlt j hj) hi)
    have ih' := ih (swapRemove l i) hs1 (fun j hj => by have := hlt j hj; omega)
    rw [hg] at ih'
    rw [removeRows_concat, gather_append]
    have hgi : gather [i] l = [l[i]] := by
      simp [gather, List.getElem?_eq_getElem hi]
    rw [hgi, ← List.append_assoc]
    exact (ih'.append_right [l[i]]).trans (swapRemove_perm l i hi)

/-! ## sortNat -/

theorem insertSorted_perm (x : Nat) (l : List Nat) : (insertSorted x l).Perm (x :: l) := by
  induction l with
  | nil => simp [insertSorted]
  | cons y ys ih =>
    simp only [insertSorted]
    split_ifs
    · exact List.Perm.refl _
    · exact (ih.cons y).trans (List.Perm.swap x y ys)

theorem insertSorted_sorted (x : Nat) (l : List Nat) (h : l.Pairwise (· ≤ ·)) :
    (insertSorted x l).Pairwise (· ≤ ·) := by
  induction l with
  | nil => simp [insertSorted]
  | cons y ys ih =>
    simp only [insertSorted]
    rw [List.pairwise_cons] at h
    split_ifs with hxy
    · refine List.Pairwise.cons ?_ (List.Pairwise.cons h.1 h.2)
      intro z hz
      rcases List.mem_cons.mp hz with rfl | hz
      · exact hxy
      · exact le_trans hxy (h.1 z hz)
    · refine List.Pairwise.cons ?_ (ih h.2)
      intro z hz
      rcases List.mem_cons.mp ((insertSorted_perm x ys).subset hz) with rfl | hz
      · omega
      · exact h.1 z hz

theorem sortNat_perm (l : List Nat) : (sortNat l).Perm l := by
  induction l with
  | nil => simp [sortNat]
  | cons x xs ih =>
    have : sortNat (x :: xs) = insertSorted x (sortNat xs) := rfl
    rw [this]
    exact (insertSorted_perm x _).trans (ih.cons x)

theorem sortNat_sorted (l : List Nat) : (sortNat l).Pairwise (· ≤ ·) := by
  induction l with
  | nil => simp [sortNat]
  | cons x xs ih =>
    have : sortNat (x :: xs) = insertSorted x (sortNat xs) := rfl
    rw [this]
    exact insertSorted_sorted x _ ih

theorem sortNat_length (l : List Nat) : (sortNat l).length = l.length :=
  (sortNat_perm l).length_eq

theorem sortNat_strict (l : List Nat) (h : l.Nodup) : (sortNat l).Pairwise (· < ·) := by
  have h1 : (sortNat l).Nodup := (sortNat_perm l).nodup_iff.mpr h
  have h2 := sortNat_sorted l
  exact (h2.and h1).imp (fun ⟨hle, hne⟩ => lt_of_le_of_ne hle hne)

/-! ## alignIndex -/

theorem alignIndex_nil : alignIndex [] = ([], 0, 0) := rfl

theorem alignIndex_concat (pre : List Int) (t : Int) :
    alignIndex (pre ++ [t]) = alignStep (alignIndex pre) (pre.length, t) := by
  unfold alignIndex
  rw [List.length_append, List.length_singleton, List.range_succ,
    List.zip_append (by simp), List.foldl_append]
  rfl

/-- the loop invariant of the index-building loop of `align_particles` -/
structure AlignInv (tags : List Int) (st : List Nat × Nat × Nat) : Prop where
  perm : st.1.Perm (List.range tags.length)
  nreal : st.2.1 = (tags.filter (· == localTag)).length
  le : st.2.1 ≤ tags.length
  first : ∀ k, k < tags.length →
    (tags.getD (st.1.getD k 0) 1 == localTag) = decide (k < st.2.1)
  ident : st.2.2 = 0 → st.1 = List.range tags.length

theorem AlignInv.length {tags : List Int} {st : List Nat × Nat × Nat} (h : AlignInv tags st) :
    st.1.length = tags.length := by
  simpa using h.perm.length_eq

theorem AlignInv.getD_lt {tags : List Int} {st : List Nat × Nat × Nat} (h : AlignInv tags st)
    (k : Nat) (hk : k < tags.length) : st.1.getD k 0 < tags.length := by
  have hk' : k < st.1.length := by rw [h.length]; exact hk
  have : st.1.getD k 0 ∈ st.1 := by
    rw [List.getD_eq_getElem?_getD, List.getElem?_eq_getElem hk', Option.getD_some]
    exact List.getElem_mem hk'
  exact List.mem_range.mp (h.perm.subset this)

theorem alignInv_step (pre : List Int) (t : Int) (st : List Nat × Nat × Nat)
    (h : AlignInv pre st) : AlignInv (pre ++ [t]) (alignStep st (pre.length, t)) := by
  obtain ⟨idx, next, moves⟩ := st
  have hlen : idx.length = pre.length := h.length
  have hperm : idx.Perm (List.range pre.length) := h.perm
  have hnreal : next = (pre.filter (· == localTag)).length := h.nreal
  have hle : next ≤ pre.length := h.le
  have hfirst : ∀ k, k < pre.length →
      (pre.getD (idx.getD k 0) 1 == localTag) = decide (k < next) := h.first
  have hident : moves = 0 → idx = List.range pre.length := h.ident
  have hlt : ∀ k, k < pre.length → idx.getD k 0 < pre.length := h.getD_lt
  -- reading the extended tag list below the old length
  have hpre : ∀ j, j < pre.length → (pre ++ [t]).getD j 1 = pre.getD j 1 := by
    intro j hj
    simp [List.getD_eq_getElem?_getD, List.getElem?_append_left hj]
  have hlast : (pre ++ [t]).getD pre.length 1 = t := by
    simp [List.getD_eq_getElem?_getD]
  have happ : ∀ k, k < pre.length → (idx ++ [pre.length]).getD k 0 = idx.getD k 0 := by
    intro k hk
    simp [List.getD_eq_getElem?_getD, List.getElem?_append_left (hlen ▸ hk)]
  have happl : (idx ++ [pre.length]).getD pre.length 0 = pre.length := by
    simp [List.getD_eq_getElem?_getD, ← hlen]
  unfold alignStep
  simp only
  by_cases ht : (t == localTag) = true
  · rw [if_pos ht]
    by_cases hn : (pre.length != next) = true
    · rw [if_pos hn]
      have hn' : next < pre.length := by
        have : pre.length ≠ next := by simpa using hn
        omega
      have hn'' : next < idx.length := hlen ▸ hn'
      refine ⟨?_, ?_, ?_, ?_, ?_⟩
      · simp only [List.length_append, List.length_singleton, List.range_succ]
        rw [List.getD_eq_getElem?_getD, List.getElem?_eq_getElem hn'', Option.getD_some]
        exact (set_append_perm idx next hn'' pre.length).trans (hperm.append_right _)
      · simp only [List.filter_append, List.length_append, hnreal]
        simp [ht]
      · simp; omega
      · intro k hk
        simp only [List.length_append, List.length_singleton] at hk
        simp only
        by_cases hk1 : k = next
        · subst hk1
          have : (idx.set k pre.length ++ [idx.getD k 0]).getD k 0 = pre.length := by
            simp [List.getD_eq_getElem?_getD, List.getElem?_append_left, hn'']
          rw [this, hlast, ht]
          simp
        · by_cases hk2 : k < pre.length
          · have : (idx.set next pre.length ++ [idx.getD next 0]).getD k 0 = idx.getD k 0 := by
              have hk3 : k < (idx.set next pre.length).length := by simp; omega
              simp only [List.getD_eq_getElem?_getD, List.getElem?_append_left hk3]
              rw [List.getElem?_set_ne (by omega)]
            rw [this, hpre _ (hlt k hk2), hfirst k hk2]
            simp only [decide_eq_decide]
            omega
          · have hk3 : k = pre.length := by omega
            subst hk3
            have : (idx.set next pre.length ++ [idx.getD next 0]).getD pre.length 0
                = idx.getD next 0 := by
              simp [List.getD_eq_getElem?_getD, ← hlen]
            rw [this, hpre _ (hlt next hn'), hfirst next hn']
            simp only [decide_eq_decide]
            omega
      · intro h0
        simp at h0
    · rw [if_neg hn]
      have hn' : pre.length = next := by simpa using hn
      refine ⟨?_, ?_, ?_, ?_, ?_⟩
      · simp only [List.length_append, List.length_singleton, List.range_succ]
        exact hperm.append_right _
      · simp only [List.filter_append, List.length_append, hnreal]
        simp [ht]
      · simp; omega
      · intro k hk
        simp only [List.length_append, List.length_singleton] at hk
        simp only
        by_cases hk2 : k < pre.length
        · rw [happ k hk2, hpre _ (hlt k hk2), hfirst k hk2]
          simp only [decide_eq_decide]
          omega
        · have hk3 : k = pre.length := by omega
          subst hk3
          rw [happl, hlast, ht]
          simp; omega
      · intro h0
        simp only at h0
        simp only [List.length_append, List.length_singleton, List.range_succ]
        rw [hident h0]
  · rw [if_neg ht]
    refine ⟨?_, ?_, ?_, ?_, ?_⟩
    · simp only [List.length_append, List.length_singleton, List.range_succ]
      exact hperm.append_right _
    · simp only [List.filter_append, List.length_append, hnreal]
      simp [ht]
    · simp; omega
    · intro k hk
      simp only [List.length_append, List.length_singleton] at hk
      simp only
      by_cases hk2 : k < pre.length
      · rw [happ k hk2, hpre _ (hlt k hk2), hfirst k hk2]
      · have hk3 : k = pre.length := by omega
        subst hk3
        rw [happl, hlast]
        simp only [Bool.not_eq_true] at ht
        rw [ht]
        simp; omega
    · intro h0
      simp only at h0
      simp only [List.length_append, List.length_singleton, List.range_succ]
      rw [hident h0]

theorem alignInv (tags : List Int) : AlignInv tags (alignIndex tags) := by
  induction tags using List.reverseRecOn with
  | nil =>
    rw [alignIndex_nil]
    exact ⟨by simp, by simp, by simp, by simp, by simp⟩
  | append_singleton pre t ih =>
    rw [alignIndex_concat]
    exact alignInv_step pre t _ ih

theorem alignIndex_perm (tags : List Int) :
    (alignIndex tags).1.Perm (List.range tags.length) := (alignInv tags).perm

theorem alignIndex_length (tags : List Int) : (alignIndex tags).1.length = tags.length :=
  (alignInv tags).length

theorem alignIndex_nreal (tags : List Int) :
    (alignIndex tags).2.1 = (tags.filter (· == localTag)).length := (alignInv tags).nreal

theorem alignIndex_nreal_le (tags : List Int) : (alignIndex tags).2.1 ≤ tags.length :=
  (alignInv tags).le

theorem alignIndex_real_first (tags : List Int) (k : Nat) (hk : k < tags.length) :
    (tags.getD ((alignIndex tags).1.getD k 0) 1 == localTag)
      = decide (k < (alignIndex tags).2.1) := (alignInv tags).first k hk

theorem alignIndex_moves_zero (tags : List Int) :
    (alignIndex tags).2.2 = 0 → (alignIndex tags).1 = List.range tags.length :=
  (alignInv tags).ident

end PysphVerif.PArray
