import PysphVerif.Lemmas.PArraySpecOps4
/-!
C06: a whole column rewritten (`set`, `add_property` with data) at the record level.
-/
namespace PysphVerif.PArray

theorem zipWith_range_map {β γ δ : Type} (f : β → γ → δ) (g : Nat → β) (R : List γ) (d : γ) :
    List.zipWith f ((List.range R.length).map g) R =
      (List.range R.length).map (fun k => f (g k) (R.getD k d)) := by
  apply List.ext_getElem
  · simp
  · intro i h1 h2
    have hi : i < R.length := by simpa using h2
    simp [List.getD_eq_getElem?_getD, List.getElem?_eq_getElem hi]

/-- column `c` rewritten with data of the same length: field `c.name` of record
`k` becomes row `k` of the new data, nothing else changes -/
theorem setColData_abs {pa : PA} (h : Inv pa) (c : Col) (hc : c ∈ pa.props) (nd : List Int)
    (hl : nd.length = c.data.length) :
    absPA (pa.setCol { c with data := nd }) =
      ⟨(absPA pa).dflt, List.zipWith (fun r row => setField r c.name row) (absPA pa).recs
        (rowsOf (pa.strideOf c.name) nd)⟩ := by
  obtain ⟨hi', hn'⟩ := inv_setCol_sameLen h c hc nd hl
  have hprops : (pa.setCol { c with data := nd }).props = pa.props.map (fun (c' : Col) =>
      if c'.name == c.name then { c with data := nd } else c') := by
    rw [setCol_props, setColL_replace _ _ (by show c.name ∈ _; exact List.mem_map_of_mem hc)]
  have hstr : (pa.setCol { c with data := nd }).stride = pa.stride := setCol_stride _ _
  have hdf : (pa.setCol { c with data := nd }).defaults = pa.defaults := setCol_defaults _ _
  have hso : ∀ nm, (pa.setCol { c with data := nd }).strideOf nm = pa.strideOf nm := by
    intro nm; unfold PA.strideOf; rw [hstr]
  have hrl : (rowsOf (pa.strideOf c.name) nd).length = pa.n :=
    (rowsOf_uniform _ (h.len c hc).1 pa.n nd (by rw [hl]; exact (h.len c hc).2)).1
  unfold absPA
  congr 1
  · apply defaultParticle_of_names _ hstr hdf
    rw [hprops, List.map_map]
    apply List.map_congr_left
    intro c' _
    simp only [Function.comp]
    split
    · rename_i e; exact (by simpa using e : c'.name = c.name).symm
    · rfl
  · simp only []
    unfold particles
    rw [hn']
    conv_rhs => rw [← hrl]
    rw [zipWith_range_map _ _ _ [], hrl]
    apply List.map_congr_left
    intro k _
    unfold setField particleAt
    rw [setKey_map_props _ _ _ _ (List.mem_map_of_mem hc), hprops, List.map_map]
    apply List.map_congr_left
    intro c' hc'
    simp only [Function.comp]
    by_cases e : c'.name = c.name
    · simp only [e, beq_self_eq_true, if_true, hso]
    · have : (c'.name == c.name) = false := by simpa using e
      simp only [this, Bool.false_eq_true, if_false, hso]

/-! ### set -/

theorem column_of_particles {pa : PA} (h : Inv pa) (c : Col) (hc : c ∈ pa.props) :
    (particles pa).map (fun r => lookupD r c.name []) = rowsOf (pa.strideOf c.name) c.data := by
  unfold particles
  rw [List.map_map]
  have hrl := n_eq_rows h c hc
  conv_lhs => rw [← hrl]
  have e := range_map_getD (rowsOf (pa.strideOf c.name) c.data) [] id
  rw [List.map_id] at e
  conv_rhs => rw [← e]
  simp only [id]
  apply List.map_congr_left
  intro k _
  simp only [Function.comp]
  exact field_particleAt pa k c.name c (col?_of_mem h c hc)

theorem setProp_refines {pa : PA} (h : Inv pa) (nm : String) (d : List Int) (c : Col)
    (hcol : pa.col? nm = some c) :
    (∀ pa', pa.setProp nm d = some pa' → absPA pa' = specSetProp nm d (absPA pa)) ∧
    (pa.setProp nm d = none → specSetProp nm d (absPA pa) = absPA pa) := by
  obtain ⟨hcm, hcn⟩ := col?_some pa nm c hcol
  have hkeys : (recKeys (absPA pa).dflt).contains nm = true := by
    rw [absPA_dflt_keys]; simpa using (hcn ▸ List.mem_map_of_mem hcm : nm ∈ pa.props.map Col.name)
  have hcolumn : ((absPA pa).recs.map (fun r => lookupD r nm [])).flatten = c.data := by
    show ((particles pa).map _).flatten = _
    rw [← hcn, column_of_particles h c hcm]
    exact flat_rowsOf _ (h.len c hcm).1 _
  have hsl : (lookupD (absPA pa).dflt nm []).length = pa.strideOf nm := by
    rw [lookupD_absPA_dflt nm (hcn ▸ List.mem_map_of_mem hcm)]; simp
  unfold specSetProp
  simp only [hkeys, if_true, hcolumn, hsl]
  unfold PA.setProp
  rw [hcol]
  simp only []
  unfold setData
  by_cases hle : d.length ≤ c.data.length
  · rw [if_pos hle, if_pos hle]
    refine ⟨fun pa' hr => ?_, fun hr => by simp at hr⟩
    simp only [Option.some.injEq] at hr
    subst hr
    rw [setColData_abs h c hcm _ (by simp; omega), hcn]
  · rw [if_neg hle, if_neg hle]
    exact ⟨fun pa' hr => by simp at hr, fun _ => rfl⟩

end PysphVerif.PArray
