import Mathlib.Order.Lattice
import Mathlib.Order.MinMax
import PysphVerif.Model.AdaptDt
/-! Helper lemmas: Python-style `max`/`min` folds over a linear order. -/
namespace PysphVerif.AdaptDt
variable {α : Type} [LinearOrder α]

theorem pymax_eq_max (a b : α) : pymax a b = max a b := by
  unfold pymax; split
  · rename_i h; exact (max_eq_right (le_of_lt h)).symm
  · rename_i h; exact (max_eq_left (not_lt.mp h)).symm

theorem pymin_eq_min (a b : α) : pymin a b = min a b := by
  unfold pymin; split
  · rename_i h; exact (min_eq_right (le_of_lt h)).symm
  · rename_i h; exact (min_eq_left (not_lt.mp h)).symm

theorem foldl_pymax_ge_init (l : List α) (a : α) : a ≤ l.foldl pymax a := by
  induction l generalizing a with
  | nil => exact le_refl _
  | cons x xs ih =>
    simp only [List.foldl_cons]
    exact le_trans (by rw [pymax_eq_max]; exact le_max_left _ _) (ih _)

theorem foldl_pymax_ge_mem (l : List α) (a : α) : ∀ x ∈ l, x ≤ l.foldl pymax a := by
  induction l generalizing a with
  | nil => intro x hx; cases hx
  | cons y ys ih =>
    intro x hx
    simp only [List.foldl_cons]
    rcases List.mem_cons.mp hx with rfl | h
    · exact le_trans (by rw [pymax_eq_max]; exact le_max_right _ _) (foldl_pymax_ge_init _ _)
    · exact ih _ x h

theorem foldl_pymax_mem (l : List α) (a : α) : l.foldl pymax a = a ∨ l.foldl pymax a ∈ l := by
  induction l generalizing a with
  | nil => left; rfl
  | cons y ys ih =>
    simp only [List.foldl_cons]
    rcases ih (pymax a y) with h | h
    · rw [h]
      unfold pymax; split
      · right; exact List.mem_cons_self
      · left; rfl
    · right; exact List.mem_cons_of_mem _ h

theorem foldl_pymin_le_init (l : List α) (a : α) : l.foldl pymin a ≤ a := by
  induction l generalizing a with
  | nil => exact le_refl _
  | cons x xs ih =>
    simp only [List.foldl_cons]
    exact le_trans (ih _) (by rw [pymin_eq_min]; exact min_le_left _ _)

theorem foldl_pymin_le_mem (l : List α) (a : α) : ∀ x ∈ l, l.foldl pymin a ≤ x := by
  induction l generalizing a with
  | nil => intro x hx; cases hx
  | cons y ys ih =>
    intro x hx
    simp only [List.foldl_cons]
    rcases List.mem_cons.mp hx with rfl | h
    · exact le_trans (foldl_pymin_le_init _ _) (by rw [pymin_eq_min]; exact min_le_right _ _)
    · exact ih _ x h

theorem foldl_pymin_mem (l : List α) (a : α) : l.foldl pymin a = a ∨ l.foldl pymin a ∈ l := by
  induction l generalizing a with
  | nil => left; rfl
  | cons y ys ih =>
    simp only [List.foldl_cons]
    rcases ih (pymin a y) with h | h
    · rw [h]
      unfold pymin; split
      · right; exact List.mem_cons_self
      · left; rfl
    · right; exact List.mem_cons_of_mem _ h

/-- `np.max` of a non-empty list is its greatest element. -/
theorem npMax_spec {l : List α} {m : α} (h : npMax l = some m) : m ∈ l ∧ ∀ x ∈ l, x ≤ m := by
  cases l with
  | nil => simp [npMax] at h
  | cons a as =>
    simp only [npMax, Option.some.injEq] at h
    subst h
    refine ⟨?_, ?_⟩
    · rcases foldl_pymax_mem as a with h | h
      · rw [h]; exact List.mem_cons_self
      · exact List.mem_cons_of_mem _ h
    · intro x hx
      rcases List.mem_cons.mp hx with rfl | hx
      · exact foldl_pymax_ge_init _ _
      · exact foldl_pymax_ge_mem _ _ x hx

/-- `np.min` of a non-empty list is its least element. -/
theorem npMin_spec {l : List α} {m : α} (h : npMin l = some m) : m ∈ l ∧ ∀ x ∈ l, m ≤ x := by
  cases l with
  | nil => simp [npMin] at h
  | cons a as =>
    simp only [npMin, Option.some.injEq] at h
    subst h
    refine ⟨?_, ?_⟩
    · rcases foldl_pymin_mem as a with h | h
      · rw [h]; exact List.mem_cons_self
      · exact List.mem_cons_of_mem _ h
    · intro x hx
      rcases List.mem_cons.mp hx with rfl | hx
      · exact foldl_pymin_le_init _ _
      · exact foldl_pymin_le_mem _ _ x hx

theorem npMin_isSome_of_ne_nil {l : List α} (h : l ≠ []) : ∃ m, npMin l = some m := by
  cases l with
  | nil => exact absurd rfl h
  | cons a as => exact ⟨_, rfl⟩

end PysphVerif.AdaptDt
