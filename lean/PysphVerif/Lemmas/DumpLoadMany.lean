import PysphVerif.Lemmas.DumpLoadNpz
import Mathlib.Data.List.Forall2
/-!
Helper lemmas for C11, files holding several arrays with distinct names:
`d[k] = v` on a fresh key appends, so `all_array_data`, `get_particles_info`
and the dictionary `load` returns are plain lists in iteration order; the
entry written for one array of a many-array file is the entry the one-array
reader specs (`loadH5_spec`, `loadNpz_spec`) talk about.
-/
set_option linter.unusedSectionVars false
namespace PysphVerif.DumpLoad

variable {V : Type} [PVal V] [DecidableEq V]

/-! ### dictionaries with distinct keys -/

theorem dictSet_fresh {β : Type} (d : List (String × β)) (k : String) (v : β)
    (h : k ∉ d.map (·.1)) : dictSet d k v = d ++ [(k, v)] := by
  unfold dictSet
  rw [if_neg]
  simp only [List.any_eq_true, beq_iff_eq, not_exists, not_and]
  intro e he hk
  exact h (List.mem_map.2 ⟨e, he, hk⟩)

theorem dictGet?_of_mem {β : Type} (d : List (String × β)) (h : (d.map (·.1)).Nodup)
    (e : String × β) (he : e ∈ d) : dictGet? d e.1 = some e.2 := by
  induction d with
  | nil => cases he
  | cons x xs ih =>
    simp only [List.map_cons, List.nodup_cons] at h
    rcases List.mem_cons.1 he with rfl | hin
    · simp [dictGet?]
    · have hne : (x.1 == e.1) = false := by
        simp only [beq_eq_false_iff_ne, ne_eq]
        intro hx
        exact h.1 (List.mem_map.2 ⟨e, hin, hx.symm⟩)
      have := ih h.2 hin
      simp only [dictGet?, List.find?_cons, hne] at this ⊢
      exact this

theorem mem_of_dictGet? {β : Type} (d : List (String × β)) (k : String) (v : β)
    (h : dictGet? d k = some v) : (k, v) ∈ d := by
  simp only [dictGet?, Option.map_eq_some_iff] at h
  obtain ⟨e, he, hv⟩ := h
  have h1 := List.mem_of_find?_eq_some he
  have h2 := List.find?_some he
  simp only [beq_iff_eq] at h2
  have : e = (k, v) := by rw [← h2, ← hv]
  rw [← this]; exact h1

theorem nodup_step {l1 : List String} {k : String} {l2 : List String}
    (h : (l1 ++ k :: l2).Nodup) : k ∉ l1 ∧ ((l1 ++ [k]) ++ l2).Nodup := by
  constructor
  · intro hk
    rw [List.nodup_append] at h
    exact h.2.2 k hk k (by simp) rfl
  · simpa [List.append_assoc] using h

/-- a loop `for a in l: d[key(a)] = val(a)` over distinct fresh keys appends -/
theorem foldl_dictSet {α β : Type} (key : α → String) (val : α → β) (l : List α) :
    ∀ acc : List (String × β), ((acc.map (·.1)) ++ l.map key).Nodup →
    l.foldl (fun acc a => dictSet acc (key a) (val a)) acc =
      acc ++ l.map (fun a => (key a, val a)) := by
  induction l with
  | nil => intro acc _; simp
  | cons a as ih =>
    intro acc hnd
    obtain ⟨hk, hnd'⟩ := nodup_step (by simpa using hnd)
    simp only [List.foldl_cons, dictSet_fresh _ _ _ hk]
    rw [ih _ (by simpa using hnd')]
    simp

theorem forall2_exists {α β : Type} (R : α → β → Prop) (l : List α)
    (h : ∀ a ∈ l, ∃ b, R a b) : ∃ l', List.Forall₂ R l l' := by
  induction l with
  | nil => exact ⟨[], .nil⟩
  | cons a as ih =>
    obtain ⟨b, hb⟩ := h a (by simp)
    obtain ⟨bs, hbs⟩ := ih (fun x hx => h x (by simp [hx]))
    exact ⟨b :: bs, .cons hb hbs⟩

theorem forall2_imp {α β : Type} {R Q : α → β → Prop} {l : List α} {l' : List β}
    (h : List.Forall₂ R l l') (hi : ∀ a ∈ l, ∀ b, R a b → Q a b) : List.Forall₂ Q l l' := by
  induction h with
  | nil => exact .nil
  | cons hx _ ih =>
    exact .cons (hi _ (by simp) _ hx) (ih (fun a ha b hb => hi a (by simp [ha]) b hb))

theorem forall2_length {α β : Type} {R : α → β → Prop} {l : List α} {l' : List β}
    (h : List.Forall₂ R l l') : l'.length = l.length := by
  induction h with
  | nil => rfl
  | cons _ _ ih => simp [ih]

theorem forall2_map_eq {α β γ : Type} {R : α → β → Prop} (f : α → γ) (g : β → γ)
    {l : List α} {l' : List β} (h : List.Forall₂ R l l') (hi : ∀ a b, R a b → g b = f a) :
    l'.map g = l.map f := by
  induction h with
  | nil => rfl
  | cons hx _ ih => simp [hi _ _ hx, ih]

theorem forall2_mem_left {α β : Type} {R : α → β → Prop} {l : List α} {l' : List β}
    (h : List.Forall₂ R l l') : ∀ a ∈ l, ∃ b ∈ l', R a b := by
  induction h with
  | nil => intro a ha; cases ha
  | cons hx _ ih =>
    intro a ha
    rcases List.mem_cons.1 ha with rfl | hin
    · exact ⟨_, by simp, hx⟩
    · obtain ⟨b, hb, hr⟩ := ih a hin
      exact ⟨b, by simp [hb], hr⟩

/-! ### the writers on several arrays -/

/-- what `get_property_arrays` returns for `pa` (`[]` if it raises) -/
def arrsOf (o : Opts) (pa : PArr V) : List (String × List V) :=
  (getPropertyArrays pa o.detailed o.onlyReal).getD []

theorem arrayData_fold (o : Opts) (arrays : List (PArr V))
    (hg : ∀ pa ∈ arrays, getPropertyArrays pa o.detailed o.onlyReal = some (arrsOf o pa)) :
    ∀ acc : List (String × List (String × List V)),
    ((acc.map (·.1)) ++ arrays.map (·.name)).Nodup →
    arrays.foldlM (arrayDataStep o) acc =
      some (acc ++ arrays.map (fun pa => (pa.name, arrsOf o pa))) := by
  induction arrays with
  | nil => intro acc _; simp
  | cons a as ih =>
    intro acc hnd
    obtain ⟨hk, hnd'⟩ := nodup_step (by simpa using hnd)
    have hstep : arrayDataStep o acc a = some (acc ++ [(a.name, arrsOf o a)]) := by
      simp only [arrayDataStep, hg a (by simp), Option.map_some, dictSet_fresh _ _ _ hk]
    simp only [List.foldlM_cons, hstep, Option.bind_eq_bind, Option.bind_some]
    rw [ih (fun pa hpa => hg pa (by simp [hpa])) _ (by simpa using hnd')]
    simp

theorem allArrayData_many (o : Opts) (arrays : List (PArr V))
    (hg : ∀ pa ∈ arrays, getPropertyArrays pa o.detailed o.onlyReal = some (arrsOf o pa))
    (hnd : (arrays.map (·.name)).Nodup) :
    allArrayData o arrays = some (arrays.map (fun pa => (pa.name, arrsOf o pa))) := by
  have := arrayData_fold o arrays hg [] (by simpa using hnd)
  simpa [allArrayData] using this

theorem particlesInfo_many (arrays : List (PArr V)) (hnd : (arrays.map (·.name)).Nodup) :
    particlesInfo arrays = arrays.map (fun pa => (pa.name, arrayInfo pa)) := by
  have h : particlesInfo arrays =
      arrays.foldl (fun acc a => dictSet acc a.name (arrayInfo a)) [] := rfl
  rw [h, foldl_dictSet (fun pa : PArr V => pa.name) arrayInfo arrays [] (by simpa using hnd)]
  simp

theorem aad_get (o : Opts) (arrays : List (PArr V)) (hnd : (arrays.map (·.name)).Nodup)
    (pa : PArr V) (hpa : pa ∈ arrays) :
    dictGet? (arrays.map (fun pa => (pa.name, arrsOf o pa))) pa.name = some (arrsOf o pa) := by
  apply dictGet?_of_mem _ _ (pa.name, arrsOf o pa) (List.mem_map.2 ⟨pa, hpa, rfl⟩)
  simpa [List.map_map, Function.comp_def] using hnd

theorem dumpNpz_many {S : Type} (o : Opts) (arrays : List (PArr V))
    (hg : ∀ pa ∈ arrays, getPropertyArrays pa o.detailed o.onlyReal = some (arrsOf o pa))
    (hnd : (arrays.map (·.name)).Nodup) (sd : List (String × S)) :
    dumpNpz o arrays sd =
      some (File.npz2 sd (arrays.map (fun pa => (pa.name, npzArrOf pa (arrsOf o pa))))) := by
  simp only [dumpNpz, allArrayData_many o arrays hg hnd, particlesInfo_many arrays hnd,
    Option.map_some, List.map_map]
  congr 2
  apply List.map_congr_left
  intro pa hpa
  simp only [Function.comp, npzEntry, npzArrOf, aad_get o arrays hnd pa hpa]

theorem mapM_some {α β γ : Type} (k : α → γ) (f : γ → Option β) (g : α → β) (l : List α)
    (h : ∀ a ∈ l, f (k a) = some (g a)) : (l.map k).mapM f = some (l.map g) := by
  induction l with
  | nil => rfl
  | cons a as ih =>
    simp [List.mapM_cons, h a (by simp), ih (fun x hx => h x (by simp [hx]))]

theorem dumpHdf5_many {S : Type} (o : Opts) (arrays : List (PArr V))
    (hg : ∀ pa ∈ arrays, getPropertyArrays pa o.detailed o.onlyReal = some (arrsOf o pa))
    (hnd : (arrays.map (·.name)).Nodup) (sd : List (String × S)) :
    dumpHdf5 o arrays sd =
      some (File.hdf5 sd (arrays.map (fun pa => (pa.name, h5ArrOf pa (arrsOf o pa))))) := by
  simp only [dumpHdf5, allArrayData_many o arrays hg hnd, particlesInfo_many arrays hnd,
    Option.bind_some]
  rw [mapM_some _ _ (fun pa => (pa.name, h5ArrOf pa (arrsOf o pa)))]
  · rfl
  · intro pa hpa
    simp only [h5Entry, aad_get o arrays hnd pa hpa, Option.map_some]
    rfl

/-! ### `load`: the loop `ret["arrays"][name] = array` -/

theorem collect_fold {α β : Type} (ld : String → β → Except String (PArr V))
    (g : α → String × β) (R : α → String × PArr V → Prop)
    (hR : ∀ a r, R a r → r.1 = (g a).1 ∧ ld (g a).1 (g a).2 = .ok r.2)
    (l : List α) (rs : List (String × PArr V)) (h : List.Forall₂ R l rs) :
    ∀ acc : List (String × PArr V), ((acc.map (·.1)) ++ l.map (fun a => (g a).1)).Nodup →
    (l.map g).foldlM (collectStep ld) acc = .ok (acc ++ rs) := by
  induction h with
  | nil => intro acc _; simp [pure, Except.pure]
  | @cons a r l' rs' hx _ ih =>
    intro acc hnd
    obtain ⟨hk, hnd'⟩ := nodup_step (by simpa using hnd)
    obtain ⟨h1, h2⟩ := hR a r hx
    have hr : ((g a).1, r.2) = r := by rw [← h1]
    have hstep : collectStep ld acc (g a) = .ok (acc ++ [r]) := by
      simp only [collectStep, h2, Except.map]
      rw [dictSet_fresh _ _ _ hk, hr]
    simp only [List.map_cons, List.foldlM_cons, hstep, bind, Except.bind]
    rw [ih (acc ++ [r]) (by simpa [h1] using hnd')]
    simp

theorem insertByName_map {β γ : Type} (f : String × β → γ) (e : String × β)
    (l : List (String × β)) :
    insertByName (e.1, f e) (l.map (fun x => (x.1, f x))) =
      (insertByName e l).map (fun x => (x.1, f x)) := by
  induction l with
  | nil => rfl
  | cons x xs ih =>
    simp only [List.map_cons, insertByName]
    split
    · rfl
    · simp only [List.map_cons, ih]

theorem sortByName_map {β γ : Type} (f : String × β → γ) (l : List (String × β)) :
    sortByName (l.map (fun x => (x.1, f x))) = (sortByName l).map (fun x => (x.1, f x)) := by
  induction l with
  | nil => rfl
  | cons x xs ih =>
    simp only [sortByName, List.map_cons, List.foldr_cons] at ih ⊢
    rw [ih]
    exact insertByName_map f x _

/-- npz (version 2): reading back a file that holds several arrays -/
theorem loadNpz_many {S : Type} (arrays : List (PArr V)) (hwf : ∀ pa ∈ arrays, WF pa)
    (hnd : (arrays.map (·.name)).Nodup) (o : Opts) (sd : List (String × S)) :
    (∀ pa ∈ arrays, getPropertyArrays pa o.detailed o.onlyReal = some (arrsOf o pa)) ∧
    ∃ qs, load (File.npz2 sd (arrays.map (fun pa => (pa.name, npzArrOf pa (arrsOf o pa))))) =
        .ok (sd, qs) ∧
      List.Forall₂ (fun pa e => e.1 = pa.name ∧ RoundTrip o pa e.2 ∧ e.2.consts = pa.consts ∧
        (∀ t ∈ e.2.props, t.name = "tag" → e.2.nReal = countLocal t.data)) arrays qs := by
  have hspec : ∀ pa ∈ arrays, getPropertyArrays pa o.detailed o.onlyReal = some (arrsOf o pa) ∧
      ∃ e : String × PArr V, e.1 = pa.name ∧
        loadNpzArr pa.name (npzArrOf pa (arrsOf o pa)) = .ok e.2 ∧ RoundTrip o pa e.2 ∧
        e.2.consts = pa.consts ∧
        (∀ t ∈ e.2.props, t.name = "tag" → e.2.nReal = countLocal t.data) := by
    intro pa hpa
    obtain ⟨arrs, q, hg, hl, hrt, hc, hnr⟩ := loadNpz_spec pa (hwf pa hpa) o
    have ha : arrsOf o pa = arrs := by simp [arrsOf, hg]
    rw [ha]
    exact ⟨hg, (pa.name, q), rfl, hl, hrt, hc, hnr⟩
  refine ⟨fun pa hpa => (hspec pa hpa).1, ?_⟩
  obtain ⟨qs, hqs⟩ := forall2_exists _ arrays (fun pa hpa => (hspec pa hpa).2)
  refine ⟨qs, ?_, forall2_imp hqs (fun pa _ e h => ⟨h.1, h.2.2⟩)⟩
  have := collect_fold loadNpzArr (fun pa : PArr V => (pa.name, npzArrOf pa (arrsOf o pa))) _
    (fun pa e h => ⟨h.1, h.2.1⟩) arrays qs hqs [] (by simpa using hnd)
  simp only [load, this, Except.map, List.nil_append]

/-- hdf5: reading back a file that holds several arrays; the reader walks the
group in name order -/
theorem loadH5_many {S : Type} (arrays : List (PArr V)) (hwf : ∀ pa ∈ arrays, WF pa)
    (hnd : (arrays.map (·.name)).Nodup) (o : Opts) (sd : List (String × S)) :
    (∀ pa ∈ arrays, getPropertyArrays pa o.detailed o.onlyReal = some (arrsOf o pa)) ∧
    ∃ qs, load (File.hdf5 sd (arrays.map (fun pa => (pa.name, h5ArrOf pa (arrsOf o pa))))) =
        .ok (sortByName sd, qs) ∧
      List.Forall₂ (fun e r => r.1 = e.1 ∧ RoundTrip o e.2 r.2)
        (sortByName (arrays.map (fun pa => (pa.name, pa)))) qs := by
  have hspec : ∀ pa ∈ arrays, getPropertyArrays pa o.detailed o.onlyReal = some (arrsOf o pa) ∧
      ∃ q, loadH5Arr pa.name (h5ArrOf pa (arrsOf o pa)) = .ok q ∧ RoundTrip o pa q := by
    intro pa hpa
    obtain ⟨arrs, q, hg, hl, hrt⟩ := loadH5_spec pa (hwf pa hpa) o
    have ha : arrsOf o pa = arrs := by simp [arrsOf, hg]
    rw [ha]
    exact ⟨hg, q, hl, hrt⟩
  refine ⟨fun pa hpa => (hspec pa hpa).1, ?_⟩
  have hperm := sortByName_perm (arrays.map (fun pa => (pa.name, pa)))
  have hL : ∀ e ∈ sortByName (arrays.map (fun pa => (pa.name, pa))),
      ∃ r : String × PArr V, r.1 = e.1 ∧
        loadH5Arr e.1 (h5ArrOf e.2 (arrsOf o e.2)) = .ok r.2 ∧ RoundTrip o e.2 r.2 := by
    intro e he
    obtain ⟨pa, hpa, rfl⟩ := List.mem_map.1 (hperm.mem_iff.1 he)
    obtain ⟨q, hl, hrt⟩ := (hspec pa hpa).2
    exact ⟨(pa.name, q), rfl, hl, hrt⟩
  obtain ⟨qs, hqs⟩ := forall2_exists _ _ hL
  refine ⟨qs, ?_, forall2_imp hqs (fun e _ r h => ⟨h.1, h.2.2⟩)⟩
  have hkeys : ((sortByName (arrays.map (fun pa => (pa.name, pa)))).map (fun e => e.1)).Nodup := by
    rw [(hperm.map _).nodup_iff]
    simpa [List.map_map, Function.comp_def] using hnd
  have hfile : arrays.map (fun pa => (pa.name, h5ArrOf pa (arrsOf o pa))) =
      (arrays.map (fun pa => (pa.name, pa))).map
        (fun x => (x.1, (fun x : String × PArr V => h5ArrOf x.2 (arrsOf o x.2)) x)) := by
    simp [List.map_map, Function.comp_def]
  have := collect_fold loadH5Arr
    (fun e : String × PArr V => (e.1, h5ArrOf e.2 (arrsOf o e.2))) _
    (fun e r h => ⟨h.1, h.2.1⟩) _ qs hqs [] (by simpa using hkeys)
  simp only [load, hfile, sortByName_map, this, Except.map, List.nil_append]

/-- what the ordered statement for hdf5 gives per source array -/
theorem sorted_forall2_members {β : Type} (arrays : List (PArr V)) (R : PArr V → β → Prop)
    (qs : List (String × β))
    (h : List.Forall₂ (fun e r => r.1 = e.1 ∧ R e.2 r.2)
      (sortByName (arrays.map (fun pa => (pa.name, pa)))) qs) :
    (qs.map (·.1)).Perm (arrays.map (·.name)) ∧ qs.length = arrays.length ∧
    (∀ pa ∈ arrays, ∃ q, (pa.name, q) ∈ qs ∧ R pa q) := by
  have hperm := sortByName_perm (arrays.map (fun pa => (pa.name, pa)))
  refine ⟨?_, ?_, ?_⟩
  · rw [forall2_map_eq (fun e : String × PArr V => e.1) (fun r : String × β => r.1) h
      (fun _ _ hr => hr.1)]
    have := hperm.map (fun e : String × PArr V => e.1)
    simpa [List.map_map, Function.comp_def] using this
  · rw [forall2_length h, hperm.length_eq]; simp
  · intro pa hpa
    obtain ⟨r, hr, h1, h2⟩ := forall2_mem_left h (pa.name, pa)
      (hperm.mem_iff.2 (List.mem_map.2 ⟨pa, hpa, rfl⟩))
    refine ⟨r.2, ?_, h2⟩
    have h1' : r.1 = pa.name := h1
    have : r = (pa.name, r.2) := by rw [← h1']
    rw [← this]; exact hr

end PysphVerif.DumpLoad
