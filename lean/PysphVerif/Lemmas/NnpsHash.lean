import PysphVerif.Lemmas.NnpsGrid
/-!
C01 helper lemmas: chained hash table of `spatial_hash.h` (for every hash
function, hence every table size and every pattern of collisions) and the
dict of `DictBoxSortNNPS`.
-/
set_option linter.unusedSectionVars false
namespace PysphVerif.Nnps

section hash
variable {α : Type} [LT α] [DecidableLT α]

/-- indices of the entry a chain walk stops at -/
def chainIdx (c : Cell) (ch : List (HEntry α)) : List Nat :=
  match chainGet c ch with
  | some e => e.idx
  | none => []

theorem chainIdx_chainAdd (c' c : Cell) (i : Nat) (h : α) (ch : List (HEntry α)) :
    chainIdx c (chainAdd c' i h ch) = if c' = c then chainIdx c ch ++ [i] else chainIdx c ch := by
  induction ch with
  | nil =>
    by_cases hc : c' = c
    · simp [chainAdd, chainIdx, chainGet, hc]
    · simp [chainAdd, chainIdx, chainGet, hc]
  | cons e es ih =>
    unfold chainAdd
    by_cases he : e.c = c'
    · simp only [he, if_true]
      by_cases hc : c' = c
      · simp [chainIdx, chainGet, HEntry.add, he, hc]
      · simp [chainIdx, chainGet, HEntry.add, he, hc]
    · simp only [he, if_false]
      by_cases hec : e.c = c
      · have hc : ¬ c' = c := fun h => he (hec.trans h.symm)
        simp [chainIdx, chainGet, hec, hc]
      · have : chainIdx c (e :: chainAdd c' i h es) = chainIdx c (chainAdd c' i h es) := by
          simp [chainIdx, chainGet, hec]
        rw [this, ih]
        simp [chainIdx, chainGet, hec]

theorem indices_eq_chainIdx (hash : Cell → Nat) (t : HTable α) (c : Cell) :
    HTable.indices hash t c = chainIdx c (t (hash c)) := rfl

/-- adding a particle of cell `c'` changes only the lookup of `c'`, whatever else hashes to the
same bucket -/
theorem indices_add (hash : Cell → Nat) (t : HTable α) (item : Cell × Nat × α) (c : Cell) :
    HTable.indices hash (HTable.add hash t item) c =
      if item.1 = c then HTable.indices hash t c ++ [item.2.1] else HTable.indices hash t c := by
  simp only [indices_eq_chainIdx, HTable.add]
  by_cases hb : hash c = hash item.1
  · simp only [hb, if_true]
    exact chainIdx_chainAdd item.1 c item.2.1 item.2.2 _
  · have hc : ¬ item.1 = c := fun h => hb (by rw [h])
    simp only [hb, hc, if_false]

theorem indices_foldl (hash : Cell → Nat) (items : List (Cell × Nat × α)) (t : HTable α) (c : Cell) :
    HTable.indices hash (items.foldl (HTable.add hash) t) c =
      HTable.indices hash t c ++ (items.filter (fun it => it.1 = c)).map (·.2.1) := by
  induction items generalizing t with
  | nil => simp
  | cons it rest ih =>
    simp only [List.foldl_cons, ih, indices_add]
    by_cases hc : it.1 = c
    · simp [hc]
    · simp [hc]

/-- **hash_get_eq_cell** (list form): after `_bin`, the chain lookup of cell `c` returns exactly
the particles binned with cell `c`, in insertion order -/
theorem indices_build (hash : Cell → Nat) (items : List (Cell × Nat × α)) (c : Cell) :
    HTable.indices hash (HTable.build hash items) c =
      (items.filter (fun it => it.1 = c)).map (·.2.1) := by
  unfold HTable.build
  rw [indices_foldl]
  simp [indices_eq_chainIdx, chainIdx, chainGet]

theorem indices_hashItems (hash : Cell → Nat) (n : Nat) (cellAt : Nat → Cell) (hAt : Nat → α)
    (c : Cell) :
    HTable.indices hash (HTable.build hash (hashItems n cellAt hAt)) c =
      (List.range n).filter (fun j => cellAt j = c) := by
  rw [indices_build]
  unfold hashItems
  rw [List.filter_map, List.map_map]
  simp [Function.comp_def]

theorem hash_lookup_spec (hash : Cell → Nat) (n : Nat) (cellAt : Nat → Cell) (hAt : Nat → α)
    (c : Cell) :
    LookupSpec n cellAt (HTable.indices hash (HTable.build hash (hashItems n cellAt hAt))) c := by
  unfold LookupSpec
  rw [indices_hashItems]
  refine ⟨List.nodup_range.filter _, fun j => ?_⟩
  simp [List.mem_filter]

/-- SpatialHash: the candidates visited are exactly the particles of the stencil, each once,
for every hash function (hence every table size and collision pattern) -/
theorem sh_cands_perm (hash : Cell → Nat) (n : Nat) (cellAt : Nat → Cell) (hAt : Nat → α) (cq : Cell)
    (hnn : ∀ j, j < n → nonnegCell (cellAt j) = true) :
    (shCands hash n cellAt hAt cq).Perm (stencilIdx n cellAt cq) :=
  stencil_flatMap_perm n cellAt cq (neighborBoxes cq) _ ((stencilCells_nodup cq).filter _)
    (fun c hc => (mem_stencilCells cq c).mp (List.mem_filter.mp hc).1)
    (fun j hj hs => List.mem_filter.mpr ⟨(mem_stencilCells cq _).mpr hs, hnn j hj⟩)
    (fun c _ => hash_lookup_spec hash n cellAt hAt c)

end hash

/-- the concrete hash stays inside the table for every table size ≥ 1 -/
theorem spatialHash_lt (size : Nat) (hs : 1 ≤ size) (c : Cell) : spatialHash size c < size :=
  Nat.mod_lt _ (by omega)

/-! ## DictBoxSort -/

theorem dictLookup_insert (d : DictCells) (t : Nat × Nat × Cell) (s : Nat) (c : Cell) :
    dictLookup (dictInsert d t) s c =
      if t.2.2 = c ∧ t.1 = s then dictLookup d s c ++ [t.2.1] else dictLookup d s c := by
  unfold dictLookup dictInsert
  by_cases hc : c = t.2.2
  · subst hc
    by_cases hs : s = t.1
    · subst hs
      cases hd : d t.2.2 <;> simp
    · have hs' : ¬ t.1 = s := fun h => hs h.symm
      cases hd : d t.2.2 <;> simp [hs, hs']
  · have hc' : ¬ t.2.2 = c := fun h => hc h.symm
    simp [hc, hc']

theorem dictLookup_foldl (items : List (Nat × Nat × Cell)) (d : DictCells) (s : Nat) (c : Cell) :
    dictLookup (items.foldl dictInsert d) s c =
      dictLookup d s c ++ (items.filter (fun t => t.2.2 = c ∧ t.1 = s)).map (·.2.1) := by
  induction items generalizing d with
  | nil => simp
  | cons t rest ih =>
    simp only [List.foldl_cons, ih, dictLookup_insert]
    by_cases h : t.2.2 = c ∧ t.1 = s
    · simp [h]
    · simp [h]

/-- after binning every array (in any order), `cells[c].lindices[s]` lists exactly the particles
of array `s` binned with cell `c`, in binning order; a missing key means no such particle -/
theorem dictLookup_build (items : List (Nat × Nat × Cell)) (s : Nat) (c : Cell) :
    dictLookup (dictBuild items) s c =
      (items.filter (fun t => t.2.2 = c ∧ t.1 = s)).map (·.2.1) := by
  unfold dictBuild
  rw [dictLookup_foldl]
  simp [dictLookup]

theorem dict_lookup_spec (items : List (Nat × Nat × Cell)) (s n : Nat) (cellAt : Nat → Cell)
    (hitems : items.filter (fun t => t.1 = s) = dictItems s n cellAt) (c : Cell) :
    LookupSpec n cellAt (dictLookup (dictBuild items) s) c := by
  have e : dictLookup (dictBuild items) s c = (List.range n).filter (fun j => cellAt j = c) := by
    rw [dictLookup_build]
    have : items.filter (fun t => decide (t.2.2 = c ∧ t.1 = s)) =
        (items.filter (fun t => t.1 = s)).filter (fun t => t.2.2 = c) := by
      rw [List.filter_filter]
      apply List.filter_congr
      intro t _
      simp only [Bool.decide_and]
    rw [this, hitems]
    unfold dictItems
    rw [List.filter_map, List.map_map]
    simp [Function.comp_def]
  unfold LookupSpec
  rw [e]
  refine ⟨List.nodup_range.filter _, fun j => ?_⟩
  simp [List.mem_filter]

theorem dict_cands_perm (items : List (Nat × Nat × Cell)) (s n : Nat) (cellAt : Nat → Cell)
    (cq : Cell) (hitems : items.filter (fun t => t.1 = s) = dictItems s n cellAt) :
    (dictCands (dictBuild items) s cq).Perm (stencilIdx n cellAt cq) :=
  stencil_flatMap_perm n cellAt cq (stencilCells cq) _ (stencilCells_nodup cq)
    (fun c hc => (mem_stencilCells cq c).mp hc)
    (fun j _ hs => (mem_stencilCells cq _).mpr hs)
    (fun c _ => dict_lookup_spec items s n cellAt hitems c)

end PysphVerif.Nnps
