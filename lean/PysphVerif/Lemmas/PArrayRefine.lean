import PysphVerif.Lemmas.PArrayConserve
import PysphVerif.Lemmas.PArrayStep
/-!
C06 helper lemmas: the record-list view of an array (`absPA`: default record +
list of records) and, operation by operation, the record-list function the
operation refines (up to a permutation of the records where `align_particles`
or the swap-removal of cyarray reorder them).
-/
namespace PysphVerif.PArray

/-- the record-list view of one array: its default record (property name ↦
default row, in property order) and its records -/
structure RA where
  dflt : Rec
  recs : List Rec
  deriving Repr, DecidableEq

def absPA (pa : PA) : RA := ⟨defaultParticle pa, particles pa⟩

/-- same schema and defaults, the same records up to order -/
def RA.equiv (a b : RA) : Prop := a.dflt = b.dflt ∧ a.recs.Perm b.recs

theorem RA.equiv_refl (a : RA) : a.equiv a := ⟨rfl, List.Perm.refl _⟩

theorem RA.equiv_of_eq {a b : RA} (h : a = b) : a.equiv b := h ▸ RA.equiv_refl a

theorem RA.equiv_trans {a b c : RA} (h1 : a.equiv b) (h2 : b.equiv c) : a.equiv c :=
  ⟨h1.1.trans h2.1, h1.2.trans h2.2⟩

/-- the view depends only on `properties`, `stride` and `default_values` -/
theorem absPA_congr {pa pa' : PA} (hp : pa'.props = pa.props)
    (hs : ∀ nm, pa'.strideOf nm = pa.strideOf nm) (hd : ∀ nm, pa'.defaultOf nm = pa.defaultOf nm) :
    absPA pa' = absPA pa := by
  have hn : pa'.n = pa.n := by
    unfold PA.n PA.col?
    simp only [hp, hs]
  unfold absPA defaultParticle particles particleAt defaultRow
  simp only [hp, hs, hd, hn]

theorem absPA_congr_fields {pa pa' : PA} (hp : pa'.props = pa.props) (hs : pa'.stride = pa.stride)
    (hd : pa'.defaults = pa.defaults) : absPA pa' = absPA pa :=
  absPA_congr hp (fun nm => by unfold PA.strideOf; rw [hs]) (fun nm => by unfold PA.defaultOf; rw [hd])

theorem defaultParticle_of_names {pa pa' : PA}
    (hn : pa'.props.map Col.name = pa.props.map Col.name) (hs : pa'.stride = pa.stride)
    (hd : pa'.defaults = pa.defaults) : defaultParticle pa' = defaultParticle pa := by
  have e : ∀ q : PA, defaultParticle q =
      (q.props.map Col.name).map (fun nm => (nm, defaultRow q nm)) := by
    intro q; unfold defaultParticle; rw [List.map_map]; rfl
  rw [e, e, hn]
  apply List.map_congr_left
  intro nm _
  unfold defaultRow PA.strideOf PA.defaultOf
  rw [hs, hd]

theorem defaultParticle_mapRows (pa : PA) (f : List (List Int) → List (List Int)) :
    defaultParticle (pa.mapRows f) = defaultParticle pa :=
  defaultParticle_of_names (by unfold PA.mapRows; simp only [List.map_map]; rfl) rfl rfl

/-- `align_particles` in the record-list view: the same records, reordered -/
theorem absPA_align {pa : PA} (h : Inv pa) : (absPA pa.align).equiv (absPA pa) := by
  refine ⟨?_, align_particles_perm h⟩
  show defaultParticle pa.align = defaultParticle pa
  unfold PA.align
  rcases alignIndex pa.tags with ⟨idx, nreal, moves⟩
  simp only []
  split
  · rw [defaultParticle_mapRows]; rfl
  · rfl

/-- the straightforward reading of `align_particles`: Local records first -/
def recIsLocal (r : Rec) : Bool := lookupD r "tag" [] == [localTag]

def specAlign (a : RA) : RA :=
  { a with recs := a.recs.filter recIsLocal ++ a.recs.filter (fun r => !recIsLocal r) }

theorem specAlign_equiv (a : RA) : (specAlign a).equiv a :=
  ⟨rfl, List.filter_append_perm _ _⟩

/-! ### remove_particles -/

/-- the records whose slot is not listed, in order -/
def eraseIdxs {β : Type} (idx : List Nat) (l : List β) : List β :=
  gather ((List.range l.length).filter (fun i => !idx.contains i)) l

theorem eraseIdxs_perm {β : Type} (idx : List Nat) (l : List β) (hnd : idx.Nodup)
    (hin : ∀ i ∈ idx, i < l.length) :
    (removeRows (sortNat idx) l).Perm (eraseIdxs idx l) := by
  have h1 : (removeRows (sortNat idx) l ++ gather (sortNat idx) l).Perm l :=
    removeRows_perm _ _ (sortNat_strict idx hnd)
      (fun i hi => hin i ((sortNat_perm idx).subset hi))
  have hS : (sortNat idx).Perm ((List.range l.length).filter (fun i => idx.contains i)) := by
    refine (sortNat_perm idx).trans ?_
    rw [List.perm_ext_iff_of_nodup hnd (List.nodup_range.filter _)]
    intro i
    simp only [List.mem_filter, List.mem_range, List.contains_eq_mem, decide_eq_true_eq]
    exact ⟨fun hi => ⟨hin i hi, hi⟩, fun hi => hi.2⟩
  have h2 : (eraseIdxs idx l ++ gather (sortNat idx) l).Perm l := by
    unfold eraseIdxs
    rw [← gather_append]
    apply gather_perm
    refine (List.Perm.append_left _ hS).trans ?_
    refine List.perm_append_comm.trans ?_
    have := List.filter_append_perm (fun i => idx.contains i) (List.range l.length)
    simpa using this
  exact (List.perm_append_right_iff _).mp (h1.trans h2.symm)

def specRemove (idx : List Nat) (a : RA) : RA := { a with recs := eraseIdxs idx a.recs }

theorem length_le_of_nodup_lt (idx : List Nat) (n : Nat) (hnd : idx.Nodup)
    (hin : ∀ i ∈ idx, i < n) : idx.length ≤ n := by
  have := (List.subperm_of_subset hnd (fun i hi => List.mem_range.mpr (hin i hi))).length_le
  simpa using this

theorem removeParticles_cases (pa : PA) (idx : List Nat) (al : Bool) (pa' : PA)
    (hr : pa.removeParticles idx al = some pa') :
    pa.removeParticles idx false = some (pa.mapRows (removeRows (sortNat idx))) ∧
    (pa' = pa.mapRows (removeRows (sortNat idx)) ∨
     pa' = (pa.mapRows (removeRows (sortNat idx))).align) := by
  unfold PA.removeParticles at hr ⊢
  split at hr
  · exact absurd hr (by simp)
  · rename_i hlen
    rw [if_neg hlen]
    simp only [Option.some.injEq] at hr
    refine ⟨by simp, ?_⟩
    rw [← hr]
    split
    · exact Or.inr rfl
    · exact Or.inl rfl

theorem removeParticles_refines {pa pa' : PA} (h : Inv pa) (idx : List Nat) (al : Bool)
    (hnd : idx.Nodup) (hin : ∀ i ∈ idx, i < pa.n)
    (hr : pa.removeParticles idx al = some pa') :
    (absPA pa').equiv (specRemove idx (absPA pa)) := by
  obtain ⟨h0, hcase⟩ := removeParticles_cases pa idx al pa' hr
  have hi1 := inv_removeParticles h idx false h0
  have e1 : (absPA (pa.mapRows (removeRows (sortNat idx)))).equiv (specRemove idx (absPA pa)) := by
    refine ⟨defaultParticle_mapRows _ _, ?_⟩
    show (particles _).Perm (eraseIdxs idx (particles pa))
    rw [mapRows_removeRows_particles h]
    exact eraseIdxs_perm idx _ hnd (by rw [particles_length]; exact hin)
  rcases hcase with e | e
  · rw [e]; exact e1
  · rw [e]; exact RA.equiv_trans (absPA_align hi1) e1

theorem removeParticles_isSome (pa : PA) (idx : List Nat) (al : Bool) (hnd : idx.Nodup)
    (hin : ∀ i ∈ idx, i < pa.n) : ∃ pa', pa.removeParticles idx al = some pa' := by
  unfold PA.removeParticles
  rw [if_neg (by have := length_le_of_nodup_lt idx pa.n hnd hin; omega)]
  exact ⟨_, rfl⟩

/-! ### remove_tagged_particles -/

def specRemoveTagged (t : Int) (a : RA) : RA :=
  { a with recs := a.recs.filter (fun r => !(lookupD r "tag" [] == [t])) }

theorem removeTagged_refines {pa pa' : PA} (h : Inv pa) (t : Int) (al : Bool)
    (hr : pa.removeTagged t al = some pa') :
    (absPA pa').equiv (specRemoveTagged t (absPA pa)) := by
  have hr' := hr
  unfold PA.removeTagged at hr'
  obtain ⟨h0, hcase⟩ := removeParticles_cases pa _ al pa' hr'
  have h0' : pa.removeTagged t false = some _ := h0
  have hi1 := inv_removeTagged h t false h0'
  have e1 := removeTagged_particles' h t h0'
  have hd := defaultParticle_mapRows pa (removeRows (sortNat
    ((List.zip (List.range pa.tags.length) pa.tags).filterMap
      (fun p => if p.2 == t then some p.1 else none))))
  rcases hcase with e | e
  · rw [e]; exact ⟨hd, e1⟩
  · rw [e]; exact RA.equiv_trans (absPA_align hi1) ⟨hd, e1⟩

theorem removeTagged_isSome {pa : PA} (h : Inv pa) (t : Int) (al : Bool) :
    ∃ pa', pa.removeTagged t al = some pa' := by
  unfold PA.removeTagged
  rw [taggedIdx_eq, h.tags_length]
  apply removeParticles_isSome
  · exact (List.filter_sublist).nodup List.nodup_range
  · intro i hi
    exact List.mem_range.mp (List.mem_filter.mp hi).1

/-! ### extend -/

def specExtend (k : Nat) (a : RA) : RA := { a with recs := a.recs ++ List.replicate k a.dflt }

theorem extend_names (pa : PA) (k : Nat) :
    (pa.extend k).props.map Col.name = pa.props.map Col.name := by
  unfold PA.extend
  split
  · rfl
  · simp only [List.map_map]; rfl

theorem extend_defaults (pa : PA) (k : Nat) : (pa.extend k).defaults = pa.defaults := by
  unfold PA.extend; split <;> rfl

theorem extend_refines {pa : PA} (h : Inv pa) (k : Nat) :
    absPA (pa.extend k) = specExtend k (absPA pa) := by
  unfold absPA specExtend
  rw [extend_particles h k,
    defaultParticle_of_names (extend_names pa k) (extend_stride pa k) (extend_defaults pa k)]

/-! ### add_particles -/

/-- the records `add_particles(**given)` appends: `k` = number of rows of the last
given array (stride = length of the default row); record `j` carries row `j` of
the given data where given, the default row elsewhere -/
def specNewRecs (dflt : Rec) (given : List (String × List Int)) : List Rec :=
  match given.getLast? with
  | none => []
  | some (ln, ld) =>
    (List.range (ld.length / (lookupD dflt ln []).length)).map (fun j =>
      dflt.map (fun f =>
        match given.find? (fun (g : String × List Int) => g.1 == f.1) with
        | some g => (f.1, (rowsOf f.2.length g.2).getD j [])
        | none => f))

def specAddParticles (given : List (String × List Int)) (a : RA) : RA :=
  { a with recs := a.recs ++ specNewRecs a.dflt given }

theorem lookupD_defaultParticle {pa : PA} (nm : String) (hm : nm ∈ pa.props.map Col.name) :
    lookupD (defaultParticle pa) nm [] = defaultRow pa nm := by
  unfold defaultParticle
  rw [lookupD_map_props]
  obtain ⟨c, hc⟩ := col?_isSome_of_mem pa nm hm
  unfold PA.col? at hc
  rw [hc]
  have : c.name = nm := by simpa using List.find?_some hc
  simp only [this]

theorem defaultRow_length (pa : PA) (nm : String) : (defaultRow pa nm).length = pa.strideOf nm := by
  simp [defaultRow]

theorem addParticles_cases (pa : PA) (al : Bool) (given : List (String × List Int)) (pa' : PA)
    (hr : pa.addParticles al given = some pa') :
    ∃ pa1, pa.addParticles false given = some pa1 ∧ (pa' = pa1 ∨ pa' = pa1.align) := by
  unfold PA.addParticles at hr ⊢
  split at hr
  · exact ⟨pa, rfl, Or.inl (by simpa using hr.symm)⟩
  · rename_i ln ld hlast
    simp only [] at hr ⊢
    split at hr
    · exact absurd hr (by simp)
    · rename_i hok
      rw [if_neg hok]
      simp only [Option.some.injEq] at hr
      refine ⟨_, rfl, ?_⟩
      rw [← hr]
      simp only [Bool.and_false, Bool.false_eq_true, if_false]
      split
      · exact Or.inr rfl
      · exact Or.inl rfl

theorem addParticles_noalign_fields (pa : PA) (given : List (String × List Int)) (pa1 : PA)
    (hr : pa.addParticles false given = some pa1) :
    pa1.props.map Col.name = pa.props.map Col.name ∧ pa1.stride = pa.stride ∧
      pa1.defaults = pa.defaults := by
  unfold PA.addParticles at hr
  split at hr
  · simp only [Option.some.injEq] at hr; subst hr; exact ⟨rfl, rfl, rfl⟩
  · simp only [] at hr
    split at hr
    · exact absurd hr (by simp)
    · simp only [Bool.and_false, Bool.false_eq_true, if_false, Option.some.injEq] at hr
      subst hr
      refine ⟨?_, rfl, rfl⟩
      simp only [List.map_map]
      apply List.map_congr_left
      intro c _
      simp only [Function.comp]
      split <;> rfl

theorem addParticles_refines {pa pa' : PA} (h : Inv pa) (al : Bool)
    (given : List (String × List Int))
    (hv : ∀ ln ld, given.getLast? = some (ln, ld) →
      ∀ g ∈ given, g.2.length = (ld.length / pa.strideOf ln) * pa.strideOf g.1)
    (hln : ∀ g ∈ given, g.1 ∈ pa.props.map Col.name)
    (hr : pa.addParticles al given = some pa') :
    (absPA pa').equiv (specAddParticles given (absPA pa)) := by
  obtain ⟨pa1, h0, hcase⟩ := addParticles_cases pa al given pa' hr
  have hi1 := inv_addParticles h false given hv h0
  obtain ⟨hnm, hst, hdf⟩ := addParticles_noalign_fields pa given pa1 h0
  have e1 : absPA pa1 = specAddParticles given (absPA pa) := by
    unfold absPA specAddParticles
    rw [defaultParticle_of_names hnm hst hdf]
    congr 1
    cases hlast : given.getLast? with
    | none =>
      unfold PA.addParticles at h0
      rw [hlast] at h0
      simp only [Option.some.injEq] at h0
      subst h0
      unfold specNewRecs
      rw [hlast]; simp
    | some lst =>
      obtain ⟨ln, ld⟩ := lst
      have hlm : (ln, ld) ∈ given := List.mem_of_getLast? hlast
      obtain ⟨_, hp⟩ := addParticles_particles' h given ln ld hlast (hv ln ld hlast) h0
      rw [hp]
      congr 1
      unfold specNewRecs
      rw [hlast]
      simp only []
      rw [lookupD_defaultParticle ln (hln _ hlm), defaultRow_length]
      apply List.map_congr_left
      intro j hj
      have hj : j < ld.length / pa.strideOf ln := by simpa using hj
      unfold newParticle defaultParticle newRows
      rw [List.map_map]
      apply List.map_congr_left
      intro c _
      simp only [Function.comp]
      cases hf : given.find? (fun (g : String × List Int) => g.1 == c.name) with
      | some g => simp only [defaultRow_length]
      | none =>
        simp only []
        rw [List.getD_eq_getElem?_getD, List.getElem?_replicate, if_pos hj]; rfl
  rcases hcase with e | e
  · rw [e]; exact RA.equiv_of_eq e1
  · rw [e]; exact RA.equiv_trans (absPA_align hi1) (RA.equiv_of_eq e1)

/-! ### extract_particles into an existing array -/

def specExtractInto (names : List String) (idx : List Nat) (src dst : RA) : RA :=
  { dst with recs := dst.recs ++ idx.map (fun i => copyFields names (src.recs.getD i []) dst.dflt) }

theorem extractInto_cases (pa dest : PA) (idx : List Nat) (al : Bool)
    (props : Option (List String)) (pa' : PA) (hr : pa.extractInto idx dest al props = some pa') :
    ∃ pa1, pa.extractInto idx dest false props = some pa1 ∧ (pa' = pa1 ∨ pa' = pa1.align) := by
  unfold PA.extractInto at hr ⊢
  extract_lets names start d1 d2 at hr ⊢
  split at hr
  · rename_i h0
    rw [if_pos h0]
    exact ⟨dest, rfl, Or.inl (by simpa using hr.symm)⟩
  · rename_i h0
    rw [if_neg h0]
    split at hr
    · exact absurd hr (by simp)
    · rename_i hok
      rw [if_neg hok]
      simp only [Option.some.injEq] at hr
      refine ⟨d2, by simp, ?_⟩
      rw [← hr]
      split
      · exact Or.inr rfl
      · exact Or.inl rfl

theorem extractInto_noalign_fields (pa dest : PA) (idx : List Nat) (props : Option (List String))
    (pa1 : PA) (hr : pa.extractInto idx dest false props = some pa1) :
    pa1.props.map Col.name = dest.props.map Col.name ∧ pa1.stride = dest.stride ∧
      pa1.defaults = dest.defaults := by
  unfold PA.extractInto at hr
  extract_lets names start d1 d2 at hr
  split at hr
  · simp only [Option.some.injEq] at hr; subst hr; exact ⟨rfl, rfl, rfl⟩
  split at hr
  · exact absurd hr (by simp)
  simp only [Bool.false_eq_true, if_false, Option.some.injEq] at hr
  subst hr
  refine ⟨?_, extend_stride dest _, extend_defaults dest _⟩
  show (d1.props.map _).map Col.name = _
  rw [← extend_names dest idx.length, List.map_map]
  apply List.map_congr_left
  intro c _
  simp only [Function.comp]
  split
  · split <;> rfl
  · rfl

theorem extractInto_refines {pa dest pa' : PA} (h : Inv pa) (hd : Inv dest) (idx : List Nat)
    (al : Bool) (props : Option (List String))
    (hss : ∀ nm ∈ cloneNames pa props, pa.strideOf nm = dest.strideOf nm)
    (hin : ∀ i ∈ idx, i < pa.n)
    (hr : pa.extractInto idx dest al props = some pa') :
    (absPA pa').equiv (specExtractInto (cloneNames pa props) idx (absPA pa) (absPA dest)) := by
  obtain ⟨pa1, h0, hcase⟩ := extractInto_cases pa dest idx al props pa' hr
  have hi1 := inv_extractInto h hd idx false props hss h0
  obtain ⟨hnm, hst, hdf⟩ := extractInto_noalign_fields pa dest idx props pa1 h0
  have e1 : absPA pa1 = specExtractInto (cloneNames pa props) idx (absPA pa) (absPA dest) := by
    unfold absPA specExtractInto
    rw [defaultParticle_of_names hnm hst hdf, (extractInto_particles h hd idx props hss hin h0).2]
    congr 2
    apply List.map_congr_left
    intro i hi
    rw [particles_getD pa i (hin i hi)]
  rcases hcase with e | e
  · rw [e]; exact RA.equiv_of_eq e1
  · rw [e]; exact RA.equiv_trans (absPA_align hi1) (RA.equiv_of_eq e1)

/-! ### pools of arrays -/

def absState (st : State) : List RA := st.map absPA

/-- two pools of record lists: slot by slot the same schema/defaults and the same
records up to order -/
def poolEquiv (A B : List RA) : Prop := List.Forall₂ RA.equiv A B

theorem poolEquiv_refl (A : List RA) : poolEquiv A A := by
  induction A with
  | nil => exact List.Forall₂.nil
  | cons a A ih => exact List.Forall₂.cons (RA.equiv_refl a) ih

theorem poolEquiv_set {A B : List RA} (h : poolEquiv A B) (k : Nat) (a b : RA) (hab : a.equiv b) :
    poolEquiv (A.set k a) (B.set k b) := by
  induction h generalizing k with
  | nil => exact List.Forall₂.nil
  | cons hx _ ih =>
    cases k with
    | zero => exact List.Forall₂.cons hab ‹_›
    | succ k => exact List.Forall₂.cons hx (ih k)

theorem poolEquiv_push {A B : List RA} (h : poolEquiv A B) (a b : RA) (hab : a.equiv b) :
    poolEquiv (A ++ [a]) (B ++ [b]) := by
  induction h with
  | nil => exact List.Forall₂.cons hab List.Forall₂.nil
  | cons hx _ ih => exact List.Forall₂.cons hx ih

/-- apply a record-list function to slot `s` -/
def modifySlot (A : List RA) (s : Nat) (f : RA → RA) : List RA :=
  match A[s]? with
  | some a => A.set s (f a)
  | none => A

theorem absState_getElem? (st : State) (s : Nat) : (absState st)[s]? = (st[s]?).map absPA := by
  unfold absState; simp

theorem refines_set {st : State} {s : Nat} {pa pa' : PA} (hs : st[s]? = some pa) (f : RA → RA)
    (h : (absPA pa').equiv (f (absPA pa))) :
    poolEquiv (absState (st.set s pa')) (modifySlot (absState st) s f) := by
  unfold modifySlot
  rw [absState_getElem?, hs]
  simp only [Option.map_some]
  unfold absState
  rw [List.map_set]
  exact poolEquiv_set (poolEquiv_refl _) s _ _ h

theorem refines_unchanged {st : State} {s : Nat} {pa : PA} (hs : st[s]? = some pa) (f : RA → RA)
    (h : (absPA pa).equiv (f (absPA pa))) :
    poolEquiv (absState st) (modifySlot (absState st) s f) := by
  have := refines_set hs f h
  obtain ⟨hlt, he⟩ := List.getElem?_eq_some_iff.mp hs
  rwa [← he, List.set_getElem_self] at this

end PysphVerif.PArray
