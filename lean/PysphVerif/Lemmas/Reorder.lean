import PysphVerif.Model.Reorder
/-!
Helper lemmas for C17 (spatial re-ordering).  Core Lean only.

* generic list facts (`partition_perm`, chunk indexing),
* `gather` (= `c_align_array`): length, element-wise law, rows, multiset,
* the five traversal families: linked list (`Chain` invariant of `_bin`),
  sort by key, packed keys, octree partition recursion,
* `align_particles`: loop invariant `AInv`,
* the particle-array level: tags / n / wf / whole particles under `gatherAll`
  and `align`.
-/
namespace PysphVerif.Reorder
open List

/-! generic list lemmas -/

theorem flatMap_perm_pointwise {α β : Type} (l : List α) (f g : α → List β)
    (h : ∀ a ∈ l, f a ~ g a) : l.flatMap f ~ l.flatMap g := by
  induction l with
  | nil => simp
  | cons a t ih =>
    simp only [flatMap_cons]
    exact Perm.append (h a (by simp)) (ih (fun b hb => h b (by simp [hb])))

theorem sum_indicator (m a v : Nat) :
    ((range m).map (fun c => if a = c then v else 0)).sum = if a < m then v else 0 := by
  induction m with
  | zero => simp
  | succ m ih =>
    rw [range_succ, map_append, sum_append, ih]
    simp only [map_cons, map_nil, sum_cons, sum_nil]
    by_cases h1 : a < m
    · have : a ≠ m := by omega
      have : a < m + 1 := by omega
      simp [*]
    · by_cases h2 : a = m
      · subst h2; simp
      · have : ¬ a < m + 1 := by omega
        simp [*]

theorem count_filter_eq {p : Nat → Bool} (x : Nat) (l : List Nat) :
    count x (filter p l) = if p x then count x l else 0 := by
  by_cases h : p x
  · simp [h, count_filter h]
  · simp only [h]
    apply count_eq_zero_of_not_mem
    simp [mem_filter, h]

/-- splitting a list into the buckets `0..m-1` of a classifier and
concatenating the buckets gives a permutation of the list -/
theorem partition_perm (f : Nat → Nat) (m : Nat) (l : List Nat) (h : ∀ x ∈ l, f x < m) :
    (range m).flatMap (fun c => l.filter (fun x => f x == c)) ~ l := by
  rw [perm_iff_count]
  intro x
  rw [count_flatMap]
  have : (count x ∘ fun c => filter (fun x => f x == c) l) =
      fun c => if f x = c then count x l else 0 := by
    funext c
    simp only [Function.comp, count_filter_eq]
    by_cases hc : f x = c <;> simp [hc]
  rw [this, sum_indicator]
  by_cases hx : x ∈ l
  · simp [h x hx]
  · simp [count_eq_zero_of_not_mem hx]


/-! ## sort family -/

theorem sortOrder_perm (key : Nat → Nat) (n : Nat) : sortOrder key n ~ range n :=
  mergeSort_perm _ _

theorem sortOrder_sorted (key : Nat → Nat) (n : Nat) :
    (sortOrder key n).Pairwise (fun a b => key a ≤ key b) := by
  have := pairwise_mergeSort (le := keyLe key)
    (fun a b c h1 h2 => by simp only [keyLe, decide_eq_true_eq] at *; omega)
    (fun a b => by simp only [keyLe, Bool.or_eq_true, decide_eq_true_eq]; omega) (range n)
  simpa [keyLe, sortOrder] using this

/-! ## CellIndexing -/

theorem ciId_ciKey (I : Nat) (cell : Nat → Nat) (i : Nat) (hI : I ≤ 32) (hi : i < 2 ^ I) :
    ciId I (ciKey I cell i) = i := by
  unfold ciId ciKey
  rw [Nat.mod_mod_of_dvd _ (Nat.pow_dvd_pow 2 hI), Nat.add_mul_mod_self_left, Nat.mod_eq_of_lt hi]

theorem ciOrder_perm (I : Nat) (cell : Nat → Nat) (n : Nat) (hI : I ≤ 32) (hn : n ≤ 2 ^ I) :
    ciOrder I cell n ~ range n := by
  unfold ciOrder
  have h1 := (mergeSort_perm ((range n).map (ciKey I cell)) natLe).map (ciId I)
  refine h1.trans ?_
  rw [map_map]
  have : map (ciId I ∘ ciKey I cell) (range n) = map id (range n) := by
    apply map_congr_left
    intro a ha
    simp only [mem_range] at ha
    simp [Function.comp, ciId_ciKey I cell a hI (by omega)]
  rw [this, map_id]

/-! ## octree -/

theorem octBuild_perm (leafMax : Nat) (digit : Nat → Nat → Nat) (stop : List Nat → Bool)
    (hd : ∀ d q, digit d q < 8) (fuel : Nat) (path ids : List Nat) :
    octBuild leafMax digit stop fuel path ids ~ ids := by
  induction fuel generalizing path ids with
  | zero => simp [octBuild]
  | succ fuel ih =>
    unfold octBuild
    split
    · exact Perm.refl _
    · refine (flatMap_perm_pointwise _ _ (fun o => octPart digit path.length ids o) ?_).trans ?_
      · intro o _
        exact ih _ _
      · exact partition_perm (digit path.length) 8 ids (fun x _ => hd _ x)


/-! ## gather -/

theorem length_flatMap_const {α β : Type} (l : List α) (f : α → List β) (k : Nat)
    (h : ∀ a ∈ l, (f a).length = k) : (l.flatMap f).length = l.length * k := by
  induction l with
  | nil => simp
  | cons a t ih =>
    simp only [flatMap_cons, length_append, length_cons]
    rw [h a (by simp), ih (fun b hb => h b (by simp [hb]))]
    rw [Nat.add_mul]; omega

/-- indexing into a concatenation of chunks of equal length -/
theorem getD_flatMap_const {α β : Type} (l : List α) (f : α → List β) (s : Nat) (d : β)
    (h : ∀ a ∈ l, (f a).length = s) (i k : Nat) (hi : i < l.length) (hk : k < s) :
    (l.flatMap f).getD (i * s + k) d = (f (l[i]'hi)).getD k d := by
  induction l generalizing i with
  | nil => simp at hi
  | cons a t ih =>
    simp only [flatMap_cons]
    have ha : (f a).length = s := h a (by simp)
    cases i with
    | zero =>
      simp only [Nat.zero_mul, Nat.zero_add, getElem_cons_zero]
      simp only [getD_eq_getElem?_getD]
      rw [getElem?_append_left (by omega)]
    | succ i =>
      simp only [getElem_cons_succ]
      have : (i + 1) * s + k = (f a).length + (i * s + k) := by rw [ha, Nat.add_mul]; omega
      rw [this]
      simp only [getD_eq_getElem?_getD]
      rw [getElem?_append_right (by omega)]
      have := ih (fun b hb => h b (by simp [hb])) i (by simpa using hi)
      simp only [getD_eq_getElem?_getD] at this
      rw [← this]; congr 2; omega

variable {α : Type} [Inhabited α]

theorem gatherRow_length (temp : List α) (s src : Nat) : (gatherRow temp s src).length = s := by
  simp [gatherRow]

theorem gatherAt_length (idx : List Nat) (s : Nat) (temp : List α) (i : Nat) :
    (gatherAt idx s temp i).length = s := gatherRow_length _ _ _

theorem gather_length (idx : List Nat) (s : Nat) (data : List α) :
    (gather idx s data).length = data.length := by
  unfold gather
  rw [length_append, length_flatMap_const _ (gatherAt idx s data) s (fun a _ => gatherAt_length idx s data a), length_range,
    length_drop]
  have := Nat.div_mul_le_self data.length s
  omega

/-- **rows stay together**: element `i*s+k` of the result is element
`idx[i]*s+k` of the source, for every stride `s` and component `k < s`. -/
theorem gather_getD (idx : List Nat) (s : Nat) (data : List α) (i k : Nat)
    (hi : i < data.length / s) (hk : k < s) :
    (gather idx s data).getD (i * s + k) default = data.getD (idx.getD i i * s + k) default := by
  unfold gather
  have hlen : ((range (data.length / s)).flatMap (gatherAt idx s data)).length = data.length / s * s := by
    rw [length_flatMap_const _ (gatherAt idx s data) s (fun a _ => gatherAt_length idx s data a), length_range]
  have hlt : i * s + k < data.length / s * s := by
    have : (i + 1) * s ≤ data.length / s * s := Nat.mul_le_mul_right s hi
    rw [Nat.add_mul] at this; omega
  rw [getD_eq_getElem?_getD, getElem?_append_left (by omega), ← getD_eq_getElem?_getD]
  rw [getD_flatMap_const _ (gatherAt idx s data) s default (fun a _ => gatherAt_length idx s data a) i k (by simpa using hi) hk]
  simp only [getElem_range, gatherAt, gatherRow]
  rw [getD_eq_getElem?_getD, getElem?_map, getElem?_range hk]
  simp

/-- row `i` of the result is row `idx[i]` of the source, whole -/
theorem row_gather (idx : List Nat) (s : Nat) (data : List α) (i : Nat) (hi : i < data.length / s) :
    row s (gather idx s data) i = row s data (idx.getD i i) := by
  unfold row gatherRow
  apply map_congr_left
  intro k hk
  exact gather_getD idx s data i k hi (by simpa using hk)

theorem rowsOf_gather (idx : List Nat) (s : Nat) (data : List α) (hl : idx.length = data.length / s) :
    rowsOf s (gather idx s data) = idx.map (row s data) := by
  unfold rowsOf
  rw [gather_length]
  apply ext_getElem
  · simp [hl]
  · intro i h1 h2
    simp only [length_map, length_range] at h1
    simp only [getElem_map, getElem_range]
    rw [row_gather idx s data i h1]
    congr 1
    simp [getD_eq_getElem?_getD, getElem?_eq_getElem (hl ▸ h1)]

/-- **multiset of rows preserved** by a gather through a permutation -/
theorem rowsOf_gather_perm (idx : List Nat) (s : Nat) (data : List α)
    (hp : idx ~ range (data.length / s)) : rowsOf s (gather idx s data) ~ rowsOf s data := by
  rw [rowsOf_gather idx s data (by simpa using hp.length_eq)]
  exact hp.map _


/-! ## linked list -/

/-- `l` is what following `next` from `start` visits before reaching `UINT_MAX` -/
def Chain (next : List (Option Nat)) : Option Nat → List Nat → Prop
  | start, [] => start = none
  | start, i :: t => start = some i ∧ Chain next (next.getD i none) t

theorem llWalk_of_chain (next : List (Option Nat)) (start : Option Nat) (l : List Nat) (fuel : Nat)
    (h : Chain next start l) (hf : l.length ≤ fuel) : llWalk next fuel start = l := by
  induction l generalizing start fuel with
  | nil =>
    simp only [Chain] at h
    subst h
    cases fuel <;> simp [llWalk]
  | cons i t ih =>
    obtain ⟨h1, h2⟩ := h
    subst h1
    cases fuel with
    | zero => simp at hf
    | succ f =>
      simp only [llWalk]
      rw [ih _ f h2 (by simpa using hf)]

theorem getD_set_ne {β : Type} (l : List β) (m i : Nat) (v d : β) (h : i ≠ m) :
    (l.set m v).getD i d = l.getD i d := by
  simp only [getD_eq_getElem?_getD]
  rw [getElem?_set_ne (by omega)]

theorem getD_set_self {β : Type} (l : List β) (m : Nat) (v d : β) (h : m < l.length) :
    (l.set m v).getD m d = v := by
  simp only [getD_eq_getElem?_getD]
  rw [getElem?_set_self (by omega)]; rfl

theorem chain_set (next : List (Option Nat)) (start : Option Nat) (l : List Nat) (m : Nat)
    (v : Option Nat) (h : Chain next start l) (hm : m ∉ l) : Chain (next.set m v) start l := by
  induction l generalizing start with
  | nil => exact h
  | cons i t ih =>
    obtain ⟨h1, h2⟩ := h
    refine ⟨h1, ?_⟩
    rw [getD_set_ne _ _ _ _ _ (by intro e; apply hm; simp [e])]
    exact ih _ h2 (by intro e; apply hm; simp [e])

/-- the cell's bucket in the order the walk visits it: last inserted first -/
def llBucket (cid : Nat → Nat) (k c : Nat) : List Nat :=
  ((range k).filter (fun i => cid i == c)).reverse

def llBinK (cid : Nat → Nat) (ncells n k : Nat) : LL :=
  (range k).foldl (llBinStep cid) (llInit ncells n)

theorem llBinK_succ (cid : Nat → Nat) (ncells n k : Nat) :
    llBinK cid ncells n (k + 1) = llBinStep cid (llBinK cid ncells n k) k := by
  simp [llBinK, range_succ, foldl_append]

theorem llBucket_succ_self (cid : Nat → Nat) (k : Nat) :
    llBucket cid (k + 1) (cid k) = k :: llBucket cid k (cid k) := by
  simp [llBucket, range_succ, filter_append]

theorem llBucket_succ_ne (cid : Nat → Nat) (k c : Nat) (h : cid k ≠ c) :
    llBucket cid (k + 1) c = llBucket cid k c := by
  simp [llBucket, range_succ, filter_append, h]

theorem not_mem_llBucket (cid : Nat → Nat) (k c : Nat) : k ∉ llBucket cid k c := by
  simp [llBucket]

/-- invariant of `_bin`: every cell's `head`/`next` chain is its bucket -/
theorem llBinK_inv (cid : Nat → Nat) (ncells n k : Nat) (hk : k ≤ n) :
    (llBinK cid ncells n k).head.length = ncells ∧ (llBinK cid ncells n k).next.length = n ∧
    ∀ c, c < ncells →
      Chain (llBinK cid ncells n k).next ((llBinK cid ncells n k).head.getD c none)
        (llBucket cid k c) := by
  induction k with
  | zero =>
    refine ⟨by simp [llBinK, llInit], by simp [llBinK, llInit], ?_⟩
    intro c hc'
    simp [llBinK, llInit, llBucket, Chain, getD_eq_getElem?_getD, hc']
  | succ k ih =>
    obtain ⟨h1, h2, h3⟩ := ih (by omega)
    rw [llBinK_succ]
    refine ⟨by simp [llBinStep, h1], by simp [llBinStep, h2], ?_⟩
    intro c hc'
    simp only [llBinStep]
    by_cases hck : cid k = c
    · subst hck
      rw [llBucket_succ_self, getD_set_self _ _ _ _ (by omega)]
      refine ⟨rfl, ?_⟩
      rw [getD_set_self _ _ _ _ (by omega)]
      exact chain_set _ _ _ _ _ (h3 _ hc') (not_mem_llBucket _ _ _)
    · rw [llBucket_succ_ne _ _ _ hck, getD_set_ne _ _ _ _ _ (by omega)]
      exact chain_set _ _ _ _ _ (h3 _ hc') (not_mem_llBucket _ _ _)

theorem llBucket_length_le (cid : Nat → Nat) (k c : Nat) : (llBucket cid k c).length ≤ k := by
  simp only [llBucket, length_reverse]
  exact Nat.le_trans (length_filter_le _ _) (by simp)

/-- what `LinkedListNNPS.get_spatially_ordered_indices` returns: the cells in
ascending order, each cell's particles in descending index order -/
theorem llOrder_eq (cid : Nat → Nat) (ncells n : Nat) :
    llOrder cid ncells n = (range ncells).flatMap (llBucket cid n) := by
  obtain ⟨h1, _, h3⟩ := llBinK_inv cid ncells n n (Nat.le_refl _)
  unfold llOrder llOrderOf
  change (range (llBinK cid ncells n n).head.length).flatMap (llCell (llBinK cid ncells n n) n) = _
  rw [h1]
  simp only [flatMap]
  congr 1
  apply map_congr_left
  intro c hc'
  simp only [mem_range] at hc'
  exact llWalk_of_chain _ _ _ _ (h3 c hc') (llBucket_length_le _ _ _)

theorem llOrder_perm (cid : Nat → Nat) (ncells n : Nat) (hc : ∀ i, i < n → cid i < ncells) :
    llOrder cid ncells n ~ range n := by
  rw [llOrder_eq cid ncells n]
  refine (flatMap_perm_pointwise _ _ (fun c => (range n).filter (fun i => cid i == c)) ?_).trans ?_
  · intro c _
    exact reverse_perm _
  · exact partition_perm cid ncells (range n) (fun x hx => hc x (by simpa using hx))


/-! ## align_particles -/

/-- tag of slot `x` (`1` = some non-Local value outside the array) -/
def tagAt (tags : List Int) (x : Nat) : Int := tags.getD x 1

/-- invariant of the index loop of `align_particles` after `i` iterations:
the index array is `L ++ G` with `L` the Local and `G` the other slots seen so
far, a permutation of `0..i-1`, and the identity as long as nothing moved -/
def AInv (tags : List Int) (i : Nat) (st : AlignSt) : Prop :=
  st.idx.length = i ∧ st.idx ~ range i ∧ (st.moves = 0 → st.idx = range i) ∧
  ∃ L G, st.idx = L ++ G ∧ L.length = st.next ∧
    (∀ x ∈ L, tagAt tags x = localTag) ∧ (∀ x ∈ G, tagAt tags x ≠ localTag)

theorem alignStep_inv (tags : List Int) (i : Nat) (st : AlignSt) (h : AInv tags i st) :
    AInv tags (i + 1) (alignStep st (tagAt tags i)) := by
  obtain ⟨hlen, hperm, hid, L, G, hidx, hL, hloc, hnon⟩ := h
  unfold alignStep
  simp only [hlen]
  by_cases ht : tagAt tags i = localTag
  · simp only [ht, beq_self_eq_true, if_true]
    by_cases hin : i = st.next
    · -- nothing to move: G is empty
      have hG : G = [] := by
        have : (L ++ G).length = i := by rw [← hidx]; exact hlen
        rw [length_append] at this
        exact length_eq_zero_iff.mp (by omega)
      subst hG
      simp only [hin, bne_self_eq_false, Bool.false_eq_true, if_false]
      refine ⟨by simp [hlen, hin], ?_, ?_, L ++ [st.next], [], by simp [hidx], by simp [hL], ?_, by simp⟩
      · rw [range_succ, ← hin]; exact Perm.append_right _ hperm
      · intro hm; rw [hid hm, range_succ, ← hin]
      · intro x hx
        rcases mem_append.mp hx with hx | hx
        · exact hloc x hx
        · simp only [mem_singleton] at hx; subst hx; rw [← hin]; exact ht
    · have hne : (i != st.next) = true := by simp [hin]
      simp only [hne, if_true]
      have hlt : L.length < i := by
        have : (L ++ G).length = i := by rw [← hidx]; exact hlen
        rw [length_append] at this
        omega
      obtain ⟨g, G', hG⟩ : ∃ g G', G = g :: G' := by
        cases G with
        | nil =>
          have : (L ++ ([] : List Nat)).length = i := by rw [← hidx]; exact hlen
          simp at this; omega
        | cons g G' => exact ⟨g, G', rfl⟩
      subst hG
      have hset : st.idx.set st.next i = L ++ i :: G' := by
        rw [hidx, ← hL, set_append]; simp
      have hget : st.idx.getD st.next 0 = g := by
        rw [hidx, ← hL, getD_eq_getElem?_getD, getElem?_append_right (Nat.le_refl _)]; simp
      rw [hset, hget]
      refine ⟨?_, ?_, by simp, L ++ [i], G' ++ [g], by simp, by simp [hL], ?_, ?_⟩
      · have : (L ++ g :: G').length = i := by rw [← hidx]; exact hlen
        simp only [length_append, length_cons, length_nil] at this ⊢; omega
      · rw [range_succ]
        refine Perm.trans ?_ (Perm.append_right _ hperm)
        rw [hidx, perm_iff_count]
        intro a
        simp only [count_append, count_cons, count_nil]
        omega
      · intro x hx
        rcases mem_append.mp hx with hx | hx
        · exact hloc x hx
        · simp only [mem_singleton] at hx; subst hx; exact ht
      · intro x hx
        rcases mem_append.mp hx with hx | hx
        · exact hnon x (by simp [hx])
        · simp only [mem_singleton] at hx; subst hx; exact hnon x (by simp)
  · have hb : (tagAt tags i == localTag) = false := by simp [ht]
    simp only [hb, Bool.false_eq_true, if_false]
    refine ⟨by simp [hlen], ?_, ?_, L, G ++ [i], by simp [hidx], hL, hloc, ?_⟩
    · rw [range_succ]; exact Perm.append_right _ hperm
    · intro hm; rw [hid hm, range_succ]
    · intro x hx
      rcases mem_append.mp hx with hx | hx
      · exact hnon x hx
      · simp only [mem_singleton] at hx; subst hx; exact ht

theorem alignFold_inv (tags : List Int) (rest done : List Int) (st : AlignSt)
    (hsplit : tags = done ++ rest) (h : AInv tags done.length st) :
    AInv tags tags.length (rest.foldl alignStep st) := by
  induction rest generalizing done st with
  | nil =>
    simp only [foldl_nil]
    have : tags.length = done.length := by simp [hsplit]
    rw [this]; exact h
  | cons t rest ih =>
    simp only [foldl_cons]
    have ht : tagAt tags done.length = t := by
      simp [tagAt, hsplit, getD_eq_getElem?_getD]
    have := alignStep_inv tags done.length st h
    rw [ht] at this
    exact ih (done ++ [t]) _ (by simp [hsplit]) (by simpa using this)

theorem alignIndex_inv (tags : List Int) : AInv tags tags.length (alignIndex tags) := by
  apply alignFold_inv tags tags [] _ (by simp)
  exact ⟨rfl, by simp, fun _ => by simp, [], [], by simp, rfl, by simp, by simp⟩


/-! ## the particle array -/

theorem getD_default_irrel {β : Type} (l : List β) (i : Nat) (d1 d2 : β) (h : i < l.length) :
    l.getD i d1 = l.getD i d2 := by
  simp [getD_eq_getElem?_getD, getElem?_eq_getElem h]

theorem gather_one (idx : List Nat) (data : List α) (hl : idx.length = data.length) :
    gather idx 1 data = idx.map (fun i => data.getD i default) := by
  apply ext_getElem
  · rw [gather_length, length_map, hl]
  · intro i h1 h2
    rw [gather_length] at h1
    have := gather_getD idx 1 data i 0 (by simpa using h1) (by omega)
    simp only [Nat.mul_one, Nat.add_zero] at this
    rw [getD_eq_getElem?_getD, getElem?_eq_getElem (by rw [gather_length]; exact h1)] at this
    simp only [Option.getD_some] at this
    rw [this, getElem_map]
    congr 1
    simp [getD_eq_getElem?_getD, getElem?_eq_getElem (hl ▸ h1)]

theorem tagPred_gatherCol (idx : List Nat) :
    ((fun (c : Col) => c.name == "tag") ∘ gatherCol idx) = (fun (c : Col) => c.name == "tag") := by
  funext c; rfl

theorem tags_gatherAll (pa : PA) (idx : List Nat) (hwf : pa.wf = true) :
    (pa.gatherAll idx).tags = gather idx 1 pa.tags := by
  unfold PA.wf at hwf
  simp only [Bool.and_eq_true] at hwf
  obtain ⟨_, h2⟩ := hwf
  unfold PA.tags PA.gatherAll
  simp only [find?_map, tagPred_gatherCol]
  cases hf : pa.props.find? (fun c => c.name == "tag") with
  | none => simp [gather]
  | some c =>
    rw [hf] at h2
    simp only [Option.any_some, beq_iff_eq] at h2
    simp [gatherCol, h2]

theorem n_gatherAll (pa : PA) (idx : List Nat) (hwf : pa.wf = true) :
    (pa.gatherAll idx).n = pa.n := by
  unfold PA.n; rw [tags_gatherAll pa idx hwf, gather_length]

theorem wf_gatherAll (pa : PA) (idx : List Nat) (hwf : pa.wf = true) :
    (pa.gatherAll idx).wf = true := by
  have hn := n_gatherAll pa idx hwf
  have hwf' := hwf
  unfold PA.wf at hwf ⊢
  simp only [Bool.and_eq_true] at hwf ⊢
  obtain ⟨h1, h2⟩ := hwf
  refine ⟨?_, ?_⟩
  · rw [hn]
    simp only [PA.gatherAll, all_map, all_eq_true] at h1 ⊢
    intro c hc
    have := h1 c hc
    simpa [Function.comp, gatherCol, gather_length] using this
  · simp only [PA.gatherAll, find?_map, tagPred_gatherCol]
    cases hf : pa.props.find? (fun c => c.name == "tag") with
    | none => rw [hf] at h2; simp at h2
    | some c => rw [hf] at h2; simpa [gatherCol] using h2

theorem wf_setNReal (pa : PA) (k : Nat) (hwf : pa.wf = true) : ({ pa with nReal := k } : PA).wf = true :=
  hwf

/-- after a gather, particle `i` is the old particle `idx[i]`, whole -/
theorem particles_gatherAll (pa : PA) (idx : List Nat) (hwf : pa.wf = true) (hl : idx.length = pa.n) :
    (pa.gatherAll idx).particles = idx.map pa.particle := by
  unfold PA.particles
  rw [n_gatherAll pa idx hwf]
  apply ext_getElem
  · simp [hl]
  · intro i h1 h2
    simp only [length_map, length_range] at h1
    simp only [getElem_map, getElem_range]
    unfold PA.particle PA.gatherAll
    simp only [map_map]
    apply map_congr_left
    intro c hc
    simp only [Function.comp, gatherCol]
    unfold PA.wf at hwf
    simp only [Bool.and_eq_true, all_eq_true, decide_eq_true_eq, beq_iff_eq] at hwf
    obtain ⟨hs, hlen⟩ := hwf.1 c hc
    have hdiv : c.data.length / c.stride = pa.n := by
      rw [hlen]; exact Nat.mul_div_cancel _ hs
    rw [row_gather idx c.stride c.data i (by omega)]
    congr 1
    simp [getD_eq_getElem?_getD, getElem?_eq_getElem (hl ▸ h1)]

theorem particles_gatherAll_perm (pa : PA) (idx : List Nat) (hwf : pa.wf = true)
    (hp : idx ~ range pa.n) : (pa.gatherAll idx).particles ~ pa.particles := by
  rw [particles_gatherAll pa idx hwf (by simpa using hp.length_eq)]
  exact hp.map _

theorem particles_setNReal (pa : PA) (k : Nat) : ({ pa with nReal := k } : PA).particles = pa.particles :=
  rfl


/-! ## align on the particle array -/

theorem realFirst_of_split (tags' : List Int) (f : Nat → Int) (L G : List Nat) (k : Nat)
    (ht : tags' = (L ++ G).map f) (hk : L.length = k)
    (hL : ∀ x ∈ L, f x = localTag) (hG : ∀ x ∈ G, f x ≠ localTag) :
    ((tags'.take k).all (· == localTag) && (tags'.drop k).all (· != localTag) &&
      decide (k ≤ tags'.length)) = true := by
  subst ht
  rw [map_append]
  have h1 : ((map f L ++ map f G).take k) = map f L := by
    rw [take_append]
    have e1 : take k (map f L) = map f L := take_of_length_le (by simp [hk])
    rw [e1]; simp [hk]
  have h2 : ((map f L ++ map f G).drop k) = map f G := by
    rw [drop_append]; simp [← hk]
  rw [h1, h2]
  simp only [Bool.and_eq_true, all_eq_true, mem_map, decide_eq_true_eq, length_append, length_map]
  refine ⟨⟨?_, ?_⟩, by omega⟩
  · rintro _ ⟨x, hx, rfl⟩; simp [hL x hx]
  · rintro _ ⟨x, hx, rfl⟩; simp [hG x hx]

theorem tags_eq_map_range (tags : List Int) : tags = (range tags.length).map (tagAt tags) := by
  apply ext_getElem
  · simp
  · intro i h1 h2
    simp [tagAt, getD_eq_getElem?_getD, getElem?_eq_getElem h1]

/-- the tags after `align_particles` are the old tags read through the index array -/
theorem tags_align (pa : PA) (hwf : pa.wf = true) :
    (align pa).tags = (alignIndex pa.tags).idx.map (tagAt pa.tags) := by
  obtain ⟨hlen, hperm, hid, _⟩ := alignIndex_inv pa.tags
  unfold align
  simp only
  split
  · rw [tags_gatherAll _ _ (wf_setNReal pa _ hwf)]
    change gather (alignIndex pa.tags).idx 1 pa.tags = _
    rw [gather_one _ _ hlen]
    apply map_congr_left
    intro x hx
    have : x < pa.tags.length := by simpa using (hperm.mem_iff.mp hx)
    exact getD_default_irrel _ _ _ _ this
  · rename_i hm
    have : (alignIndex pa.tags).moves = 0 := by omega
    rw [hid this]
    exact tags_eq_map_range pa.tags

/-- **real particles first** after `align_particles`, for every array -/
theorem realFirst_align (pa : PA) (hwf : pa.wf = true) : (align pa).realFirst = true := by
  have htags := tags_align pa hwf
  obtain ⟨hlen, hperm, hid, L, G, hidx, hL, hloc, hnon⟩ := alignIndex_inv pa.tags
  have hnr : (align pa).nReal = (alignIndex pa.tags).next := by
    unfold align; simp only; split <;> rfl
  unfold PA.realFirst PA.n
  rw [hnr]
  rw [hidx] at htags
  simpa using realFirst_of_split _ _ L G _ htags hL hloc hnon

theorem wf_align (pa : PA) (hwf : pa.wf = true) : (align pa).wf = true := by
  unfold align; simp only
  split
  · exact wf_gatherAll _ _ (wf_setNReal pa _ hwf)
  · exact wf_setNReal pa _ hwf

theorem n_align (pa : PA) (hwf : pa.wf = true) : (align pa).n = pa.n := by
  unfold align; simp only
  split
  · rw [n_gatherAll _ _ (wf_setNReal pa _ hwf)]; rfl
  · rfl

theorem particles_align_perm (pa : PA) (hwf : pa.wf = true) : (align pa).particles ~ pa.particles := by
  obtain ⟨_, hperm, _, _⟩ := alignIndex_inv pa.tags
  unfold align; simp only
  split
  · exact particles_gatherAll_perm _ _ (wf_setNReal pa _ hwf) hperm
  · exact Perm.refl _

/-- number of Local tags -/
def countLocal (tags : List Int) : Nat := tags.count localTag

theorem nReal_align (pa : PA) : (align pa).nReal = countLocal pa.tags := by
  obtain ⟨hlen, hperm, hid, L, G, hidx, hL, hloc, hnon⟩ := alignIndex_inv pa.tags
  have hnr : (align pa).nReal = (alignIndex pa.tags).next := by
    unfold align; simp only; split <;> rfl
  rw [hnr, ← hL]
  have h1 : pa.tags ~ (L ++ G).map (tagAt pa.tags) := by
    have := (hperm.map (tagAt pa.tags)).symm
    rw [← tags_eq_map_range, hidx] at this
    exact this
  unfold countLocal
  rw [h1.count_eq, map_append, count_append]
  have hcL : count localTag (map (tagAt pa.tags) L) = L.length := by
    rw [count_eq_length.mpr]
    · simp
    · intro b hb
      obtain ⟨x, hx, rfl⟩ := mem_map.mp hb
      exact (hloc x hx).symm
  have hcG : count localTag (map (tagAt pa.tags) G) = 0 := by
    apply count_eq_zero_of_not_mem
    intro hb
    obtain ⟨x, hx, hxe⟩ := mem_map.mp hb
    exact hnon x hx hxe
  omega


/-! ## `spatially_order_particles` and histories of re-orderings -/

theorem wf_orig (idx : List Nat) (pa : PA) (hwf : pa.wf = true) :
    (spatiallyOrderOrig idx pa).wf = true := wf_gatherAll pa idx hwf

theorem n_orig (idx : List Nat) (pa : PA) (hwf : pa.wf = true) :
    (spatiallyOrderOrig idx pa).n = pa.n := n_gatherAll pa idx hwf

theorem wf_fixed (idx : List Nat) (pa : PA) (hwf : pa.wf = true) :
    (spatiallyOrder idx pa).wf = true := wf_align _ (wf_orig idx pa hwf)

theorem n_fixed (idx : List Nat) (pa : PA) (hwf : pa.wf = true) :
    (spatiallyOrder idx pa).n = pa.n := by
  unfold spatiallyOrder
  rw [n_align _ (wf_orig idx pa hwf), n_orig idx pa hwf]

theorem particles_fixed_perm (idx : List Nat) (pa : PA) (hwf : pa.wf = true)
    (hp : idx ~ range pa.n) : (spatiallyOrder idx pa).particles ~ pa.particles :=
  (particles_align_perm _ (wf_orig idx pa hwf)).trans (particles_gatherAll_perm pa idx hwf hp)

/-- `Solver.solve` calls `reorder_particles` again and again: one array's history -/
def reorderStep (pa : PA) (idx : List Nat) : PA := spatiallyOrder idx pa

def reorderHistory (idxs : List (List Nat)) (pa : PA) : PA := idxs.foldl reorderStep pa

theorem reorderHistory_spec (idxs : List (List Nat)) (pa : PA) (hwf : pa.wf = true)
    (h : ∀ idx ∈ idxs, idx ~ range pa.n) (h0 : idxs = [] → pa.realFirst = true) :
    (reorderHistory idxs pa).particles ~ pa.particles ∧ (reorderHistory idxs pa).wf = true ∧
    (reorderHistory idxs pa).n = pa.n ∧ (reorderHistory idxs pa).realFirst = true := by
  induction idxs generalizing pa with
  | nil => exact ⟨Perm.refl _, hwf, rfl, h0 rfl⟩
  | cons idx rest ih =>
    have hp := h idx (by simp)
    have hwf1 := wf_fixed idx pa hwf
    have hn1 := n_fixed idx pa hwf
    have hrf : (spatiallyOrder idx pa).realFirst = true := realFirst_align _ (wf_orig idx pa hwf)
    obtain ⟨a, b, c, d⟩ := ih (spatiallyOrder idx pa) hwf1
      (fun i hi => by rw [hn1]; exact h i (by simp [hi])) (fun _ => hrf)
    refine ⟨?_, b, by rw [← hn1]; exact c, d⟩
    exact Perm.trans a (particles_fixed_perm idx pa hwf hp)

/-! ### histories on ONE search structure: the array is edited between the re-orderings

`spatiallyOrder idx pa` is a function of the array *as it is when the re-order
runs*: `pa.props` is `pa.properties` at that moment and `pa.n` the particle
count at that moment.  The model has no state of the NNPS object in which a
property list or a particle count of construction time could survive, so the
per-call theorems already speak about the current properties and the current
count; `history_with_edits` spells that out for a whole life of the array. -/

/-- one event in the life of an array a search structure was built on -/
inductive Event where
  /-- `spatially_order_particles` with the ordered index list of that moment -/
  | reorder (idx : List Nat)
  /-- anything else: `add_particles`, `remove_particles`, ghosts made by the
  domain manager, `add_property`, `ensure_properties`, `remove_property`, motion … -/
  | edit (f : PA → PA)

def Event.apply (pa : PA) : Event → PA
  | .reorder idx => spatiallyOrder idx pa
  | .edit f => f pa

def runEvents (pa : PA) (evs : List Event) : PA := evs.foldl Event.apply pa

def PA.names (pa : PA) : List String := pa.props.map (fun c => c.name)

/-- every edit leaves a well-formed array (any number of particles, any
property set), every re-order is handed a permutation of the slots the array
has *at that time* -/
def Admissible : PA → List Event → Prop
  | _, [] => True
  | pa, .reorder idx :: r => idx ~ range pa.n ∧ Admissible (spatiallyOrder idx pa) r
  | pa, .edit f :: r => (f pa).wf = true ∧ Admissible (f pa) r

/-- what C17 demands of one re-order: same whole particles over the properties
the array has now, same property list, same count, real particles first -/
def ReorderGood (before after : PA) : Prop :=
  after.particles ~ before.particles ∧ after.names = before.names ∧ after.n = before.n ∧
    after.wf = true ∧ after.realFirst = true

def EveryReorderGood : PA → List Event → Prop
  | _, [] => True
  | pa, .reorder idx :: r =>
      ReorderGood pa (spatiallyOrder idx pa) ∧ EveryReorderGood (spatiallyOrder idx pa) r
  | pa, .edit f :: r => EveryReorderGood (f pa) r

theorem names_gatherAll (pa : PA) (idx : List Nat) : (pa.gatherAll idx).names = pa.names := by
  simp [PA.names, PA.gatherAll, gatherCol, Function.comp_def]

theorem names_align (pa : PA) : (align pa).names = pa.names := by
  unfold align
  simp only []
  split
  · rw [names_gatherAll]; rfl
  · rfl

theorem names_fixed (idx : List Nat) (pa : PA) : (spatiallyOrder idx pa).names = pa.names := by
  unfold spatiallyOrder spatiallyOrderOrig
  rw [names_align, names_gatherAll]

theorem reorderGood_fixed (idx : List Nat) (pa : PA) (hwf : pa.wf = true) (hp : idx ~ range pa.n) :
    ReorderGood pa (spatiallyOrder idx pa) :=
  ⟨particles_fixed_perm idx pa hwf hp, names_fixed idx pa, n_fixed idx pa hwf, wf_fixed idx pa hwf,
    realFirst_align _ (wf_orig idx pa hwf)⟩

theorem everyReorderGood_of_admissible (evs : List Event) (pa : PA) (hwf : pa.wf = true)
    (h : Admissible pa evs) : EveryReorderGood pa evs ∧ (runEvents pa evs).wf = true := by
  induction evs generalizing pa with
  | nil => exact ⟨trivial, hwf⟩
  | cons ev rest ih =>
    cases ev with
    | reorder idx =>
      obtain ⟨hp, hr⟩ := h
      obtain ⟨a, b⟩ := ih (spatiallyOrder idx pa) (wf_fixed idx pa hwf) hr
      exact ⟨⟨reorderGood_fixed idx pa hwf hp, a⟩, b⟩
    | edit f =>
      obtain ⟨hw, hr⟩ := h
      exact ih (f pa) hw hr

/-- the seeded shape B2: only the properties in a list remembered from
construction time are gathered (not the code; kept for its counterexample) -/
def spatiallyOrderCached (cached : List String) (idx : List Nat) (pa : PA) : PA :=
  align { pa with props := pa.props.map (fun c => if cached.contains c.name then gatherCol idx c else c) }

/-- `add_property(name, stride)` with a value per particle -/
def addProp (name : String) (stride : Nat) (data : List Int) (pa : PA) : PA :=
  { pa with props := pa.props ++ [⟨name, stride, data⟩] }

end PysphVerif.Reorder
