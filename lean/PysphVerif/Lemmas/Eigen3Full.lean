import PysphVerif.Lemmas.Eigen3Tred2
import PysphVerif.Lemmas.Eigen3Tql2Loop
/-!
`tred2` as a whole, and `eigen_decomposition = scaling + tred2 + tql2 + unscaling`.
-/
set_option linter.unusedSectionVars false
set_option linter.unusedVariables false
set_option linter.unusedSimpArgs false
set_option linter.unusedTactic false
set_option linter.unreachableTactic false
namespace PysphVerif.Eigen3
open Matrix

variable {K : Type} [Field K] [LinearOrder K] [IsStrictOrderedRing K]

theorem symm_toM (A : Mat K) (h : A.Symm) :
    A.toM = A3 A.a00 A.a10 A.a11 A.a20 A.a21 A.a22 := by
  obtain ⟨h1, h2, h3⟩ := h
  simp only [Mat.get01, Mat.get10, Mat.get02, Mat.get20, Mat.get12, Mat.get21] at h1 h2 h3
  ext i j; fin_cases i <;> fin_cases j <;> simp [A3, Mat.get, h1, h2, h3]

/-- **`tred2`**: the returned `V` is orthogonal and `V T Vᵀ = A` for the symmetric tridiagonal
`T` with diagonal `d` and sub-diagonal `e[1], e[2]` — in all four branch combinations -/
theorem tred2_spec {sqrt : K → K} (hs : SqrtOK sqrt) (s : St K) (hsym : s.V.Symm) :
    (tred2 abs sqrt s).V.toMᵀ * (tred2 abs sqrt s).V.toM = 1 ∧
    (tred2 abs sqrt s).V.toM * (tred2 abs sqrt s).V.toMᵀ = 1 ∧
    s.V.toM = (tred2 abs sqrt s).V.toM * Ttri (tred2 abs sqrt s).d (tred2 abs sqrt s).e *
      (tred2 abs sqrt s).V.toMᵀ := by
  rw [tred2_eq]
  set s0 : St K := ⟨s.V, ⟨s.V.a20, s.V.a21, s.V.a22⟩, s.e, s.log⟩ with hs0
  have post2 : S2Post s.V.a00 s.V.a10 s.V.a11 s.V.a20 s.V.a21 s0 (t2Outer abs sqrt s0 2) := by
    by_cases hsc : 0 + |s0.d.x0| + |s0.d.x1| = 0
    · exact stage2_zero sqrt s0 hsc
    · exact stage2_house hs s0 hsc
  set s2 := t2Outer abs sqrt s0 2 with hs2
  have post1 : S1Post s2 (t2Outer abs sqrt s2 1) := by
    by_cases hsc : 0 + |s2.d.x0| = 0
    · exact stage1_zero sqrt s2 hsc
    · exact stage1_house hs s2 hsc
  set s1 := t2Outer abs sqrt s2 1 with hs1
  clear_value s2 s1
  obtain ⟨P, hPP, hPt, hsim, hPne, hPz⟩ := post2.sim
  obtain ⟨δ, hδ, he1, hδne, hδz⟩ := post1.sim
  have hA := hsim s.V.a22
  rw [← symm_toM s.V hsym] at hA
  have hs0' : s0.V.a22 = s.V.a22 := rfl
  by_cases h1 : s1.d.x1 = 0 <;> by_cases h2 : s1.d.x2 = 0
  · have hz := hδz h1
    rw [t2Acc0_form, if_pos h1, t2Acc1_form, if_pos h2]
    rw [post1.d2] at h2
    apply assemble P s.V.toM _ _ _ δ hPP hPt hδ hA
    · ext i j; fin_cases i <;> fin_cases j <;>
        simp [Ttri, t2Final, D3, A3, Matrix.mul_apply, Fin.sum_univ_three, Vec.get, post1.v00,
          post1.v10, post1.v02, post1.v11, post1.v12, post1.v20, post1.v21, post1.v22, post1.d2,
          post1.e2, he1, post2.d0, post2.d1, post2.v20, post2.v21, post2.v22, hz, hs0']
    · rw [hPz h2]
      ext i j; fin_cases i <;> fin_cases j <;>
        simp [t2Final, D3, Matrix.mul_apply, Fin.sum_univ_three, Mat.get, post1.v00,
          post1.v10, post1.v02, post1.v11, post1.v12, post1.v20, post1.v21, post1.v22, hz,
          Matrix.one_apply]
  · have hz := hδz h1
    rw [t2Acc0_form, if_pos h1, t2Acc1_form, if_neg h2]
    rw [post1.d2] at h2
    apply assemble P s.V.toM _ _ _ δ hPP hPt hδ hA
    · ext i j; fin_cases i <;> fin_cases j <;>
        simp [Ttri, t2Final, D3, A3, Matrix.mul_apply, Fin.sum_univ_three, Vec.get, post1.v00,
          post1.v10, post1.v02, post1.v11, post1.v12, post1.v20, post1.v21, post1.v22, post1.d2,
          post1.e2, he1, post2.d0, post2.d1, post2.v20, post2.v21, post2.v22, hz, hs0']
    · rw [hPne h2]
      ext i j; fin_cases i <;> fin_cases j <;>
        simp [t2Final, D3, P3, Matrix.mul_apply, Fin.sum_univ_three, Mat.get, post1.v00,
          post1.v10, post1.v02, post1.v11, post1.v12, post1.v20, post1.v21, post1.v22, post1.d2, hz,
          Matrix.one_apply] <;> ring1
  · have hne := hδne h1
    rw [t2Acc0_form, if_neg h1, t2Acc1_form, if_pos h2]
    rw [post1.d2] at h2
    apply assemble P s.V.toM _ _ _ δ hPP hPt hδ hA
    · ext i j; fin_cases i <;> fin_cases j <;>
        simp [Ttri, t2Final, D3, A3, Matrix.mul_apply, Fin.sum_univ_three, Vec.get, post1.v00,
          post1.v10, post1.v02, post1.v11, post1.v12, post1.v20, post1.v21, post1.v22, post1.d2,
          post1.e2, he1, post2.d0, post2.d1, post2.v20, post2.v21, post2.v22, hs0'] <;>
        first | ring1 | linear_combination (-s2.V.a00) * hδ | linear_combination (s2.V.a00) * hδ
    · rw [hPz h2]
      simp only [mul_one, zero_add] at hne
      ext i j; fin_cases i <;> fin_cases j <;>
        simp [t2Final, D3, Matrix.mul_apply, Fin.sum_univ_three, Mat.get, post1.v00,
          post1.v10, post1.v02, post1.v11, post1.v12, post1.v20, post1.v21, post1.v22, hne,
          Matrix.one_apply]
  · have hne := hδne h1
    rw [t2Acc0_form, if_neg h1, t2Acc1_form, if_neg h2]
    rw [post1.d2] at h2
    apply assemble P s.V.toM _ _ _ δ hPP hPt hδ hA
    · ext i j; fin_cases i <;> fin_cases j <;>
        simp [Ttri, t2Final, D3, A3, Matrix.mul_apply, Fin.sum_univ_three, Vec.get, post1.v00,
          post1.v10, post1.v02, post1.v11, post1.v12, post1.v20, post1.v21, post1.v22, post1.d2,
          post1.e2, he1, post2.d0, post2.d1, post2.v20, post2.v21, post2.v22, hs0'] <;>
        first | ring1 | linear_combination (-s2.V.a00) * hδ | linear_combination (s2.V.a00) * hδ
    · rw [hPne h2]
      simp only [mul_one, zero_add] at hne
      ext i j; fin_cases i <;> fin_cases j <;>
        simp [t2Final, D3, P3, Matrix.mul_apply, Fin.sum_univ_three, Mat.get, post1.v00,
          post1.v10, post1.v02, post1.v11, post1.v12, post1.v20, post1.v21, post1.v22, post1.d2, hne,
          Matrix.one_apply] <;> ring1


theorem scaleMat_symm (A : Mat K) (s : K) (h : A.Symm) : (scaleMat A s).Symm := by
  obtain ⟨h1, h2, h3⟩ := h
  simp only [Mat.get01, Mat.get10, Mat.get02, Mat.get20, Mat.get12, Mat.get21] at h1 h2 h3
  refine ⟨?_, ?_, ?_⟩ <;> simp [scaleMat, Mat.ofFn, Mat.get, h1, h2, h3]

theorem scaleMat_toM (A : Mat K) (s : K) (hs : s ≠ 0) : A.toM = s • (scaleMat A s).toM := by
  ext i j; fin_cases i <;> fin_cases j <;> simp [scaleMat, Mat.ofFn, Mat.get] <;> field_simp

/-- **`eigen_decomposition`**, any fuel, symmetric `A`: if it returns, `V` is orthonormal,
`d` ascending, and `A = V diag(d) Vᵀ + s·Σ(dropped entries)` with `s = Σ|aᵢⱼ|` -/
theorem eigenDecomposition_spec {sqrt : K → K} {hyp : K → K → K} (hs : SqrtOK sqrt)
    (hh : HypOK hyp) (eps : K) (heps : 0 ≤ eps) (fuel : Nat) (A : Mat K) (hsym : A.Symm)
    (o : Out K) (h : eigenDecomposition abs sqrt hyp eps fuel A = .ok o) :
    Orthonormal o.V ∧
    A.toM = o.V.toM * Matrix.diagonal o.d.toF * o.V.toMᵀ + absSum A • dropSum o.drops ∧
    o.d 0 ≤ o.d 1 ∧ o.d 1 ≤ o.d 2 := by
  rw [eigenDecomposition_eq] at h
  by_cases hz : absSum A = 0
  · rw [if_pos hz] at h
    injection h with h
    subst h
    have hA := (absSum_eq_zero_iff A).mp hz
    refine ⟨orthonormal_idMat, ?_, le_refl _, le_refl _⟩
    rw [hz, zero_smul, add_zero, hA]
    show _ = (idMat : Mat K).toM * _ * (idMat : Mat K).toMᵀ
    rw [idMat_toM]
    ext i j; fin_cases i <;> fin_cases j <;>
      simp [Mat.get, Vec.toF, Vec.ofFn, Vec.get, Matrix.diagonal_apply, zeroMatrixCase]
  · rw [if_neg hz] at h
    have hspos : 0 < absSum A := lt_of_le_of_ne (absSum_nonneg A) (Ne.symm hz)
    set st := tred2 abs sqrt (St.mk (scaleMat A (absSum A)) (Vec.ofFn (fun _ => 0))
      (Vec.ofFn (fun _ => 0)) [401]) with hst
    have ht := tred2_spec hs (St.mk (scaleMat A (absSum A)) (Vec.ofFn (fun _ => (0 : K)))
      (Vec.ofFn (fun _ => (0 : K))) [401]) (scaleMat_symm A _ hsym)
    rw [← hst] at ht
    obtain ⟨t1, t2, t3⟩ := ht
    cases hq : tql2 abs hyp eps fuel st with
    | error e => rw [hq] at h; exact absurd h (by simp)
    | ok t =>
      rw [hq] at h
      simp only at h
      injection h with h
      subst h
      obtain ⟨q1, q2, q3, q4⟩ := tql2_spec hyp hh eps heps fuel st t t1 t2 hq
      refine ⟨q1, ?_, ?_, ?_⟩
      · rw [scaleMat_toM A (absSum A) hz]
        show _ • (scaleMat A (absSum A)).toM = _
        rw [t3, q2, smul_add]
        congr 1
        ext i j
        simp only [Matrix.smul_apply, recon_apply, smul_eq_mul, Finset.mul_sum]
        apply Finset.sum_congr rfl
        intro k _
        fin_cases k <;> simp [Vec.toF, Vec.get] <;> ring
      · show t.d.x0 * absSum A ≤ t.d.x1 * absSum A
        exact mul_le_mul_of_nonneg_right q3 (le_of_lt hspos)
      · show t.d.x1 * absSum A ≤ t.d.x2 * absSum A
        exact mul_le_mul_of_nonneg_right q4 (le_of_lt hspos)

/-- `A = V diag(d) Vᵀ` and `VᵀV = 1` give `A V = V diag(d)` -/
theorem isEigDecomp_of_recon (A V : Mat K) (d : Vec K) (ho : Orthonormal V)
    (h : A.toM = V.toM * Matrix.diagonal d.toF * V.toMᵀ) : IsEigDecomp A V d := by
  unfold IsEigDecomp Orthonormal at *
  rw [h, Matrix.mul_assoc, ho, Matrix.mul_one]

end PysphVerif.Eigen3
