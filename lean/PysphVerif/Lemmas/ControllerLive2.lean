import PysphVerif.Lemmas.ControllerLive
/-! C18: reachability of `F`, and "never stuck" for the pause fragment of the repaired protocol -/
namespace PysphVerif.Controller

theorem f_init (ps : List (List Op)) (hwf : ∀ p ∈ ps, WFp false p = true) :
    F ps.length (init (progsOf ps)) := by
  constructor <;> try (simp [init, holdsD, holdsQ, holdsP, sHoldsQ, fragSpc, inflightCont, progsOf]; done)
  · intro u
    simp only [init, List.not_mem_nil, decide_false, cons, progsOf]
    split
    · rfl
    · by_cases hu : u - 1 < ps.length
      · rw [List.getD_eq_getElem?_getD, List.getElem?_eq_getElem hu]
        exact hwf _ (List.getElem_mem hu)
      · rw [List.getD_eq_getElem?_getD, List.getElem?_eq_none (Nat.le_of_not_lt hu)]; rfl
  · intro u hu
    simp only [init, progsOf, true_and]
    split
    · rfl
    · rw [List.getD_eq_getElem?_getD, List.getElem?_eq_none (by omega)]; rfl

theorem reachable_f {ps : List (List Op)} {s : State} (hwf : ∀ p ∈ ps, WFp false p = true)
    (hr : Reachable Cfg.fixed (progsOf ps) s) : F ps.length s := by
  induction hr with
  | init => exact f_init ps hwf
  | @step s s' t evs hr hs ih =>
    have hq := (reachable_inv hr).2
    have hw := reachable_w (cfg := Cfg.fixed) rfl rfl hr
    have hp := reachable_pinv hr
    unfold step at hs
    split at hs
    · exact f_stepSolver ih hw hp hq hs
    · rename_i ht; exact f_stepIface ih hw hp hq ht hs

set_option maxHeartbeats 4000000 in
theorem frag_not_stuck {n : Nat} {s : State} (h : F n s) (hw : W s) (hp : PInv s) :
    ∃ t, t ≤ n ∧ enabled Cfg.fixed s t = true := by
  apply Classical.byContradiction
  intro hc
  have hno : ∀ t, t ≤ n → step Cfg.fixed s t = none := by
    intro t ht
    cases hst : step Cfg.fixed s t with
    | none => rfl
    | some x => exact absurd ⟨t, ht, by simp [enabled, hst]⟩ hc
  have hI : ∀ v, v ≠ 0 → stepIface Cfg.fixed s v = none := by
    intro v hv
    by_cases hvn : v ≤ n
    · have := hno v hvn; simpa [step, hv] using this
    · have := h.inert v (Nat.lt_of_not_le hvn); simp [stepIface, this.1, this.2]
  have h0 : stepSolver Cfg.fixed s = none := by simpa [step] using hno 0 (Nat.zero_le _)
  -- what "not enabled" means per program counter
  have hpcs : ∀ v, v ≠ 0 →
      holdsP (s.th v).pc = false ∧ holdsQ (s.th v).pc = false ∧ holdsD (s.th v).pc = false ∧
      ((s.th v).pc = IPc.idle → (s.th v).prog = []) ∧
      (((s.th v).pc = IPc.pAcqP ∨ (s.th v).pc = IPc.wAcqP ∨ (s.th v).pc = IPc.wReacqP ∨
        (s.th v).pc = IPc.cAcqP) → s.pOwner ≠ none) ∧
      ((s.th v).pc = IPc.cAcqQ → s.qOwner ≠ none) ∧
      (((s.th v).pc = IPc.gAcqD ∨ ∃ x, (s.th v).pc = IPc.sAcqD x) → s.dlock ≠ none) := by
    intro v hv
    have := hI v hv
    unfold stepIface at this
    cases hpc : (s.th v).pc <;>
      simp [hpc, holdsP, holdsQ, holdsD, Cfg.fixed, wakeOneP, wakeQ] at this ⊢ <;>
      (try (split at this <;> simp_all)) <;> (try simp_all)
  have hz := hw.zero
  have hd : s.dlock = none := by
    cases hdl : s.dlock with
    | none => rfl
    | some v =>
      have := h.d2 v hdl
      by_cases hv : v = 0
      · subst hv; rw [hz] at this; cases this
      · rw [(hpcs v hv).2.2.1] at this; cases this
  have hpo : s.pOwner = none ∨ (s.pOwner = some 0 ∧ (s.spc = SPc.ntaP ∨ s.spc = SPc.relP)) := by
    cases hpl : s.pOwner with
    | none => exact Or.inl rfl
    | some v =>
      rcases h.p3 v hpl with ⟨rfl, hs⟩ | hh
      · exact Or.inr ⟨rfl, hs⟩
      · by_cases hv : v = 0
        · subst hv; rw [hz] at hh; cases hh
        · rw [(hpcs v hv).1] at hh; cases hh
  have hqo : s.qOwner = none ∨ (s.qOwner = some 0 ∧ sHoldsQ s.spc = true) := by
    cases hql : s.qOwner with
    | none => exact Or.inl rfl
    | some v =>
      rcases h.q3 v hql with ⟨rfl, hs⟩ | hh
      · exact Or.inr ⟨rfl, hs⟩
      · by_cases hv : v = 0
        · subst hv; rw [hz] at hh; cases hh
        · rw [(hpcs v hv).2.1] at hh; cases hh
  -- the solver is blocked, so it is in `qlock.wait()`
  have hsp : s.spc = SPc.blocked := by
    have hf := h.spcOk
    unfold stepSolver at h0
    cases hspc : s.spc <;> simp [hspc, Cfg.fixed, fragSpc, sHoldsQ] at h0 hf hqo hpo ⊢ <;> simp_all
  have hqw := h.bw hsp
  have hq0 : s.qOwner = none := by
    rcases hqo with hq | ⟨_, hq⟩
    · exact hq
    · rw [hsp] at hq; cases hq
  have hp0 : s.pOwner = none := by
    rcases hpo with hq | ⟨_, hq⟩
    · exact hq
    · rw [hsp] at hq; rcases hq with hq | hq <;> cases hq
  have hnofl : ∀ u, inflightCont (s.th u).pc = false := by
    intro u
    by_cases hu : u = 0
    · subst hu; rw [hz]; rfl
    · have hh := hpcs u hu
      cases hpc : (s.th u).pc <;> simp_all [inflightCont, holdsP, holdsQ]
  have hne := h.j2 (Or.inr (Or.inr (Or.inr hqw))) hnofl
  obtain ⟨u, hu⟩ := List.exists_mem_of_ne_nil _ hne
  have hup := hp.sub u hu
  have hc := h.cons u
  simp only [hup, decide_true] at hc
  by_cases hu0 : u = 0
  · subst hu0; rw [hz, h.zprog] at hc; simp [cons, WFp] at hc
  · have hh := hpcs u hu0
    have hk := hw.kept u
    have hwb := h.wb u
    cases hpc : (s.th u).pc <;> simp_all [cons, holdsP, holdsQ, holdsD, WFp]


end PysphVerif.Controller
