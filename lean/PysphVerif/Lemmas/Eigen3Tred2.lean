import PysphVerif.Lemmas.Eigen3Tql2
/-!
`tred2` of `Model/Eigen3.lean` for 3×3: one 2×2 Householder step (or none when
`scale == 0`), one 1×1 step (a sign flip, or none), the accumulation.  The result `V` is
orthogonal and `V T Vᵀ = A` for the tridiagonal `T = (d, e)`, in all four branch combinations.
-/
set_option linter.unusedSectionVars false
set_option linter.unusedVariables false
set_option linter.unusedSimpArgs false
set_option linter.unusedTactic false
set_option linter.unreachableTactic false
namespace PysphVerif.Eigen3
open Matrix

variable {K : Type} [Field K] [LinearOrder K] [IsStrictOrderedRing K]

/-! ## algebra of the 2×2 reflector -/

/-- the 2×2 Householder reflector `I - u uᵀ/h` of `tred2`'s first step, embedded in 3×3 -/
def P3 (u0 u1 h : K) : Matrix (Fin 3) (Fin 3) K :=
  !![1 - u0 * u0 / h, -(u0 * u1 / h), 0; -(u0 * u1 / h), 1 - u1 * u1 / h, 0; 0, 0, 1]
/-- `diag(δ, 1, 1)`: the 1×1 "reflector" of the second step (`δ = -1`) or nothing (`δ = 1`) -/
def D3 (δ : K) : Matrix (Fin 3) (Fin 3) K := !![δ, 0, 0; 0, 1, 0; 0, 0, 1]
/-- the symmetric matrix with lower triangle `a; b c; x y z` -/
def A3 (a b c x y z : K) : Matrix (Fin 3) (Fin 3) K := !![a, b, x; b, c, y; x, y, z]

theorem P3_symm (u0 u1 h : K) : (P3 u0 u1 h)ᵀ = P3 u0 u1 h := by
  ext i j; fin_cases i <;> fin_cases j <;> simp [P3]

theorem D3_symm (δ : K) : (D3 δ)ᵀ = D3 δ := by
  ext i j; fin_cases i <;> fin_cases j <;> simp [D3]

theorem D3_sq (δ : K) (h : δ * δ = 1) : D3 δ * D3 δ = 1 := by
  ext i j; fin_cases i <;> fin_cases j <;>
    simp [D3, Matrix.mul_apply, Fin.sum_univ_three, Matrix.one_apply, h]

theorem P3_sq (u0 u1 h : K) (hh : h ≠ 0) (R1 : u0 * u0 + u1 * u1 = h + h) :
    P3 u0 u1 h * P3 u0 u1 h = 1 := by
  have h2 : h = (u0 * u0 + u1 * u1) / 2 := by linarith
  subst h2
  have hne : u0 * u0 + u1 * u1 ≠ 0 := by
    intro h0; apply hh; rw [h0]; simp
  have hne2 : u0 ^ 2 + u1 ^ 2 ≠ 0 := by rwa [pow_two, pow_two]
  ext i j; fin_cases i <;> fin_cases j <;>
    simp [P3, Matrix.mul_apply, Fin.sum_univ_three, Matrix.one_apply] <;> field_simp <;> ring1

/-- the first reduction step of `tred2` (the `else` branch, `i = 2`) as an exact similarity:
`u = (u0, u1)`, `h = |u|²/2`, the last row `(x, y) = scale·(u0, y')` with `u0² + y' u1 = h`;
the primed entries are what the loops "Apply similarity transformation" leave in `V` -/
theorem house2_alg (a b c u0 u1 h scale y' z : K) (hh : h ≠ 0)
    (R1 : u0 * u0 + u1 * u1 = h + h) (R2 : u0 * u0 + y' * u1 = h) :
    let p0 := (0 + a * u0 + b * u1) / h
    let p1 := (0 + b * u0 + c * u1) / h
    let ff := 0 + p0 * u0 + p1 * u1
    let hh := ff / (h + h)
    let q0 := p0 - hh * u0
    let q1 := p1 - hh * u1
    let a' := a - (u0 * q0 + q0 * u0)
    let b' := b - (u0 * q1 + q0 * u1)
    let c' := c - (u1 * q1 + q1 * u1)
    P3 u0 u1 h * A3 a b c (scale * u0) (scale * y') z * P3 u0 u1 h =
      A3 a' b' c' 0 (scale * (y' - u1)) z := by
  intro p0 p1 ff hh' q0 q1 a' b' c'
  have h2 : h = (u0 * u0 + u1 * u1) / 2 := by linarith
  have hne : u0 * u0 + u1 * u1 ≠ 0 := by
    intro h0; apply hh; rw [h2, h0]; simp
  have hne2 : u0 ^ 2 + u1 ^ 2 ≠ 0 := by rwa [pow_two, pow_two]
  have R2' : y' * u1 = (u1 * u1 - u0 * u0) / 2 := by rw [h2] at R2; linarith
  subst h2
  ext i j; fin_cases i <;> fin_cases j <;>
    simp [P3, A3, Matrix.mul_apply, Fin.sum_univ_three, a', b', c', q0, q1, hh', ff, p0, p1] <;>
    field_simp <;>
    first | ring1 | linear_combination (-2 * u0 * scale) * R2'
          | linear_combination (-2 * scale * u1) * R2'

/-- `g = -sign(f)·sqrt(f²) = -f` -/
theorem sqrt_sign {sqrt : K → K} (hs : SqrtOK sqrt) (f : K) :
    (if 0 < f then -sqrt (0 + f * f) else sqrt (0 + f * f)) = -f := by
  rw [zero_add]
  have h0 : (0 : K) ≤ f * f := mul_self_nonneg f
  have hsq := hs.sq _ h0
  have hn := hs.nonneg (f * f)
  rcases mul_self_eq_mul_self_iff.mp hsq with h | h
  · split
    · rw [h]
    · rename_i hf
      have : f = 0 := le_antisymm (not_lt.mp hf) (h ▸ hn)
      rw [h, this]; simp
  · split
    · rename_i hf
      rw [h] at hn; linarith
    · exact h

/-! ## the reduction loop, `i = 2` -/

/-- what the first reduction step leaves, in both branches: an orthogonal symmetric `P` with
`P A P = A'` (`A'` = what is now stored in `V`, `d`, `e[2]`), and the data from which the
accumulation rebuilds `P` -/
structure S2Post (a b c x y : K) (s s2 : St K) : Prop where
  sim : ∃ P : Matrix (Fin 3) (Fin 3) K, P * P = 1 ∧ Pᵀ = P ∧
    (∀ z, P * A3 a b c x y z * P = A3 s2.V.a00 s2.V.a10 s2.V.a11 0 s2.e.x2 z) ∧
    (s2.d.x2 ≠ 0 → P = P3 s2.V.a02 s2.V.a12 s2.d.x2) ∧ (s2.d.x2 = 0 → P = 1)
  d0 : s2.d.x0 = s2.V.a10
  d1 : s2.d.x1 = s2.V.a11
  v20 : s2.V.a20 = 0
  v21 : s2.V.a21 = 0
  v22 : s2.V.a22 = s.V.a22

theorem t2Outer2_house_form (sqrt : K → K) (s : St K) (hsc : 0 + |s.d.x0| + |s.d.x1| ≠ 0) :
  let scale := 0 + |s.d.x0| + |s.d.x1|
  let x' := s.d.x0 / scale
  let y' := s.d.x1 / scale
  let h0 := 0 + x' * x' + y' * y'
  let g0 := sqrt h0
  let g := if 0 < y' then -g0 else g0
  let h := h0 - y' * g
  let u1 := y' - g
  let a := s.V.a00
  let b := s.V.a10
  let c := s.V.a11
  let p0 := (0 + a * x' + b * u1) / h
  let p1 := (0 + b * x' + c * u1) / h
  let ff := 0 + p0 * x' + p1 * u1
  let hh := ff / (h + h)
  let q0 := p0 - hh * x'
  let q1 := p1 - hh * u1
  let a' := a - (x' * q0 + q0 * x')
  let b' := b - (x' * q1 + q0 * u1)
  let c' := c - (u1 * q1 + q1 * u1)
  t2Outer abs sqrt s 2 = ⟨⟨a', s.V.a01, x', b', c', u1, 0, 0, s.V.a22⟩, ⟨b', c', h⟩,
      ⟨q0, q1, scale * g⟩, s.log ++ [100 + 10 * 2 + 1]⟩ := by
  intros
  unfold t2Outer
  dsimp only
  split
  · rename_i hz
    simp [List.range, List.range.loop, t2ScaleBody, Vec.get] at hz
    exact absurd (by rw [zero_add]; exact hz) hsc
  · rfl

theorem stage2_house {sqrt : K → K} (hs : SqrtOK sqrt) (s : St K)
    (hsc : 0 + |s.d.x0| + |s.d.x1| ≠ 0) :
    S2Post s.V.a00 s.V.a10 s.V.a11 s.d.x0 s.d.x1 s (t2Outer abs sqrt s 2) := by
  have hform := t2Outer2_house_form sqrt s hsc
  simp only at hform
  rw [hform]; clear hform
  set scale := 0 + |s.d.x0| + |s.d.x1| with hscale
  set x' := s.d.x0 / scale with hx'
  set y' := s.d.x1 / scale with hy'
  set h0 := 0 + x' * x' + y' * y' with hh0
  have hh0nn : 0 ≤ h0 := by
    have := mul_self_nonneg x'; have := mul_self_nonneg y'; rw [hh0]; linarith
  set g0 := sqrt h0 with hg0
  have hg0sq : g0 * g0 = h0 := hs.sq _ hh0nn
  have hg0nn : 0 ≤ g0 := hs.nonneg _
  set g := (if 0 < y' then -g0 else g0) with hg
  have hgsq : g * g = h0 := by rw [hg]; split <;> [rw [neg_mul_neg]; skip] <;> exact hg0sq
  have hyg : y' * g ≤ 0 := by
    rw [hg]; split
    · rename_i hy; nlinarith
    · rename_i hy; have := not_lt.mp hy; nlinarith
  have hxy : s.d.x0 = scale * x' ∧ s.d.x1 = scale * y' := by
    constructor
    · rw [hx']; field_simp
    · rw [hy']; field_simp
  have hh0pos : 0 < h0 := by
    rcases lt_or_eq_of_le hh0nn with h | h
    · exact h
    · exfalso
      have hx0 : x' * x' = 0 := by
        have := mul_self_nonneg x'; have := mul_self_nonneg y'; rw [hh0] at h; linarith
      have hy0 : y' * y' = 0 := by
        have := mul_self_nonneg x'; have := mul_self_nonneg y'; rw [hh0] at h; linarith
      have hx0' : x' = 0 := mul_self_eq_zero.mp hx0
      have hy0' : y' = 0 := mul_self_eq_zero.mp hy0
      apply hsc
      have e0 : s.d.x0 = 0 := by rw [hxy.1, hx0', mul_zero]
      have e1 : s.d.x1 = 0 := by rw [hxy.2, hy0', mul_zero]
      rw [hscale, e0, e1]; simp
  set h := h0 - y' * g with hh
  have hhne : h ≠ 0 := by
    have : 0 < h := by rw [hh]; linarith
    exact ne_of_gt this
  set u1 := y' - g with hu1
  have R1 : x' * x' + u1 * u1 = h + h := by rw [hu1, hh, hh0]; linear_combination hgsq
  have R2 : x' * x' + y' * u1 = h := by rw [hu1, hh, hh0]; ring
  refine ⟨⟨P3 x' u1 h, P3_sq x' u1 h hhne R1, P3_symm _ _ _, ?_, fun _ => rfl, fun h0 => absurd h0 hhne⟩,
    rfl, rfl, rfl, rfl, rfl⟩
  intro z
  have := house2_alg s.V.a00 s.V.a10 s.V.a11 x' u1 h scale y' z hhne R1 R2
  simp only at this
  rw [← hxy.1, ← hxy.2] at this
  rw [this]
  congr 1
  rw [hu1]; ring

theorem t2Outer2_zero_form (sqrt : K → K) (s : St K) (hsc : 0 + |s.d.x0| + |s.d.x1| = 0) :
  t2Outer abs sqrt s 2 = ⟨⟨s.V.a00, s.V.a01, 0, s.V.a10, s.V.a11, 0, 0, 0, s.V.a22⟩,
      ⟨s.V.a10, s.V.a11, 0⟩, ⟨s.e.x0, s.e.x1, s.d.x1⟩, s.log ++ [100 + 10 * 2]⟩ := by
  unfold t2Outer
  dsimp only
  split
  · rfl
  · rename_i hz
    simp [List.range, List.range.loop, t2ScaleBody, Vec.get] at hz
    exact absurd (by rw [zero_add] at hsc; exact hsc) hz

theorem stage2_zero (sqrt : K → K) (s : St K) (hsc : 0 + |s.d.x0| + |s.d.x1| = 0) :
    S2Post s.V.a00 s.V.a10 s.V.a11 s.d.x0 s.d.x1 s (t2Outer abs sqrt s 2) := by
  rw [t2Outer2_zero_form sqrt s hsc]
  have hx : s.d.x0 = 0 := by
    have := abs_nonneg s.d.x0; have := abs_nonneg s.d.x1
    apply abs_eq_zero.mp; linarith
  have hy : s.d.x1 = 0 := by
    have := abs_nonneg s.d.x0; have := abs_nonneg s.d.x1
    apply abs_eq_zero.mp; linarith
  refine ⟨⟨1, by simp, by simp, ?_, fun h => absurd rfl h, fun _ => rfl⟩, rfl, rfl, rfl, rfl, rfl⟩
  intro z
  simp only [Matrix.one_mul, Matrix.mul_one, hx]

/-! ## the reduction loop, `i = 1` -/

/-- what the second reduction step (a 1×1 "Householder" step: a sign flip, or nothing) does -/
structure S1Post (s s1 : St K) : Prop where
  sim : ∃ δ : K, δ * δ = 1 ∧ s1.e.x1 = δ * s.d.x0 ∧
    (s1.d.x1 ≠ 0 → 1 - (0 + s1.V.a01 * 1) * (s1.V.a01 / s1.d.x1) = δ) ∧ (s1.d.x1 = 0 → δ = 1)
  v00 : s1.V.a00 = s.V.a00
  v10 : s1.V.a10 = 0
  v02 : s1.V.a02 = s.V.a02
  v11 : s1.V.a11 = s.V.a11
  v12 : s1.V.a12 = s.V.a12
  v20 : s1.V.a20 = s.V.a20
  v21 : s1.V.a21 = s.V.a21
  v22 : s1.V.a22 = s.V.a22
  d2 : s1.d.x2 = s.d.x2
  e2 : s1.e.x2 = s.e.x2

theorem t2Outer1_house_form (sqrt : K → K) (s : St K) (hsc : 0 + |s.d.x0| ≠ 0) :
  let scale := 0 + |s.d.x0|
  let σ := s.d.x0 / scale
  let h0 := 0 + σ * σ
  let g0 := sqrt h0
  let g := if 0 < σ then -g0 else g0
  let h := h0 - σ * g
  let u := σ - g
  let p := (0 + s.V.a00 * u) / h
  let ff := 0 + p * u
  let hh := ff / (h + h)
  let q := p - hh * u
  let v := s.V.a00 - (u * q + q * u)
  t2Outer abs sqrt s 1 = ⟨⟨v, u, s.V.a02, 0, s.V.a11, s.V.a12, s.V.a20, s.V.a21, s.V.a22⟩,
      ⟨v, h, s.d.x2⟩, ⟨q, scale * g, s.e.x2⟩, s.log ++ [100 + 10 * 1 + 1]⟩ := by
  intros
  unfold t2Outer
  dsimp only
  split
  · rename_i hz
    simp [List.range, List.range.loop, t2ScaleBody, Vec.get] at hz
    exact absurd (by rw [zero_add]; simpa using hz) hsc
  · rfl

theorem stage1_house {sqrt : K → K} (hs : SqrtOK sqrt) (s : St K) (hsc : 0 + |s.d.x0| ≠ 0) :
    S1Post s (t2Outer abs sqrt s 1) := by
  have hform := t2Outer1_house_form sqrt s hsc
  simp only at hform
  rw [hform]; clear hform
  set scale := 0 + |s.d.x0| with hscale
  have hd0 : s.d.x0 ≠ 0 := by
    intro h0; apply hsc; rw [hscale, h0]; simp
  set σ := s.d.x0 / scale with hσ
  have hσne : σ ≠ 0 := div_ne_zero hd0 hsc
  have hg : (if 0 < σ then -sqrt (0 + σ * σ) else sqrt (0 + σ * σ)) = -σ := sqrt_sign hs σ
  rw [hg]
  have hσσ : σ * σ ≠ 0 := mul_ne_zero hσne hσne
  have hh : 0 + σ * σ - σ * -σ ≠ 0 := by
    have : 0 + σ * σ - σ * -σ = 2 * (σ * σ) := by ring
    rw [this]; exact mul_ne_zero two_ne_zero hσσ
  have hhh : 0 + σ * σ - σ * -σ + (0 + σ * σ - σ * -σ) ≠ 0 := by
    have : 0 + σ * σ - σ * -σ + (0 + σ * σ - σ * -σ) = 4 * (σ * σ) := by ring
    rw [this]; exact mul_ne_zero (by norm_num) hσσ
  refine ⟨⟨-1, by ring, ?_, fun _ => ?_, fun h0 => absurd h0 hh⟩, ?_, rfl, rfl, rfl, rfl, rfl, rfl,
    rfl, rfl, rfl⟩
  · show scale * -σ = -1 * s.d.x0
    rw [hσ]; field_simp
  · show 1 - (0 + (σ - -σ) * 1) * ((σ - -σ) / (0 + σ * σ - σ * -σ)) = -1
    field_simp; ring
  · show s.V.a00 - _ = s.V.a00
    field_simp; ring

theorem t2Outer1_zero_form (sqrt : K → K) (s : St K) (hsc : 0 + |s.d.x0| = 0) :
  t2Outer abs sqrt s 1 = ⟨⟨s.V.a00, 0, s.V.a02, 0, s.V.a11, s.V.a12, s.V.a20, s.V.a21, s.V.a22⟩,
      ⟨s.V.a00, 0, s.d.x2⟩, ⟨s.e.x0, s.d.x0, s.e.x2⟩, s.log ++ [100 + 10 * 1]⟩ := by
  unfold t2Outer
  dsimp only
  split
  · rfl
  · rename_i hz
    simp [List.range, List.range.loop, t2ScaleBody, Vec.get] at hz
    exact absurd (by rw [zero_add] at hsc; simpa using hsc) hz

theorem stage1_zero (sqrt : K → K) (s : St K) (hsc : 0 + |s.d.x0| = 0) :
    S1Post s (t2Outer abs sqrt s 1) := by
  rw [t2Outer1_zero_form sqrt s hsc]
  exact ⟨⟨1, by ring, by simp, fun h => absurd rfl h, fun _ => rfl⟩, rfl, rfl, rfl, rfl, rfl, rfl,
    rfl, rfl, rfl, rfl⟩

/-! ## the accumulation and the whole of `tred2` -/

theorem t2Acc0_form (s : St K) :
    t2Acc s 0 = if s.d.x1 = 0 then
      ⟨⟨1, 0, s.V.a02, s.V.a10, s.V.a11, s.V.a12, s.V.a00, s.V.a21, s.V.a22⟩, s.d, s.e,
        s.log ++ [200 + 10 * 0]⟩
    else
      ⟨⟨1 - (0 + s.V.a01 * 1) * (s.V.a01 / s.d.x1), 0, s.V.a02, s.V.a10, s.V.a11, s.V.a12, s.V.a00,
        s.V.a21, s.V.a22⟩, ⟨s.V.a01 / s.d.x1, s.d.x1, s.d.x2⟩, s.e, s.log ++ [200 + 10 * 0 + 1]⟩ := by
  unfold t2Acc
  dsimp only
  split
  · rename_i h
    have h' : ¬ s.d.x1 = 0 := by simpa using h
    rw [if_neg h']; rfl
  · rename_i h
    have h' : s.d.x1 = 0 := by simpa using h
    rw [if_pos h']; rfl

theorem t2Acc1_form (s : St K) :
    t2Acc s 1 = if s.d.x2 = 0 then
      ⟨⟨s.V.a00, s.V.a01, 0, s.V.a10, 1, 0, s.V.a20, s.V.a11, s.V.a22⟩, s.d, s.e,
        s.log ++ [200 + 10 * 1]⟩
    else
      ⟨⟨s.V.a00 - (0 + s.V.a02 * s.V.a00 + s.V.a12 * s.V.a10) * (s.V.a02 / s.d.x2),
        s.V.a01 - (0 + s.V.a02 * s.V.a01 + s.V.a12 * 1) * (s.V.a02 / s.d.x2), 0,
        s.V.a10 - (0 + s.V.a02 * s.V.a00 + s.V.a12 * s.V.a10) * (s.V.a12 / s.d.x2),
        1 - (0 + s.V.a02 * s.V.a01 + s.V.a12 * 1) * (s.V.a12 / s.d.x2), 0,
        s.V.a20, s.V.a11, s.V.a22⟩, ⟨s.V.a02 / s.d.x2, s.V.a12 / s.d.x2, s.d.x2⟩, s.e,
        s.log ++ [200 + 10 * 1 + 1]⟩ := by
  unfold t2Acc
  dsimp only
  split
  · rename_i h
    have h' : ¬ s.d.x2 = 0 := by simpa using h
    rw [if_neg h']; rfl
  · rename_i h
    have h' : s.d.x2 = 0 := by simpa using h
    rw [if_pos h']; rfl

/-- the last two loops of `tred2` -/
def t2Final (s : St K) : St K :=
  ⟨⟨s.V.a00, s.V.a01, s.V.a02, s.V.a10, s.V.a11, s.V.a12, 0, 0, 1⟩, ⟨s.V.a20, s.V.a21, s.V.a22⟩,
    ⟨0, s.e.x1, s.e.x2⟩, s.log⟩

theorem tred2_eq (sqrt : K → K) (s : St K) :
    tred2 abs sqrt s = t2Final (t2Acc (t2Acc (t2Outer abs sqrt (t2Outer abs sqrt
      ⟨s.V, ⟨s.V.a20, s.V.a21, s.V.a22⟩, s.e, s.log⟩ 2) 1) 0) 1) := by
  have hcopy : (List.range 3).foldl (t2CopyBody s.V) s.d = ⟨s.V.a20, s.V.a21, s.V.a22⟩ := rfl
  have hfin : ∀ w : St K, { (List.range 3).foldl t2FinBody w with
      V := setM ((List.range 3).foldl t2FinBody w).V 2 2 1,
      e := setV ((List.range 3).foldl t2FinBody w).e 0 0 } = t2Final w := fun w => rfl
  unfold tred2
  simp only [hcopy]
  rw [hfin]
  rfl

theorem assemble (P A A' T Q : Matrix (Fin 3) (Fin 3) K) (δ : K) (hPP : P * P = 1) (hPt : Pᵀ = P)
    (hδ : δ * δ = 1) (hA' : P * A * P = A') (hT : T = D3 δ * A' * D3 δ) (hQ : Q = P * D3 δ) :
    Qᵀ * Q = 1 ∧ Q * Qᵀ = 1 ∧ A = Q * T * Qᵀ := by
  have hD := D3_sq δ hδ
  have hQt : Qᵀ = D3 δ * P := by rw [hQ, Matrix.transpose_mul, D3_symm, hPt]
  refine ⟨?_, ?_, ?_⟩
  · rw [hQt, hQ]
    calc D3 δ * P * (P * D3 δ) = D3 δ * (P * P) * D3 δ := by simp only [Matrix.mul_assoc]
      _ = 1 := by rw [hPP, Matrix.mul_one, hD]
  · rw [hQt, hQ]
    calc P * D3 δ * (D3 δ * P) = P * (D3 δ * D3 δ) * P := by simp only [Matrix.mul_assoc]
      _ = 1 := by rw [hD, Matrix.mul_one, hPP]
  · rw [hQt, hQ, hT, ← hA']
    calc A = (P * P) * A * (P * P) := by rw [hPP]; simp
      _ = P * (D3 δ * D3 δ) * (P * A * P) * (D3 δ * D3 δ) * P := by
          rw [hD]; simp only [Matrix.mul_assoc, Matrix.mul_one, Matrix.one_mul]
      _ = P * D3 δ * (D3 δ * (P * A * P) * D3 δ) * (D3 δ * P) := by
          simp only [Matrix.mul_assoc]

end PysphVerif.Eigen3
