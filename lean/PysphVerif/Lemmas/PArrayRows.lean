import PysphVerif.Model.PArray
import Mathlib.Data.List.Basic
/-!
C06 helper lemmas, part A: a flat array read as rows of `s` elements
(`rowsOf` / `flat`).
-/
namespace PysphVerif.PArray

theorem rowsOfAux_nil (s fuel : Nat) : rowsOfAux s fuel [] = [] := by
  cases fuel <;> simp [rowsOfAux]

theorem flat_rowsOfAux (s : Nat) (hs : 0 < s) (fuel : Nat) (d : List Int)
    (h : d.length ≤ fuel) : flat (rowsOfAux s fuel d) = d := by
  induction fuel generalizing d with
  | zero =>
    have : d = [] := List.length_eq_zero_iff.mp (by omega)
    subst this; simp [rowsOfAux, flat]
  | succ fuel ih =>
    unfold rowsOfAux
    split
    · rename_i he
      have : d = [] := by simpa using he
      subst this; simp [flat]
    · rename_i he
      have hne : d ≠ [] := by simpa using he
      have hpos : 0 < d.length := List.length_pos_iff.mpr hne
      have := ih (d.drop s) (by simp; omega)
      simp only [flat, List.flatten_cons] at this ⊢
      rw [this, List.take_append_drop]

/-- A1: reading a flat array as rows and flattening again is the identity -/
theorem flat_rowsOf (s : Nat) (hs : 0 < s) (d : List Int) : flat (rowsOf s d) = d := by
  unfold rowsOf
  rw [if_neg (by omega)]
  exact flat_rowsOfAux s hs _ d (Nat.le_refl _)

theorem rowsOfAux_flatten (s : Nat) (hs : 0 < s) (R : List (List Int))
    (hR : ∀ r ∈ R, r.length = s) (fuel : Nat) (hf : R.length ≤ fuel) :
    rowsOfAux s fuel R.flatten = R := by
  induction R generalizing fuel with
  | nil => simp [rowsOfAux_nil]
  | cons r R ih =>
    cases fuel with
    | zero => simp at hf
    | succ fuel =>
      have hr : r.length = s := hR r (by simp)
      have hne : r ≠ [] := by
        intro h; rw [h] at hr; simp at hr; omega
      unfold rowsOfAux
      have h1 : (r :: R).flatten.isEmpty = false := by
        simp [hne]
      rw [h1]
      simp only [Bool.false_eq_true, if_false, List.flatten_cons]
      rw [List.take_left' hr, List.drop_left' hr]
      rw [ih (fun x hx => hR x (by simp [hx])) fuel (by simpa using hf)]

theorem flat_length (s : Nat) (R : List (List Int)) (hR : ∀ r ∈ R, r.length = s) :
    (flat R).length = R.length * s := by
  induction R with
  | nil => simp [flat]
  | cons r R ih =>
    have hr : r.length = s := hR r (by simp)
    have := ih (fun x hx => hR x (by simp [hx]))
    simp only [flat, List.flatten_cons, List.length_append, List.length_cons] at this ⊢
    rw [this, hr, Nat.succ_mul]; omega

/-- A2: rows of equal length `s > 0`, flattened and read back, are the same rows -/
theorem rowsOf_flat (s : Nat) (hs : 0 < s) (R : List (List Int))
    (hR : ∀ r ∈ R, r.length = s) : rowsOf s (flat R) = R := by
  unfold rowsOf
  rw [if_neg (by omega)]
  have hl := flat_length s R hR
  unfold flat at hl ⊢
  apply rowsOfAux_flatten s hs R hR
  rw [hl]
  exact Nat.le_mul_of_pos_right _ hs

theorem rowsOfAux_uniform (s : Nat) (hs : 0 < s) (n : Nat) (d : List Int)
    (hd : d.length = n * s) (fuel : Nat) (hf : n ≤ fuel) :
    (rowsOfAux s fuel d).length = n ∧ ∀ r ∈ rowsOfAux s fuel d, r.length = s := by
  induction n generalizing d fuel with
  | zero =>
    have : d = [] := List.length_eq_zero_iff.mp (by omega)
    subst this; simp [rowsOfAux_nil]
  | succ n ih =>
    cases fuel with
    | zero => omega
    | succ fuel =>
      have hlen : d.length = n * s + s := by rw [hd, Nat.succ_mul]
      have hne : d.isEmpty = false := by
        cases d with
        | nil => simp at hlen; omega
        | cons _ _ => rfl
      unfold rowsOfAux
      rw [hne]
      simp only [Bool.false_eq_true, if_false, List.length_cons, List.mem_cons]
      have := ih (d.drop s) (by simp; omega) fuel (by omega)
      refine ⟨by omega, ?_⟩
      rintro r (rfl | hr)
      · simp; omega
      · exact this.2 r hr

/-- A3: when the length is `n * s` there are exactly `n` rows, each of length `s` -/
theorem rowsOf_uniform (s : Nat) (hs : 0 < s) (n : Nat) (d : List Int)
    (hd : d.length = n * s) :
    (rowsOf s d).length = n ∧ ∀ r ∈ rowsOf s d, r.length = s := by
  unfold rowsOf
  rw [if_neg (by omega)]
  apply rowsOfAux_uniform s hs n d hd
  rw [hd]; exact Nat.le_mul_of_pos_right _ hs

theorem rowsOf_length_of_dvd (s : Nat) (hs : 0 < s) (d : List Int) (h : s ∣ d.length) :
    (rowsOf s d).length = d.length / s ∧ ∀ r ∈ rowsOf s d, r.length = s := by
  obtain ⟨k, hk⟩ := h
  have hd : d.length = k * s := by rw [hk, Nat.mul_comm]
  have := rowsOf_uniform s hs k d hd
  rw [hd, Nat.mul_div_cancel _ hs]
  exact this

/-- every row has at most `s` elements, whatever the length -/
theorem rowsOfAux_row_le (s fuel : Nat) (d : List Int) :
    ∀ r ∈ rowsOfAux s fuel d, r.length ≤ s := by
  induction fuel generalizing d with
  | zero => simp [rowsOfAux]
  | succ fuel ih =>
    unfold rowsOfAux
    split
    · simp
    · intro r hr
      rcases List.mem_cons.mp hr with rfl | hr
      · simp; omega
      · exact ih _ r hr

theorem rowsOf_row_le (s : Nat) (d : List Int) : ∀ r ∈ rowsOf s d, r.length ≤ s := by
  unfold rowsOf
  split
  · simp
  · exact rowsOfAux_row_le s _ d

/-! ## sizes and membership for the generic row operations (used by the invariant) -/

theorem len_swapRemove {β : Type} (l : List β) (i : Nat) :
    (swapRemove l i).length = if i < l.length then l.length - 1 else l.length := by
  unfold swapRemove
  split
  · rename_i h
    cases hl : l.getLast? with
    | none =>
      have : l = [] := by simpa using hl
      subst this; simp at h
    | some last => simp
  · rfl

theorem mem_swapRemove {β : Type} (l : List β) (i : Nat) : ∀ x ∈ swapRemove l i, x ∈ l := by
  intro x hx
  unfold swapRemove at hx
  split at hx
  · cases hl : l.getLast? with
    | none => rw [hl] at hx; exact hx
    | some last =>
      rw [hl] at hx
      have h1 : x ∈ l.set i last := List.dropLast_subset _ hx
      rcases List.mem_or_eq_of_mem_set h1 with h2 | h2
      · exact h2
      · subst h2; exact List.mem_of_getLast? hl
  · exact hx

theorem len_foldl_swapRemove_congr {β γ : Type} (js : List Nat) (l : List β) (l' : List γ)
    (h : l.length = l'.length) :
    (js.foldl swapRemove l).length = (js.foldl swapRemove l').length := by
  induction js generalizing l l' with
  | nil => simpa using h
  | cons j js ih =>
    simp only [List.foldl_cons]
    apply ih
    rw [len_swapRemove, len_swapRemove, h]

theorem mem_foldl_swapRemove {β : Type} (js : List Nat) (l : List β) :
    ∀ x ∈ js.foldl swapRemove l, x ∈ l := by
  induction js generalizing l with
  | nil => intro x hx; simpa using hx
  | cons j js ih =>
    intro x hx
    simp only [List.foldl_cons] at hx
    exact mem_swapRemove l j x (ih _ x hx)

theorem len_removeRows_congr {β γ : Type} (idx : List Nat) (l : List β) (l' : List γ)
    (h : l.length = l'.length) : (removeRows idx l).length = (removeRows idx l').length :=
  len_foldl_swapRemove_congr _ l l' h

theorem mem_removeRows {β : Type} (idx : List Nat) (l : List β) :
    ∀ x ∈ removeRows idx l, x ∈ l := mem_foldl_swapRemove _ l

theorem mem_gather {β : Type} (src : List Nat) (l : List β) : ∀ x ∈ gather src l, x ∈ l := by
  intro x hx
  unfold gather at hx
  obtain ⟨i, _, hi⟩ := List.mem_filterMap.mp hx
  exact List.mem_of_getElem? hi

theorem len_gather_congr {β γ : Type} (src : List Nat) (l : List β) (l' : List γ)
    (h : l.length = l'.length) : (gather src l).length = (gather src l').length := by
  unfold gather
  induction src with
  | nil => rfl
  | cons i src ih =>
    by_cases hi : i < l.length
    · have hi' : i < l'.length := h ▸ hi
      simp [List.getElem?_eq_getElem hi, List.getElem?_eq_getElem hi', ih]
    · have hi' : ¬ i < l'.length := h ▸ hi
      simp [List.getElem?_eq_none (Nat.le_of_not_lt hi),
        List.getElem?_eq_none (Nat.le_of_not_lt hi'), ih]

theorem len_gather_le {β : Type} (src : List Nat) (l : List β) :
    (gather src l).length ≤ src.length := List.length_filterMap_le _ _

end PysphVerif.PArray
