import PysphVerif.Lemmas.Riemann
/-!
# C15 — `hllc`: hand-written normal form and its mirror image

`hllc` computes wave-speed estimates `sl ≤ sm ≤ sr` in the frame of the
Roe-averaged velocity `ulr` and then takes one of four branches.  The mirror
image of the data maps `(vl, vr, sl, sr, sm, ulr)` to `(-vr, -vl, -sr, -sl, -sm, -ulr)`,
branch 2 (`sl ≤ 0 < sm`) to branch 3 (`sm ≤ 0 < sr`) and keeps `phat`
(`pl + rhol (vl - sl)(vl - sm) = pr + rhor (vr - sr)(vr - sm)` is what defines `sm`,
provided the denominator of `sm` does not vanish).
-/
set_option linter.unusedSectionVars false
namespace PysphVerif.Riemann
open PysphVerif.Gen.Riemann

variable {K : Type} [Field K] [LinearOrder K] [IsStrictOrderedRing K]

/-- contact speed estimate of `hllc` -/
def hllcSm (rhol rhor pl pr vl vr sl sr : K) : K :=
  (rhor * vr * (sr - vr) - rhol * vl * (sl - vl) + pl - pr) /
    (rhor * (sr - vr) - rhol * (sl - vl))

/-- `phat` of `hllc` -/
def hllcPhat (rhol pl vl sl sm : K) : K := rhol * (vl - sl) * (vl - sm) + pl

/-- result of the star-region branches of `hllc` (`s, v, M, E, pk` are the
quantities of the side the branch looks at) -/
def hllcStar (s v M E pk sm phat ulr : K) : Res K :=
  ⟨0, sm * (1 / (s - sm) * ((s - v) * M + (phat - pk))) + phat,
    (sm * (1 / (s - sm) * ((s - v) * E - pk * v + phat * sm)) + (sm + ulr) * phat) /
      (sm * (1 / (s - sm) * ((s - v) * M + (phat - pk))) + phat)⟩

/-- the branch cascade of `hllc` as a function of the intermediate quantities -/
def hllcTail (rhol rhor pl pr ul ur g1 ulr vl vr sl sr sm phat r0 r1 : K) : Res K :=
  if 0 < sl then ⟨0, pl, ul⟩
  else if sl ≤ 0 ∧ 0 < sm then
    hllcStar sl vl (rhol * ul) (rhol * (pl * g1 / rhol + 1 / 2 * ul * ul)) pl sm phat ulr
  else if sm ≤ 0 ∧ 0 < sr then
    hllcStar sr vr (rhor * ur) (rhor * (pr * g1 / rhor + 1 / 2 * ur * ur)) pr sm phat ulr
  else if sr < 0 then ⟨0, pr, ur⟩
  else ⟨1, r0, r1⟩

/-- `hllc` after its four square roots (`a, b = sqrt rho`, `csl, csr` the sound speeds) -/
def hllcFrom (a b csl csr rhol rhor pl pr ul ur g1 r0 r1 : K) : Res K :=
  let ulr := (a * ul + b * ur) / (a + b)
  let vl := ul - ulr
  let vr := ur - ulr
  let cslr := (a * csl + b * csr) / (a + b)
  let sl := pymin (vl - csl) (0 - cslr)
  let sr := pymax (vr + csr) (0 + cslr)
  let sm := hllcSm rhol rhor pl pr vl vr sl sr
  hllcTail rhol rhor pl pr ul ur g1 ulr vl vr sl sr sm (hllcPhat rhol pl vl sl sm) r0 r1

theorem hllc_eq (o : Ops K) (rhol rhor pl pr ul ur gamma : K) (niter : Int) (tol r0 r1 : K) :
    hllc o rhol rhor pl pr ul ur gamma niter tol r0 r1 =
      hllcFrom (o.sqrt rhol) (o.sqrt rhor) (o.sqrt (gamma * pl / rhol)) (o.sqrt (gamma * pr / rhor))
        rhol rhor pl pr ul ur (1 / (gamma - 1)) r0 r1 := by
  simp only [hllc, Nat.cast_ofNat, Nat.cast_one, Nat.cast_zero]
  rfl

theorem hllcSm_mirror (rhol rhor pl pr vl vr sl sr : K) :
    hllcSm rhor rhol pr pl (-vr) (-vl) (-sr) (-sl) = -hllcSm rhol rhor pl pr vl vr sl sr := by
  unfold hllcSm
  have e1 : rhol * -vl * (-sl - -vl) - rhor * -vr * (-sr - -vr) + pr - pl
      = -(rhor * vr * (sr - vr) - rhol * vl * (sl - vl) + pl - pr) := by ring
  have e2 : rhol * (-sl - -vl) - rhor * (-sr - -vr) = rhor * (sr - vr) - rhol * (sl - vl) := by ring
  rw [e1, e2, neg_div]

/-- the two one-sided expressions for `phat` agree: this is the equation `sm` solves -/
theorem hllcPhat_mirror (rhol rhor pl pr vl vr sl sr : K)
    (hden : rhor * (sr - vr) - rhol * (sl - vl) ≠ 0) :
    hllcPhat rhor pr (-vr) (-sr) (-hllcSm rhol rhor pl pr vl vr sl sr)
      = hllcPhat rhol pl vl sl (hllcSm rhol rhor pl pr vl vr sl sr) := by
  unfold hllcPhat hllcSm
  field_simp
  ring

theorem hllcStar_mirror (s v rho u e pk sm phat ulr : K) :
    (hllcStar (-s) (-v) (rho * -u) (rho * (e + 1 / 2 * -u * -u)) pk (-sm) phat (-ulr)).r0
        = (hllcStar s v (rho * u) (rho * (e + 1 / 2 * u * u)) pk sm phat ulr).r0 ∧
    (hllcStar (-s) (-v) (rho * -u) (rho * (e + 1 / 2 * -u * -u)) pk (-sm) phat (-ulr)).r1
        = -(hllcStar s v (rho * u) (rho * (e + 1 / 2 * u * u)) pk sm phat ulr).r1 := by
  unfold hllcStar
  simp only
  have e0 : -s - -sm = -(s - sm) := by ring
  have em : -sm * (1 / -(s - sm) * ((-s - -v) * (rho * -u) + (phat - pk)))
      = sm * (1 / (s - sm) * ((s - v) * (rho * u) + (phat - pk))) := by
    rw [one_div, one_div, inv_neg]; ring
  have ee : -sm * (1 / -(s - sm) * ((-s - -v) * (rho * (e + 1 / 2 * -u * -u)) - pk * -v + phat * -sm))
      + (-sm + -ulr) * phat
      = -(sm * (1 / (s - sm) * ((s - v) * (rho * (e + 1 / 2 * u * u)) - pk * v + phat * sm))
      + (sm + ulr) * phat) := by
    rw [one_div, one_div, inv_neg]; ring
  rw [e0, em, ee, neg_div]
  exact ⟨rfl, rfl⟩

/-- mirror image of the branch cascade, for wave speeds with `sl < 0 < sr`
(always the case for admissible data: `sl ≤ -cslr < 0 < cslr ≤ sr`) -/
theorem hllcTail_mirror (rhol rhor pl pr ul ur g1 ulr vl vr sl sr sm phat r0 r1 : K)
    (hsl : sl < 0) (hsr : 0 < sr) :
    (hllcTail rhor rhol pr pl (-ur) (-ul) g1 (-ulr) (-vr) (-vl) (-sr) (-sl) (-sm) phat r0 r1).code
      = (hllcTail rhol rhor pl pr ul ur g1 ulr vl vr sl sr sm phat r0 r1).code ∧
    (hllcTail rhor rhol pr pl (-ur) (-ul) g1 (-ulr) (-vr) (-vl) (-sr) (-sl) (-sm) phat r0 r1).r0
      = (hllcTail rhol rhor pl pr ul ur g1 ulr vl vr sl sr sm phat r0 r1).r0 ∧
    (hllcTail rhor rhol pr pl (-ur) (-ul) g1 (-ulr) (-vr) (-vl) (-sr) (-sl) (-sm) phat r0 r1).r1
      = -(hllcTail rhol rhor pl pr ul ur g1 ulr vl vr sl sr sm phat r0 r1).r1 := by
  unfold hllcTail
  have h1 : ¬ (0 < sl) := not_lt.mpr hsl.le
  have h1' : ¬ (0 < -sr) := by simp [hsr.le]
  have h4' : (0 : K) < -sl := by linarith
  rw [if_neg h1, if_neg h1']
  have hA := hllcStar_mirror sl vl rhol ul (pl * g1 / rhol) pl sm phat ulr
  have hB := hllcStar_mirror sr vr rhor ur (pr * g1 / rhor) pr sm phat ulr
  rcases lt_trichotomy sm 0 with hm | hm | hm
  · -- sm < 0: original in branch 3, mirror in branch 2
    have c2 : ¬ (sl ≤ 0 ∧ 0 < sm) := fun h => absurd h.2 (not_lt.mpr hm.le)
    have c3 : sm ≤ 0 ∧ 0 < sr := ⟨hm.le, hsr⟩
    have c2' : -sr ≤ 0 ∧ 0 < -sm := ⟨by linarith, by linarith⟩
    rw [if_neg c2, if_pos c3, if_pos c2']
    exact ⟨rfl, hB.1, hB.2⟩
  · -- sm = 0: both in branch 3
    subst hm
    have c2 : ¬ (sl ≤ 0 ∧ (0 : K) < 0) := fun h => lt_irrefl _ h.2
    have c3 : (0 : K) ≤ 0 ∧ 0 < sr := ⟨le_refl _, hsr⟩
    have c2' : ¬ (-sr ≤ 0 ∧ (0 : K) < -0) := fun h => by simp at h
    have c3' : (-0 : K) ≤ 0 ∧ 0 < -sl := ⟨by simp, h4'⟩
    rw [if_neg c2, if_pos c3, if_neg c2', if_pos c3']
    unfold hllcStar
    simp only [neg_zero, zero_mul, zero_add]
    refine ⟨trivial, trivial, ?_⟩
    rw [neg_mul, neg_div]
  · -- 0 < sm: original in branch 2, mirror in branch 3
    have c2 : sl ≤ 0 ∧ 0 < sm := ⟨hsl.le, hm⟩
    have c2' : ¬ (-sr ≤ 0 ∧ 0 < -sm) := fun h => by linarith [h.2]
    have c3' : -sm ≤ 0 ∧ 0 < -sl := ⟨by linarith, h4'⟩
    rw [if_pos c2, if_neg c2', if_pos c3']
    exact ⟨rfl, hA.1, hA.2⟩

/-- reflection symmetry of `hllc` after its square roots, for positive roots and densities -/
theorem hllcFrom_mirror (a b csl csr rhol rhor pl pr ul ur g1 r0 r1 : K)
    (ha : 0 < a) (hb : 0 < b) (hcl : 0 < csl) (hcr : 0 < csr) (hrl : 0 < rhol) (hrr : 0 < rhor) :
    (hllcFrom b a csr csl rhor rhol pr pl (-ur) (-ul) g1 r0 r1).code
      = (hllcFrom a b csl csr rhol rhor pl pr ul ur g1 r0 r1).code ∧
    (hllcFrom b a csr csl rhor rhol pr pl (-ur) (-ul) g1 r0 r1).r0
      = (hllcFrom a b csl csr rhol rhor pl pr ul ur g1 r0 r1).r0 ∧
    (hllcFrom b a csr csl rhor rhol pr pl (-ur) (-ul) g1 r0 r1).r1
      = -(hllcFrom a b csl csr rhol rhor pl pr ul ur g1 r0 r1).r1 := by
  unfold hllcFrom
  simp only [pymax_eq_max, pymin_eq_min]
  have hab : a + b ≠ 0 := by positivity
  have eU : (b * -ur + a * -ul) / (b + a) = -((a * ul + b * ur) / (a + b)) := by
    rw [add_comm b a]; ring
  have eC : (b * csr + a * csl) / (b + a) = (a * csl + b * csr) / (a + b) := by
    rw [add_comm b a, add_comm (b * csr)]
  have hC : 0 < (a * csl + b * csr) / (a + b) := by positivity
  rw [eU, eC]
  generalize (a * ul + b * ur) / (a + b) = U
  generalize (a * csl + b * csr) / (a + b) = C at hC
  have evl : -ur - -U = -(ur - U) := by ring
  have evr : -ul - -U = -(ul - U) := by ring
  rw [evl, evr]
  generalize ul - U = vl
  generalize ur - U = vr
  have esl : min (-vr - csr) (0 - C) = -(max (vr + csr) (0 + C)) := by
    rw [← min_neg_neg]; congr 1 <;> ring
  have esr : max (-vl + csl) (0 + C) = -(min (vl - csl) (0 - C)) := by
    rw [← max_neg_neg]; congr 1 <;> ring
  rw [esl, esr]
  have hsl1 : min (vl - csl) (0 - C) < 0 := lt_of_le_of_lt (min_le_right _ _) (by linarith)
  have hsl2 : min (vl - csl) (0 - C) - vl < 0 := by
    have := min_le_left (vl - csl) (0 - C); linarith
  have hsr1 : 0 < max (vr + csr) (0 + C) := lt_of_lt_of_le (by linarith) (le_max_right _ _)
  have hsr2 : 0 < max (vr + csr) (0 + C) - vr := by
    have := le_max_left (vr + csr) (0 + C); linarith
  generalize min (vl - csl) (0 - C) = sl at hsl1 hsl2
  generalize max (vr + csr) (0 + C) = sr at hsr1 hsr2
  have hden : rhor * (sr - vr) - rhol * (sl - vl) ≠ 0 := by
    have h1 : 0 < rhor * (sr - vr) := mul_pos hrr hsr2
    have h2 : rhol * (sl - vl) < 0 := mul_neg_of_pos_of_neg hrl hsl2
    have : 0 < rhor * (sr - vr) - rhol * (sl - vl) := by linarith
    exact this.ne'
  rw [hllcSm_mirror, hllcPhat_mirror rhol rhor pl pr vl vr sl sr hden]
  exact hllcTail_mirror rhol rhor pl pr ul ur g1 U vl vr sl sr _ _ r0 r1 hsl1 hsr1

/-- equal states: `hllc` returns the common state -/
theorem hllcFrom_equal (a c rho p u g1 r0 r1 : K) (ha : 0 < a) (hc : 0 < c) (hp : 0 < p) : hllcFrom a a c c rho rho p p u u g1 r0 r1 = ⟨0, p, u⟩ := by
  unfold hllcFrom
  simp only [pymax_eq_max, pymin_eq_min]
  have haa : a + a ≠ 0 := by positivity
  have eU : (a * u + a * u) / (a + a) = u := by field_simp
  have eC : (a * c + a * c) / (a + a) = c := by field_simp
  rw [eU, eC, sub_self, min_self, max_self]
  have hsm : hllcSm rho rho p p 0 0 (0 - c) (0 + c) = 0 := by
    unfold hllcSm; simp
  rw [hsm]
  have hph : hllcPhat rho p 0 (0 - c) 0 = p := by unfold hllcPhat; ring
  rw [hph]
  unfold hllcTail
  have h1 : ¬ (0 < 0 - c) := by simp [hc.le]
  have h2 : ¬ (0 - c ≤ 0 ∧ (0 : K) < 0) := fun h => lt_irrefl _ h.2
  have h3 : (0 : K) ≤ 0 ∧ 0 < 0 + c := ⟨le_refl _, by linarith⟩
  rw [if_neg h1, if_neg h2, if_pos h3]
  unfold hllcStar
  have hp' : p ≠ 0 := hp.ne'
  simp only [zero_mul, zero_add]
  congr 1
  field_simp

end PysphVerif.Riemann
