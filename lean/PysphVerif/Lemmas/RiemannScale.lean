import PysphVerif.Lemmas.RiemannExact
/-!
# C15 — scaling of pressures and densities by a common factor `l > 0`

The only fact about `sqrt` used is `SqrtScales`: `sqrt (m * m * x) = m * sqrt x`
for `m > 0` (used at `m = l` for the Lagrangian sound speeds of `van_leer` and at
`m = l⁻¹` for the shock branch of `exact`).  `pow` is only ever applied to
pressure ratios, which do not change.
-/
set_option linter.unusedSectionVars false
namespace PysphVerif.Riemann
open PysphVerif.Gen.Riemann

variable {K : Type} [Field K] [LinearOrder K] [IsStrictOrderedRing K]

/-- `sqrt (m² x) = m sqrt x` for `m > 0` -/
def SqrtScales (sqrt : K → K) : Prop := ∀ m x : K, 0 < m → sqrt (m * m * x) = m * sqrt x

theorem scale_le {l : K} (hl : 0 < l) (a b : K) : (l * a ≤ l * b) = (a ≤ b) :=
  propext ⟨fun h => le_of_mul_le_mul_left h hl, fun h => mul_le_mul_of_nonneg_left h hl.le⟩

theorem scale_lt {l : K} (hl : 0 < l) (a b : K) : (l * a < l * b) = (a < b) :=
  propext ⟨fun h => lt_of_mul_lt_mul_left h hl.le, fun h => mul_lt_mul_of_pos_left h hl⟩

theorem pymax_scale {l : K} (hl : 0 < l) (a b : K) : pymax (l * a) (l * b) = l * pymax a b := by
  rw [pymax_eq_max, pymax_eq_max, mul_max_of_nonneg _ _ hl.le]

theorem pymin_scale {l : K} (hl : 0 < l) (a b : K) : pymin (l * a) (l * b) = l * pymin a b := by
  rw [pymin_eq_min, pymin_eq_min, mul_min_of_nonneg _ _ hl.le]

theorem div_inv_mul {l : K} (N D : K) : N / (l⁻¹ * D) = l * (N / D) := by
  rw [div_eq_mul_inv, mul_inv, inv_inv, div_eq_mul_inv]; ring

/-! ## `exact` -/

section exact
variable (sqrt : K → K) (pow : K → K → K) (hs : SqrtScales sqrt) {l : K} (hl : 0 < l)
include hs hl

theorem sqrt_shock_scale (g5 d g6 pk p : K) :
    sqrt (g5 / (l * d) / (g6 * (l * pk) + l * p)) = l⁻¹ * sqrt (g5 / d / (g6 * pk + p)) := by
  have e : g5 / (l * d) / (g6 * (l * pk) + l * p) = l⁻¹ * l⁻¹ * (g5 / d / (g6 * pk + p)) := by
    have : g6 * (l * pk) + l * p = l * (g6 * pk + p) := by ring
    rw [this]
    generalize g6 * pk + p = X
    ring
  rw [e]
  exact hs _ _ (inv_pos.mpr hl)

theorem pfF_scale (p dk pk ck g1 g4 g5 g6 : K) :
    pfF (fieldOps sqrt pow) (l * p) (l * dk) (l * pk) ck g1 g4 g5 g6
      = pfF (fieldOps sqrt pow) p dk pk ck g1 g4 g5 g6 := by
  unfold pfF
  simp only [fieldOps_sqrt, fieldOps_pow, scale_le hl, mul_div_mul_left _ _ hl.ne']
  rw [sqrt_shock_scale sqrt hs hl]
  have hi : l * l⁻¹ = 1 := mul_inv_cancel₀ hl.ne'
  have e : (l * p - l * pk) * (l⁻¹ * sqrt (g5 / dk / (g6 * pk + p)))
      = (p - pk) * sqrt (g5 / dk / (g6 * pk + p)) := by
    linear_combination ((p - pk) * sqrt (g5 / dk / (g6 * pk + p))) * hi
  rw [e]

theorem pfD_scale (p dk pk ck g2 g5 g6 : K) :
    pfD (fieldOps sqrt pow) (l * p) (l * dk) (l * pk) ck g2 g5 g6
      = l⁻¹ * pfD (fieldOps sqrt pow) p dk pk ck g2 g5 g6 := by
  unfold pfD
  simp only [fieldOps_sqrt, fieldOps_pow, scale_le hl, mul_div_mul_left _ _ hl.ne']
  rw [sqrt_shock_scale sqrt hs hl]
  have e1 : (l * p - l * pk) / (g6 * (l * pk) + l * p) = (p - pk) / (g6 * pk + p) := by
    rw [← mul_sub, show g6 * (l * pk) + l * p = l * (g6 * pk + p) by ring,
      mul_div_mul_left _ _ hl.ne']
  have e1' : 1 / 2 * (l * p - l * pk) / (g6 * (l * pk) + l * p)
      = 1 / 2 * (p - pk) / (g6 * pk + p) := by
    rw [mul_div_assoc, e1, mul_div_assoc]
  rw [e1']
  split
  · ring
  · ring

omit hs in
theorem exNewP_scale (fl0 fl1 fr0 fr1 pold ud : K) :
    exNewP fl0 (l⁻¹ * fl1) fr0 (l⁻¹ * fr1) (l * pold) ud = l * exNewP fl0 fl1 fr0 fr1 pold ud := by
  unfold exNewP
  rw [← mul_add, div_inv_mul, mul_sub]

/-- image of a loop state of `exact` under the scaling -/
def exScale (l : K) (s : exact_loopSt K) : exact_loopSt K :=
  ⟨s.fl_0, l⁻¹ * s.fl_1, s.fr_0, l⁻¹ * s.fr_1, s.i, s.i__k, l * s.p, l * s.pold⟩

omit hs in
theorem chg_scale (a b : K) : (l * a - l * b) / (l * a + l * b) = (a - b) / (a + b) := by
  rw [← mul_sub, ← mul_add, mul_div_mul_left _ _ hl.ne']

theorem exact_body_scale (cl cr g1 g2 g4 g5 g6 : K) (niter : Int)
    (pl pr rhol rhor tol ud : K) (s : exact_loopSt K) :
    exact_loop_body (fieldOps sqrt pow) cl cr g1 g2 g4 g5 g6 niter (l * pl) (l * pr) (l * rhol)
        (l * rhor) tol ud (exScale l s)
      = ((exact_loop_body (fieldOps sqrt pow) cl cr g1 g2 g4 g5 g6 niter pl pr rhol rhor tol ud s).1,
         exScale l (exact_loop_body (fieldOps sqrt pow) cl cr g1 g2 g4 g5 g6 niter pl pr rhol rhor tol ud s).2) := by
  rw [exact_body_eq, exact_body_eq]
  simp only [exScale, pfF_scale sqrt pow hs hl, pfD_scale sqrt pow hs hl, exNewP_scale hl,
    chg_scale hl]
  split <;> rfl

theorem exact_loop_scale (cl cr g1 g2 g4 g5 g6 : K) (niter : Int)
    (pl pr rhol rhor tol ud : K) (fuel : Nat) (s : exact_loopSt K) :
    exact_loop (fieldOps sqrt pow) cl cr g1 g2 g4 g5 g6 niter (l * pl) (l * pr) (l * rhol)
        (l * rhor) tol ud fuel (exScale l s)
      = exScale l (exact_loop (fieldOps sqrt pow) cl cr g1 g2 g4 g5 g6 niter pl pr rhol rhor tol ud fuel s) := by
  induction fuel generalizing s with
  | zero => rfl
  | succ n ih =>
    simp only [exact_loop]
    have hc : exact_loop_cond niter (exScale l s) ↔ exact_loop_cond niter s := Iff.rfl
    by_cases h : exact_loop_cond niter s
    · rw [if_pos h, if_pos (hc.mpr h), exact_body_scale sqrt pow hs hl]
      by_cases hb : (exact_loop_body (fieldOps sqrt pow) cl cr g1 g2 g4 g5 g6 niter pl pr rhol rhor tol ud s).1 = true
      · simp only [hb, if_true]
      · simp only [hb]; exact ih _
    · rw [if_neg h, if_neg (fun h' => h (hc.mp h'))]

omit hs in
theorem exPpv_scale (cl cr rhol rhor pl pr ul ur : K) :
    exPpv cl cr (l * rhol) (l * rhor) (l * pl) (l * pr) ul ur = l * exPpv cl cr rhol rhor pl pr ul ur := by
  unfold exPpv
  have e : 1 / 2 * (l * pl + l * pr) + 1 / 2 * (ul - ur) * (1 / 4 * (l * rhol + l * rhor) * (cl + cr))
      = l * (1 / 2 * (pl + pr) + 1 / 2 * (ul - ur) * (1 / 4 * (rhol + rhor) * (cl + cr))) := by ring
  rw [e, ← pymax_scale hl, mul_zero]

omit hs in
theorem exTR_scale (o : Ops K) (cl cr g1 g3 g4 g7 pl pr ul ur : K) :
    exTR o cl cr g1 g3 g4 g7 (l * pl) (l * pr) ul ur = l * exTR o cl cr g1 g3 g4 g7 pl pr ul ur := by
  unfold exTR
  rw [mul_div_mul_left _ _ hl.ne']
  ring

theorem exTS_scale (g5 g6 rhol rhor pl pr ul ur ppv : K) :
    exTS (fieldOps sqrt pow) g5 g6 (l * rhol) (l * rhor) (l * pl) (l * pr) ul ur (l * ppv)
      = l * exTS (fieldOps sqrt pow) g5 g6 rhol rhor pl pr ul ur ppv := by
  unfold exTS
  simp only [fieldOps_sqrt]
  rw [sqrt_shock_scale sqrt hs hl, sqrt_shock_scale sqrt hs hl]
  generalize sqrt (g5 / rhol / (g6 * pl + ppv)) = a
  generalize sqrt (g5 / rhor / (g6 * pr + ppv)) = b
  have hi : l⁻¹ * l = 1 := inv_mul_cancel₀ hl.ne'
  have e1 : l⁻¹ * a * (l * pl) + l⁻¹ * b * (l * pr) - (ur - ul) = a * pl + b * pr - (ur - ul) := by
    linear_combination (a * pl + b * pr) * hi
  rw [e1, ← mul_add, div_inv_mul]

theorem exStart_scale (cl cr g1 g3 g4 g5 g6 g7 rhol rhor pl pr ul ur : K) :
    exStart (fieldOps sqrt pow) cl cr g1 g3 g4 g5 g6 g7 (l * rhol) (l * rhor) (l * pl) (l * pr) ul ur
      = l * exStart (fieldOps sqrt pow) cl cr g1 g3 g4 g5 g6 g7 rhol rhor pl pr ul ur := by
  unfold exStart
  simp only [exPpv_scale hl, pymax_scale hl, pymin_scale hl, exTR_scale hl, exTS_scale sqrt pow hs hl,
    mul_div_mul_left _ _ hl.ne', scale_le hl, scale_lt hl]
  split
  · rfl
  · split <;> rfl

omit hs hl in
theorem exFinish_scale (l ul ur : K) (niter : Int) (r0 r1 : K) (S : exact_loopSt K) :
    (exFinish ul ur niter r0 r1 (exScale l S)).code = (exFinish ul ur niter r0 r1 S).code ∧
    ((exFinish ul ur niter r0 r1 S).code = 0 →
      (exFinish ul ur niter r0 r1 (exScale l S)).r0 = l * (exFinish ul ur niter r0 r1 S).r0 ∧
      (exFinish ul ur niter r0 r1 (exScale l S)).r1 = (exFinish ul ur niter r0 r1 S).r1) := by
  have hs' : (exScale l S).i = S.i := rfl
  unfold exFinish
  rw [hs']
  by_cases h : S.i = niter - 1
  · rw [if_pos h, if_pos h]; exact ⟨rfl, fun h0 => by simp at h0⟩
  · rw [if_neg h, if_neg h]
    exact ⟨rfl, fun _ => ⟨rfl, rfl⟩⟩

/-- scaling of `exact` after its constants (the sound speeds do not change) -/
theorem exFrom_scale (cl cr g1 g2 g3 g4 g5 g6 g7 rhol rhor pl pr ul ur : K) (niter : Int)
    (tol r0 r1 : K) :
    (exFrom (fieldOps sqrt pow) cl cr g1 g2 g3 g4 g5 g6 g7 (l * rhol) (l * rhor) (l * pl) (l * pr) ul ur niter tol r0 r1).code
      = (exFrom (fieldOps sqrt pow) cl cr g1 g2 g3 g4 g5 g6 g7 rhol rhor pl pr ul ur niter tol r0 r1).code ∧
    ((exFrom (fieldOps sqrt pow) cl cr g1 g2 g3 g4 g5 g6 g7 rhol rhor pl pr ul ur niter tol r0 r1).code = 0 →
      (exFrom (fieldOps sqrt pow) cl cr g1 g2 g3 g4 g5 g6 g7 (l * rhol) (l * rhor) (l * pl) (l * pr) ul ur niter tol r0 r1).r0
        = l * (exFrom (fieldOps sqrt pow) cl cr g1 g2 g3 g4 g5 g6 g7 rhol rhor pl pr ul ur niter tol r0 r1).r0 ∧
      (exFrom (fieldOps sqrt pow) cl cr g1 g2 g3 g4 g5 g6 g7 (l * rhol) (l * rhor) (l * pl) (l * pr) ul ur niter tol r0 r1).r1
        = (exFrom (fieldOps sqrt pow) cl cr g1 g2 g3 g4 g5 g6 g7 rhol rhor pl pr ul ur niter tol r0 r1).r1) := by
  unfold exFrom
  rw [exStart_scale sqrt pow hs hl]
  by_cases hv : g4 * (cl + cr) ≤ ur - ul
  · simp [if_pos hv]
  · simp only [if_neg hv]
    generalize exStart (fieldOps sqrt pow) cl cr g1 g3 g4 g5 g6 g7 rhol rhor pl pr ul ur = P0
    have hl' := exact_loop_scale sqrt pow hs hl cl cr g1 g2 g4 g5 g6 niter pl pr rhol rhor tol
      (ur - ul) niter.toNat ⟨0, 0, 0, 0, 0, 0, 0, P0⟩
    have h0 : exScale l (exact_loopSt.mk (0 : K) 0 0 0 0 0 0 P0) = ⟨0, 0, 0, 0, 0, 0, 0, l * P0⟩ := by
      simp [exScale]
    rw [h0] at hl'
    rw [hl']
    exact exFinish_scale l ul ur niter r0 r1 _

end exact
/-! ## `van_leer` -/

/-- the `smallp` literal of `van_leer` (the double `1e-25`) -/
def vlSmallp : K := 8711228593176025 / 87112285931760246646623899502532662132736

theorem vlSmallp_pos : (0 : K) < vlSmallp := by unfold vlSmallp; positivity

/-- `van_leer` after its sound speeds, with the pressure floor as a parameter -/
def vlFrom (o : Ops K) (cl cr rhol rhor pl pr ul ur gamma : K) (niter : Int) (tol sp : K) : Res K :=
  vlFinish ul ur pl pr
    (van_leer_loop o (1 / rhol) (1 / rhor) cl cr (1 / 2 * (1 + gamma) / gamma) (1 + gamma) niter pl pr
      sp tol ul ur niter.toNat
      ⟨false, 0, pymax (pl + (pr - pl - cr * (ur - ul)) * cl / (cl + cr)) sp, 0, 0⟩)

theorem van_leer_eq (o : Ops K) (rhol rhor pl pr ul ur gamma : K) (niter : Int) (tol r0 r1 : K) :
    van_leer o rhol rhor pl pr ul ur gamma niter tol r0 r1 =
      if rhol < 0 ∨ rhor < 0 ∨ pl < 0 ∨ pr < 0 then ⟨1, 0, 0⟩
      else vlFrom o (o.sqrt (gamma * pl * rhol)) (o.sqrt (gamma * pr * rhor)) rhol rhor pl pr ul ur
        gamma niter tol vlSmallp := by
  simp only [van_leer, Nat.cast_ofNat, Nat.cast_one, Nat.cast_zero]
  rfl

/-- impedance-like factor `Z` of one side in the Newton update -/
def vlZ (V w g2 dp : K) : K := (4 * V * w * w) * w / (4 * V * w * w - g2 * dp)

theorem vlNewP_eq (Vl Vr g2 pl pr ul ur p wl wr : K) :
    vlNewP Vl Vr g2 pl pr ul ur p wl wr =
      p + ((ur + (p - pr) / wr) - (ul - (p - pl) / wl)) *
        ((-vlZ Vl wl g2 (p - pl)) * vlZ Vr wr g2 (p - pr)) /
        (vlZ Vr wr g2 (p - pr) - (-vlZ Vl wl g2 (p - pl))) := by
  unfold vlNewP vlZ
  rw [neg_mul, neg_div]

section vl
variable (sqrt : K → K) (pow : K → K → K) (hs : SqrtScales sqrt) {l : K} (hl : 0 < l)
include hl

theorem vlZ_scale (V w g2 dp : K) : vlZ (l⁻¹ * V) (l * w) g2 (l * dp) = l * vlZ V w g2 dp := by
  unfold vlZ
  have hi : l⁻¹ * l = 1 := inv_mul_cancel₀ hl.ne'
  have e0 : 4 * (l⁻¹ * V) * (l * w) * (l * w) = l * (4 * V * w * w) := by
    linear_combination (4 * V * w * w * l) * hi
  rw [e0, show l * (4 * V * w * w) * (l * w) = l * (l * (4 * V * w * w * w)) by ring,
    show l * (4 * V * w * w) - g2 * (l * dp) = l * (4 * V * w * w - g2 * dp) by ring,
    mul_div_mul_left _ _ hl.ne', mul_div_assoc]

theorem vlNewP_scale (Vl Vr g2 pl pr ul ur p wl wr : K) :
    vlNewP (l⁻¹ * Vl) (l⁻¹ * Vr) g2 (l * pl) (l * pr) ul ur (l * p) (l * wl) (l * wr)
      = l * vlNewP Vl Vr g2 pl pr ul ur p wl wr := by
  rw [vlNewP_eq, vlNewP_eq, ← mul_sub, ← mul_sub, vlZ_scale hl, vlZ_scale hl,
    mul_div_mul_left _ _ hl.ne', mul_div_mul_left _ _ hl.ne']
  generalize vlZ Vl wl g2 (p - pl) = Zl
  generalize vlZ Vr wr g2 (p - pr) = Zr
  generalize ur + (p - pr) / wr - (ul - (p - pl) / wl) = du
  have e1 : du * (-(l * Zl) * (l * Zr)) = l * (l * (du * (-Zl * Zr))) := by ring
  have e2 : l * Zr - -(l * Zl) = l * (Zr - -Zl) := by ring
  rw [e1, e2, mul_div_mul_left _ _ hl.ne', mul_div_assoc, mul_add]

/-- image of a loop state of `van_leer` under the scaling -/
def vlScale (l : K) (s : van_leer_loopSt K) : van_leer_loopSt K :=
  ⟨s.converged, s.iteration, l * s.pstar, l * s.wl, l * s.wr⟩

theorem vlW_scale (c g1 p pk : K) :
    l * c * sqrt (1 + g1 * (l * p - l * pk) / (l * pk)) = l * (c * sqrt (1 + g1 * (p - pk) / pk)) := by
  rw [← mul_sub, show g1 * (l * (p - pk)) = l * (g1 * (p - pk)) by ring,
    mul_div_mul_left _ _ hl.ne', mul_assoc]

theorem vlConv_scale (q p : K) : |l * q - l * p| / (l * q) = |q - p| / q := by
  rw [← mul_sub, abs_mul, abs_of_pos hl, mul_div_mul_left _ _ hl.ne']

omit hl in
/-- the exit of one pass of `van_leer`, as a function of the convergence flag -/
def vlStep (cv : Bool) (it : Int) (p' wl wr : K) : Bool × van_leer_loopSt K :=
  if cv = true then (true, ⟨cv, it, p', wl, wr⟩) else (false, ⟨cv, it + 1, p', wl, wr⟩)

omit hl in
theorem van_leer_body_eq' (o : Ops K) (Vl Vr cl cr g1 g2 : K) (niter : Int)
    (pl pr smallp tol ul ur : K) (s : van_leer_loopSt K) :
    van_leer_loop_body o Vl Vr cl cr g1 g2 niter pl pr smallp tol ul ur s =
      vlStep
        (decide (o.abs (pymax smallp (vlNewP Vl Vr g2 pl pr ul ur s.pstar
            (cl * o.sqrt (1 + g1 * (s.pstar - pl) / pl)) (cr * o.sqrt (1 + g1 * (s.pstar - pr) / pr)))
          - s.pstar) / pymax smallp (vlNewP Vl Vr g2 pl pr ul ur s.pstar
            (cl * o.sqrt (1 + g1 * (s.pstar - pl) / pl)) (cr * o.sqrt (1 + g1 * (s.pstar - pr) / pr))) < tol))
        s.iteration
        (pymax smallp (vlNewP Vl Vr g2 pl pr ul ur s.pstar
            (cl * o.sqrt (1 + g1 * (s.pstar - pl) / pl)) (cr * o.sqrt (1 + g1 * (s.pstar - pr) / pr))))
        (cl * o.sqrt (1 + g1 * (s.pstar - pl) / pl)) (cr * o.sqrt (1 + g1 * (s.pstar - pr) / pr)) := by
  rw [van_leer_body_eq]; rfl

omit hl in
theorem vlStep_scale (l : K) (A A' : Prop) [Decidable A] [Decidable A'] (hAA : A' ↔ A) (it : Int)
    (P' WL' WR' P WL WR : K) (hP : P' = l * P) (hWL : WL' = l * WL) (hWR : WR' = l * WR) :
    vlStep (decide A') it P' WL' WR'
      = ((vlStep (decide A) it P WL WR).1, vlScale l (vlStep (decide A) it P WL WR).2) := by
  have h : decide A' = decide A := decide_eq_decide.mpr hAA
  rw [h, hP, hWL, hWR]
  cases (decide A) <;> rfl

/-- one pass on scaled data with the floor scaled as well -/
theorem van_leer_body_scale (Vl Vr cl cr g1 g2 : K) (niter : Int)
    (pl pr sp tol ul ur : K) (s : van_leer_loopSt K) :
    van_leer_loop_body (fieldOps sqrt pow) (l⁻¹ * Vl) (l⁻¹ * Vr) (l * cl) (l * cr) g1 g2 niter
        (l * pl) (l * pr) (l * sp) tol ul ur (vlScale l s)
      = ((van_leer_loop_body (fieldOps sqrt pow) Vl Vr cl cr g1 g2 niter pl pr sp tol ul ur s).1,
         vlScale l (van_leer_loop_body (fieldOps sqrt pow) Vl Vr cl cr g1 g2 niter pl pr sp tol ul ur s).2) := by
  have hWL : (l * cl * sqrt (1 + g1 * (l * s.pstar - l * pl) / (l * pl))) = l * (cl * sqrt (1 + g1 * (s.pstar - pl) / pl)) := vlW_scale sqrt hl cl g1 s.pstar pl
  have hWR : (l * cr * sqrt (1 + g1 * (l * s.pstar - l * pr) / (l * pr))) = l * (cr * sqrt (1 + g1 * (s.pstar - pr) / pr)) := vlW_scale sqrt hl cr g1 s.pstar pr
  have hP : (pymax (l * sp) (vlNewP (l⁻¹ * Vl) (l⁻¹ * Vr) g2 (l * pl) (l * pr) ul ur (l * s.pstar) (l * cl * sqrt (1 + g1 * (l * s.pstar - l * pl) / (l * pl))) (l * cr * sqrt (1 + g1 * (l * s.pstar - l * pr) / (l * pr)))))
      = l * (pymax sp (vlNewP Vl Vr g2 pl pr ul ur s.pstar (cl * sqrt (1 + g1 * (s.pstar - pl) / pl)) (cr * sqrt (1 + g1 * (s.pstar - pr) / pr)))) := by
    rw [hWL, hWR, vlNewP_scale hl, pymax_scale hl]
  have hAA : (|(pymax (l * sp) (vlNewP (l⁻¹ * Vl) (l⁻¹ * Vr) g2 (l * pl) (l * pr) ul ur (l * s.pstar) (l * cl * sqrt (1 + g1 * (l * s.pstar - l * pl) / (l * pl))) (l * cr * sqrt (1 + g1 * (l * s.pstar - l * pr) / (l * pr))))) - l * s.pstar| / (pymax (l * sp) (vlNewP (l⁻¹ * Vl) (l⁻¹ * Vr) g2 (l * pl) (l * pr) ul ur (l * s.pstar) (l * cl * sqrt (1 + g1 * (l * s.pstar - l * pl) / (l * pl))) (l * cr * sqrt (1 + g1 * (l * s.pstar - l * pr) / (l * pr))))) < tol)
      ↔ (|(pymax sp (vlNewP Vl Vr g2 pl pr ul ur s.pstar (cl * sqrt (1 + g1 * (s.pstar - pl) / pl)) (cr * sqrt (1 + g1 * (s.pstar - pr) / pr)))) - s.pstar| / (pymax sp (vlNewP Vl Vr g2 pl pr ul ur s.pstar (cl * sqrt (1 + g1 * (s.pstar - pl) / pl)) (cr * sqrt (1 + g1 * (s.pstar - pr) / pr)))) < tol) := by
    rw [hP, vlConv_scale hl]
  rw [van_leer_body_eq', van_leer_body_eq']
  exact vlStep_scale l _ _ hAA _ _ _ _ _ _ _ hP hWL hWR

theorem van_leer_loop_scale (Vl Vr cl cr g1 g2 : K) (niter : Int)
    (pl pr sp tol ul ur : K) (fuel : Nat) (s : van_leer_loopSt K) :
    van_leer_loop (fieldOps sqrt pow) (l⁻¹ * Vl) (l⁻¹ * Vr) (l * cl) (l * cr) g1 g2 niter
        (l * pl) (l * pr) (l * sp) tol ul ur fuel (vlScale l s)
      = vlScale l (van_leer_loop (fieldOps sqrt pow) Vl Vr cl cr g1 g2 niter pl pr sp tol ul ur fuel s) := by
  induction fuel generalizing s with
  | zero => rfl
  | succ n ih =>
    simp only [van_leer_loop]
    have hc : van_leer_loop_cond niter (vlScale l s) ↔ van_leer_loop_cond niter s := Iff.rfl
    by_cases h : van_leer_loop_cond niter s
    · rw [if_pos h, if_pos (hc.mpr h), van_leer_body_scale sqrt pow hl]
      by_cases hb : (van_leer_loop_body (fieldOps sqrt pow) Vl Vr cl cr g1 g2 niter pl pr sp tol ul ur s).1 = true
      · simp only [hb, if_true]
      · simp only [hb]; exact ih _
    · rw [if_neg h, if_neg (fun h' => h (hc.mp h'))]

omit hl in
theorem vlFinish_scale (l ul ur pl pr : K) (hl : 0 < l) (S : van_leer_loopSt K) :
    (vlFinish ul ur (l * pl) (l * pr) (vlScale l S)).code = (vlFinish ul ur pl pr S).code ∧
    (vlFinish ul ur (l * pl) (l * pr) (vlScale l S)).r0 = l * (vlFinish ul ur pl pr S).r0 ∧
    (vlFinish ul ur (l * pl) (l * pr) (vlScale l S)).r1 = (vlFinish ul ur pl pr S).r1 := by
  unfold vlFinish vlScale
  simp only [← mul_sub, mul_div_mul_left _ _ hl.ne']
  cases S.converged <;> simp

end vl

/-! ### the floor `smallp` does not scale: runs on which it is inactive -/

/-- along the run from `s` (floor `sp`) every Newton update stays at or above
both `sp` and `sp'`: neither floor is ever applied -/
def vlFloorFree (o : Ops K) (Vl Vr cl cr g1 g2 : K) (niter : Int) (pl pr sp sp' tol ul ur : K) :
    Nat → van_leer_loopSt K → Prop
  | 0, _ => True
  | fuel + 1, s =>
    van_leer_loop_cond niter s →
      (sp ≤ vlNewP Vl Vr g2 pl pr ul ur s.pstar (cl * o.sqrt (1 + g1 * (s.pstar - pl) / pl))
          (cr * o.sqrt (1 + g1 * (s.pstar - pr) / pr)) ∧
       sp' ≤ vlNewP Vl Vr g2 pl pr ul ur s.pstar (cl * o.sqrt (1 + g1 * (s.pstar - pl) / pl))
          (cr * o.sqrt (1 + g1 * (s.pstar - pr) / pr))) ∧
      ((van_leer_loop_body o Vl Vr cl cr g1 g2 niter pl pr sp tol ul ur s).1 = false →
        vlFloorFree o Vl Vr cl cr g1 g2 niter pl pr sp sp' tol ul ur fuel
          (van_leer_loop_body o Vl Vr cl cr g1 g2 niter pl pr sp tol ul ur s).2)

theorem pymax_of_le {a b : K} (h : a ≤ b) : pymax a b = b := by
  rw [pymax_eq_max, max_eq_right h]

theorem van_leer_body_floor (o : Ops K) (Vl Vr cl cr g1 g2 : K) (niter : Int)
    (pl pr sp sp' tol ul ur : K) (s : van_leer_loopSt K)
    (h : sp ≤ vlNewP Vl Vr g2 pl pr ul ur s.pstar (cl * o.sqrt (1 + g1 * (s.pstar - pl) / pl))
          (cr * o.sqrt (1 + g1 * (s.pstar - pr) / pr)))
    (h' : sp' ≤ vlNewP Vl Vr g2 pl pr ul ur s.pstar (cl * o.sqrt (1 + g1 * (s.pstar - pl) / pl))
          (cr * o.sqrt (1 + g1 * (s.pstar - pr) / pr))) :
    van_leer_loop_body o Vl Vr cl cr g1 g2 niter pl pr sp' tol ul ur s
      = van_leer_loop_body o Vl Vr cl cr g1 g2 niter pl pr sp tol ul ur s := by
  rw [van_leer_body_eq, van_leer_body_eq]
  simp only [pymax_of_le h, pymax_of_le h']

theorem van_leer_loop_floor (o : Ops K) (Vl Vr cl cr g1 g2 : K) (niter : Int)
    (pl pr sp sp' tol ul ur : K) (fuel : Nat) (s : van_leer_loopSt K)
    (hf : vlFloorFree o Vl Vr cl cr g1 g2 niter pl pr sp sp' tol ul ur fuel s) :
    van_leer_loop o Vl Vr cl cr g1 g2 niter pl pr sp' tol ul ur fuel s
      = van_leer_loop o Vl Vr cl cr g1 g2 niter pl pr sp tol ul ur fuel s := by
  induction fuel generalizing s with
  | zero => rfl
  | succ n ih =>
    simp only [van_leer_loop]
    by_cases h : van_leer_loop_cond niter s
    · obtain ⟨⟨h1, h2⟩, h3⟩ := hf h
      rw [if_pos h, if_pos h, van_leer_body_floor o Vl Vr cl cr g1 g2 niter pl pr sp sp' tol ul ur s h1 h2]
      by_cases hb : (van_leer_loop_body o Vl Vr cl cr g1 g2 niter pl pr sp tol ul ur s).1 = true
      · simp only [hb, if_true]
      · simp only [hb]
        exact ih _ (h3 (by simpa using hb))
    · rw [if_neg h, if_neg h]

/-- the floor is inactive on the whole run of `vlFrom` (floor `sp`), also for
the alternative floor `sp'`: starting guess and every Newton update are `≥ sp, sp'` -/
def vlFloorInactive (o : Ops K) (cl cr rhol rhor pl pr ul ur gamma : K) (niter : Int)
    (tol sp sp' : K) : Prop :=
  (sp ≤ pl + (pr - pl - cr * (ur - ul)) * cl / (cl + cr) ∧
   sp' ≤ pl + (pr - pl - cr * (ur - ul)) * cl / (cl + cr)) ∧
  vlFloorFree o (1 / rhol) (1 / rhor) cl cr (1 / 2 * (1 + gamma) / gamma) (1 + gamma) niter pl pr
    sp sp' tol ul ur niter.toNat ⟨false, 0, pl + (pr - pl - cr * (ur - ul)) * cl / (cl + cr), 0, 0⟩

/-- scaling of `van_leer` after its sound speeds, for runs on which the
pressure floor is never applied, neither on the original nor on the scaled data -/
theorem vlFrom_scale (sqrt : K → K) (pow : K → K → K) {l : K} (hl : 0 < l)
    (cl cr rhol rhor pl pr ul ur gamma : K) (niter : Int) (tol sp : K)
    (hf : vlFloorInactive (fieldOps sqrt pow) cl cr rhol rhor pl pr ul ur gamma niter tol sp (l⁻¹ * sp)) :
    (vlFrom (fieldOps sqrt pow) (l * cl) (l * cr) (l * rhol) (l * rhor) (l * pl) (l * pr) ul ur gamma niter tol sp).code
      = (vlFrom (fieldOps sqrt pow) cl cr rhol rhor pl pr ul ur gamma niter tol sp).code ∧
    (vlFrom (fieldOps sqrt pow) (l * cl) (l * cr) (l * rhol) (l * rhor) (l * pl) (l * pr) ul ur gamma niter tol sp).r0
      = l * (vlFrom (fieldOps sqrt pow) cl cr rhol rhor pl pr ul ur gamma niter tol sp).r0 ∧
    (vlFrom (fieldOps sqrt pow) (l * cl) (l * cr) (l * rhol) (l * rhor) (l * pl) (l * pr) ul ur gamma niter tol sp).r1
      = (vlFrom (fieldOps sqrt pow) cl cr rhol rhor pl pr ul ur gamma niter tol sp).r1 := by
  obtain ⟨⟨h0, h0'⟩, hff⟩ := hf
  unfold vlFrom
  have hi : l * l⁻¹ = 1 := mul_inv_cancel₀ hl.ne'
  have eP : l * pl + (l * pr - l * pl - l * cr * (ur - ul)) * (l * cl) / (l * cl + l * cr)
      = l * (pl + (pr - pl - cr * (ur - ul)) * cl / (cl + cr)) := by
    rw [show (l * pr - l * pl - l * cr * (ur - ul)) * (l * cl)
        = l * (l * ((pr - pl - cr * (ur - ul)) * cl)) by ring, ← mul_add,
      mul_div_mul_left _ _ hl.ne', mul_div_assoc, mul_add]
  rw [eP]
  generalize pl + (pr - pl - cr * (ur - ul)) * cl / (cl + cr) = P0 at h0 h0' hff
  have hsp : sp = l * (l⁻¹ * sp) := by rw [← mul_assoc, hi, one_mul]
  have e1 : pymax (l * P0) sp = l * P0 := by
    rw [pymax_comm, pymax_of_le]
    rw [hsp]; exact mul_le_mul_of_nonneg_left h0' hl.le
  have e2 : pymax P0 sp = P0 := by rw [pymax_comm, pymax_of_le h0]
  rw [e1, e2]
  have eV1 : 1 / (l * rhol) = l⁻¹ * (1 / rhol) := by rw [one_div, one_div, mul_inv]
  have eV2 : 1 / (l * rhor) = l⁻¹ * (1 / rhor) := by rw [one_div, one_div, mul_inv]
  rw [eV1, eV2]
  have hloop := van_leer_loop_scale sqrt pow hl (1 / rhol) (1 / rhor) cl cr (1 / 2 * (1 + gamma) / gamma)
    (1 + gamma) niter pl pr (l⁻¹ * sp) tol ul ur niter.toNat ⟨false, 0, P0, 0, 0⟩
  rw [← hsp] at hloop
  have h00 : vlScale l (van_leer_loopSt.mk false 0 P0 (0 : K) 0) = ⟨false, 0, l * P0, 0, 0⟩ := by
    simp [vlScale]
  rw [h00] at hloop
  rw [hloop, van_leer_loop_floor _ _ _ _ _ _ _ _ _ _ sp (l⁻¹ * sp) _ _ _ _ _ hff]
  exact vlFinish_scale l ul ur pl pr hl _

end PysphVerif.Riemann
