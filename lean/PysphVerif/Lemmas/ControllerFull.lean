import PysphVerif.Lemmas.ControllerLocks
/-!
C18, repaired protocol, ALL operations (get / blocking set / queued commands /
get_result of arbitrary ids / pause_on_next / wait / cont).

`WF`: the only thing a program must respect for the protocol to be free of
deadlock is that it does not END inside a pause section (every
`pause_on_next` is eventually followed by a `cont` of the same thread).
Invariant `Live`: consistency of each thread's pc/remaining program with its
membership in `pause`, and the pending-notification facts of the pause
protocol, now with the solver also running queued commands inside the loop of
`wait_for_cmd`.
-/
set_option linter.unusedVariables false
namespace PysphVerif.Controller

/-- `b` = the thread is currently in `pause`; the program must not end there -/
def WF : Bool → List Op → Bool
  | b, [] => !b
  | _, Op.pause :: r => WF true r
  | _, Op.cont :: r => WF false r
  | b, _ :: r => WF b r

/-- well-formed program of the pause fragment (no queued commands, no `get_result`;
balanced pause sections, `wait`/`cont` only inside), `b` = inside a pause section -/
def WFp : Bool → List Op → Bool
  | b, [] => !b
  | b, Op.pause :: r => !b && WFp true r
  | b, Op.wait :: r => b && WFp true r
  | b, Op.cont :: r => b && WFp false r
  | b, Op.get :: r => WFp b r
  | b, Op.setNow _ :: r => WFp b r
  | _, _ => false

theorem wf_of_wfp : ∀ (b : Bool) (p : List Op), WFp b p = true → WF b p = true
  | b, [] => by simp [WFp, WF]
  | b, op :: r => by
    intro h
    cases op <;> simp only [WFp, WF, Bool.and_eq_true, Bool.not_eq_true'] at h ⊢
    · exact wf_of_wfp b r h
    · exact wf_of_wfp b r h
    · cases h
    · cases h
    · cases h
    · exact wf_of_wfp true r h.2
    · obtain ⟨hb, h⟩ := h; subst hb; exact wf_of_wfp true r h
    · exact wf_of_wfp false r h.2

/-- consistency of a thread's pc and remaining program with its membership in `pause` -/
def consF (inPause : Bool) (pc : IPc) (prog : List Op) : Bool :=
  match pc with
  | IPc.pAcqP => WF true prog
  | IPc.pNtfP | IPc.pRelP => inPause && WF true prog
  | IPc.cAcqP => WF false prog
  | IPc.cNtfP | IPc.cRelP _ | IPc.cAcqQ | IPc.cNtaQ | IPc.cRelQ => !inPause && WF false prog
  | _ => WF inPause prog

/-- a `cont()` that has left `pause` and has not yet notified `qlock` -/
def contInFlight : IPc → Bool
  | IPc.cNtfP | IPc.cRelP false | IPc.cAcqQ | IPc.cNtaQ => true
  | _ => false

/-- the solver is inside the loop of `wait_for_cmd`, past `paused.update(pause)` -/
def honoured : SPc → Bool
  | SPc.ntaP | SPc.relP | SPc.waitQ => true
  | SPc.runAcqRes ctx _ _ | SPc.runRelC ctx _ | SPc.runRelRes ctx => decide (ctx = Ctx.loop)
  | _ => false

theorem honoured_sOwnsQ {pc : SPc} (h : honoured pc = true) : sOwnsQ pc = true := by
  cases pc <;> simp_all [honoured, sOwnsQ]

/-- program consistency of every thread -/
structure LiveC (n : Nat) (s : State) : Prop where
  cons : ∀ u, consF (decide (u ∈ s.pause)) (s.th u).pc (s.th u).prog = true
  inert : ∀ u, n < u → (s.th u).pc = IPc.idle ∧ (s.th u).prog = []
  zprog : (s.th 0).prog = []
  wb : ∀ u, (s.th u).pc = IPc.wBlocked → u ∈ s.pWait

/-- pending notifications of the pause protocol -/
structure LiveJ (s : State) : Prop where
  j1 : s.spc = SPc.acqP → (∀ u, contInFlight (s.th u).pc = false) → s.pause ≠ []
  j2 : (honoured s.spc = true ∨ s.qWaiting = true) →
        (∀ u, contInFlight (s.th u).pc = false) → s.paused ≠ []

structure Live (n : Nat) (s : State) : Prop where
  c : LiveC n s
  j : LiveJ s

theorem Live.cons {n : Nat} {s : State} (h : Live n s) :
    ∀ u, consF (decide (u ∈ s.pause)) (s.th u).pc (s.th u).prog = true := h.c.cons
theorem Live.inert {n : Nat} {s : State} (h : Live n s) :
    ∀ u, n < u → (s.th u).pc = IPc.idle ∧ (s.th u).prog = [] := h.c.inert
theorem Live.zprog {n : Nat} {s : State} (h : Live n s) : (s.th 0).prog = [] := h.c.zprog
theorem Live.wb {n : Nat} {s : State} (h : Live n s) :
    ∀ u, (s.th u).pc = IPc.wBlocked → u ∈ s.pWait := h.c.wb
theorem Live.j2 {n : Nat} {s : State} (h : Live n s) :
    (honoured s.spc = true ∨ s.qWaiting = true) →
      (∀ u, contInFlight (s.th u).pc = false) → s.paused ≠ [] := h.j.j2

theorem addSet_ne_nil' (l : List Tid) (t : Tid) : addSet l t ≠ [] := by
  unfold addSet; split
  · intro e; simp_all
  · simp

theorem unionSet_eq_nil' {a b : List Tid} (h : unionSet a b = []) : b = [] := by
  cases b with
  | nil => rfl
  | cons x xs =>
    have : x ∈ unionSet a (x :: xs) := mem_unionSet.mpr (Or.inr (by simp))
    rw [h] at this; cases this

set_option maxHeartbeats 2000000 in
theorem livec_stepIface {n : Nat} {s s' : State} {t : Tid} {evs : List Ev}
    (h : LiveC n s) (hw : W s) (hq : QW s) (ht : t ≠ 0)
    (hs : stepIface Cfg.fixed s t = some (s', evs)) : LiveC n s' := by
  unfold stepIface at hs
  simp only [Cfg.fixed, wakeOneP, wakeQ, startOp] at hs
  (repeat' split at hs) <;>
  first
  | (cases hs; done)
  | (simp only [Bool.false_eq_true, if_false, Option.some.injEq, Prod.mk.injEq] at hs
     obtain ⟨rfl, -⟩ := hs
     obtain ⟨a1, a2, a3, a4⟩ := h
     obtain ⟨b1, b2, b3, b4, b5, b6, b7⟩ := hw
     constructor <;> (try simp only [setPc]) <;>
       grind [consF, WF, mem_addSet, QW])

set_option maxHeartbeats 2000000 in
theorem livec_stepSolver {n : Nat} {s s' : State} {evs : List Ev}
    (h : LiveC n s) (hw : W s)
    (hs : stepSolver Cfg.fixed s = some (s', evs)) : LiveC n s' := by
  unfold stepSolver at hs
  simp only [Cfg.fixed, runQueue, afterRun, checkPause, wakeAllP] at hs
  (repeat' split at hs) <;>
  first
  | (cases hs; done)
  | (simp only [Option.some.injEq, Prod.mk.injEq] at hs
     obtain ⟨rfl, -⟩ := hs
     obtain ⟨a1, a2, a3, a4⟩ := h
     obtain ⟨b1, b2, b3, b4, b5, b6, b7⟩ := hw
     constructor <;> (repeat' split) <;> grind [consF, WF])

set_option maxHeartbeats 2000000 in
theorem livej_stepIface {s s' : State} {t : Tid} {evs : List Ev}
    (h : LiveJ s) (hw : W s) (hp : PInv s) (hq : QW s) (hl : LQ s) (ht : t ≠ 0)
    (hs : stepIface Cfg.fixed s t = some (s', evs)) : LiveJ s' := by
  have hh := @honoured_sOwnsQ s.spc
  unfold stepIface at hs
  simp only [Cfg.fixed, wakeOneP, wakeQ, startOp] at hs
  (repeat' split at hs) <;>
  first
  | (cases hs; done)
  | (simp only [Bool.false_eq_true, if_false, Option.some.injEq, Prod.mk.injEq] at hs
     obtain ⟨rfl, -⟩ := hs
     obtain ⟨a5, a6⟩ := h
     obtain ⟨b1, b2, b3, b4, b5, b6, b7⟩ := hw
     obtain ⟨c1, c2⟩ := hp
     obtain ⟨q1, q2, q3, q4, q5, q7, q6⟩ := hl
     constructor <;> (try simp only [setPc]) <;>
       grind [holdsP, ownsQ, sOwnsQ, contInFlight, honoured, mem_addSet,
              addSet_ne_nil', QW, InLoop])

set_option maxHeartbeats 2000000 in
theorem livej_stepSolver {s s' : State} {evs : List Ev}
    (h : LiveJ s) (hw : W s) (hp : PInv s) (hq : QW s) (hl : LQ s)
    (hal : s'.spc ≠ SPc.crashed)
    (hs : stepSolver Cfg.fixed s = some (s', evs)) : LiveJ s' := by
  unfold stepSolver at hs
  simp only [Cfg.fixed, runQueue, afterRun, checkPause, wakeAllP] at hs
  (repeat' split at hs) <;>
  first
  | (cases hs; done)
  | (simp only [Option.some.injEq, Prod.mk.injEq] at hs
     obtain ⟨rfl, -⟩ := hs
     obtain ⟨a5, a6⟩ := h
     obtain ⟨b1, b2, b3, b4, b5, b6, b7⟩ := hw
     obtain ⟨c1, c2⟩ := hp
     obtain ⟨q1, q2, q3, q4, q5, q7, q6⟩ := hl
     constructor <;> (repeat' split) <;>
       grind [holdsP, ownsQ, sOwnsQ, contInFlight, honoured, mem_unionSet,
              unionSet_eq_nil', QW, InLoop])

theorem live_stepIface {n : Nat} {s s' : State} {t : Tid} {evs : List Ev}
    (h : Live n s) (hw : W s) (hp : PInv s) (hq : QW s) (hl : LQ s) (ht : t ≠ 0)
    (hs : stepIface Cfg.fixed s t = some (s', evs)) : Live n s' :=
  ⟨livec_stepIface h.c hw hq ht hs, livej_stepIface h.j hw hp hq hl ht hs⟩

theorem live_stepSolver {n : Nat} {s s' : State} {evs : List Ev}
    (h : Live n s) (hw : W s) (hp : PInv s) (hq : QW s) (hl : LQ s)
    (hal : s'.spc ≠ SPc.crashed)
    (hs : stepSolver Cfg.fixed s = some (s', evs)) : Live n s' :=
  ⟨livec_stepSolver h.c hw hs, livej_stepSolver h.j hw hp hq hl hal hs⟩

theorem wf_progsOf {ps : List (List Op)} (hwf : ∀ p ∈ ps, WF false p = true) (u : Tid) :
    WF false (progsOf ps u) = true := by
  unfold progsOf
  split
  · rfl
  · by_cases hu : u - 1 < ps.length
    · rw [List.getD_eq_getElem?_getD, List.getElem?_eq_getElem hu]
      exact hwf _ (List.getElem_mem hu)
    · rw [List.getD_eq_getElem?_getD, List.getElem?_eq_none (Nat.le_of_not_lt hu)]; rfl

theorem live_init (ps : List (List Op)) (hwf : ∀ p ∈ ps, WF false p = true) :
    Live ps.length (init (progsOf ps)) := by
  refine ⟨?_, by constructor <;> simp [init, contInFlight, honoured]⟩
  constructor <;> try (simp [init, progsOf]; done)
  · intro u
    simp only [init, List.not_mem_nil, decide_false, consF]
    exact wf_progsOf hwf u
  · intro u hu
    simp only [init, progsOf, true_and]
    split
    · rfl
    · rw [List.getD_eq_getElem?_getD, List.getElem?_eq_none (by omega)]; rfl

theorem reachable_live {ps : List (List Op)} {s : State} (hwf : ∀ p ∈ ps, WF false p = true)
    (hr : Reachable Cfg.fixed (progsOf ps) s) : Live ps.length s := by
  induction hr with
  | init => exact live_init ps hwf
  | @step s s' t evs hr hs ih =>
    have hq := (reachable_inv hr).2
    have hw := reachable_w (cfg := Cfg.fixed) rfl rfl hr
    have hp := reachable_pinv hr
    have hl := (reachable_locks hr).lq
    have hal := (reachable_safe (Reachable.step hr hs)).alive
    unfold step at hs
    split at hs
    · exact live_stepSolver ih hw hp hq hl hal hs
    · rename_i ht; exact live_stepIface ih hw hp hq hl ht hs

end PysphVerif.Controller
