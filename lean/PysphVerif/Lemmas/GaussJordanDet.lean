import Mathlib.LinearAlgebra.Matrix.Determinant.Basic
import Mathlib.LinearAlgebra.Matrix.Block
import PysphVerif.Lemmas.GaussJordan
set_option linter.unusedSectionVars false
set_option linter.unusedVariables false
/-!
C13: the link between the row operations of `gj_solve` and Mathlib's determinant.
-/
namespace PysphVerif.GaussJordan
variable {K : Type} [Field K] [LinearOrder K] [IsStrictOrderedRing K]

/-- the coefficient block `A` of an augmented matrix as a Mathlib matrix -/
def toMat (n : Nat) (M : Nat → Nat → K) : Matrix (Fin n) (Fin n) K := fun i j => M i j

/-- elementary row operations keep the determinant (non-)zero -/
theorem RowOps.det_zero_iff {n nt : Nat} (hn : n ≤ nt) {M M' : Nat → Nat → K}
    (h : RowOps n nt M M') : (toMat n M').det = 0 ↔ (toMat n M).det = 0 := by
  induction h with
  | refl B h =>
    have : toMat n B = toMat n M := by
      ext i j; exact h i j i.2 (lt_of_lt_of_le j.2 hn)
    rw [this]
  | axpy B C rr k cc _ hr hk hne he ih =>
    have : toMat n C = Matrix.updateRow (toMat n B) ⟨rr, hr⟩
        (toMat n B ⟨rr, hr⟩ + cc • toMat n B ⟨k, hk⟩) := by
      ext i j
      rw [Matrix.updateRow_apply]
      show C i j = _
      rw [he i j i.2 (lt_of_lt_of_le j.2 hn)]
      by_cases h : (i : Nat) = rr
      · have h' : i = ⟨rr, hr⟩ := Fin.ext h
        rw [if_pos h, if_pos h']; rfl
      · have h' : i ≠ ⟨rr, hr⟩ := fun e => h (congrArg Fin.val e)
        rw [if_neg h, if_neg h']; rfl
    rw [this, Matrix.det_updateRow_add_smul_self _
      (show (⟨rr, hr⟩ : Fin n) ≠ ⟨k, hk⟩ from fun e => hne (congrArg Fin.val e))]
    exact ih
  | swap B C r1 r2 _ hr1 hr2 he ih =>
    have : toMat n C = (toMat n B).submatrix (Equiv.swap (⟨r1, hr1⟩ : Fin n) ⟨r2, hr2⟩) id := by
      ext i j
      show C i j = B (Equiv.swap (⟨r1, hr1⟩ : Fin n) ⟨r2, hr2⟩ i : Fin n) j
      rw [he i j i.2 (lt_of_lt_of_le j.2 hn), Equiv.swap_apply_def]
      by_cases h1 : (i : Nat) = r1
      · have h1' : i = ⟨r1, hr1⟩ := Fin.ext h1
        rw [if_pos h1, if_pos h1']
      · have h1' : i ≠ ⟨r1, hr1⟩ := fun e => h1 (congrArg Fin.val e)
        rw [if_neg h1, if_neg h1']
        by_cases h2 : (i : Nat) = r2
        · have h2' : i = ⟨r2, hr2⟩ := Fin.ext h2
          rw [if_pos h2, if_pos h2']
        · have h2' : i ≠ ⟨r2, hr2⟩ := fun e => h2 (congrArg Fin.val e)
          rw [if_neg h2, if_neg h2']
    rw [this, Matrix.det_permute]
    rw [← ih]
    constructor
    · intro h
      rcases mul_eq_zero.mp h with h | h
      · exfalso
        rcases Int.units_eq_one_or (Equiv.Perm.sign (Equiv.swap (⟨r1, hr1⟩ : Fin n) ⟨r2, hr2⟩))
          with e | e <;> rw [e] at h <;> simp at h
      · exact h
    · intro h; rw [h, mul_zero]
  | scale B C rb p _ hr hp he ih =>
    have : toMat n C = Matrix.updateRow (toMat n B) ⟨rb, hr⟩ (p⁻¹ • toMat n B ⟨rb, hr⟩) := by
      ext i j
      rw [Matrix.updateRow_apply]
      show C i j = _
      rw [he i j i.2 (lt_of_lt_of_le j.2 hn)]
      by_cases h : (i : Nat) = rb
      · have h' : i = ⟨rb, hr⟩ := Fin.ext h
        rw [if_pos h, if_pos h']
        show B rb j / p = p⁻¹ * B rb j
        ring
      · have h' : i ≠ ⟨rb, hr⟩ := fun e => h (congrArg Fin.val e)
        rw [if_neg h, if_neg h']; rfl
    rw [this, Matrix.det_updateRow_smul, Matrix.updateRow_eq_self, ← ih]
    constructor
    · intro h
      rcases mul_eq_zero.mp h with h | h
      · exact absurd h (inv_ne_zero hp)
      · exact h
    · intro h; rw [h, mul_zero]

/-- determinant of the triangular form = product of the pivots -/
theorem det_of_lowerZero {n : Nat} (M : Nat → Nat → K) (h : LowerZero n M n) :
    (toMat n M).det = ∏ i : Fin n, M i i := by
  apply Matrix.det_of_isUpperTriangular
  intro i j hij
  exact h i j i.2 j.2 hij

/-- with `det A ≠ 0` every pivot of the triangular form is non-zero, the last included -/
theorem forward_pivots_ne_zero {n nb : Nat} (tol : K) (htol : 0 < tol) (m m1 : Array K)
    (hsz : n*(n+nb) ≤ m.size) (hf : forward tol n nb m = some m1)
    (hdet : (toMat n (get2 (n+nb) m)).det ≠ 0) :
    ∀ i, i < n → get2 (n+nb) m1 i i ≠ 0 := by
  have h := forward_spec tol htol m hsz
  rw [hf] at h
  have h1 : (toMat n (get2 (n+nb) m1)).det ≠ 0 :=
    fun e => hdet ((h.ops.det_zero_iff (by omega)).mp e)
  rw [det_of_lowerZero _ h.lz] at h1
  intro i hi
  exact (Finset.prod_ne_zero_iff.mp h1) ⟨i, hi⟩ (Finset.mem_univ _)

theorem lastPivotNonzero_of_det {n nb : Nat} (tol : K) (htol : 0 < tol) (m : Array K)
    (hsz : n*(n+nb) ≤ m.size) (hdet : (toMat n (get2 (n+nb) m)).det ≠ 0) :
    LastPivotNonzero tol m n nb :=
  fun m1 hf hn => forward_pivots_ne_zero tol htol m m1 hsz hf hdet (n-1) (by omega)

end PysphVerif.GaussJordan
