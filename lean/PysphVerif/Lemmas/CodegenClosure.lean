import PysphVerif.Model.Codegen
import PysphVerif.Lemmas.CodegenSort
/-!
C02 — `Group._setup_precomputed` (model: `Model/Codegen.lean`, section 3):
the `while not done` loop computes the least set of table keys that contains
the arguments which are keys and is closed under "the code block mentions a
key"; the fuel `len(table) + 1` of the model suffices.  Consequently
`sort_precomputed` never meets a `KeyError` on it, and on an acyclic table it
terminates (`setupPrecomputed_ok`).  Core Lean only.
-/
namespace PysphVerif.Codegen

variable {ν : Type} [DecidableEq ν]

/-- S is closed under "mentions a table key" -/
def ClosedUnder (t : Table ν) (S : ν → Prop) : Prop :=
  ∀ x, S x → ∀ d ∈ t.syms x, t.has d = true → S d

/-! ## `eraseDups` -/

theorem nodup_eraseDups : ∀ (l : List ν), l.eraseDups.Nodup
  | [] => by simp
  | a :: as => by
    rw [List.eraseDups_cons, List.nodup_cons]
    have : (as.filter (fun b => !b == a)).length < as.length + 1 :=
      Nat.lt_succ_of_le (List.length_filter_le _ _)
    refine ⟨?_, nodup_eraseDups _⟩
    rw [List.mem_eraseDups, List.mem_filter]
    simp
termination_by l => l.length

/-! ## one round -/

theorem mem_newSyms (t : Table ν) (pre found : List ν) (x : ν) :
    x ∈ newSyms t pre found ↔ (∃ f ∈ found, x ∈ t.syms f) ∧ t.has x = true ∧ x ∉ pre := by
  simp only [newSyms, List.mem_eraseDups, List.mem_filter, List.mem_flatMap, Bool.and_eq_true,
    Bool.not_eq_true', List.contains_eq_mem, decide_eq_false_iff_not]

theorem newSyms_nodup (t : Table ν) (pre found : List ν) : (newSyms t pre found).Nodup :=
  nodup_eraseDups _

/-! ## the fuel measure: table keys not yet in `pre` -/

/-- number of table keys not yet in `pre` -/
def mu (t : Table ν) (pre : List ν) : Nat :=
  ((t.map (·.1)).filter (fun k => !pre.contains k)).length

omit [DecidableEq ν] in
theorem filter_length_le_of_imp (l : List ν) (p q : ν → Bool)
    (hpq : ∀ x, q x = true → p x = true) : (l.filter q).length ≤ (l.filter p).length := by
  induction l with
  | nil => simp
  | cons b bs ihb =>
    simp only [List.filter_cons]
    cases hqb : q b
    · cases hpb : p b <;> simp <;> omega
    · simp [hpq b hqb]; omega

omit [DecidableEq ν] in
theorem filter_length_lt (l : List ν) (p q : ν → Bool) (hpq : ∀ x, q x = true → p x = true)
    (x : ν) (hx : x ∈ l) (hp : p x = true) (hq : q x = false) :
    (l.filter q).length < (l.filter p).length := by
  induction l with
  | nil => cases hx
  | cons a as ih =>
    have hle := filter_length_le_of_imp as p q hpq
    rcases List.mem_cons.mp hx with rfl | hx'
    · simp only [List.filter_cons, hp, hq, if_true]
      simp only [Bool.false_eq_true, if_false, List.length_cons]
      omega
    · have := ih hx'
      simp only [List.filter_cons]
      cases hqa : q a
      · cases hpa : p a <;> simp <;> omega
      · simp [hpq a hqa]; omega

theorem mu_lt (t : Table ν) (pre new : List ν) (x : ν) (hx : x ∈ new)
    (hk : t.has x = true) (hnp : x ∉ pre) : mu t (pre ++ new) < mu t pre := by
  unfold mu
  apply filter_length_lt _ _ _ _ x ((Table.has_iff t x).mp hk)
  · simp [hnp]
  · simp [hx]
  · intro y hy
    simp only [Bool.not_eq_true', List.contains_eq_mem, decide_eq_false_iff_not,
      List.mem_append, not_or] at hy ⊢
    exact hy.1

theorem mu_le (t : Table ν) (pre : List ν) : mu t pre ≤ t.length := by
  unfold mu
  exact Nat.le_trans (List.length_filter_le _ _) (by simp)

/-! ## properties of the loop that hold for any fuel -/

theorem closureLoop_pre_sub (t : Table ν) : ∀ (fuel : Nat) (pre found : List ν),
    ∀ s ∈ pre, s ∈ closureLoop t fuel pre found
  | 0, _, _, _, hs => hs
  | fuel + 1, pre, found, s, hs => by
    simp only [closureLoop]
    split
    · exact hs
    · exact closureLoop_pre_sub t fuel _ _ s (List.mem_append_left _ hs)

theorem closureLoop_nodup (t : Table ν) : ∀ (fuel : Nat) (pre found : List ν),
    pre.Nodup → (closureLoop t fuel pre found).Nodup
  | 0, _, _, h => h
  | fuel + 1, pre, found, h => by
    simp only [closureLoop]
    split
    · exact h
    · apply closureLoop_nodup t fuel
      rw [List.nodup_append]
      refine ⟨h, newSyms_nodup t pre found, ?_⟩
      intro a ha b hb hab
      subst hab
      exact ((mem_newSyms t pre found a).mp hb).2.2 ha

theorem closureLoop_keys (t : Table ν) : ∀ (fuel : Nat) (pre found : List ν),
    (∀ s ∈ pre, t.has s = true) → ∀ s ∈ closureLoop t fuel pre found, t.has s = true
  | 0, _, _, h => h
  | fuel + 1, pre, found, h => by
    simp only [closureLoop]
    split
    · exact h
    · apply closureLoop_keys t fuel
      intro s hs
      rcases List.mem_append.mp hs with hs | hs
      · exact h s hs
      · exact ((mem_newSyms t pre found s).mp hs).2.1

theorem closureLoop_sound (t : Table ν) (S : ν → Prop) (hS : ClosedUnder t S) :
    ∀ (fuel : Nat) (pre found : List ν), (∀ s ∈ pre, S s) → (∀ s ∈ found, s ∈ pre) →
      ∀ s ∈ closureLoop t fuel pre found, S s
  | 0, _, _, h, _ => h
  | fuel + 1, pre, found, h, hsub => by
    simp only [closureLoop]
    split
    · exact h
    · apply closureLoop_sound t S hS fuel
      · intro s hs
        rcases List.mem_append.mp hs with hs | hs
        · exact h s hs
        · obtain ⟨⟨f, hf, hsf⟩, hk, _⟩ := (mem_newSyms t pre found s).mp hs
          exact hS f (h f (hsub f hf)) s hsf hk
      · intro s hs
        exact List.mem_append_right _ hs

/-! ## the fuel suffices -/

/-- loop invariant of `_setup_precomputed`: everything in `pre` but not in
`found` has been expanded already -/
structure ClosInv (t : Table ν) (pre found : List ν) : Prop where
  sub : ∀ s ∈ found, s ∈ pre
  closed : ∀ s ∈ pre, s ∉ found → ∀ s' ∈ t.syms s, t.has s' = true → s' ∈ pre

theorem closureLoop_closed (t : Table ν) : ∀ (fuel : Nat) (pre found : List ν),
    ClosInv t pre found → mu t pre < fuel →
      ∀ s ∈ closureLoop t fuel pre found, ∀ s' ∈ t.syms s, t.has s' = true →
        s' ∈ closureLoop t fuel pre found
  | 0, _, _, _, hf => by omega
  | fuel + 1, pre, found, hinv, hf => by
    simp only [closureLoop]
    by_cases hnew : (newSyms t pre found).isEmpty = true
    · simp only [hnew, if_true]
      intro s hs s' hs' hk
      by_cases hsf : s ∈ found
      · by_cases hp : s' ∈ pre
        · exact hp
        · have : s' ∈ newSyms t pre found :=
            (mem_newSyms t pre found s').mpr ⟨⟨s, hsf, hs'⟩, hk, hp⟩
          rw [List.isEmpty_iff.mp hnew] at this
          cases this
      · exact hinv.closed s hs hsf s' hs' hk
    · simp only [hnew, Bool.false_eq_true, if_false]
      have hne : newSyms t pre found ≠ [] := fun h => hnew (by simp [h])
      obtain ⟨x, hx⟩ := List.exists_mem_of_ne_nil _ hne
      have hx' := (mem_newSyms t pre found x).mp hx
      have hinv' : ClosInv t (pre ++ newSyms t pre found) (newSyms t pre found) := by
        refine ⟨?_, ?_⟩
        · intro s hs
          exact List.mem_append_right _ hs
        · intro s hs hsn s' hs' hk
          rcases List.mem_append.mp hs with h | h
          · by_cases hsf : s ∈ found
            · by_cases hp : s' ∈ pre
              · exact List.mem_append_left _ hp
              · exact List.mem_append_right _
                  ((mem_newSyms t pre found s').mpr ⟨⟨s, hsf, hs'⟩, hk, hp⟩)
            · exact List.mem_append_left _ (hinv.closed s h hsf s' hs' hk)
          · exact absurd h hsn
      have hf' : mu t (pre ++ newSyms t pre found) < fuel := by
        have := mu_lt t pre (newSyms t pre found) x hx hx'.2.1 hx'.2.2
        omega
      exact closureLoop_closed t fuel _ _ hinv' hf'

/-! ## `closure` -/

theorem mem_p0 (t : Table ν) (args : List ν) (x : ν) :
    x ∈ (args.filter (fun s => t.has s)).eraseDups ↔ x ∈ args ∧ t.has x = true := by
  simp only [List.mem_eraseDups, List.mem_filter]

theorem closure_contains_args (t : Table ν) (args : List ν) :
    ∀ s ∈ args, t.has s = true → s ∈ closure t args := by
  intro s hs hk
  unfold closure
  exact closureLoop_pre_sub t _ _ _ s ((mem_p0 t args s).mpr ⟨hs, hk⟩)

theorem closure_closed (t : Table ν) (args : List ν) : ClosedUnder t (· ∈ closure t args) := by
  intro x hx d hd hk
  unfold closure at hx ⊢
  exact closureLoop_closed t (t.length + 1) _ _
    ⟨fun s hs => hs, fun s hs hns => absurd hs hns⟩ (Nat.lt_succ_of_le (mu_le t _)) x hx d hd hk

theorem closure_minimal (t : Table ν) (args : List ν) (S : ν → Prop) (hS : ClosedUnder t S)
    (h0 : ∀ s ∈ args, t.has s = true → S s) : ∀ x ∈ closure t args, S x := by
  intro x hx
  unfold closure at hx
  refine closureLoop_sound t S hS _ _ _ ?_ (fun s hs => hs) x hx
  intro s hs
  obtain ⟨h1, h2⟩ := (mem_p0 t args s).mp hs
  exact h0 s h1 h2

theorem closure_nodup (t : Table ν) (args : List ν) : (closure t args).Nodup := by
  unfold closure
  exact closureLoop_nodup t _ _ _ (nodup_eraseDups _)

theorem closure_keys (t : Table ν) (args : List ν) : ∀ x ∈ closure t args, t.has x = true := by
  intro x hx
  unfold closure at hx
  exact closureLoop_keys t _ _ _ (fun s hs => ((mem_p0 t args s).mp hs).2) x hx

theorem closure_depsClosed (t : Table ν) (args : List ν) :
    depsClosed t (closure t args) = true := by
  rw [depsClosed_iff]
  intro k hk d hd
  obtain ⟨h1, h2, _⟩ := mem_depends.mp hd
  exact closure_closed t args k hk d h1 h2

/-- `_setup_precomputed` never raises KeyError, and on an acyclic table it terminates -/
theorem setupPrecomputed_ok (le : ν → ν → Bool) (t : Table ν) (args : List ν)
    (ha : Acyclic t (t.map (·.1))) : ∃ out, setupPrecomputed le t args = .ok out := by
  unfold setupPrecomputed
  exact sortPrecomputed_terminates le t (closure t args) (closure_nodup t args)
    (closure_depsClosed t args)
    (ha.mono (fun x hx => (Table.has_iff t x).mp (closure_keys t args x hx)))

end PysphVerif.Codegen
