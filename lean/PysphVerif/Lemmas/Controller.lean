import PysphVerif.Model.Controller
/-!
Helper lemmas for C18: reachability, and the inductive invariant behind
"every queued command is executed exactly once and its result is delivered".
All of it holds for every protocol variant `cfg`, every program of every
interface thread (any number of them) and every schedule.
-/
namespace PysphVerif.Controller

/-- states reachable from the initial state under some schedule -/
inductive Reachable (cfg : Cfg) (progs : Tid → List Op) : State → Prop
  | init : Reachable cfg progs (init progs)
  | step {s s' : State} {t : Tid} {evs : List Ev} :
      Reachable cfg progs s → step cfg s t = some (s', evs) → Reachable cfg progs s'

def execIds (s : State) : List Nat := s.execLog.map (·.1)

/-- the command the solver has popped but not yet run -/
def inflight (s : State) : List Nat :=
  match s.spc with
  | SPc.runAcqRes _ id _ => [id]
  | _ => []

/-- the task id a dispatching thread has allocated but not yet appended -/
def pendingId : IPc → Option Nat
  | IPc.qAcqC _ id => some id
  | IPc.qAcqQ _ id => some id
  | _ => none

/-- the task whose per-command lock a `get_result` call holds -/
def holding : IPc → Option Nat
  | IPc.rAcqRes k => some k
  | IPc.rRelRes k _ => some k
  | IPc.rRelC k _ => some k
  | _ => none

def wantsResult : IPc → Option Nat
  | IPc.rAcqC k => some k
  | _ => none

structure Inv (s : State) : Prop where
  fifo : s.queuedLog = execIds s ++ inflight s ++ s.queue
  nodup : s.queuedLog.Nodup
  bound : ∀ id ∈ s.queuedLog, id < s.nextId
  pend : ∀ t id, pendingId (s.th t).pc = some id → id < s.nextId ∧ id ∉ s.queuedLog
  pendDistinct : ∀ t t' id, t ≠ t' → pendingId (s.th t).pc = some id →
      pendingId (s.th t').pc ≠ some id
  res : ∀ k v, ((k, v) ∈ s.results ∨ (k, v) ∈ s.delivered) → ∃ n, (k, n, v) ∈ s.execLog
  resNodup : (s.results.map (·.1) ++ s.delivered.map (·.1)).Nodup
  locked : ∀ k ∈ s.queuedLog, k ∈ s.cLocked ∨ k ∈ execIds s
  pendLocked : ∀ t c id, (s.th t).pc = IPc.qAcqQ c id → id ∈ s.cLocked
  lockmapQueued : ∀ k ∈ s.lockmap, k ∈ s.queuedLog
  wants : ∀ t k, wantsResult (s.th t).pc = some k → k ∈ s.queuedLog
  holds : ∀ t k, holding (s.th t).pc = some k → k ∈ execIds s
  relc : ∀ ctx id, s.spc = SPc.runRelC ctx id → id ∈ execIds s

theorem inv_init (progs : Tid → List Op) : Inv (init progs) := by
  constructor <;> simp [init, execIds, inflight, pendingId, holding, wantsResult]

/-! field lemmas for the helper functions -/

@[simp] theorem setPc_th_same (s : State) (t : Tid) (pc : IPc) :
    ((setPc s t pc).th t).pc = pc := by simp [setPc]

theorem setPc_th_other (s : State) (t j : Tid) (pc : IPc) (h : j ≠ t) :
    (setPc s t pc).th j = s.th j := by simp [setPc, h]

theorem checkPause_spc (s : State) :
    (checkPause s).spc = SPc.relQ2 ∨ (checkPause s).spc = SPc.acqP := by
  unfold checkPause; split <;> simp

theorem checkPause_eq (s : State) : ∃ pc, (pc = SPc.relQ2 ∨ pc = SPc.acqP) ∧
    checkPause s = { s with spc := pc } := by
  unfold checkPause; split
  · exact ⟨_, Or.inl rfl, rfl⟩
  · exact ⟨_, Or.inr rfl, rfl⟩

theorem afterRun_eq (cfg : Cfg) (ctx : Ctx) (s : State) :
    ∃ pc, (pc = SPc.relQ1 ∨ pc = SPc.waitQ ∨ pc = SPc.relQ2 ∨ pc = SPc.acqP) ∧
      afterRun cfg ctx s = { s with spc := pc } := by
  unfold afterRun
  cases ctx with
  | first => exact ⟨_, Or.inl rfl, rfl⟩
  | loop =>
    simp only
    split
    · exact ⟨_, Or.inr (Or.inl rfl), rfl⟩
    · obtain ⟨pc, h, e⟩ := checkPause_eq s
      exact ⟨pc, by rcases h with h | h <;> simp [h], e⟩

/-- `run_queued_commands` either pops the head of the queue (which becomes the
in-flight command), or leaves the queue alone and moves on -/
theorem runQueue_eq (cfg : Cfg) (ctx : Ctx) (s : State) :
    (∃ id rest c, s.queue = id :: rest ∧
        runQueue cfg ctx s = { s with queue := rest, spc := SPc.runAcqRes ctx id c }) ∨
    (∃ pc, (pc = SPc.relQ1 ∨ pc = SPc.waitQ ∨ pc = SPc.relQ2 ∨ pc = SPc.acqP ∨ pc = SPc.crashed) ∧
        runQueue cfg ctx s = { s with spc := pc }) := by
  unfold runQueue
  split
  · obtain ⟨pc, h, e⟩ := afterRun_eq cfg ctx s
    right; exact ⟨pc, by rcases h with h | h | h | h <;> simp [h], e⟩
  · rename_i id rest hq
    split
    · left; exact ⟨id, rest, _, hq, rfl⟩
    · right; exact ⟨_, by simp, rfl⟩


/-- changes that touch none of the history-relevant fields -/
theorem Inv.congr {s s' : State} (h : Inv s)
    (e1 : s'.queuedLog = s.queuedLog) (e2 : s'.execLog = s.execLog)
    (e3 : inflight s' ++ s'.queue = inflight s ++ s.queue)
    (e4 : s'.nextId = s.nextId) (e5 : s'.th = s.th) (e6 : s'.results = s.results)
    (e7 : s'.delivered = s.delivered) (e8 : s'.cLocked = s.cLocked)
    (e9 : s'.lockmap = s.lockmap)
    (e10 : ∀ ctx id, s'.spc = SPc.runRelC ctx id → id ∈ execIds s) : Inv s' := by
  have hx : execIds s' = execIds s := by simp [execIds, e2]
  constructor
  · rw [e1, hx, List.append_assoc, e3, ← List.append_assoc]; exact h.fifo
  · rw [e1]; exact h.nodup
  · rw [e1, e4]; exact h.bound
  · rw [e1, e4, e5]; exact h.pend
  · rw [e5]; exact h.pendDistinct
  · rw [e6, e7, e2]; exact h.res
  · rw [e6, e7]; exact h.resNodup
  · rw [e1, e8, hx]; exact h.locked
  · rw [e5, e8]; exact h.pendLocked
  · rw [e9, e1]; exact h.lockmapQueued
  · rw [e5, e1]; exact h.wants
  · rw [e5, hx]; exact h.holds
  · rw [hx]; exact e10

theorem inv_runQueue {s : State} (cfg : Cfg) (ctx : Ctx) (h : Inv s)
    (hin : inflight s = []) :
    Inv (runQueue cfg ctx s) := by
  rcases runQueue_eq cfg ctx s with ⟨id, rest, c, hq, e⟩ | ⟨pc, hpc, e⟩
  · rw [e]; apply h.congr <;> simp [inflight, hin, hq]
  · rw [e]; apply h.congr <;> try simp [inflight, hin]
    · rcases hpc with h | h | h | h | h <;> simp [h]
    · rcases hpc with h | h | h | h | h <;> simp [h]

end PysphVerif.Controller
