import PysphVerif.Model.Controller
/-!
Helper lemmas for C18: reachability, and the inductive invariant behind
"every queued command is executed exactly once and its result is delivered".
All of it holds for every protocol variant `cfg`, every program of every
interface thread (any number of them) and every schedule.
-/
namespace PysphVerif.Controller

/-- states reachable from the initial state under some schedule -/
inductive Reachable (cfg : Cfg) (progs : Tid → List Op) : State → Prop
  | init : Reachable cfg progs (init progs)
  | step {s s' : State} {t : Tid} {evs : List Ev} :
      Reachable cfg progs s → step cfg s t = some (s', evs) → Reachable cfg progs s'

def execIds (s : State) : List Nat := s.execLog.map (·.1)

/-- the command the solver has popped but not yet run -/
def inflightPc : SPc → List Nat
  | SPc.runAcqRes _ id _ => [id]
  | _ => []

@[simp] theorem inflightPc_run (ctx : Ctx) (id : Nat) (c : Cmd) :
    inflightPc (SPc.runAcqRes ctx id c) = [id] := rfl
@[simp] theorem inflightPc_start : inflightPc SPc.start = [] := rfl
@[simp] theorem inflightPc_acqQ1 : inflightPc SPc.acqQ1 = [] := rfl
@[simp] theorem inflightPc_relQ1 : inflightPc SPc.relQ1 = [] := rfl
@[simp] theorem inflightPc_acqQ2 : inflightPc SPc.acqQ2 = [] := rfl
@[simp] theorem inflightPc_acqP : inflightPc SPc.acqP = [] := rfl
@[simp] theorem inflightPc_ntaP : inflightPc SPc.ntaP = [] := rfl
@[simp] theorem inflightPc_relP : inflightPc SPc.relP = [] := rfl
@[simp] theorem inflightPc_waitQ : inflightPc SPc.waitQ = [] := rfl
@[simp] theorem inflightPc_blocked : inflightPc SPc.blocked = [] := rfl
@[simp] theorem inflightPc_reacqQ : inflightPc SPc.reacqQ = [] := rfl
@[simp] theorem inflightPc_relQ2 : inflightPc SPc.relQ2 = [] := rfl
@[simp] theorem inflightPc_crashed : inflightPc SPc.crashed = [] := rfl
@[simp] theorem inflightPc_runRelC (ctx : Ctx) (id : Nat) : inflightPc (SPc.runRelC ctx id) = [] := rfl
@[simp] theorem inflightPc_runRelRes (ctx : Ctx) : inflightPc (SPc.runRelRes ctx) = [] := rfl

def inflight (s : State) : List Nat := inflightPc s.spc

/-- the task id a dispatching thread has allocated but not yet appended -/
def pendingId : IPc → Option Nat
  | IPc.qAcqC _ id => some id
  | IPc.qAcqQ _ id => some id
  | _ => none

/-- the task whose per-command lock a `get_result` call holds -/
def holding : IPc → Option Nat
  | IPc.rAcqRes k => some k
  | IPc.rRelRes k _ => some k
  | IPc.rRelC k _ => some k
  | _ => none

def wantsResult : IPc → Option Nat
  | IPc.rAcqC k => some k
  | _ => none

structure Inv (s : State) : Prop where
  fifo : s.queuedLog = execIds s ++ inflight s ++ s.queue
  nodup : s.queuedLog.Nodup
  bound : ∀ id ∈ s.queuedLog, id < s.nextId
  pend : ∀ t id, pendingId (s.th t).pc = some id → id < s.nextId ∧ id ∉ s.queuedLog
  pendDistinct : ∀ t t' id, t ≠ t' → pendingId (s.th t).pc = some id →
      pendingId (s.th t').pc ≠ some id
  res : ∀ k v, ((k, v) ∈ s.results ∨ (k, v) ∈ s.delivered) → ∃ n, (k, n, v) ∈ s.execLog
  resNodup : (s.results.map (·.1) ++ s.delivered.map (·.1)).Nodup
  locked : ∀ k ∈ s.queuedLog, k ∈ s.cLocked ∨ k ∈ execIds s
  pendLocked : ∀ t c id, (s.th t).pc = IPc.qAcqQ c id → id ∈ s.cLocked
  lockmapQueued : ∀ k ∈ s.lockmap, k ∈ s.queuedLog
  wants : ∀ t k, wantsResult (s.th t).pc = some k → k ∈ s.queuedLog
  holds : ∀ t k, holding (s.th t).pc = some k → k ∈ execIds s
  relc : ∀ ctx id, s.spc = SPc.runRelC ctx id → id ∈ execIds s

theorem inv_init (progs : Tid → List Op) : Inv (init progs) := by
  constructor <;> simp [init, execIds, inflight, pendingId, holding, wantsResult]

/-! field lemmas for the helper functions -/

@[simp] theorem setPc_th_same (s : State) (t : Tid) (pc : IPc) :
    ((setPc s t pc).th t).pc = pc := by simp [setPc]

theorem setPc_th_other (s : State) (t j : Tid) (pc : IPc) (h : j ≠ t) :
    (setPc s t pc).th j = s.th j := by simp [setPc, h]

theorem checkPause_spc (s : State) :
    (checkPause s).spc = SPc.relQ2 ∨ (checkPause s).spc = SPc.acqP := by
  unfold checkPause; split <;> simp

theorem checkPause_eq (s : State) : ∃ pc, (pc = SPc.relQ2 ∨ pc = SPc.acqP) ∧
    checkPause s = { s with spc := pc } := by
  unfold checkPause; split
  · exact ⟨_, Or.inl rfl, rfl⟩
  · exact ⟨_, Or.inr rfl, rfl⟩

theorem afterRun_eq (cfg : Cfg) (ctx : Ctx) (s : State) :
    ∃ pc, (pc = SPc.relQ1 ∨ pc = SPc.waitQ ∨ pc = SPc.relQ2 ∨ pc = SPc.acqP) ∧
      afterRun cfg ctx s = { s with spc := pc } := by
  unfold afterRun
  cases ctx with
  | first => exact ⟨_, Or.inl rfl, rfl⟩
  | loop =>
    simp only
    split
    · exact ⟨_, Or.inr (Or.inl rfl), rfl⟩
    · obtain ⟨pc, h, e⟩ := checkPause_eq s
      exact ⟨pc, by rcases h with h | h <;> simp [h], e⟩

/-- `run_queued_commands` either pops the head of the queue (which becomes the
in-flight command), or leaves the queue alone and moves on -/
theorem runQueue_eq (cfg : Cfg) (ctx : Ctx) (s : State) :
    (∃ id rest c, s.queue = id :: rest ∧
        runQueue cfg ctx s = { s with queue := rest, spc := SPc.runAcqRes ctx id c }) ∨
    (∃ pc, (pc = SPc.relQ1 ∨ pc = SPc.waitQ ∨ pc = SPc.relQ2 ∨ pc = SPc.acqP ∨ pc = SPc.crashed) ∧
        runQueue cfg ctx s = { s with spc := pc }) := by
  unfold runQueue
  split
  · obtain ⟨pc, h, e⟩ := afterRun_eq cfg ctx s
    right; exact ⟨pc, by rcases h with h | h | h | h <;> simp [h], e⟩
  · rename_i id rest hq
    split
    · left; exact ⟨id, rest, _, hq, rfl⟩
    · right; exact ⟨_, by simp, rfl⟩


/-- what a thread's new program counter must satisfy for the invariant to carry over -/
structure PcOk (s s' : State) (old new : IPc) : Prop where
  pend : ∀ id, pendingId new = some id → pendingId old = some id
  plocked : ∀ c id, new = IPc.qAcqQ c id → id ∈ s'.cLocked
  wants : ∀ k, wantsResult new = some k → k ∈ s.queuedLog
  holds : ∀ k, holding new = some k → k ∈ execIds s

/-- a program counter that carries no task id -/
def Quiet (pc : IPc) : Prop := pendingId pc = none ∧ holding pc = none ∧ wantsResult pc = none

theorem PcOk.of_quiet {s s' : State} {old new : IPc} (q : Quiet new) : PcOk s s' old new := by
  obtain ⟨q1, q2, q3⟩ := q
  constructor
  · intro id h; rw [q1] at h; cases h
  · intro c id h; subst h; cases q1
  · intro k h; rw [q3] at h; cases h
  · intro k h; rw [q2] at h; cases h

/-- changes that touch neither the logs, the results nor the id counter -/
theorem Inv.congr {s s' : State} (h : Inv s)
    (e1 : s'.queuedLog = s.queuedLog) (e2 : s'.execLog = s.execLog)
    (e3 : inflight s' ++ s'.queue = inflight s ++ s.queue)
    (e4 : s'.nextId = s.nextId)
    (e5 : ∀ j, (s'.th j).pc = (s.th j).pc ∨ PcOk s s' (s.th j).pc (s'.th j).pc)
    (e6 : s'.results = s.results)
    (e7 : s'.delivered = s.delivered)
    (e8a : ∀ k ∈ s.queuedLog, k ∈ s.cLocked → k ∈ s'.cLocked ∨ k ∈ execIds s)
    (e8b : ∀ k ∈ s.cLocked, k ∉ s.queuedLog → k ∈ s'.cLocked)
    (e9 : ∀ k ∈ s'.lockmap, k ∈ s.lockmap)
    (e10 : ∀ ctx id, s'.spc = SPc.runRelC ctx id → id ∈ execIds s) : Inv s' := by
  have hx : execIds s' = execIds s := by simp [execIds, e2]
  have hp : ∀ j id, pendingId (s'.th j).pc = some id → pendingId (s.th j).pc = some id := by
    intro j id hj
    rcases e5 j with e | q
    · rw [← e]; exact hj
    · exact q.pend id hj
  constructor
  · rw [e1, hx, List.append_assoc, e3, ← List.append_assoc]; exact h.fifo
  · rw [e1]; exact h.nodup
  · rw [e1, e4]; exact h.bound
  · intro t id ht; rw [e1, e4]; exact h.pend t id (hp t id ht)
  · intro t t' id hne ht ht'
    exact h.pendDistinct t t' id hne (hp t id ht) (hp t' id ht')
  · rw [e6, e7, e2]; exact h.res
  · rw [e6, e7]; exact h.resNodup
  · intro k hk; rw [e1] at hk; rw [hx]
    rcases h.locked k hk with hl | hl
    · exact e8a k hk hl
    · exact Or.inr hl
  · intro t c id ht
    rcases e5 t with e | q
    · have ht' : (s.th t).pc = IPc.qAcqQ c id := e ▸ ht
      exact e8b id (h.pendLocked t c id ht') (h.pend t id (by rw [ht']; rfl)).2
    · exact q.plocked c id ht
  · intro k hk; rw [e1]; exact h.lockmapQueued k (e9 k hk)
  · intro t k ht; rw [e1]
    rcases e5 t with e | q
    · exact h.wants t k (e ▸ ht)
    · exact q.wants k ht
  · intro t k ht; rw [hx]
    rcases e5 t with e | q
    · exact h.holds t k (e ▸ ht)
    · exact q.holds k ht
  · rw [hx]; exact e10

theorem setPc_ok (s0 s s' : State) (t : Tid) (pc : IPc) (hth : s0.th = s.th)
    (hs' : s'.th = (setPc s0 t pc).th)
    (hq : PcOk s s' (s.th t).pc pc) :
    ∀ j, (s'.th j).pc = (s.th j).pc ∨ PcOk s s' (s.th j).pc (s'.th j).pc := by
  intro j
  rw [hs']
  by_cases hj : j = t
  · right; subst hj; simpa using hq
  · left; rw [setPc_th_other _ _ _ _ hj, hth]

/-- the same, with the set of held per-command locks unchanged or grown -/
theorem Inv.congr' {s s' : State} (h : Inv s)
    (e1 : s'.queuedLog = s.queuedLog) (e2 : s'.execLog = s.execLog)
    (e3 : inflight s' ++ s'.queue = inflight s ++ s.queue)
    (e4 : s'.nextId = s.nextId)
    (e5 : ∀ j, (s'.th j).pc = (s.th j).pc ∨ PcOk s s' (s.th j).pc (s'.th j).pc)
    (e6 : s'.results = s.results)
    (e7 : s'.delivered = s.delivered)
    (e8 : ∀ k ∈ s.cLocked, k ∈ s'.cLocked)
    (e9 : ∀ k ∈ s'.lockmap, k ∈ s.lockmap)
    (e10 : ∀ ctx id, s'.spc = SPc.runRelC ctx id → id ∈ execIds s) : Inv s' :=
  h.congr e1 e2 e3 e4 e5 e6 e7 (fun k _ hk => Or.inl (e8 k hk)) (fun k hk _ => e8 k hk) e9 e10

theorem inv_runQueue {s : State} (cfg : Cfg) (ctx : Ctx) (h : Inv s)
    (hin : inflight s = []) :
    Inv (runQueue cfg ctx s) := by
  rcases runQueue_eq cfg ctx s with ⟨id, rest, c, hq, e⟩ | ⟨pc, hpc, e⟩
  · rw [e]; simp only [inflight] at hin
    apply h.congr' <;> simp [inflight, hin, hq]
  · rw [e]; simp only [inflight] at hin
    apply h.congr' <;> try simp [inflight, hin]
    · rcases hpc with h | h | h | h | h <;> simp [h]
    · rcases hpc with h | h | h | h | h <;> simp [h]

theorem mem_execIds {s : State} {k : Nat} : k ∈ execIds s ↔ ∃ n v, (k, n, v) ∈ s.execLog := by
  simp [execIds]

theorem wakeAllP_quiet (s s' : State) :
    ∀ j, ((wakeAllP s).th j).pc = (s.th j).pc ∨
      PcOk s s' (s.th j).pc ((wakeAllP s).th j).pc := by
  intro j
  simp only [wakeAllP]
  by_cases hj : j ∈ s.pWait
  · right; apply PcOk.of_quiet; simp [hj, Quiet, pendingId, holding, wantsResult]
  · left; simp [hj]

theorem inv_stepSolver {cfg : Cfg} {s s' : State} {evs : List Ev} (h : Inv s)
    (hs : stepSolver cfg s = some (s', evs)) : Inv s' := by
  unfold stepSolver at hs
  split at hs
  · -- start
    rename_i hspc
    simp only [Option.some.injEq, Prod.mk.injEq] at hs
    obtain ⟨rfl, -⟩ := hs
    apply h.congr' <;> simp [inflight, hspc]
  · -- acqQ1
    rename_i hspc
    split at hs
    · simp only [Option.some.injEq, Prod.mk.injEq] at hs
      obtain ⟨rfl, -⟩ := hs
      apply inv_runQueue
      · apply h.congr' <;> simp [inflight, hspc]
      · simp [inflight, hspc]
    · cases hs
  · -- runAcqRes: the command is executed
    rename_i ctx id c hspc
    split at hs
    · simp only [Option.some.injEq, Prod.mk.injEq] at hs
      obtain ⟨rfl, -⟩ := hs
      have hf := h.fifo
      simp only [inflight, hspc, inflightPc_run] at hf
      have hnd := h.nodup
      rw [hf] at hnd
      have hid : id ∉ execIds s := by
        intro hmem
        have := List.nodup_append.mp (List.nodup_append.mp hnd).1
        exact this.2.2 id hmem id (by simp) rfl
      have hidq : id ∈ s.queuedLog := by rw [hf]; simp
      constructor
      · simp [execIds, inflight] at hf ⊢; simpa [execIds] using hf
      · exact h.nodup
      · exact h.bound
      · exact h.pend
      · exact h.pendDistinct
      · intro k v hkv
        simp only [List.mem_append, List.mem_singleton, Prod.mk.injEq] at hkv ⊢
        rcases hkv with (hkv | ⟨rfl, rfl⟩) | hkv
        · obtain ⟨n, hn⟩ := h.res k v (Or.inl hkv); exact ⟨n, Or.inl hn⟩
        · exact ⟨s.count, Or.inr ⟨rfl, rfl, rfl⟩⟩
        · obtain ⟨n, hn⟩ := h.res k v (Or.inr hkv); exact ⟨n, Or.inl hn⟩
      · have hr := h.resNodup
        have hnot : id ∉ s.results.map (·.1) ++ s.delivered.map (·.1) := by
          intro hmem
          apply hid
          simp only [List.mem_append, List.mem_map] at hmem
          rcases hmem with ⟨⟨k, v⟩, hkv, rfl⟩ | ⟨⟨k, v⟩, hkv, rfl⟩
          · obtain ⟨n, hn⟩ := h.res k v (Or.inl hkv); exact mem_execIds.mpr ⟨n, v, hn⟩
          · obtain ⟨n, hn⟩ := h.res k v (Or.inr hkv); exact mem_execIds.mpr ⟨n, v, hn⟩
        simp only [List.map_append, List.map_cons, List.map_nil, List.append_assoc,
          List.singleton_append]
        have : (s.results.map (·.1) ++ id :: s.delivered.map (·.1)).Perm
            (id :: (s.results.map (·.1) ++ s.delivered.map (·.1))) := List.perm_middle
        exact this.nodup_iff.mpr (List.nodup_cons.mpr ⟨hnot, hr⟩)
      · intro k hk
        rcases h.locked k hk with hl | hl
        · exact Or.inl hl
        · right; simp [execIds] at hl ⊢; exact Or.inl hl
      · exact h.pendLocked
      · exact h.lockmapQueued
      · exact h.wants
      · intro t k ht
        have := h.holds t k ht
        simp [execIds] at this ⊢; exact Or.inl this
      · intro ctx' id' he
        simp only [SPc.runRelC.injEq] at he
        obtain ⟨-, rfl⟩ := he
        simp [execIds]
    · cases hs
  · -- runRelC: the per-command lock is released
    rename_i ctx id hspc
    split at hs
    · rename_i hc
      simp only [Option.some.injEq, Prod.mk.injEq] at hs
      obtain ⟨rfl, -⟩ := hs
      have hex : id ∈ execIds s := h.relc ctx id hspc
      have hidq : id ∈ s.queuedLog := by rw [h.fifo]; simp [hex]
      constructor
      · have := h.fifo; simpa [execIds, inflight, hspc] using this
      · exact h.nodup
      · exact h.bound
      · exact h.pend
      · exact h.pendDistinct
      · exact h.res
      · exact h.resNodup
      · intro k hk
        by_cases hkid : k = id
        · right; subst hkid; exact hex
        · rcases h.locked k hk with hl | hl
          · left; simp [hl, hkid]
          · exact Or.inr hl
      · intro t c id' ht
        have h1 := h.pendLocked t c id' ht
        have ht' : (s.th t).pc = IPc.qAcqQ c id' := ht
        have h2 := (h.pend t id' (by rw [ht']; rfl)).2
        have : id' ≠ id := by intro e; subst e; exact h2 hidq
        simp [h1, this]
      · exact h.lockmapQueued
      · exact h.wants
      · exact h.holds
      · intro ctx' id' he; cases he
    · simp only [Option.some.injEq, Prod.mk.injEq] at hs
      obtain ⟨rfl, -⟩ := hs
      apply h.congr' <;> simp [inflight, hspc]
  · -- runRelRes
    rename_i ctx hspc
    simp only [Option.some.injEq, Prod.mk.injEq] at hs
    obtain ⟨rfl, -⟩ := hs
    apply inv_runQueue
    · apply h.congr' <;> simp [inflight, hspc]
    · simp [inflight, hspc]
  · -- relQ1
    rename_i hspc
    simp only [Option.some.injEq, Prod.mk.injEq] at hs
    obtain ⟨rfl, -⟩ := hs
    apply h.congr' <;> simp [inflight, hspc]
  · -- acqQ2
    rename_i hspc
    split at hs
    · simp only [Option.some.injEq, Prod.mk.injEq] at hs
      obtain ⟨rfl, -⟩ := hs
      obtain ⟨pc, hpc, e⟩ := checkPause_eq { s with qOwner := some 0 }
      rw [e]
      apply h.congr' <;> try simp [inflight, hspc]
      · rcases hpc with h | h <;> simp [h]
      · rcases hpc with h | h <;> simp [h]
    · cases hs
  · -- acqP
    rename_i hspc
    split at hs
    · simp only [Option.some.injEq, Prod.mk.injEq] at hs
      obtain ⟨rfl, -⟩ := hs
      apply h.congr' <;> simp [inflight, hspc]
    · cases hs
  · -- ntaP
    rename_i hspc
    simp only [Option.some.injEq, Prod.mk.injEq] at hs
    obtain ⟨rfl, -⟩ := hs
    apply h.congr' <;> try simp [inflight, hspc, wakeAllP]
    exact wakeAllP_quiet s _
  · -- relP
    rename_i hspc
    simp only [Option.some.injEq, Prod.mk.injEq] at hs
    obtain ⟨rfl, -⟩ := hs
    split
    · apply inv_runQueue
      · apply h.congr' <;> simp [inflight, hspc]
      · simp [inflight, hspc]
    · apply h.congr' <;> simp [inflight, hspc]
  · -- waitQ
    rename_i hspc
    simp only [Option.some.injEq, Prod.mk.injEq] at hs
    obtain ⟨rfl, -⟩ := hs
    apply h.congr' <;> simp [inflight, hspc]
  · cases hs
  · -- reacqQ
    rename_i hspc
    split at hs
    · simp only [Option.some.injEq, Prod.mk.injEq] at hs
      obtain ⟨rfl, -⟩ := hs
      split
      · obtain ⟨pc, hpc, e⟩ := checkPause_eq { s with qOwner := some 0 }
        rw [e]
        apply h.congr' <;> try simp [inflight, hspc]
        · rcases hpc with h | h <;> simp [h]
        · rcases hpc with h | h <;> simp [h]
      · apply inv_runQueue
        · apply h.congr' <;> simp [inflight, hspc]
        · simp [inflight, hspc]
    · cases hs
  · -- relQ2
    rename_i hspc
    simp only [Option.some.injEq, Prod.mk.injEq] at hs
    obtain ⟨rfl, -⟩ := hs
    apply h.congr' <;> simp [inflight, hspc]
  · cases hs

/-! ### interface threads -/

theorem inv_setPc {s : State} (h : Inv s) (t : Tid) (pc : IPc)
    (hq : PcOk s (setPc s t pc) (s.th t).pc pc) : Inv (setPc s t pc) := by
  apply h.congr' <;> try simp [setPc, inflight]
  · exact setPc_ok s s _ t pc rfl rfl hq
  · exact h.relc

theorem inv_setPc_quiet {s : State} (h : Inv s) (t : Tid) (pc : IPc) (hq : Quiet pc) :
    Inv (setPc s t pc) := inv_setPc h t pc (PcOk.of_quiet hq)

theorem inv_wakeOneP {s : State} (h : Inv s) : Inv (wakeOneP s).1 := by
  unfold wakeOneP
  split
  · exact h
  · rename_i w ws hw
    apply inv_setPc_quiet (s := { s with pWait := ws })
    · apply h.congr' <;> try simp [inflight]
      exact h.relc
    · simp [Quiet, pendingId, holding, wantsResult]

/-- only the blocked solver sits in qlock's wait set -/
def QW (s : State) : Prop := s.qWaiting = true → s.spc = SPc.blocked

theorem inv_wakeQ {s : State} (h : Inv s) (hq : QW s) : Inv (wakeQ s).1 := by
  unfold wakeQ
  split
  · rename_i hw
    have hb := hq hw
    apply h.congr' <;> simp [inflight, hb]
  · exact h

macro "quiet" : tactic =>
  `(tactic| (apply inv_setPc_quiet _ _ _ (by simp [Quiet, pendingId, holding, wantsResult])))

macro "plain" h:ident : tactic =>
  `(tactic| (apply Inv.congr' $h <;> first | exact fun ctx id e => Inv.relc $h ctx id e | simp [inflight]))

theorem inv_startOp {s : State} (h : Inv s) (t : Tid) (op : Op) (rest : List Op) :
    Inv (startOp s t op rest).1 := by
  have h0 : Inv { s with th := fun j => if j = t then { s.th j with prog := rest } else s.th j } := by
    apply h.congr' <;> try simp [inflight]
    · intro j; left; split <;> rfl
    · exact h.relc
  have hlm : ∀ k, k ∈ s.lockmap → Inv (setPc { s with th := fun j =>
      if j = t then { s.th j with prog := rest } else s.th j } t (IPc.rAcqC k)) := by
    intro k hk
    apply inv_setPc h0
    constructor
    · intro id hh; cases hh
    · intro c id hh; cases hh
    · intro k' hh
      simp only [wantsResult, Option.some.injEq] at hh
      subst hh; exact h.lockmapQueued _ hk
    · intro k' hh; cases hh
  unfold startOp
  cases op with
  | get => exact inv_setPc_quiet h0 _ _ (by simp [Quiet, pendingId, holding, wantsResult])
  | setNow v => exact inv_setPc_quiet h0 _ _ (by simp [Quiet, pendingId, holding, wantsResult])
  | queue c => exact inv_setPc_quiet h0 _ _ (by simp [Quiet, pendingId, holding, wantsResult])
  | getResult k =>
    simp only
    split
    · rename_i hk; exact hlm k hk
    · exact inv_setPc_quiet h0 _ _ (by simp [Quiet, pendingId, holding, wantsResult])
  | getMine j =>
    simp only
    split
    · split
      · rename_i hk; exact hlm _ hk
      · exact inv_setPc_quiet h0 _ _ (by simp [Quiet, pendingId, holding, wantsResult])
    · exact inv_setPc_quiet h0 _ _ (by simp [Quiet, pendingId, holding, wantsResult])
  | pause => exact inv_setPc_quiet h0 _ _ (by simp [Quiet, pendingId, holding, wantsResult])
  | wait => exact inv_setPc_quiet h0 _ _ (by simp [Quiet, pendingId, holding, wantsResult])
  | cont => exact inv_setPc_quiet h0 _ _ (by simp [Quiet, pendingId, holding, wantsResult])

theorem lookupVal_mem {l : List (Nat × Val)} {k : Nat} {v : Val} (h : lookupVal l k = some v) :
    (k, v) ∈ l := by
  unfold lookupVal at h
  cases hf : l.find? (fun e => e.1 = k) with
  | none => simp [hf] at h
  | some e =>
    simp only [hf, Option.map_some, Option.some.injEq] at h
    have h1 := List.mem_of_find?_eq_some hf
    have h2 := List.find?_some hf
    simp only [decide_eq_true_eq] at h2
    obtain ⟨a, b⟩ := e
    simp only at h h2
    subst h; subst h2; exact h1

theorem execIds_sub_queued {s : State} (h : Inv s) {k : Nat} (hk : k ∈ execIds s) :
    k ∈ s.queuedLog := by
  rw [h.fifo]; simp [hk]

theorem inv_stepIface {cfg : Cfg} {s s' : State} {t : Tid} {evs : List Ev} (h : Inv s) (hqw : QW s)
    (hs : stepIface cfg s t = some (s', evs)) : Inv s' := by
  unfold stepIface at hs
  split at hs
  · -- idle
    split at hs
    · cases hs
    · simp only [Option.some.injEq] at hs
      rename_i op rest _
      have := inv_startOp h t op rest
      rw [hs] at this; exact this
  · -- gAcqD
    split at hs
    · simp only [Option.some.injEq, Prod.mk.injEq] at hs; obtain ⟨rfl, -⟩ := hs; quiet; plain h
    · cases hs
  · simp only [Option.some.injEq, Prod.mk.injEq] at hs; obtain ⟨rfl, -⟩ := hs; quiet; plain h
  · split at hs
    · simp only [Option.some.injEq, Prod.mk.injEq] at hs; obtain ⟨rfl, -⟩ := hs; quiet; plain h
    · cases hs
  · simp only [Option.some.injEq, Prod.mk.injEq] at hs; obtain ⟨rfl, -⟩ := hs; quiet; plain h
  · -- qAcqD: a fresh task id
    rename_i c hpc
    split at hs
    · simp only [Option.some.injEq, Prod.mk.injEq] at hs; obtain ⟨rfl, -⟩ := hs
      have hold : ∀ j, j ≠ t → ((setPc { s with dlock := some t, nextId := s.nextId + 1 } t
          (IPc.qAcqC c s.nextId)).th j) = s.th j := fun j hj => setPc_th_other _ _ _ _ hj
      have hnew : ((setPc { s with dlock := some t, nextId := s.nextId + 1 } t
          (IPc.qAcqC c s.nextId)).th t).pc = IPc.qAcqC c s.nextId := setPc_th_same _ _ _
      have hfresh : s.nextId ∉ s.queuedLog := fun hm => Nat.lt_irrefl _ (h.bound _ hm)
      constructor
      · exact h.fifo
      · exact h.nodup
      · intro id hid; exact Nat.lt_succ_of_lt (h.bound id hid)
      · intro j id hj
        by_cases hjt : j = t
        · subst hjt; rw [hnew] at hj
          simp only [pendingId, Option.some.injEq] at hj
          subst hj; exact ⟨Nat.lt_succ_self _, hfresh⟩
        · rw [hold j hjt] at hj
          exact ⟨Nat.lt_succ_of_lt (h.pend j id hj).1, (h.pend j id hj).2⟩
      · intro j j' id hne hj hj'
        by_cases hjt : j = t
        · subst hjt; rw [hnew] at hj
          simp only [pendingId, Option.some.injEq] at hj
          subst hj
          rw [hold j' (Ne.symm hne)] at hj'
          exact Nat.lt_irrefl _ (h.pend j' _ hj').1
        · rw [hold j hjt] at hj
          by_cases hjt' : j' = t
          · subst hjt'; rw [hnew] at hj'
            simp only [pendingId, Option.some.injEq] at hj'
            subst hj'
            exact Nat.lt_irrefl _ (h.pend j _ hj).1
          · rw [hold j' hjt'] at hj'
            exact h.pendDistinct j j' id hne hj hj'
      · exact h.res
      · exact h.resNodup
      · exact h.locked
      · intro j c' id hj
        by_cases hjt : j = t
        · subst hjt; rw [hnew] at hj; cases hj
        · rw [hold j hjt] at hj; exact h.pendLocked j c' id hj
      · exact h.lockmapQueued
      · intro j k hj
        by_cases hjt : j = t
        · subst hjt; rw [hnew] at hj; cases hj
        · rw [hold j hjt] at hj; exact h.wants j k hj
      · intro j k hj
        by_cases hjt : j = t
        · subst hjt; rw [hnew] at hj; cases hj
        · rw [hold j hjt] at hj; exact h.holds j k hj
      · exact h.relc
    · cases hs
  · -- qAcqC: the new per-command lock is taken
    rename_i c id hpc
    simp only [Option.some.injEq, Prod.mk.injEq] at hs; obtain ⟨rfl, -⟩ := hs
    apply inv_setPc
    · apply h.congr' <;> first | exact h.relc | simp [inflight]
      intro k hk; exact Or.inl hk
    · constructor
      · intro id' hh; simp only [hpc]; exact hh
      · intro c' id' hh
        simp only [IPc.qAcqQ.injEq] at hh
        obtain ⟨-, rfl⟩ := hh
        simp [setPc]
      · intro k hh; cases hh
      · intro k hh; cases hh
  · -- qAcqQ: the command is appended to the queue
    rename_i c id hpc
    split at hs
    · simp only [Option.some.injEq, Prod.mk.injEq] at hs; obtain ⟨rfl, -⟩ := hs
      have hp := h.pend t id (by rw [hpc]; rfl)
      generalize hpc' : (if cfg.dispatchNotifies = true then IPc.qNtaQ id else IPc.qRelQ id) = pc'
      have hq : Quiet pc' := by
        subst hpc'; split <;> simp [Quiet, pendingId, holding, wantsResult]
      have hnew : ∀ s1 : State, ((setPc s1 t pc').th t).pc = pc' := fun s1 => setPc_th_same _ _ _
      constructor
      · have := h.fifo
        simp only [setPc, execIds, inflight] at this ⊢
        rw [this]; simp [List.append_assoc]
      · simp only [setPc]
        exact List.nodup_append.mpr ⟨h.nodup, by simp, by
          intro a ha b hb; simp at hb; subst hb; intro e; subst e; exact hp.2 ha⟩
      · intro k hk
        simp only [setPc, List.mem_append, List.mem_singleton] at hk ⊢
        rcases hk with hk | rfl
        · exact h.bound k hk
        · exact hp.1
      · intro j id' hj
        by_cases hjt : j = t
        · subst hjt; rw [hnew] at hj; rw [hq.1] at hj; cases hj
        · simp only [setPc_th_other _ _ _ _ hjt] at hj
          refine ⟨(h.pend j id' hj).1, ?_⟩
          simp only [setPc, List.mem_append, List.mem_singleton, not_or]
          refine ⟨(h.pend j id' hj).2, ?_⟩
          intro e; subst e
          exact h.pendDistinct j t id' hjt hj (by rw [hpc]; rfl)
      · intro j j' id' hne hj hj'
        by_cases hjt : j = t
        · subst hjt; rw [hnew] at hj; rw [hq.1] at hj; cases hj
        · by_cases hjt' : j' = t
          · subst hjt'; rw [hnew] at hj'; rw [hq.1] at hj'; cases hj'
          · simp only [setPc_th_other _ _ _ _ hjt] at hj; simp only [setPc_th_other _ _ _ _ hjt'] at hj'
            exact h.pendDistinct j j' id' hne hj hj'
      · exact h.res
      · exact h.resNodup
      · intro k hk
        simp only [setPc, List.mem_append, List.mem_singleton] at hk ⊢
        rcases hk with hk | rfl
        · exact h.locked k hk
        · exact Or.inl (h.pendLocked t c k hpc)
      · intro j c' id' hj
        by_cases hjt : j = t
        · subst hjt; rw [hnew] at hj; rw [hj] at hq; cases hq.1
        · simp only [setPc_th_other _ _ _ _ hjt] at hj; exact h.pendLocked j c' id' hj
      · intro k hk
        simp only [setPc, List.mem_append, List.mem_singleton] at hk ⊢
        rcases hk with hk | rfl
        · exact Or.inl (h.lockmapQueued k hk)
        · exact Or.inr rfl
      · intro j k hj
        by_cases hjt : j = t
        · subst hjt; rw [hnew] at hj; rw [hq.2.2] at hj; cases hj
        · simp only [setPc_th_other _ _ _ _ hjt] at hj
          simp only [setPc, List.mem_append]; exact Or.inl (h.wants j k hj)
      · intro j k hj
        by_cases hjt : j = t
        · subst hjt; rw [hnew] at hj; rw [hq.2.1] at hj; cases hj
        · simp only [setPc_th_other _ _ _ _ hjt] at hj; exact h.holds j k hj
      · exact h.relc
    · cases hs
  · -- qNtaQ
    simp only [Option.some.injEq, Prod.mk.injEq] at hs; obtain ⟨rfl, -⟩ := hs
    quiet; exact inv_wakeQ h hqw
  · simp only [Option.some.injEq, Prod.mk.injEq] at hs; obtain ⟨rfl, -⟩ := hs; quiet; plain h
  · -- qRelD
    simp only [Option.some.injEq, Prod.mk.injEq] at hs; obtain ⟨rfl, -⟩ := hs
    apply h.congr' <;> first | exact h.relc | simp [inflight]
    intro j
    by_cases hj : j = t
    · right; apply PcOk.of_quiet; simp [hj, Quiet, pendingId, holding, wantsResult]
    · left; simp [hj]
  · -- rAcqC: the per-command lock is free, so the command has run
    rename_i k hpc
    split at hs
    · cases hs
    · rename_i hnl
      simp only [Option.some.injEq, Prod.mk.injEq] at hs; obtain ⟨rfl, -⟩ := hs
      apply inv_setPc
      · apply h.congr' <;> first | exact h.relc | simp [inflight]
        intro k' hk'; exact Or.inl hk'
      · constructor
        · intro id hh; cases hh
        · intro c id hh; cases hh
        · intro k' hh; cases hh
        · intro k' hh
          simp only [holding, Option.some.injEq] at hh
          subst hh
          have hq := h.wants t k (by rw [hpc]; rfl)
          rcases h.locked k hq with hl | hl
          · exact absurd hl hnl
          · exact hl
  · -- rAcqRes: the result is handed over
    rename_i k hpc
    have hex : k ∈ execIds s := h.holds t k (by rw [hpc]; rfl)
    split at hs
    · split at hs
      · rename_i v hv
        simp only [Option.some.injEq, Prod.mk.injEq] at hs; obtain ⟨rfl, -⟩ := hs
        have hmem := lookupVal_mem hv
        apply inv_setPc
        · constructor
          · exact h.fifo
          · exact h.nodup
          · exact h.bound
          · exact h.pend
          · exact h.pendDistinct
          · intro k' v' hkv
            simp only [List.mem_filter, List.mem_append, List.mem_singleton, Prod.mk.injEq] at hkv
            rcases hkv with ⟨hkv, -⟩ | hkv | ⟨rfl, rfl⟩
            · exact h.res k' v' (Or.inl hkv)
            · exact h.res k' v' (Or.inr hkv)
            · exact h.res _ _ (Or.inl hmem)
          · have hr := h.resNodup
            have hkr : k ∈ s.results.map (·.1) := List.mem_map.mpr ⟨(k, v), hmem, rfl⟩
            have hnd := List.nodup_append.mp hr
            have hkd : k ∉ s.delivered.map (·.1) := fun hd => hnd.2.2 k hkr k hd rfl
            simp only [List.map_append, List.map_cons, List.map_nil]
            rw [← List.append_assoc]
            apply List.nodup_append.mpr
            refine ⟨?_, by simp, ?_⟩
            · apply List.nodup_append.mpr
              refine ⟨(hnd.1.sublist ((List.filter_sublist).map _)), hnd.2.1, ?_⟩
              intro a ha b hb
              exact hnd.2.2 a (((List.filter_sublist).map _).subset ha) b hb
            · intro a ha b hb
              simp only [List.mem_singleton] at hb; subst hb
              simp only [List.mem_append, List.mem_map, List.mem_filter] at ha
              rcases ha with ⟨⟨a1, a2⟩, ⟨-, hne⟩, rfl⟩ | ha
              · simpa using hne
              · intro e; subst e; exact hkd (List.mem_map.mpr ha)
          · exact h.locked
          · exact h.pendLocked
          · intro k' hk'
            simp only [List.mem_filter] at hk'
            exact h.lockmapQueued k' hk'.1
          · exact h.wants
          · exact h.holds
          · exact h.relc
        · constructor
          · intro id hh; cases hh
          · intro c id hh; cases hh
          · intro k' hh; cases hh
          · intro k' hh
            simp only [holding, Option.some.injEq] at hh
            subst hh; exact hex
      · simp only [Option.some.injEq, Prod.mk.injEq] at hs; obtain ⟨rfl, -⟩ := hs
        apply inv_setPc
        · plain h
        · constructor
          · intro id hh; cases hh
          · intro c id hh; cases hh
          · intro k' hh; cases hh
          · intro k' hh
            simp only [holding, Option.some.injEq] at hh
            subst hh; exact hex
    · cases hs
  · -- rRelRes
    rename_i k r hpc
    have hex : k ∈ execIds s := h.holds t k (by rw [hpc]; rfl)
    simp only [Option.some.injEq, Prod.mk.injEq] at hs; obtain ⟨rfl, -⟩ := hs
    apply inv_setPc
    · plain h
    · constructor
      · intro id hh; cases hh
      · intro c id hh; cases hh
      · intro k' hh; cases hh
      · intro k' hh
        simp only [holding, Option.some.injEq] at hh
        subst hh; exact hex
  · -- rRelC: the per-command lock is dropped
    rename_i k r hpc
    have hex : k ∈ execIds s := h.holds t k (by rw [hpc]; rfl)
    simp only [Option.some.injEq, Prod.mk.injEq] at hs; obtain ⟨rfl, -⟩ := hs
    quiet
    apply h.congr <;> first | exact h.relc | simp [inflight]
    · intro k' _ hl
      by_cases hk : k' = k
      · subst hk; exact Or.inr hex
      · exact Or.inl ⟨hl, hk⟩
    · intro k' hl hnq
      refine ⟨hl, ?_⟩
      intro e; subst e; exact hnq (execIds_sub_queued h hex)
  · -- pAcqP
    split at hs
    · simp only [Option.some.injEq, Prod.mk.injEq] at hs; obtain ⟨rfl, -⟩ := hs; quiet; plain h
    · cases hs
  · simp only [Option.some.injEq, Prod.mk.injEq] at hs; obtain ⟨rfl, -⟩ := hs
    quiet; exact inv_wakeOneP h
  · simp only [Option.some.injEq, Prod.mk.injEq] at hs; obtain ⟨rfl, -⟩ := hs; quiet; plain h
  · -- wAcqP
    split at hs
    · simp only [Option.some.injEq, Prod.mk.injEq] at hs; obtain ⟨rfl, -⟩ := hs
      apply inv_setPc_quiet
      · plain h
      · (repeat' split) <;> simp [Quiet, pendingId, holding, wantsResult]
    · cases hs
  · simp only [Option.some.injEq, Prod.mk.injEq] at hs; obtain ⟨rfl, -⟩ := hs; quiet; plain h
  · cases hs
  · -- wReacqP
    split at hs
    · simp only [Option.some.injEq, Prod.mk.injEq] at hs; obtain ⟨rfl, -⟩ := hs
      apply inv_setPc_quiet
      · plain h
      · (repeat' split) <;> simp [Quiet, pendingId, holding, wantsResult]
    · cases hs
  · simp only [Option.some.injEq, Prod.mk.injEq] at hs; obtain ⟨rfl, -⟩ := hs; quiet; plain h
  · -- cAcqP
    split at hs
    · split at hs
      · simp only [Option.some.injEq, Prod.mk.injEq] at hs; obtain ⟨rfl, -⟩ := hs; quiet; plain h
      · simp only [Option.some.injEq, Prod.mk.injEq] at hs; obtain ⟨rfl, -⟩ := hs; quiet; plain h
    · cases hs
  · -- cNtfP
    simp only [Option.some.injEq, Prod.mk.injEq] at hs; obtain ⟨rfl, -⟩ := hs
    apply inv_setPc_quiet
    · exact inv_wakeOneP h
    · split <;> simp [Quiet, pendingId, holding, wantsResult]
  · -- cRelP
    split at hs
    · simp only [Option.some.injEq, Prod.mk.injEq] at hs; obtain ⟨rfl, -⟩ := hs; quiet; plain h
    · split at hs
      · simp only [Option.some.injEq, Prod.mk.injEq] at hs; obtain ⟨rfl, -⟩ := hs; quiet; plain h
      · simp only [Option.some.injEq, Prod.mk.injEq] at hs; obtain ⟨rfl, -⟩ := hs; quiet; plain h
  · -- cAcqQ
    split at hs
    · simp only [Option.some.injEq, Prod.mk.injEq] at hs; obtain ⟨rfl, -⟩ := hs; quiet; plain h
    · cases hs
  · simp only [Option.some.injEq, Prod.mk.injEq] at hs; obtain ⟨rfl, -⟩ := hs
    quiet; exact inv_wakeQ h hqw
  · -- cRelQ
    split at hs
    · simp only [Option.some.injEq, Prod.mk.injEq] at hs; obtain ⟨rfl, -⟩ := hs; quiet; plain h
    · simp only [Option.some.injEq, Prod.mk.injEq] at hs; obtain ⟨rfl, -⟩ := hs; quiet; plain h

/-! ### `QW` and reachability -/

@[simp] theorem checkPause_qWaiting (s : State) : (checkPause s).qWaiting = s.qWaiting := by
  unfold checkPause; split <;> rfl

@[simp] theorem runQueue_qWaiting (cfg : Cfg) (ctx : Ctx) (s : State) :
    (runQueue cfg ctx s).qWaiting = s.qWaiting := by
  rcases runQueue_eq cfg ctx s with ⟨id, rest, c, _, e⟩ | ⟨pc, _, e⟩ <;> rw [e]

theorem wakeOneP_spc (s : State) :
    (wakeOneP s).1.qWaiting = s.qWaiting ∧ (wakeOneP s).1.spc = s.spc := by
  unfold wakeOneP; split <;> simp [setPc]

theorem wakeQ_qw (s : State) :
    (wakeQ s).1.qWaiting = false ∨
      ((wakeQ s).1.qWaiting = s.qWaiting ∧ (wakeQ s).1.spc = s.spc) := by
  unfold wakeQ; split <;> simp

theorem startOp_spc (s : State) (t : Tid) (op : Op) (rest : List Op) :
    (startOp s t op rest).1.qWaiting = s.qWaiting ∧ (startOp s t op rest).1.spc = s.spc := by
  unfold startOp
  cases op <;> simp only [setPc] <;> (repeat' split) <;> simp

theorem stepIface_qw {cfg : Cfg} {s s' : State} {t : Tid} {evs : List Ev}
    (hs : stepIface cfg s t = some (s', evs)) :
    s'.qWaiting = false ∨ (s'.qWaiting = s.qWaiting ∧ s'.spc = s.spc) := by
  unfold stepIface at hs
  split at hs
  · split at hs
    · cases hs
    · rename_i op rest _
      simp only [Option.some.injEq] at hs
      have := startOp_spc s t op rest
      rw [hs] at this; exact Or.inr this
  all_goals
    (repeat' split at hs) <;>
    first
    | (simp only [Option.some.injEq, Prod.mk.injEq] at hs
       obtain ⟨rfl, -⟩ := hs
       first
       | (right; simp [setPc]; done)
       | (have e := ‹wakeQ s = _›; have := wakeQ_qw s; rw [e] at this; simpa [setPc] using this)
       | (have e := ‹wakeOneP s = _›; have := wakeOneP_spc s; rw [e] at this
          right; simpa [setPc] using this))
    | (cases hs; done)

theorem qw_step {cfg : Cfg} {s s' : State} {t : Tid} {evs : List Ev} (h : QW s)
    (hs : step cfg s t = some (s', evs)) : QW s' := by
  unfold step at hs
  split at hs
  · unfold stepSolver at hs
    split at hs
    all_goals
      rename_i hspc
      have hw : s.qWaiting = false := by
        cases hq : s.qWaiting
        · rfl
        · first
          | (cases hs; done)
          | (have := h hq; rw [hspc] at this; cases this)
    all_goals
      (repeat' split at hs) <;>
      first
      | (simp only [Option.some.injEq, Prod.mk.injEq] at hs
         obtain ⟨rfl, -⟩ := hs
         intro hq
         first
         | rfl
         | (exfalso; revert hq; (repeat' split) <;> simp [hw, wakeAllP]; done))
      | (cases hs; done)
  · rcases stepIface_qw hs with hf | ⟨h1, h2⟩
    · intro hq; rw [hf] at hq; cases hq
    · intro hq; rw [h2]; exact h (h1 ▸ hq)

theorem inv_step {cfg : Cfg} {s s' : State} {t : Tid} {evs : List Ev} (h : Inv s) (hq : QW s)
    (hs : step cfg s t = some (s', evs)) : Inv s' := by
  unfold step at hs
  split at hs
  · exact inv_stepSolver h hs
  · exact inv_stepIface h hq hs

theorem reachable_inv {cfg : Cfg} {progs : Tid → List Op} {s : State}
    (hr : Reachable cfg progs s) : Inv s ∧ QW s := by
  induction hr with
  | init => exact ⟨inv_init progs, by simp [QW, init]⟩
  | step _ hs ih => exact ⟨inv_step ih.1 ih.2 hs, qw_step ih.2 hs⟩

/-! ### the pause protocol: honoured requests keep the solver in `wait_for_cmd` -/

/-- the solver is inside the `while self.pause` loop of `wait_for_cmd` (or dead) -/
def InLoop : SPc → Prop
  | SPc.acqP | SPc.ntaP | SPc.relP | SPc.waitQ | SPc.blocked | SPc.reacqQ | SPc.crashed => True
  | SPc.runAcqRes Ctx.loop _ _ | SPc.runRelC Ctx.loop _ | SPc.runRelRes Ctx.loop => True
  | _ => False

structure PInv (s : State) : Prop where
  sub : ∀ t ∈ s.paused, t ∈ s.pause
  loop : s.paused ≠ [] → InLoop s.spc

theorem mem_addSet {l : List Tid} {t x : Tid} : x ∈ addSet l t ↔ x ∈ l ∨ x = t := by
  unfold addSet; split
  · constructor
    · exact Or.inl
    · rintro (h | rfl) <;> assumption
  · simp

theorem mem_unionSet {a b : List Tid} {x : Tid} : x ∈ unionSet a b ↔ x ∈ a ∨ x ∈ b := by
  unfold unionSet
  induction b generalizing a with
  | nil => simp
  | cons y ys ih =>
    simp only [List.foldl_cons, ih, mem_addSet, List.mem_cons]
    constructor
    · rintro ((h | h) | h)
      · exact Or.inl h
      · exact Or.inr (Or.inl h)
      · exact Or.inr (Or.inr h)
    · rintro (h | h | h)
      · exact Or.inl (Or.inl h)
      · exact Or.inl (Or.inr h)
      · exact Or.inr h

theorem pinv_checkPause {s : State} (h : ∀ t ∈ s.paused, t ∈ s.pause) : PInv (checkPause s) := by
  unfold checkPause
  split
  · rename_i hp
    refine ⟨h, ?_⟩
    intro hne; exfalso; apply hne
    cases hq : s.paused with
    | nil => rfl
    | cons a as => have := h a (by simp [hq]); simp [hp] at this
  · exact ⟨h, fun _ => trivial⟩

theorem pinv_runQueue_loop {cfg : Cfg} {s : State} (h : ∀ t ∈ s.paused, t ∈ s.pause) :
    PInv (runQueue cfg Ctx.loop s) := by
  unfold runQueue
  split
  · unfold afterRun
    simp only
    split
    · exact ⟨h, fun _ => trivial⟩
    · exact pinv_checkPause h
  · split
    · exact ⟨h, fun _ => trivial⟩
    · exact ⟨h, fun _ => trivial⟩

theorem pinv_runQueue_first {cfg : Cfg} {s : State} (h : ∀ t ∈ s.paused, t ∈ s.pause)
    (he : s.paused = []) : PInv (runQueue cfg Ctx.first s) := by
  rcases runQueue_eq cfg Ctx.first s with ⟨id, rest, c, _, e⟩ | ⟨pc, _, e⟩ <;> rw [e] <;>
    exact ⟨h, fun hne => absurd he hne⟩

theorem pinv_stepSolver {cfg : Cfg} {s s' : State} {evs : List Ev} (h : PInv s)
    (hs : stepSolver cfg s = some (s', evs)) : PInv s' := by
  unfold stepSolver at hs
  split at hs
  all_goals
    rename_i hspc
    have hl := h.loop
    rw [hspc] at hl
  -- start
  · have he : s.paused = [] := by
      cases hq : s.paused with
      | nil => rfl
      | cons a as => exact (hl (by simp [hq])).elim
    simp only [Option.some.injEq, Prod.mk.injEq] at hs; obtain ⟨rfl, -⟩ := hs
    exact ⟨h.sub, fun hne => absurd he hne⟩
  -- acqQ1
  · have he : s.paused = [] := by
      cases hq : s.paused with
      | nil => rfl
      | cons a as => exact (hl (by simp [hq])).elim
    split at hs
    · simp only [Option.some.injEq, Prod.mk.injEq] at hs; obtain ⟨rfl, -⟩ := hs
      exact pinv_runQueue_first h.sub he
    · cases hs
  -- runAcqRes
  · rename_i ctx id c
    split at hs
    · simp only [Option.some.injEq, Prod.mk.injEq] at hs; obtain ⟨rfl, -⟩ := hs
      refine ⟨h.sub, fun hne => ?_⟩
      have := hl hne
      cases ctx <;> simp_all [InLoop]
    · cases hs
  -- runRelC
  · rename_i ctx id
    split at hs
    · simp only [Option.some.injEq, Prod.mk.injEq] at hs; obtain ⟨rfl, -⟩ := hs
      refine ⟨h.sub, fun hne => ?_⟩
      have := hl hne
      cases ctx <;> simp_all [InLoop]
    · simp only [Option.some.injEq, Prod.mk.injEq] at hs; obtain ⟨rfl, -⟩ := hs
      exact ⟨h.sub, fun _ => trivial⟩
  -- runRelRes
  · rename_i ctx
    simp only [Option.some.injEq, Prod.mk.injEq] at hs; obtain ⟨rfl, -⟩ := hs
    cases ctx with
    | first =>
      have he : s.paused = [] := by
        cases hq : s.paused with
        | nil => rfl
        | cons a as => exact (hl (by simp [hq])).elim
      exact pinv_runQueue_first (s := { s with resLock := none }) h.sub he
    | loop => exact pinv_runQueue_loop (s := { s with resLock := none }) h.sub
  -- relQ1
  · have he : s.paused = [] := by
      cases hq : s.paused with
      | nil => rfl
      | cons a as => exact (hl (by simp [hq])).elim
    simp only [Option.some.injEq, Prod.mk.injEq] at hs; obtain ⟨rfl, -⟩ := hs
    exact ⟨h.sub, fun hne => absurd he hne⟩
  -- acqQ2
  · split at hs
    · simp only [Option.some.injEq, Prod.mk.injEq] at hs; obtain ⟨rfl, -⟩ := hs
      exact pinv_checkPause (s := { s with qOwner := some 0 }) h.sub
    · cases hs
  -- acqP
  · split at hs
    · simp only [Option.some.injEq, Prod.mk.injEq] at hs; obtain ⟨rfl, -⟩ := hs
      refine ⟨?_, fun _ => trivial⟩
      intro t ht
      simp only at ht ⊢
      split at ht
      · rcases mem_unionSet.mp ht with h1 | h1
        · exact h.sub t h1
        · exact h1
      · exact h.sub t ht
    · cases hs
  -- ntaP
  · simp only [Option.some.injEq, Prod.mk.injEq] at hs; obtain ⟨rfl, -⟩ := hs
    exact ⟨h.sub, fun _ => trivial⟩
  -- relP
  · simp only [Option.some.injEq, Prod.mk.injEq] at hs; obtain ⟨rfl, -⟩ := hs
    split
    · exact pinv_runQueue_loop (s := { s with pOwner := none }) h.sub
    · exact ⟨h.sub, fun _ => trivial⟩
  -- waitQ
  · simp only [Option.some.injEq, Prod.mk.injEq] at hs; obtain ⟨rfl, -⟩ := hs
    exact ⟨h.sub, fun _ => trivial⟩
  · cases hs
  -- reacqQ
  · split at hs
    · simp only [Option.some.injEq, Prod.mk.injEq] at hs; obtain ⟨rfl, -⟩ := hs
      split
      · exact pinv_checkPause (s := { s with qOwner := some 0 }) h.sub
      · exact pinv_runQueue_loop (s := { s with qOwner := some 0 }) h.sub
    · cases hs
  -- relQ2
  · have he : s.paused = [] := by
      cases hq : s.paused with
      | nil => rfl
      | cons a as => exact (hl (by simp [hq])).elim
    simp only [Option.some.injEq, Prod.mk.injEq] at hs; obtain ⟨rfl, -⟩ := hs
    exact ⟨h.sub, fun hne => absurd he hne⟩
  · cases hs

/-- what an interface step does to the pause sets and the solver's pc -/
theorem stepIface_pause {cfg : Cfg} {s s' : State} {t : Tid} {evs : List Ev} (hqw : QW s)
    (hs : stepIface cfg s t = some (s', evs)) :
    (s'.spc = s.spc ∨ (s.spc = SPc.blocked ∧ s'.spc = SPc.reacqQ)) ∧
    ((s'.pause = s.pause ∧ s'.paused = s.paused) ∨
     (s'.pause = addSet s.pause t ∧ s'.paused = s.paused) ∨
     (s'.pause = s.pause.filter (· ≠ t) ∧ (s.th t).pc = IPc.cAcqP ∧
        s'.paused = s.paused.filter (· ≠ t))) := by
  have hwq : (wakeQ s).1.pause = s.pause ∧ (wakeQ s).1.paused = s.paused ∧
      ((wakeQ s).1.spc = s.spc ∨ (s.spc = SPc.blocked ∧ (wakeQ s).1.spc = SPc.reacqQ)) := by
    unfold wakeQ; split
    · rename_i hw; simp [hqw hw]
    · simp
  have hwp : (wakeOneP s).1.pause = s.pause ∧ (wakeOneP s).1.paused = s.paused ∧
      (wakeOneP s).1.spc = s.spc := by
    unfold wakeOneP; split <;> simp [setPc]
  unfold stepIface at hs
  split at hs
  · split at hs
    · cases hs
    · rename_i op rest _
      simp only [Option.some.injEq] at hs
      have : (startOp s t op rest).1.spc = s.spc ∧ (startOp s t op rest).1.pause = s.pause ∧
          (startOp s t op rest).1.paused = s.paused := by
        unfold startOp
        cases op <;> simp only [setPc] <;> (repeat' split) <;> simp
      rw [hs] at this
      exact ⟨Or.inl this.1, Or.inl this.2⟩
  all_goals
    (repeat' split at hs) <;>
    first
    | (simp only [Option.some.injEq, Prod.mk.injEq] at hs
       obtain ⟨rfl, -⟩ := hs
       first
       | (refine ⟨Or.inl ?_, Or.inl ?_⟩ <;> simp [setPc]; done)
       | (refine ⟨Or.inl ?_, Or.inr (Or.inl ?_)⟩ <;> simp [setPc]; done)
       | (have e := ‹wakeQ s = _›; rw [e] at hwq
          exact ⟨by simpa [setPc] using hwq.2.2,
                 Or.inl (by simpa [setPc] using And.intro hwq.1 hwq.2.1)⟩)
       | (have e := ‹wakeOneP s = _›; rw [e] at hwp; simp only at hwp
          refine ⟨Or.inl ?_, Or.inl ?_⟩ <;> simp [setPc, hwp]; done)
       | (exact ⟨Or.inl (by simp [setPc]),
                 Or.inr (Or.inr ⟨by simp [setPc], by assumption, by simp [setPc]⟩)⟩))
    | (cases hs; done)

theorem pinv_stepIface {cfg : Cfg} {s s' : State} {t : Tid} {evs : List Ev} (h : PInv s)
    (hqw : QW s) (hs : stepIface cfg s t = some (s', evs)) : PInv s' := by
  obtain ⟨hspc, hp⟩ := stepIface_pause hqw hs
  have hloop : InLoop s.spc → InLoop s'.spc := by
    intro hl
    rcases hspc with e | ⟨_, e⟩
    · rw [e]; exact hl
    · rw [e]; trivial
  rcases hp with ⟨e1, e2⟩ | ⟨e1, e2⟩ | ⟨e1, _, e2⟩
  · exact ⟨by rw [e1, e2]; exact h.sub, by rw [e2]; exact fun hne => hloop (h.loop hne)⟩
  · refine ⟨?_, by rw [e2]; exact fun hne => hloop (h.loop hne)⟩
    rw [e1, e2]; intro x hx; exact mem_addSet.mpr (Or.inl (h.sub x hx))
  · refine ⟨?_, ?_⟩
    · rw [e1, e2]; intro x hx
      simp only [List.mem_filter] at hx ⊢
      exact ⟨h.sub x hx.1, hx.2⟩
    · rw [e2]; intro hne
      apply hloop; apply h.loop
      intro he; rw [he] at hne; simp at hne

theorem reachable_pinv {cfg : Cfg} {progs : Tid → List Op} {s : State}
    (hr : Reachable cfg progs s) : PInv s := by
  induction hr with
  | init => exact ⟨by simp [init], by simp [init]⟩
  | @step s s' t evs hr hs ih =>
    have hq := (reachable_inv hr).2
    unfold step at hs
    split at hs
    · exact pinv_stepSolver ih hs
    · exact pinv_stepIface ih hq hs

/-- interface steps never touch the execution log or the solver's counters -/
theorem stepIface_execLog {cfg : Cfg} {s s' : State} {t : Tid} {evs : List Ev}
    (hs : stepIface cfg s t = some (s', evs)) :
    s'.execLog = s.execLog ∧ s'.count = s.count := by
  have hwq : (wakeQ s).1.execLog = s.execLog ∧ (wakeQ s).1.count = s.count := by
    unfold wakeQ; split <;> simp
  have hwp : (wakeOneP s).1.execLog = s.execLog ∧ (wakeOneP s).1.count = s.count := by
    unfold wakeOneP; split <;> simp [setPc]
  unfold stepIface at hs
  split at hs
  · split at hs
    · cases hs
    · rename_i op rest _
      simp only [Option.some.injEq] at hs
      have : (startOp s t op rest).1.execLog = s.execLog ∧
          (startOp s t op rest).1.count = s.count := by
        unfold startOp
        cases op <;> simp only [setPc] <;> (repeat' split) <;> simp
      rw [hs] at this; exact this
  all_goals
    (repeat' split at hs) <;>
    first
    | (simp only [Option.some.injEq, Prod.mk.injEq] at hs
       obtain ⟨rfl, -⟩ := hs
       first
       | (simp [setPc]; done)
       | (have e := ‹wakeQ s = _›; rw [e] at hwq; simpa [setPc] using hwq)
       | (have e := ‹wakeOneP s = _›; rw [e] at hwp; simpa [setPc] using hwp))
    | (cases hs; done)

@[simp] theorem checkPause_count (s : State) : (checkPause s).count = s.count := by
  unfold checkPause; split <;> rfl
@[simp] theorem checkPause_paused (s : State) : (checkPause s).paused = s.paused := by
  unfold checkPause; split <;> rfl
@[simp] theorem checkPause_execLog (s : State) : (checkPause s).execLog = s.execLog := by
  unfold checkPause; split <;> rfl
@[simp] theorem runQueue_count (cfg : Cfg) (ctx : Ctx) (s : State) :
    (runQueue cfg ctx s).count = s.count := by
  rcases runQueue_eq cfg ctx s with ⟨id, rest, c, _, e⟩ | ⟨pc, _, e⟩ <;> rw [e]
@[simp] theorem runQueue_paused (cfg : Cfg) (ctx : Ctx) (s : State) :
    (runQueue cfg ctx s).paused = s.paused := by
  rcases runQueue_eq cfg ctx s with ⟨id, rest, c, _, e⟩ | ⟨pc, _, e⟩ <;> rw [e]
@[simp] theorem runQueue_execLog (cfg : Cfg) (ctx : Ctx) (s : State) :
    (runQueue cfg ctx s).execLog = s.execLog := by
  rcases runQueue_eq cfg ctx s with ⟨id, rest, c, _, e⟩ | ⟨pc, _, e⟩ <;> rw [e]

/-- the solver's time-step counter moves only at the start of an iteration, and the
solver never drops an honoured pause request -/
theorem stepSolver_count {cfg : Cfg} {s s' : State} {evs : List Ev}
    (hs : stepSolver cfg s = some (s', evs)) :
    (s.spc ≠ SPc.start → s'.count = s.count) ∧ (∀ t ∈ s.paused, t ∈ s'.paused) := by
  unfold stepSolver at hs
  split at hs
  all_goals rename_i hspc
  all_goals
    (repeat' split at hs) <;>
    first
    | (simp only [Option.some.injEq, Prod.mk.injEq] at hs
       obtain ⟨rfl, -⟩ := hs
       refine ⟨fun hne => ?_, fun t ht => ?_⟩
       · first
         | (exact absurd hspc hne)
         | ((repeat' split) <;> simp [wakeAllP]; done)
       · first
         | ((repeat' split) <;> simp [wakeAllP, ht]; done)
         | (exact mem_unionSet.mpr (Or.inl ht))
         | (simp only; split
            · exact mem_unionSet.mpr (Or.inl ht)
            · exact ht))
    | (cases hs; done)

/-- the execution log grows only when the solver, holding `res_lock` inside
`run_queued_commands`, runs the command it popped -/
theorem stepSolver_execLog {cfg : Cfg} {s s' : State} {evs : List Ev}
    (hs : stepSolver cfg s = some (s', evs)) :
    s'.execLog = s.execLog ∨ ∃ ctx id c, s.spc = SPc.runAcqRes ctx id c ∧
      s'.execLog = s.execLog ++ [(id, s.count, cmdVal c s.count)] := by
  unfold stepSolver at hs
  split at hs
  all_goals rename_i hspc
  all_goals
    (repeat' split at hs) <;>
    first
    | (simp only [Option.some.injEq, Prod.mk.injEq] at hs
       obtain ⟨rfl, -⟩ := hs
       first
       | (left; (repeat' split) <;> simp [wakeAllP]; done)
       | (right; exact ⟨_, _, _, hspc, rfl⟩))
    | (cases hs; done)

theorem reachable_run {cfg : Cfg} {progs : Tid → List Op} {s : State} (l : List Tid)
    (hr : Reachable cfg progs s) (h : runs cfg s l = true) : Reachable cfg progs (run cfg s l) := by
  induction l generalizing s with
  | nil => exact hr
  | cons t ts ih =>
    unfold runs at h; unfold run
    split at h
    · rename_i s1 evs hstep
      exact ih (Reachable.step hr hstep) h
    · cases h

end PysphVerif.Controller
