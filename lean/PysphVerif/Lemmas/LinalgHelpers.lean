import Mathlib.Data.Matrix.Mul
import Mathlib.Algebra.BigOperators.Fin
import PysphVerif.Lemmas.GaussJordan
set_option linter.unusedSectionVars false
set_option linter.unusedVariables false
/-!
C13: `identity`, `dot`, `mat_mult`, `mat_vec_mult`, `augmented_matrix` of
`Model/GaussJordan.lean` against their mathematical definitions.
-/
namespace PysphVerif.GaussJordan
variable {K : Type} [Field K] [LinearOrder K] [IsStrictOrderedRing K]

/-- `s = 0; for j in range(t): s += f j` is the finite sum -/
theorem foldl_add_eq_sum (f : Nat → K) (step : K → Nat → K) (hstep : ∀ s j, step s j = s + f j)
    (t : Nat) : (List.range t).foldl step 0 = ∑ j ∈ Finset.range t, f j := by
  induction t with
  | zero => simp
  | succ t ih =>
    rw [List.range_succ, List.foldl_append, ih, Finset.sum_range_succ]
    simp only [List.foldl_cons, List.foldl_nil, hstep]

/-- loops `r[i] = g i` over a vector -/
theorem vec_fill_fold (g : Nat → K) (step : Array K → Nat → Array K)
    (hstep : ∀ r i, step r i = wr r i (g i)) (r0 : Array K) (t : Nat) (ht : t ≤ r0.size) :
    ((List.range t).foldl step r0).size = r0.size ∧
    ∀ p, rd ((List.range t).foldl step r0) p = if p < t then g p else rd r0 p := by
  induction t with
  | zero => exact ⟨by simp, fun p => by simp⟩
  | succ t ih =>
    obtain ⟨hs, hg⟩ := ih (by omega)
    rw [List.range_succ, List.foldl_append]
    simp only [List.foldl_cons, List.foldl_nil]
    generalize (List.range t).foldl step r0 = r at hs hg
    rw [hstep]
    refine ⟨by rw [size_wr, hs], ?_⟩
    intro p
    rw [rd_wr, hg p]
    by_cases h : t = p
    · subst h
      rw [if_pos ⟨rfl, by omega⟩, if_pos (by omega)]
    · rw [if_neg (by omega)]
      by_cases h2 : p < t
      · rw [if_pos h2, if_pos (by omega)]
      · rw [if_neg h2, if_neg (by omega)]

/-- `dot(a, b, n) = Σ_{i<n} a[i]·b[i]` -/
theorem dot_spec (a b : Array K) (n : Nat) :
    dot a b n = ∑ i ∈ Finset.range n, rd a i * rd b i :=
  foldl_add_eq_sum (fun i => rd a i * rd b i) (dotStep a b) (fun _ _ => rfl) n

/-- `identity(a, n)`: the first `n×n` cells hold the identity matrix, the rest is untouched -/
theorem identity_spec (a : Array K) (n : Nat) (hsz : n*n ≤ a.size) :
    (identity a n).size = a.size ∧
    ∀ i j, j < n → get2 n (identity a n) i j =
      if i < n then (if i = j then 1 else 0) else get2 n a i j := by
  refine fill_fold (w := n) (rows := n) (fun i j => if i = j then (1:K) else 0) (identityRow n)
    a.size ?_ a rfl n (le_refl _)
  intro r i hi hr
  obtain ⟨h1, h2⟩ := fill_row_fold (w := n) (rows := n) (fun j => if i = j then (1:K) else 0)
    (identityCell n i) i 0 (fun r j => by
      simp only [identityCell, Nat.zero_add]
      by_cases h : i = j <;> simp [h]) r (by rw [hr]; exact hsz) hi n (by omega)
  refine ⟨by rw [identityRow, h1, hr], ?_⟩
  intro i' j' hj
  rw [identityRow, h2 i' j' hj]
  by_cases h : i' = i
  · rw [if_pos ⟨h, by omega, by omega⟩, if_pos h]; simp
  · rw [if_neg (by omega), if_neg h]

/-- `mat_mult(a, b, n, result)`: `result[n*i+k] = Σ_j a[n*i+j]·b[n*j+k]` -/
theorem matMult_spec (a b r : Array K) (n : Nat) (hsz : n*n ≤ r.size) :
    (matMult a b n r).size = r.size ∧
    ∀ i k, k < n → get2 n (matMult a b n r) i k =
      if i < n then ∑ j ∈ Finset.range n, get2 n a i j * get2 n b j k else get2 n r i k := by
  refine fill_fold (w := n) (rows := n)
    (fun i k => ∑ j ∈ Finset.range n, get2 n a i j * get2 n b j k) (mmRow a b n)
    r.size ?_ r rfl n (le_refl _)
  intro r' i hi hr
  obtain ⟨h1, h2⟩ := fill_row_fold (w := n) (rows := n)
    (fun k => ∑ j ∈ Finset.range n, get2 n a i j * get2 n b j k)
    (mmCell a b n i) i 0 (fun r'' k => by
      simp only [mmCell, Nat.zero_add]
      rw [foldl_add_eq_sum (fun j => get2 n a i j * get2 n b j k) (mmStep a b n i k)
        (fun _ _ => rfl) n]) r' (by rw [hr]; exact hsz) hi n (by omega)
  refine ⟨by rw [mmRow, h1, hr], ?_⟩
  intro i' j' hj
  rw [mmRow, h2 i' j' hj]
  by_cases h : i' = i
  · rw [if_pos ⟨h, by omega, by omega⟩, if_pos h]; simp
  · rw [if_neg (by omega), if_neg h]

/-- `mat_vec_mult(a, b, n, result)`: `result[i] = Σ_j a[n*i+j]·b[j]` -/
theorem matVecMult_spec (a b r : Array K) (n : Nat) (hsz : n ≤ r.size) :
    (matVecMult a b n r).size = r.size ∧
    ∀ i, rd (matVecMult a b n r) i =
      if i < n then ∑ j ∈ Finset.range n, get2 n a i j * rd b j else rd r i :=
  vec_fill_fold (fun i => ∑ j ∈ Finset.range n, get2 n a i j * rd b j) (mvRow a b n)
    (fun r' i => by
      simp only [mvRow]
      rw [foldl_add_eq_sum (fun j => get2 n a i j * rd b j) (mvStep a b n i) (fun _ _ => rfl) n])
    r n hsz

/-- `augmented_matrix(A, b, n, na, nmax, result)`: row `i < n` of the result (row length
`n+na`) is row `i` of `A` (row length `nmax`, first `n` entries) followed by row `i` of `b`
(row length `na`); everything else is untouched -/
theorem augmentedMatrix_spec (A b r : Array K) (n na nmax : Nat) (hsz : n*(n+na) ≤ r.size) :
    (augmentedMatrix A b n na nmax r).size = r.size ∧
    ∀ i j, j < n + na → get2 (n+na) (augmentedMatrix A b n na nmax r) i j =
      if i < n then (if j < n then get2 nmax A i j else get2 na b i (j - n))
      else get2 (n+na) r i j := by
  refine fill_fold (w := n+na) (rows := n)
    (fun i j => if j < n then get2 nmax A i j else get2 na b i (j - n)) (augRow A b n na nmax)
    r.size ?_ r rfl n (le_refl _)
  intro r' i hi hr
  obtain ⟨h1, h2⟩ := fill_row_fold (w := n+na) (rows := n) (fun j => get2 nmax A i j)
    (augA A nmax (n+na) i) i 0 (fun r'' j => by simp only [augA, get2, Nat.zero_add])
    r' (by rw [hr]; exact hsz) hi n (by omega)
  obtain ⟨h3, h4⟩ := fill_row_fold (w := n+na) (rows := n) (fun j => get2 na b i j)
    (augB b n na (n+na) i) i n (fun r'' j => by simp only [augB, get2, Nat.add_assoc])
    ((List.range n).foldl (augA A nmax (n+na) i) r') (by rw [h1, hr]; exact hsz) hi na (by omega)
  refine ⟨by rw [augRow, h3, h1, hr], ?_⟩
  intro i' j' hj
  rw [augRow, h4 i' j' hj, h2 i' j' hj]
  by_cases h : i' = i
  · subst h
    rw [if_pos rfl]
    by_cases hjn : j' < n
    · rw [if_neg (by omega), if_pos ⟨rfl, by omega, by omega⟩, if_pos hjn]; simp
    · rw [if_pos ⟨rfl, by omega, by omega⟩, if_neg hjn]
  · rw [if_neg (by omega), if_neg (by omega), if_neg h]

/-! ### the same in Mathlib's matrix language -/

/-- the first `n×n` cells of a flat array as a matrix -/
def sqMat (n : Nat) (a : Array K) : Matrix (Fin n) (Fin n) K := fun i j => get2 n a i j
/-- the first `n` cells of a flat array as a vector -/
def vecOf (n : Nat) (a : Array K) : Fin n → K := fun i => rd a i

theorem identity_eq_one' (a : Array K) (n : Nat) (hsz : n*n ≤ a.size) :
    sqMat n (identity a n) = 1 := by
  ext i j
  rw [Matrix.one_apply]
  show get2 n (identity a n) i j = _
  rw [(identity_spec a n hsz).2 i j j.2, if_pos i.2]
  by_cases h : i = j
  · rw [if_pos h, if_pos (congrArg Fin.val h)]
  · rw [if_neg h, if_neg (fun e => h (Fin.ext e))]

theorem matMult_eq_mul' (a b r : Array K) (n : Nat) (hsz : n*n ≤ r.size) :
    sqMat n (matMult a b n r) = sqMat n a * sqMat n b := by
  ext i k
  rw [Matrix.mul_apply]
  show get2 n (matMult a b n r) i k = _
  rw [(matMult_spec a b r n hsz).2 i k k.2, if_pos i.2]
  exact Finset.sum_range (fun j => get2 n a i j * get2 n b j k)

theorem matVecMult_eq_mulVec' (a b r : Array K) (n : Nat) (hsz : n ≤ r.size) :
    vecOf n (matVecMult a b n r) = Matrix.mulVec (sqMat n a) (vecOf n b) := by
  funext i
  show rd (matVecMult a b n r) i = _
  rw [(matVecMult_spec a b r n hsz).2 i, if_pos i.2]
  simp only [Matrix.mulVec, dotProduct]
  exact Finset.sum_range (fun j => get2 n a i j * rd b j)

theorem dot_eq_dotProduct' (a b : Array K) (n : Nat) :
    dot a b n = dotProduct (vecOf n a) (vecOf n b) := by
  rw [dot_spec]
  simp only [dotProduct]
  exact Finset.sum_range (fun j => rd a j * rd b j)

end PysphVerif.GaussJordan
