import Mathlib.Algebra.Order.Ring.Cast
import Mathlib.Algebra.Order.Ring.Abs
import PysphVerif.Lemmas.Domain
set_option linter.unusedSectionVars false
/-!
Helper lemmas for C07, coverage part: a lattice image `q + k·L` that comes
within the layer thickness of a point of the box has `k ∈ {−1, 0, 1}` and `q`
lies in the corresponding ghost layer.  Also: the cell size dominates
`radius_scale · h` of every particle.
-/
namespace PysphVerif.Domain
variable {α : Type} [Field α] [LinearOrder α] [IsStrictOrderedRing α]

/-- one axis: `p`, `q` in `[lo, hi]`, period `L = hi − lo > δ`; if the `k`-th
lattice image of `q` is within `δ` of `p` then it is `q` itself, or the `+L`
image of a point of the low layer, or the `−L` image of a point of the high
layer. -/
theorem axis_cover (lo hi δ p q : α) (k : ℤ) (hp : lo ≤ p ∧ p ≤ hi) (hq : lo ≤ q ∧ q ≤ hi)
    (hδ : δ < hi - lo) (hnear : |q + (k : α) * (hi - lo) - p| ≤ δ) :
    k = 0 ∨ (k = 1 ∧ q - lo ≤ δ) ∨ (k = -1 ∧ hi - q ≤ δ) := by
  have hL : 0 < hi - lo := lt_of_le_of_lt (le_trans (abs_nonneg _) hnear) hδ
  obtain ⟨h1, h2⟩ := abs_le.mp hnear
  rcases lt_trichotomy k 0 with hk | hk | hk
  · right; right
    by_cases hk2 : k ≤ -2
    · exfalso
      have hc : (k : α) ≤ -2 := by exact_mod_cast hk2
      have := mul_le_mul_of_nonneg_right hc hL.le
      linarith [hp.1, hp.2, hq.1, hq.2]
    · have hk1 : k = -1 := by omega
      subst hk1
      refine ⟨rfl, ?_⟩
      push_cast at h1 h2
      linarith [hp.1, hp.2, hq.1, hq.2]
  · left; exact hk
  · right; left
    by_cases hk2 : 2 ≤ k
    · exfalso
      have hc : (2 : α) ≤ (k : α) := by exact_mod_cast hk2
      have := mul_le_mul_of_nonneg_right hc hL.le
      linarith [hp.1, hp.2, hq.1, hq.2]
    · have hk1 : k = 1 := by omega
      subst hk1
      refine ⟨rfl, ?_⟩
      push_cast at h1 h2
      linarith [hp.1, hp.2, hq.1, hq.2]

/-! ### the cell size dominates `radius_scale · h` -/

theorem carrayMax_ge (l : List α) (x : α) (hx : x ∈ l) : x ≤ carrayMax l := by
  cases l with
  | nil => simp at hx
  | cons a as =>
    simp only [carrayMax]
    have hmono : ∀ (l : List α) (m : α), m ≤ l.foldl (fun m x => if m < x then x else m) m := by
      intro l
      induction l with
      | nil => intro m; exact le_refl _
      | cons b l ih =>
        intro m
        simp only [List.foldl_cons]
        refine le_trans ?_ (ih _)
        split
        · rename_i h; exact le_of_lt h
        · exact le_refl _
    have hall : ∀ (l : List α) (m : α), ∀ y ∈ l, y ≤ l.foldl (fun m x => if m < x then x else m) m := by
      intro l
      induction l with
      | nil => intro m y hy; simp at hy
      | cons b l ih =>
        intro m y hy
        simp only [List.foldl_cons]
        rcases List.mem_cons.mp hy with rfl | hy
        · refine le_trans ?_ (hmono l _)
          split
          · exact le_refl _
          · rename_i h; exact not_lt.mp h
        · exact ih _ y hy
    rcases List.mem_cons.mp hx with rfl | hx
    · exact hmono as _
    · exact hall as a x hx

theorem hmax_fold_ge (arrs : List (List (Particle α))) (m0 : α) :
    m0 ≤ arrs.foldl hmaxStep m0 ∧
    ∀ arr ∈ arrs, ∀ p ∈ arr, p.h ≤ arrs.foldl hmaxStep m0 := by
  induction arrs generalizing m0 with
  | nil => exact ⟨le_refl _, fun _ h => by simp at h⟩
  | cons a arrs ih =>
    simp only [List.foldl_cons]
    have hstep : m0 ≤ hmaxStep m0 a ∧ ∀ p ∈ a, p.h ≤ hmaxStep m0 a := by
      unfold hmaxStep
      constructor
      · split
        · rename_i h; exact le_of_lt h
        · exact le_refl _
      · intro p hp
        have := carrayMax_ge (a.map (·.h)) p.h (List.mem_map.mpr ⟨p, hp, rfl⟩)
        split
        · exact this
        · rename_i h; exact le_trans this (not_lt.mp h)
    obtain ⟨i1, i2⟩ := ih (hmaxStep m0 a)
    refine ⟨le_trans hstep.1 i1, ?_⟩
    intro arr harr p hp
    rcases List.mem_cons.mp harr with rfl | harr
    · exact le_trans (hstep.2 p hp) i1
    · exact i2 arr harr p hp

/-- `cell_size ≥ radius_scale · h` for every row present (so with
`n_layers ≥ 1` the ghost layer is at least as thick as any interaction
radius `radius_scale · max(h_i, h_j)`) -/
theorem cellSize_ge (c : Config α) (hrs : 0 ≤ c.radiusScale) (heps : c.eps ≤ 1)
    (arrs : List (List (Particle α))) (arr : List (Particle α)) (harr : arr ∈ arrs)
    (p : Particle α) (hp : p ∈ arr) : c.radiusScale * p.h ≤ cellSize c arrs := by
  have h1 : c.radiusScale * p.h ≤ c.radiusScale * arrs.foldl hmaxStep (-1) :=
    mul_le_mul_of_nonneg_left ((hmax_fold_ge arrs (-1)).2 arr harr p hp) hrs
  unfold cellSize
  simp only
  split
  · rename_i h; linarith
  · exact h1

end PysphVerif.Domain
