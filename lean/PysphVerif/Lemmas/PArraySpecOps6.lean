import PysphVerif.Lemmas.PArraySpecOps5
/-!
C06: `add_property` with data, structurally.
-/
namespace PysphVerif.PArray

theorem addProperty_some_nil (pa : PA) (name ctype : String) (dflt : Option Int) (stride : Nat) :
    pa.addProperty name ctype dflt (some []) stride = pa.addProperty name ctype dflt none stride := by
  unfold PA.addProperty
  simp

/-- the array after `default_values[name]`/`stride[name]` are written -/
def addPA1 (pa : PA) (name : String) (dflt : Option Int) (stride : Nat) : PA :=
  { pa with defaults := setKey pa.defaults name (addDv pa name dflt),
            stride := strideSet pa.stride name stride }

def fillCol (q : PA) (m : Nat) (c : Col) : Col :=
  { c with data := flat (List.replicate m (defaultRow q c.name)) }

/-- the properties just before the named column is written: an empty array is
first resized to the number of rows of the data and filled with defaults -/
def addBase (pa : PA) (name : String) (dflt : Option Int) (stride : Nat) (d : List Int) :
    List Col :=
  if pa.n = 0 then pa.props.map (fillCol (addPA1 pa name dflt stride) (d.length / stride))
  else pa.props

theorem addProperty_data_struct {pa pa' : PA} {name ctype : String} {dflt : Option Int}
    {stride : Nat} {d : List Int} (hd : d.length ≠ 0)
    (hr : pa.addProperty name ctype dflt (some d) stride = some pa') :
    pa'.defaults = (addPA1 pa name dflt stride).defaults ∧
    pa'.stride = (addPA1 pa name dflt stride).stride ∧
    ((∃ c nd, (addBase pa name dflt stride d).find? (fun (c : Col) => c.name == name) = some c ∧
        setData c.data d = some nd ∧
        pa'.props = setColL (addBase pa name dflt stride d) { c with data := nd }) ∨
     ((addBase pa name dflt stride d).find? (fun (c : Col) => c.name == name) = none ∧
        pa'.props = setColL (addBase pa name dflt stride d) ⟨name, ctype, d⟩)) := by
  unfold PA.addProperty at hr
  extract_lets n sizeOk dv pa1 noData d' nElem pa2 nreal pa3 at hr
  have hpa1 : pa1 = addPA1 pa name dflt stride := rfl
  have hd' : d' = d := rfl
  have hnd : noData = false := by simp [noData, hd]
  split at hr
  · exact absurd hr (by simp)
  split at hr
  · rename_i hn0
    have hn0 : pa.n = 0 := by simpa [n] using hn0
    have hbase : addBase pa name dflt stride d = pa3.props := by
      unfold addBase; rw [if_pos hn0]; rfl
    rw [hbase]
    split at hr
    · rename_i hno; exact absurd hno (by rw [hnd]; simp)
    · cases hcol : pa3.col? name with
      | some c =>
        rw [hcol] at hr
        simp only [] at hr
        cases hsd : setData c.data d' with
        | none => rw [hsd] at hr; exact absurd hr (by simp)
        | some nd =>
          rw [hsd] at hr
          simp only [Option.some.injEq] at hr; subst hr
          refine ⟨by rw [setCol_defaults]; rfl, by rw [setCol_stride]; rfl, Or.inl ⟨c, nd, hcol, hsd, ?_⟩⟩
          rw [setCol_props]
      | none =>
        rw [hcol] at hr
        simp only [Option.some.injEq] at hr; subst hr
        refine ⟨by rw [setCol_defaults]; rfl, by rw [setCol_stride]; rfl, Or.inr ⟨hcol, ?_⟩⟩
        rw [setCol_props]
        rfl
  · rename_i hn0
    have hn0 : pa.n ≠ 0 := by simpa [n] using hn0
    have hbase : addBase pa name dflt stride d = pa1.props := by
      unfold addBase; rw [if_neg hn0]
    rw [hbase]
    split at hr
    · rename_i hno; exact absurd hno (by rw [hnd]; simp)
    · cases hcol : pa1.col? name with
      | some c =>
        rw [hcol] at hr
        simp only [] at hr
        cases hsd : setData c.data d' with
        | none => rw [hsd] at hr; exact absurd hr (by simp)
        | some nd =>
          rw [hsd] at hr
          simp only [Option.some.injEq] at hr; subst hr
          refine ⟨by rw [setCol_defaults]; rfl, by rw [setCol_stride]; rfl, Or.inl ⟨c, nd, hcol, hsd, ?_⟩⟩
          rw [setCol_props]
      | none =>
        rw [hcol] at hr
        simp only [Option.some.injEq] at hr; subst hr
        refine ⟨by rw [setCol_defaults]; rfl, by rw [setCol_stride]; rfl, Or.inr ⟨hcol, ?_⟩⟩
        rw [setCol_props]
        rfl

/-- `add_property` with data does not raise when the size check passes and the
data fits the (possibly resized) existing column -/
theorem addProperty_data_isSome {pa : PA} {name ctype : String} {dflt : Option Int}
    {stride : Nat} {d : List Int} (hd : d.length ≠ 0)
    (hsz : pa.n = 0 ∨ (pa.n = d.length / stride ∧ d.length % stride = 0))
    (hset : ∀ c, (addBase pa name dflt stride d).find? (fun (c : Col) => c.name == name) = some c →
      d.length ≤ c.data.length) :
    ∃ pa', pa.addProperty name ctype dflt (some d) stride = some pa' := by
  unfold PA.addProperty
  extract_lets n sizeOk dv pa1 noData d' nElem pa2 nreal pa3
  have hnd : noData = false := by simp [noData, hd]
  have hso : sizeOk = true := by
    simp only [sizeOk, n]
    rcases hsz with e | ⟨e1, e2⟩
    · simp [e]
    · simp [← e1, e2]
  rw [hso, hnd]
  simp only [Bool.not_true, Bool.false_eq_true, if_false]
  split
  · rename_i hn0
    have hn0 : pa.n = 0 := by simpa [n] using hn0
    have hbase : addBase pa name dflt stride d = pa3.props := by
      unfold addBase; rw [if_pos hn0]; rfl
    rw [hbase] at hset
    cases hcol : pa3.col? name with
    | some c =>
      simp only []
      have : setData c.data d' = some (d' ++ c.data.drop d'.length) := by
        unfold setData; exact if_pos (hset c hcol)
      rw [this]
      exact ⟨_, rfl⟩
    | none => exact ⟨_, rfl⟩
  · rename_i hn0
    have hn0 : pa.n ≠ 0 := by simpa [n] using hn0
    have hbase : addBase pa name dflt stride d = pa1.props := by
      unfold addBase; rw [if_neg hn0]
    rw [hbase] at hset
    cases hcol : pa1.col? name with
    | some c =>
      simp only []
      have : setData c.data d' = some (d' ++ c.data.drop d'.length) := by
        unfold setData; exact if_pos (hset c hcol)
      rw [this]
      exact ⟨_, rfl⟩
    | none => exact ⟨_, rfl⟩

theorem rowsOf_nil (s : Nat) : rowsOf s [] = [] := by
  unfold rowsOf
  split
  · rfl
  · rfl

theorem zipWith_replicate_left {β γ δ : Type} (f : β → γ → δ) (x : β) (R : List γ) :
    List.zipWith f (List.replicate R.length x) R = R.map (f x) := by
  induction R with
  | nil => rfl
  | cons r R ih => simp [List.replicate_succ, ih]

theorem zipWith_congr_left {β γ δ : Type} (f g : β → γ → δ) (l : List β) (R : List γ)
    (h : ∀ x ∈ l, ∀ y, f x y = g x y) : List.zipWith f l R = List.zipWith g l R := by
  induction l generalizing R with
  | nil => rfl
  | cons x l ih =>
    cases R with
    | nil => rfl
    | cons y R =>
      simp only [List.zipWith_cons_cons]
      rw [h x (by simp) y, ih R (fun x hx => h x (by simp [hx]))]

theorem setField_snoc (r : Rec) (nm : String) (v w : List Int) (h : nm ∉ r.map Prod.fst) :
    setField (r ++ [(nm, v)]) nm w = setField r nm w := by
  unfold setField
  rw [setKey_new r nm w h]
  unfold setKey
  have : (r ++ [(nm, v)]).any (fun p => p.1 == nm) = true := by simp
  rw [if_pos this, List.map_append]
  congr 1
  · rw [List.map_congr_left (g := id), List.map_id]
    intro p hp
    have : p.1 ≠ nm := fun e => h (e ▸ List.mem_map_of_mem hp)
    simp [this]
  · simp

end PysphVerif.PArray
