import PysphVerif.Lemmas.Controller
/-!
C18: the solver thread never raises (never reaches `SPc.crashed`), for every
protocol variant, every program and every schedule.  The two places where
`run_queued_commands` could raise are `self.queue_dict[lock_id]` (KeyError) and
`self.queue_lock_map[lock_id].release()` (KeyError, or RuntimeError for a lock
that is not held).  Invariant `Safe`: a queued task whose lock the solver has
not yet released is still locked and still in `queue_lock_map`; `get_result`
holds the lock of a task only after the solver released it; every queued id has
its entry in `queue_dict`.
-/
set_option linter.unusedVariables false
namespace PysphVerif.Controller

/-- the task whose per-command lock the solver is about to release -/
def relcId : SPc → Option Nat
  | SPc.runRelC _ id => some id
  | _ => none

structure Safe (s : State) : Prop where
  unrel : ∀ k ∈ s.queuedLog, (k ∉ execIds s ∨ relcId s.spc = some k) →
      k ∈ s.cLocked ∧ k ∈ s.lockmap
  hold : ∀ t k, holding (s.th t).pc = some k → relcId s.spc ≠ some k
  qd : ∀ id ∈ s.queue, (lookupCmd s.qdict id).isSome = true
  alive : s.spc ≠ SPc.crashed

theorem safe_init (progs : Tid → List Op) : Safe (init progs) := by
  constructor <;> simp [init, holding, relcId]

theorem lookupCmd_append (l : List (Nat × Cmd)) (id k : Nat) (c : Cmd) :
    (lookupCmd (l ++ [(id, c)]) k).isSome = ((lookupCmd l k).isSome || decide (id = k)) := by
  unfold lookupCmd
  induction l with
  | nil => simp [List.find?]; split <;> simp_all
  | cons a as ih =>
    simp only [List.cons_append, List.find?_cons]
    split
    · simp
    · exact ih

theorem lookupCmd_filter (l : List (Nat × Cmd)) (id k : Nat) (h : k ≠ id) :
    lookupCmd (l.filter (fun e => e.1 ≠ id)) k = lookupCmd l k := by
  unfold lookupCmd
  congr 1
  rw [List.find?_filter]
  congr 1
  funext a
  by_cases hk : a.1 = k
  · have : a.1 ≠ id := fun e => h (hk ▸ e)
    simp [hk, h]
  · simp [hk]

/-- facts about the popped command that follow from `Inv` -/
theorem inflight_facts {s : State} (h : Inv s) {ctx : Ctx} {id : Nat} {c : Cmd}
    (hspc : s.spc = SPc.runAcqRes ctx id c) :
    id ∈ s.queuedLog ∧ id ∉ execIds s ∧ id ∉ s.queue := by
  have hf := h.fifo
  simp only [inflight, hspc, inflightPc_run] at hf
  have hnd := h.nodup
  rw [hf] at hnd
  refine ⟨by rw [hf]; simp, ?_, ?_⟩
  · intro hm
    exact (List.nodup_append.mp (List.nodup_append.mp hnd).1).2.2 id hm id (by simp) rfl
  · intro hm
    exact (List.nodup_append.mp hnd).2.2 id (by simp) id hm rfl

theorem queue_facts {s : State} (h : Inv s) {id : Nat} (hq : id ∈ s.queue) :
    id ∈ s.queuedLog ∧ id ∉ execIds s := by
  have hf := h.fifo
  have hnd := h.nodup
  rw [hf] at hnd
  refine ⟨by rw [hf]; simp [hq], ?_⟩
  intro hm
  exact (List.nodup_append.mp hnd).2.2 id (by simp [hm]) id hq rfl

theorem queue_head_facts {s : State} (h : Inv s) {id : Nat} {rest : List Nat}
    (hq : s.queue = id :: rest) : id ∉ rest := by
  have hnd := h.nodup
  rw [h.fifo, hq] at hnd
  have := (List.nodup_append.mp hnd).2.1
  exact (List.nodup_cons.mp this).1

theorem mem_execIds_append {l : List (Nat × Nat × Val)} {e : Nat × Nat × Val} {k : Nat} :
    k ∈ (l ++ [e]).map (·.1) ↔ k ∈ l.map (·.1) ∨ k = e.1 := by
  simp

set_option maxHeartbeats 2000000 in
theorem safe_stepIface {cfg : Cfg} {s s' : State} {t : Tid} {evs : List Ev} (h : Safe s)
    (hi : Inv s) (hq : QW s)
    (hs : stepIface cfg s t = some (s', evs)) : Safe s' := by
  have i1 := hi.wants
  have i2 := hi.holds
  have i3 := hi.pend
  have i4 := hi.pendLocked
  have i5 := hi.lockmapQueued
  have i6 := hi.locked
  have i7 := fun id (hid : id ∈ s.queue) => (queue_facts hi hid).1
  unfold stepIface at hs
  simp only [wakeOneP, wakeQ, startOp] at hs
  (repeat' split at hs) <;>
  first
  | (cases hs; done)
  | (simp only [Option.some.injEq, Prod.mk.injEq] at hs
     obtain ⟨rfl, -⟩ := hs
     obtain ⟨a1, a2, a3, a4⟩ := h
     constructor <;> (try simp only [setPc, execIds] at *) <;>
       grind [holding, wantsResult, pendingId, QW, lookupCmd_append, relcId])

set_option maxHeartbeats 2000000 in
theorem safe_stepSolver {cfg : Cfg} {s s' : State} {evs : List Ev} (h : Safe s)
    (hi : Inv s)
    (hs : stepSolver cfg s = some (s', evs)) : Safe s' := by
  have i1 := hi.wants
  have i2 := hi.holds
  have i3 := hi.relc
  have i4 := fun k (hk : k ∈ execIds s) => execIds_sub_queued hi hk
  have i5 := fun ctx id c (hspc : s.spc = SPc.runAcqRes ctx id c) => inflight_facts hi hspc
  have i6 := fun id (hid : id ∈ s.queue) => queue_facts hi hid
  have i7 := fun id rest (hq : s.queue = id :: rest) => queue_head_facts hi hq
  have i8 : ∀ ctx id c, s.spc = SPc.runAcqRes ctx id c → ∀ k ∈ s.queue,
      (lookupCmd (s.qdict.filter (fun e => e.1 ≠ id)) k).isSome = true := by
    intro ctx id c hspc k hk
    rw [lookupCmd_filter _ _ _ (by intro e; subst e; exact (inflight_facts hi hspc).2.2 hk)]
    exact h.qd k hk
  unfold stepSolver at hs
  simp only [runQueue, afterRun, checkPause, wakeAllP] at hs
  (repeat' split at hs) <;>
  first
  | (cases hs; done)
  | (simp only [Option.some.injEq, Prod.mk.injEq] at hs
     obtain ⟨rfl, -⟩ := hs
     obtain ⟨a1, a2, a3, a4⟩ := h
     constructor <;> (try simp only [execIds] at *) <;>
       first
       | (exact i8 _ _ _ (by assumption))
       | ((repeat' split) <;> grind [holding, relcId]))

theorem reachable_safe {cfg : Cfg} {progs : Tid → List Op} {s : State}
    (hr : Reachable cfg progs s) : Safe s := by
  induction hr with
  | init => exact safe_init progs
  | @step s s' t evs hr hs ih =>
    have hi := reachable_inv hr
    unfold step at hs
    split at hs
    · exact safe_stepSolver ih hi.1 hs
    · exact safe_stepIface ih hi.1 hi.2 hs

end PysphVerif.Controller
