import PysphVerif.Lemmas.ControllerWait
import PysphVerif.Lemmas.ControllerSafe
/-!
C18, repaired protocol (`Cfg.fixed`): ownership invariants of the dispatch
lock, `res_lock` and `qlock` (in both directions: "a thread at a holding
program counter owns the lock" and "the owner is at a holding program
counter"), of `plock` (backwards; forwards is `W.owner`), and the facts about
`qlock`'s wait set that make the solver's wake-up by `dispatch` impossible to
lose.  Each group is its own small structure with its own preservation lemma.
-/
set_option linter.unusedVariables false
namespace PysphVerif.Controller

/-- program counters at which an interface thread holds the dispatch lock -/
def ownsD : IPc → Bool
  | IPc.gRelD _ | IPc.sRelD | IPc.qAcqC _ _ | IPc.qAcqQ _ _ | IPc.qNtaQ _ | IPc.qRelQ _
  | IPc.qRelD _ => true
  | _ => false

/-- … holds `res_lock` -/
def ownsRes : IPc → Bool
  | IPc.rRelRes _ _ => true
  | _ => false

def sOwnsRes : SPc → Bool
  | SPc.runRelC _ _ | SPc.runRelRes _ => true
  | _ => false

/-- … holds `qlock` -/
def ownsQ : IPc → Bool
  | IPc.qNtaQ _ | IPc.qRelQ _ | IPc.cNtaQ | IPc.cRelQ => true
  | _ => false

def sOwnsQ : SPc → Bool
  | SPc.relQ1 | SPc.acqP | SPc.ntaP | SPc.relP | SPc.waitQ | SPc.relQ2
  | SPc.runAcqRes _ _ _ | SPc.runRelC _ _ | SPc.runRelRes _ => true
  | _ => false

/-- the dispatching thread is about to `qlock.notify_all()` -/
def isQNta : IPc → Bool
  | IPc.qNtaQ _ => true
  | _ => false

/-! ### the dispatch lock -/

structure LD (s : State) : Prop where
  d1 : ∀ u, ownsD (s.th u).pc = true → s.dlock = some u
  d2 : ∀ v, s.dlock = some v → ownsD (s.th v).pc = true

theorem ld_init (progs : Tid → List Op) : LD (init progs) := by
  constructor <;> simp [init, ownsD]

theorem ld_stepIface {s s' : State} {t : Tid} {evs : List Ev} (h : LD s)
    (hw : ∀ u ∈ s.pWait, (s.th u).pc = IPc.wBlocked)
    (hs : stepIface Cfg.fixed s t = some (s', evs)) : LD s' := by
  unfold stepIface at hs
  simp only [Cfg.fixed, wakeOneP, wakeQ, startOp] at hs
  (repeat' split at hs) <;>
  first
  | (cases hs; done)
  | (simp only [Bool.false_eq_true, if_false, Option.some.injEq, Prod.mk.injEq] at hs
     obtain ⟨rfl, -⟩ := hs
     obtain ⟨a1, a2⟩ := h
     constructor <;> (try simp only [setPc]) <;> grind [ownsD])

theorem ld_stepSolver {s s' : State} {evs : List Ev} (h : LD s)
    (hw : ∀ u ∈ s.pWait, (s.th u).pc = IPc.wBlocked)
    (hs : stepSolver Cfg.fixed s = some (s', evs)) : LD s' := by
  unfold stepSolver at hs
  simp only [Cfg.fixed, runQueue, afterRun, checkPause, wakeAllP] at hs
  (repeat' split at hs) <;>
  first
  | (cases hs; done)
  | (simp only [Option.some.injEq, Prod.mk.injEq] at hs
     obtain ⟨rfl, -⟩ := hs
     obtain ⟨a1, a2⟩ := h
     constructor <;> (repeat' split) <;> grind [ownsD])

/-! ### `res_lock` -/

structure LR (s : State) : Prop where
  r1 : ∀ u, ownsRes (s.th u).pc = true → s.resLock = some u
  r2 : sOwnsRes s.spc = true → s.resLock = some 0
  r3 : ∀ v, s.resLock = some v → (v = 0 ∧ sOwnsRes s.spc = true) ∨ ownsRes (s.th v).pc = true

theorem lr_init (progs : Tid → List Op) : LR (init progs) := by
  constructor <;> simp [init, ownsRes, sOwnsRes]

set_option maxHeartbeats 2000000 in
theorem lr_stepIface {s s' : State} {t : Tid} {evs : List Ev} (h : LR s)
    (hw : ∀ u ∈ s.pWait, (s.th u).pc = IPc.wBlocked) (hz : (s.th 0).pc = IPc.idle)
    (hq : QW s) (ht : t ≠ 0)
    (hs : stepIface Cfg.fixed s t = some (s', evs)) : LR s' := by
  unfold stepIface at hs
  simp only [Cfg.fixed, wakeOneP, wakeQ, startOp] at hs
  (repeat' split at hs) <;>
  first
  | (cases hs; done)
  | (simp only [Bool.false_eq_true, if_false, Option.some.injEq, Prod.mk.injEq] at hs
     obtain ⟨rfl, -⟩ := hs
     obtain ⟨a1, a2, a3⟩ := h
     constructor <;> (try simp only [setPc]) <;> grind [ownsRes, sOwnsRes, QW])

set_option maxHeartbeats 2000000 in
theorem lr_stepSolver {s s' : State} {evs : List Ev} (h : LR s)
    (hw : ∀ u ∈ s.pWait, (s.th u).pc = IPc.wBlocked) (hz : (s.th 0).pc = IPc.idle)
    (hq : QW s) (hal : s'.spc ≠ SPc.crashed)
    (hs : stepSolver Cfg.fixed s = some (s', evs)) : LR s' := by
  unfold stepSolver at hs
  simp only [Cfg.fixed, runQueue, afterRun, checkPause, wakeAllP] at hs
  (repeat' split at hs) <;>
  first
  | (cases hs; done)
  | (simp only [Option.some.injEq, Prod.mk.injEq] at hs
     obtain ⟨rfl, -⟩ := hs
     obtain ⟨a1, a2, a3⟩ := h
     constructor <;> (repeat' split) <;> grind [ownsRes, sOwnsRes, QW])

/-! ### `qlock` and its wait set -/

structure LQ (s : State) : Prop where
  q1 : ∀ u, ownsQ (s.th u).pc = true → s.qOwner = some u
  q2 : sOwnsQ s.spc = true → s.qOwner = some 0
  q3 : ∀ v, s.qOwner = some v → (v = 0 ∧ sOwnsQ s.spc = true) ∨ ownsQ (s.th v).pc = true
  /-- the blocked solver is in `qlock`'s wait set (nobody has notified it yet) -/
  bw : s.spc = SPc.blocked → s.qWaiting = true
  /-- the solver goes to sleep only with an empty queue … -/
  wq : s.spc = SPc.waitQ → s.queue = []
  /-- … and leaves the first `run_queued_commands` only with an empty queue -/
  rq : s.spc = SPc.relQ1 → s.queue = []
  /-- … and whoever appends to the queue of a sleeping solver is about to notify it -/
  nq : s.spc = SPc.blocked → (∀ u, s.qOwner = some u → isQNta (s.th u).pc = false) → s.queue = []

theorem lq_init (progs : Tid → List Op) : LQ (init progs) := by
  constructor <;> simp [init, ownsQ, sOwnsQ]

set_option maxHeartbeats 2000000 in
theorem lq_stepIface {s s' : State} {t : Tid} {evs : List Ev} (h : LQ s)
    (hw : ∀ u ∈ s.pWait, (s.th u).pc = IPc.wBlocked) (hz : (s.th 0).pc = IPc.idle)
    (hq : QW s) (ht : t ≠ 0)
    (hs : stepIface Cfg.fixed s t = some (s', evs)) : LQ s' := by
  unfold stepIface at hs
  simp only [Cfg.fixed, wakeOneP, wakeQ, startOp] at hs
  (repeat' split at hs) <;>
  first
  | (cases hs; done)
  | (simp only [Bool.false_eq_true, if_false, Option.some.injEq, Prod.mk.injEq] at hs
     obtain ⟨rfl, -⟩ := hs
     obtain ⟨a1, a2, a3, a4, a5, a7, a6⟩ := h
     constructor <;> (try simp only [setPc]) <;> grind [ownsQ, sOwnsQ, isQNta, QW])

set_option maxHeartbeats 2000000 in
theorem lq_stepSolver {s s' : State} {evs : List Ev} (h : LQ s)
    (hw : ∀ u ∈ s.pWait, (s.th u).pc = IPc.wBlocked) (hz : (s.th 0).pc = IPc.idle)
    (hq : QW s) (hal : s'.spc ≠ SPc.crashed)
    (hs : stepSolver Cfg.fixed s = some (s', evs)) : LQ s' := by
  unfold stepSolver at hs
  simp only [Cfg.fixed, runQueue, afterRun, checkPause, wakeAllP] at hs
  (repeat' split at hs) <;>
  first
  | (cases hs; done)
  | (simp only [Option.some.injEq, Prod.mk.injEq] at hs
     obtain ⟨rfl, -⟩ := hs
     obtain ⟨a1, a2, a3, a4, a5, a7, a6⟩ := h
     constructor <;> (repeat' split) <;> grind [ownsQ, sOwnsQ, isQNta, QW])

/-! ### `plock`, backwards -/

structure LP (s : State) : Prop where
  p3 : ∀ v, s.pOwner = some v →
        (v = 0 ∧ (s.spc = SPc.ntaP ∨ s.spc = SPc.relP)) ∨ holdsP (s.th v).pc = true

theorem lp_init (progs : Tid → List Op) : LP (init progs) := by
  constructor; simp [init]

set_option maxHeartbeats 2000000 in
theorem lp_stepIface {s s' : State} {t : Tid} {evs : List Ev} (h : LP s)
    (hw : ∀ u ∈ s.pWait, (s.th u).pc = IPc.wBlocked) (hz : (s.th 0).pc = IPc.idle)
    (hq : QW s) (ht : t ≠ 0)
    (hs : stepIface Cfg.fixed s t = some (s', evs)) : LP s' := by
  unfold stepIface at hs
  simp only [Cfg.fixed, wakeOneP, wakeQ, startOp] at hs
  (repeat' split at hs) <;>
  first
  | (cases hs; done)
  | (simp only [Bool.false_eq_true, if_false, Option.some.injEq, Prod.mk.injEq] at hs
     obtain ⟨rfl, -⟩ := hs
     obtain ⟨a1⟩ := h
     constructor <;> (try simp only [setPc]) <;> grind [holdsP, QW])

set_option maxHeartbeats 2000000 in
theorem lp_stepSolver {s s' : State} {evs : List Ev} (h : LP s)
    (hw : ∀ u ∈ s.pWait, (s.th u).pc = IPc.wBlocked) (hz : (s.th 0).pc = IPc.idle)
    (hq : QW s) (hal : s'.spc ≠ SPc.crashed)
    (hs : stepSolver Cfg.fixed s = some (s', evs)) : LP s' := by
  unfold stepSolver at hs
  simp only [Cfg.fixed, runQueue, afterRun, checkPause, wakeAllP] at hs
  (repeat' split at hs) <;>
  first
  | (cases hs; done)
  | (simp only [Option.some.injEq, Prod.mk.injEq] at hs
     obtain ⟨rfl, -⟩ := hs
     obtain ⟨a1⟩ := h
     constructor <;> (repeat' split) <;> grind [holdsP, QW])

/-! ### who holds a per-command lock

A held per-command lock belongs to the dispatching thread that is about to
queue the task, or to the task itself while it is queued / in flight / being
released by the solver, or to a `get_result` call that has got past it. -/

structure COwn (s : State) : Prop where
  cown : ∀ k ∈ s.cLocked, (∀ v c, (s.th v).pc ≠ IPc.qAcqQ c k) →
      (∀ v, holding (s.th v).pc ≠ some k) →
      k ∈ s.queuedLog ∧ (k ∉ execIds s ∨ relcId s.spc = some k)

theorem cown_init (progs : Tid → List Op) : COwn (init progs) := by
  constructor; simp [init]

set_option maxHeartbeats 2000000 in
theorem cown_stepIface {cfg : Cfg} {s s' : State} {t : Tid} {evs : List Ev} (h : COwn s)
    (hi : Inv s) (hq : QW s)
    (hw : ∀ u ∈ s.pWait, (s.th u).pc = IPc.wBlocked)
    (hs : stepIface cfg s t = some (s', evs)) : COwn s' := by
  have i2 := hi.holds
  have i3 := hi.pend
  have i4 := fun k (hk : k ∈ execIds s) => execIds_sub_queued hi hk
  unfold stepIface at hs
  simp only [wakeOneP, wakeQ, startOp] at hs
  (repeat' split at hs) <;>
  first
  | (cases hs; done)
  | (simp only [Option.some.injEq, Prod.mk.injEq] at hs
     obtain ⟨rfl, -⟩ := hs
     obtain ⟨a1⟩ := h
     constructor <;> (try simp only [setPc, execIds] at *) <;>
       grind [holding, pendingId, QW, relcId])

set_option maxHeartbeats 2000000 in
theorem cown_stepSolver {cfg : Cfg} {s s' : State} {evs : List Ev} (h : COwn s)
    (hi : Inv s)
    (hw : ∀ u ∈ s.pWait, (s.th u).pc = IPc.wBlocked) (hal : s'.spc ≠ SPc.crashed)
    (hs : stepSolver cfg s = some (s', evs)) : COwn s' := by
  have i5 := fun ctx id c (hspc : s.spc = SPc.runAcqRes ctx id c) => inflight_facts hi hspc
  unfold stepSolver at hs
  simp only [runQueue, afterRun, checkPause, wakeAllP] at hs
  (repeat' split at hs) <;>
  first
  | (cases hs; done)
  | (simp only [Option.some.injEq, Prod.mk.injEq] at hs
     obtain ⟨rfl, -⟩ := hs
     obtain ⟨a1⟩ := h
     constructor <;> (try simp only [execIds, List.map_append, List.map_cons, List.map_nil,
       List.mem_append, List.mem_singleton] at *) <;> (repeat' split) <;>
       grind [holding, relcId])

theorem reachable_cown {cfg : Cfg} {progs : Tid → List Op} {s : State}
    (hwp : cfg.waitPred = true) (hn : cfg.contNested = false)
    (hr : Reachable cfg progs s) : COwn s := by
  induction hr with
  | init => exact cown_init progs
  | @step s s' t evs hr hs ih =>
    have hi := reachable_inv hr
    have hw := (reachable_w hwp hn hr).waiting
    have hal := (reachable_safe (Reachable.step hr hs)).alive
    unfold step at hs
    split at hs
    · exact cown_stepSolver ih hi.1 hw hal hs
    · exact cown_stepIface ih hi.1 hi.2 hw hs

/-- all the ownership invariants of the repaired protocol -/
structure Locks (s : State) : Prop where
  ld : LD s
  lr : LR s
  lq : LQ s
  lp : LP s
  co : COwn s

theorem reachable_locks {progs : Tid → List Op} {s : State}
    (hr : Reachable Cfg.fixed progs s) : Locks s := by
  induction hr with
  | init => exact ⟨ld_init progs, lr_init progs, lq_init progs, lp_init progs, cown_init progs⟩
  | @step s s' t evs hr hs ih =>
    have hi := reachable_inv hr
    have hW := reachable_w (cfg := Cfg.fixed) rfl rfl hr
    have hw := hW.waiting
    have hz := hW.zero
    have hal := (reachable_safe (Reachable.step hr hs)).alive
    unfold step at hs
    split at hs
    · exact ⟨ld_stepSolver ih.ld hw hs, lr_stepSolver ih.lr hw hz hi.2 hal hs,
        lq_stepSolver ih.lq hw hz hi.2 hal hs, lp_stepSolver ih.lp hw hz hi.2 hal hs,
        cown_stepSolver ih.co hi.1 hw hal hs⟩
    · rename_i ht
      exact ⟨ld_stepIface ih.ld hw hs, lr_stepIface ih.lr hw hz hi.2 ht hs,
        lq_stepIface ih.lq hw hz hi.2 ht hs, lp_stepIface ih.lp hw hz hi.2 ht hs,
        cown_stepIface ih.co hi.1 hi.2 hw hs⟩

end PysphVerif.Controller
