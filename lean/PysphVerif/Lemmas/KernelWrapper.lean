import PysphVerif.Model.KernelWrapper
import PysphVerif.Lemmas.Kernel
/-!
C08 — histories of calls on one compiled kernel wrapper (`Model/KernelWrapper.lean`).

* `observe_eq_observeNow`: a wrapper whose methods return VALUES (numbers, tuples of
  new floats) hands out results that no later call can change — for every kernel,
  even one that leaves stale components in the scratch buffer;
* `observe_canonical`: for the template as it reads today and a kernel whose
  `gradient` stores all three components, every retained result of every history
  is a function of that call's own arguments;
* `realOps`, `wrapperSpec`: the instance over ℝ on a generated kernel table.
-/
namespace PysphVerif.KernelWrapper

section
variable {α : Type}

def Obj.isValue : Obj α → Bool
  | .alias _ => false
  | _ => true

theorem Obj.read_of_isValue {ob : Obj α} (h : ob.isValue = true) (s s' : St α) :
    ob.read s = ob.read s' := by
  cases ob <;> simp_all [Obj.isValue, Obj.read]

theorem retObj_isValue (o : Ops α) (c : Call α) (f : Frame α) {r : Ret}
    (h : r.isValue = true) : (retObj o c f r).isValue = true := by
  cases r <;> simp_all [Ret.isValue, retObj, Obj.isValue]

theorem step_isValue (o : Ops α) (code : Code) (hk : code.kernel.ret.isValue = true)
    (hg : code.gradient.ret.isValue = true) (s : St α) (c : Call α) :
    (step o code s c).2.isValue = true := by
  unfold step callMethod
  apply retObj_isValue
  unfold Code.method
  split <;> assumption

/-- value results are immune to later calls: looking at every retained result after the
whole history shows what each showed when it was returned -/
theorem observe_eq_observeNow (o : Ops α) (code : Code)
    (hk : code.kernel.ret.isValue = true) (hg : code.gradient.ret.isValue = true) :
    ∀ (cs : List (Call α)) (s : St α), observe o code s cs = observeNow o code s cs := by
  intro cs
  induction cs with
  | nil => intro s; rfl
  | cons c cs ih =>
    intro s
    have ih' := ih (step o code s c).1
    unfold observe at ih' ⊢
    simp only [run, observeNow, List.map_cons]
    rw [ih']
    congr 1
    exact Obj.read_of_isValue (step_isValue o code hk hg s c) _ _

theorem arg0 (c : Call α) : c.arg 0 = c.xi.x := rfl
theorem arg1 (c : Call α) : c.arg 1 = c.xi.y := rfl
theorem arg2 (c : Call α) : c.arg 2 = c.xi.z := rfl
theorem arg3 (c : Call α) : c.arg 3 = c.xj.x := rfl
theorem arg4 (c : Call α) : c.arg 4 = c.xj.y := rfl
theorem arg5 (c : Call α) : c.arg 5 = c.xj.z := rfl

/-- one call on the template as it reads today: the object returned, looked at in ANY later
state, shows the pure function of the call's arguments -/
theorem step_canonical_read (o : Ops α)
    (hfull : ∀ x r h b b', o.gradient x r h b = o.gradient x r h b')
    (z : V3 α) (s s' : St α) (c : Call α) :
    (step o canonical s c).2.read s' = pureResult o z c := by
  unfold step callMethod Code.method pureResult
  cases hc : c.isGrad
  · simp [canonical, sepAll, execBody, execStmt, retObj, Obj.read, St.getBuf, St.setBuf, V3.set,
      arg0, arg1, arg2, arg3, arg4, arg5, sepOf, normOf]
  · simp [canonical, sepAll, execBody, execStmt, retObj, Obj.read, St.getBuf, St.setBuf, V3.set,
      V3.get, V3.toList, arg0, arg1, arg2, arg3, arg4, arg5, sepOf, normOf]
    rw [hfull _ _ _ s.grad z]
    simp

theorem canonical_isValue : canonical.kernel.ret.isValue = true ∧
    canonical.gradient.ret.isValue = true := by decide

theorem observeNow_canonical (o : Ops α)
    (hfull : ∀ x r h b b', o.gradient x r h b = o.gradient x r h b') (z : V3 α) :
    ∀ (cs : List (Call α)) (s : St α), observeNow o canonical s cs = cs.map (pureResult o z) := by
  intro cs
  induction cs with
  | nil => intro s; rfl
  | cons c cs ih =>
    intro s
    simp only [observeNow, List.map_cons]
    rw [ih, step_canonical_read o hfull z]

/-- every retained result of every history on one wrapper, from any initial contents of the
scratch members, is the pure function of that call's arguments -/
theorem observe_canonical (o : Ops α)
    (hfull : ∀ x r h b b', o.gradient x r h b = o.gradient x r h b') (z : V3 α)
    (cs : List (Call α)) (s : St α) : observe o canonical s cs = cs.map (pureResult o z) := by
  rw [observe_eq_observeNow o canonical canonical_isValue.1 canonical_isValue.2,
    observeNow_canonical o hfull z]

end

/-! ### the wrapper of a generated kernel table, over ℝ -/
open PysphVerif.Kernel

/-- real arithmetic; the kernel object is the table `K` (`Lemmas/Kernel.lean`: `W`, `gradient`),
whose `gradient` stores all three components whatever the buffer held -/
noncomputable def realOps (K : KTable) : Ops ℝ :=
  { sub := fun a b => a - b, add := fun a b => a + b, mul := fun a b => a * b,
    sqrt := Real.sqrt,
    kernel := fun _ r h => W K r h,
    gradient := fun x r h _ => ⟨gradient K 0 x.x x.y x.z r h, gradient K 1 x.x x.y x.z r h,
      gradient K 2 x.x x.y x.z r h⟩,
    undef := 0 }

/-- the separation vector and the distance of a call -/
def sepR (c : Call ℝ) : V3 ℝ := ⟨c.xi.x - c.xj.x, c.xi.y - c.xj.y, c.xi.z - c.xj.z⟩
noncomputable def distR (c : Call ℝ) : ℝ :=
  Real.sqrt ((sepR c).x * (sepR c).x + (sepR c).y * (sepR c).y + (sepR c).z * (sepR c).z)

/-- what a call on the wrapper of table `K` must show, now and later -/
noncomputable def wrapperSpec (K : KTable) (c : Call ℝ) : List ℝ :=
  if c.isGrad then
    [gradient K 0 (sepR c).x (sepR c).y (sepR c).z (distR c) c.h,
     gradient K 1 (sepR c).x (sepR c).y (sepR c).z (distR c) c.h,
     gradient K 2 (sepR c).x (sepR c).y (sepR c).z (distR c) c.h]
  else [W K (distR c) c.h]

theorem pureResult_realOps (K : KTable) (z : V3 ℝ) (c : Call ℝ) :
    pureResult (realOps K) z c = wrapperSpec K c := by
  unfold pureResult wrapperSpec
  cases c.isGrad <;> simp [realOps, sepOf, normOf, sepR, distR, V3.toList]

end PysphVerif.KernelWrapper
