import Mathlib.Tactic.Ring
import Mathlib.Tactic.Linarith
import Mathlib.Tactic.LinearCombination
import Mathlib.Algebra.Order.Field.Basic
import Mathlib.Algebra.BigOperators.Group.Finset.Basic
import Mathlib.Algebra.BigOperators.Group.Finset.Sigma
import Mathlib.Algebra.BigOperators.Ring.Finset
import Mathlib.Algebra.Order.BigOperators.Group.List
import PysphVerif.Gen.C09Equations
/-!
# C09 — helper lemmas

* the combinatorial core: a pair-antisymmetric interaction over a symmetric
  neighbour relation sums to zero (`sum_pair_antisym_eq_zero`), also for the
  moment of a central interaction (`torque_component_zero`);
* the neighbour loop as a fold: an additive step accumulates the sum of the
  pair contributions (`foldl_additive`), hence the system-level statements
  `linear_momentum_of_pair`, `angular_momentum_of_pair`;
* how every generated precomputed symbol behaves under the exchange of
  destination and source (`*_swap`), for a kernel of radial shape
  (`Radial`: `W = w(r,h)`, `∇W = g(r,h)·x`), and the tactic `c09_swap` that
  rewrites the `(b, a)` symbols of a goal into the `(a, b)` ones.
-/
namespace PysphVerif.C09
open PysphVerif.PairSym PysphVerif.Gen.C09
set_option linter.unusedSectionVars false
set_option linter.unusedVariables false
set_option linter.unusedTactic false
set_option linter.unreachableTactic false

/-! ## sums over a symmetric neighbour relation -/

/-- A pair-antisymmetric interaction summed over a symmetric neighbour
relation vanishes (in any commutative group without 2-torsion). -/
theorem sum_pair_antisym_eq_zero_of_no_two_torsion {ι M : Type*} [Fintype ι] [DecidableEq ι]
    [AddCommGroup M] (h2 : ∀ x : M, x + x = 0 → x = 0) (nbr : ι → Finset ι)
    (hsymm : ∀ i j, j ∈ nbr i → i ∈ nbr j)
    (F : ι → ι → M) (hF : ∀ i j, j ∈ nbr i → F i j = -F j i) :
    ∑ i, ∑ j ∈ nbr i, F i j = 0 := by
  apply h2
  have h1 : ∀ i, ∑ j ∈ nbr i, F i j = ∑ j, if j ∈ nbr i then F i j else 0 := by
    intro i
    rw [Finset.sum_ite_mem, Finset.univ_inter]
  have h3 : ∑ i, ∑ j ∈ nbr i, F i j = -∑ i, ∑ j ∈ nbr i, F i j := by
    calc ∑ i, ∑ j ∈ nbr i, F i j
        = ∑ i, ∑ j, if j ∈ nbr i then F i j else 0 := by simp only [h1]
      _ = ∑ j, ∑ i, if j ∈ nbr i then F i j else 0 := Finset.sum_comm
      _ = ∑ j, ∑ i, if i ∈ nbr j then -F j i else 0 := by
          refine Finset.sum_congr rfl (fun j _ => Finset.sum_congr rfl (fun i _ => ?_))
          by_cases h : j ∈ nbr i
          · rw [if_pos h, if_pos (hsymm i j h), hF i j h]
          · have h' : i ∉ nbr j := fun hh => h (hsymm j i hh)
            rw [if_neg h, if_neg h']
      _ = -∑ j, ∑ i, if i ∈ nbr j then F j i else 0 := by
          rw [← Finset.sum_neg_distrib]
          refine Finset.sum_congr rfl (fun j _ => ?_)
          rw [← Finset.sum_neg_distrib]
          refine Finset.sum_congr rfl (fun i _ => ?_)
          split_ifs <;> simp
      _ = -∑ i, ∑ j ∈ nbr i, F i j := by simp only [h1]
  calc ∑ i, ∑ j ∈ nbr i, F i j + ∑ i, ∑ j ∈ nbr i, F i j
      = -∑ i, ∑ j ∈ nbr i, F i j + ∑ i, ∑ j ∈ nbr i, F i j := by rw [← h3]
    _ = 0 := neg_add_cancel _

variable {K : Type} [Field K] [LinearOrder K] [IsStrictOrderedRing K]

theorem no_two_torsion (x : K) (h : x + x = 0) : x = 0 := by linarith

/-- `sum_pair_antisym_eq_zero` over an ordered field. -/
theorem sum_pair_antisym_eq_zero {ι : Type*} [Fintype ι] [DecidableEq ι]
    (nbr : ι → Finset ι) (hsymm : ∀ i j, j ∈ nbr i → i ∈ nbr j)
    (F : ι → ι → K) (hF : ∀ i j, j ∈ nbr i → F i j = -F j i) :
    ∑ i, ∑ j ∈ nbr i, F i j = 0 :=
  sum_pair_antisym_eq_zero_of_no_two_torsion no_two_torsion nbr hsymm F hF

/-- One component of the total moment of a pair-antisymmetric *central*
interaction (`(X i − X j)·FY i j = (Y i − Y j)·FX i j`, i.e. the force is
parallel to the separation, degenerate cases included) vanishes. -/
theorem torque_component_zero {ι : Type*} [Fintype ι] [DecidableEq ι]
    (nbr : ι → Finset ι) (hsymm : ∀ i j, j ∈ nbr i → i ∈ nbr j)
    (X Y : ι → K) (FX FY : ι → ι → K)
    (hX : ∀ i j, j ∈ nbr i → FX i j = -FX j i)
    (hY : ∀ i j, j ∈ nbr i → FY i j = -FY j i)
    (hc : ∀ i j, j ∈ nbr i → (X i - X j) * FY i j = (Y i - Y j) * FX i j) :
    ∑ i, ∑ j ∈ nbr i, (X i * FY i j - Y i * FX i j) = 0 := by
  apply sum_pair_antisym_eq_zero nbr hsymm
  intro i j hj
  have hx := hX i j hj
  have hy := hY i j hj
  have h := hc i j hj
  have e1 : FX j i = -FX i j := by rw [hx]; ring
  have e2 : FY j i = -FY i j := by rw [hy]; ring
  rw [e1, e2]
  linear_combination h

/-! ## the neighbour loop as a fold -/

/-- A step that adds `c j` to the observed component accumulates the sum. -/
theorem foldl_additive {σ ι : Type*} (get : σ → K) (step : σ → ι → σ) (c : ι → K)
    (h : ∀ acc j, get (step acc j) = get acc + c j) (l : List ι) (acc0 : σ) :
    get (l.foldl step acc0) = get acc0 + (l.map c).sum := by
  induction l generalizing acc0 with
  | nil => simp
  | cons x xs ih => simp only [List.foldl_cons, List.map_cons, List.sum_cons, ih, h]; ring

/-- The system-level statement behind every `linear_momentum_<Eq>`:
evaluate, for every particle `i`, the fold of `step i` over its neighbour
list starting from an accumulator whose observed component is 0; if the step
is additive and the mass-weighted pair contributions are antisymmetric, the
mass-weighted total vanishes. -/
theorem linear_momentum_of_pair {ι σ : Type*} [Fintype ι] [DecidableEq ι]
    (m : ι → K) (nbrs : ι → List ι) (hnd : ∀ i, (nbrs i).Nodup)
    (hsymm : ∀ i j, j ∈ nbrs i → i ∈ nbrs j)
    (step : ι → σ → ι → σ) (get : σ → K) (init : ι → σ) (hinit : ∀ i, get (init i) = 0)
    (hadd : ∀ i j acc acc', get (step i acc j) - get acc = get (step i acc' j) - get acc')
    (hanti : ∀ i j acc acc', m i * (get (step i acc j) - get acc)
                = -(m j * (get (step j acc' i) - get acc'))) :
    ∑ i, m i * get ((nbrs i).foldl (step i) (init i)) = 0 := by
  classical
  have hfold : ∀ i, get ((nbrs i).foldl (step i) (init i))
      = ∑ j ∈ (nbrs i).toFinset, (get (step i (init i) j) - get (init i)) := by
    intro i
    rw [foldl_additive get (step i) (fun j => get (step i (init i) j) - get (init i))
      (fun acc j => by have := hadd i j acc (init i); linarith) (nbrs i) (init i), hinit i,
      zero_add, List.sum_toFinset _ (hnd i)]
  simp only [hfold, Finset.mul_sum]
  apply sum_pair_antisym_eq_zero (fun i => (nbrs i).toFinset)
  · intro i j hj
    rw [List.mem_toFinset] at hj ⊢
    exact hsymm i j hj
  · intro i j _
    exact hanti i j (init i) (init j)

/-- The system-level statement behind every `angular_momentum_<Eq>`: one
component of `Σ m x × a` for additive, antisymmetric, central steps. -/
theorem angular_momentum_of_pair {ι σ : Type*} [Fintype ι] [DecidableEq ι]
    (m X Y : ι → K) (nbrs : ι → List ι) (hnd : ∀ i, (nbrs i).Nodup)
    (hsymm : ∀ i j, j ∈ nbrs i → i ∈ nbrs j)
    (step : ι → σ → ι → σ) (getX getY : σ → K) (init : ι → σ)
    (hinitX : ∀ i, getX (init i) = 0) (hinitY : ∀ i, getY (init i) = 0)
    (haddX : ∀ i j acc acc', getX (step i acc j) - getX acc = getX (step i acc' j) - getX acc')
    (haddY : ∀ i j acc acc', getY (step i acc j) - getY acc = getY (step i acc' j) - getY acc')
    (hantiX : ∀ i j acc acc', m i * (getX (step i acc j) - getX acc)
                = -(m j * (getX (step j acc' i) - getX acc')))
    (hantiY : ∀ i j acc acc', m i * (getY (step i acc j) - getY acc)
                = -(m j * (getY (step j acc' i) - getY acc')))
    (hcentral : ∀ i j acc, (X i - X j) * (getY (step i acc j) - getY acc)
                = (Y i - Y j) * (getX (step i acc j) - getX acc)) :
    ∑ i, m i * (X i * getY ((nbrs i).foldl (step i) (init i))
                - Y i * getX ((nbrs i).foldl (step i) (init i))) = 0 := by
  classical
  have hfold : ∀ (get : σ → K) (hinit : ∀ i, get (init i) = 0)
      (hadd : ∀ i j acc acc', get (step i acc j) - get acc = get (step i acc' j) - get acc') i,
      get ((nbrs i).foldl (step i) (init i))
      = ∑ j ∈ (nbrs i).toFinset, (get (step i (init i) j) - get (init i)) := by
    intro get hinit hadd i
    rw [foldl_additive get (step i) (fun j => get (step i (init i) j) - get (init i))
      (fun acc j => by have := hadd i j acc (init i); linarith) (nbrs i) (init i), hinit i,
      zero_add, List.sum_toFinset _ (hnd i)]
  have key := torque_component_zero (K := K) (fun i => (nbrs i).toFinset)
    (fun i j hj => by rw [List.mem_toFinset] at hj ⊢; exact hsymm i j hj) X Y
    (fun i j => m i * (getX (step i (init i) j) - getX (init i)))
    (fun i j => m i * (getY (step i (init i) j) - getY (init i)))
    (fun i j _ => hantiX i j (init i) (init j))
    (fun i j _ => hantiY i j (init i) (init j))
    (fun i j _ => by
      have h := hcentral i j (init i)
      linear_combination (m i) * h)
  rw [← key]
  refine Finset.sum_congr rfl (fun i _ => ?_)
  rw [hfold getX hinitX haddX i, hfold getY hinitY haddY i, Finset.mul_sum, Finset.mul_sum,
    ← Finset.sum_sub_distrib, Finset.mul_sum]
  refine Finset.sum_congr rfl (fun j _ => ?_)
  ring

/-- A fold of non-negative additive steps is at least any single step. -/
theorem foldl_ge_single {σ ι : Type*} (get : σ → K) (step : σ → ι → σ) (c : ι → K)
    (h : ∀ acc j, get (step acc j) = get acc + c j) (l : List ι) (acc0 : σ)
    (h0 : get acc0 = 0) (hc : ∀ j ∈ l, 0 ≤ c j) (i : ι) (hi : i ∈ l) :
    c i ≤ get (l.foldl step acc0) := by
  rw [foldl_additive get step c h l acc0, h0, zero_add]
  exact List.single_le_sum (by
    intro x hx
    obtain ⟨j, hj, rfl⟩ := List.mem_map.mp hx
    exact hc j hj) _ (List.mem_map.mpr ⟨i, hi, rfl⟩)

/-! ## exchange of destination and source in the generated precomputed symbols -/

/-- The kernel has radial shape: `W(x, r, h) = w(r, h)`, `∇W(x, r, h) = g(r, h)·x`
(what `pysph.base.kernels` classes compute; C08 is about `w` and `g`). -/
structure Radial (k : Kern K) (w g : K → K → K) : Prop where
  kernel_eq : ∀ x0 x1 x2 r h, k.kernel x0 x1 x2 r h = w r h
  gx_eq : ∀ x0 x1 x2 r h, k.gx x0 x1 x2 r h = g r h * x0
  gy_eq : ∀ x0 x1 x2 r h, k.gy x0 x1 x2 r h = g r h * x1
  gz_eq : ∀ x0 x1 x2 r h, k.gz x0 x1 x2 r h = g r h * x2

section swap
variable (o : Ops K) (k : Kern K) (a b : P K)

theorem XIJ_0_swap : pre_XIJ_0 o k b a = -(pre_XIJ_0 o k a b) := by simp only [pre_XIJ_0]; ring
theorem XIJ_1_swap : pre_XIJ_1 o k b a = -(pre_XIJ_1 o k a b) := by simp only [pre_XIJ_1]; ring
theorem XIJ_2_swap : pre_XIJ_2 o k b a = -(pre_XIJ_2 o k a b) := by simp only [pre_XIJ_2]; ring
theorem VIJ_0_swap : pre_VIJ_0 o k b a = -(pre_VIJ_0 o k a b) := by simp only [pre_VIJ_0]; ring
theorem VIJ_1_swap : pre_VIJ_1 o k b a = -(pre_VIJ_1 o k a b) := by simp only [pre_VIJ_1]; ring
theorem VIJ_2_swap : pre_VIJ_2 o k b a = -(pre_VIJ_2 o k a b) := by simp only [pre_VIJ_2]; ring
theorem HIJ_swap : pre_HIJ o k b a = pre_HIJ o k a b := by simp only [pre_HIJ]; ring
theorem EPS_swap : pre_EPS o k b a = pre_EPS o k a b := by simp only [pre_EPS, HIJ_swap o k a b]
theorem RHOIJ_swap : pre_RHOIJ o k b a = pre_RHOIJ o k a b := by simp only [pre_RHOIJ]; ring
theorem RHOIJ1_swap : pre_RHOIJ1 o k b a = pre_RHOIJ1 o k a b := by
  simp only [pre_RHOIJ1, RHOIJ_swap o k a b]
theorem R2IJ_swap : pre_R2IJ o k b a = pre_R2IJ o k a b := by
  simp only [pre_R2IJ, XIJ_0_swap o k a b, XIJ_1_swap o k a b, XIJ_2_swap o k a b]; ring
theorem RIJ_swap : pre_RIJ o k b a = pre_RIJ o k a b := by simp only [pre_RIJ, R2IJ_swap o k a b]

variable {w g : K → K → K} (hk : Radial k w g)
include hk

theorem WIJ_swap : pre_WIJ o k b a = pre_WIJ o k a b := by
  simp only [pre_WIJ, hk.kernel_eq, RIJ_swap o k a b, HIJ_swap o k a b]
theorem WDP_swap : pre_WDP o k b a = pre_WDP o k a b := by
  simp only [pre_WDP, hk.kernel_eq, HIJ_swap o k a b]

/-- `DWIJ(i,j) = −DWIJ(j,i)`: from `HIJ` symmetric, `XIJ` antisymmetric and the
radial shape of the gradient. -/
theorem DWIJ_0_swap : pre_DWIJ_0 o k b a = -(pre_DWIJ_0 o k a b) := by
  simp only [pre_DWIJ_0, hk.gx_eq, RIJ_swap o k a b, HIJ_swap o k a b, XIJ_0_swap o k a b]; ring
theorem DWIJ_1_swap : pre_DWIJ_1 o k b a = -(pre_DWIJ_1 o k a b) := by
  simp only [pre_DWIJ_1, hk.gy_eq, RIJ_swap o k a b, HIJ_swap o k a b, XIJ_1_swap o k a b]; ring
theorem DWIJ_2_swap : pre_DWIJ_2 o k b a = -(pre_DWIJ_2 o k a b) := by
  simp only [pre_DWIJ_2, hk.gz_eq, RIJ_swap o k a b, HIJ_swap o k a b, XIJ_2_swap o k a b]; ring

/-- grad-h forms: `DWI(j,i) = −DWJ(i,j)` and `DWJ(j,i) = −DWI(i,j)`. -/
theorem DWI_0_swap : pre_DWI_0 o k b a = -(pre_DWJ_0 o k a b) := by
  simp only [pre_DWI_0, pre_DWJ_0, hk.gx_eq, RIJ_swap o k a b, XIJ_0_swap o k a b]; ring
theorem DWI_1_swap : pre_DWI_1 o k b a = -(pre_DWJ_1 o k a b) := by
  simp only [pre_DWI_1, pre_DWJ_1, hk.gy_eq, RIJ_swap o k a b, XIJ_1_swap o k a b]; ring
theorem DWI_2_swap : pre_DWI_2 o k b a = -(pre_DWJ_2 o k a b) := by
  simp only [pre_DWI_2, pre_DWJ_2, hk.gz_eq, RIJ_swap o k a b, XIJ_2_swap o k a b]; ring
theorem DWJ_0_swap : pre_DWJ_0 o k b a = -(pre_DWI_0 o k a b) := by
  simp only [pre_DWI_0, pre_DWJ_0, hk.gx_eq, RIJ_swap o k a b, XIJ_0_swap o k a b]; ring
theorem DWJ_1_swap : pre_DWJ_1 o k b a = -(pre_DWI_1 o k a b) := by
  simp only [pre_DWI_1, pre_DWJ_1, hk.gy_eq, RIJ_swap o k a b, XIJ_1_swap o k a b]; ring
theorem DWJ_2_swap : pre_DWJ_2 o k b a = -(pre_DWI_2 o k a b) := by
  simp only [pre_DWI_2, pre_DWJ_2, hk.gz_eq, RIJ_swap o k a b, XIJ_2_swap o k a b]; ring

end swap

section shape
variable (o : Ops K) (k : Kern K) (a b : P K) {w g : K → K → K} (hk : Radial k w g)
include hk
theorem DWIJ_0_eq : pre_DWIJ_0 o k a b = g (pre_RIJ o k a b) (pre_HIJ o k a b) * pre_XIJ_0 o k a b := by
  simp only [pre_DWIJ_0, hk.gx_eq]
theorem DWIJ_1_eq : pre_DWIJ_1 o k a b = g (pre_RIJ o k a b) (pre_HIJ o k a b) * pre_XIJ_1 o k a b := by
  simp only [pre_DWIJ_1, hk.gy_eq]
theorem DWIJ_2_eq : pre_DWIJ_2 o k a b = g (pre_RIJ o k a b) (pre_HIJ o k a b) * pre_XIJ_2 o k a b := by
  simp only [pre_DWIJ_2, hk.gz_eq]
theorem DWI_0_eq : pre_DWI_0 o k a b = g (pre_RIJ o k a b) a.h * pre_XIJ_0 o k a b := by
  simp only [pre_DWI_0, hk.gx_eq]
theorem DWI_1_eq : pre_DWI_1 o k a b = g (pre_RIJ o k a b) a.h * pre_XIJ_1 o k a b := by
  simp only [pre_DWI_1, hk.gy_eq]
theorem DWI_2_eq : pre_DWI_2 o k a b = g (pre_RIJ o k a b) a.h * pre_XIJ_2 o k a b := by
  simp only [pre_DWI_2, hk.gz_eq]
theorem DWJ_0_eq : pre_DWJ_0 o k a b = g (pre_RIJ o k a b) b.h * pre_XIJ_0 o k a b := by
  simp only [pre_DWJ_0, hk.gx_eq]
theorem DWJ_1_eq : pre_DWJ_1 o k a b = g (pre_RIJ o k a b) b.h * pre_XIJ_1 o k a b := by
  simp only [pre_DWJ_1, hk.gy_eq]
theorem DWJ_2_eq : pre_DWJ_2 o k a b = g (pre_RIJ o k a b) b.h * pre_XIJ_2 o k a b := by
  simp only [pre_DWJ_2, hk.gz_eq]
end shape

theorem XIJ_0_def (o : Ops K) (k : Kern K) (a b : P K) : a.x - b.x = pre_XIJ_0 o k a b := rfl
theorem XIJ_1_def (o : Ops K) (k : Kern K) (a b : P K) : a.y - b.y = pre_XIJ_1 o k a b := rfl
theorem XIJ_2_def (o : Ops K) (k : Kern K) (a b : P K) : a.z - b.z = pre_XIJ_2 o k a b := rfl

/-- express every kernel gradient of the pair `(a, b)` as `g(r,h)·XIJ` and the
separation `a.x − b.x` as `XIJ` -/
macro "c09_shape" o:term:max k:term:max a:term:max b:term:max hk:term:max : tactic =>
  `(tactic| simp only [XIJ_0_def $o $k $a $b, XIJ_1_def $o $k $a $b, XIJ_2_def $o $k $a $b,
      DWIJ_0_eq $o $k $a $b $hk, DWIJ_1_eq $o $k $a $b $hk, DWIJ_2_eq $o $k $a $b $hk,
      DWI_0_eq $o $k $a $b $hk, DWI_1_eq $o $k $a $b $hk, DWI_2_eq $o $k $a $b $hk,
      DWJ_0_eq $o $k $a $b $hk, DWJ_1_eq $o $k $a $b $hk, DWJ_2_eq $o $k $a $b $hk])

/-- normalise signs and tuple projections after unfolding a generated body -/
macro "c09_norm" : tactic =>
  `(tactic| try simp only [apply_ite Prod.fst, apply_ite Prod.snd, neg_div, neg_mul, mul_neg, neg_neg,
      Nat.cast_zero, Nat.cast_one, Nat.cast_ofNat])

/-- close a goal that is a polynomial identity on every branch of the
(symmetric) conditions -/
macro "c09_close" : tactic =>
  `(tactic| first
    | (split_ifs <;> (try simp only [neg_div, neg_mul, mul_neg, neg_neg] at *) <;>
        first | contradiction | ring1 | (ring_nf; done) | (exfalso; linarith))
    | ring1 | (ring_nf; done))

/-- rewrite every precomputed symbol of the pair `(b, a)` into the one of `(a, b)` -/
macro "c09_swap" o:term:max k:term:max a:term:max b:term:max hk:term:max : tactic =>
  `(tactic| simp only [XIJ_0_swap $o $k $a $b, XIJ_1_swap $o $k $a $b, XIJ_2_swap $o $k $a $b,
      VIJ_0_swap $o $k $a $b, VIJ_1_swap $o $k $a $b, VIJ_2_swap $o $k $a $b,
      HIJ_swap $o $k $a $b, EPS_swap $o $k $a $b, RHOIJ_swap $o $k $a $b, RHOIJ1_swap $o $k $a $b,
      R2IJ_swap $o $k $a $b, RIJ_swap $o $k $a $b, WIJ_swap $o $k $a $b $hk, WDP_swap $o $k $a $b $hk,
      DWIJ_0_swap $o $k $a $b $hk, DWIJ_1_swap $o $k $a $b $hk, DWIJ_2_swap $o $k $a $b $hk,
      DWI_0_swap $o $k $a $b $hk, DWI_1_swap $o $k $a $b $hk, DWI_2_swap $o $k $a $b $hk,
      DWJ_0_swap $o $k $a $b $hk, DWJ_1_swap $o $k $a $b $hk, DWJ_2_swap $o $k $a $b $hk])

/-- replace the precomputed symbols of `(a, b)` by opaque variables -/
macro "c09_atoms" o:term:max k:term:max a:term:max b:term:max : tactic =>
  `(tactic| (
    generalize pre_XIJ_0 $o $k $a $b = X0
    generalize pre_XIJ_1 $o $k $a $b = X1
    generalize pre_XIJ_2 $o $k $a $b = X2
    generalize pre_VIJ_0 $o $k $a $b = V0
    generalize pre_VIJ_1 $o $k $a $b = V1
    generalize pre_VIJ_2 $o $k $a $b = V2
    generalize pre_DWIJ_0 $o $k $a $b = D0
    generalize pre_DWIJ_1 $o $k $a $b = D1
    generalize pre_DWIJ_2 $o $k $a $b = D2
    generalize pre_DWI_0 $o $k $a $b = DI0
    generalize pre_DWI_1 $o $k $a $b = DI1
    generalize pre_DWI_2 $o $k $a $b = DI2
    generalize pre_DWJ_0 $o $k $a $b = DJ0
    generalize pre_DWJ_1 $o $k $a $b = DJ1
    generalize pre_DWJ_2 $o $k $a $b = DJ2
    generalize pre_HIJ $o $k $a $b = H
    generalize pre_EPS $o $k $a $b = E
    generalize pre_RHOIJ $o $k $a $b = RH
    generalize pre_RHOIJ1 $o $k $a $b = R1
    generalize pre_R2IJ $o $k $a $b = R2
    generalize pre_RIJ $o $k $a $b = RR
    generalize pre_WIJ $o $k $a $b = W
    generalize pre_WDP $o $k $a $b = WD))

end PysphVerif.C09
