import PysphVerif.Lemmas.SchemeNeeds
/-!
C12 — lemmas about the integrator's stages (`stagesOk` ↔ `StagesProvided`) and
about `extra_steppers` (`withExtra`).
-/
namespace PysphVerif.SchemeNeeds

theorem mem_stepWrappers (k : StepKind) (m : String) : m ∈ stepWrappers k ↔ Wraps k m := by
  unfold stepWrappers Wraps
  rw [List.mem_append, List.mem_map]

theorem mem_wrappersOf (sk : List StepKind) (st : Nat × Nat) (m : String) :
    m ∈ wrappersOf sk st ↔ ∃ k, sk[st.1]? = some k ∧ Wraps k m := by
  unfold wrappersOf
  cases h : sk[st.1]? with
  | none => simp
  | some k =>
    simp only [Option.some.injEq, exists_eq_left']
    exact mem_stepWrappers k m

theorem mem_wrapperNames (sk : List StepKind) (b : Body) (m : String) :
    m ∈ wrapperNames sk b ↔ ∃ st ∈ b.steppers, ∃ k, sk[st.1]? = some k ∧ Wraps k m := by
  unfold wrapperNames
  rw [List.mem_flatMap]
  constructor
  · rintro ⟨st, hst, hm⟩
    exact ⟨st, hst, (mem_wrappersOf sk st m).mp hm⟩
  · rintro ⟨st, hst, hk⟩
    exact ⟨st, hst, (mem_wrappersOf sk st m).mpr hk⟩

/-- the Boolean stage check decides its specification -/
theorem stagesOk_iff (ik : List IntegKind) (sk : List StepKind) (b : Body) :
    stagesOk ik sk b = true ↔ StagesProvided ik sk b := by
  unfold stagesOk StagesProvided
  cases h : ik[b.integ]? with
  | none => simp
  | some i =>
    simp only [Option.some.injEq, exists_eq_left', List.all_eq_true, List.contains_iff_mem]
    constructor
    · intro hall m hm
      exact (mem_wrapperNames sk b m).mp (hall m hm)
    · intro hall m hm
      exact (mem_wrapperNames sk b m).mpr (hall m hm)

/-- more steppers never lose a wrapper -/
theorem stagesProvided_mono (ik : List IntegKind) (sk : List StepKind) (b b' : Body)
    (hi : b'.integ = b.integ) (hsub : ∀ st ∈ b.steppers, st ∈ b'.steppers)
    (h : StagesProvided ik sk b) : StagesProvided ik sk b' := by
  obtain ⟨i, hik, hall⟩ := h
  refine ⟨i, by rw [hi]; exact hik, ?_⟩
  intro m hm
  obtain ⟨st, hst, k, hk, hw⟩ := hall m hm
  exact ⟨st, hsub st hst, k, hk, hw⟩

/-! ## `withExtra` -/

@[simp] theorem withExtra_arrays (b : Body) (ex : List (Nat × Nat)) :
    (withExtra b ex).arrays = b.arrays := rfl
@[simp] theorem withExtra_eqs (b : Body) (ex : List (Nat × Nat)) :
    (withExtra b ex).eqs = b.eqs := rfl
@[simp] theorem withExtra_integ (b : Body) (ex : List (Nat × Nat)) :
    (withExtra b ex).integ = b.integ := rfl

theorem mem_withExtra (b : Body) (ex : List (Nat × Nat)) (st : Nat × Nat) :
    st ∈ (withExtra b ex).steppers ↔
      st ∈ ex ∨ (st ∈ b.steppers ∧ ∀ e ∈ ex, e.2 ≠ st.2) := by
  unfold withExtra overridden
  simp only [List.mem_append, List.mem_filter, Bool.not_eq_true', List.any_eq_false,
    beq_iff_eq]

/-- `extra_steppers=None` and `extra_steppers={}` are the table entry itself -/
theorem withExtra_nil (b : Body) : withExtra b [] = b := by
  cases b
  simp [withExtra, overridden]

theorem hasProp_withExtra (b : Body) (ex : List (Nat × Nat)) (a p : Nat) :
    HasProp (withExtra b ex) a p ↔ HasProp b a p := Iff.rfl

theorem completeStepper_arrays (sk : List StepKind) (b b' : Body) (h : b'.arrays = b.arrays)
    (st : Nat × Nat) (hc : CompleteStepper sk b st) : CompleteStepper sk b' st := by
  obtain ⟨k, hk, ha, hp⟩ := hc
  refine ⟨k, hk, ?_, ?_⟩
  · unfold IsArray at *; rw [h]; exact ha
  · intro p hn
    obtain ⟨arr, harr, hb⟩ := hp p hn
    exact ⟨arr, by rw [h]; exact harr, hb⟩

theorem completeEq_arrays (t : List PreSym) (kinds : List EqKind) (b b' : Body)
    (h : b'.arrays = b.arrays) (e : EqInst) (hc : CompleteEq t kinds b e) :
    CompleteEq t kinds b' e := by
  have hhp : ∀ a p, HasProp b a p → HasProp b' a p := by
    intro a p ⟨arr, harr, hb⟩
    exact ⟨arr, by rw [h]; exact harr, hb⟩
  have hia : ∀ a, IsArray b a → IsArray b' a := by
    intro a ha; unfold IsArray at *; rw [h]; exact ha
  obtain ⟨k, hk, hd, hp, hs⟩ := hc
  refine ⟨k, hk, hia _ hd, fun p hn => hhp _ _ (hp p hn), ?_⟩
  intro srcs hsrc s hsm
  obtain ⟨h1, h2⟩ := hs srcs hsrc s hsm
  exact ⟨hia _ h1, fun p hn => hhp _ _ (h2 p hn)⟩

/-- the caller's steppers in place of / in addition to the defaults keep the
configuration complete as long as each of them finds its properties -/
theorem complete_withExtra (t : List PreSym) (kinds : List EqKind) (sk : List StepKind) (b : Body)
    (ex : List (Nat × Nat)) (h : Complete t kinds sk b)
    (hex : ∀ st ∈ ex, CompleteStepper sk b st) : Complete t kinds sk (withExtra b ex) := by
  constructor
  · intro e he
    exact completeEq_arrays t kinds b _ rfl e (h.1 e he)
  · intro st hst
    rcases (mem_withExtra b ex st).mp hst with hin | ⟨hin, _⟩
    · exact completeStepper_arrays sk b _ rfl st (hex st hin)
    · exact completeStepper_arrays sk b _ rfl st (h.2 st hin)

theorem getElem?_append_some {α : Type} (l l' : List α) (i : Nat) (x : α) (h : l[i]? = some x) :
    (l ++ l')[i]? = some x := by
  have hi : i < l.length := (List.getElem?_eq_some_iff.mp h).1
  rw [List.getElem?_append_left hi]; exact h

/-- further stepper kinds (the caller's classes) change nothing for the table's own -/
theorem complete_more_kinds (t : List PreSym) (kinds : List EqKind) (sk uks : List StepKind)
    (b : Body) (h : Complete t kinds sk b) : Complete t kinds (sk ++ uks) b := by
  refine ⟨h.1, ?_⟩
  intro st hst
  obtain ⟨k, hk, ha, hp⟩ := h.2 st hst
  exact ⟨k, getElem?_append_some sk uks _ k hk, ha, hp⟩

theorem stagesProvided_more_kinds (ik : List IntegKind) (sk uks : List StepKind) (b : Body)
    (h : StagesProvided ik sk b) : StagesProvided ik (sk ++ uks) b := by
  obtain ⟨i, hik, hall⟩ := h
  refine ⟨i, hik, ?_⟩
  intro m hm
  obtain ⟨st, hst, k, hk, hw⟩ := hall m hm
  exact ⟨st, hst, k, getElem?_append_some sk uks _ k hk, hw⟩

/-- if the steppers of array `a` alone provide every stage, then so does the
configuration with any caller-supplied steppers that leave `a` alone -/
theorem stages_withExtra_of_array (ik : List IntegKind) (sk : List StepKind) (b : Body) (a : Nat)
    (ex : List (Nat × Nat)) (h : StagesProvided ik sk (onlyArray b a))
    (hex : ∀ e ∈ ex, e.2 ≠ a) : StagesProvided ik sk (withExtra b ex) := by
  apply stagesProvided_mono ik sk (onlyArray b a) (withExtra b ex) rfl _ h
  intro st hst
  have hm : st ∈ b.steppers ∧ st.2 = a := by
    simpa [onlyArray, List.mem_filter] using hst
  apply (mem_withExtra b ex st).mpr
  right
  refine ⟨hm.1, ?_⟩
  intro e he
  rw [hm.2]
  exact hex e he

end PysphVerif.SchemeNeeds
