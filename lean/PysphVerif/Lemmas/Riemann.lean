import PysphVerif.Gen.Riemann
import Mathlib.Algebra.Order.Field.Basic
import Mathlib.Algebra.Order.AbsoluteValue.Basic
import Mathlib.Algebra.Order.Group.MinMax
import Mathlib.Tactic.Ring
import Mathlib.Tactic.Linarith
import Mathlib.Tactic.FieldSimp
import Mathlib.Tactic.Positivity
/-!
# C15 — helper lemmas for the generated Riemann solvers

The generated definitions (`Gen/Riemann.lean`) are instantiated over a
linearly ordered field `K` with `fieldOps sqrt pow`: `abs` is the field's
absolute value, `sqrt` and `pow` stay abstract functions about which each
theorem states exactly what it needs.
-/
set_option linter.unusedSectionVars false
namespace PysphVerif.Riemann
open PysphVerif.Gen.Riemann

variable {K : Type} [Field K] [LinearOrder K] [IsStrictOrderedRing K]

/-- the operations record over an ordered field: abstract `sqrt`, `pow`; real `abs` -/
def fieldOps (sqrt : K → K) (pow : K → K → K) : Ops K := ⟨sqrt, pow, fun x => |x|⟩

@[simp] theorem fieldOps_sqrt (s : K → K) (p : K → K → K) : (fieldOps s p).sqrt = s := rfl
@[simp] theorem fieldOps_pow (s : K → K) (p : K → K → K) : (fieldOps s p).pow = p := rfl
@[simp] theorem fieldOps_abs (s : K → K) (p : K → K → K) (x : K) : (fieldOps s p).abs x = |x| := rfl

theorem pymax_eq_max (a b : K) : pymax a b = max a b := by
  unfold pymax
  split
  · rename_i h; exact (max_eq_right h.le).symm
  · rename_i h; exact (max_eq_left (not_lt.mp h)).symm

theorem pymin_eq_min (a b : K) : pymin a b = min a b := by
  unfold pymin
  split
  · rename_i h; exact (min_eq_right h.le).symm
  · rename_i h; exact (min_eq_left (not_lt.mp h)).symm

end PysphVerif.Riemann
