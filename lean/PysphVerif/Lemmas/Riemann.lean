import PysphVerif.Gen.Riemann
import Mathlib.Algebra.Order.Field.Basic
import Mathlib.Algebra.Order.AbsoluteValue.Basic
import Mathlib.Algebra.Order.Group.MinMax
import Mathlib.Tactic.Ring
import Mathlib.Tactic.Linarith
import Mathlib.Tactic.FieldSimp
import Mathlib.Tactic.Positivity
/-!
# C15 — helper lemmas for the generated Riemann solvers

The generated definitions (`Gen/Riemann.lean`) are instantiated over a
linearly ordered field `K` with `fieldOps sqrt pow`: `abs` is the field's
absolute value, `sqrt` and `pow` stay abstract functions about which each
theorem states exactly what it needs.
-/
set_option linter.unusedSectionVars false
namespace PysphVerif.Riemann
open PysphVerif.Gen.Riemann

variable {K : Type} [Field K] [LinearOrder K] [IsStrictOrderedRing K]

/-- the operations record over an ordered field: abstract `sqrt`, `pow`; real `abs` -/
def fieldOps (sqrt : K → K) (pow : K → K → K) : Ops K := ⟨sqrt, pow, fun x => |x|⟩

@[simp] theorem fieldOps_sqrt (s : K → K) (p : K → K → K) : (fieldOps s p).sqrt = s := rfl
@[simp] theorem fieldOps_pow (s : K → K) (p : K → K → K) : (fieldOps s p).pow = p := rfl
@[simp] theorem fieldOps_abs (s : K → K) (p : K → K → K) (x : K) : (fieldOps s p).abs x = |x| := rfl

theorem pymax_eq_max (a b : K) : pymax a b = max a b := by
  unfold pymax
  split
  · rename_i h; exact (max_eq_right h.le).symm
  · rename_i h; exact (max_eq_left (not_lt.mp h)).symm

theorem pymin_eq_min (a b : K) : pymin a b = min a b := by
  unfold pymin
  split
  · rename_i h; exact (min_eq_right h.le).symm
  · rename_i h; exact (min_eq_left (not_lt.mp h)).symm

/-! ## the `van_leer` iteration -/

/-- mirror image of a `van_leer` loop state: the two wave impedances change places -/
def vlSwap (s : van_leer_loopSt K) : van_leer_loopSt K :=
  ⟨s.converged, s.iteration, s.pstar, s.wr, s.wl⟩

/-- the Newton update of `van_leer` before the `smallp` floor, as a formula -/
def vlNewP (Vl Vr g2 pl pr ul ur p wl wr : K) : K :=
  p + ((ur + (p - pr) / wr) - (ul - (p - pl) / wl)) *
      (((-(4 * Vl * wl * wl)) * wl / (4 * Vl * wl * wl - g2 * (p - pl))) *
       ((4 * Vr * wr * wr) * wr / (4 * Vr * wr * wr - g2 * (p - pr)))) /
      (((4 * Vr * wr * wr) * wr / (4 * Vr * wr * wr - g2 * (p - pr))) -
       ((-(4 * Vl * wl * wl)) * wl / (4 * Vl * wl * wl - g2 * (p - pl))))

theorem vlNewP_mirror (Vl Vr g2 pl pr ul ur p wl wr : K) :
    vlNewP Vr Vl g2 pr pl (-ur) (-ul) p wr wl = vlNewP Vl Vr g2 pl pr ul ur p wl wr := by
  unfold vlNewP; ring

theorem vlNewP_shift (Vl Vr g2 pl pr ul ur p wl wr c : K) :
    vlNewP Vl Vr g2 pl pr (ul + c) (ur + c) p wl wr = vlNewP Vl Vr g2 pl pr ul ur p wl wr := by
  unfold vlNewP; ring

theorem van_leer_body_eq (o : Ops K) (Vl Vr cl cr g1 g2 : K) (niter : Int)
    (pl pr smallp tol ul ur : K) (s : van_leer_loopSt K) :
    van_leer_loop_body o Vl Vr cl cr g1 g2 niter pl pr smallp tol ul ur s =
      (let wl := cl * o.sqrt (1 + g1 * (s.pstar - pl) / pl)
       let wr := cr * o.sqrt (1 + g1 * (s.pstar - pr) / pr)
       let p' := pymax smallp (vlNewP Vl Vr g2 pl pr ul ur s.pstar wl wr)
       let cv := decide (o.abs (p' - s.pstar) / p' < tol)
       if cv = true then (true, ⟨cv, s.iteration, p', wl, wr⟩)
       else (false, ⟨cv, s.iteration + 1, p', wl, wr⟩)) := by
  simp only [van_leer_loop_body, vlNewP, Nat.cast_ofNat, Nat.cast_one]
  rfl

theorem van_leer_body_mirror (o : Ops K) (Vl Vr cl cr g1 g2 : K) (niter : Int)
    (pl pr smallp tol ul ur : K) (s : van_leer_loopSt K) :
    van_leer_loop_body o Vr Vl cr cl g1 g2 niter pr pl smallp tol (-ur) (-ul) (vlSwap s)
      = ((van_leer_loop_body o Vl Vr cl cr g1 g2 niter pl pr smallp tol ul ur s).1,
         vlSwap (van_leer_loop_body o Vl Vr cl cr g1 g2 niter pl pr smallp tol ul ur s).2) := by
  rw [van_leer_body_eq, van_leer_body_eq]
  simp only [vlSwap, vlNewP_mirror]
  split <;> rfl

theorem van_leer_loop_mirror (o : Ops K) (Vl Vr cl cr g1 g2 : K) (niter : Int)
    (pl pr smallp tol ul ur : K) (fuel : Nat) (s : van_leer_loopSt K) :
    van_leer_loop o Vr Vl cr cl g1 g2 niter pr pl smallp tol (-ur) (-ul) fuel (vlSwap s)
      = vlSwap (van_leer_loop o Vl Vr cl cr g1 g2 niter pl pr smallp tol ul ur fuel s) := by
  induction fuel generalizing s with
  | zero => rfl
  | succ n ih =>
    simp only [van_leer_loop]
    have hc : van_leer_loop_cond niter (vlSwap s) ↔ van_leer_loop_cond niter s := Iff.rfl
    by_cases h : van_leer_loop_cond niter s
    · rw [if_pos h, if_pos (hc.mpr h), van_leer_body_mirror]
      by_cases hb : (van_leer_loop_body o Vl Vr cl cr g1 g2 niter pl pr smallp tol ul ur s).1 = true
      · simp only [hb, if_true]
      · simp only [hb, if_false]; exact ih _
    · rw [if_neg h, if_neg (fun h' => h (hc.mp h'))]

theorem van_leer_body_shift (o : Ops K) (Vl Vr cl cr g1 g2 : K) (niter : Int)
    (pl pr smallp tol ul ur c : K) (s : van_leer_loopSt K) :
    van_leer_loop_body o Vl Vr cl cr g1 g2 niter pl pr smallp tol (ul + c) (ur + c) s
      = van_leer_loop_body o Vl Vr cl cr g1 g2 niter pl pr smallp tol ul ur s := by
  rw [van_leer_body_eq, van_leer_body_eq]
  simp only [vlNewP_shift]

theorem van_leer_loop_shift (o : Ops K) (Vl Vr cl cr g1 g2 : K) (niter : Int)
    (pl pr smallp tol ul ur c : K) (fuel : Nat) (s : van_leer_loopSt K) :
    van_leer_loop o Vl Vr cl cr g1 g2 niter pl pr smallp tol (ul + c) (ur + c) fuel s
      = van_leer_loop o Vl Vr cl cr g1 g2 niter pl pr smallp tol ul ur fuel s := by
  induction fuel generalizing s with
  | zero => rfl
  | succ n ih =>
    simp only [van_leer_loop, van_leer_body_shift, ih]

/-- what `van_leer` returns from the final loop state -/
def vlFinish (ul ur pl pr : K) (S : van_leer_loopSt K) : Res K :=
  if S.converged = true then
    ⟨0, S.pstar, 1 / 2 * ((ul - (S.pstar - pl) / S.wl) + (ur + (S.pstar - pr) / S.wr))⟩
  else
    ⟨1, S.pstar, 1 / 2 * ((ul - (S.pstar - pl) / S.wl) + (ur + (S.pstar - pr) / S.wr))⟩

theorem vlFinish_mirror (ul ur pl pr : K) (S : van_leer_loopSt K) :
    (vlFinish (-ur) (-ul) pr pl (vlSwap S)).code = (vlFinish ul ur pl pr S).code ∧
    ((vlFinish ul ur pl pr S).code = 0 →
      (vlFinish (-ur) (-ul) pr pl (vlSwap S)).r0 = (vlFinish ul ur pl pr S).r0 ∧
      (vlFinish (-ur) (-ul) pr pl (vlSwap S)).r1 = -(vlFinish ul ur pl pr S).r1) := by
  unfold vlFinish vlSwap
  cases S.converged
  · simp
  · simp; ring

theorem vlFinish_shift (ul ur pl pr c : K) (S : van_leer_loopSt K) :
    (vlFinish (ul + c) (ur + c) pl pr S).code = (vlFinish ul ur pl pr S).code ∧
    ((vlFinish ul ur pl pr S).code = 0 →
      (vlFinish (ul + c) (ur + c) pl pr S).r0 = (vlFinish ul ur pl pr S).r0 ∧
      (vlFinish (ul + c) (ur + c) pl pr S).r1 = (vlFinish ul ur pl pr S).r1 + c) := by
  unfold vlFinish
  cases S.converged
  · simp
  · simp; ring
end PysphVerif.Riemann
