import PysphVerif.Model.NnpsAlias
import PysphVerif.Lemmas.Nnps
/-!
Lemmas for the ownership model of the query API (`Model/NnpsAlias.lean`): every safe call
preserves the cache invariant of every cache and hands the caller exactly `find c d`.
-/
set_option linter.unusedSectionVars false
namespace PysphVerif.Nnps

/-- every cache of the state answers correctly for what it has stored -/
def AState.Inv (find : Nat → Nat → List Nat) (s : AState) : Prop :=
  ∀ c, Cache.Inv (find c) (s.caches c)

theorem AState.inv_init (find : Nat → Nat → List Nat) : AState.Inv find AState.init :=
  fun c => Cache.inv_reset (find c)

theorem stepCached_inv (find : Nat → Nat → List Nat) (s : AState) (c d a : Nat)
    (h : AState.Inv find s) : AState.Inv find (stepCached find s c d a) := by
  intro e
  by_cases hec : e = c
  · subst hec
    simp only [stepCached, if_true]
    exact Cache.inv_fillGuarded (find e) _ (0, d) (h e)
  · simp only [stepCached, hec, if_false]
    exact h e

theorem stepCached_read (find : Nat → Nat → List Nat) (s : AState) (c d a : Nat)
    (h : AState.Inv find s) : (stepCached find s c d a).read a = find c d := by
  have hinv := Cache.inv_fillGuarded (find c) (s.caches c) (0, d) (h c)
  have hc := Cache.cached_fillGuarded (find c) (s.caches c) 0 d
  have hv := (hinv d hc).2.2
  simp only [AState.read, stepCached, if_true]
  simpa [Cache.view] using hv

/-- the array after `c_reset()` is not a view -/
theorem emptied_detach (A : Scratch) : (emptied true A).view = none := by
  simp [emptied]

theorem emptied_keep (A : Scratch) : (emptied false A).view = A.view := by
  simp [emptied]

/-- a direct query on an array that is not (or no longer) a view leaves every cache alone -/
theorem stepDirect_caches (find : Nat → Nat → List Nat) (s : AState) (detach : Bool) (c d a : Nat)
    (hv : (emptied detach (s.arrs a)).view = none) :
    (stepDirect find s detach c d a).caches = s.caches := by
  unfold stepDirect
  simp only [hv]

theorem stepDirect_read (find : Nat → Nat → List Nat) (s : AState) (detach : Bool) (c d a : Nat)
    (hv : (emptied detach (s.arrs a)).view = none) :
    (stepDirect find s detach c d a).read a = find c d := by
  unfold stepDirect
  simp only [hv, AState.read, if_true, List.take_length]

theorem safe_emptied_view (s : AState) (detach : Bool) (c d a : Nat)
    (hs : (AOp.direct detach c d a).safe s = true) : (emptied detach (s.arrs a)).view = none := by
  cases detach with
  | true => exact emptied_detach _
  | false =>
    rw [emptied_keep]
    simpa [AOp.safe, Option.isNone_iff_eq_none] using hs

theorem stepReset_inv (find : Nat → Nat → List Nat) (s : AState) (lo hi : Nat)
    (h : AState.Inv find s) : AState.Inv find (stepReset s lo hi) := by
  intro e
  simp only [stepReset]
  split
  · exact Cache.inv_reset (find e)
  · exact h e

/-- one safe call: the invariant survives and the caller reads what the property demands -/
theorem AState.step_ok (find : Nat → Nat → List Nat) (s : AState) (op : AOp)
    (h : AState.Inv find s) (hs : op.safe s = true) :
    AState.Inv find (s.step find op).1 ∧ (s.step find op).2 = op.expected find := by
  cases op with
  | cached c d a =>
    exact ⟨stepCached_inv find s c d a h, stepCached_read find s c d a h⟩
  | direct detach c d a =>
    have hv := safe_emptied_view s detach c d a hs
    refine ⟨?_, stepDirect_read find s detach c d a hv⟩
    intro e
    simp only [AState.step]
    rw [stepDirect_caches find s detach c d a hv]
    exact h e
  | reset lo hi =>
    exact ⟨stepReset_inv find s lo hi h, rfl⟩

theorem AState.run_ok (find : Nat → Nat → List Nat) (ops : List AOp) (s : AState)
    (h : AState.Inv find s) (hs : AState.safeRun find s ops = true) :
    AState.Inv find (AState.run find s ops).1 ∧
      (AState.run find s ops).2 = ops.map (AOp.expected find) := by
  induction ops generalizing s with
  | nil => exact ⟨h, rfl⟩
  | cons op ops ih =>
    simp only [AState.safeRun, Bool.and_eq_true] at hs
    obtain ⟨h1, h2⟩ := AState.step_ok find s op h hs.1
    obtain ⟨i1, i2⟩ := ih (s.step find op).1 h1 hs.2
    refine ⟨by simpa [AState.run] using i1, ?_⟩
    simp only [AState.run, List.map_cons]
    rw [h2, i2]

end PysphVerif.Nnps
