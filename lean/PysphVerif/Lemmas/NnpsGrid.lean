import PysphVerif.Model.NnpsStore
import PysphVerif.Lemmas.Nnps
import Mathlib.Tactic.NormNum
/-!
C01 helper lemmas: the 27-cell stencil, the flattened cell index, and the
per-class "lookup of one stencil cell returns exactly the particles of that
cell" lemmas for LinkedList and BoxSort.
-/
set_option linter.unusedSectionVars false
namespace PysphVerif.Nnps

/-! ## the 27 shifts -/

theorem mem_unit (a : Int) : a ∈ [(-1 : Int), 0, 1] ↔ a.natAbs ≤ 1 := by
  simp only [List.mem_cons, List.not_mem_nil, or_false]; omega

theorem mem_shifts27 (s : Cell) :
    s ∈ shifts27 ↔ s.1.natAbs ≤ 1 ∧ s.2.1.natAbs ≤ 1 ∧ s.2.2.natAbs ≤ 1 := by
  obtain ⟨a, b, c⟩ := s
  simp only [← mem_unit]
  unfold shifts27
  simp only [List.mem_flatMap, List.mem_map, Prod.mk.injEq]
  constructor
  · rintro ⟨a', ha, b', hb, c', hc, rfl, rfl, rfl⟩; exact ⟨ha, hb, hc⟩
  · rintro ⟨ha, hb, hc⟩; exact ⟨a, ha, b, hb, c, hc, rfl, rfl, rfl⟩

theorem mem_shifts27z (s : Cell) :
    s ∈ shifts27z ↔ s.1.natAbs ≤ 1 ∧ s.2.1.natAbs ≤ 1 ∧ s.2.2.natAbs ≤ 1 := by
  obtain ⟨a, b, c⟩ := s
  simp only [← mem_unit]
  unfold shifts27z
  simp only [List.mem_flatMap, List.mem_map, Prod.mk.injEq]
  constructor
  · rintro ⟨a', ha, b', hb, c', hc, rfl, rfl, rfl⟩; exact ⟨hc, hb, ha⟩
  · rintro ⟨ha, hb, hc⟩; exact ⟨c, hc, b, hb, a, ha, rfl, rfl, rfl⟩

theorem shifts27_nodup : shifts27.Nodup := by decide
theorem shifts27z_nodup : shifts27z.Nodup := by decide

theorem Cell.add_injective (cq : Cell) : Function.Injective (Cell.add cq) := by
  intro a b h
  obtain ⟨a1, a2, a3⟩ := a
  obtain ⟨b1, b2, b3⟩ := b
  simp only [Cell.add, Prod.mk.injEq] at h ⊢
  omega

theorem stencilCells_nodup (cq : Cell) : (stencilCells cq).Nodup :=
  shifts27_nodup.map (Cell.add_injective cq)

theorem stencilCellsZ_nodup (cq : Cell) : (stencilCellsZ cq).Nodup :=
  shifts27z_nodup.map (Cell.add_injective cq)

theorem inStencil_iff (a b : Cell) :
    inStencil a b = true ↔
      (a.1 - b.1).natAbs ≤ 1 ∧ (a.2.1 - b.2.1).natAbs ≤ 1 ∧ (a.2.2 - b.2.2).natAbs ≤ 1 := by
  simp only [inStencil, Bool.and_eq_true, decide_eq_true_eq, and_assoc]

private theorem mem_map_add (sh : List Cell)
    (hm : ∀ s : Cell, s ∈ sh ↔ s.1.natAbs ≤ 1 ∧ s.2.1.natAbs ≤ 1 ∧ s.2.2.natAbs ≤ 1)
    (cq c : Cell) : c ∈ sh.map (Cell.add cq) ↔ inStencil cq c = true := by
  rw [inStencil_iff, List.mem_map]
  constructor
  · rintro ⟨s, hs, rfl⟩
    obtain ⟨h1, h2, h3⟩ := (hm s).mp hs
    simp only [Cell.add]
    omega
  · rintro ⟨h1, h2, h3⟩
    refine ⟨(c.1 - cq.1, c.2.1 - cq.2.1, c.2.2 - cq.2.2), (hm _).mpr ⟨?_, ?_, ?_⟩, ?_⟩
    · show (c.1 - cq.1).natAbs ≤ 1; omega
    · show (c.2.1 - cq.2.1).natAbs ≤ 1; omega
    · show (c.2.2 - cq.2.2).natAbs ≤ 1; omega
    · obtain ⟨c1, c2, c3⟩ := c
      simp only [Cell.add, Prod.mk.injEq]
      omega

/-- the 27 visited cells are exactly the cells adjacent (±1 per axis) to the destination's -/
theorem mem_stencilCells (cq c : Cell) : c ∈ stencilCells cq ↔ inStencil cq c = true :=
  mem_map_add shifts27 mem_shifts27 cq c

theorem mem_stencilCellsZ (cq c : Cell) : c ∈ stencilCellsZ cq ↔ inStencil cq c = true :=
  mem_map_add shifts27z mem_shifts27z cq c

theorem nonnegCell_iff (c : Cell) : nonnegCell c = true ↔ 0 ≤ c.1 ∧ 0 ≤ c.2.1 ∧ 0 ≤ c.2.2 := by
  simp only [nonnegCell, Bool.and_eq_true, decide_eq_true_eq, and_assoc]

/-! ## the general stencil lemma -/

/-- what a per-cell lookup must deliver: no repetition, and exactly the source indices whose
cell is `c` -/
def LookupSpec (n : Nat) (cellAt : Nat → Cell) (lookup : Cell → List Nat) (c : Cell) : Prop :=
  (lookup c).Nodup ∧ ∀ j, j ∈ lookup c ↔ j < n ∧ cellAt j = c

/-- the stencil's particles, each once, in index order (the candidate list of `gridCands`) -/
def stencilIdx (n : Nat) (cellAt : Nat → Cell) (cq : Cell) : List Nat :=
  (List.range n).filter (fun j => inStencil cq (cellAt j))

/-- Visiting any duplicate-free list of stencil cells that contains every stencil cell holding
a particle, with a lookup that returns exactly the particles of the visited cell, enumerates
exactly the particles of the stencil, each once. -/
theorem stencil_flatMap_perm (n : Nat) (cellAt : Nat → Cell) (cq : Cell) (boxes : List Cell)
    (lookup : Cell → List Nat) (hnd : boxes.Nodup)
    (hin : ∀ c ∈ boxes, inStencil cq c = true)
    (hall : ∀ j, j < n → inStencil cq (cellAt j) = true → cellAt j ∈ boxes)
    (hspec : ∀ c ∈ boxes, LookupSpec n cellAt lookup c) :
    (boxes.flatMap lookup).Perm (stencilIdx n cellAt cq) := by
  have nd2 : (stencilIdx n cellAt cq).Nodup := List.nodup_range.filter _
  have nd1 : (boxes.flatMap lookup).Nodup := by
    rw [List.nodup_flatMap]
    refine ⟨fun c hc => (hspec c hc).1, ?_⟩
    refine List.Pairwise.imp_of_mem ?_ hnd
    intro a b ha hb hab
    show List.Disjoint (lookup a) (lookup b)
    intro j hja hjb
    have e1 := (((hspec a ha).2 j).mp hja).2
    have e2 := (((hspec b hb).2 j).mp hjb).2
    exact hab (e1.symm.trans e2)
  rw [List.perm_ext_iff_of_nodup nd1 nd2]
  intro j
  simp only [stencilIdx, List.mem_flatMap, List.mem_filter, List.mem_range]
  constructor
  · rintro ⟨c, hc, hj⟩
    obtain ⟨hlt, hcell⟩ := ((hspec c hc).2 j).mp hj
    exact ⟨hlt, by rw [hcell]; exact hin c hc⟩
  · rintro ⟨hlt, hs⟩
    have hb := hall j hlt hs
    exact ⟨cellAt j, hb, ((hspec _ hb).2 j).mpr ⟨hlt, rfl⟩⟩

/-- `gridCands` is `stencilIdx` of the source array's cells -/
theorem gridCands_eq_stencilIdx {α : Type} [Add α] [Sub α] [Mul α] [Div α] [LT α] [DecidableLT α]
    (fl : α → Int) (c : α) (o : Pt α) (src : List (Pt α)) (q : Pt α) :
    gridCands fl c o src q = stencilIdx src.length (cellAtOf fl c o src) (cell3 fl c o q) := by
  unfold gridCands stencilIdx
  apply List.filter_congr
  intro j hj
  unfold cellAtOf
  cases h : src[j]? with
  | some p => rfl
  | none =>
    have := List.getElem?_eq_none_iff.mp h
    simp only [List.mem_range] at hj
    omega

/-! ## flattened index -/

theorem isValidCell_iff (nc : Nat × Nat × Nat) (c : Cell) :
    isValidCell nc c = true ↔ 0 ≤ c.1 ∧ c.1 < (nc.1 : Int) ∧ 0 ≤ c.2.1 ∧ c.2.1 < (nc.2.1 : Int) ∧
      0 ≤ c.2.2 ∧ c.2.2 < (nc.2.2 : Int) := by
  simp only [isValidCell, Bool.and_eq_true, decide_eq_true_eq, and_assoc]

/-- uniqueness of quotient and remainder -/
theorem divmod_unique (X r r' q q' : Int) (hr : 0 ≤ r) (hrX : r < X) (hr' : 0 ≤ r') (hr'X : r' < X)
    (h : r + X * q = r' + X * q') : r = r' ∧ q = q' := by
  have hq : q = q' := by
    rcases lt_trichotomy q q' with hlt | heq | hgt
    · exfalso
      have h1 : X * (q + 1) ≤ X * q' := by
        apply mul_le_mul_of_nonneg_left _ (by omega)
        omega
      have h2 : X * (q + 1) = X * q + X := by ring
      omega
    · exact heq
    · exfalso
      have h1 : X * (q' + 1) ≤ X * q := by
        apply mul_le_mul_of_nonneg_left _ (by omega)
        omega
      have h2 : X * (q' + 1) = X * q' + X := by ring
      omega
  subst hq
  exact ⟨by omega, rfl⟩

/-- `flatten_raw` is injective on valid cells -/
theorem flattenCell_inj (nc : Nat × Nat × Nat) (a b : Cell) (ha : isValidCell nc a = true)
    (hb : isValidCell nc b = true) (h : flattenCell nc a = flattenCell nc b) : a = b := by
  rw [isValidCell_iff] at ha hb
  obtain ⟨a1, a2, a3⟩ := a
  obtain ⟨b1, b2, b3⟩ := b
  simp only [flattenCell] at h
  simp only at ha hb
  have e : a1 + (nc.1 : Int) * (a2 + (nc.2.1 : Int) * a3) =
      b1 + (nc.1 : Int) * (b2 + (nc.2.1 : Int) * b3) := by
    have l1 : a1 + (nc.1 : Int) * (a2 + (nc.2.1 : Int) * a3) =
        a1 + (nc.1 : Int) * a2 + (nc.1 : Int) * (nc.2.1 : Int) * a3 := by ring
    have l2 : b1 + (nc.1 : Int) * (b2 + (nc.2.1 : Int) * b3) =
        b1 + (nc.1 : Int) * b2 + (nc.1 : Int) * (nc.2.1 : Int) * b3 := by ring
    rw [l1, l2]; exact h
  obtain ⟨e1, e2⟩ := divmod_unique _ _ _ _ _ ha.1 ha.2.1 hb.1 hb.2.1 e
  obtain ⟨e3, e4⟩ := divmod_unique _ _ _ _ _ ha.2.2.1 ha.2.2.2.1 hb.2.2.1 hb.2.2.2.1 e2
  subst e1 e3 e4
  rfl

/-- a valid cell's flattened index lies in `[0, ncx*ncy*ncz)` -/
theorem flattenCell_range (nc : Nat × Nat × Nat) (c : Cell) (hc : isValidCell nc c = true) :
    0 ≤ flattenCell nc c ∧ flattenCell nc c < ((nc.1 * nc.2.1 * nc.2.2 : Nat) : Int) := by
  rw [isValidCell_iff] at hc
  obtain ⟨c1, c2, c3⟩ := c
  obtain ⟨X, Y, Z⟩ := nc
  simp only [flattenCell] at hc ⊢
  obtain ⟨h1, h2, h3, h4, h5, h6⟩ := hc
  have hX : (0 : Int) ≤ X := by omega
  have hY : (0 : Int) ≤ Y := by omega
  have p1 : 0 ≤ (X : Int) * c2 := mul_nonneg hX h3
  have p2 : 0 ≤ (X : Int) * (Y : Int) * c3 := mul_nonneg (mul_nonneg hX hY) h5
  refine ⟨by omega, ?_⟩
  have q1 : (X : Int) * (c2 + 1) ≤ X * Y := mul_le_mul_of_nonneg_left (by omega) hX
  have q2 : (X : Int) * Y * (c3 + 1) ≤ X * Y * Z :=
    mul_le_mul_of_nonneg_left (by omega) (mul_nonneg hX hY)
  have r1 : (X : Int) * (c2 + 1) = X * c2 + X := by ring
  have r2 : (X : Int) * Y * (c3 + 1) = X * Y * c3 + X * Y := by ring
  push_cast
  omega

/-! ## LinkedList: one stencil cell -/

theorem llItems_fst (nc : Nat × Nat × Nat) (n : Nat) (cellAt : Nat → Cell) :
    (llItems nc n cellAt).map (·.1) = List.range n := by
  simp [llItems, List.map_map, Function.comp_def]

theorem mem_bucket (items : List (Nat × Nat)) (ci j : Nat) :
    j ∈ ((items.filter (fun ic => ic.2 = ci)).map (·.1)).reverse ↔ (j, ci) ∈ items := by
  simp only [List.mem_reverse, List.mem_map, List.mem_filter, decide_eq_true_eq]
  constructor
  · rintro ⟨⟨a, b⟩, ⟨hm, rfl⟩, rfl⟩; exact hm
  · intro h; exact ⟨(j, ci), ⟨h, rfl⟩, rfl⟩

/-- with `n_cells = ncx*ncy*ncz` and all particles binned into valid cells, the chain walk of a
stencil cell returns exactly the particles of that cell (nothing for a cell outside the box) -/
theorem ll_lookup_spec (nc : Nat × Nat × Nat) (n : Nat) (cellAt : Nat → Cell)
    (hvalid : ∀ j, j < n → isValidCell nc (cellAt j) = true) (c : Cell) :
    LookupSpec n cellAt
      (llLookup (LL.build (llItems nc n cellAt)) nc (nc.1 * nc.2.1 * nc.2.2) n) c := by
  unfold LookupSpec llLookup validCellIndex
  by_cases hv : isValidCell nc c = true
  · obtain ⟨r0, r1⟩ := flattenCell_range nc c hv
    simp only [hv, if_true, r0, r1, and_self]
    have hb := traverse_eq_bucket (llItems nc n cellAt)
      (by rw [llItems_fst]; exact List.nodup_range) (flattenCell nc c).toNat n
      (by simp [llItems])
    rw [hb]
    refine ⟨?_, ?_⟩
    · rw [List.nodup_reverse]
      have : ((llItems nc n cellAt).map (·.1)).Nodup := by
        rw [llItems_fst]; exact List.nodup_range
      exact (List.Nodup.of_map _ this).filter _ |>.map_on (by
        intro a ha b hb hab
        have ha' := (List.mem_filter.mp ha).1
        have hb' := (List.mem_filter.mp hb).1
        simp only [llItems, List.mem_map, List.mem_range] at ha' hb'
        obtain ⟨i, _, rfl⟩ := ha'
        obtain ⟨k, _, rfl⟩ := hb'
        simp only at hab
        subst hab; rfl)
    · intro j
      rw [mem_bucket]
      simp only [llItems, List.mem_map, List.mem_range, Prod.mk.injEq]
      constructor
      · rintro ⟨i, hi, rfl, hf⟩
        refine ⟨hi, ?_⟩
        have hvi := hvalid i hi
        obtain ⟨s0, _⟩ := flattenCell_range nc _ hvi
        exact flattenCell_inj nc _ _ hvi hv (by omega)
      · rintro ⟨hj, rfl⟩
        exact ⟨j, hj, rfl, rfl⟩
  · simp only [hv]
    refine ⟨List.nodup_nil, ?_⟩
    intro j
    simp only [Bool.false_eq_true, if_false, List.not_mem_nil, false_iff, not_and]
    intro hj hc
    exact hv (hc ▸ hvalid j hj)

/-- LinkedList: the candidates visited are exactly the particles of the stencil, each once -/
theorem ll_cands_perm (nc : Nat × Nat × Nat) (n : Nat) (cellAt : Nat → Cell) (cq : Cell)
    (hvalid : ∀ j, j < n → isValidCell nc (cellAt j) = true) :
    (llCands nc (nc.1 * nc.2.1 * nc.2.2) n cellAt cq).Perm (stencilIdx n cellAt cq) :=
  stencil_flatMap_perm n cellAt cq (stencilCells cq) _ (stencilCells_nodup cq)
    (fun c hc => (mem_stencilCells cq c).mp hc)
    (fun j _ hs => (mem_stencilCells cq _).mpr hs)
    (fun c _ => ll_lookup_spec nc n cellAt hvalid c)

/-! ## BoxSort -/

theorem mem_insertKey (k a : Int) (l : List Int) : a ∈ insertKey k l ↔ a = k ∨ a ∈ l := by
  induction l with
  | nil => simp [insertKey]
  | cons b t ih =>
    unfold insertKey
    split
    · simp
    · split
      · rename_i h1 h2; subst h2; simp
      · simp only [List.mem_cons, ih]
        constructor
        · rintro (h | h | h)
          · exact Or.inr (Or.inl h)
          · exact Or.inl h
          · exact Or.inr (Or.inr h)
        · rintro (h | h | h)
          · exact Or.inr (Or.inl h)
          · exact Or.inl h
          · exact Or.inr (Or.inr h)

theorem mem_foldl_occStep (ids : List Int) (m : List Int) (a : Int) :
    a ∈ ids.foldl occStep m ↔ a ∈ m ∨ a ∈ ids := by
  induction ids generalizing m with
  | nil => simp
  | cons k t ih =>
    simp only [List.foldl_cons, ih, occStep, mem_insertKey, List.mem_cons]
    constructor
    · rintro ((h | h) | h)
      · exact Or.inr (Or.inl h)
      · exact Or.inl h
      · exact Or.inr (Or.inr h)
    · rintro (h | h | h)
      · exact Or.inl (Or.inr h)
      · exact Or.inl (Or.inl h)
      · exact Or.inr h

/-- every particle's flattened id is a key of `cell_to_index` -/
theorem mem_occupied (ids : List Int) (a : Int) : a ∈ occupied ids ↔ a ∈ ids := by
  simp [occupied, mem_foldl_occStep]

theorem boxItems_fst (nc : Nat × Nat × Nat) (occ : List Int) (n : Nat) (cellAt : Nat → Cell) :
    (boxItems nc occ n cellAt).map (·.1) = List.range n := by
  simp [boxItems, List.map_map, Function.comp_def]

/-- BoxSort: the dense index `cell_to_index[flatten(c)]` addresses a chain that holds exactly the
particles of cell `c`; a stencil cell whose id is not a key holds no particle -/
theorem box_lookup_spec (nc : Nat × Nat × Nat) (occ : List Int) (n : Nat) (cellAt : Nat → Cell)
    (hvalid : ∀ j, j < n → isValidCell nc (cellAt j) = true)
    (hocc : ∀ j, j < n → flattenCell nc (cellAt j) ∈ occ) (c : Cell) :
    LookupSpec n cellAt (boxLookup (LL.build (boxItems nc occ n cellAt)) nc occ n) c := by
  unfold LookupSpec boxLookup boxValidIndex cellToIndex
  by_cases hv : isValidCell nc c = true
  · obtain ⟨r0, _⟩ := flattenCell_range nc c hv
    simp only [hv, if_true, r0]
    by_cases hm : flattenCell nc c ∈ occ
    · simp only [hm, if_true]
      have hnd : ((boxItems nc occ n cellAt).map (·.1)).Nodup := by
        rw [boxItems_fst]; exact List.nodup_range
      have hb := traverse_eq_bucket (boxItems nc occ n cellAt) hnd
        (occ.idxOf (flattenCell nc c)) n (by simp [boxItems])
      rw [hb]
      refine ⟨?_, ?_⟩
      · rw [List.nodup_reverse]
        exact (List.Nodup.of_map _ hnd).filter _ |>.map_on (by
          intro a ha b hb hab
          have ha' := (List.mem_filter.mp ha).1
          have hb' := (List.mem_filter.mp hb).1
          simp only [boxItems, List.mem_map, List.mem_range] at ha' hb'
          obtain ⟨i, _, rfl⟩ := ha'
          obtain ⟨k, _, rfl⟩ := hb'
          simp only at hab
          subst hab; rfl)
      · intro j
        rw [mem_bucket]
        simp only [boxItems, cellToIndex, List.mem_map, List.mem_range, Prod.mk.injEq]
        constructor
        · rintro ⟨i, hi, rfl, hf⟩
          refine ⟨hi, ?_⟩
          have hoi := hocc i hi
          simp only [hoi, if_true, Option.getD_some] at hf
          have := (List.idxOf_inj hoi).mp hf
          exact flattenCell_inj nc _ _ (hvalid i hi) hv this
        · rintro ⟨hj, rfl⟩
          refine ⟨j, hj, rfl, ?_⟩
          simp only [hm, if_true, Option.getD_some]
    · simp only [hm, if_false]
      refine ⟨List.nodup_nil, ?_⟩
      intro j
      simp only [List.not_mem_nil, false_iff, not_and]
      intro hj hc
      exact hm (hc ▸ hocc j hj)
  · simp only [hv]
    refine ⟨List.nodup_nil, ?_⟩
    intro j
    simp only [Bool.false_eq_true, if_false, List.not_mem_nil, false_iff, not_and]
    intro hj hc
    exact hv (hc ▸ hvalid j hj)

theorem box_cands_perm (nc : Nat × Nat × Nat) (occ : List Int) (n : Nat) (cellAt : Nat → Cell)
    (cq : Cell) (hvalid : ∀ j, j < n → isValidCell nc (cellAt j) = true)
    (hocc : ∀ j, j < n → flattenCell nc (cellAt j) ∈ occ) :
    (boxCands nc occ n cellAt cq).Perm (stencilIdx n cellAt cq) :=
  stencil_flatMap_perm n cellAt cq (stencilCells cq) _ (stencilCells_nodup cq)
    (fun c hc => (mem_stencilCells cq c).mp hc)
    (fun j _ hs => (mem_stencilCells cq _).mpr hs)
    (fun c _ => box_lookup_spec nc occ n cellAt hvalid hocc c)

end PysphVerif.Nnps
