import PysphVerif.Lemmas.ControllerFair2
/-!
C18: why WEAK fairness is not enough.  While nobody pauses and nothing is
queued the solver runs round after round of
`start → with qlock: run_queued_commands → with qlock: (no pause)`, taking and
dropping `qlock` twice per round.  A dispatching thread parked at
`with self.qlock:` is enabled only while the solver is outside its critical
sections, so it is never *continuously* enabled, and the schedule "solver
only" is weakly fair although that thread never moves.
-/
namespace PysphVerif.Controller

/-- `k` rounds of the solver alone -/
def rounds : Nat → List Tid
  | 0 => []
  | k + 1 => 0 :: 0 :: 0 :: 0 :: 0 :: rounds k

/-- the solver is at the top of its loop, nobody holds `qlock`, nothing queued, nobody pausing -/
structure Idle (s : State) : Prop where
  spc : s.spc = SPc.start
  q : s.qOwner = none
  queue : s.queue = []
  pause : s.pause = []

/-- one round of the solver alone: five enabled steps, only `count` changes -/
theorem idle_round {s : State} (h : Idle s) (l : List Tid) :
    run Cfg.fixed s (0 :: 0 :: 0 :: 0 :: 0 :: l) = run Cfg.fixed { s with count := s.count + 1 } l ∧
    runs Cfg.fixed s (0 :: 0 :: 0 :: 0 :: 0 :: l) = runs Cfg.fixed { s with count := s.count + 1 } l := by
  obtain ⟨h1, h2, h3, h4⟩ := h
  constructor <;>
    simp [run, runs, step, stepSolver, runQueue, afterRun, checkPause, h1, h2, h3, h4]

theorem idle_rounds : ∀ (k : Nat) {s : State}, Idle s →
    run Cfg.fixed s (rounds k) = { s with count := s.count + k } ∧
    runs Cfg.fixed s (rounds k) = true
  | 0, s, _ => ⟨rfl, rfl⟩
  | k + 1, s, h => by
    have h' : Idle { s with count := s.count + 1 } := ⟨h.spc, h.q, h.queue, h.pause⟩
    obtain ⟨e1, e2⟩ := idle_round h (rounds k)
    obtain ⟨i1, i2⟩ := idle_rounds k h'
    simp only [rounds]
    rw [e1, e2, i1, i2]
    refine ⟨?_, rfl⟩
    simp [Nat.add_assoc, Nat.add_comm 1 k]

/-- inside every round a thread parked at `with self.qlock:` in `dispatch` is enabled at the
start and disabled two solver steps later, while the solver is enabled at each of its steps -/
theorem idle_parked {s : State} (h : Idle s) {t : Tid} (ht : t ≠ 0) {c : Cmd} {id : Nat}
    (hpc : (s.th t).pc = IPc.qAcqQ c id) :
    enabled Cfg.fixed s t = true ∧
    enabled Cfg.fixed (run Cfg.fixed s [0, 0]) t = false ∧
    runs Cfg.fixed s [0, 0, 0, 0, 0] = true := by
  obtain ⟨h1, h2, h3, h4⟩ := h
  refine ⟨?_, ?_, ?_⟩
  · simp [enabled, step, ht, stepIface, hpc, h2]
  · simp [enabled, run, step, ht, stepSolver, runQueue, afterRun, stepIface, hpc, h1, h2, h3]
  · simp [runs, step, stepSolver, runQueue, afterRun, checkPause, h1, h2, h3, h4]

end PysphVerif.Controller
