import PysphVerif.Lemmas.PArraySpecOps3
import Mathlib.Data.List.Nodup
/-!
C06: `append_parray` at the record level.
-/
namespace PysphVerif.PArray

/-- the column `append_parray` leaves for a property `c` of self once the source
properties `pre` have been processed -/
def appendColA (pa : PA) (k : Nat) (pre : List Col) (c : Col) : Col :=
  match pre.find? (fun (sc : Col) => sc.name == c.name) with
  | some sc => { c with data := c.data ++ sc.data }
  | none => extendCol pa k c

/-- the column `append_parray` creates for a source property self does not have -/
def appendColB (pa src : PA) (sc : Col) : Col :=
  ⟨sc.name, sc.ctype,
    List.replicate (pa.n * src.strideOf sc.name) (src.defaultOf sc.name) ++ sc.data⟩

def isNewCol (pa : PA) (sc : Col) : Bool := !pa.hasProp sc.name

theorem appendColA_name (pa : PA) (k : Nat) (pre : List Col) (c : Col) :
    (appendColA pa k pre c).name = c.name := by
  unfold appendColA; split <;> rfl

structure AppendInv (pa src : PA) (pre : List Col) (a : PA) : Prop where
  inv : Inv a
  n : a.n = pa.n + src.n
  props : a.props = pa.props.map (appendColA pa src.n pre) ++
    (pre.filter (isNewCol pa)).map (appendColB pa src)
  strideA : ∀ x ∈ pa.props.map Col.name, a.strideOf x = pa.strideOf x
  defaultA : ∀ x ∈ pa.props.map Col.name, a.defaultOf x = pa.defaultOf x
  strideB : ∀ sc ∈ pre.filter (isNewCol pa), a.strideOf sc.name = src.strideOf sc.name
  defaultB : ∀ sc ∈ pre.filter (isNewCol pa), a.defaultOf sc.name = src.defaultOf sc.name

theorem eq_of_name_eq {P : List Col} (hnd : (P.map Col.name).Nodup) {c c' : Col} (hc : c ∈ P)
    (hc' : c' ∈ P) (e : c.name = c'.name) : c = c' :=
  List.inj_on_of_nodup_map hnd hc hc' e

theorem setColL_replace (P : List Col) (c : Col) (h : c.name ∈ P.map Col.name) :
    setColL P c = P.map (fun (c' : Col) => if c'.name == c.name then c else c') := by
  unfold setColL
  rw [if_pos ((any_name_iff P c.name).mpr h)]

theorem replicate_take_mul (n0 k s : Nat) (x : Int) :
    (List.replicate ((n0 + k) * s) x).take (n0 * s) = List.replicate (n0 * s) x := by
  rw [List.take_replicate]
  congr 1
  rw [Nat.add_mul]; omega

theorem appendStep_inv {pa src : PA} (h : Inv pa) (hs : Inv src)
    (hss : ∀ nm ∈ src.props.map Col.name, pa.strideOf nm = src.strideOf nm)
    (pre : List Col) (b : Col) (suf : List Col) (hl : src.props = pre ++ b :: suf) (a : PA)
    (hq : AppendInv pa src pre a) :
    ∃ a', appendStep src pa.n (some a) b = some a' ∧ AppendInv pa src (pre ++ [b]) a' := by
  have hbm : b ∈ src.props := by rw [hl]; simp
  have hbn : b.name ∈ src.props.map Col.name := List.mem_map_of_mem hbm
  have hbpre : b.name ∉ pre.map Col.name := by
    have := hs.nodup
    rw [hl, List.map_append, List.map_cons, List.nodup_append] at this
    intro hm
    exact this.2.2 _ hm _ (by simp) rfl
  have hbs : 0 < src.strideOf b.name := (hs.len b hbm).1
  have hbl : b.data.length = src.n * src.strideOf b.name := (hs.len b hbm).2
  have hfindne : ∀ c' : Col, c'.name ≠ b.name →
      (pre ++ [b]).find? (fun (sc : Col) => sc.name == c'.name) =
        pre.find? (fun (sc : Col) => sc.name == c'.name) := by
    intro c' hne
    rw [List.find?_append]
    have : [b].find? (fun (sc : Col) => sc.name == c'.name) = none := by
      rw [List.find?_eq_none]
      intro sc hsc
      have : sc = b := by simpa using hsc
      subst this
      simpa using (fun e => hne e.symm : ¬ sc.name = c'.name)
    rw [this]; simp
  have hAne : ∀ c' : Col, c'.name ≠ b.name →
      appendColA pa src.n (pre ++ [b]) c' = appendColA pa src.n pre c' := by
    intro c' hne; unfold appendColA; rw [hfindne c' hne]
  unfold appendStep
  simp only []
  cases hcol : a.col? b.name with
  | some c =>
    simp only []
    obtain ⟨hcm, hcn⟩ := col?_some a _ c hcol
    have hcm' := hcm
    rw [hq.props] at hcm'
    rcases List.mem_append.mp hcm' with h1 | h1
    · obtain ⟨c0, hc0, hc0e⟩ := List.mem_map.mp h1
      have hc0n : c0.name = b.name := by rw [← hcn, ← hc0e, appendColA_name]
      have hbpa : b.name ∈ pa.props.map Col.name := hc0n ▸ List.mem_map_of_mem hc0
      have hfind : pre.find? (fun (sc : Col) => sc.name == c0.name) = none := by
        rw [List.find?_eq_none]
        intro sc hsc
        rw [hc0n]
        intro e
        exact hbpre ((by simpa using e : sc.name = b.name) ▸ List.mem_map_of_mem hsc)
      have hcE : c = extendCol pa src.n c0 := by
        rw [← hc0e]; unfold appendColA; rw [hfind]
      have hsa : a.strideOf b.name = pa.strideOf b.name := hq.strideA _ hbpa
      have hsp : pa.strideOf b.name = src.strideOf b.name := hss _ hbn
      have hc0l : c0.data.length = pa.n * pa.strideOf b.name := by
        rw [← hc0n]; exact (h.len c0 hc0).2
      have hcl : c.data.length = (pa.n + src.n) * pa.strideOf b.name := by
        have := (hq.inv.len c hcm).2
        rw [hcn, hsa, hq.n] at this
        exact this
      have hcheck : (c.data.length - pa.n * a.strideOf b.name == b.data.length) = true := by
        rw [hcl, hsa, hbl, ← hsp, Nat.add_mul, Nat.add_sub_cancel_left]
        simp
      rw [if_pos hcheck]
      refine ⟨_, rfl, ?_⟩
      have hnew := inv_setCol_sameLen hq.inv c hcm (c.data.take (pa.n * a.strideOf b.name) ++ b.data)
        (take_append_length _ _ _ hcheck)
      have htake : c.data.take (pa.n * a.strideOf b.name) = c0.data := by
        rw [hcE, extendCol_data h _ c0 hc0, hsa,
          List.take_append_of_le_length (by omega), List.take_of_length_le (by omega)]
      have hbnot : isNewCol pa b = false := by
        unfold isNewCol; rw [(hasProp_iff pa b.name).mpr hbpa]; rfl
      refine ⟨hnew.1, hnew.2.trans hq.n, ?_, ?_, ?_, ?_, ?_⟩
      · rw [setCol_props, setColL_replace _ _ (by
          show c.name ∈ _
          exact List.mem_map_of_mem hcm), hq.props, List.map_append, List.filter_append]
        have : [b].filter (isNewCol pa) = [] := by simp [hbnot]
        rw [this, List.append_nil]
        congr 1
        · rw [List.map_map]
          apply List.map_congr_left
          intro c' hc'
          simp only [Function.comp]
          show (if (appendColA pa src.n pre c').name == c.name then _ else _) = _
          rw [appendColA_name, hcn]
          by_cases hne : c'.name = b.name
          · have hcc : c' = c0 := eq_of_name_eq h.nodup hc' hc0 (hne.trans hc0n.symm)
            subst hcc
            rw [if_pos (by simpa using hne)]
            unfold appendColA
            have : (pre ++ [b]).find? (fun (sc : Col) => sc.name == c'.name) = some b := by
              rw [List.find?_append, hfind]
              simp [hne]
            rw [this, htake]
            simp only []
            rw [hcE, ← hne]
            rfl
          · have : (c'.name == b.name) = false := by simpa using hne
            rw [this]
            simp only [Bool.false_eq_true, if_false]
            exact (hAne c' hne).symm
        · rw [List.map_congr_left (g := id), List.map_id]
          intro c' hc'
          obtain ⟨sc, hsc, rfl⟩ := List.mem_map.mp hc'
          have hscnew : isNewCol pa sc = true := (List.mem_filter.mp hsc).2
          have : sc.name ≠ b.name := by
            intro e
            unfold isNewCol at hscnew
            rw [e, (hasProp_iff pa b.name).mpr hbpa] at hscnew
            simp at hscnew
          show (if sc.name == c.name then _ else _) = _
          rw [hcn]
          have : (sc.name == b.name) = false := by simpa using this
          rw [this]; rfl
      · intro x hx
        show lookupD (a.setCol _).stride x 1 = _
        rw [setCol_stride]; exact hq.strideA x hx
      · intro x hx
        show lookupD (a.setCol _).defaults x 0 = _
        rw [setCol_defaults]; exact hq.defaultA x hx
      · intro sc hsc
        rw [List.filter_append, show [b].filter (isNewCol pa) = [] from by simp [hbnot],
          List.append_nil] at hsc
        show lookupD (a.setCol _).stride sc.name 1 = _
        rw [setCol_stride]; exact hq.strideB sc hsc
      · intro sc hsc
        rw [List.filter_append, show [b].filter (isNewCol pa) = [] from by simp [hbnot],
          List.append_nil] at hsc
        show lookupD (a.setCol _).defaults sc.name 0 = _
        rw [setCol_defaults]; exact hq.defaultB sc hsc
    · obtain ⟨sc, hsc, hsce⟩ := List.mem_map.mp h1
      have : sc.name = b.name := by rw [← hcn, ← hsce]; rfl
      exact absurd (this ▸ List.mem_map_of_mem (List.mem_filter.mp hsc).1) hbpre
  | none =>
    simp only []
    have hnm : b.name ∉ a.props.map Col.name := col?_none a _ hcol
    have hbnpa : b.name ∉ pa.props.map Col.name := by
      intro hm
      apply hnm
      rw [hq.props, List.map_append, List.map_map]
      apply List.mem_append_left
      obtain ⟨c0, hc0, e⟩ := List.mem_map.mp hm
      exact List.mem_map.mpr ⟨c0, hc0, by simp only [Function.comp]; rw [appendColA_name]; exact e⟩
    have hbnew : isNewCol pa b = true := by
      unfold isNewCol
      rw [(hasProp_false_iff pa b.name).mpr hbnpa]; rfl
    have hp : ¬ a.hasProp b.name = true := fun hp => hnm ((hasProp_iff a b.name).mp hp)
    obtain ⟨a1, ha1⟩ := addProperty_nodata_isSome a b.name b.ctype (some (src.defaultOf b.name))
      (src.strideOf b.name)
    rw [ha1]
    simp only []
    obtain ⟨hi1, hn1, hso, hsn, _, _⟩ := addProperty_nodata_abs hq.inv hbs (fun hm => absurd hm hnm)
      (fun e => absurd (e ▸ hq.inv.toF.tagMem) hnm) ha1
    obtain ⟨hdf1, _, hpr1⟩ := addProperty_nodata_struct ha1
    rw [if_neg hp] at hpr1
    have hst : addStride a b.name (src.strideOf b.name) = src.strideOf b.name := by
      unfold addStride; rw [if_neg hp]
    rw [hst] at hsn
    have hdv : addDv a b.name (some (src.defaultOf b.name)) = src.defaultOf b.name := rfl
    rw [hdv] at hpr1 hdf1
    let newc : Col := ⟨b.name, b.ctype,
      List.replicate (a.n * src.strideOf b.name) (src.defaultOf b.name)⟩
    have hcol1 : a1.col? b.name = some newc := by
      unfold PA.col?
      rw [hpr1, List.find?_append]
      have : a.props.find? (fun (c : Col) => c.name == b.name) = none := by
        rw [List.find?_eq_none]
        intro c hc e
        exact hnm ((by simpa using e : c.name = b.name) ▸ List.mem_map_of_mem hc)
      rw [this]
      simp [newc]
    rw [hcol1]
    simp only []
    have hnewm : newc ∈ a1.props := by rw [hpr1]; simp [newc]
    have hcheck : (newc.data.length - pa.n * src.strideOf b.name == b.data.length) = true := by
      show ((List.replicate (a.n * src.strideOf b.name) (src.defaultOf b.name)).length -
        pa.n * src.strideOf b.name == b.data.length) = true
      rw [List.length_replicate, hq.n, hbl, Nat.add_mul, Nat.add_sub_cancel_left]
      simp
    rw [if_pos hcheck]
    refine ⟨_, rfl, ?_⟩
    have hnew := inv_setCol_sameLen hi1 newc hnewm
      (newc.data.take (pa.n * src.strideOf b.name) ++ b.data) (take_append_length _ _ _ hcheck)
    have htake : newc.data.take (pa.n * src.strideOf b.name) =
        List.replicate (pa.n * src.strideOf b.name) (src.defaultOf b.name) := by
      show (List.replicate (a.n * src.strideOf b.name) (src.defaultOf b.name)).take _ = _
      rw [hq.n]; exact replicate_take_mul _ _ _ _
    have hso' : ∀ x, x ≠ b.name → (a1.setCol
        { newc with data := newc.data.take (pa.n * src.strideOf b.name) ++ b.data }).strideOf x
          = a.strideOf x := by
      intro x hx
      show lookupD (a1.setCol _).stride x 1 = _
      rw [setCol_stride]; exact hso x hx
    have hdo' : ∀ x, x ≠ b.name → (a1.setCol
        { newc with data := newc.data.take (pa.n * src.strideOf b.name) ++ b.data }).defaultOf x
          = a.defaultOf x := by
      intro x hx
      show lookupD (a1.setCol _).defaults x 0 = _
      rw [setCol_defaults, hdf1]; exact lookupD_setKey_ne _ _ _ _ _ hx
    refine ⟨hnew.1, (hnew.2.trans hn1).trans hq.n, ?_, ?_, ?_, ?_, ?_⟩
    · rw [setCol_props, setColL_replace _ _ (by
        show b.name ∈ _
        rw [hpr1]; simp), hpr1, List.map_append, hq.props, List.filter_append]
      have : [b].filter (isNewCol pa) = [b] := by simp [hbnew]
      rw [this]
      simp only [List.map_append]
      rw [← List.append_assoc]
      congr 1
      · congr 1
        · rw [List.map_map]
          apply List.map_congr_left
          intro c' hc'
          have hne : c'.name ≠ b.name := fun e => hbnpa (e ▸ List.mem_map_of_mem hc')
          simp only [Function.comp]
          show (if (appendColA pa src.n pre c').name == b.name then _ else _) = _
          rw [appendColA_name]
          have : (c'.name == b.name) = false := by simpa using hne
          rw [this]
          simp only [Bool.false_eq_true, if_false]
          exact (hAne c' hne).symm
        · rw [List.map_congr_left (g := id), List.map_id]
          intro c' hc'
          obtain ⟨sc, hsc, rfl⟩ := List.mem_map.mp hc'
          have hne : sc.name ≠ b.name :=
            fun e => hbpre (e ▸ List.mem_map_of_mem (List.mem_filter.mp hsc).1)
          show (if sc.name == b.name then _ else _) = _
          have : (sc.name == b.name) = false := by simpa using hne
          rw [this]; rfl
      · simp only [List.map_cons, List.map_nil]
        show [(if b.name == b.name then _ else _)] = _
        simp only [beq_self_eq_true, if_true]
        rw [htake]
        rfl
    · intro x hx
      have hne : x ≠ b.name := fun e => hbnpa (e ▸ hx)
      rw [hso' x hne]; exact hq.strideA x hx
    · intro x hx
      have hne : x ≠ b.name := fun e => hbnpa (e ▸ hx)
      rw [hdo' x hne]; exact hq.defaultA x hx
    · intro sc hsc
      rw [List.filter_append, show [b].filter (isNewCol pa) = [b] from by simp [hbnew]] at hsc
      rcases List.mem_append.mp hsc with e | e
      · have hne : sc.name ≠ b.name :=
          fun e' => hbpre (e' ▸ List.mem_map_of_mem (List.mem_filter.mp e).1)
        rw [hso' _ hne]; exact hq.strideB sc e
      · have : sc = b := by simpa using e
        subst this
        show lookupD (a1.setCol _).stride sc.name 1 = _
        rw [setCol_stride]; exact hsn
    · intro sc hsc
      rw [List.filter_append, show [b].filter (isNewCol pa) = [b] from by simp [hbnew]] at hsc
      rcases List.mem_append.mp hsc with e | e
      · have hne : sc.name ≠ b.name :=
          fun e' => hbpre (e' ▸ List.mem_map_of_mem (List.mem_filter.mp e).1)
        rw [hdo' _ hne]; exact hq.defaultB sc e
      · have : sc = b := by simpa using e
        subst this
        show lookupD (a1.setCol _).defaults sc.name 0 = _
        rw [setCol_defaults, hdf1]; exact lookupD_setKey_self _ _ _ _

theorem col?_of_mem {pa : PA} (h : Inv pa) (c : Col) (hc : c ∈ pa.props) :
    pa.col? c.name = some c := by
  obtain ⟨c', hc'⟩ := col?_isSome_of_mem pa c.name (List.mem_map_of_mem hc)
  obtain ⟨hm, hn⟩ := col?_some pa _ c' hc'
  rw [hc', eq_of_name_eq h.nodup hm hc hn]

theorem extendCol_rows {dest : PA} (hd : Inv dest) (k : Nat) (c : Col) (hc : c ∈ dest.props) :
    rowsOf (dest.strideOf c.name) (extendCol dest k c).data =
      rowsOf (dest.strideOf c.name) c.data ++ List.replicate k (defaultRow dest c.name) := by
  have hs := (hd.len c hc).1
  have hu := rowsOf_uniform _ hs dest.n c.data (hd.len c hc).2
  rw [extendCol_data hd _ c hc]
  have : c.data ++ flat (List.replicate k (defaultRow dest c.name)) =
      flat (rowsOf (dest.strideOf c.name) c.data ++ List.replicate k (defaultRow dest c.name)) := by
    rw [flat_append, flat_rowsOf _ hs]
  rw [this]
  apply rowsOf_flat _ hs
  intro r hr
  rcases List.mem_append.mp hr with h1 | h1
  · exact hu.2 r h1
  · rw [(List.mem_replicate.mp h1).2]; simp [defaultRow]

/-- the rows `append_parray` puts into the new slots of property `c` of self -/
def appendTail (pa src : PA) (c : Col) : List (List Int) :=
  match src.col? c.name with
  | some sc => rowsOf (src.strideOf c.name) sc.data
  | none => List.replicate src.n (defaultRow pa c.name)

theorem transposeCols_cols_append (m : Nat) (X Y : List (String × List (List Int))) :
    transposeCols m (X ++ Y) = (List.range m).map (fun j =>
      X.map (fun c => (c.1, c.2.getD j [])) ++ Y.map (fun c => (c.1, c.2.getD j []))) := by
  unfold transposeCols
  simp only [List.map_append]

theorem isNewCol_iff (pa : PA) (sc : Col) :
    isNewCol pa sc = !(recKeys (defaultParticle pa)).contains sc.name := by
  unfold isNewCol
  rw [defaultParticle_keys']
  congr 1
  by_cases hm : sc.name ∈ pa.props.map Col.name
  · rw [(hasProp_iff pa sc.name).mpr hm]; symm; simpa using hm
  · rw [(hasProp_false_iff pa sc.name).mpr hm]; symm; simpa using hm

theorem missingFields_eq (pa src : PA) :
    missingFields (defaultParticle pa) (defaultParticle src) =
      (src.props.filter (isNewCol pa)).map (fun (sc : Col) => (sc.name, defaultRow src sc.name)) := by
  unfold missingFields
  conv_lhs => rw [show defaultParticle src =
    src.props.map (fun (c : Col) => (c.name, defaultRow src c.name)) from rfl]
  rw [List.filter_map]
  congr 1
  apply List.filter_congr
  intro sc _
  simp only [Function.comp]
  rw [isNewCol_iff]

/-- the record-list view of the array `append_parray` builds (before the
constants are merged and the array is aligned) -/
theorem appendInv_abs {pa src a : PA} (h : Inv pa) (hs : Inv src) (hk : src.n ≠ 0)
    (hss : ∀ nm ∈ src.props.map Col.name, pa.strideOf nm = src.strideOf nm)
    (hq : AppendInv pa src src.props a) :
    absPA a = specAppend (absPA pa) (absPA src) := by
  have hA : ∀ c ∈ pa.props, appendColA pa src.n src.props c =
      match src.col? c.name with
      | some sc => { c with data := c.data ++ sc.data }
      | none => extendCol pa src.n c := fun c _ => rfl
  -- rows of the final columns
  have hrowsA : ∀ c ∈ pa.props,
      rowsOf (a.strideOf (appendColA pa src.n src.props c).name)
        (appendColA pa src.n src.props c).data =
      rowsOf (pa.strideOf c.name) c.data ++ appendTail pa src c := by
    intro c hc
    rw [appendColA_name, hq.strideA _ (List.mem_map_of_mem hc), hA c hc]
    unfold appendTail
    cases hcol : src.col? c.name with
    | some sc =>
      simp only []
      obtain ⟨hscm, hscn⟩ := col?_some src _ sc hcol
      have hst : pa.strideOf c.name = src.strideOf c.name :=
        hss _ (hscn ▸ List.mem_map_of_mem hscm)
      rw [← hst]
      exact rowsOf_append _ (h.len c hc).1 _ _ pa.n src.n (h.len c hc).2 (by
        rw [(hs.len sc hscm).2, hscn, hst])
    | none =>
      simp only []
      exact extendCol_rows h src.n c hc
  have hrowsB : ∀ sc ∈ src.props.filter (isNewCol pa),
      rowsOf (a.strideOf (appendColB pa src sc).name) (appendColB pa src sc).data =
      List.replicate pa.n (defaultRow src sc.name) ++ rowsOf (src.strideOf sc.name) sc.data := by
    intro sc hsc
    have hscm := (List.mem_filter.mp hsc).1
    show rowsOf (a.strideOf sc.name) (List.replicate _ _ ++ sc.data) = _
    rw [hq.strideB sc hsc,
      rowsOf_append _ (hs.len sc hscm).1 _ _ pa.n src.n (by simp) (hs.len sc hscm).2,
      rowsOf_replicate _ _ (hs.len sc hscm).1]
    rfl
  have htailLen : ∀ c ∈ pa.props, (appendTail pa src c).length = src.n := by
    intro c _
    unfold appendTail
    cases hcol : src.col? c.name with
    | some sc =>
      simp only []
      obtain ⟨hscm, hscn⟩ := col?_some src _ sc hcol
      rw [← hscn]; exact n_eq_rows hs sc hscm
    | none => simp
  unfold absPA specAppend
  simp only []
  rw [if_neg (by rw [particles_length]; exact hk)]
  rw [missingFields_eq]
  congr 1
  · -- the default record
    unfold defaultParticle
    rw [hq.props, List.map_append, List.map_map, List.map_map]
    congr 1
    · apply List.map_congr_left
      intro c hc
      simp only [Function.comp]
      rw [appendColA_name]
      unfold defaultRow
      rw [hq.strideA _ (List.mem_map_of_mem hc), hq.defaultA _ (List.mem_map_of_mem hc)]
    · apply List.map_congr_left
      intro sc hsc
      simp only [Function.comp]
      show (sc.name, defaultRow a sc.name) = _
      unfold defaultRow
      rw [hq.strideB sc hsc, hq.defaultB sc hsc]
  · -- the records
    rw [particles_props_map a a.props id (by simp), hq.n]
    simp only [id]
    rw [hq.props, List.map_append, List.map_map, List.map_map]
    have e1 : pa.props.map ((fun (x : Col) => (x.name, rowsOf (a.strideOf x.name) x.data)) ∘
        appendColA pa src.n src.props) =
        pa.props.map (fun c => (c.name, rowsOf (pa.strideOf c.name) c.data ++ appendTail pa src c)) := by
      apply List.map_congr_left
      intro c hc
      simp only [Function.comp]
      rw [hrowsA c hc, appendColA_name]
    have e2 : (src.props.filter (isNewCol pa)).map
        ((fun (x : Col) => (x.name, rowsOf (a.strideOf x.name) x.data)) ∘ appendColB pa src) =
        (src.props.filter (isNewCol pa)).map (fun sc => (sc.name,
          List.replicate pa.n (defaultRow src sc.name) ++ rowsOf (src.strideOf sc.name) sc.data)) := by
      apply List.map_congr_left
      intro sc hsc
      simp only [Function.comp]
      rw [hrowsB sc hsc]
      rfl
    rw [e1, e2]
    -- one list of columns, each an old part of `pa.n` rows and a new part of `src.n` rows
    let L : List (String × List (List Int) × List (List Int)) :=
      pa.props.map (fun c => (c.name, rowsOf (pa.strideOf c.name) c.data, appendTail pa src c)) ++
      (src.props.filter (isNewCol pa)).map (fun sc => (sc.name,
        List.replicate pa.n (defaultRow src sc.name), rowsOf (src.strideOf sc.name) sc.data))
    have eL : pa.props.map (fun c => (c.name, rowsOf (pa.strideOf c.name) c.data ++ appendTail pa src c)) ++
        (src.props.filter (isNewCol pa)).map (fun sc => (sc.name,
          List.replicate pa.n (defaultRow src sc.name) ++ rowsOf (src.strideOf sc.name) sc.data)) =
        L.map (fun x => (x.1, x.2.1 ++ x.2.2)) := by
      simp only [L, List.map_append, List.map_map]
      rfl
    rw [eL, transposeCols_append L (fun x => x.1) (fun x => x.2.1) (fun x => x.2.2) pa.n src.n (by
      intro x hx
      simp only [L] at hx
      rcases List.mem_append.mp hx with h1 | h1
      · obtain ⟨c, hc, rfl⟩ := List.mem_map.mp h1
        exact n_eq_rows h c hc
      · obtain ⟨sc, _, rfl⟩ := List.mem_map.mp h1
        simp)]
    congr 1
    · -- the old records, with the missing fields at src's defaults
      simp only [L, List.map_append, List.map_map]
      rw [transposeCols_cols_append]
      unfold particles
      rw [List.map_map]
      apply List.map_congr_left
      intro j hj
      have hj : j < pa.n := by simpa using hj
      simp only [Function.comp]
      congr 1
      · unfold particleAt
        rw [List.map_map]; rfl
      · rw [List.map_map]
        apply List.map_congr_left
        intro sc _
        simp only [Function.comp]
        rw [List.getD_eq_getElem?_getD, List.getElem?_replicate, if_pos hj]; rfl
    · -- the source's records, with the missing fields at self's defaults
      simp only [L, List.map_append, List.map_map]
      rw [transposeCols_cols_append]
      unfold particles
      rw [List.map_map]
      apply List.map_congr_left
      intro j hj
      have hj : j < src.n := by simpa using hj
      simp only [Function.comp]
      have hkeys : recKeys (List.map (fun (c : Col) => (c.name, defaultRow src c.name)) src.props) =
          src.props.map Col.name := defaultParticle_keys' src
      congr 1
      · unfold defaultParticle
        rw [List.map_map, List.map_map]
        apply List.map_congr_left
        intro c hc
        simp only [Function.comp]
        unfold appendTail
        rw [hkeys]
        cases hcol : src.col? c.name with
        | some sc =>
          obtain ⟨hscm, hscn⟩ := col?_some src _ sc hcol
          have hm : c.name ∈ src.props.map Col.name := hscn ▸ List.mem_map_of_mem hscm
          rw [if_pos (by simpa using hm), field_particleAt src j c.name sc hcol]
        | none =>
          have hm : c.name ∉ src.props.map Col.name := col?_none src _ hcol
          rw [if_neg (by simpa using hm)]
          simp only []
          rw [List.getD_eq_getElem?_getD, List.getElem?_replicate, if_pos hj]; rfl
      · rw [List.map_map]
        apply List.map_congr_left
        intro sc hsc
        have hscm := (List.mem_filter.mp hsc).1
        simp only [Function.comp]
        rw [defaultParticle_keys']
        rw [if_pos (by simpa using (List.mem_map_of_mem hscm : sc.name ∈ src.props.map Col.name)),
          field_particleAt src j sc.name sc (col?_of_mem hs sc hscm)]

/-- **`append_parray(src, align, update_constants)`** refines `specAppend` -/
theorem append_refines {pa src : PA} (h : Inv pa) (hs : Inv src) (al up : Bool)
    (hss : ∀ nm ∈ src.props.map Col.name, pa.strideOf nm = src.strideOf nm) :
    ∃ pa', pa.appendParray src al up = some pa' ∧
      (absPA pa').equiv (specAppend (absPA pa) (absPA src)) := by
  rw [appendParray_eq]
  by_cases hk : src.n = 0
  · rw [if_pos (by simpa using hk)]
    refine ⟨pa, rfl, RA.equiv_of_eq ?_⟩
    unfold specAppend
    rw [if_pos (by show (particles src).length = 0; rw [particles_length]; exact hk)]
  rw [if_neg (by simpa using hk)]
  obtain ⟨hi0, hn0⟩ := inv_extend h src.n
  obtain ⟨r, hr, hq⟩ := foldl_opt_exists (appendStep src pa.n) (AppendInv pa src) src.props
    (fun pre b suf a hl hq => appendStep_inv h hs hss pre b suf hl a hq)
    (pa.extend src.n)
    ⟨hi0, hn0, by
        rw [extend_props pa _ hk]; simp only [List.filter_nil, List.map_nil, List.append_nil]
        apply List.map_congr_left
        intro c _
        rfl,
      fun x _ => by unfold PA.strideOf; rw [extend_stride],
      fun x _ => by unfold PA.defaultOf; rw [extend_defaults],
      fun sc hsc => by simp at hsc, fun sc hsc => by simp at hsc⟩
  rw [hr]
  simp only []
  have habs := appendInv_abs h hs hk hss hq
  have hup : ∀ cs : List (String × List Int), absPA ({ r with consts := cs } : PA) = absPA r :=
    fun cs => absPA_congr_fields rfl rfl rfl
  have hiup : ∀ cs : List (String × List Int), Inv ({ r with consts := cs } : PA) :=
    fun cs => InvF.toInv (pa := { r with consts := cs }) hq.inv.toF
  refine ⟨_, rfl, ?_⟩
  split
  · split
    · exact RA.equiv_trans (absPA_align (hiup _)) (RA.equiv_of_eq ((hup _).trans habs))
    · exact RA.equiv_trans (absPA_align hq.inv) (RA.equiv_of_eq habs)
  · split
    · exact RA.equiv_of_eq ((hup _).trans habs)
    · exact RA.equiv_of_eq habs

/-- without alignment the refinement is exact -/
theorem append_noalign_abs {pa src : PA} (h : Inv pa) (hs : Inv src) (up : Bool)
    (hss : ∀ nm ∈ src.props.map Col.name, pa.strideOf nm = src.strideOf nm) :
    ∃ pa', pa.appendParray src false up = some pa' ∧
      absPA pa' = specAppend (absPA pa) (absPA src) := by
  rw [appendParray_eq]
  by_cases hk : src.n = 0
  · rw [if_pos (by simpa using hk)]
    refine ⟨pa, rfl, ?_⟩
    unfold specAppend
    rw [if_pos (by show (particles src).length = 0; rw [particles_length]; exact hk)]
  rw [if_neg (by simpa using hk)]
  obtain ⟨hi0, hn0⟩ := inv_extend h src.n
  obtain ⟨r, hr, hq⟩ := foldl_opt_exists (appendStep src pa.n) (AppendInv pa src) src.props
    (fun pre b suf a hl hq => appendStep_inv h hs hss pre b suf hl a hq)
    (pa.extend src.n)
    ⟨hi0, hn0, by
        rw [extend_props pa _ hk]; simp only [List.filter_nil, List.map_nil, List.append_nil]
        apply List.map_congr_left
        intro c _
        rfl,
      fun x _ => by unfold PA.strideOf; rw [extend_stride],
      fun x _ => by unfold PA.defaultOf; rw [extend_defaults],
      fun sc hsc => by simp at hsc, fun sc hsc => by simp at hsc⟩
  rw [hr]
  simp only [Bool.and_false, Bool.false_eq_true, if_false]
  have habs := appendInv_abs h hs hk hss hq
  refine ⟨_, rfl, ?_⟩
  split
  · exact (absPA_congr_fields rfl rfl rfl).trans habs
  · exact habs

end PysphVerif.PArray
