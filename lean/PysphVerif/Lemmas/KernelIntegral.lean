import Mathlib.MeasureTheory.Integral.IntervalIntegral.FundThmCalculus
import PysphVerif.Lemmas.Kernel
/-!
C08 — normalisation in radial form.

For a polynomial kernel table `K` (no `exp` envelope) the radial integral of the
function the table denotes is the exact rational `massSum` the check computes:

  `∫ q in 0..radius, q^(d-1) · wR K q  =  Σ_pieces (A_p(hi) − A_p(lo))`,

`A_p` the formal antiderivative of `q^(d-1)·w_p` (checked by differentiating it
back).  With `normOk` this gives `S_d · fac · ∫ = 1`.
-/
namespace PysphVerif.Kernel
open PysphVerif.Poly Set MeasureTheory intervalIntegral

theorem continuous_evR (p : List ℚ) : Continuous (evR p) :=
  continuous_iff_continuousAt.2 (fun x => (hasDerivAt_evR p x).continuousAt)

/-- one piece: `∫_{lo}^{hi} q^(d-1) w_p(q) dq = A_p(hi) − A_p(lo)` -/
theorem piece_integral {d : ℕ} {p : Piece} (h : pieceAntiOk d p = true) :
    ∫ x in (p.lo : ℝ)..(p.hi : ℝ), x ^ (d - 1) * evR p.w x = ((pieceMass d p : ℚ) : ℝ) := by
  have hderiv : ∀ x ∈ uIcc (p.lo : ℝ) p.hi,
      HasDerivAt (evR (radialAnti d p)) (x ^ (d - 1) * evR p.w x) x := by
    intro x _
    have h1 := hasDerivAt_evR (radialAnti d p) x
    rw [evR_eq_of_peq h x, radial, evR_mulXpow] at h1
    exact h1
  have hc : Continuous (fun x : ℝ => x ^ (d - 1) * evR p.w x) :=
    (continuous_pow _).mul (continuous_evR _)
  rw [integral_eq_sub_of_hasDerivAt hderiv (hc.intervalIntegrable _ _)]
  simp only [pieceMass, evR_ratCast]
  push_cast; ring

theorem chain_le_lastHi : ∀ (ps : List Piece) (L : ℚ), chain L ps = true → L ≤ lastHi L ps := by
  intro ps
  induction ps with
  | nil => intro L _; exact le_rfl
  | cons p ps ih =>
    intro L h
    obtain ⟨hlo, hlt, hc⟩ := chain_cons h
    have := ih p.hi hc
    simp only [lastHi]
    rw [← hlo]
    exact le_trans hlt.le this

/-- the radial integral of the piece-wise function is the sum of the piece masses -/
theorem radial_integral (d : ℕ) (t : Piece) : ∀ (ps : List Piece) (L : ℚ), chain L ps = true →
    ps.all (pieceAntiOk d) = true →
    IntervalIntegrable (fun x : ℝ => x ^ (d - 1) * FG (gfun false Piece.w) ps t x) volume
      (L : ℝ) (lastHi L ps : ℝ) ∧
    ∫ x in (L : ℝ)..(lastHi L ps : ℝ), x ^ (d - 1) * FG (gfun false Piece.w) ps t x =
      ((massSum d ps : ℚ) : ℝ) := by
  intro ps
  induction ps with
  | nil =>
    intro L _ _
    simp [lastHi, massSum]
  | cons p ps ih =>
    intro L h ha
    obtain ⟨hlo, hlt, hc⟩ := chain_cons h
    subst hlo
    simp only [List.all_cons, Bool.and_eq_true] at ha
    obtain ⟨ihI, ihE⟩ := ih p.hi hc ha.2
    have hL : (p.lo : ℝ) ≤ p.hi := by exact_mod_cast hlt.le
    have hH : (p.hi : ℝ) ≤ (lastHi p.hi ps : ℝ) := by exact_mod_cast chain_le_lastHi ps p.hi hc
    have e1 : (uIoo (p.lo : ℝ) p.hi).EqOn (fun x : ℝ => x ^ (d - 1) * evR p.w x)
        (fun x : ℝ => x ^ (d - 1) * FG (gfun false Piece.w) (p :: ps) t x) := by
      intro x hx
      rw [uIoo_of_le hL] at hx
      simp only [FG]
      rw [lookR_cons_in ps t (Or.inl hx.2)]
      simp [gfun, envg]
    have e2 : (uIoo (p.hi : ℝ) (lastHi p.hi ps : ℝ)).EqOn
        (fun x : ℝ => x ^ (d - 1) * FG (gfun false Piece.w) ps t x)
        (fun x : ℝ => x ^ (d - 1) * FG (gfun false Piece.w) (p :: ps) t x) := by
      intro x hx
      rw [uIoo_of_le hH] at hx
      have hout : ¬ InP p x := fun hin => by
        have := InP_le hin
        linarith [hx.1]
      simp only [FG]
      rw [lookR_cons_out ps t hout]
    have cG : Continuous (fun x : ℝ => x ^ (d - 1) * evR p.w x) :=
      (continuous_pow _).mul (continuous_evR _)
    have i1 := (cG.intervalIntegrable (μ := volume) (p.lo : ℝ) p.hi).congr_uIoo e1
    have i2 := ihI.congr_uIoo e2
    have hl : lastHi p.lo (p :: ps) = lastHi p.hi ps := rfl
    rw [hl]
    refine ⟨i1.trans i2, ?_⟩
    rw [← integral_add_adjacent_intervals i1 i2, ← integral_congr_uIoo e1,
      ← integral_congr_uIoo e2, ihE, piece_integral ha.1]
    simp only [massSum]
    push_cast; ring

/-- area of the unit sphere in `d` dimensions: `S_1 = 2, S_2 = 2π, S_3 = 4π` -/
noncomputable def sphereR (d : ℕ) : ℝ := (sphereQ d : ℝ) * Real.pi ^ (spherePi d)

theorem sphereR_one : sphereR 1 = 2 := by simp [sphereR, sphereQ, spherePi]
theorem sphereR_two : sphereR 2 = 2 * Real.pi := by simp [sphereR, sphereQ, spherePi]
theorem sphereR_three : sphereR 3 = 4 * Real.pi := by simp [sphereR, sphereQ, spherePi]

theorem lastHi_radius {K : KTable} (hc : chainOk K = true) :
    chain 0 K.pieces = true ∧ lastHi 0 K.pieces = K.radius := by
  simp only [chainOk, Bool.and_eq_true, beq_iff_eq] at hc
  exact ⟨hc.1.1, hc.1.2⟩

/-- radial integral of the shape function of a polynomial kernel -/
theorem wR_radial_integral {K : KTable} (hc : chainOk K = true) (hn : normOk K = true) :
    ∫ x in (0 : ℝ)..(K.radius : ℝ), x ^ (K.dim - 1) * wR K x =
      ((massSum K.dim K.pieces : ℚ) : ℝ) := by
  obtain ⟨hch, hl⟩ := lastHi_radius hc
  simp only [normOk, Bool.and_eq_true, Bool.not_eq_true'] at hn
  have hg : K.gauss = false := hn.1.1.1.1.1
  have := (radial_integral K.dim K.tail K.pieces 0 hch hn.1.1.2).2
  rw [hl] at this
  simpa [wR, hg] using this

/-- **normalisation in radial form**: `S_d · fac · ∫₀^R q^(d-1) w(q) dq = 1` -/
theorem radial_normalised {K : KTable} (hc : chainOk K = true) (hn : normOk K = true) :
    sphereR K.dim * facR K * ∫ x in (0 : ℝ)..(K.radius : ℝ), x ^ (K.dim - 1) * wR K x = 1 := by
  rw [wR_radial_integral hc hn]
  simp only [normOk, Bool.and_eq_true, beq_iff_eq] at hn
  have hq : K.facQ * sphereQ K.dim * massSum K.dim K.pieces = 1 := hn.1.2
  have hp : K.piHalf + 2 * spherePi K.dim = 0 := hn.2
  have hqR : (K.facQ : ℝ) * (sphereQ K.dim : ℝ) * ((massSum K.dim K.pieces : ℚ) : ℝ) = 1 := by
    exact_mod_cast hq
  have hs : Real.sqrt Real.pi ≠ 0 := (Real.sqrt_pos.2 Real.pi_pos).ne'
  have hpi : Real.pi ^ (spherePi K.dim) = Real.sqrt Real.pi ^ (2 * spherePi K.dim) := by
    rw [zpow_mul, zpow_two, Real.mul_self_sqrt Real.pi_pos.le]
  have hz : Real.sqrt Real.pi ^ (2 * spherePi K.dim) * Real.sqrt Real.pi ^ K.piHalf = 1 := by
    rw [← zpow_add₀ hs, add_comm, hp, zpow_zero]
  unfold sphereR facR
  rw [hpi]
  calc (sphereQ K.dim : ℝ) * Real.sqrt Real.pi ^ (2 * spherePi K.dim) *
        ((K.facQ : ℝ) * Real.sqrt Real.pi ^ K.piHalf) * ((massSum K.dim K.pieces : ℚ) : ℝ)
      = ((K.facQ : ℝ) * (sphereQ K.dim : ℝ) * ((massSum K.dim K.pieces : ℚ) : ℝ)) *
        (Real.sqrt Real.pi ^ (2 * spherePi K.dim) * Real.sqrt Real.pi ^ K.piHalf) := by ring
    _ = 1 := by rw [hqR, hz]; ring

/-- change of variable `q = r/h`: the radial integral of the kernel at smoothing length
`h` is `fac` times the radial integral of the shape function (for `hpowW = dim ≥ 1`) -/
theorem W_radial_integral (K : KTable) (hw : K.hpowW = K.dim) (hd : 1 ≤ K.dim) {h : ℝ}
    (hh : 0 < h) :
    ∫ r in (0 : ℝ)..((K.radius : ℝ) * h), r ^ (K.dim - 1) * W K r h =
      facR K * ∫ x in (0 : ℝ)..(K.radius : ℝ), x ^ (K.dim - 1) * wR K x := by
  have hne : h⁻¹ ≠ 0 := inv_ne_zero hh.ne'
  have e : ∀ r : ℝ, r ^ (K.dim - 1) * W K r h =
      (facR K * h⁻¹) * ((fun x : ℝ => x ^ (K.dim - 1) * wR K x) (r * h⁻¹)) := by
    intro r
    simp only [W, hw]
    obtain ⟨n, hn⟩ : ∃ n, K.dim = n + 1 := ⟨K.dim - 1, by omega⟩
    simp only [hn, Nat.add_sub_cancel, mul_pow, pow_succ]
    ring
  simp_rw [e]
  rw [intervalIntegral.integral_const_mul]
  have hsub := integral_comp_mul_right (a := 0) (b := (K.radius : ℝ) * h)
    (fun x : ℝ => x ^ (K.dim - 1) * wR K x) hne
  beta_reduce at hsub
  rw [hsub]
  simp only [zero_mul, inv_inv, smul_eq_mul]
  rw [mul_assoc (K.radius : ℝ), mul_inv_cancel₀ hh.ne', mul_one]
  field_simp

end PysphVerif.Kernel
