import PysphVerif.Lemmas.ControllerFair
/-!
C18, repaired protocol: termination under strong fairness, part 2 — infinite
schedules.  A schedule is any `σ : Nat → Tid`; an entry naming a thread that
is not enabled is a no-op.  Strong fairness: a thread that is enabled
infinitely often is scheduled, while enabled, infinitely often.
-/
set_option linter.unusedVariables false
set_option linter.unusedSectionVars false
namespace PysphVerif.Controller

/-- the run of the repaired protocol under the infinite schedule `σ` -/
def trace (ps : List (List Op)) (σ : Nat → Tid) : Nat → State
  | 0 => init (progsOf ps)
  | i + 1 =>
    match step Cfg.fixed (trace ps σ i) (σ i) with
    | some (s', _) => s'
    | none => trace ps σ i

def StronglyFair (ps : List (List Op)) (σ : Nat → Tid) : Prop :=
  ∀ t, t ≤ ps.length →
    (∀ i, ∃ j, i ≤ j ∧ enabled Cfg.fixed (trace ps σ j) t = true) →
    ∀ i, ∃ j, i ≤ j ∧ σ j = t ∧ enabled Cfg.fixed (trace ps σ j) t = true

theorem trace_reachable (ps : List (List Op)) (σ : Nat → Tid) :
    ∀ i, Reachable Cfg.fixed (progsOf ps) (trace ps σ i)
  | 0 => Reachable.init
  | i + 1 => by
    have ih := trace_reachable ps σ i
    unfold trace
    split
    · rename_i s' evs h; exact Reachable.step ih h
    · exact ih

theorem trace_succ_some {ps : List (List Op)} {σ : Nat → Tid} {i : Nat} {s' : State}
    {evs : List Ev} (h : step Cfg.fixed (trace ps σ i) (σ i) = some (s', evs)) :
    trace ps σ (i + 1) = s' := by
  rw [trace, h]

theorem trace_succ_none {ps : List (List Op)} {σ : Nat → Tid} {i : Nat}
    (h : step Cfg.fixed (trace ps σ i) (σ i) = none) :
    trace ps σ (i + 1) = trace ps σ i := by
  rw [trace, h]

/-! ### sequences of naturals -/

theorem noninc_le (f : Nat → Nat) (i0 : Nat) (h : ∀ i, i0 ≤ i → f (i + 1) ≤ f i) :
    ∀ i, i0 ≤ i → f i ≤ f i0 := by
  intro i hi
  induction i with
  | zero => have : i0 = 0 := by omega
            subst this; exact Nat.le_refl _
  | succ k ih =>
    by_cases hk : i0 ≤ k
    · exact Nat.le_trans (h k hk) (ih hk)
    · have : i0 = k + 1 := by omega
      subst this; exact Nat.le_refl _

theorem eventually_const (f : Nat → Nat) : ∀ (v i0 : Nat), f i0 = v →
    (∀ i, i0 ≤ i → f (i + 1) ≤ f i) → ∃ i1, i0 ≤ i1 ∧ ∀ i, i1 ≤ i → f i = f i1 := by
  intro v
  induction v using Nat.strongRecOn with
  | _ v ih =>
    intro i0 hv h
    by_cases hex : ∃ i, i0 ≤ i ∧ f i < f i0
    · obtain ⟨i, hi, hlt⟩ := hex
      obtain ⟨i1, h1, h2⟩ := ih (f i) (by omega) i rfl (fun j hj => h j (by omega))
      exact ⟨i1, by omega, h2⟩
    · refine ⟨i0, Nat.le_refl _, ?_⟩
      intro i hi
      have h1 := noninc_le f i0 h i hi
      have h2 : ¬ f i < f i0 := fun hlt => hex ⟨i, hi, hlt⟩
      omega

theorem eventually_const2 (f g : Nat → Nat)
    (h : ∀ i, f (i + 1) < f i ∨ (f (i + 1) = f i ∧ g (i + 1) ≤ g i)) :
    ∃ i0, ∀ i, i0 ≤ i → f i = f i0 ∧ g i = g i0 := by
  obtain ⟨i1, -, hf⟩ := eventually_const f (f 0) 0 rfl
    (fun i _ => by rcases h i with h | h <;> omega)
  have hg : ∀ i, i1 ≤ i → g (i + 1) ≤ g i := by
    intro i hi
    rcases h i with hlt | ⟨_, hle⟩
    · have := hf i hi; have := hf (i + 1) (by omega); omega
    · exact hle
  obtain ⟨i2, h12, hg2⟩ := eventually_const g (g i1) i1 rfl hg
  refine ⟨i2, ?_⟩
  intro i hi
  exact ⟨by rw [hf i (by omega), hf i2 h12], hg2 i hi⟩

/-- finitely many threads: bounds per thread give a common bound -/
theorem common_bound (P : Nat → Nat → Prop) : ∀ n,
    (∀ t, 1 ≤ t → t ≤ n → ∃ b, ∀ j, b ≤ j → ¬ P j t) →
    ∃ B, ∀ t, 1 ≤ t → t ≤ n → ∀ j, B ≤ j → ¬ P j t
  | 0, _ => ⟨0, fun t h1 h2 => by omega⟩
  | n + 1, h => by
    obtain ⟨B, hB⟩ := common_bound P n (fun t h1 h2 => h t h1 (by omega))
    obtain ⟨b, hb⟩ := h (n + 1) (by omega) (Nat.le_refl _)
    refine ⟨max B b, ?_⟩
    intro t h1 h2 j hj
    by_cases ht : t = n + 1
    · subst ht; exact hb j (by omega)
    · exact hB t h1 (by omega) j (by omega)

/-! ### what one entry of the schedule does to the rank -/

section
variable {ps : List (List Op)} (hwf : ∀ p ∈ ps, WF false p = true) (σ : Nat → Tid)
include hwf

theorem trace_iface_step {i : Nat} {s' : State} {evs : List Ev} (ht0 : σ i ≠ 0)
    (h : step Cfg.fixed (trace ps σ i) (σ i) = some (s', evs)) :
    muIface ps.length (trace ps σ (i + 1)) < muIface ps.length (trace ps σ i) ∨
    (muIface ps.length (trace ps σ (i + 1)) = muIface ps.length (trace ps σ i) ∧
      muWait2 ps.length (trace ps σ (i + 1)) < muWait2 ps.length (trace ps σ i)) := by
  have hr := trace_reachable ps σ i
  rw [trace_succ_some h]
  have hst : stepIface Cfg.fixed (trace ps σ i) (σ i) = some (s', evs) := by
    simpa [step, ht0] using h
  have htn : σ i ≤ ps.length := by
    apply Classical.byContradiction
    intro hc
    have := (reachable_live hwf hr).inert (σ i) (Nat.lt_of_not_le hc)
    simp [stepIface, this.1, this.2] at hst
  have ht1 : 1 ≤ σ i := Nat.pos_of_ne_zero ht0
  obtain ⟨hoth, hcase⟩ := iface_rank2 (reachable_w (cfg := Cfg.fixed) rfl rfl hr) ht0 hst
  rcases hcase with hlt | ⟨heq, hwlt, hsame, hmu⟩
  · left
    apply sumTo_lt
    · intro j _ _
      by_cases hj : j = σ i
      · rw [hj]; exact Nat.le_of_lt hlt
      · exact Nat.le_of_eq (hoth j hj)
    · exact ⟨σ i, ht1, htn, hlt⟩
  · right
    refine ⟨?_, ?_⟩
    · apply sumTo_congr
      intro j _ _
      by_cases hj : j = σ i
      · rw [hj]; exact heq
      · exact hoth j hj
    · apply sumTo_lt
      · intro j _ _
        by_cases hj : j = σ i
        · rw [hj]; exact Nat.le_of_lt hwlt
        · exact Nat.le_of_eq (hsame j hj)
      · exact ⟨σ i, ht1, htn, hwlt⟩

theorem trace_solver_step {i : Nat} {s' : State} {evs : List Ev} (ht0 : σ i = 0)
    (h : step Cfg.fixed (trace ps σ i) (σ i) = some (s', evs)) :
    muIface ps.length (trace ps σ (i + 1)) = muIface ps.length (trace ps σ i) ∧
    muWait2 ps.length (trace ps σ (i + 1)) ≤ muWait2 ps.length (trace ps σ i) ∧
    (muSolver (trace ps σ (i + 1)) < muSolver (trace ps σ i) ∨
      ((trace ps σ i).spc = SPc.acqQ2 ∧ (trace ps σ i).pause = [] ∧ (trace ps σ i).queue = [])) := by
  have hr := trace_reachable ps σ i
  have hal := (reachable_safe (Reachable.step hr h)).alive
  rw [trace_succ_some h]
  have hst : stepSolver Cfg.fixed (trace ps σ i) = some (s', evs) := by
    simpa [step, ht0] using h
  have hW := reachable_w (cfg := Cfg.fixed) rfl rfl hr
  have hL := reachable_locks hr
  obtain ⟨hrk, hcase⟩ := solver_rank hW.waiting hL.lq.rq hL.lq.wq hal hst
  have hwp := solver_wp2 hW (reachable_np hr) hst
  exact ⟨sumTo_congr _ (fun j _ _ => hrk j), sumTo_le _ (fun j _ _ => hwp j), hcase⟩

theorem trace_pair (i : Nat) :
    muIface ps.length (trace ps σ (i + 1)) < muIface ps.length (trace ps σ i) ∨
    (muIface ps.length (trace ps σ (i + 1)) = muIface ps.length (trace ps σ i) ∧
      muWait2 ps.length (trace ps σ (i + 1)) ≤ muWait2 ps.length (trace ps σ i)) := by
  cases h : step Cfg.fixed (trace ps σ i) (σ i) with
  | none => right; rw [trace_succ_none h]; exact ⟨rfl, Nat.le_refl _⟩
  | some x =>
    obtain ⟨s', evs⟩ := x
    by_cases ht0 : σ i = 0
    · have := trace_solver_step hwf σ ht0 h
      exact Or.inr ⟨this.1, this.2.1⟩
    · rcases trace_iface_step hwf σ ht0 h with hlt | ⟨h1, h2⟩
      · exact Or.inl hlt
      · exact Or.inr ⟨h1, Nat.le_of_lt h2⟩

/-- **Termination under strong fairness.** -/
theorem fair_terminates (hfair : StronglyFair ps σ) :
    ∃ i, Final ps.length (trace ps σ i) := by
  apply Classical.byContradiction
  intro hnf
  have hnf : ∀ i, ¬ Final ps.length (trace ps σ i) := fun i hf => hnf ⟨i, hf⟩
  -- (1) interface threads take only finitely many steps
  obtain ⟨i0, hconst⟩ := eventually_const2 (fun i => muIface ps.length (trace ps σ i))
    (fun i => muWait2 ps.length (trace ps σ i)) (trace_pair hwf σ)
  have hquiet : ∀ i, i0 ≤ i → σ i ≠ 0 → step Cfg.fixed (trace ps σ i) (σ i) = none := by
    intro i hi ht0
    cases h : step Cfg.fixed (trace ps σ i) (σ i) with
    | none => rfl
    | some x =>
      obtain ⟨s', evs⟩ := x
      have h1 := hconst i hi
      have h2 := hconst (i + 1) (by omega)
      rcases trace_iface_step hwf σ ht0 h with hlt | ⟨_, hlt⟩ <;> omega
  -- (2) infinitely often some interface thread is enabled
  have hinf : ∃ t, 1 ≤ t ∧ t ≤ ps.length ∧
      ∀ i, ∃ j, i ≤ j ∧ enabled Cfg.fixed (trace ps σ j) t = true := by
    apply Classical.byContradiction
    intro hc
    have hb : ∀ t, 1 ≤ t → t ≤ ps.length →
        ∃ b, ∀ j, b ≤ j → ¬ (enabled Cfg.fixed (trace ps σ j) t = true) := by
      intro t h1 h2
      apply Classical.byContradiction
      intro hcc
      apply hc
      refine ⟨t, h1, h2, ?_⟩
      intro i
      apply Classical.byContradiction
      intro hci
      apply hcc
      exact ⟨i, fun j hj hen => hci ⟨j, hj, hen⟩⟩
    obtain ⟨B, hB⟩ := common_bound (fun j t => enabled Cfg.fixed (trace ps σ j) t = true) _ hb
    -- from `B` on no interface thread is ever enabled, so the solver always is
    have hstuck : ∀ j, B ≤ j → ∀ v, Stuck (trace ps σ j) v := by
      intro j hj v
      have hr := trace_reachable ps σ j
      have hlive := reachable_live hwf hr
      have hW := reachable_w (cfg := Cfg.fixed) rfl rfl hr
      by_cases hv : v = 0
      · subst hv; exact stuck_zero hW.zero hlive.zprog
      · apply stuck_of_none
        by_cases hvn : v ≤ ps.length
        · have := hB v (Nat.pos_of_ne_zero hv) hvn j hj
          cases hsv : stepIface Cfg.fixed (trace ps σ j) v with
          | none => rfl
          | some x => exact absurd (by simp [enabled, step, hv, hsv]) this
        · have := hlive.inert v (Nat.lt_of_not_le hvn); simp [stepIface, this.1, this.2]
    have hsolver : ∀ j, B ≤ j → enabled Cfg.fixed (trace ps σ j) 0 = true := by
      intro j hj
      have hr := trace_reachable ps σ j
      have := stuck_solver_moves (reachable_live hwf hr) (reachable_w (cfg := Cfg.fixed) rfl rfl hr)
        (reachable_pinv hr) (reachable_locks hr) (reachable_safe hr) (reachable_inv hr).1
        (hstuck j hj)
      cases hs0 : stepSolver Cfg.fixed (trace ps σ j) with
      | none => exact absurd hs0 this
      | some x => simp [enabled, step, hs0]
    -- every solver step from `B` on decreases `muSolver`, every other entry is a no-op
    have hdec : ∀ j, B ≤ j →
        (σ j = 0 → muSolver (trace ps σ (j + 1)) < muSolver (trace ps σ j)) ∧
        muSolver (trace ps σ (j + 1)) ≤ muSolver (trace ps σ j) := by
      intro j hj
      by_cases ht0 : σ j = 0
      · have hen := hsolver j hj
        cases h : step Cfg.fixed (trace ps σ j) (σ j) with
        | none => rw [ht0] at h; simp [enabled, h] at hen
        | some x =>
          obtain ⟨s', evs⟩ := x
          rcases (trace_solver_step hwf σ ht0 h).2.2 with hlt | ⟨hsp, hpe, hqe⟩
          · exact ⟨fun _ => hlt, Nat.le_of_lt hlt⟩
          · exfalso
            have hr := trace_reachable ps σ j
            apply hnf j
            refine ⟨fun t _ _ => stuck_idle_all_done (reachable_live hwf hr)
              (reachable_w (cfg := Cfg.fixed) rfl rfl hr) (reachable_locks hr) (reachable_inv hr).1
              (hstuck j hj) hsp hpe hqe t, hqe, ?_⟩
            simp [inflight, hsp]
      · refine ⟨fun h => absurd h ht0, ?_⟩
        have hdis : step Cfg.fixed (trace ps σ j) (σ j) = none := by
          cases h : step Cfg.fixed (trace ps σ j) (σ j) with
          | none => rfl
          | some x =>
            exfalso
            have hr := trace_reachable ps σ j
            have hst : stepIface Cfg.fixed (trace ps σ j) (σ j) = some x := by
              simpa [step, ht0] using h
            by_cases hvn : σ j ≤ ps.length
            · exact hB (σ j) (Nat.pos_of_ne_zero ht0) hvn j hj (by simp [enabled, h])
            · have := (reachable_live hwf hr).inert (σ j) (Nat.lt_of_not_le hvn)
              simp [stepIface, this.1, this.2] at hst
        rw [trace_succ_none hdis]; exact Nat.le_refl _
    obtain ⟨i1, hB1, hm⟩ := eventually_const (fun j => muSolver (trace ps σ j)) _ B rfl
      (fun j hj => (hdec j hj).2)
    obtain ⟨j, hj, hσ, -⟩ := hfair 0 (Nat.zero_le _)
      (fun i => ⟨max i B, by omega, hsolver _ (by omega)⟩) i1
    have h1 := (hdec j (by omega)).1 hσ
    have h2 := hm j hj
    have h3 := hm (j + 1) (by omega)
    omega
  -- (3) strong fairness gives that thread a step, which (1) excludes
  obtain ⟨t, ht1, htn, hio⟩ := hinf
  obtain ⟨j, hj, hσ, hen⟩ := hfair t htn hio i0
  have ht0 : σ j ≠ 0 := by rw [hσ]; exact Nat.ne_of_gt ht1
  have := hquiet j hj ht0
  rw [hσ] at this
  simp [enabled, this] at hen

end

end PysphVerif.Controller
