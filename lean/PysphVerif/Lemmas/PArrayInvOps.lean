import PysphVerif.Lemmas.PArrayInv
/-!
C06 helper lemmas, part B (continued): every mutator preserves the invariant.
-/
namespace PysphVerif.PArray

theorem InvF.inv_and_n {pa : PA} {m : Nat} (h : InvF pa.props pa.stride pa.defaults m) :
    Inv pa ∧ pa.n = m := ⟨h.toInv, h.n_eq⟩

theorem inv_empty (nm : String) : Inv (PA.empty nm) := by
  apply InvF.toInv (m := 0)
  show InvF [⟨"tag", "int", []⟩, ⟨"pid", "int", []⟩, ⟨"gid", "unsigned int", []⟩] []
    [("tag", 0), ("pid", 0), ("gid", uintMax)] 0
  refine ⟨?_, rfl, rfl, by decide, ?_, rfl⟩
  · intro c hc
    simp only [List.mem_cons, List.not_mem_nil, or_false] at hc
    rcases hc with rfl | rfl | rfl <;> exact ⟨by decide, by simp⟩
  · intro k hk; simp at hk

theorem empty_n (nm : String) : (PA.empty nm).n = 0 := rfl

/-! ### resize / extend -/

theorem resizeRows_uniform (m' s : Nat) (fill : List Int) (R : List (List Int))
    (hf : fill.length = s) (hR : ∀ r ∈ R, r.length = s) :
    (resizeRows m' fill R).length = m' ∧ ∀ r ∈ resizeRows m' fill R, r.length = s := by
  unfold resizeRows
  constructor
  · simp only [List.length_append, List.length_take, List.length_replicate]; omega
  · intro r hr
    rcases List.mem_append.mp hr with h | h
    · exact hR r (List.mem_of_mem_take h)
    · rw [(List.mem_replicate.mp h).2]; exact hf

theorem resize_len (pa : PA) (m m' : Nat) (c : Col) (hs : 0 < pa.strideOf c.name)
    (hl : c.data.length = m * pa.strideOf c.name) :
    (flat (resizeRows m' (defaultRow pa c.name) (rowsOf (pa.strideOf c.name) c.data))).length
      = m' * pa.strideOf c.name := by
  have hu := rowsOf_uniform _ hs m c.data hl
  have hr := resizeRows_uniform m' (pa.strideOf c.name) (defaultRow pa c.name) _
    (by simp [defaultRow]) hu.2
  rw [flat_length _ _ hr.2, hr.1]

theorem inv_resize {pa : PA} (h : Inv pa) (m : Nat) : Inv (pa.resize m) ∧ (pa.resize m).n = m := by
  apply InvF.inv_and_n
  exact h.toF.mapCols _ m (fun _ _ => rfl) (fun c hc => resize_len pa pa.n m c (h.len c hc).1 (h.len c hc).2)

theorem inv_extend {pa : PA} (h : Inv pa) (k : Nat) :
    Inv (pa.extend k) ∧ (pa.extend k).n = pa.n + k := by
  unfold PA.extend
  split
  · rename_i hk; subst hk; exact ⟨h, rfl⟩
  · apply InvF.inv_and_n
    exact h.toF.mapCols _ (pa.n + k) (fun _ _ => rfl)
      (fun c hc => resize_len pa pa.n (pa.n + k) c (h.len c hc).1 (h.len c hc).2)

/-! ### row operations applied to every property -/

theorem inv_mapRows {pa : PA} (h : Inv pa) (f : List (List Int) → List (List Int)) (m' : Nat)
    (hf : ∀ (s : Nat) (R : List (List Int)), R.length = pa.n → (∀ r ∈ R, r.length = s) →
      (f R).length = m' ∧ ∀ r ∈ f R, r.length = s) :
    Inv (pa.mapRows f) ∧ (pa.mapRows f).n = m' := by
  apply InvF.inv_and_n
  refine h.toF.mapCols _ m' (fun _ _ => rfl) (fun c hc => ?_)
  have hu := rowsOf_uniform _ (h.len c hc).1 pa.n c.data (h.len c hc).2
  have := hf _ _ hu.1 hu.2
  show (flat _).length = _
  rw [flat_length _ _ this.2, this.1]; rfl

theorem inv_setNReal {pa : PA} (h : Inv pa) (nr : Nat) : Inv { pa with nReal := nr } :=
  InvF.toInv (pa := { pa with nReal := nr }) h.toF

theorem setNReal_n (pa : PA) (nr : Nat) : ({ pa with nReal := nr } : PA).n = pa.n := rfl

theorem inv_align {pa : PA} (h : Inv pa) : Inv pa.align := by
  unfold PA.align
  rcases hai : alignIndex pa.tags with ⟨idx, nreal, moves⟩
  simp only []
  split
  · refine (inv_mapRows (inv_setNReal h nreal) (gather idx)
      (gather idx (List.range pa.n)).length ?_).1
    intro s R hR hrows
    refine ⟨gather_length_eq idx R _ (by rw [List.length_range]; exact hR), fun r hr => hrows r (gather_subset idx R r hr)⟩
  · exact inv_setNReal h nreal

theorem inv_removeParticles {pa pa' : PA} (h : Inv pa) (idx : List Nat) (al : Bool)
    (hr : pa.removeParticles idx al = some pa') : Inv pa' := by
  unfold PA.removeParticles at hr
  split at hr
  · exact absurd hr (by simp)
  · have h1 := (inv_mapRows h (removeRows (sortNat idx))
      (removeRows (sortNat idx) (List.range pa.n)).length (by
        intro s R hR hrows
        exact ⟨removeRows_length_eq _ R _ (by simpa using hR),
          fun r hr => hrows r (removeRows_subset _ R r hr)⟩)).1
    simp only [Option.some.injEq] at hr
    subst hr
    split
    · exact inv_align h1
    · exact h1

theorem inv_removeTagged {pa pa' : PA} (h : Inv pa) (tag : Int) (al : Bool)
    (hr : pa.removeTagged tag al = some pa') : Inv pa' :=
  inv_removeParticles h _ al hr

/-! ### writing one column -/

theorem inv_setCol {pa : PA} (h : Inv pa) (c : Col) (hp : c.name ∈ pa.props.map Col.name)
    (hl : c.data.length = pa.n * pa.strideOf c.name) :
    Inv (pa.setCol c) ∧ (pa.setCol c).n = pa.n := by
  apply InvF.inv_and_n
  rw [setCol_props, setCol_stride, setCol_defaults]
  exact h.toF.setCol c hp hl

theorem foldl_set_length (idx : List Nat) (tag : Int) (d : List Int) :
    (idx.foldl (fun d i => d.set i tag) d).length = d.length := by
  induction idx generalizing d with
  | nil => rfl
  | cons i idx ih => simp only [List.foldl_cons]; rw [ih]; simp

theorem inv_setTag {pa : PA} (h : Inv pa) (tag : Int) (idx : List Nat) : Inv (pa.setTag tag idx) := by
  unfold PA.setTag
  split
  · rename_i c hc
    obtain ⟨hmem, hn⟩ := col?_some pa _ c hc
    refine (inv_setCol h { c with data := idx.foldl (fun d i => d.set i tag) c.data }
      (List.mem_map.mpr ⟨c, hmem, rfl⟩) ?_).1
    show (idx.foldl (fun d i => d.set i tag) c.data).length = _
    rw [foldl_set_length]; exact (h.len c hmem).2
  · exact h

theorem setData_length (dst src nd : List Int) (h : setData dst src = some nd) :
    nd.length = dst.length := by
  unfold setData at h
  split at h
  · simp only [Option.some.injEq] at h
    subst h; simp; omega
  · exact absurd h (by simp)

theorem inv_setProp {pa pa' : PA} (h : Inv pa) (name : String) (data : List Int)
    (hr : pa.setProp name data = some pa') : Inv pa' := by
  unfold PA.setProp at hr
  split at hr
  · rename_i c hc
    obtain ⟨hmem, hn⟩ := col?_some pa _ c hc
    split at hr
    · rename_i nd hnd
      simp only [Option.some.injEq] at hr
      subst hr
      refine (inv_setCol h { c with data := nd } (List.mem_map.mpr ⟨c, hmem, rfl⟩) ?_).1
      show nd.length = _
      rw [setData_length _ _ _ hnd]; exact (h.len c hmem).2
    · exact absurd hr (by simp)
  · split at hr
    · split at hr
      · simp only [Option.some.injEq] at hr
        subst hr
        exact InvF.toInv (m := pa.n) h.toF
      · exact absurd hr (by simp)
    · exact absurd hr (by simp)

theorem inv_addConstant {pa pa' : PA} (h : Inv pa) (name : String) (data : List Int)
    (hr : pa.addConstant name data = some pa') : Inv pa' := by
  unfold PA.addConstant at hr
  split at hr
  · exact absurd hr (by simp)
  · simp only [Option.some.injEq] at hr
    subst hr
    exact InvF.toInv (m := pa.n) h.toF

theorem inv_setOutputs {pa pa' : PA} (h : Inv pa) (ps : List String)
    (hr : pa.setOutputs ps = some pa') : Inv pa' := by
  unfold PA.setOutputs at hr
  split at hr
  · simp only [Option.some.injEq] at hr
    subst hr
    exact InvF.toInv (m := pa.n) h.toF
  · exact absurd hr (by simp)

theorem inv_addOutputs {pa pa' : PA} (h : Inv pa) (ps : List String)
    (hr : pa.addOutputs ps = some pa') : Inv pa' := by
  unfold PA.addOutputs at hr
  split at hr
  · simp only [Option.some.injEq] at hr
    subst hr
    exact InvF.toInv (m := pa.n) h.toF
  · exact absurd hr (by simp)

/-! ### add_property -/

theorem InvP.inv_setCol {X : PA} {pend : String} {m : Nat}
    (h : InvP X.props X.stride X.defaults pend m) (c : Col) (hc : c.name = pend)
    (hl : c.data.length = m * lookupD X.stride pend 1) :
    InvF (X.setCol c).props (X.setCol c).stride (X.setCol c).defaults m := by
  rw [setCol_props, setCol_stride, setCol_defaults]
  exact h.setCol c hc hl

theorem flat_replicate_length (k : Nat) (row : List Int) :
    (flat (List.replicate k row)).length = k * row.length := by
  rw [flat_length row.length _ (fun r hr => by rw [(List.mem_replicate.mp hr).2])]
  simp

/-- `add_property` keeps the invariant whenever: the stride is positive; an
existing property is re-added with its own stride (or 1 = "not given"), or the
array is empty; `tag` keeps stride 1; data for a new property is a whole number
of rows.  `m' = n` unless the array was empty and data was given. -/
theorem invF_addProperty {pa pa' : PA} {name ctype : String} {dflt : Option Int}
    {data : Option (List Int)} {stride : Nat}
    (h : Inv pa) (h1 : 1 ≤ stride)
    (h2 : name ∈ pa.props.map Col.name → stride = 1 ∨ stride = pa.strideOf name ∨ pa.n = 0)
    (h3 : name = "tag" → stride = 1)
    (h4 : ∀ d, data = some d → d.length ≠ 0 → name ∉ pa.props.map Col.name →
      d.length % stride = 0)
    (hr : pa.addProperty name ctype dflt data stride = some pa') :
    ∃ m', InvF pa'.props pa'.stride pa'.defaults m' ∧
      ((pa.n ≠ 0 ∨ ∀ d, data = some d → d.length = 0) → m' = pa.n) := by
  unfold PA.addProperty at hr
  extract_lets n sizeOk dv pa1 noData d nElem pa2 nreal pa3 at hr
  have hP1 : InvP pa1.props pa1.stride pa1.defaults name pa.n :=
    h.toF.addPropPending name stride dv h1 h2 h3
  have hsn : name ∉ pa.props.map Col.name → lookupD pa1.stride name 1 = stride :=
    lookupD_strideSet_new h.toF name stride
  have hhas : ∀ X : PA, X.props.map Col.name = pa.props.map Col.name →
      (X.hasProp name = true ↔ name ∈ pa.props.map Col.name) := by
    intro X hX; rw [hasProp_iff, hX]
  have hnd : noData = false → ∃ d0, data = some d0 ∧ d0.length ≠ 0 ∧ d = d0 := by
    intro hnd
    cases hdata : data with
    | none => simp [noData, hdata] at hnd
    | some d0 => exact ⟨d0, rfl, by simpa [noData, hdata] using hnd, by simp [d, hdata]⟩
  have hnd' : noData = true → ∀ d0, data = some d0 → d0.length = 0 := by
    intro hnd d0 hd0
    simpa [noData, hd0] using hnd
  split at hr
  · exact absurd hr (by simp)
  rename_i hsz
  split at hr
  · -- the array is empty
    rename_i hn0
    have hn0 : pa.n = 0 := by simpa [n] using hn0
    split at hr
    · rename_i hno
      split at hr
      · rename_i hp
        simp only [Option.some.injEq] at hr; subst hr
        exact ⟨pa.n, hP1.toF ((hhas pa1 rfl).mp hp), fun _ => rfl⟩
      · simp only [Option.some.injEq] at hr; subst hr
        exact ⟨pa.n, hP1.inv_setCol _ rfl (by simp [hn0]), fun _ => rfl⟩
    · rename_i hno
      obtain ⟨d0, hd0, hd0len, hdd⟩ := hnd (by simpa using hno)
      have hP3 : InvP pa3.props pa3.stride pa3.defaults name nElem := by
        refine hP1.mapCols _ nElem (fun _ _ => rfl) (fun c _ => ?_)
        show (flat (List.replicate nElem (defaultRow pa1 c.name))).length = _
        rw [flat_replicate_length]; simp [defaultRow, PA.strideOf]
      have hcond : ¬ (pa.n ≠ 0 ∨ ∀ d, data = some d → d.length = 0) := by
        rintro (hc | hc)
        · exact hc hn0
        · exact hd0len (hc d0 hd0)
      split at hr
      · rename_i c hc
        obtain ⟨hmem, hcn⟩ := col?_some pa3 name c hc
        split at hr
        · rename_i nd hndd
          simp only [Option.some.injEq] at hr; subst hr
          refine ⟨nElem, hP3.inv_setCol _ hcn ?_, fun hc => absurd hc hcond⟩
          show nd.length = _
          rw [setData_length _ _ _ hndd, (hP3.len c hmem).2, hcn]
        · exact absurd hr (by simp)
      · rename_i hc
        have hnm : name ∉ pa.props.map Col.name := by
          have := col?_none pa3 name hc
          have hnames : pa3.props.map Col.name = pa.props.map Col.name :=
            map_name_map _ _ (fun _ _ => rfl)
          rwa [hnames] at this
        simp only [Option.some.injEq] at hr; subst hr
        refine ⟨nElem, hP3.inv_setCol _ rfl ?_, fun hc => absurd hc hcond⟩
        show d.length = nElem * lookupD pa1.stride name 1
        rw [hsn hnm]
        have := h4 d0 hd0 hd0len hnm
        show d.length = d.length / stride * stride
        rw [hdd]
        exact (Nat.div_mul_cancel (Nat.dvd_of_mod_eq_zero this)).symm
  · -- the array has particles
    rename_i hn0
    have hn0 : pa.n ≠ 0 := by simpa [n] using hn0
    split at hr
    · split at hr
      · rename_i hp
        simp only [Option.some.injEq] at hr; subst hr
        exact ⟨pa.n, hP1.toF ((hhas pa1 rfl).mp hp), fun _ => rfl⟩
      · rename_i hp
        have hnm : name ∉ pa.props.map Col.name := fun hm => hp ((hhas pa1 rfl).mpr hm)
        simp only [Option.some.injEq] at hr; subst hr
        refine ⟨pa.n, hP1.inv_setCol _ rfl ?_, fun _ => rfl⟩
        show (List.replicate (n * stride) dv).length = _
        rw [hsn hnm]; simp [n]
    · rename_i hno
      obtain ⟨d0, hd0, hd0len, hdd⟩ := hnd (by simpa using hno)
      split at hr
      · rename_i c hc
        obtain ⟨hmem, hcn⟩ := col?_some pa1 name c hc
        split at hr
        · rename_i nd hndd
          simp only [Option.some.injEq] at hr; subst hr
          refine ⟨pa.n, hP1.inv_setCol _ hcn ?_, fun _ => rfl⟩
          show nd.length = _
          rw [setData_length _ _ _ hndd, (hP1.len c hmem).2, hcn]
        · exact absurd hr (by simp)
      · rename_i hc
        have hnm : name ∉ pa.props.map Col.name := col?_none pa1 name hc
        simp only [Option.some.injEq] at hr; subst hr
        refine ⟨pa.n, hP1.inv_setCol _ rfl ?_, fun _ => rfl⟩
        show d.length = pa.n * lookupD pa1.stride name 1
        rw [hsn hnm, hdd]
        have hsz' : sizeOk = true := by simpa using hsz
        simp only [sizeOk, hd0, n] at hsz'
        simp only [Bool.or_eq_true, Bool.and_eq_true, beq_iff_eq] at hsz'
        rcases hsz' with (hc | hc) | hc
        · exact absurd hc hn0
        · exact absurd hc hd0len
        · rw [hc.1]
          exact (Nat.div_mul_cancel (Nat.dvd_of_mod_eq_zero hc.2)).symm

theorem inv_addProperty {pa pa' : PA} {name ctype : String} {dflt : Option Int}
    {data : Option (List Int)} {stride : Nat}
    (h : Inv pa) (h1 : 1 ≤ stride)
    (h2 : name ∈ pa.props.map Col.name → stride = 1 ∨ stride = pa.strideOf name ∨ pa.n = 0)
    (h3 : name = "tag" → stride = 1)
    (h4 : ∀ d, data = some d → d.length ≠ 0 → name ∉ pa.props.map Col.name →
      d.length % stride = 0)
    (hr : pa.addProperty name ctype dflt data stride = some pa') : Inv pa' := by
  obtain ⟨m', hm, _⟩ := invF_addProperty h h1 h2 h3 h4 hr
  exact hm.toInv

/-- `add_property` without data (or with data that fits) does not change the
number of particles -/
theorem inv_addProperty_n {pa pa' : PA} {name ctype : String} {dflt : Option Int}
    {data : Option (List Int)} {stride : Nat}
    (h : Inv pa) (h1 : 1 ≤ stride)
    (h2 : name ∈ pa.props.map Col.name → stride = 1 ∨ stride = pa.strideOf name ∨ pa.n = 0)
    (h3 : name = "tag" → stride = 1)
    (h4 : ∀ d, data = some d → d.length ≠ 0 → name ∉ pa.props.map Col.name →
      d.length % stride = 0)
    (h5 : pa.n ≠ 0 ∨ ∀ d, data = some d → d.length = 0)
    (hr : pa.addProperty name ctype dflt data stride = some pa') : Inv pa' ∧ pa'.n = pa.n := by
  obtain ⟨m', hm, hm'⟩ := invF_addProperty h h1 h2 h3 h4 hr
  have := hm' h5
  subst this
  exact hm.inv_and_n

/-- what `add_property` does to the other fields -/
theorem addProperty_fields {pa pa' : PA} {name ctype : String} {dflt : Option Int}
    {data : Option (List Int)} {stride : Nat}
    (hr : pa.addProperty name ctype dflt data stride = some pa') :
    pa'.stride = strideSet pa.stride name stride ∧ pa'.consts = pa.consts ∧
      pa'.name = pa.name ∧ pa'.outputs = pa.outputs := by
  unfold PA.addProperty at hr
  extract_lets n sizeOk dv pa1 noData d nElem pa2 nreal pa3 at hr
  split at hr
  · exact absurd hr (by simp)
  split at hr
  · split at hr
    · split at hr
      · simp only [Option.some.injEq] at hr; subst hr; exact ⟨rfl, rfl, rfl, rfl⟩
      · simp only [Option.some.injEq] at hr; subst hr
        rw [setCol_stride, setCol_consts, setCol_name, setCol_outputs]; exact ⟨rfl, rfl, rfl, rfl⟩
    · split at hr
      · split at hr
        · simp only [Option.some.injEq] at hr; subst hr
          rw [setCol_stride, setCol_consts, setCol_name, setCol_outputs]; exact ⟨rfl, rfl, rfl, rfl⟩
        · exact absurd hr (by simp)
      · simp only [Option.some.injEq] at hr; subst hr
        rw [setCol_stride, setCol_consts, setCol_name, setCol_outputs]; exact ⟨rfl, rfl, rfl, rfl⟩
  · split at hr
    · split at hr
      · simp only [Option.some.injEq] at hr; subst hr; exact ⟨rfl, rfl, rfl, rfl⟩
      · simp only [Option.some.injEq] at hr; subst hr
        rw [setCol_stride, setCol_consts, setCol_name, setCol_outputs]; exact ⟨rfl, rfl, rfl, rfl⟩
    · split at hr
      · split at hr
        · simp only [Option.some.injEq] at hr; subst hr
          rw [setCol_stride, setCol_consts, setCol_name, setCol_outputs]; exact ⟨rfl, rfl, rfl, rfl⟩
        · exact absurd hr (by simp)
      · simp only [Option.some.injEq] at hr; subst hr
        rw [setCol_stride, setCol_consts, setCol_name, setCol_outputs]; exact ⟨rfl, rfl, rfl, rfl⟩

/-! ### remove_property -/

theorem names_filter (P : List Col) (name : String) :
    (P.filter (fun (c : Col) => !(c.name == name))).map Col.name =
      (P.map Col.name).filter (fun x => !(x == name)) := by
  induction P with
  | nil => rfl
  | cons c P ih =>
    by_cases hc : c.name = name <;> simp [hc, ih]

theorem inv_removeProperty {pa : PA} (h : Inv pa) (name : String) (hn : name ≠ "tag") :
    Inv (pa.removeProperty name) ∧ (pa.removeProperty name).n = pa.n := by
  unfold PA.removeProperty
  by_cases hp : pa.hasProp name = true
  · simp only [hp, if_true]
    apply InvF.inv_and_n
    show InvF (pa.props.filter (fun (c : Col) => !(c.name == name))) (eraseKey pa.stride name)
      (eraseKey pa.defaults name) pa.n
    have hF := h.toF
    have hmemf : ∀ k, k ∈ (pa.props.map Col.name).filter (fun x => !(x == name)) ↔
        k ∈ pa.props.map Col.name ∧ k ≠ name := by
      intro k; rw [List.mem_filter]; simp
    refine ⟨?_, ?_, ?_, ?_, ?_, ?_⟩
    · intro c hc
      obtain ⟨hc1, hc2⟩ := List.mem_filter.mp hc
      have : c.name ≠ name := by simpa using hc2
      rw [lookupD_eraseKey_ne _ _ _ _ this]
      exact hF.len c hc1
    · rw [names_filter]
      have := hF.tagFirst
      cases hl : pa.props.map Col.name with
      | nil => rw [hl] at this; simp at this
      | cons a l =>
        rw [hl] at this
        have ha : a = "tag" := by simpa using this
        subst ha
        have : ¬ "tag" = name := fun e => hn e.symm
        simp [this]
    · rw [lookupD_eraseKey_ne _ _ _ _ (fun e => hn e.symm)]; exact hF.tagStride
    · rw [names_filter]; exact hF.nodup.filter _
    · intro k hk
      rw [keys_eraseKey] at hk
      obtain ⟨hk1, hk2⟩ := List.mem_filter.mp hk
      rw [names_filter, hmemf]
      exact ⟨hF.strideKeys k hk1, by simpa using hk2⟩
    · rw [keys_eraseKey, names_filter, hF.defaultKeys]
  · simp only [hp, Bool.false_eq_true, if_false]
    exact InvF.inv_and_n (pa := { pa with outputs := _ }) h.toF

/-! ### add_particles -/

theorem inv_addParticles {pa pa' : PA} (h : Inv pa) (al : Bool) (given : List (String × List Int))
    (hv : ∀ ln ld, given.getLast? = some (ln, ld) →
      ∀ g ∈ given, g.2.length = (ld.length / pa.strideOf ln) * pa.strideOf g.1)
    (hr : pa.addParticles al given = some pa') : Inv pa' := by
  unfold PA.addParticles at hr
  split at hr
  · simp only [Option.some.injEq] at hr; subst hr; exact h
  · rename_i ln ld hlast
    split at hr
    · exact absurd hr (by simp)
    · simp only [Option.some.injEq] at hr
      have hv' := hv ln ld hlast
      have key : Inv { pa with props := pa.props.map (fun (c : Col) =>
          match given.find? (fun g => g.1 == c.name) with
          | some g => { c with data := c.data ++ g.2 }
          | none => { c with data := flat (resizeRows (pa.n + ld.length / pa.strideOf ln)
              (defaultRow pa c.name) (rowsOf (pa.strideOf c.name) c.data)) }) } := by
        apply InvF.toInv (m := pa.n + ld.length / pa.strideOf ln)
        refine h.toF.mapCols _ _ (fun c _ => ?_) (fun c hc => ?_)
        · split <;> rfl
        · split
          · rename_i g hg
            have hgm : g ∈ given := List.mem_of_find?_eq_some hg
            have hgn : g.1 = c.name := by simpa using List.find?_some hg
            show (c.data ++ g.2).length = _
            rw [List.length_append, hv' g hgm, hgn, (h.len c hc).2, Nat.add_mul]; rfl
          · exact resize_len pa pa.n _ c (h.len c hc).1 (h.len c hc).2
      subst hr
      split
      · exact inv_align key
      · exact key

/-! ### folds of `add_property` (ensure_properties, empty_clone, append_parray, pickle) -/

/-- invariant of a fold over `Option` that stops at the first `none`; `Q` may
depend on the prefix processed so far -/
theorem foldl_opt_inv {α β : Type} (step : Option α → β → Option α) (Q : List β → α → Prop)
    (hnone : ∀ b, step none b = none) (l : List β)
    (hstep : ∀ pre b suf a a', l = pre ++ b :: suf → Q pre a → step (some a) b = some a' →
      Q (pre ++ [b]) a')
    (a : α) (ha : Q [] a) (r : α) (hr : l.foldl step (some a) = some r) : Q l r := by
  have hn : ∀ l' : List β, l'.foldl step none = none := by
    intro l'; induction l' with
    | nil => rfl
    | cons b l' ih => simp only [List.foldl_cons, hnone, ih]
  have gen : ∀ (l' pre : List β) (a : α), l = pre ++ l' → Q pre a →
      l'.foldl step (some a) = some r → Q (pre ++ l') r := by
    intro l'
    induction l' with
    | nil => intro pre a _ hq hr; simp only [List.foldl_nil, Option.some.injEq] at hr; subst hr; simpa using hq
    | cons b l' ih =>
      intro pre a hl hq hr
      simp only [List.foldl_cons] at hr
      cases hs : step (some a) b with
      | none => rw [hs, hn] at hr; exact absurd hr (by simp)
      | some a' =>
        rw [hs] at hr
        have := ih (pre ++ [b]) a' (by simpa using hl) (hstep pre b l' a a' hl hq hs) hr
        simpa using this
  simpa using gen l [] a rfl ha hr

/-- `ensure_properties`, one name -/
def ensureStep (src : PA) (acc : Option PA) (nm : String) : Option PA :=
  match acc with
  | none => none
  | some a =>
    if a.hasProp nm then some a else
    match src.col? nm with
    | some sc => a.addProperty nm sc.ctype (some (src.defaultOf nm)) none (src.strideOf nm)
    | none => none

theorem ensureProperties_eq (pa src : PA) (props : Option (List String)) :
    pa.ensureProperties src props =
      (match props with
        | some [] => src.props.map Col.name
        | some ps => ps
        | none => src.props.map Col.name).foldl (ensureStep src) (some pa) := rfl

theorem inv_ensureStep {src a a' : PA} (hs : Inv src) (ha : Inv a) (nm : String)
    (hr : ensureStep src (some a) nm = some a') : Inv a' ∧ a'.n = a.n ∧ a'.consts = a.consts := by
  unfold ensureStep at hr
  simp only [] at hr
  split at hr
  · simp only [Option.some.injEq] at hr; subst hr; exact ⟨ha, rfl, rfl⟩
  · rename_i hp
    have hnm : nm ∉ a.props.map Col.name := fun hm => hp ((hasProp_iff a nm).mpr hm)
    split at hr
    · rename_i sc hsc
      obtain ⟨hmem, hcn⟩ := col?_some src nm sc hsc
      have hpos : 0 < src.strideOf nm := hcn ▸ (hs.len sc hmem).1
      have := inv_addProperty_n ha hpos (fun hm => absurd hm hnm)
        (fun e => absurd (e ▸ ha.toF.tagMem) hnm) (fun d hd => by simp at hd)
        (Or.inr (fun d hd => by simp at hd)) hr
      exact ⟨this.1, this.2, (addProperty_fields hr).2.1⟩
    · exact absurd hr (by simp)

theorem inv_ensureProperties {pa src pa' : PA} (h : Inv pa) (hs : Inv src)
    (props : Option (List String)) (hr : pa.ensureProperties src props = some pa') :
    Inv pa' ∧ pa'.n = pa.n ∧ pa'.consts = pa.consts := by
  rw [ensureProperties_eq] at hr
  exact foldl_opt_inv (ensureStep src) (fun _ a => Inv a ∧ a.n = pa.n ∧ a.consts = pa.consts)
    (fun _ => rfl) _
    (fun pre b suf a a' _ hq hs' => by
      have := inv_ensureStep hs hq.1 b hs'
      exact ⟨this.1, this.2.1.trans hq.2.1, this.2.2.trans hq.2.2⟩)
    pa ⟨h, rfl, rfl⟩ pa' hr

/-- `empty_clone`, one name -/
def cloneStep (pa : PA) (acc : Option PA) (nm : String) : Option PA :=
  match acc with
  | none => none
  | some a =>
    match pa.col? nm with
    | some c => a.addProperty nm c.ctype (some (pa.defaultOf nm)) none (pa.strideOf nm)
    | none => none

def cloneNames (pa : PA) (props : Option (List String)) : List String :=
  match props with
  | some ps => ps
  | none => pa.props.map Col.name

theorem emptyClone_eq (pa : PA) (props : Option (List String)) :
    pa.emptyClone props =
      if !((cloneNames pa props).all pa.hasProp) then none else
      match (cloneNames pa props).foldl (cloneStep pa) (some { PA.empty "" with consts := pa.consts }) with
      | none => none
      | some a => some { a with name := pa.name, outputs := match props with
          | none => pa.outputs
          | some ps => dedup (ps.filter (fun p => pa.outputs.contains p)) } := rfl

theorem strideOf_strideSet (a : PA) (S : List (String × Nat)) (nm x : String) (s : Nat)
    (hS : a.stride = strideSet S nm s) :
    a.strideOf x = if x = nm then (if s = 1 then lookupD S nm 1 else s) else lookupD S x 1 := by
  unfold PA.strideOf
  rw [hS]
  by_cases hx : x = nm
  · subst hx; rw [if_pos rfl, lookupD_strideSet_self]
  · rw [if_neg hx, lookupD_strideSet_ne _ _ _ _ hx]

/-- the clone is coherent, empty, and has the source's stride for every cloned name -/
theorem inv_emptyClone {pa d : PA} (h : Inv pa) (props : Option (List String))
    (hr : pa.emptyClone props = some d) :
    Inv d ∧ d.n = 0 ∧ ∀ nm ∈ cloneNames pa props, d.strideOf nm = pa.strideOf nm := by
  rw [emptyClone_eq] at hr
  split at hr
  · exact absurd hr (by simp)
  split at hr
  · exact absurd hr (by simp)
  rename_i a hfold
  simp only [Option.some.injEq] at hr
  have hstart : Inv ({ PA.empty "" with consts := pa.consts } : PA) :=
    InvF.toInv (pa := { PA.empty "" with consts := pa.consts }) (m := 0) (inv_empty "").toF
  have key := foldl_opt_inv (cloneStep pa)
    (fun pre a => Inv a ∧ a.n = 0 ∧ (∀ nm, a.strideOf nm = 1 ∨ a.strideOf nm = pa.strideOf nm) ∧
      ∀ nm ∈ pre, a.strideOf nm = pa.strideOf nm)
    (fun _ => rfl) (cloneNames pa props)
    (fun pre nm suf a a' _ hq hs' => by
      obtain ⟨hqa, hqn, hq1, hq2⟩ := hq
      unfold cloneStep at hs'
      simp only [] at hs'
      split at hs'
      · rename_i c hc
        obtain ⟨hmem, hcn⟩ := col?_some pa nm c hc
        have hpos : 0 < pa.strideOf nm := hcn ▸ (h.len c hmem).1
        have := inv_addProperty_n hqa hpos (fun _ => Or.inr (Or.inr hqn))
          (fun e => by rw [e]; exact h.tagStride) (fun d hd => by simp at hd)
          (Or.inr (fun d hd => by simp at hd)) hs'
        have hst := fun x => strideOf_strideSet a' a.stride nm x (pa.strideOf nm) (addProperty_fields hs').1
        refine ⟨this.1, this.2.trans hqn, ?_, ?_⟩
        · intro x
          rw [hst x]
          by_cases hx : x = nm
          · subst hx
            rw [if_pos rfl]
            split
            · rename_i h1; rcases hq1 x with h2 | h2
              · exact Or.inl h2
              · exact Or.inr h2
            · exact Or.inr rfl
          · rw [if_neg hx]; exact hq1 x
        · intro x hx
          rw [hst x]
          by_cases hxn : x = nm
          · subst hxn
            rw [if_pos rfl]
            split
            · rename_i h1
              rcases hq1 x with h2 | h2
              · exact h2.trans h1.symm
              · exact h2
            · rfl
          · rw [if_neg hxn]
            rcases List.mem_append.mp hx with h3 | h3
            · exact hq2 x h3
            · exact absurd (by simpa using h3) hxn
      · exact absurd hs' (by simp))
    _ ⟨hstart, rfl, fun nm => Or.inl rfl, fun nm hnm => by simp at hnm⟩ a hfold
  subst hr
  exact ⟨InvF.toInv (pa := { a with name := _, outputs := _ }) key.1.toF, key.2.1, key.2.2.2⟩

/-! ### extract_particles -/

theorem extend_stride (pa : PA) (k : Nat) : (pa.extend k).stride = pa.stride := by
  unfold PA.extend; split <;> rfl
theorem extend_consts (pa : PA) (k : Nat) : (pa.extend k).consts = pa.consts := by
  unfold PA.extend; split <;> rfl

theorem flat_length_le (s : Nat) (R : List (List Int)) (hR : ∀ r ∈ R, r.length ≤ s) :
    (flat R).length ≤ R.length * s := by
  induction R with
  | nil => simp [flat]
  | cons r R ih =>
    have hr : r.length ≤ s := hR r (by simp)
    have := ih (fun x hx => hR x (by simp [hx]))
    simp only [flat, List.flatten_cons, List.length_append, List.length_cons] at this ⊢
    rw [Nat.succ_mul]; omega

theorem splice_length (data picked : List Int) (A : Nat) (h : A + picked.length ≤ data.length) :
    (data.take A ++ picked ++ data.drop (A + picked.length)).length = data.length := by
  simp only [List.length_append, List.length_take, List.length_drop]; omega

theorem inv_extractInto {pa dest pa' : PA} (_h : Inv pa) (hd : Inv dest) (idx : List Nat)
    (al : Bool) (props : Option (List String))
    (hss : ∀ nm ∈ cloneNames pa props, pa.strideOf nm = dest.strideOf nm)
    (hr : pa.extractInto idx dest al props = some pa') : Inv pa' := by
  unfold PA.extractInto at hr
  extract_lets names start d1 d2 at hr
  split at hr
  · simp only [Option.some.injEq] at hr; subst hr; exact hd
  split at hr
  · exact absurd hr (by simp)
  simp only [Option.some.injEq] at hr
  have hd1 := inv_extend hd idx.length
  have hd2 : Inv d2 := by
    apply InvF.toInv (m := dest.n + idx.length)
    have hF := hd1.1.toF
    rw [hd1.2] at hF
    refine hF.mapCols _ _ (fun c _ => ?_) (fun c hc => ?_)
    · split
      · split <;> rfl
      · rfl
    · have hlen := (hF.len c hc).2
      split
      · rename_i hcont
        have hcn : c.name ∈ cloneNames pa props := by
          have : c.name ∈ names := by simpa using hcont
          exact this
        split
        · rename_i sc hsc
          have hs1 : lookupD d1.stride c.name 1 = pa.strideOf c.name := by
            show lookupD (dest.extend idx.length).stride c.name 1 = _
            rw [extend_stride]; exact (hss c.name hcn).symm
          rw [hs1] at hlen ⊢
          have hpick : (flat (gather idx (rowsOf (pa.strideOf c.name) sc.data))).length
              ≤ idx.length * pa.strideOf c.name := by
            refine Nat.le_trans (flat_length_le (pa.strideOf c.name) _ ?_)
              (Nat.mul_le_mul_right _ (gather_length_le idx _))
            intro r hr
            exact rowsOf_row_le _ _ r (gather_subset idx _ r hr)
          show (c.data.take (pa.strideOf c.name * start) ++ _ ++ c.data.drop _).length = _
          rw [splice_length _ _ _ (by
            rw [hlen, Nat.add_mul, Nat.mul_comm (pa.strideOf c.name) start]
            exact Nat.add_le_add_left hpick _)]
          exact hlen
        · exact hlen
      · exact hlen
  subst hr
  split
  · exact inv_align hd2
  · exact hd2

theorem inv_extract {pa pa' : PA} (h : Inv pa) (idx : List Nat) (al : Bool)
    (props : Option (List String)) (hr : pa.extract idx al props = some pa') : Inv pa' := by
  unfold PA.extract at hr
  split at hr
  · exact absurd hr (by simp)
  · rename_i d hd
    obtain ⟨hi, _, hst⟩ := inv_emptyClone h props hd
    exact inv_extractInto h hi idx al props (fun nm hnm => (hst nm hnm).symm) hr

/-! ### append_parray -/

theorem inv_setCol_sameLen {a : PA} (h : Inv a) (c : Col) (hc : c ∈ a.props) (nd : List Int)
    (hl : nd.length = c.data.length) :
    Inv (a.setCol { c with data := nd }) ∧ (a.setCol { c with data := nd }).n = a.n :=
  inv_setCol h { c with data := nd } (List.mem_map.mpr ⟨c, hc, rfl⟩)
    (by show nd.length = _; rw [hl]; exact (h.len c hc).2)

/-- `append_parray`, one source property -/
def appendStep (src : PA) (oldN : Nat) (acc : Option PA) (sc : Col) : Option PA :=
  match acc with
  | none => none
  | some a =>
    match a.col? sc.name with
    | some c =>
      let s := a.strideOf sc.name
      if c.data.length - oldN * s == sc.data.length then
        some (a.setCol { c with data := c.data.take (oldN * s) ++ sc.data })
      else none
    | none =>
      let s := src.strideOf sc.name
      match a.addProperty sc.name sc.ctype (some (src.defaultOf sc.name)) none s with
      | none => none
      | some a' =>
        match a'.col? sc.name with
        | some c =>
          if c.data.length - oldN * s == sc.data.length then
            some (a'.setCol { c with data := c.data.take (oldN * s) ++ sc.data })
          else none
        | none => none

theorem appendParray_eq (pa src : PA) (al up : Bool) :
    pa.appendParray src al up =
      if src.n == 0 then some pa else
      match src.props.foldl (appendStep src pa.n) (some (pa.extend src.n)) with
      | none => none
      | some a =>
        some (if src.n > 0 && al then
          (if up then
            { a with consts := src.consts.foldl (fun cs c =>
                if cs.any (fun x => x.1 == c.1) then cs else cs ++ [c]) a.consts }
           else a).align
         else
          (if up then
            { a with consts := src.consts.foldl (fun cs c =>
                if cs.any (fun x => x.1 == c.1) then cs else cs ++ [c]) a.consts }
           else a)) := rfl

theorem take_append_length (data tail : List Int) (A : Nat)
    (h : (data.length - A == tail.length) = true) :
    (data.take A ++ tail).length = data.length := by
  have : data.length - A = tail.length := by simpa using h
  simp only [List.length_append, List.length_take]; omega

theorem inv_appendStep {src a a' : PA} (hs : Inv src) (ha : Inv a) (oldN : Nat) (sc : Col)
    (hsc : sc ∈ src.props) (hr : appendStep src oldN (some a) sc = some a') :
    Inv a' ∧ a'.n = a.n ∧ a'.consts = a.consts := by
  unfold appendStep at hr
  simp only [] at hr
  split at hr
  · rename_i c hc
    split at hr
    · rename_i hlen
      simp only [Option.some.injEq] at hr; subst hr
      have := inv_setCol_sameLen ha c (col?_some a _ c hc).1 _ (take_append_length _ _ _ hlen)
      exact ⟨this.1, this.2, setCol_consts _ _⟩
    · exact absurd hr (by simp)
  · rename_i hc
    have hnm : sc.name ∉ a.props.map Col.name := col?_none a _ hc
    split at hr
    · exact absurd hr (by simp)
    · rename_i a1 hadd
      have h1 := inv_addProperty_n ha (hs.len sc hsc).1 (fun hm => absurd hm hnm)
        (fun e => absurd (e ▸ ha.toF.tagMem) hnm) (fun d hd => by simp at hd)
        (Or.inr (fun d hd => by simp at hd)) hadd
      split at hr
      · rename_i c hc1
        split at hr
        · rename_i hlen
          simp only [Option.some.injEq] at hr; subst hr
          have := inv_setCol_sameLen h1.1 c (col?_some a1 _ c hc1).1 _
            (take_append_length _ _ _ hlen)
          exact ⟨this.1, this.2.trans h1.2,
            (setCol_consts _ _).trans (addProperty_fields hadd).2.1⟩
        · exact absurd hr (by simp)
      · exact absurd hr (by simp)

theorem inv_appendParray {pa src pa' : PA} (h : Inv pa) (hs : Inv src) (al up : Bool)
    (hr : pa.appendParray src al up = some pa') : Inv pa' := by
  rw [appendParray_eq] at hr
  split at hr
  · simp only [Option.some.injEq] at hr; subst hr; exact h
  split at hr
  · exact absurd hr (by simp)
  rename_i a hfold
  have key := foldl_opt_inv (appendStep src pa.n) (fun _ a => Inv a)
    (fun _ => rfl) src.props
    (fun pre b suf a a' hl hq hs' =>
      (inv_appendStep hs hq pa.n b (by rw [hl]; simp) hs').1)
    _ (inv_extend h src.n).1 a hfold
  simp only [Option.some.injEq] at hr
  subst hr
  have hup : Inv (if up then
      ({ a with consts := src.consts.foldl (fun cs c =>
          if cs.any (fun x => x.1 == c.1) then cs else cs ++ [c]) a.consts } : PA) else a) := by
    split
    · exact InvF.toInv (pa := { a with consts := _ }) key.toF
    · exact key
  split
  · exact inv_align hup
  · exact hup

/-! ### pickle round trip -/

def pickleStep (pa : PA) (acc : Option PA) (c : Col) : Option PA :=
  match acc with
  | none => none
  | some a => a.addProperty c.name c.ctype (some (pa.defaultOf c.name)) (some c.data)
                (pa.strideOf c.name)

def constStep (acc : Option PA) (c : String × List Int) : Option PA :=
  match acc with
  | none => none
  | some a => a.addConstant c.1 c.2

/-- the fresh object after `__setstate__` emptied `properties`/`default_values` -/
def pickleStart (nm : String) : PA :=
  { name := nm, props := [], stride := [], defaults := [], consts := [], nReal := 0,
    outputs := [] }

theorem pickle_eq (pa : PA) :
    pa.pickle =
      match pa.props.foldl (pickleStep pa) (some (pickleStart pa.name)) with
      | none => none
      | some a =>
        match pa.consts.foldl constStep (some a) with
        | none => none
        | some a2 => some { a2 with nReal := (pa.tags.filter (· == localTag)).length } := rfl

/-- `__setstate__`, first property (`tag`) put into the emptied fresh object -/
theorem pickle_first (nm ct : String) (dv : Int) (d : List Int) :
    ∃ nr, (pickleStart nm).addProperty "tag" ct (some dv) (some d) 1
      = some { name := nm, props := [⟨"tag", ct, d⟩], stride := [], defaults := [("tag", dv)],
               consts := [], nReal := nr, outputs := [] } := by
  cases d with
  | nil => exact ⟨_, rfl⟩
  | cons x xs => exact ⟨_, rfl⟩

theorem setColL_new (P : List Col) (c : Col) (h : c.name ∉ P.map Col.name) :
    setColL P c = P ++ [c] := by
  unfold setColL
  rw [if_neg (fun ha => h ((any_name_iff P c.name).mp ha))]

theorem setKey_new {β : Type} (l : List (String × β)) (k : String) (v : β)
    (h : k ∉ l.map Prod.fst) : setKey l k v = l ++ [(k, v)] := by
  unfold setKey
  rw [if_neg (fun ha => h ((any_key_iff l k).mp ha))]

/-- `add_property` of a new name with data of exactly the right size appends the column -/
theorem addProperty_new {pa pa' : PA} {name ctype : String} {dv : Int} {d : List Int}
    {stride : Nat} (h : Inv pa) (hs : 1 ≤ stride) (hnm : name ∉ pa.props.map Col.name)
    (hlen : d.length = pa.n * stride)
    (hr : pa.addProperty name ctype (some dv) (some d) stride = some pa') :
    pa'.props = pa.props ++ [⟨name, ctype, d⟩] ∧ pa'.defaults = pa.defaults ++ [(name, dv)] := by
  have hdk : name ∉ pa.defaults.map Prod.fst := by rw [h.defaultKeys]; exact hnm
  have hnp : ¬ pa.hasProp name = true := fun hp => hnm ((hasProp_iff pa name).mp hp)
  unfold PA.addProperty at hr
  extract_lets n sizeOk dv' pa1 noData d' nElem pa2 nreal pa3 at hr
  have hdv : dv' = dv := rfl
  have hd' : d' = d := rfl
  have hdef : pa1.defaults = pa.defaults ++ [(name, dv)] := setKey_new _ _ _ hdk
  have hfin : ∀ dd, dd = d → (pa1.setCol ⟨name, ctype, dd⟩).props = pa.props ++ [⟨name, ctype, d⟩] ∧
      (pa1.setCol ⟨name, ctype, dd⟩).defaults = pa.defaults ++ [(name, dv)] := by
    intro dd hdd; subst hdd
    rw [setCol_props, setCol_defaults, hdef]
    exact ⟨setColL_new _ _ hnm, rfl⟩
  split at hr
  · exact absurd hr (by simp)
  split at hr
  · rename_i hn0
    have hn0 : pa.n = 0 := by simpa [n] using hn0
    have hdl : d = [] := List.length_eq_zero_iff.mp (by rw [hlen, hn0]; simp)
    split at hr
    · split at hr
      · rename_i hp; exact absurd hp hnp
      · simp only [Option.some.injEq] at hr; subst hr
        exact hfin [] hdl.symm
    · rename_i hno
      exact absurd (by simp [noData, hdl]) hno
  · rename_i hn0
    have hn0 : pa.n ≠ 0 := by simpa [n] using hn0
    have hdne : d.length ≠ 0 := by
      rw [hlen]; exact Nat.mul_ne_zero hn0 (by omega)
    split at hr
    · rename_i hno
      exact absurd (by simpa [noData] using hno) hdne
    · split at hr
      · rename_i c hc
        exact absurd ((col?_some pa1 name c hc).2 ▸ List.mem_map_of_mem (col?_some pa1 name c hc).1) hnm
      · simp only [Option.some.injEq] at hr; subst hr
        exact hfin d' hd'

/-- a `default_values` dict with exactly the property names as keys is determined by its lookups -/
theorem defaults_eq_of_keys (D : List (String × Int)) (names : List String)
    (hk : D.map Prod.fst = names) (hn : names.Nodup) :
    D = names.map (fun nm => (nm, lookupD D nm 0)) := by
  induction D generalizing names with
  | nil => subst hk; rfl
  | cons p D ih =>
    subst hk
    simp only [List.map_cons, List.nodup_cons] at hn ⊢
    rw [lookupD_cons, if_pos rfl]
    congr 1
    have := ih (D.map Prod.fst) rfl hn.2
    rw [List.map_map] at this ⊢
    conv_lhs => rw [this]
    apply List.map_congr_left
    intro q hq
    simp only [Function.comp]
    rw [lookupD_cons, if_neg]
    intro e
    exact hn.1 (e ▸ List.mem_map_of_mem hq)

/-- **pickle round trip**: `__reduce__`/`__setstate__` rebuild the same
properties, strides, defaults and constants, and recount the real particles -/
theorem pickle_spec {pa pa' : PA} (h : Inv pa) (hr : pa.pickle = some pa') :
    Inv pa' ∧ pa'.props = pa.props ∧ pa'.defaults = pa.defaults ∧
      (∀ nm, pa'.strideOf nm = pa.strideOf nm) ∧ pa'.consts = pa.consts ∧
      pa'.name = pa.name ∧ pa'.outputs = [] ∧
      pa'.nReal = (pa.tags.filter (· == localTag)).length := by
  rw [pickle_eq] at hr
  split at hr
  · exact absurd hr (by simp)
  rename_i a hfold
  split at hr
  · exact absurd hr (by simp)
  rename_i a2 hfold2
  simp only [Option.some.injEq] at hr
  obtain ⟨t, rest, hp, ht, _, hn, _⟩ := n_of_tagFirst pa h.tagFirst
  -- first property
  rw [hp, List.foldl_cons] at hfold
  obtain ⟨tn, tc, td⟩ := t
  simp only at ht
  subst ht
  obtain ⟨nr, h1⟩ := pickle_first pa.name tc (pa.defaultOf "tag") td
  have hts : pa.strideOf "tag" = 1 := h.tagStride
  have hstep1 : pickleStep pa (some (pickleStart pa.name)) ⟨"tag", tc, td⟩ =
      some { name := pa.name, props := [⟨"tag", tc, td⟩], stride := [],
             defaults := [("tag", pa.defaultOf "tag")], consts := [], nReal := nr,
             outputs := [] } := by
    unfold pickleStep; simp only []; rw [hts]; exact h1
  rw [hstep1] at hfold
  have hnodup := h.nodup
  rw [hp] at hnodup
  have hrestlen : ∀ c ∈ rest, 0 < pa.strideOf c.name ∧ c.data.length = pa.n * pa.strideOf c.name :=
    fun c hc => h.len c (by rw [hp]; simp [hc])
  -- the remaining properties
  have key := foldl_opt_inv (pickleStep pa)
    (fun pre a => Inv a ∧ a.n = pa.n ∧ a.props = ⟨"tag", tc, td⟩ :: pre ∧
      a.defaults = ((⟨"tag", tc, td⟩ : Col) :: pre).map (fun c => (c.name, pa.defaultOf c.name)) ∧
      (∀ nm ∈ a.props.map Col.name, a.strideOf nm = pa.strideOf nm) ∧
      a.consts = [] ∧ a.name = pa.name ∧ a.outputs = [])
    (fun _ => rfl) rest
    (fun pre c suf a a' hl hq hs' => by
      obtain ⟨hqi, hqn, hqp, hqd, hqs, hqc, hqnm, hqo⟩ := hq
      unfold pickleStep at hs'
      simp only [] at hs'
      have hc : c ∈ rest := by rw [hl]; simp
      have hnew : c.name ∉ a.props.map Col.name := by
        rw [hqp]
        rw [hl] at hnodup
        simp only [List.map_cons, List.map_append, List.nodup_cons, List.mem_append,
          List.mem_cons, List.nodup_append] at hnodup ⊢
        intro hm
        rcases hm with hm | hm
        · exact hnodup.1 (Or.inr (Or.inl hm.symm))
        · exact hnodup.2.2.2 _ hm _ (Or.inl rfl) rfl
      have hlenc : c.data.length = a.n * pa.strideOf c.name := by rw [hqn]; exact (hrestlen c hc).2
      have hshape := addProperty_new hqi (hrestlen c hc).1 hnew hlenc hs'
      have hflds := addProperty_fields hs'
      have hinv := inv_addProperty_n hqi (hrestlen c hc).1 (fun hm => absurd hm hnew)
        (fun e => absurd (e ▸ hqi.toF.tagMem) hnew)
        (fun d hd _ _ => by
          simp only [Option.some.injEq] at hd; subst hd
          rw [hlenc]; exact Nat.mul_mod_left _ _)
        (by
          by_cases hz : a.n = 0
          · right; intro d hd
            simp only [Option.some.injEq] at hd; subst hd
            rw [hlenc, hz]; simp
          · left; exact hz) hs'
      refine ⟨hinv.1, hinv.2.trans hqn, by rw [hshape.1, hqp]; simp, ?_, ?_,
        hflds.2.1.trans hqc, hflds.2.2.1.trans hqnm, hflds.2.2.2.trans hqo⟩
      · rw [hshape.2, hqd]; simp
      · intro nm hnm
        rw [strideOf_strideSet a' a.stride c.name nm _ hflds.1]
        by_cases hx : nm = c.name
        · subst hx
          rw [if_pos rfl]
          split
          · rename_i h1'
            rw [lookupD_of_not_mem a.stride _ 1 (fun hk => hnew (hqi.strideKeys _ hk))]
            exact h1'.symm
          · rfl
        · rw [if_neg hx]
          apply hqs nm
          rw [hshape.1] at hnm
          simp only [List.map_append, List.map_cons, List.map_nil, List.mem_append,
            List.mem_singleton] at hnm
          exact hnm.resolve_right hx)
    _ (by
      refine ⟨?_, ?_, rfl, rfl, ?_, rfl, rfl, rfl⟩
      · apply InvF.toInv (m := pa.n)
        refine ⟨?_, rfl, rfl, by simp, by simp, rfl⟩
        intro c hc
        have : c = ⟨"tag", tc, td⟩ := by simpa using hc
        subst this
        exact ⟨by show 0 < lookupD ([] : List (String × Nat)) "tag" 1; decide,
          by show td.length = pa.n * 1; rw [hn]; simp⟩
      · show td.length = pa.n
        rw [hn]
      · intro nm hnm
        have : nm = "tag" := by simpa using hnm
        subst this
        exact hts.symm) a hfold
  obtain ⟨hai, han, hap, had, has, hac, hanm, hao⟩ := key
  -- constants
  have key2 := foldl_opt_inv constStep
    (fun pre b => b.props = a.props ∧ b.stride = a.stride ∧ b.defaults = a.defaults ∧
      b.name = a.name ∧ b.outputs = a.outputs ∧ b.consts = pre)
    (fun _ => rfl) pa.consts
    (fun pre c suf b b' _ hq hs' => by
      unfold constStep PA.addConstant at hs'
      simp only [] at hs'
      split at hs'
      · exact absurd hs' (by simp)
      · simp only [Option.some.injEq] at hs'; subst hs'
        exact ⟨hq.1, hq.2.1, hq.2.2.1, hq.2.2.2.1, hq.2.2.2.2.1, by
          show b.consts ++ [(c.1, c.2)] = _
          rw [hq.2.2.2.2.2]⟩)
    a ⟨rfl, rfl, rfl, rfl, rfl, hac⟩ a2 hfold2
  obtain ⟨h2p, h2s, h2d, h2n, h2o, h2c⟩ := key2
  subst hr
  have hprops : a2.props = pa.props := by rw [h2p, hap, hp]
  refine ⟨?_, hprops, ?_, ?_, h2c, h2n.trans hanm, h2o.trans hao, rfl⟩
  · apply InvF.toInv (pa := { a2 with nReal := _ }) (m := a.n)
    show InvF a2.props a2.stride a2.defaults a.n
    rw [h2p, h2s, h2d]; exact hai.toF
  · show a2.defaults = pa.defaults
    rw [h2d, had, defaults_eq_of_keys pa.defaults _ h.defaultKeys h.nodup, hp, List.map_map]
    rfl
  · intro nm
    show lookupD a2.stride nm 1 = pa.strideOf nm
    rw [h2s]
    by_cases hm : nm ∈ a.props.map Col.name
    · exact has nm hm
    · rw [lookupD_of_not_mem a.stride nm 1 (fun hk => hm (hai.strideKeys nm hk))]
      have hm' : nm ∉ pa.props.map Col.name := by rw [hp, ← hap]; exact hm
      exact (lookupD_of_not_mem pa.stride nm 1 (fun hk => hm' (h.strideKeys nm hk))).symm

theorem inv_pickle {pa pa' : PA} (h : Inv pa) (hr : pa.pickle = some pa') : Inv pa' :=
  (pickle_spec h hr).1

/-! ### when pickling succeeds -/

theorem foldl_opt_exists {α β : Type} (step : Option α → β → Option α) (Q : List β → α → Prop)
    (l : List β)
    (hstep : ∀ pre b suf a, l = pre ++ b :: suf → Q pre a →
      ∃ a', step (some a) b = some a' ∧ Q (pre ++ [b]) a')
    (a : α) (ha : Q [] a) : ∃ r, l.foldl step (some a) = some r ∧ Q l r := by
  have gen : ∀ (l' pre : List β) (a : α), l = pre ++ l' → Q pre a →
      ∃ r, l'.foldl step (some a) = some r ∧ Q (pre ++ l') r := by
    intro l'
    induction l' with
    | nil => intro pre a _ hq; exact ⟨a, rfl, by simpa using hq⟩
    | cons b l' ih =>
      intro pre a hl hq
      obtain ⟨a', hs, hq'⟩ := hstep pre b l' a hl hq
      obtain ⟨r, hr, hqr⟩ := ih (pre ++ [b]) a' (by simpa using hl) hq'
      exact ⟨r, by simp only [List.foldl_cons, hs, hr], by simpa using hqr⟩
  simpa using gen l [] a rfl ha

/-- `add_property` of a new name with data of exactly the right size does not raise -/
theorem addProperty_new_some {pa : PA} {name ctype : String} {dv : Int} {d : List Int}
    {stride : Nat} (hs : 1 ≤ stride) (hnm : name ∉ pa.props.map Col.name)
    (hlen : d.length = pa.n * stride) :
    ∃ pa', pa.addProperty name ctype (some dv) (some d) stride = some pa' := by
  have hnp : ¬ pa.hasProp name = true := fun hp => hnm ((hasProp_iff pa name).mp hp)
  unfold PA.addProperty
  extract_lets n sizeOk dv' pa1 noData d' nElem pa2 nreal pa3
  have hsz : sizeOk = true := by
    simp only [sizeOk, n, Bool.or_eq_true, Bool.and_eq_true, beq_iff_eq]
    by_cases hn0 : pa.n = 0
    · exact Or.inl (Or.inl hn0)
    · right
      rw [hlen, Nat.mul_div_cancel _ (by omega), Nat.mul_mod_left]
      exact ⟨rfl, rfl⟩
  rw [if_neg (by simp [hsz])]
  have hnames3 : pa3.props.map Col.name = pa.props.map Col.name :=
    map_name_map _ _ (fun _ _ => rfl)
  split
  · split
    · rw [if_neg (show ¬ pa1.hasProp name = true from hnp)]; exact ⟨_, rfl⟩
    · split
      · rename_i c hc
        have := col?_some pa3 name c hc
        exact absurd (this.2 ▸ List.mem_map_of_mem this.1) (hnames3 ▸ hnm)
      · exact ⟨_, rfl⟩
  · split
    · rw [if_neg (show ¬ pa1.hasProp name = true from hnp)]; exact ⟨_, rfl⟩
    · split
      · rename_i c hc
        have := col?_some pa1 name c hc
        exact absurd (this.2 ▸ List.mem_map_of_mem this.1) hnm
      · exact ⟨_, rfl⟩

/-- **pickling succeeds** when the constant names are distinct and differ from
every property name.  (The second condition is *not* an invariant of reachable
states: `add_property` accepts the name of an existing constant.) -/
theorem pickle_succeeds {pa : PA} (h : Inv pa) (hcn : (pa.consts.map Prod.fst).Nodup)
    (hcd : ∀ k ∈ pa.consts.map Prod.fst, k ∉ pa.props.map Col.name) :
    ∃ pa', pa.pickle = some pa' := by
  rw [pickle_eq]
  obtain ⟨t, rest, hp, ht, _, hn, _⟩ := n_of_tagFirst pa h.tagFirst
  obtain ⟨tn, tc, td⟩ := t
  simp only at ht
  subst ht
  obtain ⟨nr, h1⟩ := pickle_first pa.name tc (pa.defaultOf "tag") td
  have hts : pa.strideOf "tag" = 1 := h.tagStride
  have hstep1 : pickleStep pa (some (pickleStart pa.name)) ⟨"tag", tc, td⟩ =
      some { name := pa.name, props := [⟨"tag", tc, td⟩], stride := [],
             defaults := [("tag", pa.defaultOf "tag")], consts := [], nReal := nr,
             outputs := [] } := by
    unfold pickleStep; simp only []; rw [hts]; exact h1
  rw [hp, List.foldl_cons, hstep1]
  have hnodup := h.nodup
  rw [hp] at hnodup
  have hrestlen : ∀ c ∈ rest, 0 < pa.strideOf c.name ∧ c.data.length = pa.n * pa.strideOf c.name :=
    fun c hc => h.len c (by rw [hp]; simp [hc])
  obtain ⟨a, hfold, hqa⟩ := foldl_opt_exists (pickleStep pa)
    (fun pre a => Inv a ∧ a.n = pa.n ∧ a.props.map Col.name = "tag" :: pre.map Col.name ∧
      a.consts = [])
    rest
    (fun pre c suf a hl hq => by
      obtain ⟨hqi, hqn, hqp, hqc⟩ := hq
      have hc : c ∈ rest := by rw [hl]; simp
      have hnew : c.name ∉ a.props.map Col.name := by
        rw [hqp]
        rw [hl] at hnodup
        simp only [List.map_cons, List.map_append, List.nodup_cons, List.mem_append,
          List.mem_cons, List.nodup_append] at hnodup ⊢
        intro hm
        rcases hm with hm | hm
        · exact hnodup.1 (Or.inr (Or.inl hm.symm))
        · exact hnodup.2.2.2 _ hm _ (Or.inl rfl) rfl
      have hlenc : c.data.length = a.n * pa.strideOf c.name := by rw [hqn]; exact (hrestlen c hc).2
      obtain ⟨a', hs'⟩ := addProperty_new_some (ctype := c.ctype) (dv := pa.defaultOf c.name)
        (hrestlen c hc).1 hnew hlenc
      refine ⟨a', by unfold pickleStep; exact hs', ?_⟩
      have hshape := addProperty_new hqi (hrestlen c hc).1 hnew hlenc hs'
      have hinv := inv_addProperty_n hqi (hrestlen c hc).1 (fun hm => absurd hm hnew)
        (fun e => absurd (e ▸ hqi.toF.tagMem) hnew)
        (fun d hd _ _ => by
          simp only [Option.some.injEq] at hd; subst hd
          rw [hlenc]; exact Nat.mul_mod_left _ _)
        (by
          by_cases hz : a.n = 0
          · right; intro d hd
            simp only [Option.some.injEq] at hd; subst hd
            rw [hlenc, hz]; simp
          · left; exact hz) hs'
      exact ⟨hinv.1, hinv.2.trans hqn, by rw [hshape.1, List.map_append, hqp]; simp,
        (addProperty_fields hs').2.1.trans hqc⟩)
    { name := pa.name, props := [⟨"tag", tc, td⟩], stride := [],
      defaults := [("tag", pa.defaultOf "tag")], consts := [], nReal := nr, outputs := [] }
    (by
      refine ⟨?_, ?_, rfl, rfl⟩
      · apply InvF.toInv (m := pa.n)
        refine ⟨?_, rfl, rfl, by simp, by simp, rfl⟩
        intro c hc
        have : c = ⟨"tag", tc, td⟩ := by simpa using hc
        subst this
        exact ⟨by show 0 < lookupD ([] : List (String × Nat)) "tag" 1; decide,
          by show td.length = pa.n * 1; rw [hn]; simp⟩
      · show td.length = pa.n
        rw [hn])
  rw [hfold]
  simp only []
  have hanames : a.props.map Col.name = pa.props.map Col.name := by rw [hqa.2.2.1, hp]; rfl
  obtain ⟨a2, hfold2, _⟩ := foldl_opt_exists constStep
    (fun pre b => b.props = a.props ∧ b.consts = pre) pa.consts
    (fun pre c suf b hl hq => by
      have h1 : ¬ (b.consts.any (fun x => x.1 == c.1) || b.hasProp c.1) = true := by
        rw [Bool.or_eq_true, not_or]
        constructor
        · rw [any_key_iff, hq.2]
          rw [hl] at hcn
          simp only [List.map_append, List.map_cons, List.nodup_append, List.nodup_cons,
            List.mem_cons] at hcn
          intro hm
          exact hcn.2.2 _ hm _ (Or.inl rfl) rfl
        · rw [hasProp_iff, hq.1, hanames]
          exact hcd c.1 (by rw [hl]; simp)
      refine ⟨{ b with consts := b.consts ++ [(c.1, c.2)] }, ?_, hq.1, ?_⟩
      · unfold constStep PA.addConstant
        simp only []
        rw [if_neg h1]
      · show b.consts ++ [(c.1, c.2)] = _
        rw [hq.2])
    a ⟨rfl, hqa.2.2.2⟩
  rw [hfold2]
  exact ⟨_, rfl⟩

end PysphVerif.PArray
