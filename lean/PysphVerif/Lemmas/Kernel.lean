import Mathlib.Analysis.Calculus.Deriv.MeanValue
import Mathlib.Analysis.Calculus.Deriv.Inv
import Mathlib.Analysis.Calculus.Deriv.Pow
import Mathlib.Analysis.SpecialFunctions.ExpDeriv
import Mathlib.Analysis.SpecialFunctions.Trigonometric.Basic
import Mathlib.Analysis.SpecialFunctions.Sqrt
import PysphVerif.Lemmas.Poly
import PysphVerif.Model.Kernel
/-!
C08 — from the executable table checks of `Model/Kernel.lean` to statements
over ℝ about the functions the tables denote.

The real functions (`K : KTable`, `q = r·h⁻¹`):

  `wR K q`   = w-polynomial of the piece selected by `q`, times the envelope
  `dwR K q`, `dw0R K q`, `ghR K q`  likewise
  `W K r h`      = fac · (h⁻¹)^hpowW  · wR K (r·h⁻¹)          -- `kernel`
  `dwdq K r h`   = fac · (h⁻¹)^hpowDw · (dwR | dw0R) K (r·h⁻¹) -- `dwdq`
  `gradH K r h`  = fac · (h⁻¹)^hpowGh · ghR K (r·h⁻¹)          -- `gradient_h`

Each `…Ok` check has a soundness theorem here, proved once for every table.
-/
namespace PysphVerif.Kernel
open PysphVerif.Poly Set Filter Topology

/-- piece selection over ℝ (the same `lookup` the driver runs over ℚ) -/
noncomputable def lookR (ps : List Piece) (t : Piece) (q : ℝ) : Piece :=
  lookup (fun a : ℚ => (a : ℝ)) ps t q

/-- `q` selects `p` -/
def InP (p : Piece) (q : ℝ) : Prop := q < (p.hi : ℝ) ∨ (p.hiIncl = true ∧ q = (p.hi : ℝ))

theorem inPiece_iff (p : Piece) (q : ℝ) :
    inPiece (fun a : ℚ => (a : ℝ)) p q = true ↔ InP p q := by
  simp [inPiece, InP]

@[simp] theorem lookR_nil (t : Piece) (q : ℝ) : lookR [] t q = t := rfl

theorem lookR_cons_in {p : Piece} (ps : List Piece) (t : Piece) {q : ℝ} (h : InP p q) :
    lookR (p :: ps) t q = p := by
  simp [lookR, lookup, (inPiece_iff p q).2 h]

theorem lookR_cons_out {p : Piece} (ps : List Piece) (t : Piece) {q : ℝ} (h : ¬ InP p q) :
    lookR (p :: ps) t q = lookR ps t q := by
  have : inPiece (fun a : ℚ => (a : ℝ)) p q = false := by
    rw [← Bool.not_eq_true, inPiece_iff]; exact h
  simp [lookR, lookup, this]

theorem lookR_mem (ps : List Piece) (t : Piece) (q : ℝ) : lookR ps t q ∈ ps ∨ lookR ps t q = t := by
  induction ps with
  | nil => right; rfl
  | cons p ps ih =>
    by_cases h : InP p q
    · left; rw [lookR_cons_in ps t h]; exact List.mem_cons_self
    · rw [lookR_cons_out ps t h]
      rcases ih with h1 | h1
      · left; exact List.mem_cons_of_mem _ h1
      · right; exact h1

theorem InP_le' {p : Piece} {y : ℝ} (h : InP p y) : y ≤ (p.hi : ℝ) := by
  rcases h with h | ⟨_, h⟩
  · exact h.le
  · exact h.le

/-- value of a piece-wise family at `q` -/
noncomputable def FG (G : Piece → ℝ → ℝ) (ps : List Piece) (t : Piece) (q : ℝ) : ℝ :=
  G (lookR ps t q) q

/-! ## support -/

theorem edge_zero (sel : Piece → List ℚ) (R : ℚ) (t : Piece) (ht : isZero (sel t) = true) :
    ∀ ps, edgeZero sel R ps = true → ∀ q : ℝ, (R : ℝ) ≤ q → evR (sel (lookR ps t q)) q = 0 := by
  intro ps
  induction ps with
  | nil => intro _ q _; exact evR_eq_zero_of_isZero ht q
  | cons p ps ih =>
    intro h q hq
    simp only [edgeZero, Bool.and_eq_true, Bool.or_eq_true, decide_eq_true_eq, beq_iff_eq,
      Bool.not_eq_true'] at h
    by_cases hin : InP p q
    · rw [lookR_cons_in ps t hin]
      rcases h.1 with hhi | ⟨hhiR, hz⟩
      · have : (p.hi : ℝ) < R := by exact_mod_cast hhi
        rcases hin with hlt | ⟨_, heq⟩
        · linarith
        · rw [heq] at hq; linarith
      · have hR : (p.hi : ℝ) = R := by exact_mod_cast hhiR
        rcases hin with hlt | ⟨hincl, heq⟩
        · rw [hR] at hlt; linarith
        · rcases hz with hf | hz
          · rw [hf] at hincl; cases hincl
          · rw [heq, hR, evR_ratCast, hz]; simp
    · rw [lookR_cons_out ps t hin]
      exact ih h.2 q hq

/-! ## envelope and piece functions -/

/-- `exp(-q²)` for the Gaussian family, `1` otherwise -/
noncomputable def envg (g : Bool) (q : ℝ) : ℝ := if g then Real.exp (-(q * q)) else 1

theorem envg_pos (g : Bool) (q : ℝ) : 0 < envg g q := by
  unfold envg; split
  · exact Real.exp_pos _
  · exact one_pos

/-- the function a coefficient list denotes on its piece -/
noncomputable def gfun (g : Bool) (sel : Piece → List ℚ) (p : Piece) (q : ℝ) : ℝ :=
  evR (sel p) q * envg g q

theorem hasDerivAt_envg (g : Bool) (x : ℝ) :
    HasDerivAt (envg g) (if g then -(2 * x) * Real.exp (-(x * x)) else 0) x := by
  cases g with
  | false =>
    have : envg false = fun _ => (1 : ℝ) := by funext q; simp [envg]
    rw [this]; simpa using hasDerivAt_const x (1 : ℝ)
  | true =>
    have : envg true = fun q => Real.exp (-(q * q)) := by funext q; simp [envg]
    rw [this]
    have h1 : HasDerivAt (fun y : ℝ => -(y * y)) (-(1 * x + x * 1)) x :=
      ((hasDerivAt_id' x).mul (hasDerivAt_id' x)).neg
    have h : HasDerivAt (fun y : ℝ => Real.exp (-(y * y)))
        (Real.exp (-(x * x)) * -(1 * x + x * 1)) x := h1.exp
    refine h.congr_deriv ?_
    simp only [if_true]; ring

/-- `pieceDerivOk`: the `dw` list denotes the derivative of what the `w` list denotes -/
theorem gfun_hasDerivAt {g : Bool} {p : Piece} (h : pieceDerivOk g p = true) (x : ℝ) :
    HasDerivAt (gfun g Piece.w p) (gfun g Piece.dw p x) x := by
  have hd := (hasDerivAt_evR p.w x).mul (hasDerivAt_envg g x)
  have e := evR_eq_of_peq h x
  refine hd.congr_deriv ?_
  unfold gfun
  rw [e]
  cases g with
  | false => simp [dshape, envg]
  | true =>
    simp only [dshape, if_true, evR_sub, evR_mulLin, envg]
    push_cast; ring

/-! ## derivative away from the breakpoints -/

theorem FG_hasDerivAt_interior (G G' : Piece → ℝ → ℝ) (t : Piece) :
    ∀ ps : List Piece, (∀ p, p ∈ ps ∨ p = t → ∀ x, HasDerivAt (G p) (G' p x) x) →
    ∀ q : ℝ, (∀ p ∈ ps, q ≠ (p.hi : ℝ)) → HasDerivAt (FG G ps t) (FG G' ps t q) q := by
  intro ps
  induction ps with
  | nil => intro hG q _; exact hG t (Or.inr rfl) q
  | cons p ps ih =>
    intro hG q hq
    have hne : q ≠ (p.hi : ℝ) := hq p List.mem_cons_self
    rcases lt_or_gt_of_ne hne with hlt | hgt
    · have hin : InP p q := Or.inl hlt
      have hev : FG G (p :: ps) t =ᶠ[𝓝 q] G p := by
        filter_upwards [Iio_mem_nhds hlt] with x hx
        simp only [FG]; rw [lookR_cons_in ps t (Or.inl hx)]
      have : FG G' (p :: ps) t q = G' p q := by
        simp only [FG]; rw [lookR_cons_in ps t hin]
      rw [this]
      exact (hG p (Or.inl List.mem_cons_self) q).congr_of_eventuallyEq hev
    · have hout : ∀ x, (p.hi : ℝ) < x → ¬ InP p x := by
        intro x hx hin
        rcases hin with h1 | ⟨_, h2⟩
        · linarith
        · rw [h2] at hx; exact lt_irrefl _ hx
      have hev : FG G (p :: ps) t =ᶠ[𝓝 q] FG G ps t := by
        filter_upwards [Ioi_mem_nhds hgt] with x hx
        simp only [FG]; rw [lookR_cons_out ps t (hout x hx)]
      have : FG G' (p :: ps) t q = FG G' ps t q := by
        simp only [FG]; rw [lookR_cons_out ps t (hout q hgt)]
      rw [this]
      refine (ih (fun p' hp' => hG p' ?_) q (fun p' hp' => hq p' (List.mem_cons_of_mem _ hp'))).congr_of_eventuallyEq hev
      rcases hp' with h1 | h1
      · exact Or.inl (List.mem_cons_of_mem _ h1)
      · exact Or.inr h1

/-! ## derivative at the breakpoints of a C¹ family -/

/-- value and derivative of consecutive pieces agree at the breakpoint between them -/
def JunctG (G G' : Piece → ℝ → ℝ) : List Piece → Piece → Prop
  | [], _ => True
  | p :: ps, t => (G p p.hi = G (ps.headD t) p.hi ∧ G' p p.hi = G' (ps.headD t) p.hi) ∧
      JunctG G G' ps t

theorem chain_cons' {L : ℚ} {p : Piece} {ps : List Piece} (h : chain L (p :: ps) = true) :
    p.lo = L ∧ p.lo < p.hi ∧ chain p.hi ps = true := by
  simp only [chain, Bool.and_eq_true, beq_iff_eq, decide_eq_true_eq] at h
  exact ⟨h.1.1, h.1.2, h.2⟩

theorem FG_hasDerivAt_C1 (G G' : Piece → ℝ → ℝ) (t : Piece) :
    ∀ (ps : List Piece) (L : ℚ), chain L ps = true →
    (∀ p, p ∈ ps ∨ p = t → ∀ x, HasDerivAt (G p) (G' p x) x) → JunctG G G' ps t →
    ∀ q : ℝ, HasDerivAt (FG G ps t) (FG G' ps t q) q := by
  intro ps
  induction ps with
  | nil => intro _ _ hG _ q; exact hG t (Or.inr rfl) q
  | cons p ps ih =>
    intro L hch hG hJ q
    obtain ⟨_, _, hch'⟩ := chain_cons' hch
    have hG' : ∀ p', p' ∈ ps ∨ p' = t → ∀ x, HasDerivAt (G p') (G' p' x) x := by
      intro p' hp'
      rcases hp' with h1 | h1
      · exact hG p' (Or.inl (List.mem_cons_of_mem _ h1))
      · exact hG p' (Or.inr h1)
    have hout : ∀ x, (p.hi : ℝ) < x → ¬ InP p x := by
      intro x hx hin
      have := InP_le' hin
      linarith
    rcases lt_trichotomy q (p.hi : ℝ) with hlt | heq | hgt
    · have hev : FG G (p :: ps) t =ᶠ[𝓝 q] G p := by
        filter_upwards [Iio_mem_nhds hlt] with x hx
        simp only [FG]; rw [lookR_cons_in ps t (Or.inl hx)]
      have : FG G' (p :: ps) t q = G' p q := by
        simp only [FG]; rw [lookR_cons_in ps t (Or.inl hlt)]
      rw [this]
      exact (hG p (Or.inl List.mem_cons_self) q).congr_of_eventuallyEq hev
    · -- the breakpoint itself
      subst heq
      set n := ps.headD t with hn
      have hnG : ∀ x, HasDerivAt (G n) (G' n x) x := by
        apply hG'
        cases ps with
        | nil => right; rfl
        | cons a l => left; exact List.mem_cons_self
      -- upper end of the right neighbourhood on which `n` is selected
      obtain ⟨U, hU, hsel⟩ : ∃ U : ℝ, (p.hi : ℝ) < U ∧
          ∀ x, (p.hi : ℝ) < x → x < U → lookR ps t x = n := by
        cases ps with
        | nil => exact ⟨(p.hi : ℝ) + 1, by linarith, fun x _ _ => rfl⟩
        | cons a l =>
          obtain ⟨hlo, hlt, _⟩ := chain_cons' hch'
          refine ⟨(a.hi : ℝ), ?_, fun x _ hx => lookR_cons_in l t (Or.inl hx)⟩
          rw [hlo] at hlt; exact_mod_cast hlt
      have hval : FG G (p :: ps) t (p.hi : ℝ) = G p p.hi ∧
          FG G (p :: ps) t (p.hi : ℝ) = G n p.hi ∧
          FG G' (p :: ps) t (p.hi : ℝ) = G' p p.hi ∧ FG G' (p :: ps) t (p.hi : ℝ) = G' n p.hi := by
        by_cases hin : InP p (p.hi : ℝ)
        · simp only [FG]; rw [lookR_cons_in ps t hin]
          exact ⟨rfl, hJ.1.1, rfl, hJ.1.2⟩
        · have hl : lookR (p :: ps) t (p.hi : ℝ) = n := by
            rw [lookR_cons_out ps t hin]
            cases ps with
            | nil => rfl
            | cons a l =>
              obtain ⟨hlo, hlt, _⟩ := chain_cons' hch'
              refine lookR_cons_in l t (Or.inl ?_)
              rw [hlo] at hlt; exact_mod_cast hlt
          simp only [FG]; rw [hl]
          exact ⟨hJ.1.1.symm, rfl, hJ.1.2.symm, rfl⟩
      have hleft : HasDerivWithinAt (FG G (p :: ps) t) (FG G' (p :: ps) t (p.hi : ℝ))
          (Iic (p.hi : ℝ)) (p.hi : ℝ) := by
        rw [hval.2.2.1]
        refine (hG p (Or.inl List.mem_cons_self) _).hasDerivWithinAt.congr ?_ hval.1
        intro x hx
        rcases eq_or_lt_of_le (mem_Iic.1 hx) with e | l
        · rw [e]; exact hval.1
        · simp only [FG]; rw [lookR_cons_in ps t (Or.inl l)]
      have hright : HasDerivWithinAt (FG G (p :: ps) t) (FG G' (p :: ps) t (p.hi : ℝ))
          (Ici (p.hi : ℝ)) (p.hi : ℝ) := by
        rw [hval.2.2.2]
        refine (hnG _).hasDerivWithinAt.congr_of_eventuallyEq ?_ hval.2.1
        filter_upwards [self_mem_nhdsWithin, mem_nhdsWithin_of_mem_nhds (Iio_mem_nhds hU)]
          with x hx1 hx2
        rcases eq_or_lt_of_le (mem_Ici.1 hx1) with e | l
        · rw [← e]; exact hval.2.1
        · simp only [FG]; rw [lookR_cons_out ps t (hout x l), hsel x l hx2]
      have := hleft.union hright
      rwa [Iic_union_Ici, hasDerivWithinAt_univ] at this
    · have hev : FG G (p :: ps) t =ᶠ[𝓝 q] FG G ps t := by
        filter_upwards [Ioi_mem_nhds hgt] with x hx
        simp only [FG]; rw [lookR_cons_out ps t (hout x hx)]
      have : FG G' (p :: ps) t q = FG G' ps t q := by
        simp only [FG]; rw [lookR_cons_out ps t (hout q hgt)]
      rw [this]
      exact (ih p.hi hch' hG' hJ.2 q).congr_of_eventuallyEq hev

/-! ## monotonicity of a piece-wise family -/

/-- no upward jump at any breakpoint (`ps.headD t` is the piece that follows `p`) -/
def JumpsG (G : Piece → ℝ → ℝ) : List Piece → Piece → Prop
  | [], _ => True
  | p :: ps, t => G (ps.headD t) p.hi ≤ G p p.hi ∧ JumpsG G ps t

theorem chain_cons {L : ℚ} {p : Piece} {ps : List Piece} (h : chain L (p :: ps) = true) :
    p.lo = L ∧ p.lo < p.hi ∧ chain p.hi ps = true := by
  simp only [chain, Bool.and_eq_true, beq_iff_eq, decide_eq_true_eq] at h
  exact ⟨h.1.1, h.1.2, h.2⟩

theorem FG_at_start (G : Piece → ℝ → ℝ) (t : Piece) :
    ∀ (ps : List Piece) (L : ℚ), chain L ps = true → FG G ps t (L : ℝ) = G (ps.headD t) L := by
  intro ps L h
  cases ps with
  | nil => rfl
  | cons p ps =>
    obtain ⟨hlo, hlt, _⟩ := chain_cons h
    have : InP p (L : ℝ) := Or.inl (by rw [← hlo]; exact_mod_cast hlt)
    simp [FG, lookR_cons_in ps t this]

theorem not_InP_ge {p : Piece} {y : ℝ} (h : ¬ InP p y) : (p.hi : ℝ) ≤ y := by
  by_contra hc
  exact h (Or.inl (not_le.1 hc))

theorem InP_le {p : Piece} {y : ℝ} (h : InP p y) : y ≤ (p.hi : ℝ) := by
  rcases h with h | ⟨_, h⟩
  · exact h.le
  · exact h.le

theorem FG_antitone (G : Piece → ℝ → ℝ) (t : Piece) (htail : ∀ L : ℝ, AntitoneOn (G t) (Ici L)) :
    ∀ (ps : List Piece) (L : ℚ), chain L ps = true →
      (∀ p ∈ ps, AntitoneOn (G p) (Icc (p.lo : ℝ) p.hi)) → JumpsG G ps t →
      AntitoneOn (FG G ps t) (Ici (L : ℝ)) := by
  intro ps
  induction ps with
  | nil => intro L _ _ _; exact htail L
  | cons p ps ih =>
    intro L hch hanti hj x hx y hy hxy
    obtain ⟨hlo, hlt, hch'⟩ := chain_cons hch
    have hloR : (p.lo : ℝ) = L := by exact_mod_cast hlo
    have hltR : (L : ℝ) < p.hi := by rw [← hloR]; exact_mod_cast hlt
    have hIH := ih p.hi hch' (fun p' hp' => hanti p' (List.mem_cons_of_mem _ hp')) hj.2
    have hp := hanti p List.mem_cons_self
    simp only [mem_Ici] at hx hy
    by_cases hiny : InP p y
    · have hyle := InP_le hiny
      have hinx : InP p x := by
        rcases hiny with h | ⟨hi, h⟩
        · exact Or.inl (lt_of_le_of_lt hxy h)
        · rcases eq_or_lt_of_le hxy with e | l
          · exact Or.inr ⟨hi, by rw [e]; exact h⟩
          · exact Or.inl (by rw [← h]; exact l)
      have ex : FG G (p :: ps) t x = G p x := by simp only [FG]; rw [lookR_cons_in ps t hinx]
      have ey : FG G (p :: ps) t y = G p y := by simp only [FG]; rw [lookR_cons_in ps t hiny]
      rw [ex, ey]
      exact hp ⟨by rw [hloR]; exact hx, le_trans hxy hyle⟩ ⟨by rw [hloR]; exact hy, hyle⟩ hxy
    · have hyge := not_InP_ge hiny
      have ey : FG G (p :: ps) t y = FG G ps t y := by
        simp only [FG]; rw [lookR_cons_out ps t hiny]
      by_cases hinx : InP p x
      · have hxle := InP_le hinx
        have ex : FG G (p :: ps) t x = G p x := by simp only [FG]; rw [lookR_cons_in ps t hinx]
        rw [ex, ey]
        have s1 : FG G ps t y ≤ FG G ps t (p.hi : ℝ) :=
          hIH (mem_Ici.2 le_rfl) (mem_Ici.2 hyge) hyge
        rw [FG_at_start G t ps p.hi hch'] at s1
        have s3 := hj.1
        have s4 : G p p.hi ≤ G p x :=
          hp ⟨by rw [hloR]; exact hx, hxle⟩ ⟨by rw [hloR]; exact hltR.le, le_rfl⟩ hxle
        linarith
      · have hxge := not_InP_ge hinx
        have ex : FG G (p :: ps) t x = FG G ps t x := by
          simp only [FG]; rw [lookR_cons_out ps t hinx]
        rw [ex, ey]
        exact hIH (mem_Ici.2 hxge) (mem_Ici.2 (le_trans hxge hxy)) hxy

/-- `dw ≤ 0` on `[lo, hi]` (certificate) ⇒ the piece function is non-increasing there -/
theorem gfun_antitoneOn {g : Bool} {p : Piece} (hd : pieceDerivOk g p = true)
    (hs : pieceSignOk p = true) : AntitoneOn (gfun g Piece.w p) (Icc (p.lo : ℝ) p.hi) := by
  have hcert : ∀ x : ℝ, (p.lo : ℝ) ≤ x → x ≤ (p.hi : ℝ) → evR p.dw x ≤ 0 := by
    unfold pieceSignOk at hs
    cases hc : p.cuts with
    | nil => rw [hc] at hs; cases hs
    | cons a rest =>
      rw [hc] at hs
      simp only [Bool.and_eq_true, beq_iff_eq] at hs
      obtain ⟨⟨ha, hl⟩, hcc⟩ := hs
      intro x hx1 hx2
      exact certCuts_sound rest a hcc x (by rw [ha]; exact hx1) (by rw [hl]; exact hx2)
  refine antitoneOn_of_hasDerivWithinAt_nonpos (convex_Icc _ _)
    (fun x _ => (gfun_hasDerivAt hd x).continuousAt.continuousWithinAt)
    (fun x _ => (gfun_hasDerivAt hd x).hasDerivWithinAt) ?_
  intro x hx
  have hx' := interior_subset hx
  exact mul_nonpos_of_nonpos_of_nonneg (hcert x hx'.1 hx'.2) (envg_pos g x).le

/-! ## the functions a table denotes -/

noncomputable def wR (K : KTable) : ℝ → ℝ := FG (gfun K.gauss Piece.w) K.pieces K.tail
noncomputable def dwR (K : KTable) : ℝ → ℝ := FG (gfun K.gauss Piece.dw) K.pieces K.tail
noncomputable def dw0R (K : KTable) : ℝ → ℝ := FG (gfun K.gauss Piece.dw0) K.pieces K.tail
noncomputable def ghR (K : KTable) : ℝ → ℝ := FG (gfun K.gauss Piece.gh) K.pieces K.tail

/-- `self.fac = facQ · π^(piHalf/2)` -/
noncomputable def facR (K : KTable) : ℝ := (K.facQ : ℝ) * (Real.sqrt Real.pi) ^ K.piHalf

/-- `kernel(rij = r, h)` -/
noncomputable def W (K : KTable) (r h : ℝ) : ℝ := facR K * h⁻¹ ^ K.hpowW * wR K (r * h⁻¹)
/-- `dwdq(rij = r, h)` -/
noncomputable def dwdq (K : KTable) (r h : ℝ) : ℝ :=
  facR K * h⁻¹ ^ K.hpowDw * (if (K.rmin : ℝ) < r then dwR K (r * h⁻¹) else dw0R K (r * h⁻¹))
/-- `gradient_h(rij = r, h)` -/
noncomputable def gradH (K : KTable) (r h : ℝ) : ℝ := facR K * h⁻¹ ^ K.hpowGh * ghR K (r * h⁻¹)

/-- a generated gradient monomial over ℝ -/
noncomputable def monoR (m : Mono) (wd h r x0 x1 x2 : ℝ) : ℝ :=
  (m.c : ℝ) * wd ^ m.wdash * h ^ m.h * r ^ m.rij *
    x0 ^ (m.x.getD 0 0) * x1 ^ (m.x.getD 1 0) * x2 ^ (m.x.getD 2 0)

/-- component `i` of `gradient(xij = (x0,x1,x2), rij = r, h)` -/
noncomputable def gradient (K : KTable) (i : ℕ) (x0 x1 x2 r h : ℝ) : ℝ :=
  if (K.rmin : ℝ) < r then monoR (K.grad.getD i ⟨0, 0, 0, 0, []⟩) (dwdq K r h) h r x0 x1 x2
  else monoR (K.grad0.getD i ⟨0, 0, 0, 0, []⟩) (dwdq K r h) h r x0 x1 x2

theorem mem_all_true {α : Type} {l : List α} {f : α → Bool} (h : l.all f = true) {a : α}
    (ha : a ∈ l) : f a = true := by
  rw [List.all_eq_true] at h; exact h a ha

/-! ### support -/

theorem support_sound {K : KTable} (h : supportOk K = true) {q : ℝ} (hq : (K.radius : ℝ) ≤ q) :
    wR K q = 0 ∧ dwR K q = 0 ∧ dw0R K q = 0 := by
  simp only [supportOk, Bool.and_eq_true] at h
  obtain ⟨⟨⟨⟨⟨h1, h2⟩, h3⟩, h4⟩, h5⟩, h6⟩ := h
  refine ⟨?_, ?_, ?_⟩
  · simp only [wR, FG, gfun]; rw [edge_zero Piece.w K.radius K.tail h1 K.pieces h4 q hq]; simp
  · simp only [dwR, FG, gfun]; rw [edge_zero Piece.dw K.radius K.tail h2 K.pieces h5 q hq]; simp
  · simp only [dw0R, FG, gfun]; rw [edge_zero Piece.dw0 K.radius K.tail h3 K.pieces h6 q hq]; simp

/-- the kernel and `dwdq` vanish for `r ≥ radius_scale · h` -/
theorem W_support {K : KTable} (hK : supportOk K = true) {r h : ℝ} (hh : 0 < h)
    (hr : (K.radius : ℝ) * h ≤ r) : W K r h = 0 ∧ dwdq K r h = 0 := by
  have hq : (K.radius : ℝ) ≤ r * h⁻¹ := by
    rw [← div_eq_mul_inv, le_div_iff₀ hh]; exact hr
  obtain ⟨h1, h2, h3⟩ := support_sound hK hq
  constructor
  · simp [W, h1]
  · unfold dwdq; split <;> simp [h2, h3]

/-! ### `dwdq` is the derivative -/

theorem wR_hasDerivAt {K : KTable} (hK : derivOk K = true) {q : ℝ}
    (hq : ∀ p ∈ K.pieces, q ≠ (p.hi : ℝ)) : HasDerivAt (wR K) (dwR K q) q := by
  simp only [derivOk, Bool.and_eq_true] at hK
  refine FG_hasDerivAt_interior _ _ K.tail K.pieces ?_ q hq
  intro p hp x
  rcases hp with hp | hp
  · exact gfun_hasDerivAt (mem_all_true hK.1 hp) x
  · rw [hp]; exact gfun_hasDerivAt hK.2 x

/-- `dW/dr = fac·h⁻ᵈ·w'(q)·h⁻¹` : `dwdq` is `h` times `dW/dr` -/
theorem W_hasDerivAt_r {K : KTable} {r h : ℝ} (hq : HasDerivAt (wR K) (dwR K (r * h⁻¹)) (r * h⁻¹)) :
    HasDerivAt (fun r' => W K r' h) (facR K * h⁻¹ ^ K.hpowW * dwR K (r * h⁻¹) * h⁻¹) r := by
  have h1 : HasDerivAt (fun r' : ℝ => r' * h⁻¹) (1 * h⁻¹) r := (hasDerivAt_id' r).mul_const h⁻¹
  have h2 : HasDerivAt (fun r' : ℝ => wR K (r' * h⁻¹)) (dwR K (r * h⁻¹) * (1 * h⁻¹)) r :=
    HasDerivAt.comp r hq h1
  have h3 := h2.const_mul (facR K * h⁻¹ ^ K.hpowW)
  unfold W
  refine h3.congr_deriv ?_
  ring

theorem junct_sound (g : Bool) (t : Piece) : ∀ ps : List Piece, junctionsC1 ps t = true →
    JunctG (gfun g Piece.w) (gfun g Piece.dw) ps t := by
  intro ps
  induction ps with
  | nil => intro _; trivial
  | cons p ps ih =>
    intro h
    simp only [junctionsC1, Bool.and_eq_true, beq_iff_eq] at h
    refine ⟨⟨?_, ?_⟩, ih h.2⟩
    · simp only [gfun]; rw [evR_ratCast, evR_ratCast, h.1.1]
    · simp only [gfun]; rw [evR_ratCast, evR_ratCast, h.1.2]

/-- C¹ tables: `dwR` is the derivative of `wR` at every `q`, breakpoints included -/
theorem wR_hasDerivAt_C1 {K : KTable} (hc : chainOk K = true) (hK : derivOk K = true)
    (h1 : c1Ok K = true) (q : ℝ) : HasDerivAt (wR K) (dwR K q) q := by
  simp only [derivOk, Bool.and_eq_true] at hK
  simp only [chainOk, Bool.and_eq_true] at hc
  refine FG_hasDerivAt_C1 _ _ K.tail K.pieces 0 hc.1.1 ?_ (junct_sound K.gauss K.tail K.pieces h1) q
  intro p hp x
  rcases hp with hp | hp
  · exact gfun_hasDerivAt (mem_all_true hK.1 hp) x
  · rw [hp]; exact gfun_hasDerivAt hK.2 x

/-! ### `gradient_h` is `dW/dh` -/

theorem hasDerivAt_inv_pow (d : ℕ) {h : ℝ} (hh : h ≠ 0) :
    HasDerivAt (fun y : ℝ => y⁻¹ ^ d) (-(d : ℝ) * h⁻¹ ^ (d + 1)) h := by
  induction d with
  | zero => simpa using hasDerivAt_const h (1 : ℝ)
  | succ d ih =>
    have h1 := ih.mul (hasDerivAt_inv hh)
    have : (fun y : ℝ => y⁻¹ ^ (d + 1)) = fun y => y⁻¹ ^ d * y⁻¹ := by funext y; ring
    rw [this]
    refine h1.congr_deriv ?_
    push_cast
    ring

theorem ghR_eq {K : KTable} (hK : gradhOk K = true) (q : ℝ) :
    ghR K q = -((K.dim : ℝ) * wR K q + q * dwR K q) := by
  simp only [gradhOk, Bool.and_eq_true] at hK
  have hp : pieceGradhOk K.dim (lookR K.pieces K.tail q) = true := by
    rcases lookR_mem K.pieces K.tail q with h | h
    · exact mem_all_true hK.1.2 h
    · rw [h]; exact hK.2
  have e := evR_eq_of_peq hp q
  simp only [ghR, wR, dwR, FG, gfun]
  rw [e, evR_neg, evR_add, evR_smul, evR_mulX]
  push_cast; ring

/-- `gradient_h` is the derivative of the kernel with respect to `h` -/
theorem W_hasDerivAt_h {K : KTable} (hK : gradhOk K = true) {r h : ℝ} (hh : h ≠ 0)
    (hq : HasDerivAt (wR K) (dwR K (r * h⁻¹)) (r * h⁻¹)) :
    HasDerivAt (fun h' => W K r h') (gradH K r h) h := by
  have hd : K.hpowW = K.dim ∧ K.hpowGh = K.dim + 1 := by
    simp only [gradhOk, Bool.and_eq_true, beq_iff_eq] at hK
    exact ⟨hK.1.1.1.1, hK.1.1.2⟩
  have h1 : HasDerivAt (fun h' : ℝ => r * h'⁻¹) (r * -(h ^ 2)⁻¹) h :=
    (hasDerivAt_inv hh).const_mul r
  have h2 : HasDerivAt (fun h' : ℝ => wR K (r * h'⁻¹)) (dwR K (r * h⁻¹) * (r * -(h ^ 2)⁻¹)) h :=
    HasDerivAt.comp h hq h1
  have h3 := ((hasDerivAt_inv_pow K.hpowW hh).mul h2).const_mul (facR K)
  unfold W gradH
  rw [ghR_eq hK, hd.2]
  have : (fun h' => facR K * h'⁻¹ ^ K.hpowW * wR K (r * h'⁻¹)) =
      fun h' => facR K * (h'⁻¹ ^ K.hpowW * wR K (r * h'⁻¹)) := by funext y; ring
  rw [this]
  refine h3.congr_deriv ?_
  rw [hd.1]
  ring

/-! ### sign and monotonicity -/

theorem jumps_sound (g : Bool) (t : Piece) : ∀ ps : List Piece, jumpsDown ps t = true →
    JumpsG (gfun g Piece.w) ps t := by
  intro ps
  induction ps with
  | nil => intro _; trivial
  | cons p ps ih =>
    intro h
    simp only [jumpsDown, Bool.and_eq_true, decide_eq_true_eq] at h
    refine ⟨?_, ih h.2⟩
    simp only [gfun]
    rw [evR_ratCast, evR_ratCast]
    have : ((eval (ps.headD t).w p.hi : ℚ) : ℝ) ≤ ((eval p.w p.hi : ℚ) : ℝ) := by exact_mod_cast h.1
    exact mul_le_mul_of_nonneg_right this (envg_pos g _).le

/-- the shape function is non-increasing on `[0, ∞)` -/
theorem wR_antitone {K : KTable} (hc : chainOk K = true) (hsup : supportOk K = true)
    (hd : derivOk K = true) (hs : signOk K = true) : AntitoneOn (wR K) (Ici (0 : ℝ)) := by
  simp only [chainOk, Bool.and_eq_true] at hc
  simp only [derivOk, Bool.and_eq_true] at hd
  simp only [signOk, Bool.and_eq_true] at hs
  simp only [supportOk, Bool.and_eq_true] at hsup
  have htz : isZero K.tail.w = true := hsup.1.1.1.1.1
  have htail : ∀ L : ℝ, AntitoneOn (gfun K.gauss Piece.w K.tail) (Ici L) := by
    intro L x _ y _ _
    simp [gfun, evR_eq_zero_of_isZero htz]
  have := FG_antitone (gfun K.gauss Piece.w) K.tail htail K.pieces 0 hc.1.1
    (fun p hp => gfun_antitoneOn (mem_all_true hd.1 hp) (mem_all_true hs.1 hp))
    (jumps_sound K.gauss K.tail K.pieces hs.2)
  simpa [wR] using this

/-- the shape function is non-negative on `[0, ∞)` -/
theorem wR_nonneg {K : KTable} (hc : chainOk K = true) (hsup : supportOk K = true)
    (hd : derivOk K = true) (hs : signOk K = true) {q : ℝ} (hq : 0 ≤ q) : 0 ≤ wR K q := by
  have hanti := wR_antitone hc hsup hd hs
  have hm : q ≤ max q (K.radius : ℝ) := le_max_left _ _
  have h0 : wR K (max q (K.radius : ℝ)) = 0 := (support_sound hsup (le_max_right _ _)).1
  have := hanti (mem_Ici.2 hq) (mem_Ici.2 (le_trans hq hm)) hm
  linarith

/-! ### the `rij ≤ rmin` guard and the gradient's shape -/

theorem dwdq_origin {K : KTable} (hK : originOk K = true) {r : ℝ} (hr : r ≤ (K.rmin : ℝ)) (h : ℝ) :
    dwdq K r h = 0 := by
  simp only [originOk, Bool.and_eq_true] at hK
  have hz : isZero (lookR K.pieces K.tail (r * h⁻¹)).dw0 = true := by
    rcases lookR_mem K.pieces K.tail (r * h⁻¹) with hm | hm
    · exact mem_all_true hK.1.1.1.2 hm
    · rw [hm]; exact hK.1.1.2
  unfold dwdq
  rw [if_neg (not_lt.2 hr)]
  simp [dw0R, FG, gfun, evR_eq_zero_of_isZero hz]

theorem gradient_origin {K : KTable} (hK : originOk K = true) {r : ℝ} (hr : r ≤ (K.rmin : ℝ))
    (i : ℕ) (x0 x1 x2 h : ℝ) : gradient K i x0 x1 x2 r h = 0 := by
  have hK' := hK
  simp only [originOk, Bool.and_eq_true] at hK
  unfold gradient
  rw [if_neg (not_lt.2 hr)]
  have hc : (K.grad0.getD i ⟨0, 0, 0, 0, []⟩).c = 0 := by
    rw [List.getD_eq_getElem?_getD]
    cases hm : K.grad0[i]? with
    | none => rfl
    | some m =>
      have : m ∈ K.grad0 := List.mem_of_getElem? hm
      simpa using mem_all_true hK.1.2 this
  unfold monoR
  rw [hc]
  simp

/-- `gradient = dwdq · h⁻¹ / r · xij` -/
theorem gradient_shape {K : KTable} (hK : gradOk K = true) {r : ℝ} (hr : (K.rmin : ℝ) < r)
    (x0 x1 x2 h : ℝ) :
    gradient K 0 x0 x1 x2 r h = dwdq K r h * h⁻¹ / r * x0 ∧
    gradient K 1 x0 x1 x2 r h = dwdq K r h * h⁻¹ / r * x1 ∧
    gradient K 2 x0 x1 x2 r h = dwdq K r h * h⁻¹ / r * x2 := by
  simp only [gradOk, beq_iff_eq] at hK
  unfold gradient
  rw [if_pos hr, if_pos hr, if_pos hr, hK]
  refine ⟨?_, ?_, ?_⟩ <;> simp [monoR, div_eq_mul_inv]

end PysphVerif.Kernel
