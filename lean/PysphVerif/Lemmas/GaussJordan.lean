import Mathlib.Algebra.Order.Field.Basic
import Mathlib.Algebra.BigOperators.Group.Finset.Basic
import Mathlib.Algebra.Order.AbsoluteValue.Basic
import Mathlib.Tactic.Ring
import Mathlib.Tactic.FieldSimp
import Mathlib.Tactic.Linarith
import PysphVerif.Model.GaussJordan
set_option linter.unusedSectionVars false
set_option linter.unusedVariables false
/-!
Helper lemmas for C13: what each loop of `Model/GaussJordan.lean` does to the
flat array, read back through the 2-D accessor `get2 nt m i j = m[nt*i + j]`.
-/
namespace PysphVerif.GaussJordan
variable {K : Type} [Field K] [LinearOrder K] [IsStrictOrderedRing K]

/-! ### flat arrays -/

theorem size_wr (a : Array K) (i : Nat) (v : K) : (wr a i v).size = a.size := by
  simp [wr]

theorem rd_wr (a : Array K) (i j : Nat) (v : K) :
    rd (wr a i v) j = if i = j ∧ i < a.size then v else rd a j := by
  simp only [rd, wr, Array.getD_eq_getD_getElem?, Array.getElem?_setIfInBounds]
  by_cases h : i = j
  · subst h
    by_cases h2 : i < a.size <;> simp [h2]
  · simp [h]

/-- `m[nt*i + j]` -/
def get2 (nt : Nat) (m : Array K) (i j : Nat) : K := rd m (nt*i + j)

/-- row-major indexing is injective on `j < nt` -/
theorem flat_inj {nt i j i' j' : Nat} (hj : j < nt) (hj' : j' < nt)
    (h : nt*i + j = nt*i' + j') : i = i' ∧ j = j' := by
  have hpos : 0 < nt := by omega
  have hi : i = i' := by
    have h1 : (nt*i + j) / nt = i := by
      rw [Nat.mul_add_div hpos, Nat.div_eq_of_lt hj]; rfl
    have h2 : (nt*i' + j') / nt = i' := by
      rw [Nat.mul_add_div hpos, Nat.div_eq_of_lt hj']; rfl
    rw [h] at h1; omega
  subst hi
  exact ⟨rfl, by omega⟩

theorem flat_lt {n nt i j : Nat} (hi : i < n) (hj : j < nt) : nt*i + j < n*nt := by
  have h1 : nt*i + nt ≤ nt*n := by
    have : nt*(i+1) ≤ nt*n := Nat.mul_le_mul_left nt hi
    rw [Nat.mul_succ] at this; exact this
  rw [Nat.mul_comm n nt]; omega

theorem get2_wr {nt : Nat} (m : Array K) (r c i j : Nat) (v : K) (hc : c < nt) (hj : j < nt)
    (hb : nt*r + c < m.size) :
    get2 nt (wr m (nt*r + c) v) i j = if i = r ∧ j = c then v else get2 nt m i j := by
  unfold get2
  rw [rd_wr]
  by_cases h : i = r ∧ j = c
  · obtain ⟨rfl, rfl⟩ := h
    simp [hb]
  · have : ¬ (nt*r + c = nt*i + j ∧ nt*r + c < m.size) := by
      rintro ⟨h1, _⟩
      obtain ⟨h2, h3⟩ := flat_inj hc hj h1
      exact h ⟨h2.symm, h3.symm⟩
    rw [if_neg this, if_neg h]

/-! ### the row loops of `gj_solve` -/

theorem axpy_fold {n nt : Nat} (m : Array K) (rr k : Nat) (cc : K) (hsz : n*nt ≤ m.size)
    (hrr : rr < n) (hne : rr ≠ k) (t : Nat) (ht : t ≤ nt) :
    ((List.range t).foldl (axpyStep nt rr k cc) m).size = m.size ∧
    ∀ i j, j < nt → get2 nt ((List.range t).foldl (axpyStep nt rr k cc) m) i j =
      if i = rr ∧ j < t then get2 nt m rr j + cc * get2 nt m k j else get2 nt m i j := by
  induction t with
  | zero => simp
  | succ t ih =>
    obtain ⟨hs, hg⟩ := ih (by omega)
    rw [List.range_succ, List.foldl_append]
    simp only [List.foldl_cons, List.foldl_nil]
    generalize (List.range t).foldl (axpyStep nt rr k cc) m = m' at hs hg
    have ht' : t < nt := by omega
    have hb : nt*rr + t < m'.size := by rw [hs]; exact lt_of_lt_of_le (flat_lt hrr ht') hsz
    refine ⟨by simp [axpyStep, size_wr, hs], ?_⟩
    intro i j hj
    show get2 nt (wr m' (nt*rr + t) (get2 nt m' rr t + cc * get2 nt m' k t)) i j = _
    rw [get2_wr m' rr t i j _ ht' hj hb, hg rr t ht', hg k t ht', hg i j hj]
    have hkr : ¬ (k = rr ∧ t < t) := by omega
    have hrt : ¬ (rr = rr ∧ t < t) := by omega
    rw [if_neg hkr, if_neg hrt]
    by_cases h1 : i = rr
    · subst h1
      by_cases h2 : j = t
      · subst h2; simp
      · by_cases h3 : j < t
        · have : j < t + 1 := by omega
          simp [h2, h3, this]
        · have : ¬ j < t + 1 := by omega
          simp [h2, h3, this]
    · simp [h1]

/-- `for j in range(augCol): m[nt*rr+j] += cc*m[nt*k+j]` is the row operation `R_rr += cc·R_k` -/
theorem get2_axpyRow {n nt : Nat} (m : Array K) (rr k : Nat) (cc : K) (hsz : n*nt ≤ m.size)
    (hrr : rr < n) (hne : rr ≠ k) :
    (axpyRow nt nt rr k cc m).size = m.size ∧
    ∀ i j, j < nt → get2 nt (axpyRow nt nt rr k cc m) i j =
      if i = rr then get2 nt m rr j + cc * get2 nt m k j else get2 nt m i j := by
  obtain ⟨hs, hg⟩ := axpy_fold m rr k cc hsz hrr hne nt (le_refl _)
  refine ⟨hs, ?_⟩
  intro i j hj
  rw [axpyRow, hg i j hj]
  simp [hj]

theorem swap_fold {n nt : Nat} (m : Array K) (r1 r2 : Nat) (hsz : n*nt ≤ m.size)
    (h1 : r1 < n) (h2 : r2 < n) (hne : r2 ≠ r1) (t : Nat) (ht : t ≤ nt) :
    ((List.range t).foldl (swapStep nt r1 r2) m).size = m.size ∧
    ∀ i j, j < nt → get2 nt ((List.range t).foldl (swapStep nt r1 r2) m) i j =
      if j < t then (if i = r1 then get2 nt m r2 j else if i = r2 then get2 nt m r1 j
        else get2 nt m i j) else get2 nt m i j := by
  induction t with
  | zero => simp
  | succ t ih =>
    obtain ⟨hs, hg⟩ := ih (by omega)
    rw [List.range_succ, List.foldl_append]
    simp only [List.foldl_cons, List.foldl_nil]
    generalize (List.range t).foldl (swapStep nt r1 r2) m = m' at hs hg
    have ht' : t < nt := by omega
    have hb1 : nt*r1 + t < m'.size := by rw [hs]; exact lt_of_lt_of_le (flat_lt h1 ht') hsz
    have hb2 : nt*r2 + t < (wr m' (nt*r1 + t) (get2 nt m' r2 t)).size := by
      rw [size_wr, hs]; exact lt_of_lt_of_le (flat_lt h2 ht') hsz
    refine ⟨by simp [swapStep, size_wr, hs], ?_⟩
    intro i j hj
    show get2 nt (wr (wr m' (nt*r1 + t) (get2 nt m' r2 t)) (nt*r2 + t) (get2 nt m' r1 t)) i j = _
    rw [get2_wr _ r2 t i j _ ht' hj hb2, get2_wr m' r1 t i j _ ht' hj hb1,
      hg r2 t ht', hg r1 t ht', hg i j hj]
    simp only [lt_irrefl, if_false]
    by_cases hjt : j = t
    · subst hjt
      by_cases hi2 : i = r2
      · subst hi2; simp [hne]
      · by_cases hi1 : i = r1
        · subst hi1; simp [hi2]
        · simp [hi1, hi2]
    · by_cases h3 : j < t
      · have : j < t + 1 := by omega
        simp [hjt, h3, this]
      · have : ¬ j < t + 1 := by omega
        simp [hjt, h3, this]

/-- the exchange loop swaps rows `r1` and `r2` -/
theorem get2_swapRows {n nt : Nat} (m : Array K) (r1 r2 : Nat) (hsz : n*nt ≤ m.size)
    (h1 : r1 < n) (h2 : r2 < n) :
    (swapRows nt nt r1 r2 m).size = m.size ∧
    ∀ i j, j < nt → get2 nt (swapRows nt nt r1 r2 m) i j =
      if i = r1 then get2 nt m r2 j else if i = r2 then get2 nt m r1 j else get2 nt m i j := by
  unfold swapRows
  by_cases hne : r2 = r1
  · subst hne
    simp only [if_true, true_and]
    intro i j hj
    by_cases hi : i = r2 <;> simp [hi]
  · rw [if_neg hne]
    obtain ⟨hs, hg⟩ := swap_fold m r1 r2 hsz h1 h2 hne nt (le_refl _)
    refine ⟨hs, ?_⟩
    intro i j hj
    rw [hg i j hj, if_pos hj]

theorem scale_fold {n nt : Nat} (m : Array K) (rb : Nat) (hsz : n*nt ≤ m.size)
    (hrb : rb < n) (t : Nat) (ht : t ≤ nt - rb) :
    ((List.range' rb t).foldl (scaleStep nt nt rb) m).size = m.size ∧
    ∀ i j, j < nt → get2 nt ((List.range' rb t).foldl (scaleStep nt nt rb) m) i j =
      if i = rb ∧ nt - t ≤ j then get2 nt m rb j / get2 nt m rb rb else get2 nt m i j := by
  induction t with
  | zero =>
    refine ⟨by simp, ?_⟩
    intro i j hj
    have : ¬ (i = rb ∧ nt - 0 ≤ j) := by omega
    rw [if_neg this]; rfl
  | succ t ih =>
    obtain ⟨hs, hg⟩ := ih (by omega)
    rw [List.range'_concat, List.foldl_append]
    simp only [List.foldl_cons, List.foldl_nil, Nat.one_mul]
    generalize (List.range' rb t).foldl (scaleStep nt nt rb) m = m' at hs hg
    have hc : rb + nt - (rb + t) - 1 = nt - t - 1 := by omega
    have hc' : nt - t - 1 < nt := by omega
    have hrbnt : rb < nt := by omega
    have hb : nt*rb + (nt - t - 1) < m'.size := by
      rw [hs]; exact lt_of_lt_of_le (flat_lt hrb hc') hsz
    refine ⟨by simp [scaleStep, size_wr, hs], ?_⟩
    intro i j hj
    show get2 nt (wr m' (nt*rb + (rb + nt - (rb + t) - 1))
      (get2 nt m' rb (rb + nt - (rb + t) - 1) / get2 nt m' rb rb)) i j = _
    rw [hc, get2_wr m' rb (nt - t - 1) i j _ hc' hj hb, hg rb _ hc', hg rb rb hrbnt, hg i j hj]
    have e1 : ¬ (rb = rb ∧ nt - t ≤ nt - t - 1) := by omega
    have e2 : ¬ (rb = rb ∧ nt - t ≤ rb) := by omega
    rw [if_neg e1, if_neg e2]
    by_cases h1 : i = rb
    · subst h1
      by_cases h2 : j = nt - t - 1
      · subst h2
        have : nt - (t + 1) ≤ nt - t - 1 := by omega
        simp [this]
      · by_cases h3 : nt - t ≤ j
        · have : nt - (t + 1) ≤ j := by omega
          simp [h2, h3, this]
        · have : ¬ nt - (t + 1) ≤ j := by omega
          simp [h2, h3, this]
    · simp [h1]

/-- the (descending) scaling loop divides row `rb` from the diagonal on by the pivot -/
theorem get2_scaleRow {n nt : Nat} (m : Array K) (rb : Nat) (hsz : n*nt ≤ m.size) (hrb : rb < n)
    (hn : n ≤ nt) :
    (scaleRow nt nt rb m).size = m.size ∧
    ∀ i j, j < nt → get2 nt (scaleRow nt nt rb m) i j =
      if i = rb ∧ rb ≤ j then get2 nt m rb j / get2 nt m rb rb else get2 nt m i j := by
  obtain ⟨hs, hg⟩ := scale_fold m rb hsz hrb (nt - rb) (le_refl _)
  refine ⟨hs, ?_⟩
  intro i j hj
  rw [scaleRow, hg i j hj]
  have : nt - (nt - rb) = rb := by omega
  rw [this]

theorem up_fold {n nt : Nat} (m : Array K) (rb kup : Nat) (hsz : n*nt ≤ m.size)
    (hrb : rb < n) (hk : kup < n) (hne : kup ≠ rb) (t : Nat) (ht : t ≤ nt - rb) :
    ((List.range' rb t).foldl (upStep nt nt rb kup) m).size = m.size ∧
    ∀ i j, j < nt → get2 nt ((List.range' rb t).foldl (upStep nt nt rb kup) m) i j =
      if i = kup ∧ nt - t ≤ j then
        get2 nt m kup j + (-(get2 nt m kup rb) / get2 nt m rb rb) * get2 nt m rb j
      else get2 nt m i j := by
  induction t with
  | zero =>
    refine ⟨by simp, ?_⟩
    intro i j hj
    have : ¬ (i = kup ∧ nt - 0 ≤ j) := by omega
    rw [if_neg this]; rfl
  | succ t ih =>
    obtain ⟨hs, hg⟩ := ih (by omega)
    rw [List.range'_concat, List.foldl_append]
    simp only [List.foldl_cons, List.foldl_nil, Nat.one_mul]
    generalize (List.range' rb t).foldl (upStep nt nt rb kup) m = m' at hs hg
    have hc : rb + nt - (rb + t) - 1 = nt - t - 1 := by omega
    have hc' : nt - t - 1 < nt := by omega
    have hrbnt : rb < nt := by omega
    have hb : nt*kup + (nt - t - 1) < m'.size := by
      rw [hs]; exact lt_of_lt_of_le (flat_lt hk hc') hsz
    refine ⟨by simp [upStep, size_wr, hs], ?_⟩
    intro i j hj
    show get2 nt (wr m' (nt*kup + (rb + nt - (rb + t) - 1))
      (get2 nt m' kup (rb + nt - (rb + t) - 1) +
        (-(get2 nt m' kup rb) / get2 nt m' rb rb) * get2 nt m' rb (rb + nt - (rb + t) - 1))) i j = _
    rw [hc, get2_wr m' kup (nt - t - 1) i j _ hc' hj hb, hg kup _ hc', hg kup rb hrbnt,
      hg rb rb hrbnt, hg rb _ hc', hg i j hj]
    have e1 : ¬ (kup = kup ∧ nt - t ≤ nt - t - 1) := by omega
    have e2 : ¬ (kup = kup ∧ nt - t ≤ rb) := by omega
    have e3 : ¬ (rb = kup ∧ nt - t ≤ rb) := by omega
    have e4 : ¬ (rb = kup ∧ nt - t ≤ nt - t - 1) := by omega
    rw [if_neg e1, if_neg e2, if_neg e3, if_neg e4]
    by_cases h1 : i = kup
    · subst h1
      by_cases h2 : j = nt - t - 1
      · subst h2
        have : nt - (t + 1) ≤ nt - t - 1 := by omega
        simp [this]
      · by_cases h3 : nt - t ≤ j
        · have : nt - (t + 1) ≤ j := by omega
          simp [h2, h3, this]
        · have : ¬ nt - (t + 1) ≤ j := by omega
          simp [h2, h3, this]
    · simp [h1]

/-- one `kup` iteration of the back substitution: `R_kup += kk·R_rb` on the columns `≥ rb`,
with `kk = -m[kup,rb]/m[rb,rb]` read before the (last) write to `m[kup,rb]` -/
theorem get2_upInner {n nt : Nat} (m : Array K) (rb kup : Nat) (hsz : n*nt ≤ m.size)
    (hrb : rb < n) (hk : kup < n) (hne : kup ≠ rb) (hn : n ≤ nt) :
    ((List.range' rb (nt - rb)).foldl (upStep nt nt rb kup) m).size = m.size ∧
    ∀ i j, j < nt → get2 nt ((List.range' rb (nt - rb)).foldl (upStep nt nt rb kup) m) i j =
      if i = kup ∧ rb ≤ j then
        get2 nt m kup j + (-(get2 nt m kup rb) / get2 nt m rb rb) * get2 nt m rb j
      else get2 nt m i j := by
  obtain ⟨hs, hg⟩ := up_fold m rb kup hsz hrb hk hne (nt - rb) (le_refl _)
  refine ⟨hs, ?_⟩
  intro i j hj
  rw [hg i j hj]
  have : nt - (nt - rb) = rb := by omega
  rw [this]
