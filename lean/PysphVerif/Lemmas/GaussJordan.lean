import Mathlib.Algebra.Order.Field.Basic
import Mathlib.Algebra.BigOperators.Group.Finset.Basic
import Mathlib.Algebra.BigOperators.Ring.Finset
import Mathlib.Algebra.Order.AbsoluteValue.Basic
import Mathlib.Tactic.Ring
import Mathlib.Tactic.FieldSimp
import Mathlib.Tactic.Linarith
import PysphVerif.Model.GaussJordan
set_option linter.unusedSectionVars false
set_option linter.unusedVariables false
/-!
Helper lemmas for C13: what each loop of `Model/GaussJordan.lean` does to the
flat array, read back through the 2-D accessor `get2 nt m i j = m[nt*i + j]`.
-/
namespace PysphVerif.GaussJordan
variable {K : Type} [Field K] [LinearOrder K] [IsStrictOrderedRing K]

/-! ### flat arrays -/

theorem size_wr (a : Array K) (i : Nat) (v : K) : (wr a i v).size = a.size := by
  simp [wr]

theorem rd_wr (a : Array K) (i j : Nat) (v : K) :
    rd (wr a i v) j = if i = j ∧ i < a.size then v else rd a j := by
  simp only [rd, wr, Array.getD_eq_getD_getElem?, Array.getElem?_setIfInBounds]
  by_cases h : i = j
  · subst h
    by_cases h2 : i < a.size <;> simp [h2]
  · simp [h]

/-- `m[nt*i + j]` -/
def get2 (nt : Nat) (m : Array K) (i j : Nat) : K := rd m (nt*i + j)

/-- row-major indexing is injective on `j < nt` -/
theorem flat_inj {nt i j i' j' : Nat} (hj : j < nt) (hj' : j' < nt)
    (h : nt*i + j = nt*i' + j') : i = i' ∧ j = j' := by
  have hpos : 0 < nt := by omega
  have hi : i = i' := by
    have h1 : (nt*i + j) / nt = i := by
      rw [Nat.mul_add_div hpos, Nat.div_eq_of_lt hj]; rfl
    have h2 : (nt*i' + j') / nt = i' := by
      rw [Nat.mul_add_div hpos, Nat.div_eq_of_lt hj']; rfl
    rw [h] at h1; omega
  subst hi
  exact ⟨rfl, by omega⟩

theorem flat_lt {n nt i j : Nat} (hi : i < n) (hj : j < nt) : nt*i + j < n*nt := by
  have h1 : nt*i + nt ≤ nt*n := by
    have : nt*(i+1) ≤ nt*n := Nat.mul_le_mul_left nt hi
    rw [Nat.mul_succ] at this; exact this
  rw [Nat.mul_comm n nt]; omega

theorem get2_wr {nt : Nat} (m : Array K) (r c i j : Nat) (v : K) (hc : c < nt) (hj : j < nt)
    (hb : nt*r + c < m.size) :
    get2 nt (wr m (nt*r + c) v) i j = if i = r ∧ j = c then v else get2 nt m i j := by
  unfold get2
  rw [rd_wr]
  by_cases h : i = r ∧ j = c
  · obtain ⟨rfl, rfl⟩ := h
    simp [hb]
  · have : ¬ (nt*r + c = nt*i + j ∧ nt*r + c < m.size) := by
      rintro ⟨h1, _⟩
      obtain ⟨h2, h3⟩ := flat_inj hc hj h1
      exact h ⟨h2.symm, h3.symm⟩
    rw [if_neg this, if_neg h]

/-! ### the row loops of `gj_solve` -/

theorem axpy_fold {n nt : Nat} (m : Array K) (rr k : Nat) (cc : K) (hsz : n*nt ≤ m.size)
    (hrr : rr < n) (hne : rr ≠ k) (t : Nat) (ht : t ≤ nt) :
    ((List.range t).foldl (axpyStep nt rr k cc) m).size = m.size ∧
    ∀ i j, j < nt → get2 nt ((List.range t).foldl (axpyStep nt rr k cc) m) i j =
      if i = rr ∧ j < t then get2 nt m rr j + cc * get2 nt m k j else get2 nt m i j := by
  induction t with
  | zero => simp
  | succ t ih =>
    obtain ⟨hs, hg⟩ := ih (by omega)
    rw [List.range_succ, List.foldl_append]
    simp only [List.foldl_cons, List.foldl_nil]
    generalize (List.range t).foldl (axpyStep nt rr k cc) m = m' at hs hg
    have ht' : t < nt := by omega
    have hb : nt*rr + t < m'.size := by rw [hs]; exact lt_of_lt_of_le (flat_lt hrr ht') hsz
    refine ⟨by simp [axpyStep, size_wr, hs], ?_⟩
    intro i j hj
    show get2 nt (wr m' (nt*rr + t) (get2 nt m' rr t + cc * get2 nt m' k t)) i j = _
    rw [get2_wr m' rr t i j _ ht' hj hb, hg rr t ht', hg k t ht', hg i j hj]
    have hkr : ¬ (k = rr ∧ t < t) := by omega
    have hrt : ¬ (rr = rr ∧ t < t) := by omega
    rw [if_neg hkr, if_neg hrt]
    by_cases h1 : i = rr
    · subst h1
      by_cases h2 : j = t
      · subst h2; simp
      · by_cases h3 : j < t
        · have : j < t + 1 := by omega
          simp [h2, h3, this]
        · have : ¬ j < t + 1 := by omega
          simp [h2, h3, this]
    · simp [h1]

/-- `for j in range(augCol): m[nt*rr+j] += cc*m[nt*k+j]` is the row operation `R_rr += cc·R_k` -/
theorem get2_axpyRow {n nt : Nat} (m : Array K) (rr k : Nat) (cc : K) (hsz : n*nt ≤ m.size)
    (hrr : rr < n) (hne : rr ≠ k) :
    (axpyRow nt nt rr k cc m).size = m.size ∧
    ∀ i j, j < nt → get2 nt (axpyRow nt nt rr k cc m) i j =
      if i = rr then get2 nt m rr j + cc * get2 nt m k j else get2 nt m i j := by
  obtain ⟨hs, hg⟩ := axpy_fold m rr k cc hsz hrr hne nt (le_refl _)
  refine ⟨hs, ?_⟩
  intro i j hj
  rw [axpyRow, hg i j hj]
  simp [hj]

theorem swap_fold {n nt : Nat} (m : Array K) (r1 r2 : Nat) (hsz : n*nt ≤ m.size)
    (h1 : r1 < n) (h2 : r2 < n) (hne : r2 ≠ r1) (t : Nat) (ht : t ≤ nt) :
    ((List.range t).foldl (swapStep nt r1 r2) m).size = m.size ∧
    ∀ i j, j < nt → get2 nt ((List.range t).foldl (swapStep nt r1 r2) m) i j =
      if j < t then (if i = r1 then get2 nt m r2 j else if i = r2 then get2 nt m r1 j
        else get2 nt m i j) else get2 nt m i j := by
  induction t with
  | zero => simp
  | succ t ih =>
    obtain ⟨hs, hg⟩ := ih (by omega)
    rw [List.range_succ, List.foldl_append]
    simp only [List.foldl_cons, List.foldl_nil]
    generalize (List.range t).foldl (swapStep nt r1 r2) m = m' at hs hg
    have ht' : t < nt := by omega
    have hb1 : nt*r1 + t < m'.size := by rw [hs]; exact lt_of_lt_of_le (flat_lt h1 ht') hsz
    have hb2 : nt*r2 + t < (wr m' (nt*r1 + t) (get2 nt m' r2 t)).size := by
      rw [size_wr, hs]; exact lt_of_lt_of_le (flat_lt h2 ht') hsz
    refine ⟨by simp [swapStep, size_wr, hs], ?_⟩
    intro i j hj
    show get2 nt (wr (wr m' (nt*r1 + t) (get2 nt m' r2 t)) (nt*r2 + t) (get2 nt m' r1 t)) i j = _
    rw [get2_wr _ r2 t i j _ ht' hj hb2, get2_wr m' r1 t i j _ ht' hj hb1,
      hg r2 t ht', hg r1 t ht', hg i j hj]
    simp only [lt_irrefl, if_false]
    by_cases hjt : j = t
    · subst hjt
      by_cases hi2 : i = r2
      · subst hi2; simp [hne]
      · by_cases hi1 : i = r1
        · subst hi1; simp [hi2]
        · simp [hi1, hi2]
    · by_cases h3 : j < t
      · have : j < t + 1 := by omega
        simp [hjt, h3, this]
      · have : ¬ j < t + 1 := by omega
        simp [hjt, h3, this]

/-- the exchange loop swaps rows `r1` and `r2` -/
theorem get2_swapRows {n nt : Nat} (m : Array K) (r1 r2 : Nat) (hsz : n*nt ≤ m.size)
    (h1 : r1 < n) (h2 : r2 < n) :
    (swapRows nt nt r1 r2 m).size = m.size ∧
    ∀ i j, j < nt → get2 nt (swapRows nt nt r1 r2 m) i j =
      if i = r1 then get2 nt m r2 j else if i = r2 then get2 nt m r1 j else get2 nt m i j := by
  unfold swapRows
  by_cases hne : r2 = r1
  · subst hne
    simp only [if_true, true_and]
    intro i j hj
    by_cases hi : i = r2 <;> simp [hi]
  · rw [if_neg hne]
    obtain ⟨hs, hg⟩ := swap_fold m r1 r2 hsz h1 h2 hne nt (le_refl _)
    refine ⟨hs, ?_⟩
    intro i j hj
    rw [hg i j hj, if_pos hj]

theorem scale_fold {n nt : Nat} (m : Array K) (rb : Nat) (hsz : n*nt ≤ m.size)
    (hrb : rb < n) (t : Nat) (ht : t ≤ nt - rb) :
    ((List.range' rb t).foldl (scaleStep nt nt rb) m).size = m.size ∧
    ∀ i j, j < nt → get2 nt ((List.range' rb t).foldl (scaleStep nt nt rb) m) i j =
      if i = rb ∧ nt - t ≤ j then get2 nt m rb j / get2 nt m rb rb else get2 nt m i j := by
  induction t with
  | zero =>
    refine ⟨by simp, ?_⟩
    intro i j hj
    have : ¬ (i = rb ∧ nt - 0 ≤ j) := by omega
    rw [if_neg this]; rfl
  | succ t ih =>
    obtain ⟨hs, hg⟩ := ih (by omega)
    rw [List.range'_concat, List.foldl_append]
    simp only [List.foldl_cons, List.foldl_nil, Nat.one_mul]
    generalize (List.range' rb t).foldl (scaleStep nt nt rb) m = m' at hs hg
    have hc : rb + nt - (rb + t) - 1 = nt - t - 1 := by omega
    have hc' : nt - t - 1 < nt := by omega
    have hrbnt : rb < nt := by omega
    have hb : nt*rb + (nt - t - 1) < m'.size := by
      rw [hs]; exact lt_of_lt_of_le (flat_lt hrb hc') hsz
    refine ⟨by simp [scaleStep, size_wr, hs], ?_⟩
    intro i j hj
    show get2 nt (wr m' (nt*rb + (rb + nt - (rb + t) - 1))
      (get2 nt m' rb (rb + nt - (rb + t) - 1) / get2 nt m' rb rb)) i j = _
    rw [hc, get2_wr m' rb (nt - t - 1) i j _ hc' hj hb, hg rb _ hc', hg rb rb hrbnt, hg i j hj]
    have e1 : ¬ (rb = rb ∧ nt - t ≤ nt - t - 1) := by omega
    have e2 : ¬ (rb = rb ∧ nt - t ≤ rb) := by omega
    rw [if_neg e1, if_neg e2]
    by_cases h1 : i = rb
    · subst h1
      by_cases h2 : j = nt - t - 1
      · subst h2
        have : nt - (t + 1) ≤ nt - t - 1 := by omega
        simp [this]
      · by_cases h3 : nt - t ≤ j
        · have : nt - (t + 1) ≤ j := by omega
          simp [h2, h3, this]
        · have : ¬ nt - (t + 1) ≤ j := by omega
          simp [h2, h3, this]
    · simp [h1]

/-- the (descending) scaling loop divides row `rb` from the diagonal on by the pivot -/
theorem get2_scaleRow {n nt : Nat} (m : Array K) (rb : Nat) (hsz : n*nt ≤ m.size) (hrb : rb < n)
    (hn : n ≤ nt) :
    (scaleRow nt nt rb m).size = m.size ∧
    ∀ i j, j < nt → get2 nt (scaleRow nt nt rb m) i j =
      if i = rb ∧ rb ≤ j then get2 nt m rb j / get2 nt m rb rb else get2 nt m i j := by
  obtain ⟨hs, hg⟩ := scale_fold m rb hsz hrb (nt - rb) (le_refl _)
  refine ⟨hs, ?_⟩
  intro i j hj
  rw [scaleRow, hg i j hj]
  have : nt - (nt - rb) = rb := by omega
  rw [this]

theorem up_fold {n nt : Nat} (m : Array K) (rb kup : Nat) (hsz : n*nt ≤ m.size)
    (hrb : rb < n) (hk : kup < n) (hne : kup ≠ rb) (t : Nat) (ht : t ≤ nt - rb) :
    ((List.range' rb t).foldl (upStep nt nt rb kup) m).size = m.size ∧
    ∀ i j, j < nt → get2 nt ((List.range' rb t).foldl (upStep nt nt rb kup) m) i j =
      if i = kup ∧ nt - t ≤ j then
        get2 nt m kup j + (-(get2 nt m kup rb) / get2 nt m rb rb) * get2 nt m rb j
      else get2 nt m i j := by
  induction t with
  | zero =>
    refine ⟨by simp, ?_⟩
    intro i j hj
    have : ¬ (i = kup ∧ nt - 0 ≤ j) := by omega
    rw [if_neg this]; rfl
  | succ t ih =>
    obtain ⟨hs, hg⟩ := ih (by omega)
    rw [List.range'_concat, List.foldl_append]
    simp only [List.foldl_cons, List.foldl_nil, Nat.one_mul]
    generalize (List.range' rb t).foldl (upStep nt nt rb kup) m = m' at hs hg
    have hc : rb + nt - (rb + t) - 1 = nt - t - 1 := by omega
    have hc' : nt - t - 1 < nt := by omega
    have hrbnt : rb < nt := by omega
    have hb : nt*kup + (nt - t - 1) < m'.size := by
      rw [hs]; exact lt_of_lt_of_le (flat_lt hk hc') hsz
    refine ⟨by simp [upStep, size_wr, hs], ?_⟩
    intro i j hj
    show get2 nt (wr m' (nt*kup + (rb + nt - (rb + t) - 1))
      (get2 nt m' kup (rb + nt - (rb + t) - 1) +
        (-(get2 nt m' kup rb) / get2 nt m' rb rb) * get2 nt m' rb (rb + nt - (rb + t) - 1))) i j = _
    rw [hc, get2_wr m' kup (nt - t - 1) i j _ hc' hj hb, hg kup _ hc', hg kup rb hrbnt,
      hg rb rb hrbnt, hg rb _ hc', hg i j hj]
    have e1 : ¬ (kup = kup ∧ nt - t ≤ nt - t - 1) := by omega
    have e2 : ¬ (kup = kup ∧ nt - t ≤ rb) := by omega
    have e3 : ¬ (rb = kup ∧ nt - t ≤ rb) := by omega
    have e4 : ¬ (rb = kup ∧ nt - t ≤ nt - t - 1) := by omega
    rw [if_neg e1, if_neg e2, if_neg e3, if_neg e4]
    by_cases h1 : i = kup
    · subst h1
      by_cases h2 : j = nt - t - 1
      · subst h2
        have : nt - (t + 1) ≤ nt - t - 1 := by omega
        simp [this]
      · by_cases h3 : nt - t ≤ j
        · have : nt - (t + 1) ≤ j := by omega
          simp [h2, h3, this]
        · have : ¬ nt - (t + 1) ≤ j := by omega
          simp [h2, h3, this]
    · simp [h1]

/-- one `kup` iteration of the back substitution: `R_kup += kk·R_rb` on the columns `≥ rb`,
with `kk = -m[kup,rb]/m[rb,rb]` read before the (last) write to `m[kup,rb]` -/
theorem get2_upInner {n nt : Nat} (m : Array K) (rb kup : Nat) (hsz : n*nt ≤ m.size)
    (hrb : rb < n) (hk : kup < n) (hne : kup ≠ rb) (hn : n ≤ nt) :
    ((List.range' rb (nt - rb)).foldl (upStep nt nt rb kup) m).size = m.size ∧
    ∀ i j, j < nt → get2 nt ((List.range' rb (nt - rb)).foldl (upStep nt nt rb kup) m) i j =
      if i = kup ∧ rb ≤ j then
        get2 nt m kup j + (-(get2 nt m kup rb) / get2 nt m rb rb) * get2 nt m rb j
      else get2 nt m i j := by
  obtain ⟨hs, hg⟩ := up_fold m rb kup hsz hrb hk hne (nt - rb) (le_refl _)
  refine ⟨hs, ?_⟩
  intro i j hj
  rw [hg i j hj]
  have : nt - (nt - rb) = rb := by omega
  rw [this]

/-! ### systems of equations and elementary row operations (on the 2-D view) -/


/-- `x` solves the equations of the augmented matrix `M` whose right-hand side is column `c` -/
def Sol (n : Nat) (M : Nat → Nat → K) (x : Nat → K) (c : Nat) : Prop :=
  ∀ i, i < n → ∑ j ∈ Finset.range n, M i j * x j = M i c

/-- entries of the columns `< k` below the diagonal vanish -/
def LowerZero (n : Nat) (M : Nat → Nat → K) (k : Nat) : Prop :=
  ∀ i j, i < n → j < k → j < i → M i j = 0

/-- `M'` arises from `M` by elementary row operations on the first `n` rows, `nt` columns -/
inductive RowOps (n nt : Nat) (M : Nat → Nat → K) : (Nat → Nat → K) → Prop
  | refl (M' : Nat → Nat → K) :
      (∀ i j, i < n → j < nt → M' i j = M i j) → RowOps n nt M M'
  | axpy (M' M'' : Nat → Nat → K) (rr k : Nat) (cc : K) :
      RowOps n nt M M' → rr < n → k < n → rr ≠ k →
      (∀ i j, i < n → j < nt → M'' i j = if i = rr then M' rr j + cc * M' k j else M' i j) →
      RowOps n nt M M''
  | swap (M' M'' : Nat → Nat → K) (r1 r2 : Nat) :
      RowOps n nt M M' → r1 < n → r2 < n →
      (∀ i j, i < n → j < nt → M'' i j =
        if i = r1 then M' r2 j else if i = r2 then M' r1 j else M' i j) →
      RowOps n nt M M''
  | scale (M' M'' : Nat → Nat → K) (rb : Nat) (p : K) :
      RowOps n nt M M' → rb < n → p ≠ 0 →
      (∀ i j, i < n → j < nt → M'' i j = if i = rb then M' rb j / p else M' i j) →
      RowOps n nt M M''

/-- replacing the target by a matrix that agrees with it on the `n × nt` window -/
theorem RowOps.congr {n nt : Nat} {M M' M'' : Nat → Nat → K} (h1 : RowOps n nt M M')
    (h : ∀ i j, i < n → j < nt → M'' i j = M' i j) : RowOps n nt M M'' := by
  cases h1 with
  | refl _ h0 => exact RowOps.refl _ (fun i j hi hj => by rw [h i j hi hj, h0 i j hi hj])
  | axpy A1 _ rr k cc h0 hr hk hne he =>
    exact RowOps.axpy A1 _ rr k cc h0 hr hk hne
      (fun i j hi hj => by rw [h i j hi hj, he i j hi hj])
  | swap A1 _ r1 r2 h0 hr1 hr2 he =>
    exact RowOps.swap A1 _ r1 r2 h0 hr1 hr2
      (fun i j hi hj => by rw [h i j hi hj, he i j hi hj])
  | scale A1 _ rb p h0 hr hp he =>
    exact RowOps.scale A1 _ rb p h0 hr hp
      (fun i j hi hj => by rw [h i j hi hj, he i j hi hj])

theorem RowOps.trans {n nt : Nat} {M M' M'' : Nat → Nat → K}
    (h1 : RowOps n nt M M') (h2 : RowOps n nt M' M'') : RowOps n nt M M'' := by
  induction h2 with
  | refl B h => exact h1.congr h
  | axpy B C rr k cc _ hr hk hne he ih => exact RowOps.axpy _ _ rr k cc ih hr hk hne he
  | swap B C r1 r2 _ hr1 hr2 he ih => exact RowOps.swap _ _ r1 r2 ih hr1 hr2 he
  | scale B C rb p _ hr hp he ih => exact RowOps.scale _ _ rb p ih hr hp he

/-- every solution of the transformed system solves the original one -/
theorem RowOps.sol {n nt : Nat} (hn : n ≤ nt) {M M' : Nat → Nat → K} (h : RowOps n nt M M')
    (x : Nat → K) (c : Nat) (hc : c < nt) (hx : Sol n M' x c) : Sol n M x c := by
  induction h with
  | refl B h =>
    intro i hi
    rw [← h i c hi hc, ← hx i hi]
    exact Finset.sum_congr rfl (fun j hj => by
      rw [h i j hi (lt_of_lt_of_le (Finset.mem_range.mp hj) hn)])
  | axpy B C rr k cc _ hr hk hne he ih =>
    apply ih
    intro i hi
    have hrowk : ∑ j ∈ Finset.range n, B k j * x j = B k c := by
      have := hx k hk
      rw [he k c hk hc, if_neg (Ne.symm hne)] at this
      rw [← this]
      exact Finset.sum_congr rfl (fun j hj => by
        rw [he k j hk (lt_of_lt_of_le (Finset.mem_range.mp hj) hn), if_neg (Ne.symm hne)])
    by_cases hir : i = rr
    · subst hir
      have h1 := hx i hi
      rw [he i c hi hc, if_pos rfl] at h1
      have h2 : ∑ j ∈ Finset.range n, C i j * x j =
          ∑ j ∈ Finset.range n, B i j * x j + cc * ∑ j ∈ Finset.range n, B k j * x j := by
        rw [Finset.mul_sum, ← Finset.sum_add_distrib]
        exact Finset.sum_congr rfl (fun j hj => by
          rw [he i j hi (lt_of_lt_of_le (Finset.mem_range.mp hj) hn), if_pos rfl]; ring)
      rw [h2, hrowk] at h1
      linarith
    · have h1 := hx i hi
      rw [he i c hi hc, if_neg hir] at h1
      rw [← h1]
      exact Finset.sum_congr rfl (fun j hj => by
        rw [he i j hi (lt_of_lt_of_le (Finset.mem_range.mp hj) hn), if_neg hir])
  | swap B C r1 r2 _ hr1 hr2 he ih =>
    apply ih
    intro i hi
    -- row i of B is some row of C
    have key : ∀ a b, a < n → b < n → (∀ j, j < nt → C a j = B b j) →
        ∑ j ∈ Finset.range n, B b j * x j = B b c := by
      intro a b ha hb hab
      have := hx a ha
      rw [hab c hc] at this
      rw [← this]
      exact Finset.sum_congr rfl (fun j hj => by
        rw [hab j (lt_of_lt_of_le (Finset.mem_range.mp hj) hn)])
    by_cases h1 : i = r1
    · subst h1
      by_cases h2 : r2 = i
      · subst h2
        exact key r2 r2 hi hi (fun j hj => by rw [he r2 j hi hj, if_pos rfl])
      · exact key r2 i hr2 hi (fun j hj => by
          rw [he r2 j hr2 hj, if_neg h2, if_pos rfl])
    · by_cases h2 : i = r2
      · subst h2
        exact key r1 i hr1 hi (fun j hj => by rw [he r1 j hr1 hj, if_pos rfl])
      · exact key i i hi hi (fun j hj => by rw [he i j hi hj, if_neg h1, if_neg h2])
  | scale B C rb p _ hr hp he ih =>
    apply ih
    intro i hi
    by_cases hir : i = rb
    · subst hir
      have h1 := hx i hi
      rw [he i c hi hc, if_pos rfl] at h1
      have h2 : ∑ j ∈ Finset.range n, C i j * x j =
          p⁻¹ * (∑ j ∈ Finset.range n, B i j * x j) := by
        rw [Finset.mul_sum]
        exact Finset.sum_congr rfl (fun j hj => by
          rw [he i j hi (lt_of_lt_of_le (Finset.mem_range.mp hj) hn), if_pos rfl]; ring)
      rw [h2] at h1
      field_simp at h1
      linarith
    · have h1 := hx i hi
      rw [he i c hi hc, if_neg hir] at h1
      rw [← h1]
      exact Finset.sum_congr rfl (fun j hj => by
        rw [he i j hi (lt_of_lt_of_le (Finset.mem_range.mp hj) hn), if_neg hir])

/-! ### forward elimination with partial pivoting -/

theorem absv_eq_abs (x : K) : absv x = |x| := by
  unfold absv
  by_cases h : x < 0
  · rw [if_pos h, abs_of_neg h]
  · rw [if_neg h, abs_of_nonneg (not_lt.mp h)]

theorem pivot_fold {nt : Nat} (m : Array K) (k t : Nat) :
    let b := (List.range' (k+1) t).foldl (pivotStep m nt k) k
    k ≤ b ∧ b < k + 1 + t ∧ ∀ i, k ≤ i → i < k + 1 + t → |get2 nt m i k| ≤ |get2 nt m b k| := by
  induction t with
  | zero =>
    refine ⟨le_refl _, by simp, ?_⟩
    intro i h1 h2
    have : i = k := by omega
    subst this; simp
  | succ t ih =>
    obtain ⟨h1, h2, h3⟩ := ih
    rw [List.range'_concat, List.foldl_append]
    simp only [List.foldl_cons, List.foldl_nil, Nat.one_mul]
    generalize (List.range' (k+1) t).foldl (pivotStep m nt k) k = b at h1 h2 h3
    unfold pivotStep
    rw [absv_eq_abs, absv_eq_abs]
    by_cases hlt : |rd m (nt * b + k)| < |rd m (nt * (k + 1 + t) + k)|
    · rw [if_pos hlt]
      refine ⟨by omega, by omega, ?_⟩
      intro i hi1 hi2
      by_cases hi : i = k+1+t
      · rw [hi]
      · exact le_trans (h3 i hi1 (by omega)) (le_of_lt hlt)
    · rw [if_neg hlt]
      refine ⟨h1, by omega, ?_⟩
      intro i hi1 hi2
      by_cases hi : i = k+1+t
      · rw [hi]; exact not_lt.mp hlt
      · exact h3 i hi1 (by omega)

/-- the pivot search returns a row `k ≤ b < n` whose entry in column `k` is largest in
absolute value among the rows `k..n-1` -/
theorem pivotRow_spec {n nt : Nat} (m : Array K) (k : Nat) (hk : k < n) :
    k ≤ pivotRow m nt n k ∧ pivotRow m nt n k < n ∧
    ∀ i, k ≤ i → i < n → |get2 nt m i k| ≤ |get2 nt m (pivotRow m nt n k) k| := by
  obtain ⟨h1, h2, h3⟩ := pivot_fold (nt := nt) m k (n - (k+1))
  refine ⟨h1, by unfold pivotRow; omega, ?_⟩
  intro i hi1 hi2
  exact h3 i hi1 (by omega)

theorem elim_fold {n nt : Nat} (tol : K) (htol : 0 < tol) (hn : n ≤ nt) (m : Array K) (k : Nat)
    (hsz : n*nt ≤ m.size) (hk : k < n) (hlz : LowerZero n (get2 nt m) k)
    (t : Nat) (ht : t ≤ n - (k+1)) :
    match (List.range' (k+1) t).foldl (elimStep tol nt nt k) (some m) with
    | none => 0 < t ∧ |get2 nt m k k| < tol
    | some m' => m'.size = m.size ∧ RowOps n nt (get2 nt m) (get2 nt m') ∧
        (∀ i j, i ≤ k → j < nt → get2 nt m' i j = get2 nt m i j) ∧
        LowerZero n (get2 nt m') k ∧ (∀ i, k < i → i < k+1+t → get2 nt m' i k = 0) ∧
        (0 < t → ¬ |get2 nt m k k| < tol) := by
  induction t with
  | zero =>
    simp only [List.range'_zero, List.foldl_nil]
    refine ⟨by simp, RowOps.refl _ (fun _ _ _ _ => rfl), by simp, hlz, ?_, ?_⟩
    · intro i h1 h2; omega
    · intro h; omega
  | succ t ih =>
    have ih := ih (by omega)
    rw [List.range'_concat, List.foldl_append]
    simp only [List.foldl_cons, List.foldl_nil, Nat.one_mul]
    cases hprev : (List.range' (k+1) t).foldl (elimStep tol nt nt k) (some m) with
    | none =>
      rw [hprev] at ih
      simp only [elimStep]
      exact ⟨by omega, ih.2⟩
    | some m' =>
      rw [hprev] at ih
      obtain ⟨hs, hro, hrows, hlz', hcol, hpiv⟩ := ih
      have hrr : k + 1 + t < n := by omega
      have hknt : k < nt := by omega
      have hdk : get2 nt m' k k = get2 nt m k k := hrows k k (le_refl _) hknt
      simp only [elimStep]
      show (match (if absv (get2 nt m' k k) < tol then none else
        some (axpyRow nt nt (k+1+t) k (-(get2 nt m' (k+1+t) k) / get2 nt m' k k) m')) with
        | none => _ | some m'' => _)
      rw [absv_eq_abs, hdk]
      by_cases hd : |get2 nt m k k| < tol
      · rw [if_pos hd]
        exact ⟨by omega, hd⟩
      · rw [if_neg hd]
        have hdne : get2 nt m k k ≠ 0 := by
          intro h0; rw [h0, abs_zero] at hd; exact hd htol
        obtain ⟨hs2, hg2⟩ := get2_axpyRow (n := n) m' (k+1+t) k
          (-(get2 nt m' (k+1+t) k) / get2 nt m k k) (by rw [hs]; exact hsz) hrr (by omega)
        refine ⟨by rw [hs2, hs], ?_, ?_, ?_, ?_, fun _ => hd⟩
        · exact RowOps.axpy _ _ (k+1+t) k _ hro hrr hk (by omega)
            (fun i j hi hj => hg2 i j hj)
        · intro i j hi hj
          show get2 nt _ i j = _
          rw [hg2 i j hj, if_neg (by omega)]
          exact hrows i j hi hj
        · intro i j hi hj hji
          show get2 nt _ i j = 0
          rw [hg2 i j (by omega)]
          by_cases hir : i = k+1+t
          · rw [if_pos hir]
            have e1 : get2 nt m' (k+1+t) j = 0 := hlz' (k+1+t) j hrr hj (by omega)
            have e2 : get2 nt m' k j = 0 := hlz' k j hk hj hj
            rw [e1, e2]; ring
          · rw [if_neg hir]; exact hlz' i j hi hj hji
        · intro i hi1 hi2
          show get2 nt _ i k = 0
          rw [hg2 i k hknt]
          by_cases hir : i = k+1+t
          · rw [if_pos hir, hdk]
            field_simp
            ring
          · rw [if_neg hir]; exact hcol i hi1 (by omega)

/-- invariant of the forward loop once the columns `< k` are done -/
structure FwdInv (n nt : Nat) (tol : K) (m0 m : Array K) (k : Nat) : Prop where
  size : m.size = m0.size
  ops : RowOps n nt (get2 nt m0) (get2 nt m)
  lz : LowerZero n (get2 nt m) k
  piv : ∀ k', k' < k → k' + 1 < n → ¬ |get2 nt m k' k'| < tol

/-- why the forward loop gave up: at some column `k` (not the last) every candidate
pivot of the reduced matrix is below `tol` -/
def TinyColumn (n nt : Nat) (tol : K) (m0 : Array K) : Prop :=
  ∃ k mk, k + 1 < n ∧ FwdInv n nt tol m0 mk k ∧
    ∀ i, k ≤ i → i < n → |get2 nt mk i k| < tol

theorem forward_fold {n nb : Nat} (tol : K) (htol : 0 < tol) (m0 : Array K)
    (hsz : n*(n+nb) ≤ m0.size) (t : Nat) (ht : t ≤ n) :
    match (List.range t).foldl (fwdStep tol n nb) (some m0) with
    | none => TinyColumn n (n+nb) tol m0
    | some m => FwdInv n (n+nb) tol m0 m t := by
  induction t with
  | zero =>
    simp only [List.range_zero, List.foldl_nil]
    exact ⟨rfl, RowOps.refl _ (fun _ _ _ _ => rfl), fun i j _ hj _ => by omega,
      fun k' hk' _ => by omega⟩
  | succ t ih =>
    have ih := ih (by omega)
    rw [List.range_succ, List.foldl_append]
    simp only [List.foldl_cons, List.foldl_nil]
    cases hprev : (List.range t).foldl (fwdStep tol n nb) (some m0) with
    | none =>
      rw [hprev] at ih
      exact ih
    | some m =>
      rw [hprev] at ih
      have htn : t < n := by omega
      have hn : n ≤ n + nb := by omega
      have hszm : n*(n+nb) ≤ m.size := by rw [ih.size]; exact hsz
      obtain ⟨hb1, hb2, hbmax⟩ := pivotRow_spec (nt := n+nb) m t htn
      obtain ⟨hs1, hg1⟩ := get2_swapRows (n := n) (nt := n+nb) m t (pivotRow m (n+nb) n t)
        hszm htn hb2
      simp only [fwdStep, elimBelow]
      generalize hbdef : pivotRow m (n+nb) n t = b at hb1 hb2 hbmax hs1 hg1
      generalize hm1 : swapRows (n+nb) (n+nb) t b m = m1 at hs1 hg1
      have hlz1 : LowerZero n (get2 (n+nb) m1) t := by
        intro i j hi hj hji
        show get2 (n+nb) m1 i j = 0
        rw [hg1 i j (by omega)]
        by_cases h1 : i = t
        · rw [if_pos h1]; exact ih.lz b j hb2 hj (by omega)
        · rw [if_neg h1]
          by_cases h2 : i = b
          · rw [if_pos h2]; exact ih.lz t j htn hj hj
          · rw [if_neg h2]; exact ih.lz i j hi hj hji
      have hops1 : RowOps n (n+nb) (get2 (n+nb) m0) (get2 (n+nb) m1) :=
        RowOps.swap _ _ t b ih.ops htn hb2 (fun i j hi hj => hg1 i j hj)
      have hel := elim_fold tol htol hn m1 t (by rw [hs1]; exact hszm) htn hlz1
        (n - (t+1)) (le_refl _)
      cases hres : (List.range' (t+1) (n - (t+1))).foldl (elimStep tol (n+nb) (n+nb) t) (some m1) with
      | none =>
        rw [hres] at hel
        obtain ⟨hpos, htiny⟩ := hel
        refine ⟨t, m, by omega, ih, ?_⟩
        intro i hi1 hi2
        have e : get2 (n+nb) m1 t t = get2 (n+nb) m b t := by
          show get2 (n+nb) m1 t t = _
          rw [hg1 t t (by omega), if_pos rfl]
        rw [e] at htiny
        exact lt_of_le_of_lt (hbmax i hi1 hi2) htiny
      | some m' =>
        rw [hres] at hel
        obtain ⟨hs, hro, hrows, hlz', hcol, hpiv⟩ := hel
        refine ⟨by rw [hs, hs1, ih.size], hops1.trans hro, ?_, ?_⟩
        · intro i j hi hj hji
          by_cases hjt : j = t
          · subst hjt; exact hcol i hji (by omega)
          · exact hlz' i j hi (by omega) hji
        · intro k' hk' hk'n
          by_cases hkt : k' = t
          · subst hkt
            rw [hrows k' k' (le_refl _) (by omega)]
            exact hpiv (by omega)
          · rw [hrows k' k' (by omega) (by omega)]
            have e : get2 (n+nb) m1 k' k' = get2 (n+nb) m k' k' := by
              show get2 (n+nb) m1 k' k' = _
              rw [hg1 k' k' (by omega), if_neg hkt, if_neg (by omega)]
            rw [e]
            exact ih.piv k' (by omega) hk'n

/-- the forward phase of the repaired code: either it reduces the system to upper
triangular form by row operations, with every pivot but possibly the last `≥ tol`, or it
stops at a column all of whose candidate pivots are below `tol` -/
theorem forward_spec {n nb : Nat} (tol : K) (htol : 0 < tol) (m0 : Array K)
    (hsz : n*(n+nb) ≤ m0.size) :
    match forward tol n nb m0 with
    | none => TinyColumn n (n+nb) tol m0
    | some m => FwdInv n (n+nb) tol m0 m n :=
  forward_fold tol htol m0 hsz n (le_refl _)

/-! ### back substitution -/

theorem up_fold_all {n nt : Nat} (m1 : Array K) (rb : Nat) (hsz : n*nt ≤ m1.size)
    (hrb : rb < n) (hn : n ≤ nt) (hz : ∀ j, j < rb → get2 nt m1 rb j = 0)
    (s : Nat) (hs : s ≤ rb) :
    ((List.range s).foldl (upRow nt nt rb) m1).size = m1.size ∧
    RowOps n nt (get2 nt m1) (get2 nt ((List.range s).foldl (upRow nt nt rb) m1)) ∧
    ∀ i j, j < nt → get2 nt ((List.range s).foldl (upRow nt nt rb) m1) i j =
      if rb - s ≤ i ∧ i < rb ∧ rb ≤ j then
        get2 nt m1 i j + (-(get2 nt m1 i rb) / get2 nt m1 rb rb) * get2 nt m1 rb j
      else get2 nt m1 i j := by
  induction s with
  | zero =>
    refine ⟨by simp, RowOps.refl _ (fun _ _ _ _ => rfl), ?_⟩
    intro i j hj
    have : ¬ (rb - 0 ≤ i ∧ i < rb ∧ rb ≤ j) := by omega
    rw [if_neg this]; rfl
  | succ s ih =>
    obtain ⟨hsize, hro, hg⟩ := ih (by omega)
    rw [List.range_succ, List.foldl_append]
    simp only [List.foldl_cons, List.foldl_nil]
    generalize (List.range s).foldl (upRow nt nt rb) m1 = m at hsize hro hg
    have hkup : rb - s - 1 < n := by omega
    obtain ⟨hs2, hg2⟩ := get2_upInner (n := n) m rb (rb - s - 1) (by rw [hsize]; exact hsz)
      hrb hkup (by omega) hn
    have hrbnt : rb < nt := by omega
    -- rows `kup` and `rb` of the current matrix are still those of `m1`
    have ek : ∀ j, j < nt → get2 nt m (rb - s - 1) j = get2 nt m1 (rb - s - 1) j := by
      intro j hj; rw [hg _ j hj, if_neg (by omega)]
    have er : ∀ j, j < nt → get2 nt m rb j = get2 nt m1 rb j := by
      intro j hj; rw [hg _ j hj, if_neg (by omega)]
    refine ⟨by simp only [upRow]; rw [hs2, hsize], ?_, ?_⟩
    · refine hro.trans (RowOps.axpy _ _ (rb - s - 1) rb
        (-(get2 nt m1 (rb - s - 1) rb) / get2 nt m1 rb rb)
        (RowOps.refl _ (fun _ _ _ _ => rfl)) hkup hrb (by omega) ?_)
      intro i j hi hj
      show get2 nt (upRow nt nt rb m s) i j = _
      simp only [upRow]
      rw [hg2 i j hj]
      by_cases h1 : i = rb - s - 1
      · rw [if_pos h1]
        by_cases h2 : rb ≤ j
        · rw [if_pos ⟨h1, h2⟩, ek rb hrbnt, er rb hrbnt]
        · rw [if_neg (by omega)]
          have : get2 nt m rb j = 0 := by rw [er j hj]; exact hz j (by omega)
          show get2 nt m i j = get2 nt m (rb - s - 1) j + _ * get2 nt m rb j
          rw [this, h1]; ring
      · rw [if_neg (by omega), if_neg h1]
    · intro i j hj
      simp only [upRow]
      rw [hg2 i j hj]
      by_cases h1 : i = rb - s - 1
      · subst h1
        by_cases h2 : rb ≤ j
        · rw [if_pos ⟨rfl, h2⟩, if_pos ⟨by omega, by omega, h2⟩, ek j hj, ek rb hrbnt,
            er rb hrbnt, er j hj]
        · rw [if_neg (by omega), if_neg (by omega)]; exact ek j hj
      · rw [if_neg (by omega), hg i j hj]
        by_cases h3 : rb - s ≤ i ∧ i < rb ∧ rb ≤ j
        · rw [if_pos h3, if_pos ⟨by omega, h3.2.1, h3.2.2⟩]
        · rw [if_neg h3, if_neg (by omega)]

/-- `upAll`: every row above `rb` gets `-m[i,rb]/m[rb,rb]` times row `rb` added (on the
columns `≥ rb`; row `rb` vanishes left of the diagonal, so this is a row operation) -/
theorem upAll_spec {n nt : Nat} (m1 : Array K) (rb : Nat) (hsz : n*nt ≤ m1.size)
    (hrb : rb < n) (hn : n ≤ nt) (hz : ∀ j, j < rb → get2 nt m1 rb j = 0) :
    (upAll nt nt rb m1).size = m1.size ∧
    RowOps n nt (get2 nt m1) (get2 nt (upAll nt nt rb m1)) ∧
    ∀ i j, j < nt → get2 nt (upAll nt nt rb m1) i j =
      if i < rb ∧ rb ≤ j then
        get2 nt m1 i j + (-(get2 nt m1 i rb) / get2 nt m1 rb rb) * get2 nt m1 rb j
      else get2 nt m1 i j := by
  unfold upAll
  by_cases h0 : rb = 0
  · rw [if_pos h0]
    refine ⟨rfl, RowOps.refl _ (fun _ _ _ _ => rfl), ?_⟩
    intro i j hj
    rw [if_neg (by omega)]
  · rw [if_neg h0]
    obtain ⟨h1, h2, h3⟩ := up_fold_all (n := n) m1 rb hsz hrb hn hz rb (le_refl _)
    refine ⟨h1, h2, ?_⟩
    intro i j hj
    rw [h3 i j hj]
    by_cases h : i < rb ∧ rb ≤ j
    · rw [if_pos h, if_pos ⟨by omega, h.1, h.2⟩]
    · rw [if_neg h, if_neg (by omega)]

/-- invariant of the back substitution after `t` rows (from the bottom) -/
structure BackInv (n nt : Nat) (m1 m : Array K) (t : Nat) : Prop where
  size : m.size = m1.size
  ops : RowOps n nt (get2 nt m1) (get2 nt m)
  lz : LowerZero n (get2 nt m) n
  done : ∀ c, n - t ≤ c → c < n → ∀ i, i < n → get2 nt m i c = if i = c then 1 else 0
  diag : ∀ i, i < n - t → get2 nt m i i = get2 nt m1 i i

theorem back_fold {n nb : Nat} (tol : K) (m1 : Array K) (hsz : n*(n+nb) ≤ m1.size)
    (hlz : LowerZero n (get2 (n+nb) m1) n) (hd : ∀ i, i < n → get2 (n+nb) m1 i i ≠ 0)
    (t : Nat) (ht : t ≤ n) :
    ∃ m, (List.range t).foldl (backStep tol n nb) (some m1) = some m ∧
      BackInv n (n+nb) m1 m t := by
  induction t with
  | zero =>
    refine ⟨m1, rfl, rfl, RowOps.refl _ (fun _ _ _ _ => rfl), hlz, ?_, fun _ _ => rfl⟩
    intro c h1 h2; omega
  | succ t ih =>
    obtain ⟨m, hfold, inv⟩ := ih (by omega)
    rw [List.range_succ, List.foldl_append, hfold]
    simp only [List.foldl_cons, List.foldl_nil, backStep]
    have hn : n ≤ n + nb := by omega
    have hrb : n - t - 1 < n := by omega
    generalize hrbdef : n - t - 1 = rb at hrb
    have hrbnt : rb < n + nb := by omega
    have hszm : n*(n+nb) ≤ m.size := by rw [inv.size]; exact hsz
    have hp : get2 (n+nb) m rb rb ≠ 0 := by
      have := inv.diag rb (by omega)
      show get2 (n+nb) m rb rb ≠ 0
      rw [this]; exact hd rb hrb
    have hbeq : (rd m ((n+nb)*rb + rb) == (0:K)) = false := beq_false_of_ne hp
    rw [hbeq]
    simp only [Bool.false_eq_true, if_false]
    obtain ⟨hs2, hg2⟩ := get2_scaleRow (n := n) m rb hszm hrb hn
    generalize hm2 : scaleRow (n+nb) (n+nb) rb m = m2 at hs2 hg2
    have hrowz : ∀ j, j < rb → get2 (n+nb) m rb j = 0 :=
      fun j hj => inv.lz rb j hrb (by omega) hj
    -- the scaling is a row operation because row rb vanishes left of the diagonal
    have hops2 : RowOps n (n+nb) (get2 (n+nb) m) (get2 (n+nb) m2) := by
      refine RowOps.scale _ _ rb (get2 (n+nb) m rb rb) (RowOps.refl _ (fun _ _ _ _ => rfl))
        hrb hp ?_
      intro i j hi hj
      show get2 (n+nb) m2 i j = _
      rw [hg2 i j hj]
      by_cases h1 : i = rb
      · subst h1
        by_cases h2 : i ≤ j
        · rw [if_pos ⟨rfl, h2⟩, if_pos rfl]
        · rw [if_neg (by omega), if_pos rfl]
          show get2 (n+nb) m i j = get2 (n+nb) m i j / _
          rw [hrowz j (by omega)]; simp
      · rw [if_neg (by omega), if_neg h1]
    have h2rr : get2 (n+nb) m2 rb rb = 1 := by
      rw [hg2 rb rb hrbnt, if_pos ⟨rfl, le_refl _⟩]; exact div_self hp
    have h2z : ∀ j, j < rb → get2 (n+nb) m2 rb j = 0 := by
      intro j hj
      rw [hg2 rb j (by omega), if_neg (by omega)]; exact hrowz j hj
    have h2c : ∀ c, rb < c → c < n → get2 (n+nb) m2 rb c = 0 := by
      intro c h1 h2
      rw [hg2 rb c (by omega), if_pos ⟨rfl, by omega⟩]
      have : get2 (n+nb) m rb c = 0 := by
        have := inv.done c (by omega) h2 rb hrb
        rw [if_neg (by omega)] at this; exact this
      rw [this]; simp
    have h2o : ∀ i j, i ≠ rb → j < n + nb → get2 (n+nb) m2 i j = get2 (n+nb) m i j := by
      intro i j hi hj
      rw [hg2 i j hj, if_neg (by omega)]
    obtain ⟨hs3, hops3, hg3⟩ := upAll_spec (n := n) m2 rb (by rw [hs2]; exact hszm) hrb hn h2z
    refine ⟨_, rfl, ?_⟩
    generalize upAll (n+nb) (n+nb) rb m2 = m3 at hs3 hops3 hg3
    refine ⟨by rw [hs3, hs2, inv.size], (inv.ops.trans hops2).trans hops3, ?_, ?_, ?_⟩
    · intro i j hi hj hji
      show get2 (n+nb) m3 i j = 0
      rw [hg3 i j (by omega), if_neg (by omega)]
      by_cases h1 : i = rb
      · rw [h1]; exact h2z j (by omega)
      · rw [h2o i j h1 (by omega)]; exact inv.lz i j hi hj hji
    · intro c hc1 hc2 i hi
      have hcnt : c < n + nb := by omega
      show get2 (n+nb) m3 i c = _
      rw [hg3 i c hcnt]
      by_cases hcr : c = rb
      · subst hcr
        by_cases hi1 : i < c
        · rw [if_pos ⟨hi1, le_refl _⟩, h2rr, if_neg (by omega)]
          field_simp; ring
        · rw [if_neg (by omega)]
          by_cases hi2 : i = c
          · rw [hi2, h2rr, if_pos rfl]
          · rw [if_neg hi2, h2o i c hi2 hcnt]
            exact inv.lz i c hi hc2 (by omega)
      · have hcgt : rb < c := by omega
        have hdone := inv.done c (by omega) hc2
        by_cases hi1 : i < rb
        · rw [if_pos ⟨hi1, by omega⟩, h2c c hcgt hc2, h2o i c (by omega) hcnt, hdone i hi,
            if_neg (by omega)]
          ring
        · rw [if_neg (by omega)]
          by_cases hi2 : i = rb
          · rw [hi2, h2c c hcgt hc2, if_neg (by omega)]
          · rw [h2o i c hi2 hcnt]; exact hdone i hi
    · intro i hi
      show get2 (n+nb) m3 i i = _
      rw [hg3 i i (by omega), if_neg (by omega), h2o i i (by omega) (by omega)]
      exact inv.diag i (by omega)

/-! ### loops that fill cells with values not depending on the array being written -/

theorem fill_row_fold {w rows : Nat} (g : Nat → K) (step : Array K → Nat → Array K)
    (i off : Nat) (hstep : ∀ r j, step r j = wr r (w*i + (off + j)) (g j)) (r0 : Array K)
    (hsz : rows*w ≤ r0.size) (hi : i < rows) (t : Nat) (ht : off + t ≤ w) :
    ((List.range t).foldl step r0).size = r0.size ∧
    ∀ i' j', j' < w → get2 w ((List.range t).foldl step r0) i' j' =
      if i' = i ∧ off ≤ j' ∧ j' < off + t then g (j' - off) else get2 w r0 i' j' := by
  induction t with
  | zero =>
    refine ⟨by simp, ?_⟩
    intro i' j' hj
    rw [if_neg (by omega)]; rfl
  | succ t ih =>
    obtain ⟨hs, hg⟩ := ih (by omega)
    rw [List.range_succ, List.foldl_append]
    simp only [List.foldl_cons, List.foldl_nil]
    generalize (List.range t).foldl step r0 = r at hs hg
    rw [hstep]
    have hc : off + t < w := by omega
    have hb : w*i + (off + t) < r.size := by rw [hs]; exact lt_of_lt_of_le (flat_lt hi hc) hsz
    refine ⟨by rw [size_wr, hs], ?_⟩
    intro i' j' hj
    rw [get2_wr r i (off + t) i' j' _ hc hj hb, hg i' j' hj]
    by_cases h1 : i' = i ∧ j' = off + t
    · rw [if_pos h1, if_pos ⟨h1.1, by omega, by omega⟩]
      have : j' - off = t := by omega
      rw [this]
    · rw [if_neg h1]
      by_cases h2 : i' = i ∧ off ≤ j' ∧ j' < off + t
      · rw [if_pos h2, if_pos ⟨h2.1, h2.2.1, by omega⟩]
      · rw [if_neg h2, if_neg (by omega)]

theorem fill_fold {w rows : Nat} (g : Nat → Nat → K) (rowstep : Array K → Nat → Array K)
    (sz : Nat)
    (hrow : ∀ r i, i < rows → r.size = sz → (rowstep r i).size = sz ∧
      ∀ i' j', j' < w → get2 w (rowstep r i) i' j' = if i' = i then g i j' else get2 w r i' j')
    (r0 : Array K) (hsz : r0.size = sz) (t : Nat) (ht : t ≤ rows) :
    ((List.range t).foldl rowstep r0).size = sz ∧
    ∀ i' j', j' < w → get2 w ((List.range t).foldl rowstep r0) i' j' =
      if i' < t then g i' j' else get2 w r0 i' j' := by
  induction t with
  | zero => exact ⟨by simpa using hsz, fun i' j' hj => by simp⟩
  | succ t ih =>
    obtain ⟨hs, hg⟩ := ih (by omega)
    rw [List.range_succ, List.foldl_append]
    simp only [List.foldl_cons, List.foldl_nil]
    generalize (List.range t).foldl rowstep r0 = r at hs hg
    obtain ⟨h1, h2⟩ := hrow r t (by omega) hs
    refine ⟨h1, ?_⟩
    intro i' j' hj
    rw [h2 i' j' hj, hg i' j' hj]
    by_cases h : i' = t
    · rw [if_pos h, if_pos (by omega), h]
    · rw [if_neg h]
      by_cases h3 : i' < t
      · rw [if_pos h3, if_pos (by omega)]
      · rw [if_neg h3, if_neg (by omega)]

/-- the final copy: `result[nb*i + c] = m[nt*i + n + c]` -/
theorem copyOut_spec (m res : Array K) (n nb : Nat) (hsz : n*nb ≤ res.size) :
    (copyOut m n nb res).size = res.size ∧
    ∀ i c, c < nb → get2 nb (copyOut m n nb res) i c =
      if i < n then get2 (n+nb) m i (n + c) else get2 nb res i c := by
  refine fill_fold (w := nb) (rows := n) (fun i c => get2 (n+nb) m i (n + c)) (copyRow m n nb)
    res.size ?_ res rfl n (le_refl _)
  intro r i hi hr
  obtain ⟨h1, h2⟩ := fill_row_fold (w := nb) (rows := n) (fun c => get2 (n+nb) m i (n + c))
    (copyCell m n nb i) i 0 (fun r j => by
      simp only [copyCell, get2, Nat.zero_add, Nat.add_assoc]) r (by rw [hr]; exact hsz) hi nb
    (by omega)
  refine ⟨by rw [copyRow, h1, hr], ?_⟩
  intro i' j' hj
  rw [copyRow, h2 i' j' hj]
  by_cases h : i' = i
  · rw [if_pos ⟨h, by omega, by omega⟩, if_pos h]; simp
  · rw [if_neg (by omega), if_neg h]

/-! ### `gj_solve` as a whole -/

/-- the value `forward` leaves at the last diagonal position is non-zero -/
def LastPivotNonzero (tol : K) (m : Array K) (n nb : Nat) : Prop :=
  ∀ m1, forward tol n nb m = some m1 → 0 < n → get2 (n+nb) m1 (n-1) (n-1) ≠ 0

theorem gjSolve_sound_core {n nb : Nat} (tol : K) (htol : 0 < tol) (m res : Array K)
    (hsz : n*(n+nb) ≤ m.size) (hres : n*nb ≤ res.size)
    (hret : (gjSolve tol m n nb res).singular = false)
    (hlast : LastPivotNonzero tol m n nb) :
    ∀ c, c < nb → ∀ i, i < n →
      ∑ j ∈ Finset.range n,
        get2 (n+nb) m i j * rd (gjSolve tol m n nb res).result (nb*j + c) =
      get2 (n+nb) m i (n + c) := by
  intro c hc
  have hfw := forward_spec tol htol m hsz
  unfold gjSolve finish at hret ⊢
  cases hf : forward tol n nb m with
  | none => rw [hf] at hret; simp at hret
  | some m1 =>
    rw [hf] at hfw
    have hd : ∀ i, i < n → get2 (n+nb) m1 i i ≠ 0 := by
      intro i hi
      by_cases hl : i + 1 < n
      · intro h0
        have := hfw.piv i hi hl
        rw [h0, abs_zero] at this
        exact this htol
      · have : i = n - 1 := by omega
        rw [this]; exact hlast m1 hf (by omega)
    obtain ⟨m2, hb, inv⟩ := back_fold tol m1 (by rw [hfw.size]; exact hsz) hfw.lz hd n (le_refl _)
    have hb' : backSubst tol n nb m1 = some m2 := hb
    simp only [hb']
    obtain ⟨_, hcp⟩ := copyOut_spec m2 res n nb hres
    have hsol : Sol n (get2 (n+nb) m2) (fun j => get2 (n+nb) m2 j (n + c)) (n + c) := by
      intro i hi
      rw [Finset.sum_eq_single i]
      · rw [inv.done i (by omega) hi i hi, if_pos rfl, one_mul]
      · intro j hj hji
        rw [inv.done j (by omega) (Finset.mem_range.mp hj) i hi, if_neg (Ne.symm hji), zero_mul]
      · intro h; exact absurd (Finset.mem_range.mpr hi) h
    have := (hfw.ops.trans inv.ops).sol (by omega) _ (n + c) (by omega) hsol
    intro i hi
    rw [← this i hi]
    apply Finset.sum_congr rfl
    intro j hj
    have hjn := Finset.mem_range.mp hj
    have e : rd (copyOut m2 n nb res) (nb*j + c) = get2 nb (copyOut m2 n nb res) j c := rfl
    rw [e, hcp j c hc, if_pos hjn]

/-- when the repaired `gj_solve` reports a singular matrix, either the forward phase met a
column all of whose candidate pivots are below `tol`, or it finished and the last diagonal
entry of the triangular form is exactly zero -/
theorem gjSolve_singular_cases {n nb : Nat} (tol : K) (htol : 0 < tol) (m res : Array K)
    (hsz : n*(n+nb) ≤ m.size)
    (hret : (gjSolve tol m n nb res).singular = true) :
    TinyColumn n (n+nb) tol m ∨
    ∃ m1, forward tol n nb m = some m1 ∧ FwdInv n (n+nb) tol m m1 n ∧ 0 < n ∧
      get2 (n+nb) m1 (n-1) (n-1) = 0 := by
  have hfw := forward_spec tol htol m hsz
  unfold gjSolve finish at hret
  cases hf : forward tol n nb m with
  | none => rw [hf] at hfw; exact Or.inl hfw
  | some m1 =>
    rw [hf] at hfw hret
    right
    by_contra hcon
    have hd : ∀ i, i < n → get2 (n+nb) m1 i i ≠ 0 := by
      intro i hi
      by_cases hl : i + 1 < n
      · intro h0
        have := hfw.piv i hi hl
        rw [h0, abs_zero] at this
        exact this htol
      · have e : i = n - 1 := by omega
        intro h0
        exact hcon ⟨m1, rfl, hfw, by omega, by rw [← e]; exact h0⟩
    obtain ⟨m2, hb, _⟩ := back_fold tol m1 (by rw [hfw.size]; exact hsz) hfw.lz hd n (le_refl _)
    have hb' : backSubst tol n nb m1 = some m2 := hb
    simp [hb'] at hret

/-- after the row exchange the pivot position holds an entry of largest absolute value
among the candidates `m[i,k]`, `k ≤ i < n` (partial pivoting) -/
theorem pivot_is_column_max {n nt : Nat} (m : Array K) (k : Nat) (hsz : n*nt ≤ m.size)
    (hk : k < n) (hn : n ≤ nt) (i : Nat) (hi1 : k ≤ i) (hi2 : i < n) :
    |get2 nt m i k| ≤ |get2 nt (swapRows nt nt k (pivotRow m nt n k) m) k k| := by
  obtain ⟨h1, h2, h3⟩ := pivotRow_spec (nt := nt) m k hk
  obtain ⟨_, hg⟩ := get2_swapRows (n := n) m k (pivotRow m nt n k) hsz hk h2
  rw [hg k k (by omega), if_pos rfl]
  exact h3 i hi1 hi2

/-! ### the pinned code's pre-pass moves nothing (DESIGN §7 F5) -/

theorem wr_rd_self (a : Array K) (p : Nat) : wr a p (rd a p) = a := by
  apply Array.ext_getElem?
  intro i
  simp only [wr, rd, Array.getD_eq_getD_getElem?, Array.getElem?_setIfInBounds]
  by_cases h : p = i
  · subst h
    by_cases h2 : p < a.size
    · simp [h2]
    · simp [h2]
  · simp [h]

theorem prepassStep_snd (nt col : Nat) (st : Nat × Array K) (row : Nat) :
    (prepassStep nt col st row).2 = st.2 := by
  obtain ⟨b, m⟩ := st
  unfold prepassStep
  simp only
  split
  · simp only [wr_rd_self]
  · rfl

theorem prepassCol_eq (n nt : Nat) (m : Array K) (col : Nat) : prepassCol n nt m col = m := by
  unfold prepassCol
  have : ∀ (l : List Nat) (st : Nat × Array K),
      (l.foldl (prepassStep nt col) st).2 = st.2 := by
    intro l
    induction l with
    | nil => intro st; rfl
    | cons x xs ih => intro st; rw [List.foldl_cons, ih, prepassStep_snd]
  exact this _ _

/-- F5, for every input: the "pivoting" pre-pass of the pinned `gj_solve` returns the
matrix unchanged -/
theorem prepass_eq (n nt : Nat) (m : Array K) : prepass n nt m = m := by
  unfold prepass
  induction (List.range n) generalizing m with
  | nil => rfl
  | cons x xs ih => rw [List.foldl_cons, prepassCol_eq, ih]
