import PysphVerif.Model.CodegenOpts
/-! Helper lemmas for C02 §6 (destination loop limits) and §7 (wrapper attribute types). -/
namespace PysphVerif.Codegen

/-! ### `range(a, b, 1)` -/

theorem mem_pyRange (a b i : Int) : i ∈ pyRange a b ↔ a ≤ i ∧ i < b := by
  unfold pyRange
  simp only [List.mem_map, List.mem_range]
  constructor
  · rintro ⟨k, hk, rfl⟩
    omega
  · rintro ⟨h1, h2⟩
    refine ⟨(i - a).toNat, ?_, ?_⟩ <;> omega

theorem pyRange_eq_nil (a b : Int) (h : b ≤ a) : pyRange a b = [] := by
  unfold pyRange
  have : (b - a).toNat = 0 := by omega
  rw [this]; rfl

theorem pyRange_zero (n : Nat) : pyRange 0 (n : Int) = (List.range n).map (fun (k : Nat) => (k : Int)) := by
  unfold pyRange
  simp

theorem pyRange_length (a b : Int) : (pyRange a b).length = (b - a).toNat := by
  unfold pyRange; simp

/-! ### widening of numeric scalar types -/

theorem widen_rank_isSome (t u : PyTag) (ht : t.rank.isSome) : (widen t u).rank.isSome := by
  cases t <;> cases u <;> simp_all [widen, PyTag.rank] <;> decide

/-- on numeric types `widen` is the maximum of the ranks -/
theorem widen_rank_ge_left (t u : PyTag) (a : Nat) (ht : t.rank = some a) :
    ∃ c, (widen t u).rank = some c ∧ a ≤ c := by
  cases t <;> simp [PyTag.rank] at ht <;> subst ht <;> cases u <;> simp [widen, PyTag.rank]

theorem widen_rank_ge_right (t u : PyTag) (a b : Nat) (ht : t.rank = some a) (hu : u.rank = some b) :
    ∃ c, (widen t u).rank = some c ∧ b ≤ c := by
  cases t <;> simp [PyTag.rank] at ht <;> subst ht <;> cases u <;> simp [PyTag.rank] at hu <;>
    subst hu <;> simp [widen, PyTag.rank]

theorem widenStep_rank_ge (a : Name) (acc : PyTag) (e : Inst) (n : Nat) (h : acc.rank = some n) :
    ∃ c, (widenStep a acc e).rank = some c ∧ n ≤ c := by
  unfold widenStep
  split
  · exact widen_rank_ge_left _ _ _ h
  · exact ⟨n, h, Nat.le_refl _⟩

/-- the merged type is numeric and at least as wide as the start … -/
theorem mergedTag_rank_ge_start (l : List Inst) (a : Name) (t : PyTag) (n : Nat)
    (h : t.rank = some n) : ∃ c, (mergedTag l a t).rank = some c ∧ n ≤ c := by
  unfold mergedTag
  induction l generalizing t n with
  | nil => exact ⟨n, h, Nat.le_refl _⟩
  | cons e l ih =>
    simp only [List.foldl_cons]
    obtain ⟨c, hc, hle⟩ := widenStep_rank_ge a t e n h
    obtain ⟨c', hc', hle'⟩ := ih (widenStep a t e) c hc
    exact ⟨c', hc', Nat.le_trans hle hle'⟩

/-- … and as the type the attribute has in any of the instances -/
theorem mergedTag_rank_ge_mem (l : List Inst) (a : Name) (t : PyTag) (n : Nat)
    (h : t.rank = some n) (e : Inst) (he : e ∈ l) (u : PyTag) (hu : tagIn e a = some u)
    (m : Nat) (hm : u.rank = some m) : ∃ c, (mergedTag l a t).rank = some c ∧ m ≤ c := by
  unfold mergedTag
  induction l generalizing t n with
  | nil => cases he
  | cons x l ih =>
    simp only [List.foldl_cons]
    rcases List.mem_cons.mp he with rfl | he'
    · have hstep : widenStep a t e = widen t u := by unfold widenStep; rw [hu]
      obtain ⟨c, hc, hle⟩ := widen_rank_ge_right t u n m h hm
      obtain ⟨c', hc', hle'⟩ := mergedTag_rank_ge_start l a (widenStep a t e) c (hstep ▸ hc)
      exact ⟨c', hc', Nat.le_trans hle hle'⟩
    · obtain ⟨c, hc, _⟩ := widenStep_rank_ge a t x n h
      exact ih (widenStep a t x) c hc he'

/-- a declared type derived from a numeric type holds every numeric type that is not wider -/
theorem holds_of_rank_le (m t : PyTag) (c n : Nat) (hm : m.rank = some c) (ht : t.rank = some n)
    (h : n ≤ c) : holds (detectType m) t = true := by
  cases m <;> simp [PyTag.rank] at hm <;> subst hm <;> cases t <;> simp [PyTag.rank] at ht <;>
    subst ht <;> simp [holds, detectType] at h ⊢

/-- no widening happens when every instance has the representative's type -/
theorem mergedTag_of_uniform (l : List Inst) (a : Name) (t : PyTag)
    (h : ∀ e ∈ l, tagIn e a = some t ∨ tagIn e a = none) : mergedTag l a t = t := by
  unfold mergedTag
  induction l with
  | nil => rfl
  | cons x l ih =>
    simp only [List.foldl_cons]
    have hx : widenStep a t x = t := by
      unfold widenStep
      rcases h x (List.mem_cons_self ..) with h1 | h1 <;> rw [h1]
      cases t <;> simp [widen, PyTag.rank]
    rw [hx]
    exact ih (fun e he => h e (List.mem_cons_of_mem _ he))

theorem lastOf_mem (insts : List Inst) (c : Name) (r : Inst) (h : lastOf insts c = some r) :
    r ∈ instsOf insts c := by
  unfold lastOf at h
  exact List.mem_of_getLast? h

theorem mem_instsOf (insts : List Inst) (e : Inst) (he : e ∈ insts) : e ∈ instsOf insts e.cls := by
  unfold instsOf
  exact List.mem_filter.mpr ⟨he, by simp⟩

end PysphVerif.Codegen
