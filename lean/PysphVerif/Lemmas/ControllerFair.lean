import PysphVerif.Lemmas.ControllerRank
/-!
C18, repaired protocol: termination under strong fairness.

Part 1 (this file): a refinement of the wait-loop component of the rank that no
step of the SOLVER increases (`muWait2`: a waiter whose request has been
honoured counts 0), so that the pair (`muIface`, `muWait2`) never increases and
strictly decreases with every step of an interface thread.
-/
set_option linter.unusedVariables false
namespace PysphVerif.Controller

/-- while the solver holds `plock` inside `wait_for_cmd`, every pause request is honoured -/
structure NP (s : State) : Prop where
  np : (s.spc = SPc.ntaP ∨ s.spc = SPc.relP) → ∀ u ∈ s.pause, u ∈ s.paused

theorem np_init (progs : Tid → List Op) : NP (init progs) := by
  constructor; simp [init]

set_option maxHeartbeats 2000000 in
theorem np_stepIface {s s' : State} {t : Tid} {evs : List Ev} (h : NP s)
    (hw : W s) (hq : QW s) (ht : t ≠ 0)
    (hs : stepIface Cfg.fixed s t = some (s', evs)) : NP s' := by
  unfold stepIface at hs
  simp only [Cfg.fixed, wakeOneP, wakeQ, startOp] at hs
  (repeat' split at hs) <;>
  first
  | (cases hs; done)
  | (simp only [Bool.false_eq_true, if_false, Option.some.injEq, Prod.mk.injEq] at hs
     obtain ⟨rfl, -⟩ := hs
     obtain ⟨a1⟩ := h
     obtain ⟨b1, b2, b3, b4, b5, b6, b7⟩ := hw
     constructor <;> (try simp only [setPc]) <;> grind [holdsP, QW, mem_addSet])

set_option maxHeartbeats 2000000 in
theorem np_stepSolver {s s' : State} {evs : List Ev} (h : NP s)
    (hs : stepSolver Cfg.fixed s = some (s', evs)) : NP s' := by
  unfold stepSolver at hs
  simp only [Cfg.fixed, runQueue, afterRun, checkPause, wakeAllP] at hs
  (repeat' split at hs) <;>
  first
  | (cases hs; done)
  | (simp only [Option.some.injEq, Prod.mk.injEq] at hs
     obtain ⟨rfl, -⟩ := hs
     obtain ⟨a1⟩ := h
     constructor <;> (repeat' split) <;> grind [mem_unionSet])

theorem reachable_np {progs : Tid → List Op} {s : State}
    (hr : Reachable Cfg.fixed progs s) : NP s := by
  induction hr with
  | init => exact np_init progs
  | @step s s' t evs hr hs ih =>
    have hq := (reachable_inv hr).2
    have hw := reachable_w (cfg := Cfg.fixed) rfl rfl hr
    unfold step at hs
    split at hs
    · exact np_stepSolver ih hs
    · rename_i ht; exact np_stepIface ih hw hq ht hs

/-- wait-loop position of thread `u`, counted only while its request is not yet honoured -/
def wp2 (s : State) (u : Tid) : Nat := if mustWait s u = true then waitPos (s.th u).pc else 0

def muWait2 (n : Nat) (s : State) : Nat := sumTo (wp2 s) n

set_option maxHeartbeats 2000000 in
/-- every interface step decreases (`rk`, `wp2`) of the stepping thread lexicographically and,
when `rk` stays, leaves the other threads and the solver's distance alone -/
theorem iface_rank2 {s s' : State} {t : Tid} {evs : List Ev}
    (hw : W s) (ht : t ≠ 0)
    (hs : stepIface Cfg.fixed s t = some (s', evs)) :
    (∀ j, j ≠ t → rk (s'.th j) = rk (s.th j)) ∧
    (rk (s'.th t) < rk (s.th t) ∨
      (rk (s'.th t) = rk (s.th t) ∧ wp2 s' t < wp2 s t ∧
        (∀ j, j ≠ t → wp2 s' j = wp2 s j) ∧ muSolver s' = muSolver s)) := by
  obtain ⟨b1, b2, b3, b4, b5, b6, b7⟩ := hw
  unfold stepIface at hs
  simp only [Cfg.fixed, wakeOneP, wakeQ, startOp] at hs
  (repeat' split at hs) <;>
  first
  | (cases hs; done)
  | (simp only [Bool.false_eq_true, if_false, Option.some.injEq, Prod.mk.injEq] at hs
     obtain ⟨rfl, -⟩ := hs
     simp only [setPc, rk, muSolver, wp2, mustWait]
     constructor
     · grind [pcRank]
     · simp only [if_true]
       first
       | (left; simp_all [pcRank, progCost, opCost]; done)
       | (left; simp_all [pcRank, progCost, opCost]; omega)
       | (left; grind [pcRank, progCost, opCost])
       | (right; refine ⟨by simp_all [pcRank], by grind [waitPos, mustWait], by grind, by simp_all⟩))

set_option maxHeartbeats 2000000 in
/-- no solver step increases a thread's `wp2` -/
theorem solver_wp2 {s s' : State} {evs : List Ev}
    (hw : W s) (hnp : NP s)
    (hs : stepSolver Cfg.fixed s = some (s', evs)) :
    ∀ j, wp2 s' j ≤ wp2 s j := by
  obtain ⟨b1, b2, b3, b4, b5, b6, b7⟩ := hw
  obtain ⟨c1⟩ := hnp
  unfold stepSolver at hs
  simp only [Cfg.fixed, runQueue, afterRun, checkPause, wakeAllP] at hs
  (repeat' split at hs) <;>
  first
  | (cases hs; done)
  | (simp only [Option.some.injEq, Prod.mk.injEq] at hs
     obtain ⟨rfl, -⟩ := hs
     intro j
     simp only [wp2, mustWait]
     (repeat' split) <;> grind [waitPos, mem_unionSet])

end PysphVerif.Controller
