import PysphVerif.Model.NnpsStrat
import PysphVerif.Lemmas.NnpsSubgrid
/-!
C01 helper lemmas for StratifiedHashNNPS: the per-level tables hold exactly the particles of the
level (`strat_lookup`), the level loop visits every particle whose level-cell is in the level's
mask exactly once (`stratGen_nodup`, `mem_stratGen`), a particle's cut-off is below its level's
cell size (`strat_level_bound`), every particle's level exists (`strat_level_lt`).
-/
set_option linter.unusedSectionVars false
set_option linter.unusedSimpArgs false
namespace PysphVerif.Nnps

section store
variable {α : Type} [LT α] [DecidableLT α]

/-- the chain lookup in the table of level `l` returns exactly the particles of level `l` binned
with that cell, in index order -/
theorem strat_lookup (hash : Cell → Nat) (n : Nat) (levelOf : Nat → Nat)
    (cellAtL : Nat → Nat → Cell) (hAt : Nat → α) (l : Nat) (c : Cell) :
    HTable.indices hash (HTable.build hash (stratItems n levelOf cellAtL hAt l)) c =
      (List.range n).filter (fun j => decide (levelOf j = l) && decide (cellAtL l j = c)) := by
  rw [indices_build]
  unfold stratItems
  rw [List.filter_map, List.map_map, List.filter_filter]
  simp [Function.comp_def, Bool.and_comm]

theorem mem_stratBoxes (Hq : Nat) (cq c : Cell) :
    c ∈ stratBoxes Hq cq ↔ nonnegCell c = true ∧
      ((c.1 - cq.1).natAbs ≤ Hq ∧ (c.2.1 - cq.2.1).natAbs ≤ Hq ∧ (c.2.2 - cq.2.2).natAbs ≤ Hq) := by
  unfold stratBoxes
  rw [List.mem_filter, List.mem_map, and_comm]
  apply and_congr_right
  intro _
  constructor
  · rintro ⟨m, hm, rfl⟩
    rw [mem_hMaskExact] at hm
    simp only [Cell.add]
    omega
  · rintro ⟨h1, h2, h3⟩
    refine ⟨(c.1 - cq.1, c.2.1 - cq.2.1, c.2.2 - cq.2.2), (mem_hMaskExact Hq _).mpr ⟨h1, h2, h3⟩, ?_⟩
    obtain ⟨c1, c2, c3⟩ := c
    simp only [Cell.add, Prod.mk.injEq]
    omega

theorem stratBoxes_nodup (Hq : Nat) (cq : Cell) : (stratBoxes Hq cq).Nodup :=
  ((hMaskExact_nodup Hq).map (Cell.add_injective cq)).filter _

/-- what one level contributes -/
theorem mem_stratLevelCands (hash : Cell → Nat) (n : Nat) (levelOf : Nat → Nat)
    (cellAtL : Nat → Nat → Cell) (hAt : Nat → α) (Hq : Nat → Nat) (cq : Nat → Cell) (l j : Nat) :
    j ∈ stratLevelCands hash n levelOf cellAtL hAt Hq cq l ↔
      j < n ∧ levelOf j = l ∧ cellAtL l j ∈ stratBoxes (Hq l) (cq l) := by
  unfold stratLevelCands
  by_cases he : (stratItems n levelOf cellAtL hAt l).isEmpty = true
  · simp only [he, if_true, List.not_mem_nil, false_iff]
    rintro ⟨hj, hl, _⟩
    have : (cellAtL l j, j, hAt j) ∈ stratItems n levelOf cellAtL hAt l := by
      unfold stratItems
      exact List.mem_map.mpr ⟨j, List.mem_filter.mpr ⟨List.mem_range.mpr hj, by simpa using hl⟩, rfl⟩
    rw [List.isEmpty_iff] at he
    rw [he] at this
    cases this
  · simp only [he, Bool.false_eq_true, if_false, List.mem_flatMap, strat_lookup, List.mem_filter,
      List.mem_range, Bool.and_eq_true, decide_eq_true_eq]
    constructor
    · rintro ⟨c, hc, hj, hl, hcell⟩
      exact ⟨hj, hl, by rw [hcell]; exact hc⟩
    · rintro ⟨hj, hl, hb⟩
      exact ⟨_, hb, hj, hl, rfl⟩

theorem stratLevelCands_nodup (hash : Cell → Nat) (n : Nat) (levelOf : Nat → Nat)
    (cellAtL : Nat → Nat → Cell) (hAt : Nat → α) (Hq : Nat → Nat) (cq : Nat → Cell) (l : Nat) :
    (stratLevelCands hash n levelOf cellAtL hAt Hq cq l).Nodup := by
  unfold stratLevelCands
  split
  · exact List.nodup_nil
  · rw [List.nodup_flatMap]
    constructor
    · intro c _
      rw [strat_lookup]
      exact List.nodup_range.filter _
    · refine List.Pairwise.imp_of_mem ?_ (stratBoxes_nodup _ _)
      intro c c' _ _ hne
      show List.Disjoint _ _
      intro j hj hj'
      rw [strat_lookup, List.mem_filter] at hj hj'
      simp only [Bool.and_eq_true, decide_eq_true_eq] at hj hj'
      exact hne (hj.2.2.symm.trans hj'.2.2)

/-- no particle is visited twice: a particle is stored at one level only -/
theorem stratGen_nodup (hash : Cell → Nat) (L n : Nat) (levelOf : Nat → Nat)
    (cellAtL : Nat → Nat → Cell) (hAt : Nat → α) (Hq : Nat → Nat) (cq : Nat → Cell) :
    (stratHashCandsGen hash L n levelOf cellAtL hAt Hq cq).Nodup := by
  unfold stratHashCandsGen
  rw [List.nodup_flatMap]
  refine ⟨fun l _ => stratLevelCands_nodup hash n levelOf cellAtL hAt Hq cq l, ?_⟩
  refine List.Pairwise.imp_of_mem ?_ List.nodup_range
  intro l l' _ _ hne
  show List.Disjoint _ _
  intro j hj hj'
  rw [mem_stratLevelCands] at hj hj'
  exact hne (hj.2.1.symm.trans hj'.2.1)

/-- a particle whose level exists and whose level-cell lies in the mask the query uses for that
level is visited -/
theorem mem_stratGen (hash : Cell → Nat) (L n : Nat) (levelOf : Nat → Nat)
    (cellAtL : Nat → Nat → Cell) (hAt : Nat → α) (Hq : Nat → Nat) (cq : Nat → Cell) (j : Nat)
    (hj : j < n) (hl : levelOf j < L)
    (hb : cellAtL (levelOf j) j ∈ stratBoxes (Hq (levelOf j)) (cq (levelOf j))) :
    j ∈ stratHashCandsGen hash L n levelOf cellAtL hAt Hq cq := by
  unfold stratHashCandsGen
  rw [List.mem_flatMap]
  exact ⟨levelOf j, List.mem_range.mpr hl, (mem_stratLevelCands _ _ _ _ _ _ _ _ _).mpr ⟨hj, rfl, hb⟩⟩

end store

section num
variable {α : Type} [Field α] [LinearOrder α] [IsStrictOrderedRing α] [FloorRing α]

theorem stratInterval_pos (cs hmin eps : α) (L : Nat) (hL : 1 ≤ L) (heps : 0 < eps)
    (hcs : hmin ≤ cs) : 0 < stratInterval cs hmin eps L := by
  unfold stratInterval
  have hLpos : (0 : α) < (L : α) := by exact_mod_cast hL
  have : 0 ≤ (cs - hmin) / (L : α) := div_nonneg (sub_nonneg.mpr hcs) (le_of_lt hLpos)
  linarith

/-- **the level's cell size bounds the cut-off of the level's particles**: with
`l = floor((rs·h − hmin)/interval)` the cut-off `rs·h` is below the upper end
`hmin + (l+1)·interval` of the level's interval (what `_get_h_max` returns after the fix) -/
theorem strat_level_bound (rs hmin ivl h : α) (hrs : 0 < rs) (hivl : 0 < ivl) :
    rs * h < stratHmaxLevel rs hmin ivl (stratLevel Int.floor rs hmin ivl h) := by
  unfold stratHmaxLevel stratCell stratLevel
  rw [mul_div_cancel₀ _ (ne_of_gt hrs)]
  have h1 := Int.lt_floor_add_one ((rs * h - hmin) / ivl)
  have h2 : (⌊(rs * h - hmin) / ivl⌋ : α) ≤ ((⌊(rs * h - hmin) / ivl⌋.toNat : Nat) : α) := by
    have : ⌊(rs * h - hmin) / ivl⌋ ≤ ((⌊(rs * h - hmin) / ivl⌋.toNat : Nat) : Int) := Int.self_le_toNat _
    exact_mod_cast this
  have h3 : (rs * h - hmin) / ivl < ((⌊(rs * h - hmin) / ivl⌋.toNat : Nat) : α) + 1 := by linarith
  rw [div_lt_iff₀ hivl] at h3
  linarith

theorem stratHmaxLevel_pos (rs hmin ivl : α) (l : Nat) (hrs : 0 < rs) (hmin0 : 0 ≤ hmin)
    (hivl : 0 < ivl) : 0 < stratHmaxLevel rs hmin ivl l := by
  unfold stratHmaxLevel stratCell
  rw [mul_div_cancel₀ _ (ne_of_gt hrs)]
  have : (0 : α) ≤ (l : α) := Nat.cast_nonneg l
  have : 0 < ((l : α) + 1) * ivl := mul_pos (by linarith) hivl
  linarith

/-- **every particle's level exists**: with the interval the code computes and a cut-off not
above the cell size, `_get_hash_id` stays below `num_levels` (thanks to the `+ EPS`) -/
theorem strat_level_lt (rs cs hmin eps h : α) (L : Nat) (hL : 1 ≤ L) (heps : 0 < eps)
    (hcs : hmin ≤ cs) (hh : rs * h ≤ cs) :
    stratLevel Int.floor rs hmin (stratInterval cs hmin eps L) h < L := by
  have hivl := stratInterval_pos cs hmin eps L hL heps hcs
  have hLpos : (0 : α) < (L : α) := by exact_mod_cast hL
  unfold stratLevel
  have hx : (rs * h - hmin) / stratInterval cs hmin eps L < (L : α) := by
    rw [div_lt_iff₀ hivl]
    unfold stratInterval
    have e : (L : α) * ((cs - hmin) / (L : α) + eps) = (cs - hmin) + (L : α) * eps := by
      field_simp
    rw [e]
    have : 0 < (L : α) * eps := mul_pos hLpos heps
    linarith
  have hfl : ⌊(rs * h - hmin) / stratInterval cs hmin eps L⌋ < (L : Int) := by
    rw [Int.floor_lt]; exact_mod_cast hx
  omega

end num

end PysphVerif.Nnps
