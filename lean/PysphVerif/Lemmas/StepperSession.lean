import PysphVerif.Model.StepperSession
/-
C04 — helper lemmas for the session model (the cache of built extension modules).
-/
namespace PysphVerif.StepperSession
open PysphVerif.Stepper

variable {κ ρ : Type} [DecidableEq κ]

theorem lookupBuilt_mem {k : κ} {built : Built κ ρ} {m : GenText ρ}
    (h : lookupBuilt k built = some m) : (k, m) ∈ built := by
  induction built with
  | nil => simp [lookupBuilt] at h
  | cons p rest ih =>
    obtain ⟨k', m'⟩ := p
    unfold lookupBuilt at h
    by_cases hk : k' = k
    · rw [if_pos hk] at h
      cases h
      subst hk
      exact List.mem_cons_self
    · rw [if_neg hk] at h
      exact List.mem_cons_of_mem _ (ih h)

theorem loadModule_fst (digest : GenText ρ → κ)
    (hinj : ∀ a b, digest a = digest b → a = b) (built : Built κ ρ)
    (hb : Consistent digest built) (txt : GenText ρ) :
    (loadModule digest built txt).1 = txt := by
  unfold loadModule
  cases h : lookupBuilt (digest txt) built with
  | none => rfl
  | some m =>
    have hm := hb _ (lookupBuilt_mem h)
    exact (hinj _ _ hm).symm

theorem loadModule_consistent (digest : GenText ρ → κ) (built : Built κ ρ)
    (hb : Consistent digest built) (txt : GenText ρ) :
    Consistent digest (loadModule digest built txt).2 := by
  unfold loadModule
  cases h : lookupBuilt (digest txt) built with
  | none =>
    intro p hp
    rcases List.mem_cons.mp hp with rfl | hp
    · rfl
    · exact hb p hp
  | some m => exact hb

theorem compileSession_eq_map (digest : GenText ρ → κ)
    (hinj : ∀ a b, digest a = digest b → a = b) (cs : List (IClass ρ)) :
    ∀ (built : Built κ ρ), Consistent digest built →
      compileSession digest built cs = cs.map render := by
  induction cs with
  | nil => intro _ _; rfl
  | cons c cs ih =>
    intro built hb
    unfold compileSession compileOne
    rw [loadModule_fst digest hinj built hb, List.map_cons,
      ih _ (loadModule_consistent digest built hb _)]

end PysphVerif.StepperSession
