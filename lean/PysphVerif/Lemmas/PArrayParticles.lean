import PysphVerif.Lemmas.PArrayInvOps
/-!
C06 helper lemmas, parts C and D: the array as a list of whole particles, and
alignment.
-/
namespace PysphVerif.PArray

/-- slot `k` of the array as a record: for every property its `k`-th row -/
def particleAt (pa : PA) (k : Nat) : List (String × List Int) :=
  pa.props.map (fun (c : Col) => (c.name, (rowsOf (pa.strideOf c.name) c.data).getD k []))

/-- the array as a list of whole particles (array of structures view) -/
def particles (pa : PA) : List (List (String × List Int)) :=
  (List.range pa.n).map (particleAt pa)

theorem particles_length (pa : PA) : (particles pa).length = pa.n := by simp [particles]

theorem particles_getD (pa : PA) (i : Nat) (hi : i < pa.n) :
    (particles pa).getD i [] = particleAt pa i := by
  unfold particles
  rw [List.getD_eq_getElem?_getD, List.getElem?_map, List.getElem?_range hi]; rfl

theorem range_map_getD {β γ : Type} (l : List β) (d : β) (g : β → γ) :
    (List.range l.length).map (fun k => g (l.getD k d)) = l.map g := by
  apply List.ext_getElem
  · simp
  · intro i h1 h2
    simp only [List.getElem_map, List.getElem_range]
    rw [List.getD_eq_getElem?_getD, List.getElem?_eq_getElem (by simpa using h2)]; rfl

theorem gather_particles (pa : PA) (src : List Nat) (hsrc : ∀ i ∈ src, i < pa.n) :
    gather src (particles pa) = src.map (particleAt pa) := by
  rw [gather_eq_map src (particles pa) [] (by rw [particles_length]; exact hsrc)]
  exact List.map_congr_left (fun i hi => particles_getD pa i (hsrc i hi))

/-- two row operations that agree on lists of `n` rows give the same array -/
theorem mapRows_congr {pa : PA} (h : Inv pa) (f g : List (List Int) → List (List Int))
    (hfg : ∀ R : List (List Int), R.length = pa.n → f R = g R) : pa.mapRows f = pa.mapRows g := by
  unfold PA.mapRows
  congr 1
  apply List.map_congr_left
  intro c hc
  have hu := rowsOf_uniform _ (h.len c hc).1 pa.n c.data (h.len c hc).2
  rw [hfg _ hu.1]

theorem particleAt_mapRows {pa : PA} (h : Inv pa) (f : List (List Int) → List (List Int))
    (hf : ∀ (s : Nat) (R : List (List Int)), R.length = pa.n → (∀ r ∈ R, r.length = s) →
      ∀ r ∈ f R, r.length = s) (k : Nat) :
    particleAt (pa.mapRows f) k =
      pa.props.map (fun (c : Col) => (c.name, (f (rowsOf (pa.strideOf c.name) c.data)).getD k [])) := by
  unfold particleAt
  show (pa.props.map _).map _ = _
  rw [List.map_map]
  apply List.map_congr_left
  intro c hc
  have hu := rowsOf_uniform _ (h.len c hc).1 pa.n c.data (h.len c hc).2
  show (c.name, (rowsOf (pa.strideOf c.name) (flat (f (rowsOf (pa.strideOf c.name) c.data)))).getD k [])
    = _
  rw [rowsOf_flat _ (h.len c hc).1 _ (hf _ _ hu.1 hu.2)]

theorem map_getD_of_lt {β γ : Type} (l : List β) (g : β → γ) (k : Nat) (d : β) (d' : γ)
    (hk : k < l.length) : (l.map g).getD k d' = g (l.getD k d) := by
  rw [List.getD_eq_getElem?_getD, List.getD_eq_getElem?_getD, List.getElem?_map,
    List.getElem?_eq_getElem hk]; rfl

/-- **naturality**: gathering the rows of every property through the same index
list gathers whole particles -/
theorem particles_mapRows_gather {pa : PA} (h : Inv pa) (src : List Nat)
    (hsrc : ∀ i ∈ src, i < pa.n) :
    particles (pa.mapRows (gather src)) = src.map (particleAt pa) := by
  have hn : (pa.mapRows (gather src)).n = src.length := by
    have := (inv_mapRows h (gather src) (gather src (List.range pa.n)).length (by
      intro s R hR hrows
      exact ⟨gather_length_eq src R _ (by simpa using hR),
        fun r hr => hrows r (gather_subset src R r hr)⟩)).2
    rw [this, gather_length src _ (by simpa using hsrc)]
  unfold particles
  rw [hn, ← range_map_getD src 0 (particleAt pa)]
  apply List.map_congr_left
  intro k hk
  have hk : k < src.length := by simpa using hk
  rw [particleAt_mapRows h (gather src) (fun s R _ hrows r hr => hrows r (gather_subset src R r hr))]
  unfold particleAt
  apply List.map_congr_left
  intro c hc
  have hu := rowsOf_uniform _ (h.len c hc).1 pa.n c.data (h.len c hc).2
  rw [gather_eq_map src _ [] (by rw [hu.1]; exact hsrc), map_getD_of_lt _ _ k 0 [] hk]

theorem mapRows_gather_particles {pa : PA} (h : Inv pa) (src : List Nat)
    (hsrc : ∀ i ∈ src, i < pa.n) :
    particles (pa.mapRows (gather src)) = gather src (particles pa) := by
  rw [particles_mapRows_gather h src hsrc, gather_particles pa src hsrc]

/-- removing rows from every property removes whole particles: the same row map
for every property -/
theorem mapRows_removeRows_particles {pa : PA} (h : Inv pa) (idx : List Nat) :
    particles (pa.mapRows (removeRows idx)) = removeRows idx (particles pa) := by
  have h1 : pa.mapRows (removeRows idx) =
      pa.mapRows (gather (removeRows idx (List.range pa.n))) :=
    mapRows_congr h _ _ (fun R hR => by rw [removeRows_eq_gather idx R, hR])
  rw [h1, mapRows_gather_particles h _ (removeRows_range_lt idx pa.n),
    removeRows_eq_gather idx (particles pa), particles_length]

theorem removeParticles_noalign (pa : PA) (idx : List Nat) (pa' : PA)
    (hr : pa.removeParticles idx false = some pa') :
    pa' = pa.mapRows (removeRows (sortNat idx)) := by
  unfold PA.removeParticles at hr
  split at hr
  · exact absurd hr (by simp)
  · simpa using hr.symm

theorem particles_setNReal (pa : PA) (nr : Nat) :
    particles ({ pa with nReal := nr } : PA) = particles pa := rfl

/-- `align_particles` permutes whole particles -/
theorem align_particles_perm {pa : PA} (h : Inv pa) :
    (particles pa.align).Perm (particles pa) := by
  unfold PA.align
  have hperm := alignIndex_perm pa.tags
  rw [h.tags_length] at hperm
  rcases hai : alignIndex pa.tags with ⟨idx, nreal, moves⟩
  rw [hai] at hperm
  simp only [] at hperm ⊢
  split
  · have hlt : ∀ i ∈ idx, i < pa.n := fun i hi => List.mem_range.mp (hperm.subset hi)
    rw [particles_mapRows_gather (inv_setNReal h nreal) idx hlt]
    exact (hperm.map _)
  · exact List.Perm.refl _

/-! ### growing -/

/-- the particle `extend` appends: every property at its default -/
def defaultParticle (pa : PA) : List (String × List Int) :=
  pa.props.map (fun (c : Col) => (c.name, defaultRow pa c.name))

theorem getD_append_replicate {β : Type} (l : List β) (k : Nat) (x d : β) (j : Nat) :
    (l ++ List.replicate k x).getD j d =
      if j < l.length then l.getD j d else if j < l.length + k then x else d := by
  rw [List.getD_eq_getElem?_getD, List.getD_eq_getElem?_getD, List.getElem?_append]
  split
  · rfl
  · rw [List.getElem?_replicate]
    split
    · rw [if_pos (by omega)]; rfl
    · rw [if_neg (by omega)]; rfl

theorem resizeRows_grow (m : Nat) (fill : List Int) (R : List (List Int)) (k : Nat)
    (hm : m = R.length + k) : resizeRows m fill R = R ++ List.replicate k fill := by
  unfold resizeRows
  rw [List.take_of_length_le (by omega)]
  congr 2; omega

/-- `extend(k)` appends `k` default particles and leaves the existing ones alone -/
theorem extend_particles {pa : PA} (h : Inv pa) (k : Nat) :
    particles (pa.extend k) = particles pa ++ List.replicate k (defaultParticle pa) := by
  by_cases hk : k = 0
  · subst hk; simp [PA.extend]
  have hn := (inv_extend h k).2
  have hat : ∀ j, particleAt (pa.extend k) j = pa.props.map (fun (c : Col) =>
      (c.name, (rowsOf (pa.strideOf c.name) c.data ++
        List.replicate k (defaultRow pa c.name)).getD j [])) := by
    intro j
    unfold particleAt PA.extend
    rw [if_neg hk]
    show (pa.props.map _).map _ = _
    rw [List.map_map]
    apply List.map_congr_left
    intro c hc
    have hu := rowsOf_uniform _ (h.len c hc).1 pa.n c.data (h.len c hc).2
    have hr := resizeRows_uniform (pa.n + k) (pa.strideOf c.name) (defaultRow pa c.name) _
      (by simp [defaultRow]) hu.2
    show (c.name, (rowsOf (pa.strideOf c.name) (flat (resizeRows (pa.n + k) (defaultRow pa c.name)
      (rowsOf (pa.strideOf c.name) c.data)))).getD j []) = _
    rw [rowsOf_flat _ (h.len c hc).1 _ hr.2, resizeRows_grow _ _ _ k (by rw [hu.1])]
  unfold particles
  rw [hn, List.range_add, List.map_append, List.map_map]
  congr 1
  · apply List.map_congr_left
    intro j hj
    have hj : j < pa.n := by simpa using hj
    rw [hat j]
    unfold particleAt
    apply List.map_congr_left
    intro c hc
    have hu := rowsOf_uniform _ (h.len c hc).1 pa.n c.data (h.len c hc).2
    rw [getD_append_replicate, if_pos (by rw [hu.1]; exact hj)]
  · rw [List.eq_replicate_iff]
    refine ⟨by simp, ?_⟩
    intro p hp
    obtain ⟨j, hj, rfl⟩ := List.mem_map.mp hp
    have hj : j < k := by simpa using hj
    simp only [Function.comp]
    rw [hat]
    unfold defaultParticle
    apply List.map_congr_left
    intro c hc
    have hu := rowsOf_uniform _ (h.len c hc).1 pa.n c.data (h.len c hc).2
    rw [getD_append_replicate, if_neg (by rw [hu.1]; omega), if_pos (by rw [hu.1]; omega)]

/-! ### alignment -/

theorem flat_map_singleton (d : List Int) : flat (d.map (fun x => [x])) = d := by
  induction d with
  | nil => rfl
  | cons x d ih => simp only [flat, List.map_cons, List.flatten_cons] at ih ⊢; rw [ih]; rfl

theorem rowsOf_one (d : List Int) : rowsOf 1 d = d.map (fun x => [x]) := by
  have := rowsOf_flat 1 (by decide) (d.map (fun x => [x])) (by
    intro r hr
    obtain ⟨x, _, rfl⟩ := List.mem_map.mp hr
    rfl)
  rwa [flat_map_singleton] at this

theorem tags_mapRows_gather {pa : PA} (h : Inv pa) (src : List Nat) :
    (pa.mapRows (gather src)).tags = gather src pa.tags := by
  obtain ⟨t, rest, hp, ht, _, _, htags⟩ := n_of_tagFirst pa h.tagFirst
  have hi := (inv_mapRows h (gather src) (gather src (List.range pa.n)).length (by
      intro s R hR hrows
      exact ⟨gather_length_eq src R _ (by simpa using hR),
        fun r hr => hrows r (gather_subset src R r hr)⟩)).1
  obtain ⟨t', rest', hp', _, _, _, htags'⟩ := n_of_tagFirst _ hi.tagFirst
  rw [htags', htags]
  have : (pa.mapRows (gather src)).props =
      pa.props.map (fun (c : Col) =>
        { c with data := flat (gather src (rowsOf (pa.strideOf c.name) c.data)) }) := rfl
  rw [hp, List.map_cons, hp'] at this
  have ht' : t' = { t with data := flat (gather src (rowsOf (pa.strideOf t.name) t.data)) } :=
    (List.cons.inj this).1
  rw [ht']
  show flat (gather src (rowsOf (pa.strideOf t.name) t.data)) = _
  rw [ht, h.tagStride, rowsOf_one, ← gather_map, flat_map_singleton]

theorem gather_range_self {β : Type} (l : List β) : gather (List.range l.length) l = l := by
  cases l with
  | nil => rfl
  | cons a l =>
    rw [gather_eq_map _ _ a (by simp)]
    have := range_map_getD (a :: l) a id
    simpa using this

/-- in both branches of `align_particles` (moves or no moves) the tags end up
gathered through the index array -/
theorem align_tags {pa : PA} (h : Inv pa) :
    pa.align.tags = gather (alignIndex pa.tags).1 pa.tags ∧
      pa.align.nReal = (alignIndex pa.tags).2.1 := by
  unfold PA.align
  have hz := alignIndex_moves_zero pa.tags
  rcases hai : alignIndex pa.tags with ⟨idx, nreal, moves⟩
  rw [hai] at hz
  simp only [] at hz ⊢
  split
  · exact ⟨tags_mapRows_gather (inv_setNReal h nreal) idx, rfl⟩
  · rename_i hm
    have : moves = 0 := by omega
    rw [hz this]
    exact ⟨(gather_range_self pa.tags).symm, rfl⟩

theorem gather_perm {β : Type} (idx : List Nat) (l : List β)
    (hp : idx.Perm (List.range l.length)) : (gather idx l).Perm l := by
  cases l with
  | nil =>
    have : idx = [] := by simpa using hp
    subst this; exact List.Perm.refl _
  | cons a l =>
    rw [gather_eq_map idx _ a (fun i hi => List.mem_range.mp (hp.subset hi))]
    have h1 := hp.map (fun i => (a :: l).getD i a)
    have h2 := range_map_getD (a :: l) a id
    simp only [id] at h2
    rw [List.map_id] at h2
    rw [h2] at h1
    exact h1

/-- **after `align_particles`**: the number of real particles is the number of
Local tags, the particle count is unchanged, and slot `k` holds a Local-tagged
particle iff `k < num_real_particles` -/
theorem align_real_first' {pa : PA} (h : Inv pa) :
    pa.align.n = pa.n ∧
    pa.align.nReal = (pa.tags.filter (· == localTag)).length ∧
    pa.align.nReal = (pa.align.tags.filter (· == localTag)).length ∧
    ∀ k, k < pa.align.n →
      (pa.align.tags.getD k 1 == localTag) = decide (k < pa.align.nReal) := by
  obtain ⟨htags, hnr⟩ := align_tags h
  have hperm := alignIndex_perm pa.tags
  have hlen : (alignIndex pa.tags).1.length = pa.tags.length := by
    rw [hperm.length_eq]; simp
  have hlt : ∀ i ∈ (alignIndex pa.tags).1, i < pa.tags.length :=
    fun i hi => List.mem_range.mp (hperm.subset hi)
  have hn : pa.align.n = pa.n := by
    rw [← (inv_align h).tags_length, htags, gather_length _ _ hlt, hlen, h.tags_length]
  refine ⟨hn, ?_, ?_, ?_⟩
  · rw [hnr]; exact alignIndex_nreal pa.tags
  · rw [hnr, alignIndex_nreal, htags]
    exact ((gather_perm _ _ hperm).filter _).length_eq.symm
  · intro k hk
    rw [hn, ← h.tags_length] at hk
    rw [hnr, htags, gather_eq_map _ _ 1 hlt, map_getD_of_lt _ _ k 0 1 (by rw [hlen]; exact hk)]
    exact alignIndex_real_first pa.tags k hk

/-! ### add_particles -/

/-- what `add_particles` does to property `c` (extend with the given data, or
resize and fill with the default) -/
def addCol (pa : PA) (given : List (String × List Int)) (k : Nat) (c : Col) : Col :=
  match given.find? (fun (g : String × List Int) => g.1 == c.name) with
  | some g => { c with data := c.data ++ g.2 }
  | none => { c with data := flat (resizeRows (pa.n + k) (defaultRow pa c.name)
      (rowsOf (pa.strideOf c.name) c.data)) }

/-- the rows `add_particles` appends to property `c`: the given ones, else defaults -/
def newRows (pa : PA) (given : List (String × List Int)) (k : Nat) (c : Col) : List (List Int) :=
  match given.find? (fun (g : String × List Int) => g.1 == c.name) with
  | some g => rowsOf (pa.strideOf c.name) g.2
  | none => List.replicate k (defaultRow pa c.name)

/-- the `j`-th new particle: for every property the given row, else the default -/
def newParticle (pa : PA) (given : List (String × List Int)) (k : Nat) (j : Nat) :
    List (String × List Int) :=
  pa.props.map (fun (c : Col) => (c.name, (newRows pa given k c).getD j []))

theorem getD_append {β : Type} (l1 l2 : List β) (d : β) (j : Nat) :
    (l1 ++ l2).getD j d = if j < l1.length then l1.getD j d else l2.getD (j - l1.length) d := by
  rw [List.getD_eq_getElem?_getD, List.getD_eq_getElem?_getD, List.getD_eq_getElem?_getD,
    List.getElem?_append]
  split <;> rfl

theorem rowsOf_append (s : Nat) (hs : 0 < s) (d1 d2 : List Int) (n1 n2 : Nat)
    (h1 : d1.length = n1 * s) (h2 : d2.length = n2 * s) :
    rowsOf s (d1 ++ d2) = rowsOf s d1 ++ rowsOf s d2 := by
  have u1 := rowsOf_uniform s hs n1 d1 h1
  have u2 := rowsOf_uniform s hs n2 d2 h2
  have : d1 ++ d2 = flat (rowsOf s d1 ++ rowsOf s d2) := by
    unfold flat
    rw [List.flatten_append]
    show _ = flat _ ++ flat _
    rw [flat_rowsOf s hs, flat_rowsOf s hs]
  rw [this]
  apply rowsOf_flat s hs
  intro r hr
  rcases List.mem_append.mp hr with h | h
  · exact u1.2 r h
  · exact u2.2 r h

theorem addCol_name (pa : PA) (given : List (String × List Int)) (k : Nat) (c : Col) :
    (addCol pa given k c).name = c.name := by unfold addCol; split <;> rfl

theorem addCol_rows {pa : PA} (h : Inv pa) (given : List (String × List Int)) (k : Nat)
    (hv : ∀ g ∈ given, g.2.length = k * pa.strideOf g.1) (c : Col) (hc : c ∈ pa.props) :
    rowsOf (pa.strideOf c.name) (addCol pa given k c).data
      = rowsOf (pa.strideOf c.name) c.data ++ newRows pa given k c ∧
    (newRows pa given k c).length = k ∧
    ∀ r ∈ newRows pa given k c, r.length = pa.strideOf c.name := by
  have hu := rowsOf_uniform _ (h.len c hc).1 pa.n c.data (h.len c hc).2
  unfold addCol newRows
  split
  · rename_i g hg
    have hgm : g ∈ given := List.mem_of_find?_eq_some hg
    have hgn : g.1 = c.name := by simpa using List.find?_some hg
    have hgl : g.2.length = k * pa.strideOf c.name := by rw [hv g hgm, hgn]
    have ug := rowsOf_uniform _ (h.len c hc).1 k g.2 hgl
    exact ⟨rowsOf_append _ (h.len c hc).1 _ _ pa.n k (h.len c hc).2 hgl, ug.1, ug.2⟩
  · have hr' := resizeRows_uniform (pa.n + k) (pa.strideOf c.name) (defaultRow pa c.name) _
      (by simp [defaultRow]) hu.2
    refine ⟨?_, by simp, fun r hr => by rw [(List.mem_replicate.mp hr).2]; simp [defaultRow]⟩
    show rowsOf _ (flat _) = _
    rw [rowsOf_flat _ (h.len c hc).1 _ hr'.2, resizeRows_grow _ _ _ k (by rw [hu.1])]

/-- `add_particles(align=False)`: the old particles stay as they are and `k` new
ones are appended, each carrying the given value or the default of every
property (`k` = number of rows of the last given array, as in the code) -/
theorem addParticles_particles' {pa pa' : PA} (h : Inv pa) (given : List (String × List Int))
    (ln : String) (ld : List Int) (hlast : given.getLast? = some (ln, ld))
    (hv : ∀ g ∈ given, g.2.length = (ld.length / pa.strideOf ln) * pa.strideOf g.1)
    (hr : pa.addParticles false given = some pa') :
    pa'.n = pa.n + ld.length / pa.strideOf ln ∧
    particles pa' = particles pa ++
      (List.range (ld.length / pa.strideOf ln)).map
        (newParticle pa given (ld.length / pa.strideOf ln)) := by
  unfold PA.addParticles at hr
  rw [hlast] at hr
  simp only [] at hr
  split at hr
  · exact absurd hr (by simp)
  simp only [Bool.and_false, Bool.false_eq_true, if_false, Option.some.injEq] at hr
  generalize hk : ld.length / pa.strideOf ln = k at hr hv ⊢
  have hr : ({ pa with props := pa.props.map (addCol pa given k) } : PA) = pa' := hr
  subst hr
  have hinv : Inv ({ pa with props := pa.props.map (addCol pa given k) } : PA) ∧
      ({ pa with props := pa.props.map (addCol pa given k) } : PA).n = pa.n + k :=
    InvF.inv_and_n (pa := { pa with props := pa.props.map (addCol pa given k) })
      (h.toF.mapCols _ (pa.n + k) (fun c _ => addCol_name pa given k c) (fun c hc => by
        obtain ⟨hrows, hnl, hnu⟩ := addCol_rows h given k hv c hc
        have hu := rowsOf_uniform _ (h.len c hc).1 pa.n c.data (h.len c hc).2
        have hlen := congrArg List.length hrows
        rw [List.length_append, hu.1, hnl] at hlen
        rw [← flat_rowsOf _ (h.len c hc).1 (addCol pa given k c).data,
          flat_length (pa.strideOf c.name), hlen]
        · rfl
        · rw [hrows]
          intro r hr
          rcases List.mem_append.mp hr with h1 | h1
          · exact hu.2 r h1
          · exact hnu r h1))
  refine ⟨hinv.2, ?_⟩
  have hat : ∀ j, particleAt ({ pa with props := pa.props.map (addCol pa given k) } : PA) j
      = pa.props.map (fun (c : Col) =>
        (c.name, (rowsOf (pa.strideOf c.name) c.data ++ newRows pa given k c).getD j [])) := by
    intro j
    unfold particleAt
    show (pa.props.map _).map _ = _
    rw [List.map_map]
    apply List.map_congr_left
    intro c hc
    simp only [Function.comp]
    rw [addCol_name]
    show (c.name, (rowsOf (pa.strideOf c.name) _).getD j []) = _
    rw [(addCol_rows h given k hv c hc).1]
  unfold particles
  rw [hinv.2, List.range_add, List.map_append, List.map_map]
  congr 1
  · apply List.map_congr_left
    intro j hj
    have hj : j < pa.n := by simpa using hj
    rw [hat j]
    unfold particleAt
    apply List.map_congr_left
    intro c hc
    have hu := rowsOf_uniform _ (h.len c hc).1 pa.n c.data (h.len c hc).2
    rw [getD_append, if_pos (by rw [hu.1]; exact hj)]
  · apply List.map_congr_left
    intro j _
    simp only [Function.comp]
    rw [hat]
    unfold newParticle
    apply List.map_congr_left
    intro c hc
    have hu := rowsOf_uniform _ (h.len c hc).1 pa.n c.data (h.len c hc).2
    rw [getD_append, if_neg (by rw [hu.1]; omega), hu.1, Nat.add_sub_cancel_left]

end PysphVerif.PArray
