import PysphVerif.Model.Codegen
/-!
# C02 model, part 2 — what the generator derives from OPTIONS and from INSTANCES

Core Lean only.  Two pieces of `pysph/sph` that decide *which particles* the
methods of a group run for and *with which attribute types* an equation object is
re-created in C:

* §6 the destination loop limits: `AccelerationEvalCythonHelper.get_dest_array_setup`
  (the two lines `D_START_IDX = …`, `NP_DEST = …`), `get_parallel_range` (OpenMP off) and
  the template's `for d_idx in range(D_START_IDX, NP_DEST, 1)` — from
  `Group(start_idx=, stop_idx=, real=)`;
* §7 the attribute declarations of the equation wrapper classes:
  `CythonGroup.get_equation_wrappers` (one `cdef class` per class NAME, typed from one
  representative instance) with compyle's `CythonGenerator.detect_type`, and
  `get_equation_init` (`self.<var> = <Cls>(**equations[i].__dict__)`: every instance is
  re-created through that one class).
-/
namespace PysphVerif.Codegen

/-! ## 6. destination loop limits -/

/-- `Group(start_idx=…)`: an `int` or a `str` naming a property/constant of the destination -/
inductive StartIdx where
  | num (n : Int)
  | ref (p : Name)
  deriving Repr, DecidableEq

/-- `Group(stop_idx=…)`: `None`, an `int` or a `str` -/
inductive StopIdx where
  | all
  | num (n : Int)
  | ref (p : Name)
  deriving Repr, DecidableEq

/-- the right-hand sides the generator can emit for a limit -/
inductive LimExpr where
  /-- `'%s' % n` -/
  | lit (n : Int)
  /-- `self.<dest>.<prop>[0]` -/
  | first (dest prop : Name)
  /-- `self.<dest>.size(real=<real>)` -/
  | size (dest : Name) (real : Bool)
  deriving Repr, DecidableEq

/-- `if isinstance(group.start_idx, str): 'self.%s.%s[0]' else '%s' % group.start_idx` -/
def startExpr (dest : Name) : StartIdx → LimExpr
  | .ref p => .first dest p
  | .num n => .lit n

/-- `if group.stop_idx is None: size(real=group.real) elif isinstance(…, str): …[0] else literal` -/
def stopExpr (dest : Name) (real : Bool) : StopIdx → LimExpr
  | .all => .size dest real
  | .ref p => .first dest p
  | .num n => .lit n

/-- A plausible "tidier" variant that tests the TRUTH VALUE of the option instead of
`is None` (`elif not stop:`): the integer 0 is then taken for "not given". -/
def stopExprFalsy (dest : Name) (real : Bool) : StopIdx → LimExpr
  | .all => .size dest real
  | .ref p => .first dest p
  | .num n => if n = 0 then .size dest real else .lit n

/-- what the run-time objects answer: the first value of a property/constant of an array and
the number of (real / all) particles of an array -/
structure RtEnv where
  first : Name → Name → Int
  size : Name → Bool → Nat

def LimExpr.eval (σ : RtEnv) : LimExpr → Int
  | .lit n => n
  | .first d p => σ.first d p
  | .size d r => (σ.size d r : Int)

/-- Python's `range(a, b, 1)` -/
def pyRange (a b : Int) : List Int := (List.range (b - a).toNat).map (fun (k : Nat) => a + (k : Int))

/-- the destination indices every loop of the block of destination `dest` runs over:
`D_START_IDX`/`NP_DEST` are assigned once, before the first loop of the block, and every
`for d_idx in range(D_START_IDX, NP_DEST, 1)` of the block reads them -/
def loopIndices (σ : RtEnv) (dest : Name) (real : Bool) (start : StartIdx) (stop : StopIdx) :
    List Int :=
  pyRange ((startExpr dest start).eval σ) ((stopExpr dest real stop).eval σ)

def loopIndicesFalsy (σ : RtEnv) (dest : Name) (real : Bool) (start : StartIdx) (stop : StopIdx) :
    List Int :=
  pyRange ((startExpr dest start).eval σ) ((stopExprFalsy dest real stop).eval σ)

/-- the documented meaning (Group docstring): "Starts from the given number if an integer is
passed. If a string is look for a property/constant and use its first value" -/
def docStart (σ : RtEnv) (dest : Name) : StartIdx → Int
  | .num n => n
  | .ref p => σ.first dest p

/-- "Defaults to all particles [real ones if `real`]. Ends at the given number if an integer is
passed. If a string is passed … its first value … works like a range stop parameter" -/
def docStop (σ : RtEnv) (dest : Name) (real : Bool) : StopIdx → Int
  | .all => (σ.size dest real : Int)
  | .num n => n
  | .ref p => σ.first dest p

/-! ## 7. attribute declarations of the equation wrapper classes -/

/-- the Python type of an attribute value, as far as `detect_type` distinguishes -/
inductive PyTag where
  | bool | int | float | str | numlist | list | tuple | object
  deriving Repr, DecidableEq

/-- compyle `CythonGenerator.detect_type(name, value)` for an instance attribute -/
def detectType : PyTag → Name
  | .bool => "int"
  | .int => "long"
  | .float => "double"
  | .str => "str"
  | .numlist => "double*"
  | .list => "list"
  | .tuple => "tuple"
  | .object => "object"

/-- numeric scalars, ordered by what can hold what: bool < int < float -/
def PyTag.rank : PyTag → Option Nat
  | .bool => some 0
  | .int => some 1
  | .float => some 2
  | _ => none

/-- a C attribute of declared type `ty` keeps a Python value of type `t` unchanged
(`setattr` on a `cdef public long` attribute truncates a float towards zero) -/
def holds (ty : Name) (t : PyTag) : Bool :=
  if ty = "double" then t = .bool || t = .int || t = .float
  else if ty = "long" then t = .bool || t = .int
  else if ty = "int" then t = .bool
  else false

/-- an equation object as `get_equation_wrappers` sees it: the NAME of its class and the
types of its `__dict__` (keys in sorted order) -/
structure Inst where
  cls : Name
  attrs : List (Name × PyTag)
  deriving Repr, DecidableEq

def instsOf (insts : List Inst) (c : Name) : List Inst := insts.filter (fun e => e.cls == c)

/-- `eqs[cls] = equation` in a loop over the equations: the LAST instance of the name wins -/
def lastOf (insts : List Inst) (c : Name) : Option Inst := (instsOf insts c).getLast?

def tagIn (e : Inst) (a : Name) : Option PyTag := e.attrs.lookup a

/-- existing code: the class is typed from the last instance alone -/
def declsLast (insts : List Inst) (c : Name) : List (Name × Name) :=
  match lastOf insts c with
  | none => []
  | some r => r.attrs.map (fun kv => (kv.1, detectType kv.2))

def widen (t u : PyTag) : PyTag :=
  match t.rank, u.rank with
  | some a, some b => if a < b then u else t
  | _, _ => t

def widenStep (a : Name) (acc : PyTag) (e : Inst) : PyTag :=
  match tagIn e a with
  | some u => widen acc u
  | none => acc

/-- the widest numeric type the attribute `a` has in any of the instances -/
def mergedTag (others : List Inst) (a : Name) (t : PyTag) : PyTag :=
  others.foldl (widenStep a) t

/-- repaired code (proposed_fixes/C02-wrapper-attribute-types.diff): the representative is
the last instance with every numeric scalar attribute widened over all instances of the name -/
def declsMerge (insts : List Inst) (c : Name) : List (Name × Name) :=
  match lastOf insts c with
  | none => []
  | some r => r.attrs.map (fun kv => (kv.1, detectType (mergedTag (instsOf insts c) kv.1 kv.2)))

/-- `for cls in sorted(classes.keys())` -/
def classNames (insts : List Inst) : List Name := sortDedup (insts.map (·.cls))

def wrapperDecls (decls : List Inst → Name → List (Name × Name)) (insts : List Inst) :
    List (Name × List (Name × Name)) :=
  (classNames insts).map (fun c => (c, decls insts c))

/-- A variant with a PROCESS-WIDE memo keyed by the class name (`_wrapper_cache[cls]`): the
declarations of a name are generated once and handed to every later evaluator. -/
def cachedDeclsStep (insts : List Inst) (cache : List (Name × List (Name × Name))) (c : Name) :
    List (Name × List (Name × Name)) :=
  match cache.lookup c with
  | some _ => cache
  | none => cache ++ [(c, declsLast insts c)]

/-- the evaluators of a process, one after the other: (declarations each one gets, cache) -/
def cachedRun : List (List Inst) → List (Name × List (Name × Name)) →
    List (List (Name × List (Name × Name)))
  | [], _ => []
  | insts :: rest, cache =>
    let cache' := (classNames insts).foldl (cachedDeclsStep insts) cache
    ((classNames insts).map (fun c => (c, (cache'.lookup c).getD []))) :: cachedRun rest cache'

end PysphVerif.Codegen
