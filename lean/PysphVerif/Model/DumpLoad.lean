/-
C11 — model of `dump` / `load` of particle arrays and solver data.

Transcribes, statement by statement,
  pysph/base/utils.py          : get_particles_info, get_particle_array (as used by the v1 reader)
  pysph/base/particle_array.pyx: ParticleArray.__init__, clear, _initialize, add_property,
                                 add_constant, set_output_arrays, get_property_arrays,
                                 get_number_of_particles, align_particles
  pysph/solver/output.py       : Output.dump, NumpyOutput._dump/_load (versions 1 and 2),
                                 HDFOutput._dump/_load (+ _set_properties, _get_particles …)
  pysph/solver/utils.py        : dump_v1
  cyarray                      : c_align_array (gather), resize + fill (third party, modelled)

The file is an abstract nested dictionary: numpy's `savez`/pickle and h5py are
assumed to be faithful containers (that is what the correspondence check
exercises); the only behaviour of theirs that is modelled is that an HDF5
group is iterated in name order.  `compress` therefore has no effect on the
abstract file.  Values (`V`: property values, defaults; `S`: solver data) are
opaque.  The code modelled is the REPAIRED code (proposed_fixes/C11-*.diff):
the hdf5 reader passes the stored default for properties that were not
written, and the output-array list travels in a group attribute.

Core Lean only.
-/
namespace PysphVerif.DumpLoad

/-- the C types a carray can have (`get_c_type`) -/
inductive CType where
  | double | float | int | long | uint
  deriving DecidableEq, Repr, Inhabited

/-- the two constants of the value type the code refers to:
`0` (default default, and the `Local` tag) and `UINT_MAX` (default of `gid`). -/
class PVal (V : Type) where
  zero : V
  uintMax : V

/-- one property: the carray in `pa.properties[name]` together with
`pa.default_values[name]` and `pa.stride.get(name, 1)` -/
structure PropRec (V : Type) where
  name : String
  ctype : CType
  stride : Nat
  default : V
  data : List V
  deriving Repr, DecidableEq

/-- one constant (`pa.constants[name]`) -/
structure Const (V : Type) where
  name : String
  ctype : CType
  data : List V
  deriving Repr, DecidableEq

/-- a particle array, as far as dump/load can see it -/
structure PArr (V : Type) where
  name : String
  /-- `pa.properties` in dictionary order -/
  props : List (PropRec V)
  consts : List (Const V)
  /-- `pa.output_property_arrays` -/
  outArrs : List String
  /-- `pa.num_real_particles` -/
  nReal : Nat
  deriving Repr, DecidableEq

variable {V : Type}

def findProp (ps : List (PropRec V)) (n : String) : Option (PropRec V) :=
  ps.find? (fun p => p.name == n)

def hasProp (ps : List (PropRec V)) (n : String) : Bool :=
  ps.any (fun p => p.name == n)

def hasConst (cs : List (Const V)) (n : String) : Bool :=
  cs.any (fun c => c.name == n)

/-! ### Python dictionaries as association lists -/

/-- `d[k] = v` -/
def dictSet {β : Type} (d : List (String × β)) (k : String) (v : β) : List (String × β) :=
  if d.any (fun e => e.1 == k) then d.map (fun e => if e.1 == k then (k, v) else e)
  else d ++ [(k, v)]

/-- `d.get(k)` -/
def dictGet? {β : Type} (d : List (String × β)) (k : String) : Option β :=
  (d.find? (fun e => e.1 == k)).map (·.2)

/-! ### ParticleArray methods used by the writers -/

/-- `get_number_of_particles(real)` (CPU path) -/
def numParticles (pa : PArr V) (real : Bool) : Nat :=
  if real then pa.nReal
  else match findProp pa.props "tag" with
    | some t => t.data.length
    | none => match pa.props with
      | p :: _ => p.data.length / p.stride
      | [] => 0

/-- loop body of `get_property_arrays`: `arrays[prop] = prop_array[:num*stride]`;
`none` = `KeyError` (a name in `output_property_arrays` that is no property) -/
def gpaStep (pa : PArr V) (num : Nat) (acc : List (String × List V)) (n : String) :
    Option (List (String × List V)) :=
  match findProp pa.props n with
  | none => none
  | some p => some (dictSet acc n (p.data.take (num * p.stride)))

/-- the names `get_property_arrays` writes -/
def storedNames (pa : PArr V) (all : Bool) : List String :=
  if all || pa.outArrs.length == 0 then pa.props.map (·.name) else pa.outArrs

/-- `get_property_arrays(all, only_real)` -/
def getPropertyArrays (pa : PArr V) (all onlyReal : Bool) : Option (List (String × List V)) :=
  (storedNames pa all).foldlM (gpaStep pa (numParticles pa onlyReal)) []

/-! ### get_particles_info -/

/-- one entry of `prop_info` -/
structure PInfo (V : Type) where
  name : String
  ctype : CType
  default : V
  stride : Nat
  /-- `'data'`: `None` in the info; the npz reader puts the stored array here -/
  data : Option (List V)
  deriving Repr, DecidableEq

/-- `info[parray.name]` (`lb_props` is written but read by neither reader: left out) -/
structure AInfo (V : Type) where
  properties : List (String × PInfo V)
  constants : List (Const V)
  outArrs : List String
  deriving Repr, DecidableEq

def propInfo (p : PropRec V) : String × PInfo V :=
  (p.name, { name := p.name, ctype := p.ctype, default := p.default, stride := p.stride,
             data := none })

def arrayInfo (pa : PArr V) : AInfo V :=
  { properties := pa.props.map propInfo, constants := pa.consts, outArrs := pa.outArrs }

def infoStep (acc : List (String × AInfo V)) (pa : PArr V) : List (String × AInfo V) :=
  dictSet acc pa.name (arrayInfo pa)

/-- `dict(get_particles_info(particles))` -/
def particlesInfo (arrays : List (PArr V)) : List (String × AInfo V) :=
  arrays.foldl infoStep []

/-! ### the abstract file -/

structure Opts where
  detailed : Bool
  onlyReal : Bool
  compress : Bool
  deriving Repr, DecidableEq

/-- `particle_data[name]` of a version-2 npz file -/
structure NpzArr (V : Type) where
  info : AInfo V
  /-- `particle_data[name]["arrays"]` -/
  arrays : Option (List (String × List V))
  deriving Repr, DecidableEq

/-- one dataset of `particles/<name>/arrays` with its attributes -/
structure H5Data (V : Type) where
  data : List V
  stored : Bool
  aName : String
  aType : CType
  aDefault : V
  aStride : Nat
  deriving Repr, DecidableEq

/-- the group `particles/<name>` -/
structure H5Arr (V : Type) where
  /-- attribute `output_property_arrays`; absent in files written before the repair -/
  outAttr : Option (List String)
  constants : List (Const V)
  arrays : List (String × H5Data V)
  deriving Repr, DecidableEq

inductive File (V S : Type) where
  | npz2 (solver : List (String × S)) (particles : List (String × NpzArr V))
  | npz1 (solver : List (String × S)) (arrays : List (String × List (String × List V)))
  | hdf5 (solver : List (String × S)) (particles : List (String × H5Arr V))
  /-- an npz file without / with an unknown `version` entry -/
  | npzBad (version : Option Nat)

/-! ### writers -/

def arrayDataStep (o : Opts) (acc : List (String × List (String × List V))) (pa : PArr V) :
    Option (List (String × List (String × List V))) :=
  (getPropertyArrays pa o.detailed o.onlyReal).map (dictSet acc pa.name)

/-- `Output.dump`: `self.all_array_data` -/
def allArrayData (o : Opts) (arrays : List (PArr V)) :
    Option (List (String × List (String × List V))) :=
  arrays.foldlM (arrayDataStep o) []

def npzEntry (aad : List (String × List (String × List V))) (e : String × AInfo V) :
    String × NpzArr V :=
  (e.1, { info := e.2, arrays := dictGet? aad e.1 })

/-- `NumpyOutput._dump` (savez and savez_compressed give the same abstract file) -/
def dumpNpz {S : Type} (o : Opts) (arrays : List (PArr V)) (sd : List (String × S)) :
    Option (File V S) :=
  (allArrayData o arrays).map fun aad =>
    File.npz2 sd ((particlesInfo arrays).map (npzEntry aad))

/-- `HDFOutput._set_properties`, one property -/
def h5Dataset (data : List (String × List V)) (e : String × PInfo V) : String × H5Data V :=
  match dictGet? data e.1 with
  | some arr => (e.1, { data := arr, stored := true, aName := e.2.name, aType := e.2.ctype,
                        aDefault := e.2.default, aStride := e.2.stride })
  | none => (e.1, { data := [], stored := false, aName := e.2.name, aType := e.2.ctype,
                    aDefault := e.2.default, aStride := e.2.stride })

/-- `HDFOutput._dump`, one particle array; `none` = `KeyError` -/
def h5Entry (aad : List (String × List (String × List V))) (e : String × AInfo V) :
    Option (String × H5Arr V) :=
  (dictGet? aad e.1).map fun data =>
    (e.1, { outAttr := some e.2.outArrs, constants := e.2.constants,
            arrays := e.2.properties.map (h5Dataset data) })

def dumpHdf5 {S : Type} (o : Opts) (arrays : List (PArr V)) (sd : List (String × S)) :
    Option (File V S) :=
  (allArrayData o arrays).bind fun aad =>
    ((particlesInfo arrays).mapM (h5Entry aad)).map (File.hdf5 sd)

def v1Step (o : Opts) (acc : List (String × List (String × List V))) (pa : PArr V) :
    Option (List (String × List (String × List V))) :=
  (getPropertyArrays pa o.detailed o.onlyReal).map (dictSet acc pa.name)

/-- `pysph.solver.utils.dump_v1` -/
def dumpV1 {S : Type} (o : Opts) (arrays : List (PArr V)) (sd : List (String × S)) :
    Option (File V S) :=
  (arrays.foldlM (v1Step o) []).map (File.npz1 sd)

inductive Fmt where
  | npz | hdf5
  deriving DecidableEq, Repr

/-- `pysph.solver.output.dump` with an explicit extension (h5py present) -/
def dump {S : Type} (f : Fmt) (o : Opts) (arrays : List (PArr V)) (sd : List (String × S)) :
    Option (File V S) :=
  match f with
  | .npz => dumpNpz o arrays sd
  | .hdf5 => dumpHdf5 o arrays sd

/-! ### ParticleArray construction, as the readers use it -/

variable [PVal V] [DecidableEq V]

/-- `clear()`: the three properties every array has -/
def clearProps (defaultTag : V) : List (PropRec V) :=
  [ { name := "tag", ctype := .int, stride := 1, default := defaultTag, data := [] },
    { name := "pid", ctype := .int, stride := 1, default := PVal.zero, data := [] },
    { name := "gid", ctype := .uint, stride := 1, default := PVal.uintMax, data := [] } ]

/-- the array right after `clear()` in `__init__` (constants not yet added) -/
def emptyArr (name : String) : PArr V :=
  { name := name, props := clearProps PVal.zero, consts := [], outArrs := [], nReal := 0 }

/-- `self.default_values[name] = default; if stride != 1: self.stride[name] = stride` -/
def setMetaRec (name : String) (d : V) (stride : Nat) (p : PropRec V) : PropRec V :=
  if p.name == name then
    { p with default := d, stride := if stride != 1 then stride else p.stride }
  else p

def setMeta (ps : List (PropRec V)) (name : String) (d : V) (stride : Nat) : List (PropRec V) :=
  ps.map (setMetaRec name d stride)

/-- `arr.resize(n_elem*prop_stride); arr.get_npy_array()[:] = self.default_values[prop]` -/
def resizeRec (nElem : Nat) (p : PropRec V) : PropRec V :=
  { p with data := List.replicate (nElem * p.stride) p.default }

/-- `self.properties[name].set_data(arr)` -/
def setDataRec (name : String) (d : List V) (p : PropRec V) : PropRec V :=
  if p.name == name then { p with data := d } else p

/-- `numpy.sum(arr == Local)` -/
def countLocal (d : List V) : Nat := (d.filter (fun x => x == PVal.zero)).length

/-- `add_property(name, type, default, data, stride)`; `data = none` is Python's
`None`; `.error` = the `ValueError` for inconsistent sizes.  (Scalar `data` is
not used by the readers and not modelled.) -/
def addProperty (pa : PArr V) (name : String) (ty : CType) (default? : Option V)
    (data? : Option (List V)) (stride : Nat) : Except String (PArr V) :=
  let nP := numParticles pa false
  let d := data?.getD []
  -- "make sure the size of the supplied array is consistent"
  let sizeOk := nP == 0 || d.length == 0 || (nP == d.length / stride && d.length % stride == 0)
  if !sizeOk then .error "sizes" else
  let ex := hasProp pa.props name
  -- "setup the default values"
  let dflt : V := match default? with
    | some x => x
    | none => match findProp pa.props name with
      | none => PVal.zero
      | some p => p.default
  let props1 := setMeta pa.props name dflt stride
  let fresh (dat : List V) : PropRec V :=
    { name := name, ctype := ty, stride := stride, default := dflt, data := dat }
  if nP == 0 then
    if d.length == 0 then
      if ex then .ok { pa with props := props1 }
      else .ok { pa with props := props1 ++ [fresh []] }
    else
      let nElem := d.length / stride
      let props2 := props1.map (resizeRec nElem)
      let nReal := if name == "tag" then countLocal d else nElem
      if ex then .ok { pa with props := props2.map (setDataRec name d), nReal := nReal }
      else .ok { pa with props := props2 ++ [fresh d], nReal := nReal }
  else
    if d.length == 0 then
      if ex then .ok { pa with props := props1 }
      else .ok { pa with props := props1 ++ [fresh (List.replicate (nP * stride) dflt)] }
    else
      if ex then .ok { pa with props := props1.map (setDataRec name d) }
      else .ok { pa with props := props1 ++ [fresh d] }

/-! #### align_particles -/

structure AlignSt where
  /-- `index_array[0 .. i)` -/
  idx : List Nat
  next : Nat
  nreal : Nat
  moves : Nat
  deriving Repr, DecidableEq

/-- loop body of `align_particles` for particle `i = idx.length` -/
def alignStep (s : AlignSt) (isLocal : Bool) : AlignSt :=
  let i := s.idx.length
  if isLocal then
    if i != s.next then
      { idx := (s.idx.set s.next i) ++ [s.idx.getD s.next 0], next := s.next + 1,
        nreal := s.nreal + 1, moves := s.moves + 1 }
    else
      { idx := s.idx ++ [i], next := s.next + 1, nreal := s.nreal + 1, moves := s.moves }
  else
    { idx := s.idx ++ [i], next := s.next, nreal := s.nreal, moves := s.moves }

def alignIndex (locals : List Bool) : AlignSt :=
  locals.foldl alignStep { idx := [], next := 0, nreal := 0, moves := 0 }

/-- cyarray `c_align_array(index_array, stride)`, element `k` -/
def gatherAt (idx : List Nat) (stride : Nat) (old : List V) (k : Nat) (x : V) : V :=
  let i := k / stride
  if i < old.length / stride then
    let ni := idx.getD i i
    if i != ni then old.getD (ni * stride + k % stride) x else x
  else x

def gather (idx : List Nat) (stride : Nat) (old : List V) : List V :=
  old.mapIdx (gatherAt idx stride old)

def gatherRec (idx : List Nat) (p : PropRec V) : PropRec V :=
  { p with data := gather idx p.stride p.data }

/-- `align_particles()` -/
def alignParticles (pa : PArr V) : Except String (PArr V) :=
  match findProp pa.props "tag" with
  | none => .error "KeyError tag"
  | some t =>
    let st := alignIndex ((t.data.take (numParticles pa false)).map (fun x => x == PVal.zero))
    .ok { pa with nReal := st.nreal,
                  props := if st.moves > 0 then pa.props.map (gatherRec st.idx) else pa.props }

/-! #### _initialize, constants, output arrays -/

/-- `nv = max(nv, len(d)//stride)` -/
def nvStep (nv : Nat) (e : String × PInfo V) : Nat :=
  match e.2.data with
  | some d => max nv (d.length / e.2.stride)
  | none => nv

/-- `if nv > 1 and len(prop['data']) == 1: prop_info['data'] = numpy.ones(nv)*data` -/
def bcast (nv : Nat) (d : List V) : List V :=
  match d with
  | [x] => if nv > 1 then List.replicate nv x else d
  | _ => d

def initStep (nv : Nat) (pa : PArr V) (e : String × PInfo V) : Except String (PArr V) :=
  addProperty pa e.1 e.2.ctype (some e.2.default) (e.2.data.map (bcast nv)) e.2.stride

/-- `_initialize(**props)` where every value is a property-info dictionary -/
def initializeArr (name : String) (props : List (String × PInfo V)) : Except String (PArr V) :=
  if props.length == 0 then .ok (emptyArr name) else
  let nv := props.foldl nvStep 0
  (props.foldlM (initStep nv) (emptyArr name)).bind alignParticles

/-- `_create_c_array_from_npy_array`: the carray type for a numpy dtype -/
def constCType : CType → Option CType
  | .int => some .long
  | .long => some .long
  | .float => some .float
  | .double => some .double
  | .uint => none

/-- `add_constant(name, data)` -/
def addConstant (pa : PArr V) (c : Const V) : Except String (PArr V) :=
  if hasConst pa.consts c.name then .error "constant exists"
  else if hasProp pa.props c.name then .error "property exists"
  else match constCType c.ctype with
    | none => .error "TypeError dtype"
    | some t => .ok { pa with consts := pa.consts ++ [{ c with ctype := t }] }

/-- `ParticleArray(name=name, constants=constants, **props)` -/
def mkParticleArray (name : String) (consts : List (Const V)) (props : List (String × PInfo V)) :
    Except String (PArr V) :=
  (initializeArr name props).bind fun pa => consts.foldlM addConstant pa

/-- `set_output_arrays(props)`; `.error` = `AttributeError` -/
def setOutputArrays (pa : PArr V) (names : List String) : Except String (PArr V) :=
  if names.all (fun n => hasProp pa.props n || hasConst pa.consts n) then
    .ok { pa with outArrs := names }
  else .error "AttributeError"

/-! ### readers -/

/-- `array_info['properties'][prop]['data'] = data`; `.error` = `KeyError` -/
def putDataStep (props : List (String × PInfo V)) (e : String × List V) :
    Except String (List (String × PInfo V)) :=
  if props.any (fun q => q.1 == e.1) then
    .ok (props.map (fun q => if q.1 == e.1 then (q.1, { q.2 with data := some e.2 }) else q))
  else .error "KeyError"

/-- version-2 npz reader, one array -/
def loadNpzArr (name : String) (a : NpzArr V) : Except String (PArr V) :=
  match a.arrays with
  | none => .error "KeyError arrays"
  | some arrs =>
    (arrs.foldlM putDataStep a.info.properties).bind fun props =>
    (mkParticleArray name a.info.constants props).bind fun pa =>
    setOutputArrays pa a.info.outArrs

/-- insertion sort by key: the order in which h5py iterates a group -/
def insertByName {β : Type} (e : String × β) : List (String × β) → List (String × β)
  | [] => [e]
  | x :: xs => if e.1 ≤ x.1 then e :: x :: xs else x :: insertByName e xs

def sortByName {β : Type} (l : List (String × β)) : List (String × β) :=
  l.foldr insertByName []

def insertConst (c : Const V) : List (Const V) → List (Const V)
  | [] => [c]
  | x :: xs => if c.name ≤ x.name then c :: x :: xs else x :: insertConst c xs

def sortConsts (l : List (Const V)) : List (Const V) := l.foldr insertConst []

/-- loop body of `HDFOutput._get_particles` over `arrays_grp.items()`;
state = (array, output_array) -/
def h5PropStep (st : PArr V × List String) (e : String × H5Data V) :
    Except String (PArr V × List String) :=
  if e.2.stored then
    (addProperty st.1 e.2.aName e.2.aType (some e.2.aDefault) (some e.2.data) e.2.aStride).map
      fun pa => (pa, st.2 ++ [e.1])
  else
    -- repaired: `default=default` is passed here too
    (addProperty st.1 e.2.aName e.2.aType (some e.2.aDefault) none e.2.aStride).map
      fun pa => (pa, st.2)

/-- hdf5 reader, one array -/
def loadH5Arr (name : String) (a : H5Arr V) : Except String (PArr V) :=
  (mkParticleArray name (sortConsts a.constants) []).bind fun pa0 =>
  ((sortByName a.arrays).foldlM h5PropStep (pa0, [])).bind fun st =>
  setOutputArrays st.1 (match a.outAttr with
    | some l => l
    | none => st.2)

/-! #### version-1 reader: `get_particle_array(name=name, **arrays)` -/

def defaultPropNames : List String :=
  ["x", "y", "z", "u", "v", "w", "m", "h", "rho", "p", "au", "av", "aw", "gid", "pid", "tag"]

def v1OutArrs : List String :=
  ["x", "y", "z", "u", "v", "w", "rho", "m", "h", "pid", "gid", "tag"]

def v1CType (n : String) : CType :=
  if n == "tag" || n == "pid" then .int else if n == "gid" then .uint else .double

/-- `prop_dict[prop]` for a keyword argument; no `'default'`/`'stride'` key, so
`add_property` is called with `default=None`, `stride=1` -/
def v1AddStored (pa : PArr V) (e : String × List V) : Except String (PArr V) :=
  addProperty pa e.1 (v1CType e.1) none (some e.2) 1

/-- a default property that was not passed -/
def v1AddDefault (np nv : Nat) (pa : PArr V) (n : String) : Except String (PArr V) :=
  if n == "gid" then
    addProperty pa n .uint (some PVal.uintMax) (some (bcast nv (List.replicate np PVal.uintMax))) 1
  else if n == "tag" || n == "pid" then addProperty pa n .int (some PVal.zero) none 1
  else addProperty pa n .double (some PVal.zero) none 1

/-- version-1 npz reader, one array.  `np` is `data.size` of the LAST keyword
(the loop overwrites it).  The len-1 broadcast of `_initialize` is included. -/
def loadV1Arr (name : String) (arrs : List (String × List V)) : Except String (PArr V) :=
  let np := match arrs.getLast? with
    | some e => e.2.length
    | none => 0
  let missing := defaultPropNames.filter (fun n => !(arrs.any (fun e => e.1 == n)))
  let gidLen := if missing.contains "gid" then np else 0
  let nv := arrs.foldl (fun nv e => max nv e.2.length) gidLen
  let arrs' := arrs.map (fun e => (e.1, bcast nv e.2))
  (arrs'.foldlM v1AddStored (emptyArr name)).bind fun pa1 =>
  (missing.foldlM (v1AddDefault np nv) pa1).bind fun pa2 =>
  (alignParticles pa2).bind fun pa3 =>
  setOutputArrays pa3 v1OutArrs

/-! #### whole files -/

/-- `ret["arrays"][name] = array` over a list of `(name, reader result)` -/
def collectStep {β : Type} (ld : String → β → Except String (PArr V))
    (acc : List (String × PArr V)) (e : String × β) : Except String (List (String × PArr V)) :=
  (ld e.1 e.2).map (dictSet acc e.1)

/-- `pysph.solver.output.load`: `(solver_data, arrays)` -/
def load {S : Type} : File V S → Except String (List (String × S) × List (String × PArr V))
  | .npz2 sd ps => (ps.foldlM (collectStep loadNpzArr) []).map (sd, ·)
  | .npz1 sd as => (as.foldlM (collectStep loadV1Arr) []).map (sd, ·)
  | .hdf5 sd ps =>
      ((sortByName ps).foldlM (collectStep loadH5Arr) []).map (sortByName sd, ·)
  | .npzBad none => .error "Wrong file type! No version number recorded."
  | .npzBad (some _) => .error "Version not understood!"

end PysphVerif.DumpLoad
