import PysphVerif.Model.Determinism
/-!
# C05: the parts of the neighbour search whose result must not depend on threads
or options (core Lean only)

## 1. the level-1 reduction of the parallel octree build

`pysph/base/octree.pyx`, `Octree._c_build_tree_level1` and
`CompressedOctree._c_build_tree_level1` - the path `c_build_tree` takes whenever
`get_number_of_threads() > 1`, i.e. whenever the *environment* offers threads,
whatever `--openmp` says:

```
for i in range(num_threads): threads_hmax[i] = vector[double](8)      # zeros
with nogil, parallel():
    for p in prange(n, schedule='static'):
        tid = threadid()
        oct_id = k + 2*j + 4*i                          # octant of particle p
        threads_hmax[tid][oct_id] = fmax(threads_hmax[tid][oct_id], src_h_ptr[p])
for oct_id in range(8):
    for tid in range(num_threads):
        hmax_children[oct_id] = fmax(threads_hmax[tid][oct_id], hmax_children[oct_id])
```

against the serial build (`_c_build_tree`), one loop over all particles:
`hmax_children[oct_id] = fmax(hmax_children[oct_id], src_h_ptr[q])`.

The parallel loop is modelled with the micro-step machinery of
`Model/Determinism.lean`: the state holds one *table row* per thread followed by
one (read-only) *particle row* per particle; thread `t` is handed its own table row
as the only destination, its "neighbour list" is its chunk of particles; one
micro-step = one iteration of the `prange` body.  A schedule is any hand-out of the
particles to threads (`chunks`) and any interleaving (`sched`).

`racy*` is the same loop with ONE shared table and the read-modify-write split into
its load and its store (what `hmax_children[oct_id] = fmax(hmax_children[oct_id], h)`
is when several threads execute it without synchronisation).

## 2. the pruning test of the tree walk and the pair filter of every search

`pysph/base/octree_nnps.pyx`, `OctreeNNPS._get_neighbors`:

```
eff_radius = 0.5*node.length + fmax(radius_scale*q_h, radius_scale*node.hmax)
if fabs(x_centre - q_x) >= eff_radius or fabs(y_centre - q_y) >= eff_radius or \
   fabs(z_centre - q_z) >= eff_radius: return
```

and the filter every `find_nearest_neighbors` applies to a candidate
(`linked_list_nnps.pyx`, `octree_nnps.pyx`, ...):
`if (xij2 < hi2) or (xij2 < hj2): nbrs.c_append(j)` with `hi2 = (k*h_i)^2`,
`hj2 = (k*h_j)^2` - gather OR scatter.
-/
namespace PysphVerif.TreeReduce
open PysphVerif.Determinism

/-! ## level-1 reduction -/

/-- a row of the state of the parallel loop: the `threads_hmax[tid]` table of a
thread, or a particle (its octant and its `h`) -/
inductive TRow (α : Type) where
  | tab (t : Nat → α)
  | part (oct : Nat) (h : α)

/-- `tab[oct] = fmax(tab[oct], h)` -/
def bump {α : Type} [Max α] (tab : Nat → α) (oct : Nat) (h : α) : Nat → α :=
  fun o => if o = oct then max (tab o) h else tab o

/-- one iteration of the `prange` body: the thread's table absorbs a particle -/
def absorbPart {α : Type} [Max α] (r s : TRow α) : TRow α :=
  match r, s with
  | .tab t, .part o h => .tab (bump t o h)
  | r, _ => r

/-- what a micro-step may read of another row: particles only (never written) -/
def TRow.rd {α : Type} : TRow α → Option (Nat × α)
  | .tab _ => none
  | .part o h => some (o, h)

/-- the table of a row (a particle row has none: `zero`) -/
def TRow.table {α : Type} (zero : α) : TRow α → Nat → α
  | .tab t => t
  | .part _ _ => fun _ => zero

/-- the particle rows -/
def partRows {α : Type} (oct : Nat → Nat) (h : Nat → α) (n : Nat) : List (TRow α) :=
  (List.range n).map (fun p => TRow.part (oct p) (h p))

/-- initial state: `T` zeroed tables, then the `n` particles -/
def initState {α : Type} (zero : α) (oct : Nat → Nat) (h : Nat → α) (T n : Nat) :
    List (TRow α) :=
  (List.replicate T (TRow.tab (fun _ => zero))) ++ partRows oct h n

/-- the chunk of thread `t` as row numbers (particle `p` is row `T + p`) -/
def chunkRows (T : Nat) (chunks : List (List Nat)) (t : Nat) : List Nat :=
  ((chunks[t]?).getD []).map (· + T)

/-- the parallel region under a schedule: thread `t` owns table row `t` -/
def parTables {α : Type} [Max α] (zero : α) (oct : Nat → Nat) (h : Nat → α) (n : Nat)
    (chunks : List (List Nat)) (sched : List Nat) : List (TRow α) :=
  runLoop absorbPart (chunkRows chunks.length chunks)
    ((List.range chunks.length).map (fun t => [t])) sched
    (initState zero oct h chunks.length n)

/-- the serial merge: `hmax_children[o] = fmax(threads_hmax[tid][o], hmax_children[o])`
for `tid = 0 .. T-1` -/
def mergeStep {α : Type} [Max α] (zero : α) (acc : Nat → α) (r : TRow α) : Nat → α :=
  fun o => max (r.table zero o) (acc o)

def mergeTables {α : Type} [Max α] (zero : α) (rows : List (TRow α)) : Nat → α :=
  rows.foldl (mergeStep zero) (fun _ => zero)

/-- `hmax_children` of the parallel build -/
def parHmax {α : Type} [Max α] (zero : α) (oct : Nat → Nat) (h : Nat → α) (n : Nat)
    (chunks : List (List Nat)) (sched : List Nat) : Nat → α :=
  mergeTables zero ((parTables zero oct h n chunks sched).take chunks.length)

/-- body of the serial loop -/
def serialStep {α : Type} [Max α] (oct : Nat → Nat) (h : Nat → α) (tab : Nat → α) (p : Nat) :
    Nat → α :=
  bump tab (oct p) (h p)

/-- `hmax_children` of the serial build: one loop over the particles in `ps` -/
def serialHmax {α : Type} [Max α] (zero : α) (oct : Nat → Nat) (h : Nat → α) (ps : List Nat) :
    Nat → α :=
  ps.foldl (serialStep oct h) (fun _ => zero)

/-! ### the same loop on one shared table, load and store as separate micro-steps -/

/-- shared table and one register per thread -/
structure Racy (α : Type) where
  shared : Nat → α
  reg : Nat → α

/-- micro-steps are encoded as `Op`s: `dst = 2*tid` is the load of particle `src`
(`reg[tid] = shared[oct src]`), `dst = 2*tid + 1` the store
(`shared[oct src] = fmax(reg[tid], h src)`) -/
def racyProg (t : Nat) (chunk : List Nat) : List Op :=
  chunk.flatMap (fun p => [Op.mk (2 * t) p, Op.mk (2 * t + 1) p])

def racyStep {α : Type} [Max α] (oct : Nat → Nat) (h : Nat → α) (s : Racy α) (op : Op) : Racy α :=
  let t := op.dst / 2
  if op.dst % 2 = 0 then
    { s with reg := fun t' => if t' = t then s.shared (oct op.src) else s.reg t' }
  else
    { s with shared := fun o => if o = oct op.src then max (s.reg t) (h op.src) else s.shared o }

/-- programs of all threads -/
def racyProgs : Nat → List (List Nat) → List (List Op)
  | _, [] => []
  | t, c :: cs => racyProg t c :: racyProgs (t + 1) cs

/-- `hmax_children` when every thread accumulates into the shared table -/
def racyHmax {α : Type} [Max α] (zero : α) (oct : Nat → Nat) (h : Nat → α)
    (chunks : List (List Nat)) (sched : List Nat) : Nat → α :=
  ((interleave (racyProgs 0 chunks) sched).foldl (racyStep oct h)
    { shared := fun _ => zero, reg := fun _ => zero }).shared

/-! ## pruning test and pair filter -/

/-- `fabs(c - q) >= 0.5*length + fmax(k*q_h, k*hmax)` on one axis -/
def prunedOnAxis {α : Type} [Add α] [Sub α] [Mul α] [Neg α] [Max α] [LE α]
    (half k hq hmax c q : α) : Prop :=
  half + max (k * hq) (k * hmax) ≤ max (c - q) (-(c - q))

/-- the node is skipped: pruned on at least one of the three axes -/
def pruned {α : Type} [Add α] [Sub α] [Mul α] [Neg α] [Max α] [LE α]
    (half k hq hmax : α) (c q : α × α × α) : Prop :=
  prunedOnAxis half k hq hmax c.1 q.1 ∨ prunedOnAxis half k hq hmax c.2.1 q.2.1 ∨
    prunedOnAxis half k hq hmax c.2.2 q.2.2

/-- squared distance -/
def dist2 {α : Type} [Add α] [Sub α] [Mul α] (a b : α × α × α) : α :=
  (a.1 - b.1) * (a.1 - b.1) + (a.2.1 - b.2.1) * (a.2.1 - b.2.1) +
    (a.2.2 - b.2.2) * (a.2.2 - b.2.2)

/-- the filter of every neighbour search: gather OR scatter -/
def isNbr {α : Type} [Mul α] [LT α] (k d2 hi hj : α) : Prop :=
  d2 < (k * hi) * (k * hi) ∨ d2 < (k * hj) * (k * hj)

/-- the gather radius alone (what a search that takes `hj2 = hi2` applies) -/
def isNbrGather {α : Type} [Mul α] [LT α] (k d2 hi : α) : Prop :=
  d2 < (k * hi) * (k * hi)

end PysphVerif.TreeReduce
