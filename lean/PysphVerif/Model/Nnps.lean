/-
C01 — model of the neighbour search (front end, acceptance test, candidate
families, storage sub-models, neighbour cache, tree query).

Transcribes
  pysph/base/nnps_base.pyx : CPUDomainManager._compute_cell_size_for_binning,
      NNPS._compute_bounds (exact part), NNPSBase.brute_force_neighbors,
      NeighborCache (update / _find_neighbors / get_neighbors_raw)
  pysph/base/nnps_base.pxd : real_to_int, find_cell_id_raw, flatten_raw,
      get_valid_cell_index, norm2
  pysph/base/linked_list_nnps.pyx : LinkedListNNPS._bin (head insertion),
      _refresh (UINT_MAX fill), find_nearest_neighbors (3x3x3 stencil, chain
      walk, acceptance test `xij2 < hi2 or xij2 < hj2`)
  pysph/base/octree_nnps.pyx / octree.pyx : OctreeNNPS._get_neighbors (pruning
      test on a node's cube inflated by the search radius)

Polymorphic in the number type: the same definitions are *run* at `Rat` on the
exact rational value of every input double (dyadic-grid inputs make the real
code's double arithmetic exact, so the two must agree exactly, ties included)
and *reasoned about* over a linearly ordered field.  `floor` is a parameter
(`Rat.floor` when run, `Int.floor` in the theorems).  Core Lean only.
-/
namespace PysphVerif.Nnps

/-- one particle as the neighbour search sees it -/
structure Pt (α : Type) where
  x : α
  y : α
  z : α
  h : α
  deriving Repr

section
variable {α : Type} [Add α] [Sub α] [Mul α] [LT α] [DecidableLT α]

def sq (a : α) : α := a * a

/-- `norm2(dx, dy, dz)` of nnps_base.pxd -/
def dist2 (p q : Pt α) : α := sq (p.x - q.x) + sq (p.y - q.y) + sq (p.z - q.z)

/-- gather test `xij2 < hi2`, `hi2 = (radius_scale*h_i)^2` -/
def gather (rs : α) (q p : Pt α) : Bool := decide (dist2 p q < sq (rs * q.h))
/-- scatter test `xij2 < hj2` -/
def scatter (rs : α) (q p : Pt α) : Bool := decide (dist2 p q < sq (rs * p.h))

/-- the acceptance test of every `find_nearest_neighbors`:
`(xij2 < hi2) or (xij2 < hj2)`; `q` destination, `p` source -/
def isNbr (rs : α) (q p : Pt α) : Bool := gather rs q p || scatter rs q p

/-- acceptance of source index `j` (out-of-range indices are rejected) -/
def accepts (rs : α) (src : List (Pt α)) (q : Pt α) (j : Nat) : Bool :=
  match src[j]? with
  | some p => isNbr rs q p
  | none => false

/-- the common back end: candidate indices filtered by the acceptance test,
in candidate order (what is appended to `nbrs`) -/
def nbrsOf (rs : α) (src : List (Pt α)) (q : Pt α) (cands : List Nat) : List Nat :=
  cands.filter (accepts rs src q)

/-- `brute_force_neighbors`: every source index is a candidate -/
def bruteForce (rs : α) (src : List (Pt α)) (q : Pt α) : List Nat :=
  nbrsOf rs src q (List.range src.length)

end

/-! ## front end: cell size -/
section
variable {α : Type} [Mul α] [LT α] [DecidableLT α] [OfNat α 0] [OfNat α 1] [Neg α]

/-- cyarray `update_min_max`: `maximum` (0 for an empty array) -/
def carrayMax : List α → α
  | [] => 0
  | a :: as => as.foldl (fun m x => if m < x then x else m) a
/-- cyarray `update_min_max`: `minimum` (0 for an empty array) -/
def carrayMin : List α → α
  | [] => 0
  | a :: as => as.foldl (fun m x => if x < m then x else m) a

/-- one array's step of `_compute_cell_size_for_binning` for `hmax` -/
def hmaxStep (hmax : α) (hs : List α) : α :=
  if hmax < carrayMax hs then carrayMax hs else hmax
/-- … and for `hmin`; `none` is `dtype_max` -/
def hminStep (hmin : Option α) (hs : List α) : Option α :=
  match hmin with
  | none => some (carrayMin hs)
  | some m => if carrayMin hs < m then some (carrayMin hs) else some m

/-- `hmax` over all arrays, initialised with `-1.0` -/
def hmaxAll (hss : List (List α)) : α := hss.foldl hmaxStep (-1)
def hminAll (hss : List (List α)) : Option α := hss.foldl hminStep none

/-- `_compute_cell_size_for_binning`: `cell_size = radius_scale*hmax`, replaced
by 1 when below `tiny` (= 1e-6) -/
def cellSize (rs tiny : α) (hss : List (List α)) : α :=
  if rs * hmaxAll hss < tiny then 1 else rs * hmaxAll hss
/-- `self.hmin = radius_scale*hmin` -/
def hminScaled (rs : α) (hss : List (List α)) : Option α :=
  (hminAll hss).map (fun m => rs * m)
end

/-! ## Grid family: 3×3×3 stencil over cell size `c` -/
section
variable {α : Type} [Add α] [Sub α] [Mul α] [Div α] [LT α] [DecidableLT α]

/-- `real_to_int(x - xmin, cell_size)` : `floor((x - xmin)/c)` -/
def cellOf (fl : α → Int) (c x0 x : α) : Int := fl ((x - x0) / c)

/-- integer cell triple of a point relative to the origin `o` -/
def cell3 (fl : α → Int) (c : α) (o p : Pt α) : Int × Int × Int :=
  (cellOf fl c o.x p.x, cellOf fl c o.y p.y, cellOf fl c o.z p.z)

/-- `b` lies in the 3×3×3 stencil around `a` (shifts −1, 0, 1 per axis) -/
def inStencil (a b : Int × Int × Int) : Bool :=
  decide ((a.1 - b.1).natAbs ≤ 1) && decide ((a.2.1 - b.2.1).natAbs ≤ 1) &&
    decide ((a.2.2 - b.2.2).natAbs ≤ 1)

/-- the Grid family's candidates: every source particle whose cell lies in the
stencil of the destination's cell (each exactly once, in index order) -/
def gridCands (fl : α → Int) (c : α) (o : Pt α) (src : List (Pt α)) (q : Pt α) : List Nat :=
  (List.range src.length).filter (fun j =>
    match src[j]? with
    | some p => inStencil (cell3 fl c o q) (cell3 fl c o p)
    | none => false)

/-- neighbours returned by a Grid-family class -/
def gridNbrs (fl : α → Int) (rs c : α) (o : Pt α) (src : List (Pt α)) (q : Pt α) : List Nat :=
  nbrsOf rs src q (gridCands fl c o src q)
end

/-! ## Linked-list storage (`heads` / `nexts`)

`head : cell → Option Nat`, `next : particle → Option Nat`; `none` is
`UINT_MAX`.  `_bin` inserts particle `i` of flattened cell `cid` at the head:
`next[i] = head[cid]; head[cid] = i`. -/

structure LL where
  head : Nat → Option Nat
  next : Nat → Option Nat

/-- `_refresh`: everything `UINT_MAX` -/
def LL.empty : LL := { head := fun _ => none, next := fun _ => none }

/-- one iteration of the loop in `LinkedListNNPS._bin` -/
def LL.insert (s : LL) (ic : Nat × Nat) : LL :=
  { head := fun c => if c = ic.2 then some ic.1 else s.head c,
    next := fun j => if j = ic.1 then s.head ic.2 else s.next j }

/-- `_bin` over the particles `(i, cid i)` in order -/
def LL.build (items : List (Nat × Nat)) : LL := items.foldl LL.insert LL.empty

/-- the `while (_next != UINT_MAX)` walk, with fuel -/
def LL.walk (s : LL) : Nat → Option Nat → List Nat
  | 0, _ => []
  | _, none => []
  | fuel + 1, some i => i :: LL.walk s fuel (s.next i)

/-- chain of cell `c` (fuel = number of particles suffices) -/
def LL.traverse (s : LL) (n c : Nat) : List Nat := s.walk n (s.head c)

/-- the 27 shifts in the loop order `ix, iy, iz` of `find_nearest_neighbors` -/
def shifts27 : List (Int × Int × Int) :=
  [(-1 : Int), 0, 1].flatMap (fun a => [(-1 : Int), 0, 1].flatMap (fun b =>
    [(-1 : Int), 0, 1].map (fun c => (a, b, c))))

/-! ## Neighbour cache

Per-thread append-only buffers; `_find_neighbors(d)` on thread `t` records
`pid_to_tid[d] = t`, `start = len(buf t)`, appends, `stop = len(buf t)`,
`cached[d] = 1`; `get_neighbors_raw(d)` fills on a miss (thread 0 in the
serial caller) and returns `buf[tid][start:stop]`.  `update()` resets. -/

structure Cache where
  bufs : Nat → List Nat          -- thread id → buffer
  start : Nat → Nat
  stop : Nat → Nat
  tid : Nat → Nat
  cached : Nat → Bool

/-- `NeighborCache.update` -/
def Cache.reset : Cache :=
  { bufs := fun _ => [], start := fun _ => 0, stop := fun _ => 0, tid := fun _ => 0,
    cached := fun _ => false }

/-- `_find_neighbors(d_idx)` executed by thread `t`; `find d` is what
`find_nearest_neighbors(d, ·)` appends -/
def Cache.fill (find : Nat → List Nat) (s : Cache) (td : Nat × Nat) : Cache :=
  let t := td.1
  let d := td.2
  { bufs := fun u => if u = t then s.bufs t ++ find d else s.bufs u,
    start := fun e => if e = d then (s.bufs t).length else s.start e,
    stop := fun e => if e = d then (s.bufs t).length + (find d).length else s.stop e,
    tid := fun e => if e = d then t else s.tid e,
    cached := fun e => if e = d then true else s.cached e }

/-- `find_all_neighbors` under a schedule: a list of `(thread, d_idx)` fills in
the order they happen; a destination already cached is skipped (the `if
self._cached.data[d_idx] == 0` guard) -/
def Cache.fillGuarded (find : Nat → List Nat) (s : Cache) (td : Nat × Nat) : Cache :=
  if s.cached td.2 then s else s.fill find td

def Cache.run (find : Nat → List Nat) (s : Cache) (sched : List (Nat × Nat)) : Cache :=
  sched.foldl (Cache.fillGuarded find) s

/-- the view `buf[tid][start:stop]` -/
def Cache.view (s : Cache) (d : Nat) : List Nat :=
  ((s.bufs (s.tid d)).drop (s.start d)).take (s.stop d - s.start d)

/-- `get_neighbors_raw(d_idx)` from the serial caller (thread 0): new state and
the returned view -/
def Cache.get (find : Nat → List Nat) (s : Cache) (d : Nat) : Cache × List Nat :=
  let s' := Cache.fillGuarded find s (0, d)
  (s', s'.view d)

/-! ## Tree family (`OctreeNNPS._get_neighbors`) -/

/-- an octree node: cube `[xmin, xmin+len]^3`, `hmax` of the particles below,
leaf index list or children -/
inductive Tree (α : Type) where
  | leaf : Pt α → α → List Nat → Tree α       -- (corner with `h` field = hmax), length, pids
  | node : Pt α → α → List (Tree α) → Tree α

section
variable {α : Type} [Add α] [Sub α] [Mul α] [Div α] [LT α] [DecidableLT α] [OfNat α 0] [OfNat α 2]

/-- `fmax` on an ordered type -/
def maxA (a b : α) : α := if a < b then b else a
/-- `fabs` -/
def absA (a : α) : α := if a < 0 then 0 - a else a

/-- `eff_radius = 0.5*length + fmax(radius_scale*q_h, radius_scale*hmax)` -/
def effRadius (rs : α) (q c : Pt α) (len : α) : α := len / 2 + maxA (rs * q.h) (rs * c.h)

/-- the pruning test of `_get_neighbors`:
`fabs(x_centre - q_x) >= eff_radius or …` with `x_centre = xmin + length/2`
(`c` carries the node's `xmin` and, in its `h` field, the node's `hmax`) -/
def pruned (rs : α) (q c : Pt α) (len : α) : Bool :=
  !(decide (absA (c.x + len / 2 - q.x) < effRadius rs q c len)) ||
  !(decide (absA (c.y + len / 2 - q.y) < effRadius rs q c len)) ||
  !(decide (absA (c.z + len / 2 - q.z) < effRadius rs q c len))

mutual
/-- candidate indices visited by `_get_neighbors` -/
def Tree.cands (rs : α) (q : Pt α) : Tree α → List Nat
  | Tree.leaf c len pids => if pruned rs q c len then [] else pids
  | Tree.node c len ch => if pruned rs q c len then [] else Tree.candsList rs q ch
def Tree.candsList (rs : α) (q : Pt α) : List (Tree α) → List Nat
  | [] => []
  | t :: ts => Tree.cands rs q t ++ Tree.candsList rs q ts
end

mutual
/-- all indices stored under a node -/
def Tree.pids : Tree α → List Nat
  | Tree.leaf _ _ pids => pids
  | Tree.node _ _ ch => Tree.pidsList ch
def Tree.pidsList : List (Tree α) → List Nat
  | [] => []
  | t :: ts => Tree.pids t ++ Tree.pidsList ts
end

/-! ### executable check of the tree invariant (run by the driver on the REAL tree dumped from
`pysph.base.octree` on every run; `Lemmas/NnpsTree.lean` proves it implies `TreeInv`) -/

/-- `p` lies in the closed cube `[c, c+len]^3` (`a ≤ b` written `¬ b < a`) -/
def inCubeB (c : Pt α) (len : α) (p : Pt α) : Bool :=
  !(decide (p.x < c.x)) && !(decide (c.x + len < p.x)) &&
  !(decide (p.y < c.y)) && !(decide (c.y + len < p.y)) &&
  !(decide (p.z < c.z)) && !(decide (c.z + len < p.z))

/-- every listed particle exists, lies in the node's closed cube and has `h ≤ hmax` (`c.h`) -/
def nodeOkB (src : List (Pt α)) (c : Pt α) (len : α) (pids : List Nat) : Bool :=
  pids.all (fun j =>
    match src[j]? with
    | some p => inCubeB c len p && !(decide (c.h < p.h))
    | none => false)

mutual
def Tree.invB (src : List (Pt α)) : Tree α → Bool
  | Tree.leaf c len pids => nodeOkB src c len pids
  | Tree.node c len ch => nodeOkB src c len (Tree.pidsList ch) && Tree.invListB src ch
def Tree.invListB (src : List (Pt α)) : List (Tree α) → Bool
  | [] => true
  | t :: ts => Tree.invB src t && Tree.invListB src ts
end

mutual
/-- number of nodes -/
def Tree.size : Tree α → Nat
  | Tree.leaf _ _ _ => 1
  | Tree.node _ _ ch => 1 + Tree.sizeList ch
def Tree.sizeList : List (Tree α) → Nat
  | [] => 0
  | t :: ts => Tree.size t + Tree.sizeList ts
end

/-- neighbours returned by the tree query -/
def treeNbrs (rs : α) (src : List (Pt α)) (q : Pt α) (t : Tree α) : List Nat :=
  nbrsOf rs src q (Tree.cands rs q t)

end

end PysphVerif.Nnps
