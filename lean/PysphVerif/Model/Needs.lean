/-
C20 — model of the set-up time completeness checks.

Transcribes, statement by statement,
  pysph/sph/equation.py : get_array_names, get_arrays_used_in_equation,
      Group._setup_precomputed (the precomputed-symbol closure),
      Group.get_array_names
  pysph/sph/acceleration_eval.py : group_equations, check_equation_array_properties
      (REPAIRED: needs = Group([equation]).get_array_names(), see
      proposed_fixes/C20-implicit-needs.diff; the checker as it is on the pinned
      tree is kept as `checkEquationOrig`), AccelerationEval.__init__ (flattening
      of groups / sub-groups and the per-equation check), MegaGroup._make_data
  pysph/sph/acceleration_eval_cython_helper.py : get_dest_array_setup,
      get_src_array_setup (the `d_x = dst.x.data` / `s_x = src.x.data` pointer
      set-up of the generated code: a read of a missing property there is the
      crash the property is about)
  pysph/sph/integrator_cython_helper.py : _check_integrator_steppers,
      get_stepper_method_wrapper_names, get_args, get_array_declarations,
      _check_arrays_for_properties, get_array_setup

Names are strings.  Python sets / dicts are lists here; results that are sets in
Python are compared as sets by the harness.  The precomputed-symbol table
(`Group.pre_comp`: symbol ↦ `cb.symbols`) is a parameter, supplied by the
harness from the real table on every run.  Core Lean only.
-/
namespace PysphVerif.Needs

abbrev Name := String

/-! ## names -/

/-- `x.startswith('s_') and x != 's_idx'` (equation.py get_array_names) -/
def isSrcArr (x : Name) : Bool := x.startsWith "s_" && x != "s_idx"
/-- `x.startswith('d_') and x != 'd_idx'` -/
def isDstArr (x : Name) : Bool := x.startsWith "d_" && x != "d_idx"
/-- `x[2:]` -/
def strip (x : Name) : Name := (x.drop 2).toString

/-! ## the precomputed-symbol table and `Group._setup_precomputed` -/

/-- `Group.pre_comp`: symbol ↦ symbols occurring in its code block -/
abbrev Table := List (Name × List Name)

/-- `s in pre` -/
def Table.has (t : Table) (s : Name) : Bool := t.any (fun e => e.1 == s)

/-- `pre[s].symbols` (empty when `s` is not a key) -/
def Table.syms (t : Table) (s : Name) : List Name :=
  match t.find? (fun e => e.1 == s) with
  | some e => e.2
  | none => []

/-- `all_new` of one round of the `while not done` loop:
`s for sym in found_precomp for s in pre[sym].symbols if s in pre and s not in precomputed` -/
def newSyms (t : Table) (pre found : List Name) : List Name :=
  ((found.flatMap (Table.syms t)).filter (fun s => t.has s && !pre.contains s)).eraseDups

/-- the `while not done` loop; `fuel` rounds at most (`closure` supplies enough) -/
def closureLoop (t : Table) : Nat → List Name → List Name → List Name
  | 0, pre, _ => pre
  | fuel + 1, pre, found =>
    let new := newSyms t pre found
    if new.isEmpty then pre else closureLoop t fuel (pre ++ new) new

/-- keys of `self.precomputed` after `_setup_precomputed`, given the union of
the `loop` arguments of the group's equations -/
def closure (t : Table) (loopArgs : List Name) : List Name :=
  let p0 := ((loopArgs.filter (fun s => s != "self")).filter (fun s => t.has s)).eraseDups
  closureLoop t (t.length + 1) p0 p0

/-! ## equations -/

/-- an equation as the checks see it: names and the argument lists
(`getfullargspec(meth).args`) of the five methods that exist -/
structure Eqn where
  name : Name
  dest : Name
  /-- `none` ⇔ `equation.sources is None` ⇔ `no_source` -/
  sources : Option (List Name)
  mInit : Option (List Name)
  mInitPair : Option (List Name)
  mLoop : Option (List Name)
  mLoopAll : Option (List Name)
  mPostLoop : Option (List Name)
  deriving Repr, DecidableEq

/-- all arguments `get_arrays_used_in_equation` looks at -/
def Eqn.allArgs (e : Eqn) : List Name :=
  e.mInit.getD [] ++ e.mInitPair.getD [] ++ e.mLoop.getD [] ++
  e.mLoopAll.getD [] ++ e.mPostLoop.getD []

/-- `getfullargspec(equation.loop).args` when the equation has a loop -/
def Eqn.loopArgs (e : Eqn) : List Name := e.mLoop.getD []

/-- symbols of all code blocks of the group's precomputed symbols -/
def preSyms (t : Table) (eqs : List Eqn) : List Name :=
  (closure t (eqs.flatMap Eqn.loopArgs)).flatMap (Table.syms t)

/-- `Group(eqs).get_array_names()[0]` -/
def groupSrcNames (t : Table) (eqs : List Eqn) : List Name :=
  (eqs.flatMap Eqn.allArgs).filter isSrcArr ++ (preSyms t eqs).filter isSrcArr
/-- `Group(eqs).get_array_names()[1]` -/
def groupDstNames (t : Table) (eqs : List Eqn) : List Name :=
  (eqs.flatMap Eqn.allArgs).filter isDstArr ++ (preSyms t eqs).filter isDstArr

/-! ## particle arrays -/

structure PArr where
  name : Name
  /-- `list(array.properties.keys()) + list(array.constants.keys())` -/
  props : List Name
  deriving Repr, DecidableEq

/-- `dict((x.name, x) for x in particle_arrays)[n]`: the last one wins -/
def findArr (arrs : List PArr) (n : Name) : Option PArr :=
  arrs.reverse.find? (fun a => a.name == n)

/-! ## `check_equation_array_properties` -/

inductive Verdict where
  | ok
  | invalidDest (eq dest : Name)
  | invalidSource (eq src : Name)
  /-- `errors`: array name ↦ missing names (entries with the same array name
  are one dict entry in Python) -/
  | missing (eq : Name) (errs : List (Name × List Name))
  deriving Repr, DecidableEq

def subset (a b : List Name) : Bool := a.all (fun x => b.contains x)
/-- Python `set(a) < set(b)` -/
def strictSubset (a b : List Name) : Bool := subset a b && !subset b a

/-- `_check_array`: `if not eq_props < props: errors[array.name].update(eq_props - props)` -/
def checkArray (a : PArr) (need : List Name) : Option (Name × List Name) :=
  if strictSubset need a.props then none
  else some (a.name, need.filter (fun x => !a.props.contains x))

/-- source-array check for one source name (validated before) -/
def checkSrc (arrs : List PArr) (need : List Name) (s : Name) : Option (Name × List Name) :=
  match findArr arrs s with
  | some a => checkArray a need
  | none => none

/-- the checker, parametrised by how the needed `(s_*, d_*)` names of an
equation are computed -/
def checkEquationWith (needs : Eqn → List Name × List Name) (arrs : List PArr) (e : Eqn) :
    Verdict :=
  match findArr arrs e.dest with
  | none => Verdict.invalidDest e.name e.dest
  | some d =>
    let eqSrc := (needs e).1.map strip
    let eqDest := (needs e).2.map strip
    match e.sources with
    | none =>
      -- `no_source`: no validation of sources, `equation.sources is None`
      match checkArray d eqDest with
      | none => Verdict.ok
      | some err => Verdict.missing e.name [err]
    | some srcs =>
      match srcs.find? (fun s => (findArr arrs s).isNone) with
      | some s => Verdict.invalidSource e.name s
      | none =>
        let errs := (checkArray d eqDest).toList ++ srcs.filterMap (checkSrc arrs eqSrc)
        if errs.isEmpty then Verdict.ok else Verdict.missing e.name errs

/-- needs as on the pinned tree: `get_arrays_used_in_equation(equation)` -/
def explicitNeeds (e : Eqn) : List Name × List Name :=
  (e.allArgs.filter isSrcArr, e.allArgs.filter isDstArr)

/-- needs of the repaired checker: `Group([equation]).get_array_names()` -/
def groupNeeds (t : Table) (e : Eqn) : List Name × List Name :=
  (groupSrcNames t [e], groupDstNames t [e])

/-- `check_equation_array_properties` on the pinned tree -/
def checkEquationOrig (arrs : List PArr) (e : Eqn) : Verdict :=
  checkEquationWith explicitNeeds arrs e

/-- `check_equation_array_properties`, repaired -/
def checkEquation (t : Table) (arrs : List PArr) (e : Eqn) : Verdict :=
  checkEquationWith (groupNeeds t) arrs e

/-! ## `AccelerationEval.__init__` -/

/-- a top-level group: equations, or sub-groups of equations (the two levels
the code generator supports) -/
inductive GroupT where
  | flat (eqs : List Eqn)
  | sub (gs : List (List Eqn))
  deriving Repr

/-- `all_equations` of `AccelerationEval.__init__` for one group -/
def GroupT.equations : GroupT → List Eqn
  | GroupT.flat es => es
  | GroupT.sub gs => gs.flatMap id

/-- `all_equations` -/
def allEquations (gs : List GroupT) : List Eqn := gs.flatMap GroupT.equations

/-- first verdict that is not `ok` -/
def firstError (f : Eqn → Verdict) : List Eqn → Verdict
  | [] => Verdict.ok
  | e :: es => match f e with
    | Verdict.ok => firstError f es
    | v => v

/-- `for equation in all_equations: check_equation_array_properties(...)` -/
def checkProgram (t : Table) (arrs : List PArr) (gs : List GroupT) : Verdict :=
  firstError (checkEquation t arrs) (allEquations gs)

def checkProgramOrig (arrs : List PArr) (gs : List GroupT) : Verdict :=
  firstError (checkEquationOrig arrs) (allEquations gs)

/-! ## what the generated code reads: `MegaGroup._make_data` + pointer set-up -/

/-- `dest_list` -/
def destList (eqs : List Eqn) : List Name := (eqs.map Eqn.dest).eraseDups

/-- equations of destination `dest` -/
def ofDest (eqs : List Eqn) (dest : Name) : List Eqn := eqs.filter (fun e => e.dest == dest)

/-- `eqs_with_no_source` -/
def noSource (eqs : List Eqn) : List Eqn := eqs.filter (fun e => e.sources.isNone)

/-- keys of the `sources` dict -/
def sourceList (eqs : List Eqn) : List Name := (eqs.flatMap (fun e => e.sources.getD [])).eraseDups

/-- `sources[src]` -/
def withSource (eqs : List Eqn) (src : Name) : List Eqn :=
  eqs.filter (fun e => (e.sources.getD []).contains src)

/-- `get_dest_array_setup`: names `n` of the lines `n = dst.<n[2:]>.data` -/
def destSetup (t : Table) (mine : List Eqn) : List Name :=
  groupDstNames t (noSource mine) ++
  (sourceList mine).flatMap (fun s => groupDstNames t (withSource mine s))

/-- `get_src_array_setup`: names `n` of the lines `n = src.<n[2:]>.data` -/
def srcSetup (t : Table) (mine : List Eqn) (src : Name) : List Name :=
  groupSrcNames t (withSource mine src)

/-- every `(array name, property)` whose `.data` pointer the generated `compute`
takes for one (sub-)group without sub-groups -/
def groupAccesses (t : Table) (eqs : List Eqn) : List (Name × Name) :=
  (destList eqs).flatMap (fun dest =>
    (destSetup t (ofDest eqs dest)).map (fun n => (dest, strip n)) ++
    (sourceList (ofDest eqs dest)).flatMap (fun s =>
      (srcSetup t (ofDest eqs dest) s).map (fun n => (s, strip n))))

/-- the (sub-)groups the generated code is organised by -/
def GroupT.leaves : GroupT → List (List Eqn)
  | GroupT.flat es => [es]
  | GroupT.sub gs => gs

def programAccesses (t : Table) (gs : List GroupT) : List (Name × Name) :=
  (gs.flatMap GroupT.leaves).flatMap (groupAccesses t)

/-! ## integrator steppers -/

structure Stepper where
  /-- the keyword it was given under (`Integrator(fluid=...)`) -/
  dest : Name
  /-- class name -/
  cls : Name
  /-- attributes `x` of the stepper with `x.startswith('stage') or x == 'initialize'`,
  with `getfullargspec(...).args` -/
  methods : List (Name × List Name)
  /-- `x[3:]` for the attributes `x.startswith('py_stage')` -/
  pyStages : List Name
  deriving Repr

inductive SVerdict where
  | ok
  /-- `_check_integrator_steppers`: keyword is not a particle array -/
  | invalidStepper (name : Name)
  /-- `_check_arrays_for_properties` -/
  | missing (cls dest : Name) (names : List Name)
  deriving Repr, DecidableEq

def strLe (a b : Name) : Bool := decide (a ≤ b)

/-- insertion into a sorted list -/
def insertSorted (x : Name) : List Name → List Name
  | [] => [x]
  | y :: ys => if strLe x y then x :: y :: ys else y :: insertSorted x ys

/-- Python `sorted(...)` of distinct names (insertion sort; structural, so that
concrete instances evaluate in the kernel) -/
def sortNames (l : List Name) : List Name := l.foldr insertSorted []

/-- `get_stepper_method_wrapper_names` -/
def wrapperNames (steppers : List Stepper) : List Name :=
  sortNames ((steppers.flatMap (fun st => st.pyStages ++ st.methods.map (·.1))).eraseDups)

/-- `get_args(dest, method)` -/
def Stepper.args (st : Stepper) (m : Name) : List Name :=
  match st.methods.find? (fun e => e.1 == m) with
  | some e => e.2
  | none => []

/-- `_check_integrator_steppers` -/
def checkStepperNames (arrs : List PArr) : List Stepper → SVerdict
  | [] => SVerdict.ok
  | st :: rest =>
    if (findArr arrs st.dest).isNone then SVerdict.invalidStepper st.dest
    else checkStepperNames arrs rest

/-- the property names `_check_arrays_for_properties` is given:
`s | d` of `get_array_names(args)`, stripped -/
def stepperProps (args : List Name) : List Name :=
  (args.filter (fun x => isSrcArr x || isDstArr x)).map strip

/-- `_check_arrays_for_properties(dest, s | d)` -/
def checkStepperMethod (arrs : List PArr) (m : Name) (st : Stepper) : SVerdict :=
  match findArr arrs st.dest with
  | none => SVerdict.invalidStepper st.dest       -- KeyError in Python; excluded by the name check
  | some pa =>
    let props := stepperProps (st.args m)
    if subset props pa.props then SVerdict.ok
    else SVerdict.missing st.cls st.dest
      (sortNames ((props.filter (fun x => !pa.props.contains x)).eraseDups))

def firstSError {α : Type} (f : α → SVerdict) : List α → SVerdict
  | [] => SVerdict.ok
  | x :: xs => match f x with
    | SVerdict.ok => firstSError f xs
    | v => v

/-- `get_array_declarations(method)`: checks every stepper for that method -/
def checkStepperDecl (arrs : List PArr) (steppers : List Stepper) (m : Name) : SVerdict :=
  firstSError (checkStepperMethod arrs m) steppers

/-- `IntegratorCythonHelper.__init__` followed by rendering the template -/
def checkSteppers (arrs : List PArr) (steppers : List Stepper) : SVerdict :=
  match checkStepperNames arrs steppers with
  | SVerdict.ok => firstSError (checkStepperDecl arrs steppers) (wrapperNames steppers)
  | v => v

/-- `get_array_setup(dest, method)`: the `(array, property)` pointers the
generated integrator takes (for the methods the stepper has) -/
def stepperAccesses (steppers : List Stepper) : List (Name × Name) :=
  steppers.flatMap (fun st =>
    (wrapperNames steppers).flatMap (fun m => (stepperProps (st.args m)).map (fun p => (st.dest, p))))

/-! ## the whole set-up: `AccelerationEval(...)` then `SPHCompiler(...)._get_code()` -/

inductive Outcome where
  | ok
  | eqError (v : Verdict)
  | stepError (v : SVerdict)
  deriving Repr

def buildAll (t : Table) (arrs : List PArr) (gs : List GroupT) (steppers : List Stepper) :
    Outcome :=
  match checkProgram t arrs gs with
  | Verdict.ok =>
    (match checkSteppers arrs steppers with
     | SVerdict.ok => Outcome.ok
     | v => Outcome.stepError v)
  | v => Outcome.eqError v

end PysphVerif.Needs
