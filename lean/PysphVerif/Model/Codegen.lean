/-
C02 — model of the code-generation bookkeeping that decides what the compiled
equations compute.  Core Lean only.

Transcribes, statement by statement,
  pysph/sph/equation.py :
      the code-block language of `precomputed_symbols()` (`Expr`, `Stmt`; the
      table itself is generated into Gen/Precomp.lean from the source),
      `sort_precomputed` (weights / levels, the `while pre_comp_names` loop with
      fuel), `Group._setup_precomputed` (closure over the symbols mentioned by
      the code blocks), `get_array_names`, `get_arrays_used_in_equation`,
      `Group.get_array_names`, `CythonGroup._get_variable_decl`,
      `get_variable_array_setup`, `get_array_declarations`, `get_equation_init`,
      the precomputed preamble of `CythonGroup._get_code(kind='loop')`
  pysph/sph/acceleration_eval.py : `MegaGroup._make_data`
  pysph/sph/acceleration_eval_cython_helper.py :
      `get_all_array_names`, `get_known_types_for_arrays`,
      `get_dest_array_setup`, `get_src_array_setup`, `get_array_declarations`,
      `_compute_group_map`, `get_condition_call`, `get_pre_call`, `get_post_call`
  pysph/sph/acceleration_eval_cython.mako : where the template puts the
      `condition` / `pre` / `post` calls of groups and sub-groups

Python sets / dicts are lists here (dicts in insertion order, later entries of an
association list win where Python overwrites); `sorted(set)` is `sortDedup`.
Assumed third-party behaviour (exercised by the tie): `compyle.get_symbols` =
all `ast.Name` ids of a code block; `cyarray` `get_c_type()` of an array class
(passed in by the harness with every particle array property).
-/
namespace PysphVerif.Codegen

/-! ## 1. the code-block language of `precomputed_symbols()` -/

/-- right-hand sides of the code blocks -/
inductive Expr where
  /-- decimal literal, exact value `num / den` of its source text -/
  | lit (num den : Nat)
  /-- `d_p[d_idx]` -/
  | dref (p : String)
  /-- `s_p[s_idx]` -/
  | sref (p : String)
  /-- a scalar symbol (`HIJ`, `RIJ`, `DELTAP`, …) -/
  | var (s : String)
  /-- a whole 3-vector passed to a kernel function (`XIJ`) -/
  | vec (s : String)
  /-- `XIJ[k]` -/
  | comp (s : String) (k : Nat)
  | add (a b : Expr)
  | sub (a b : Expr)
  | mul (a b : Expr)
  | div (a b : Expr)
  | neg (a : Expr)
  /-- `sqrt(a)`, … -/
  | call1 (f : String) (a : Expr)
  /-- `DWDQ(RIJ, h)` -/
  | call2 (f : String) (a b : Expr)
  /-- `KERNEL(XIJ, RIJ, h)`, `GRADH(XIJ, RIJ, h)` -/
  | call3 (f : String) (a b c : Expr)
  deriving DecidableEq, Repr, Inhabited

inductive Stmt where
  /-- `S = e` -/
  | assign (s : String) (e : Expr)
  /-- `S[k] = e` -/
  | assignComp (s : String) (k : Nat) (e : Expr)
  /-- `GRADIENT(a, b, c, OUT)`: writes `OUT[0..2]` -/
  | callOut (f : String) (a b c : Expr) (out : String)
  deriving DecidableEq, Repr, Inhabited

abbrev Block := List Stmt

/-- what a code block is evaluated against -/
structure Env (α : Type) where
  d : String → α
  s : String → α
  /-- scalar functions `sqrt`, `KERNEL`, `DWDQ`, `GRADH` applied to the flattened
  argument list (a vector argument contributes its three components) -/
  fn : String → List α → α
  /-- component `k` of what `GRADIENT`-like functions write -/
  fnOut : String → List α → Nat → α

/-- values of the symbols: `st "XIJ" k`, scalars at index 0 -/
abbrev Store (α : Type) := String → Nat → α

section eval
variable {α : Type} [Add α] [Sub α] [Mul α] [Div α] [Neg α] [NatCast α]

def eval (env : Env α) (st : Store α) : Expr → α
  | .lit n d => (n : α) / (d : α)
  | .dref p => env.d p
  | .sref p => env.s p
  | .var s => st s 0
  | .vec s => st s 0
  | .comp s k => st s k
  | .add a b => eval env st a + eval env st b
  | .sub a b => eval env st a - eval env st b
  | .mul a b => eval env st a * eval env st b
  | .div a b => eval env st a / eval env st b
  | .neg a => - eval env st a
  | .call1 f a => env.fn f [eval env st a]
  | .call2 f a b => env.fn f [eval env st a, eval env st b]
  | .call3 f a b c =>
      env.fn f ((match a with
                 | .vec s => [st s 0, st s 1, st s 2]
                 | _ => [eval env st a]) ++ [eval env st b, eval env st c])

/-- flattened argument: a vector contributes its three components -/
def argVals (env : Env α) (st : Store α) : Expr → List α
  | .vec s => [st s 0, st s 1, st s 2]
  | e => [eval env st e]

def Store.set (st : Store α) (s : String) (k : Nat) (v : α) : Store α :=
  fun s' k' => if s' = s ∧ k' = k then v else st s' k'

def evalStmt (env : Env α) (st : Store α) : Stmt → Store α
  | .assign s e => st.set s 0 (eval env st e)
  | .assignComp s k e => st.set s k (eval env st e)
  | .callOut f a b c out =>
      let args := argVals env st a ++ argVals env st b ++ argVals env st c
      ((st.set out 0 (env.fnOut f args 0)).set out 1 (env.fnOut f args 1)).set out 2
        (env.fnOut f args 2)

def evalBlock (env : Env α) (st : Store α) (b : Block) : Store α :=
  b.foldl (evalStmt env) st

end eval

/-! ### names occurring in a block (`compyle.get_symbols`: every `ast.Name` id) -/

def Expr.names : Expr → List String
  | .lit _ _ => []
  | .dref p => ["d_" ++ p, "d_idx"]
  | .sref p => ["s_" ++ p, "s_idx"]
  | .var s => [s]
  | .vec s => [s]
  | .comp s _ => [s]
  | .add a b => a.names ++ b.names
  | .sub a b => a.names ++ b.names
  | .mul a b => a.names ++ b.names
  | .div a b => a.names ++ b.names
  | .neg a => a.names
  | .call1 f a => f :: a.names
  | .call2 f a b => f :: (a.names ++ b.names)
  | .call3 f a b c => f :: (a.names ++ b.names ++ c.names)

def Stmt.names : Stmt → List String
  | .assign s e => s :: e.names
  | .assignComp s _ e => s :: e.names
  | .callOut f a b c out => f :: out :: (a.names ++ b.names ++ c.names)

def Block.names (b : Block) : List String := (b.flatMap Stmt.names).eraseDups

/-! ## sorting (`sorted(...)`): structural insertion sort, so that `decide` can
evaluate it; for distinct keys under a total order the result is the one sorted
list, whatever algorithm CPython uses -/

def insertSorted {α : Type} (le : α → α → Bool) (x : α) : List α → List α
  | [] => [x]
  | y :: ys => if le x y then x :: y :: ys else y :: insertSorted le x ys

def isort {α : Type} (le : α → α → Bool) : List α → List α
  | [] => []
  | x :: xs => insertSorted le x (isort le xs)

theorem insertSorted_perm {α : Type} (le : α → α → Bool) (x : α) (l : List α) :
    (insertSorted le x l).Perm (x :: l) := by
  induction l with
  | nil => exact List.Perm.refl _
  | cons y ys ih =>
    simp only [insertSorted]
    split
    · exact List.Perm.refl _
    · exact (List.Perm.cons y ih).trans (List.Perm.swap x y ys)

theorem isort_perm {α : Type} (le : α → α → Bool) (l : List α) : (isort le l).Perm l := by
  induction l with
  | nil => exact List.Perm.refl _
  | cons x xs ih => exact (insertSorted_perm le x _).trans (List.Perm.cons x ih)

theorem mem_isort {α : Type} {le : α → α → Bool} {a : α} {l : List α} :
    a ∈ isort le l ↔ a ∈ l := (isort_perm le l).mem_iff

/-! ## 2. `sort_precomputed` -/

section sort
variable {ν : Type} [DecidableEq ν]

/-- `all_pre_comp`: symbol ↦ `cb.symbols` (dict, keys distinct) -/
abbrev Table (ν : Type) := List (ν × List ν)

/-- `x in pre_comp` -/
def Table.has (t : Table ν) (x : ν) : Bool := t.any (fun e => e.1 == x)

/-- `pre_comp[x].symbols` -/
def Table.syms (t : Table ν) (x : ν) : List ν :=
  match t.find? (fun e => e.1 == x) with
  | some e => e.2
  | none => []

/-- `depends[pre] = [x for x in cb.symbols if x in pre_comp and x != pre]` -/
def depends (t : Table ν) (pre : ν) : List ν :=
  (t.syms pre).filter (fun x => t.has x && x != pre)

/-- `weights[x]` for an `x` among the keys: `none` is Python's `None` (no weight
yet).  The list holds (name, weight) in the order the weights were assigned;
`levels[w]` is the sub-list with weight `w`. -/
def weightOf (a : List (ν × Nat)) (x : ν) : Option Nat :=
  (a.find? (fun e => e.1 == x)).map (·.2)

def maxList : List Nat → Nat
  | [] => 0
  | x :: xs => max x (maxList xs)

/-- loop state: weights assigned so far, `pre_comp_names` -/
abbrev SortSt (ν : Type) := List (ν × Nat) × List ν

/-- body of `for name in pre_comp_names[:]`.  (The first test never fires in
Python: a name of the snapshot is still in `pre_comp_names` when it is reached,
dict keys being distinct; `pre_comp_names.remove(name)` is `erase`.) -/
def stepName (t : Table ν) (st : SortSt ν) (name : ν) : SortSt ν :=
  if !st.2.contains name then st else
  let wts := (depends t name).map (weightOf st.1)
  if wts.isEmpty then (st.1 ++ [(name, 0)], st.2.erase name)
  else if wts.any Option.isNone then st
  else (st.1 ++ [(name, maxList (wts.filterMap id) + 1)], st.2.erase name)

/-- one pass of the `while` body over the snapshot `pre_comp_names[:]` -/
def sortPass (t : Table ν) (st : SortSt ν) : SortSt ν :=
  st.2.foldl (stepName t) st

/-- `while pre_comp_names:` with fuel -/
def sortLoop (t : Table ν) : Nat → SortSt ν → SortSt ν
  | 0, st => st
  | fuel + 1, st => if st.2.isEmpty then st else sortLoop t fuel (sortPass t st)

/-- `len(levels)`: the number of distinct weights -/
def numLevels (a : List (ν × Nat)) : Nat := ((a.map (·.2)).eraseDups).length

/-- `levels[l]` -/
def levelNames (a : List (ν × Nat)) (l : Nat) : List ν :=
  (a.filter (fun e => e.2 == l)).map (·.1)

/-- `for level in range(len(levels)): for name in sorted(levels[level])` -/
def sortOutput (le : ν → ν → Bool) (a : List (ν × Nat)) : List ν :=
  (List.range (numLevels a)).flatMap (fun l => isort le (levelNames a l))

inductive SortRes (ν : Type) where
  /-- `weights[x]` with `x` a precomputed symbol that is not among the keys -/
  | keyError
  /-- the `while` loop never ends (fuel = number of keys exhausted) -/
  | diverges
  | ok (out : List ν)
  deriving Repr, DecidableEq

/-- all dependencies of the keys are keys (otherwise the first pass raises) -/
def depsClosed (t : Table ν) (keys : List ν) : Bool :=
  keys.all (fun k => (depends t k).all (fun d => keys.contains d))

/-- `sort_precomputed(precomputed, all_pre_comp)` with `keys = precomputed.keys()`
(the values are those of `all_pre_comp`) -/
def sortPrecomputed (le : ν → ν → Bool) (t : Table ν) (keys : List ν) : SortRes ν :=
  if !depsClosed t keys then .keyError else
  let st := sortLoop t keys.length ([], keys)
  if st.2.isEmpty then .ok (sortOutput le st.1) else .diverges

/-! ## 3. `Group._setup_precomputed` -/

/-- `all_new` of one round: `s for sym in found for s in pre[sym].symbols
if s in pre and s not in precomputed` -/
def newSyms (t : Table ν) (pre found : List ν) : List ν :=
  ((found.flatMap (Table.syms t)).filter (fun s => t.has s && !pre.contains s)).eraseDups

/-- the `while not done` loop -/
def closureLoop (t : Table ν) : Nat → List ν → List ν → List ν
  | 0, pre, _ => pre
  | fuel + 1, pre, found =>
    let new := newSyms t pre found
    if new.isEmpty then pre else closureLoop t fuel (pre ++ new) new

/-- keys of `precomputed` before sorting: `s for s in all_args if s in pre`, then
the loop (`self` is never a table key) -/
def closure (t : Table ν) (allArgs : List ν) : List ν :=
  let p0 := (allArgs.filter (fun s => t.has s)).eraseDups
  closureLoop t (t.length + 1) p0 p0

/-- `self.precomputed.keys()` -/
def setupPrecomputed (le : ν → ν → Bool) (t : Table ν) (allArgs : List ν) : SortRes ν :=
  sortPrecomputed le t (closure t allArgs)

/-- longest dependency chain below `x`, with fuel (a rank function for acyclic
tables; used only to state and decide acyclicity) -/
def depth (t : Table ν) : Nat → ν → Nat
  | 0, _ => 0
  | fuel + 1, x => maxList ((depends t x).map (fun d => depth t fuel d + 1))

/-- decidable acyclicity of the dependency relation of a table: `depth` with
fuel `length` is a strict rank -/
def acyclicB (t : Table ν) : Bool :=
  t.all (fun e => (depends t e.1).all (fun d => depth t t.length d < depth t t.length e.1))

end sort

/-! ## 4. wiring of array pointers -/

abbrev Name := String

/-- `x.startswith('s_') and x != 's_idx'` (equation.py get_array_names) -/
def isSrcArr (x : Name) : Bool := x.startsWith "s_" && x != "s_idx"
/-- `x.startswith('d_') and x != 'd_idx'` -/
def isDstArr (x : Name) : Bool := x.startsWith "d_" && x != "d_idx"
/-- `x[2:]` -/
def strip (x : Name) : Name := (x.drop 2).toString

def strLe (a b : String) : Bool := !(decide (b < a))

/-- `sorted(set(l))` -/
def sortDedup (l : List Name) : List Name := isort strLe l.eraseDups

/-- an equation as the generator sees it: class name, dest, sources and
`getfullargspec(meth).args` (without `self`) of the methods that exist -/
structure Eqn where
  /-- object identity (`equation not in all_equations` compares objects) -/
  uid : Nat
  name : Name
  dest : Name
  /-- `[]` ⇔ `equation.sources is None` ⇔ `no_source` -/
  sources : List Name
  mInit : Option (List Name)
  mInitPair : Option (List Name)
  mLoop : Option (List Name)
  mLoopAll : Option (List Name)
  mPostLoop : Option (List Name)
  deriving Repr, DecidableEq, Inhabited

def Eqn.noSource (e : Eqn) : Bool := e.sources.isEmpty

/-- arguments `get_arrays_used_in_equation` looks at -/
def Eqn.allArgs (e : Eqn) : List Name :=
  e.mInit.getD [] ++ e.mInitPair.getD [] ++ e.mLoop.getD [] ++
  e.mLoopAll.getD [] ++ e.mPostLoop.getD []

def Eqn.loopArgs (e : Eqn) : List Name := e.mLoop.getD []

/-- keys of `Group(eqs).precomputed` (unsorted) -/
def groupPrecomp (t : Table Name) (eqs : List Eqn) : List Name :=
  closure t (eqs.flatMap Eqn.loopArgs)

/-- every name `Group(eqs).get_array_names()` filters: method arguments and the
symbols of the group's precomputed code blocks -/
def groupNames (t : Table Name) (eqs : List Eqn) : List Name :=
  eqs.flatMap Eqn.allArgs ++ (groupPrecomp t eqs).flatMap (Table.syms t)

/-- `Group(eqs).get_array_names()[0]` -/
def groupSrcNames (t : Table Name) (eqs : List Eqn) : List Name :=
  (groupNames t eqs).filter isSrcArr
/-- `Group(eqs).get_array_names()[1]` -/
def groupDstNames (t : Table Name) (eqs : List Eqn) : List Name :=
  (groupNames t eqs).filter isDstArr

inductive Side where
  | dst
  | src
  deriving Repr, DecidableEq

/-- `lhs = dst.prop.data` / `lhs = src.prop.data` -/
structure Assign where
  lhs : Name
  side : Side
  prop : Name
  deriving Repr, DecidableEq

/-- the block of one source inside a destination -/
structure SrcBlock where
  source : Name
  /-- `get_src_array_setup` -/
  assigns : List Assign
  eqs : List Eqn
  /-- sorted precomputed symbols whose code precedes the `loop` calls -/
  precomp : SortRes Name
  deriving Repr

structure DestBlock where
  dest : Name
  /-- `get_dest_array_setup` (pointer lines) -/
  assigns : List Assign
  noSrc : List Eqn
  srcs : List SrcBlock
  allEqs : List Eqn
  deriving Repr

/-- destinations in order of first appearance (`dest_list`) -/
def destList (eqs : List Eqn) : List Name := (eqs.map (·.dest)).eraseDups

/-- sources of a destination in order of first appearance (`defaultdict` keys) -/
def sourceList (eqs : List Eqn) (dest : Name) : List Name :=
  ((eqs.filter (fun e => e.dest == dest)).flatMap (·.sources)).eraseDups

/-- `sources[src]`: one entry per occurrence of `src` in `equation.sources` -/
def eqsOfSource (eqs : List Eqn) (dest src : Name) : List Eqn :=
  (eqs.filter (fun e => e.dest == dest)).flatMap
    (fun e => (e.sources.filter (· == src)).map (fun _ => e))

/-- `all_equations` (`if equation not in all_equations`) -/
def allEqsOf (eqs : List Eqn) (dest : Name) : List Eqn :=
  (eqs.filter (fun e => e.dest == dest)).eraseDups

def noSrcEqsOf (eqs : List Eqn) (dest : Name) : List Eqn :=
  (eqs.filter (fun e => e.dest == dest)).filter Eqn.noSource

/-- `get_src_array_setup`: `'%s = src.%s.data' % (n, n[2:]) for n in sorted(src_arrays)` -/
def srcSetup (t : Table Name) (eqs : List Eqn) : List Assign :=
  (sortDedup (groupSrcNames t eqs)).map (fun n => ⟨n, .src, strip n⟩)

/-- `get_dest_array_setup`: destination arrays of the no-source group and of
every source group -/
def destSetup (t : Table Name) (noSrc : List Eqn) (srcGroups : List (List Eqn)) : List Assign :=
  (sortDedup (groupDstNames t noSrc ++ srcGroups.flatMap (groupDstNames t))).map
    (fun n => ⟨n, .dst, strip n⟩)

def mkSrcBlock (t : Table Name) (eqs : List Eqn) (dest src : Name) : SrcBlock :=
  let g := eqsOfSource eqs dest src
  { source := src, assigns := srcSetup t g, eqs := g,
    precomp := setupPrecomputed strLe t (g.flatMap Eqn.loopArgs) }

/-- `MegaGroup._make_data` + the pointer set-up of the template's `do_group` -/
def mkDestBlock (t : Table Name) (eqs : List Eqn) (dest : Name) : DestBlock :=
  let srcs := sourceList eqs dest
  { dest := dest,
    assigns := destSetup t (noSrcEqsOf eqs dest) (srcs.map (eqsOfSource eqs dest)),
    noSrc := noSrcEqsOf eqs dest,
    srcs := srcs.map (mkSrcBlock t eqs dest),
    allEqs := allEqsOf eqs dest }

def wiring (t : Table Name) (eqs : List Eqn) : List DestBlock :=
  (destList eqs).map (mkDestBlock t eqs)

/-! ### types -/

/-- a particle array: name and (property-or-constant, carray class, C type) -/
structure PArr where
  name : Name
  props : List (Name × Name × Name)
  deriving Repr, DecidableEq

/-- `get_all_array_names`: carray class ↦ names (dict in first-appearance order),
with the C type `getattr(carray, cls)().get_c_type()` carried along -/
def allArrayNames (pas : List PArr) : List (Name × Name × List Name) :=
  let all := pas.flatMap (·.props)
  let classes := (all.map (fun p => (p.2.1, p.2.2))).eraseDups
  classes.map (fun c => (c.1, c.2, ((all.filter (fun p => p.2.1 == c.1)).map (·.1)).eraseDups))

/-- `get_known_types_for_arrays`: an association list in assignment order; a
later entry overwrites an earlier one with the same key -/
def knownTypes (an : List (Name × Name × List Name)) : List (Name × Name) :=
  an.flatMap (fun e => e.2.2.flatMap (fun arr =>
    [("s_" ++ arr, e.2.1 ++ "*"), ("d_" ++ arr, e.2.1 ++ "*")]))

/-- dict lookup: the last assignment wins -/
def lookupLast (kt : List (Name × Name)) (k : Name) : Option Name :=
  (kt.reverse.find? (fun e => e.1 == k)).map (·.2)

/-- `get_array_declarations`: `cdef {type} {arr}` for the sorted names, `double*`
when the name is unknown -/
def arrayDecls (kt : List (Name × Name)) (names : List Name) : List (Name × Name) :=
  (sortDedup names).map (fun n => (n, (lookupLast kt n).getD "double*"))

/-- the helper's `get_array_declarations` for the group of all equations -/
def allArrayDecls (t : Table Name) (pas : List PArr) (eqs : List Eqn) : List (Name × Name) :=
  arrayDecls (knownTypes (allArrayNames pas)) (groupSrcNames t eqs ++ groupDstNames t eqs)

/-! ### per-thread scratch vectors -/

/-- `_get_variable_decl` / `get_variable_array_setup` for the context of the group
of all equations: for every precomputed symbol of the closure its default:
`0` = scalar `0.0`, `n > 0` = list of `n` zeros.
Output: (name, size); scalars have size 0. -/
def scratchDecls (t : Table Name) (defaults : List (Name × Nat)) (eqs : List Eqn) :
    List (Name × Nat) :=
  (sortDedup (groupPrecomp t eqs)).map
    (fun s => (s, ((defaults.find? (fun e => e.1 == s)).map (·.2)).getD 0))

/-- `aligned(n, 8)` of cyarray: `n` rounded up to a multiple of 8 doubles -/
def aligned8 (n : Nat) : Nat := ((n + 7) / 8) * 8

/-- first element of thread `tid`'s part: `&_X.data[thread_id*aligned(size, 8)]` -/
def scratchOffset (size tid : Nat) : Nat := tid * aligned8 size

/-- elements allocated: `aligned(size, 8)*self.n_threads` -/
def scratchAlloc (size nThreads : Nat) : Nat := aligned8 size * nThreads

/-! ## 5. call sites of the group callables (`condition`, `pre`, `post`)

`acceleration_eval_cython_helper.py`: `_compute_group_map`, `get_condition_call`,
`get_pre_call`, `get_post_call`; `acceleration_eval_cython.mako`: the body of `compute`
(`if <condition call>:`, the sub-group branch) and `do_group` (`pre` first, `post` last).

The generated `compute` reaches a callable as `self.groups[i].condition(t, dt)` /
`self.groups[i].data[k].pre()` …, where the expression `self.groups[i]…` is looked up in
`_group_map`.  That dict is keyed by the (mega-)group OBJECT; `group.name` — the user's
`name=` label for the profiling output, or `Group_<n>` — is not a key and need not be unique.
The model is parametric in the key (`key : GNode → κ`) so that this can be stated: the code is
`key := GNode.uid` (object identity). -/

/-- one (mega-)group as the call-site generation sees it -/
structure GNode where
  /-- object identity (hash/eq of a Python object without `__eq__`) -/
  uid : Nat
  /-- `group.name`: a label, not an identity -/
  name : Name
  hasCond : Bool
  hasPre : Bool
  hasPost : Bool
  deriving Repr, DecidableEq

/-- a top-level group; `subs = []` ⇔ `not group.has_subgroups` (a group with sub-groups has at
least one), else `subs = group.data` -/
structure GTop where
  node : GNode
  subs : List GNode
  deriving Repr, DecidableEq

/-- `self.groups[top]` / `self.groups[top].data[sub]` -/
structure GPos where
  top : Nat
  sub : Option Nat
  deriving Repr, DecidableEq

/-- the groups `_compute_group_map` visits for one `g_idx`, with the expression it stores:
the group itself, then `enumerate(group.data)` if it has sub-groups -/
def topNodes (gt : GTop × Nat) : List (GNode × GPos) :=
  (gt.1.node, ⟨gt.2, none⟩) :: gt.1.subs.zipIdx.map (fun sk => (sk.1, ⟨gt.2, some sk.2⟩))

/-- every group with its position, in the order of
`for g_idx, group in enumerate(self.object.mega_groups)` -/
def allNodes (gs : List GTop) : List (GNode × GPos) := gs.zipIdx.flatMap topNodes

section groupmap
variable {κ : Type} [DecidableEq κ]

/-- `_compute_group_map`: `mapping[<key of group>] = <expression>`, in visiting order -/
def groupMapBy (key : GNode → κ) (gs : List GTop) : List (κ × GPos) :=
  (allNodes gs).map (fun np => (key np.1, np.2))

/-- `mapping[k]` after all the assignments: the LAST assignment to `k` wins; `none` is
`KeyError` -/
def gmLookup : List (κ × GPos) → κ → Option GPos
  | [], _ => none
  | (k', v) :: m, k =>
    match gmLookup m k with
    | some w => some w
    | none => if k' = k then some v else none

inductive Cb where
  | cond | pre | post
  deriving Repr, DecidableEq

/-- one `….condition(t, dt)` / `….pre()` / `….post()` in the generated text: `site` = the
group whose text it stands in, `target` = the group the expression refers to -/
structure CallSite where
  kind : Cb
  site : GPos
  target : Option GPos
  deriving Repr, DecidableEq

/-- `% if group.<callable>:` … `helper.get_<callable>_call(group)` -/
def siteIf (key : GNode → κ) (m : List (κ × GPos)) (b : Bool) (k : Cb) (np : GNode × GPos) :
    List CallSite :=
  if b then [⟨k, np.2, gmLookup m (key np.1)⟩] else []

/-- a group of equations: `if <condition>:` around `do_group` = `pre`, …, `post` -/
def nodeSites (key : GNode → κ) (m : List (κ × GPos)) (np : GNode × GPos) : List CallSite :=
  siteIf key m np.1.hasCond .cond np ++ siteIf key m np.1.hasPre .pre np ++
  siteIf key m np.1.hasPost .post np

/-- one iteration of `% for g_idx, group in enumerate(helper.object.mega_groups):` -/
def topSites (key : GNode → κ) (m : List (κ × GPos)) (gt : GTop × Nat) : List CallSite :=
  let np : GNode × GPos := (gt.1.node, ⟨gt.2, none⟩)
  if gt.1.subs.isEmpty then nodeSites key m np
  else
    siteIf key m np.1.hasCond .cond np ++ siteIf key m np.1.hasPre .pre np ++
    (gt.1.subs.zipIdx.map (fun sk => (sk.1, (⟨gt.2, some sk.2⟩ : GPos)))).flatMap
      (nodeSites key m) ++
    siteIf key m np.1.hasPost .post np

/-- the call sites of the generated `compute`, in text order -/
def callSitesBy (key : GNode → κ) (gs : List GTop) : List CallSite :=
  gs.zipIdx.flatMap (topSites key (groupMapBy key gs))

end groupmap

/-- what the code does: the map is keyed by the group object -/
def callSites (gs : List GTop) : List CallSite := callSitesBy GNode.uid gs

end PysphVerif.Codegen
