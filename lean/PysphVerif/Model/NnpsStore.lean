import PysphVerif.Model.Nnps
/-
C01 — storage sub-models of the Grid family: how each class stores the source
particles per cell and how `find_nearest_neighbors` enumerates the candidate
indices of the 27 stencil cells.

Transcribes
  pysph/base/nnps_base.pxd : flatten_raw, get_valid_cell_index
  pysph/base/linked_list_nnps.pyx : LinkedListNNPS._bin, find_nearest_neighbors
  pysph/base/box_sort_nnps.pyx : BoxSortNNPS._count_occupied_cells,
      _get_flattened_cell_index, _get_valid_cell_index;
      DictBoxSortNNPS._bin, get_nearest_particles_no_cache
  pysph/base/spatial_hash.h : HashEntry, HashTable::hash / add / get
  pysph/base/spatial_hash_nnps.pyx : SpatialHashNNPS._bin, _neighbor_boxes,
      find_nearest_neighbors
  pysph/base/cell_indexing_nnps.pyx : CellIndexingNNPS._get_key, _get_id,
      _get_x/_get_y/_get_z, fill_array, _neighbor_boxes, find_nearest_neighbors

A source array enters as `n` (its length) and `cellAt : Nat → Cell` (integer
cell triple of particle `i`, i.e. `find_cell_id_raw` of its shifted
coordinates).  Core Lean only.
-/
namespace PysphVerif.Nnps

/-- integer cell triple (`int c_x, c_y, c_z`) -/
abbrev Cell := Int × Int × Int

def Cell.add (a b : Cell) : Cell := (a.1 + b.1, a.2.1 + b.2.1, a.2.2 + b.2.2)

/-- the 27 cells visited around `cq`, in the loop order `ix, iy, iz` (x outermost) of
LinkedList / BoxSort / DictBoxSort / SpatialHash -/
def stencilCells (cq : Cell) : List Cell := shifts27.map (Cell.add cq)

/-- the loop order of `CellIndexingNNPS._neighbor_boxes`: `p` (z shift) outermost,
`r` (x shift) innermost -/
def shifts27z : List Cell :=
  [(-1 : Int), 0, 1].flatMap (fun p => [(-1 : Int), 0, 1].flatMap (fun q =>
    [(-1 : Int), 0, 1].map (fun r => (r, q, p))))

def stencilCellsZ (cq : Cell) : List Cell := shifts27z.map (Cell.add cq)

/-- the test `i+p>=0 and j+q>=0 and k+r>=0` of `_neighbor_boxes` (SpatialHash, CellIndexing) -/
def nonnegCell (c : Cell) : Bool := decide (0 ≤ c.1) && decide (0 ≤ c.2.1) && decide (0 ≤ c.2.2)

/-- cell triple of source particle `j` (`(0,0,0)` for an index out of range; never used there) -/
def cellAtOf {α : Type} [Sub α] [Div α] (fl : α → Int) (c : α) (o : Pt α) (src : List (Pt α))
    (j : Nat) : Cell :=
  match src[j]? with
  | some p => cell3 fl c o p
  | none => (0, 0, 0)

/-- smoothing length of source particle `j` (0 out of range; never used there) -/
def hAtOf {α : Type} [OfNat α 0] (src : List (Pt α)) (j : Nat) : α :=
  match src[j]? with
  | some p => p.h
  | none => 0

/-! ## flattened cell index (LinkedList, BoxSort) -/

/-- `flatten_raw`: `x + ncx*y + ncx*ncy*z` as a `long` (the `dim` argument is not used by the
code) -/
def flattenCell (nc : Nat × Nat × Nat) (c : Cell) : Int :=
  c.1 + (nc.1 : Int) * c.2.1 + (nc.1 : Int) * (nc.2.1 : Int) * c.2.2

/-- `is_valid = (ncx > cid_x > -1) and (ncy > cid_y > -1) and (ncz > cid_z > -1)` -/
def isValidCell (nc : Nat × Nat × Nat) (c : Cell) : Bool :=
  decide (0 ≤ c.1) && decide (c.1 < (nc.1 : Int)) && decide (0 ≤ c.2.1) &&
    decide (c.2.1 < (nc.2.1 : Int)) && decide (0 ≤ c.2.2) && decide (c.2.2 < (nc.2.2 : Int))

/-- `get_valid_cell_index`: flattened index of a cell inside the box when it also passes
`-1 < cell_index < n_cells`, else `-1` (`none`) -/
def validCellIndex (nc : Nat × Nat × Nat) (ncells : Nat) (c : Cell) : Option Nat :=
  if isValidCell nc c then
    (if 0 ≤ flattenCell nc c ∧ flattenCell nc c < (ncells : Int) then some (flattenCell nc c).toNat
     else none)
  else none

/-- the pairs `(i, _cid)` that `LinkedListNNPS._bin` inserts, in order -/
def llItems (nc : Nat × Nat × Nat) (n : Nat) (cellAt : Nat → Cell) : List (Nat × Nat) :=
  (List.range n).map (fun i => (i, (flattenCell nc (cellAt i)).toNat))

/-- candidates of one stencil cell: the `while (_next != UINT_MAX)` walk when the cell index is
valid -/
def llLookup (s : LL) (nc : Nat × Nat × Nat) (ncells n : Nat) (c : Cell) : List Nat :=
  match validCellIndex nc ncells c with
  | some ci => s.traverse n ci
  | none => []

/-- `LinkedListNNPS.find_nearest_neighbors`: candidate indices in visiting order -/
def llCands (nc : Nat × Nat × Nat) (ncells n : Nat) (cellAt : Nat → Cell) (cq : Cell) : List Nat :=
  (stencilCells cq).flatMap (llLookup (LL.build (llItems nc n cellAt)) nc ncells n)

/-! ### BoxSort: `std::map` from flattened id to dense index -/

/-- `std::map::insert` of a key into the ordered key set (no duplicates) -/
def insertKey (k : Int) : List Int → List Int
  | [] => [k]
  | a :: as => if k < a then k :: a :: as else if k = a then a :: as else a :: insertKey k as

/-- one insertion of `_count_occupied_cells` -/
def occStep (m : List Int) (k : Int) : List Int := insertKey k m

/-- `_count_occupied_cells`: ordered set of the flattened ids of all particles of all arrays;
the second loop numbers them `0, 1, …` in key order, so `cell_to_index[id]` is the position -/
def occupied (ids : List Int) : List Int := ids.foldl occStep []

/-- `cell_to_index.find(id)` -/
def cellToIndex (occ : List Int) (id : Int) : Option Nat :=
  if id ∈ occ then some (occ.idxOf id) else none

/-- `BoxSortNNPS._get_flattened_cell_index`: `cell_to_index[cell_id]` (`operator[]` yields 0 for a
missing key; every binned particle's id is present) -/
def boxItems (nc : Nat × Nat × Nat) (occ : List Int) (n : Nat) (cellAt : Nat → Cell) :
    List (Nat × Nat) :=
  (List.range n).map (fun i => (i, (cellToIndex occ (flattenCell nc (cellAt i))).getD 0))

/-- `BoxSortNNPS._get_valid_cell_index` -/
def boxValidIndex (nc : Nat × Nat × Nat) (occ : List Int) (c : Cell) : Option Nat :=
  if isValidCell nc c then
    (if 0 ≤ flattenCell nc c then cellToIndex occ (flattenCell nc c) else none)
  else none

def boxLookup (s : LL) (nc : Nat × Nat × Nat) (occ : List Int) (n : Nat) (c : Cell) : List Nat :=
  match boxValidIndex nc occ c with
  | some ci => s.traverse n ci
  | none => []

/-- `BoxSortNNPS`: `find_nearest_neighbors` of `LinkedListNNPS` with the two overridden index
functions -/
def boxCands (nc : Nat × Nat × Nat) (occ : List Int) (n : Nat) (cellAt : Nat → Cell) (cq : Cell) :
    List Nat :=
  (stencilCells cq).flatMap (boxLookup (LL.build (boxItems nc occ n cellAt)) nc occ n)

/-! ## DictBoxSort: Python dict keyed by the integer triple

`cells[cid]` is a `Cell` object holding one index list per particle array
(`lindices[pa_index]`); `none` = key absent. -/

abbrev DictCells := Cell → Option (Nat → List Nat)

/-- one iteration of `DictBoxSortNNPS._bin` for particle `i` of array `pa` with cell `c`:
create the cell if absent, then `lindices[pa].append(i)` -/
def dictInsert (d : DictCells) (t : Nat × Nat × Cell) : DictCells :=
  fun c' =>
    if c' = t.2.2 then
      some (fun a => if a = t.1 then ((d t.2.2).getD (fun _ => [])) a ++ [t.2.1]
                     else ((d t.2.2).getD (fun _ => [])) a)
    else d c'

/-- `update()`: `_refresh` clears the dict, then `_bin` for every array in order -/
def dictBuild (items : List (Nat × Nat × Cell)) : DictCells := items.foldl dictInsert (fun _ => none)

/-- the items of array `pa` with `n` particles -/
def dictItems (pa n : Nat) (cellAt : Nat → Cell) : List (Nat × Nat × Cell) :=
  (List.range n).map (fun i => (pa, i, cellAt i))

/-- `PyDict_Contains` / `PyDict_GetItem` / `lindices[src_index]` -/
def dictLookup (d : DictCells) (src : Nat) (c : Cell) : List Nat :=
  match d c with
  | some l => l src
  | none => []

/-- `DictBoxSortNNPS.get_nearest_particles_no_cache`: candidates in visiting order -/
def dictCands (d : DictCells) (src : Nat) (cq : Cell) : List Nat :=
  (stencilCells cq).flatMap (dictLookup d src)

/-! ## SpatialHash: chained hash table (`spatial_hash.h`) -/

/-- `HashEntry`: cell coordinates, the particle indices of that cell, `h_max` -/
structure HEntry (α : Type) where
  c : Cell
  idx : List Nat
  hmax : α

section hash
variable {α : Type} [LT α] [DecidableLT α]

/-- `HashEntry::add`: `indices.push_back(idx); h_max = max(h_max, h)` (`std::max(a,b)` is
`(a < b) ? b : a`) -/
def HEntry.add (e : HEntry α) (i : Nat) (h : α) : HEntry α :=
  { c := e.c, idx := e.idx ++ [i], hmax := if e.hmax < h then h else e.hmax }

/-- the chain walk of `HashTable::add`: stop at the entry whose integer coordinates match,
otherwise link a new entry at the end -/
def chainAdd (c : Cell) (i : Nat) (h : α) : List (HEntry α) → List (HEntry α)
  | [] => [{ c := c, idx := [i], hmax := h }]
  | e :: es => if e.c = c then e.add i h :: es else e :: chainAdd c i h es

/-- the chain walk of `HashTable::get` -/
def chainGet (c : Cell) : List (HEntry α) → Option (HEntry α)
  | [] => none
  | e :: es => if e.c = c then some e else chainGet c es

/-- bucket number → chain (`NULL` = `[]`) -/
abbrev HTable (α : Type) := Nat → List (HEntry α)

/-- `HashTable::add(i, j, k, idx, h)` for an arbitrary hash function -/
def HTable.add (hash : Cell → Nat) (t : HTable α) (item : Cell × Nat × α) : HTable α :=
  fun b => if b = hash item.1 then chainAdd item.1 item.2.1 item.2.2 (t (hash item.1)) else t b

/-- `HashTable::get(i, j, k)` -/
def HTable.get (hash : Cell → Nat) (t : HTable α) (c : Cell) : Option (HEntry α) :=
  chainGet c (t (hash c))

/-- `_refresh` (`new HashTable`) followed by `_bin` -/
def HTable.build (hash : Cell → Nat) (items : List (Cell × Nat × α)) : HTable α :=
  items.foldl (HTable.add hash) (fun _ => [])

/-- indices stored for a cell (`get(..)->get_indices()`, nothing for `NULL`) -/
def HTable.indices (hash : Cell → Nat) (t : HTable α) (c : Cell) : List Nat :=
  match t.get hash c with
  | some e => e.idx
  | none => []

/-- the items `SpatialHashNNPS._bin` adds, in order -/
def hashItems (n : Nat) (cellAt : Nat → Cell) (hAt : Nat → α) : List (Cell × Nat × α) :=
  (List.range n).map (fun i => (cellAt i, i, hAt i))

/-- `SpatialHashNNPS._neighbor_boxes`: the stencil cells with non-negative coordinates -/
def neighborBoxes (cq : Cell) : List Cell := (stencilCells cq).filter nonnegCell

/-- `SpatialHashNNPS.find_nearest_neighbors`: candidates in visiting order -/
def shCands (hash : Cell → Nat) (n : Nat) (cellAt : Nat → Cell) (hAt : Nat → α) (cq : Cell) :
    List Nat :=
  (neighborBoxes cq).flatMap (HTable.indices hash (HTable.build hash (hashItems n cellAt hAt)))

end hash

def hashP1 : Nat := 73856093
def hashP2 : Nat := 19349663
def hashP3 : Nat := 83492791

/-- `HashTable::hash`: `((i*p1)^(j*p2)^(k*p3)) % table_size` on `long long`.  Only reached with
non-negative coordinates (particles are binned relative to `xmin`, `_neighbor_boxes` drops
negative cells), for which the products stay below 2^63, so `Nat` arithmetic is the same. -/
def spatialHash (size : Nat) (c : Cell) : Nat :=
  ((c.1.toNat * hashP1) ^^^ (c.2.1.toNat * hashP2) ^^^ (c.2.2.toNat * hashP3)) % size

/-! ## CellIndexing: sorted packed 32-bit keys -/

/-- `_get_key(n, i, j, k)`: `n + (1<<I)*i + (1<<(I+J))*j + (1<<(I+J+K))*k` in `unsigned int`
arithmetic (mod 2^32) -/
def ciKey (I J K n : Nat) (c : Nat × Nat × Nat) : Nat :=
  (n + 2 ^ I * c.1 + 2 ^ (I + J) * c.2.1 + 2 ^ (I + J + K) * c.2.2) % 2 ^ 32

/-- `_get_id`: `key % (1 << I)` -/
def ciId (I : Nat) (key : Nat) : Nat := key % 2 ^ I
/-- `_get_x`, `_get_y`, `_get_z` -/
def ciCell (I J K : Nat) (key : Nat) : Nat × Nat × Nat :=
  ((key >>> I) % 2 ^ J, (key >>> (I + J)) % 2 ^ K, key >>> (I + J + K))

/-- the explicit no-overflow guard: every field fits its bits and the sum fits 32 bits -/
def ciFits (I J K n : Nat) (c : Nat × Nat × Nat) : Bool :=
  decide (n < 2 ^ I) && decide (c.1 < 2 ^ J) && decide (c.2.1 < 2 ^ K) &&
    decide (n + 2 ^ I * c.1 + 2 ^ (I + J) * c.2.1 + 2 ^ (I + J + K) * c.2.2 < 2 ^ 32)

def Cell.toNat3 (c : Cell) : Nat × Nat × Nat := (c.1.toNat, c.2.1.toNat, c.2.2.toNat)

/-- ordered insertion -/
def insertAsc (k : Nat) : List Nat → List Nat
  | [] => [k]
  | a :: as => if k ≤ a then k :: a :: as else a :: insertAsc k as

/-- `std::sort` of the key array (ascending; the sorted arrangement of a list of numbers is
unique, so any sorting algorithm stands for it) -/
def sortAsc (l : List Nat) : List Nat := l.foldr insertAsc []

/-- `fill_array`, first loop + `sort`: the sorted keys of the array -/
def ciKeys (I J K n : Nat) (cellAt : Nat → Cell) : List Nat :=
  sortAsc ((List.range n).map (fun i => ciKey I J K i (cellAt i).toNat3))

/-- `fill_array`, second loop: walk the sorted keys, close a run `(cell, first, length)` whenever
the decoded `(x, y, z)` changes.  `cur` = current decoded cell, `s` = `cell.first`,
`l` = number of keys of the current run seen so far. -/
def ciRunsAux (dec : Nat → Nat × Nat × Nat) :
    (cur : Nat × Nat × Nat) → (s l : Nat) → List Nat → List ((Nat × Nat × Nat) × Nat × Nat)
  | cur, s, l, [] => [(cur, s, l)]
  | cur, s, l, k :: ks =>
    if dec k = cur then ciRunsAux dec cur s (l + 1) ks
    else (cur, s, l) :: ciRunsAux dec (dec k) (s + l) 1 ks

/-- runs of a non-empty key array (for an empty array the code reads `current_keys[0]` out of
bounds — outside this model) -/
def ciRuns (dec : Nat → Nat × Nat × Nat) : List Nat → List ((Nat × Nat × Nat) × Nat × Nat)
  | [] => []
  | k :: ks => ciRunsAux dec (dec k) 0 1 ks

/-- `current_indices.find(_get_key(0, x, y, z))` in the `std::map` filled by
`current_indices.insert` (which keeps the FIRST entry of a key) -/
def ciFind (I J K : Nat) (runs : List ((Nat × Nat × Nat) × Nat × Nat)) (c : Nat × Nat × Nat) :
    Option ((Nat × Nat × Nat) × Nat × Nat) :=
  runs.find? (fun r => ciKey I J K 0 r.1 = ciKey I J K 0 c)

/-- candidates of one stencil box: `_get_id(current_keys[n + j])` for `j < length` -/
def ciLookup (I J K : Nat) (keys : List Nat) (c : Cell) : List Nat :=
  match ciFind I J K (ciRuns (ciCell I J K) keys) c.toNat3 with
  | some r => ((keys.drop r.2.1).take r.2.2).map (ciId I)
  | none => []

/-- `CellIndexingNNPS._neighbor_boxes` -/
def neighborBoxesZ (cq : Cell) : List Cell := (stencilCellsZ cq).filter nonnegCell

/-- `CellIndexingNNPS.find_nearest_neighbors`: candidates in visiting order -/
def ciCands (I J K n : Nat) (cellAt : Nat → Cell) (cq : Cell) : List Nat :=
  (neighborBoxesZ cq).flatMap (ciLookup I J K (ciKeys I J K n cellAt))

/-! ## Sub-grid family: ExtendedSpatialHashNNPS (exact mode)

Transcribes pysph/base/spatial_hash_nnps.pyx : ExtendedSpatialHashNNPS._bin
(`h_sub = cell_size/H`, particles hashed by their sub-cell, `h_max` per
entry), `_h_mask_exact`, `_neighbor_boxes` (per-box cut
`H' = ceil(radius_scale*fmax(cell.h_max, h)/h_sub)`), `find_nearest_neighbors`. -/

/-- `range(-H, H+1)` -/
def maskRange (H : Nat) : List Int := (List.range (2 * H + 1)).map (fun (i : Nat) => (i : Int) - (H : Int))

/-- `_h_mask_exact`: all `(s, t, u)` with `-H ≤ s, t, u ≤ H`, `s` outermost -/
def hMaskExact (H : Nat) : List Cell :=
  (maskRange H).flatMap (fun s => (maskRange H).flatMap (fun t => (maskRange H).map (fun u => (s, t, u))))

section subgrid
variable {α : Type} [Mul α] [Div α] [LT α] [DecidableLT α]

/-- `fmax` -/
def fmaxA (a b : α) : α := if a < b then b else a

/-- the body of the loop in `_neighbor_boxes` for mask entry `m`: the box must have non-negative
coordinates, be present in the table, and lie within `H' = ceil(rs*fmax(h_max, h)/h_sub)` of the
query's sub-cell on every axis (`cl` is `ceil`) -/
def eshBoxOk (cl : α → Int) (hash : Cell → Nat) (t : HTable α) (rs hsub hq : α) (cq m : Cell) :
    Bool :=
  nonnegCell (Cell.add cq m) &&
    match t.get hash (Cell.add cq m) with
    | none => false
    | some e =>
      decide ((m.1.natAbs : Int) ≤ cl (rs * fmaxA e.hmax hq / hsub)) &&
      decide ((m.2.1.natAbs : Int) ≤ cl (rs * fmaxA e.hmax hq / hsub)) &&
      decide ((m.2.2.natAbs : Int) ≤ cl (rs * fmaxA e.hmax hq / hsub))

/-- the boxes `_neighbor_boxes` returns -/
def eshBoxes (cl : α → Int) (hash : Cell → Nat) (t : HTable α) (H : Nat) (rs hsub hq : α)
    (cq : Cell) : List Cell :=
  ((hMaskExact H).filter (eshBoxOk cl hash t rs hsub hq cq)).map (Cell.add cq)

/-- `ExtendedSpatialHashNNPS.find_nearest_neighbors`: candidates in visiting order; `cellAt`
are the SUB-cells (cell size `h_sub`) -/
def eshCands (cl : α → Int) (hash : Cell → Nat) (H : Nat) (rs hsub : α) (n : Nat)
    (cellAt : Nat → Cell) (hAt : Nat → α) (hq : α) (cq : Cell) : List Nat :=
  (eshBoxes cl hash (HTable.build hash (hashItems n cellAt hAt)) H rs hsub hq cq).flatMap
    (HTable.indices hash (HTable.build hash (hashItems n cellAt hAt)))

end subgrid

/-! ## Morton keys (`z_order.h::get_key`) -/

/-- the five spreading steps applied to one coordinate (64-bit: the masks keep the value below
2^61, `i << 32` of an argument below 2^32 does not overflow) -/
def mortonSpread (i : Nat) : Nat :=
  let i := (i ||| (i <<< 32)) &&& 0x1f00000000ffff
  let i := (i ||| (i <<< 16)) &&& 0x1f0000ff0000ff
  let i := (i ||| (i <<< 8)) &&& 0x100f00f00f00f00f
  let i := (i ||| (i <<< 4)) &&& 0x10c30c30c30c30c3
  (i ||| (i <<< 2)) &&& 0x1249249249249249

/-- `get_key(i, j, k)` -/
def mortonKey (i j k : Nat) : Nat :=
  mortonSpread i ||| (mortonSpread j <<< 1) ||| (mortonSpread k <<< 2)

end PysphVerif.Nnps
