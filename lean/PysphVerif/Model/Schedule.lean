/-
C03 — model of one acceleration evaluation (`AccelerationEval.compute(t, dt)`)
as the *sequence of calls* it makes.

Two executable definitions over the same datatypes:

* `implTrace` transcribes the code that exists:
    pysph/sph/acceleration_eval.py        group_equations, MegaGroup._make_data
    pysph/sph/acceleration_eval_cython.mako   do_group, the body of `compute`
    pysph/sph/acceleration_eval_cython_helper.py
        get_dest_array_setup (D_START_IDX / NP_DEST), get_parallel_range (serial: `range`),
        get_iteration_init / get_iteration_check, get_condition_call / get_pre_call / get_post_call
    pysph/sph/equation.py                 Equation.__init__ (sources=[] ↦ None), Group._has_code,
        CythonGroup._get_code / get_py_initialize_code, Group.get_converged_condition
* `specTrace` transcribes the documented order (property C03, docs/source/design/equations.rst)
  sentence by sentence, with plain `filter`s over the user's equation list.

Everything the evaluation *reads from the outside world* — the outcome of `condition(t, dt)`,
of every `converged()`, the array sizes, the value of a named `start_idx`/`stop_idx`, the
neighbour list the NNPS returns — is a field of `Oracle`, and each of them may depend on the
whole history of calls made so far (so data computed by earlier hooks, ghosts re-created by an
earlier `update_nnps`, … are all covered).  Histories are kept newest-first.

The `while True:` of an iterated group need not terminate (see `implIter`); the model carries
`fuel` and records `Event.diverged` when it runs out.

Serial semantics (`prange = range`).  Core Lean only.
-/
namespace PysphVerif.Schedule

/-- the seven optional methods of an `Equation` the generated code dispatches on
(`hasattr(equation, kind)`) -/
inductive Hook where
  | pyInit | init | initPair | loopAll | loop | postLoop | reduce
  deriving DecidableEq, Repr

/-- One `Equation` instance.  `id` stands for object identity (`equation not in all_equations`
compares objects).  `sources = []` is `sources=None`: `Equation.__init__` maps an empty list to
`None` and sets `no_source`. -/
structure Equation where
  id : Nat
  dest : Nat
  sources : List Nat
  hooks : List Hook
  deriving DecidableEq, Repr

/-- `hasattr(equation, kind)` -/
def Equation.has (e : Equation) (k : Hook) : Bool := e.hooks.contains k
/-- `equation.no_source` -/
def Equation.noSource (e : Equation) : Bool := e.sources.isEmpty

/-- `start_idx` / `stop_idx`: a number or the name of a property/constant of the destination -/
inductive Idx where
  | num (n : Nat)
  | named (k : Nat)
  deriving DecidableEq, Repr

/-- keyword arguments of `Group.__init__` (callables only by presence).

`name` is the user's `name=` (`none`: the default `Group_<counter>`); it is a label for the
profiling output and nothing requires it to be unique.  NO definition below reads it: the
generated `compute` reaches a group's `condition` / `pre` / `post` through
`self.groups[top]` / `self.groups[top].data[sub]`, i.e. through the group's POSITION in the
group tree (`GId`; `_compute_group_map` is keyed by the group object, `get_condition_call` /
`get_pre_call` / `get_post_call` look the object up) — never through its name.  The field is
there so that this can be stated: `group_name_irrelevant` (Props/C03.lean). -/
structure Attrs where
  real : Bool := true
  start : Idx := .num 0
  stop : Option Idx := none
  iterate : Bool := false
  maxIter : Nat := 1
  minIter : Nat := 0
  hasCond : Bool := false
  hasPre : Bool := false
  hasPost : Bool := false
  updateNnps : Bool := false
  name : Option String := none
  deriving DecidableEq, Repr

/-- a group of equations (no sub-groups) -/
structure Leaf where
  attrs : Attrs
  eqs : List Equation
  deriving DecidableEq, Repr

/-- a top-level group: equations, or one level of sub-groups -/
inductive Top where
  | leaf (l : Leaf)
  | parent (a : Attrs) (subs : List Leaf)
  deriving DecidableEq, Repr

/-- what the user hands to `AccelerationEval`: a flat list of equations or a list of groups
(mixing raises `ValueError`, so it is not a program) -/
inductive Program where
  | flat (eqs : List Equation)
  | groups (gs : List Top)
  deriving DecidableEq, Repr

/-- `self.groups[top]` or `self.groups[top].data[sub]`: the value `_compute_group_map` stores
for the group OBJECT at that position of the group tree; the only way the generated code refers
to a group (two groups with the same `name` are still two positions) -/
structure GId where
  top : Nat
  sub : Option Nat
  deriving DecidableEq, Repr

/-- one observable call made by `compute` -/
inductive Event where
  | pre (g : GId)
  | post (g : GId)
  | cond (g : GId) (b : Bool)
  /-- `nnps.update_domain(); nnps.update()` of a group with `update_nnps` -/
  | nnps (g : GId)
  | pyInit (e d : Nat)
  | init (e d i : Nat)
  /-- `loop` of an equation without sources: called once per destination particle, no neighbours -/
  | loopNoSrc (e d i : Nat)
  | initPair (e d s i : Nat)
  /-- `loop_all`, with the `NBRS[0:N_NBRS]` it is handed -/
  | loopAll (e d s i : Nat) (nbrs : List Nat)
  | loop (e d s i j : Nat)
  | postLoop (e d i : Nat)
  | reduce (e d : Nat)
  | conv (e : Nat) (b : Bool)
  /-- model artefact: the iteration loop was cut off after `fuel` passes -/
  | diverged (g : GId)
  deriving DecidableEq, Repr

/-- history of calls, newest first -/
abbrev Hist := List Event

/-- Everything `compute` reads from outside, as functions of the history so far. -/
structure Oracle where
  /-- `group.condition(t, dt)` -/
  cond : Hist → GId → Bool
  /-- `equation.converged() > 0` -/
  conv : Hist → Nat → Bool
  /-- `ParticleArrayWrapper.size(real)` = `get_number_of_particles(real)` -/
  size : Hist → Nat → Bool → Nat
  /-- `self.<array>.<name>[0]` -/
  named : Hist → Nat → Nat → Nat
  /-- `nnps.get_nearest_neighbors(i)` in context (src, dst): `nbrs h dst src i` -/
  nbrs : Hist → Nat → Nat → Nat → List Nat

/-- run `f a` for every `a` of `l`, in order, threading the history -/
def forEach {α : Type} : List α → (α → Hist → Hist) → Hist → Hist
  | [], _, h => h
  | a :: l, f, h => forEach l f (f a h)

/-! ## The code: MegaGroup._make_data -/

/-- loop body of `dest_list`: `if dest not in dest_list: dest_list.append(dest)` -/
def destListStep (acc : List Nat) (e : Equation) : List Nat :=
  if acc.contains e.dest then acc else acc ++ [e.dest]

/-- `dest_list` of `_make_data` -/
def destList (eqs : List Equation) : List Nat := eqs.foldl destListStep []

/-- `sources[src].append(equation)` on a `defaultdict(list)` (insertion-ordered) -/
def addSource (e : Equation) : List (Nat × List Equation) → Nat → List (Nat × List Equation)
  | [], s => [(s, [e])]
  | (k, v) :: m, s => if k = s then (k, v ++ [e]) :: m else (k, v) :: addSource e m s

/-- `(eqs_with_no_source, sources, all_eqs)` for one destination -/
structure DestData where
  noSrc : List Equation
  sources : List (Nat × List Equation)
  all : List Equation
  deriving DecidableEq, Repr

/-- body of `for equation in equations:` inside `for dest in dest_list:` -/
def destDataStep (d : Nat) (dd : DestData) (e : Equation) : DestData :=
  if e.dest != d then dd else
  let all := if dd.all.contains e then dd.all else dd.all ++ [e]
  if e.noSource then { dd with all := all, noSrc := dd.noSrc ++ [e] }
  else { dd with all := all, sources := e.sources.foldl (addSource e) dd.sources }

def makeDest (eqs : List Equation) (d : Nat) : DestData :=
  eqs.foldl (destDataStep d) ⟨[], [], []⟩

/-- `MegaGroup._make_data` for a group without sub-groups: an `OrderedDict` dest ↦ data -/
def makeData (eqs : List Equation) : List (Nat × DestData) :=
  (destList eqs).map (fun d => (d, makeDest eqs d))

/-! ## The code: the template -/

/-- `Group._has_code(kind)` -/
def hasCode (eqs : List Equation) (k : Hook) : Bool := eqs.any (·.has k)

/-- one equation's line in `CythonGroup._get_code` / `get_py_initialize_code` -/
def callOne (k : Hook) (mk : Equation → Event) (e : Equation) (h : Hist) : Hist :=
  if e.has k then mk e :: h else h

/-- `CythonGroup._get_code(kind)`: one call per equation that defines the method, list order -/
def callAll (eqs : List Equation) (k : Hook) (mk : Equation → Event) : Hist → Hist :=
  forEach eqs (callOne k mk)

/-- `D_START_IDX` (`get_dest_array_setup`) -/
def startIdx (O : Oracle) (h : Hist) (a : Attrs) (d : Nat) : Nat :=
  match a.start with
  | .num n => n
  | .named k => O.named h d k

/-- `NP_DEST` (`get_dest_array_setup`) -/
def npDest (O : Oracle) (h : Hist) (a : Attrs) (d : Nat) : Nat :=
  match a.stop with
  | none => O.size h d a.real
  | some (.num n) => n
  | some (.named k) => O.named h d k

/-- `range(D_START_IDX, NP_DEST)` (`get_parallel_range`, serial) -/
def destRange (O : Oracle) (h : Hist) (a : Attrs) (d : Nat) : List Nat :=
  List.range' (startIdx O h a d) (npDest O h a d - startIdx O h a d)

/-- body of `for nbr_idx in range(N_NBRS)` -/
def loopNbr (d s i : Nat) (g : List Equation) (j : Nat) : Hist → Hist :=
  callAll g .loop (fun e => .loop e.id d s i j)

/-- `% if <has code>:` around a `for d_idx in range(...)` (or `for nbr_idx …`) loop -/
def guardedLoop {α : Type} (b : Bool) (l : List α) (f : α → Hist → Hist) (h : Hist) : Hist :=
  if b then forEach l f h else h

/-- `% if <has code>:` around a block -/
def guardedIf (b : Bool) (f : Hist → Hist) (h : Hist) : Hist := if b then f h else h

/-- body of the `for d_idx` loop of one source (neighbour query, `loop_all`, `loop`) -/
def srcParticle (O : Oracle) (d s : Nat) (g : List Equation) (i : Nat) (h : Hist) : Hist :=
  let nb := O.nbrs h d s i
  h |> guardedIf (hasCode g .loopAll) (callAll g .loopAll (fun e => .loopAll e.id d s i nb))
    |> guardedLoop (hasCode g .loop) nb (loopNbr d s i g)

def initPairParticle (d s : Nat) (g : List Equation) (i : Nat) : Hist → Hist :=
  callAll g .initPair (fun e => .initPair e.id d s i)

/-- `% for source, eq_group in sources.items():` -/
def doSource (O : Oracle) (d : Nat) (rng : List Nat) (sg : Nat × List Equation) (h : Hist) : Hist :=
  h |> guardedLoop (hasCode sg.2 .initPair) rng (initPairParticle d sg.1 sg.2)
    |> guardedLoop (hasCode sg.2 .loop || hasCode sg.2 .loopAll) rng (srcParticle O d sg.1 sg.2)

def initParticle (d : Nat) (g : List Equation) (i : Nat) : Hist → Hist :=
  callAll g .init (fun e => .init e.id d i)
def noSrcParticle (d : Nat) (g : List Equation) (i : Nat) : Hist → Hist :=
  callAll g .loop (fun e => .loopNoSrc e.id d i)
def postLoopParticle (d : Nat) (g : List Equation) (i : Nat) : Hist → Hist :=
  callAll g .postLoop (fun e => .postLoop e.id d i)

/-- `% for dest, (eqs_with_no_source, sources, all_eqs) in group.data.items():` -/
def doDest (O : Oracle) (a : Attrs) (ddd : Nat × DestData) (h : Hist) : Hist :=
  let d := ddd.1
  let dd := ddd.2
  -- D_START_IDX and NP_DEST are assigned once, before py_initialize
  let rng := destRange O h a d
  h |> callAll dd.all .pyInit (fun e => .pyInit e.id d)
    |> guardedLoop (hasCode dd.all .init) rng (initParticle d dd.all)
    |> guardedLoop (!dd.noSrc.isEmpty && hasCode dd.noSrc .loop) rng (noSrcParticle d dd.noSrc)
    |> forEach dd.sources (doSource O d rng)
    |> guardedLoop (hasCode dd.all .postLoop) rng (postLoopParticle d dd.all)
    |> guardedIf (hasCode dd.all .reduce) (callAll dd.all .reduce (fun e => .reduce e.id d))

/-- a flag-guarded single call (`% if group.pre:` …) -/
def emitIf (b : Bool) (e : Event) (h : Hist) : Hist := if b then e :: h else h

/-- `do_group` of the mako template -/
def doGroup (O : Oracle) (gid : GId) (a : Attrs) (data : List (Nat × DestData)) (h : Hist) : Hist :=
  h |> emitIf a.hasPre (.pre gid)
    |> forEach data (doDest O a)
    |> emitIf a.updateNnps (.nnps gid)
    |> emitIf a.hasPost (.post gid)

/-- `(self.e0.converged() > 0) & (self.e1.converged() > 0) & …`: every equation is asked, in
order; the result is the conjunction -/
def queryConv (O : Oracle) : List Equation → Hist → Hist × Bool
  | [], h => (h, true)
  | e :: es, h =>
    let b := O.conv h e.id
    let r := queryConv O es (.conv e.id b :: h)
    (r.1, b && r.2)

/-- `get_iteration_init` / `get_iteration_check`:
```
_iteration_count = 1
while True:
    <body>
    if ((_iteration_count >= min_iterations)
       and (<converged> or (_iteration_count == max_iterations))):
        break
    _iteration_count += 1
```
`converged()` is only called once `count ≥ min` (Python `and` short-circuits). -/
def implIter (O : Oracle) (gid : GId) (a : Attrs) (convEqs : List Equation)
    (body : Hist → Hist) : Nat → Nat → Hist → Hist
  | 0, _, h => .diverged gid :: h
  | fuel + 1, count, h =>
    let h := body h
    if a.minIter ≤ count then
      let r := queryConv O convEqs h
      if r.2 || count == a.maxIter then r.1
      else implIter O gid a convEqs body fuel (count + 1) r.1
    else implIter O gid a convEqs body fuel (count + 1) h

/-- `% if group.iterate:` wrapper -/
def wrapIter (O : Oracle) (fuel : Nat) (gid : GId) (a : Attrs) (convEqs : List Equation)
    (body : Hist → Hist) (h : Hist) : Hist :=
  if a.iterate then implIter O gid a convEqs body fuel 1 h else body h

/-- `% if group.condition is not None:` / `if <condition call>:` -/
def wrapCond (O : Oracle) (gid : GId) (a : Attrs) (body : Hist → Hist) (h : Hist) : Hist :=
  if a.hasCond then
    let b := O.cond h gid
    let h := .cond gid b :: h
    if b then body h else h
  else body h

/-- one sub-group inside its parent: own condition, then `do_group` (its `iterate` is not
consulted by the template) -/
def doSub (O : Oracle) (gi : Nat) (sk : Leaf × Nat) : Hist → Hist :=
  wrapCond O ⟨gi, some sk.2⟩ sk.1.attrs
    (doGroup O ⟨gi, some sk.2⟩ sk.1.attrs (makeData sk.1.eqs))

/-- the `% if group.has_subgroups:` branch -/
def parentBody (O : Oracle) (gi : Nat) (a : Attrs) (subs : List Leaf) (h : Hist) : Hist :=
  h |> emitIf a.hasPre (.pre ⟨gi, none⟩)
    |> forEach subs.zipIdx (doSub O gi)
    |> emitIf a.updateNnps (.nnps ⟨gi, none⟩)
    |> emitIf a.hasPost (.post ⟨gi, none⟩)

/-- `% for g_idx, group in enumerate(helper.object.mega_groups):` body -/
def doTop (O : Oracle) (fuel : Nat) (tg : Top × Nat) (h : Hist) : Hist :=
  match tg.1 with
  | .leaf l =>
    let data := makeData l.eqs
    -- `% if len(group.data) > 0:` — a group without equations emits nothing at all
    if data.isEmpty then h else
    wrapCond O ⟨tg.2, none⟩ l.attrs
      (wrapIter O fuel ⟨tg.2, none⟩ l.attrs l.eqs (doGroup O ⟨tg.2, none⟩ l.attrs data)) h
  | .parent a subs =>
    wrapCond O ⟨tg.2, none⟩ a
      (wrapIter O fuel ⟨tg.2, none⟩ a (subs.flatMap (·.eqs)) (parentBody O tg.2 a subs)) h

/-- `acceleration_eval.group_equations` -/
def groupEquations : Program → List Top
  | .flat eqs => [.leaf ⟨{}, eqs⟩]
  | .groups [] => [.leaf ⟨{}, []⟩]
  | .groups gs => gs

def implRun (O : Oracle) (fuel : Nat) (P : Program) (h : Hist) : Hist :=
  forEach (groupEquations P).zipIdx (doTop O fuel) h

/-- the calls one `compute(t, dt)` makes, oldest first -/
def implTrace (O : Oracle) (fuel : Nat) (P : Program) : List Event :=
  (implRun O fuel P []).reverse

/-! ## The documented order -/

/-- order of first appearance -/
def firstAppearance : List Nat → List Nat
  | [] => []
  | x :: xs => x :: (firstAppearance xs).filter (· != x)

/-- every equation of `g` that defines hook `k`, in user order, called once -/
def specCalls (g : List Equation) (k : Hook) (mk : Equation → Event) : Hist → Hist :=
  forEach (g.filter (·.has k)) (fun e h => mk e :: h)

/-- "loop_all and loop over that particle's neighbours" for one destination particle -/
def specSrcParticle (O : Oracle) (d s : Nat) (g : List Equation) (i : Nat) (h : Hist) : Hist :=
  let nb := O.nbrs h d s i
  h |> specCalls g .loopAll (fun e => .loopAll e.id d s i nb)
    |> forEach nb (fun j => specCalls g .loop (fun e => .loop e.id d s i j))

/-- "then per source initialize_pair, loop_all and loop over that particle's neighbours" -/
def specSource (O : Oracle) (d : Nat) (rng : List Nat) (eqsD : List Equation) (s : Nat)
    (h : Hist) : Hist :=
  let g := eqsD.filter (fun e => e.sources.contains s)
  h |> forEach rng (fun i => specCalls g .initPair (fun e => .initPair e.id d s i))
    |> forEach rng (specSrcParticle O d s g)

/-- "each destination gets py_initialize, initialize, [loop of source-free equations,] then per
source …, then post_loop and reduce, with equations in user order"; indices `range(start, N)` -/
def specDest (O : Oracle) (a : Attrs) (eqs : List Equation) (d : Nat) (h : Hist) : Hist :=
  let eqsD := eqs.filter (fun e => e.dest == d)
  let rng := destRange O h a d
  h |> specCalls eqsD .pyInit (fun e => .pyInit e.id d)
    |> forEach rng (fun i => specCalls eqsD .init (fun e => .init e.id d i))
    |> forEach rng (fun i =>
         specCalls (eqsD.filter (·.noSource)) .loop (fun e => .loopNoSrc e.id d i))
    |> forEach (firstAppearance (eqsD.flatMap (·.sources))) (specSource O d rng eqsD)
    |> forEach rng (fun i => specCalls eqsD .postLoop (fun e => .postLoop e.id d i))
    |> specCalls eqsD .reduce (fun e => .reduce e.id d)

/-- one pass over a group: pre, the destinations in order of first appearance, the NNPS
refresh, post -/
def specGroup (O : Oracle) (gid : GId) (a : Attrs) (eqs : List Equation) (h : Hist) : Hist :=
  h |> emitIf a.hasPre (.pre gid)
    |> forEach (firstAppearance (eqs.map (·.dest))) (specDest O a eqs)
    |> emitIf a.updateNnps (.nnps gid)
    |> emitIf a.hasPost (.post gid)

/-- "repeats until all its equations report convergence, at least min_iterations and at most
max_iterations times": `rem` passes may still follow this one -/
def specIter (O : Oracle) (a : Attrs) (convEqs : List Equation) (body : Hist → Hist) :
    Nat → Nat → Hist → Hist
  | 0, count, h =>
    let h := body h
    if count < a.minIter then h else (queryConv O convEqs h).1
  | rem + 1, count, h =>
    let h := body h
    if count < a.minIter then specIter O a convEqs body rem (count + 1) h
    else
      let r := queryConv O convEqs h
      if r.2 then r.1 else specIter O a convEqs body rem (count + 1) r.1

def specRepeat (O : Oracle) (a : Attrs) (convEqs : List Equation) (body : Hist → Hist)
    (h : Hist) : Hist :=
  if a.iterate then specIter O a convEqs body (a.maxIter - 1) 1 h else body h

def specSub (O : Oracle) (gi : Nat) (sk : Leaf × Nat) : Hist → Hist :=
  wrapCond O ⟨gi, some sk.2⟩ sk.1.attrs (specGroup O ⟨gi, some sk.2⟩ sk.1.attrs sk.1.eqs)

/-- "sub-groups run in order inside their parent with their own condition, pre/post, real flag
and index range" -/
def specParentBody (O : Oracle) (gi : Nat) (a : Attrs) (subs : List Leaf) (h : Hist) : Hist :=
  h |> emitIf a.hasPre (.pre ⟨gi, none⟩)
    |> forEach subs.zipIdx (specSub O gi)
    |> emitIf a.updateNnps (.nnps ⟨gi, none⟩)
    |> emitIf a.hasPost (.post ⟨gi, none⟩)

/-- "a false condition(t, dt) skips a group" (asked once per evaluation, outside the
iteration); "pre/post run once per pass" -/
def specTop (O : Oracle) (tg : Top × Nat) (h : Hist) : Hist :=
  match tg.1 with
  | .leaf l =>
    wrapCond O ⟨tg.2, none⟩ l.attrs
      (specRepeat O l.attrs l.eqs (specGroup O ⟨tg.2, none⟩ l.attrs l.eqs)) h
  | .parent a subs =>
    wrapCond O ⟨tg.2, none⟩ a
      (specRepeat O a (subs.flatMap (·.eqs)) (specParentBody O tg.2 a subs)) h

/-- a flat list of equations is one group with the default attributes -/
def specGroups : Program → List Top
  | .flat eqs => [.leaf ⟨{}, eqs⟩]
  | .groups gs => gs

def specRun (O : Oracle) (P : Program) (h : Hist) : Hist :=
  forEach (specGroups P).zipIdx (specTop O) h

/-- "One acceleration evaluation runs the groups in the order given" -/
def specTrace (O : Oracle) (P : Program) : List Event := (specRun O P []).reverse

/-! ## Well-formed programs (what the property quantifies over) -/

def Leaf.WF (l : Leaf) : Prop :=
  l.eqs.Nodup ∧ ∀ e ∈ l.eqs, e.sources.Nodup

/-- a group without equations is skipped *entirely* by the template (`len(group.data) > 0`),
so its condition/pre/post/update_nnps are never run -/
def Attrs.silent (a : Attrs) : Prop :=
  a.hasCond = false ∧ a.hasPre = false ∧ a.hasPost = false ∧ a.updateNnps = false

/-- `min_iterations ≤ max_iterations` and at least one pass allowed -/
def Attrs.iterOK (a : Attrs) : Prop := a.iterate = true → 1 ≤ a.maxIter ∧ a.minIter ≤ a.maxIter

def Top.WF : Top → Prop
  | .leaf l => l.WF ∧ l.attrs.iterOK ∧ (l.eqs = [] → l.attrs.silent)
  | .parent a subs => a.iterOK ∧ ∀ l ∈ subs, l.WF

def Program.WF (P : Program) : Prop := ∀ g ∈ specGroups P, g.WF

/-! ## Names (profiling labels) -/

def Attrs.eraseName (a : Attrs) : Attrs := { a with name := none }
def Leaf.eraseNames (l : Leaf) : Leaf := { l with attrs := l.attrs.eraseName }
def Top.eraseNames : Top → Top
  | .leaf l => .leaf l.eraseNames
  | .parent a subs => .parent a.eraseName (subs.map Leaf.eraseNames)
/-- the program with every `name=` dropped: two programs with the same erasure differ only in
how their groups are labelled (same names on several groups, top-level or sub-group, included) -/
def Program.eraseNames : Program → Program
  | .flat eqs => .flat eqs
  | .groups gs => .groups (gs.map Top.eraseNames)

/-- the number of passes any iterated group may need -/
def Top.maxIter : Top → Nat
  | .leaf l => l.attrs.maxIter
  | .parent a _ => a.maxIter

end PysphVerif.Schedule
