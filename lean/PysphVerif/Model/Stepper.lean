/-
C04 — model of the compiled integrator.

Transcribes
  pysph/sph/integrator_cython.mako        : cdef class Integrator (`step`,
      `do_post_stage`, `compute_accelerations`, `update_domain`, the stage
      wrappers generated `for method in get_stepper_method_wrapper_names()`)
  pysph/sph/integrator_cython_helper.py   : `get_stepper_method_wrapper_names`,
      `get_py_stage_code`, `has_stepper_loop`, `get_timestep_code`
  pysph/sph/integrator.py                 : `Integrator.compute_accelerations`,
      `Integrator.update_domain`, `Integrator.step`

The body of `one_timestep` is *pasted* into the compiled class by
`get_timestep_code`; here it is a `Program` (a list of `Cmd`), produced from
the Python source by `translate/timestep2lean.py` (`Gen/Timesteps.lean`).

Everything the integrator does to the particles goes through a `World`: an
arbitrary state type `σ` with the seven operations the generated code invokes.
`Stepper.step` is the generated class (mutable registers `orig_t, t, dt`),
`literalStep` is the property's reading of the same program (no registers:
the time a command sees is computed from the program text; a stage visits
the particles whose tag is 0).  `traceWorld` is the world whose state is the
list of events, used for the correspondence with the real code.

Core Lean only.
-/
namespace PysphVerif.Stepper

/-! ## programs -/

/-- `stage_dt` expressions: arithmetic over the arguments `t`, `dt` of
`one_timestep` and numeric literals (`lit n d` is the exact value `n/d` of the
double the literal denotes). -/
inductive Expr where
  | dt : Expr
  | t : Expr
  | lit (num : Int) (den : Nat) : Expr
  | add (a b : Expr) : Expr
  | sub (a b : Expr) : Expr
  | mul (a b : Expr) : Expr
  | div (a b : Expr) : Expr
  | neg (a : Expr) : Expr
  deriving DecidableEq, Repr, Inhabited

/-- a stepper method name: `initialize` or `stage<k>` -/
inductive Meth where
  | initialize : Meth
  | stage (k : Nat) : Meth
  deriving DecidableEq, Repr, Inhabited

/-- one statement of a `one_timestep` body -/
inductive Cmd where
  | initialize : Cmd
  | stage (k : Nat) : Cmd
  | computeAccelerations (index : Nat) (updateNnps : Bool) : Cmd
  | updateDomain : Cmd
  | doPostStage (e : Expr) (k : Nat) : Cmd
  deriving DecidableEq, Repr, Inhabited

abbrev Program := List Cmd

/-- the arithmetic a `stage_dt` expression needs; no laws are assumed -/
structure Arith (τ : Type) where
  add : τ → τ → τ
  sub : τ → τ → τ
  mul : τ → τ → τ
  div : τ → τ → τ
  neg : τ → τ
  lit : Int → Nat → τ

def Arith.float : Arith Float where
  add := (· + ·)
  sub := (· - ·)
  mul := (· * ·)
  div := (· / ·)
  neg := fun x => -x
  lit := fun n d => Float.ofInt n / Float.ofNat d

def Arith.rat : Arith Rat where
  add := (· + ·)
  sub := (· - ·)
  mul := (· * ·)
  div := (· / ·)
  neg := fun x => -x
  lit := fun n d => mkRat n d

def Expr.eval {τ : Type} (A : Arith τ) (t dt : τ) : Expr → τ
  | .dt => dt
  | .t => t
  | .lit n d => A.lit n d
  | .add a b => A.add (a.eval A t dt) (b.eval A t dt)
  | .sub a b => A.sub (a.eval A t dt) (b.eval A t dt)
  | .mul a b => A.mul (a.eval A t dt) (b.eval A t dt)
  | .div a b => A.div (a.eval A t dt) (b.eval A t dt)
  | .neg a => A.neg (a.eval A t dt)

/-! ## configuration: which stepper each array has -/

/-- what `hasattr(stepper, ...)` answers -/
structure StepperSig where
  /-- `hasattr(stepper, m)` for `m` = `initialize` / `stage<k>` -/
  methods : List Meth
  /-- `hasattr(stepper, 'py_' + m)` -/
  hooks : List Meth
  deriving Repr, Inhabited

structure ArrayCfg where
  name : String
  sig : StepperSig
  deriving Repr, Inhabited

/-- `Integrator(**kw)` as the helper sees it -/
structure Cfg where
  /-- `integrator.steppers` (keyword order) -/
  arrays : List ArrayCfg
  /-- `_post_stage_callback is not None` -/
  hasCallback : Bool
  /-- `len(integrator.acceleration_evals)` -/
  nEvals : Nat
  deriving Repr, Inhabited

def Meth.isStage : Meth → Bool
  | .stage _ => true
  | .initialize => false

/-- `get_stepper_method_wrapper_names`: for every stepper, every attribute
`py_stage*` contributes its name without `py_`, every `stage*` and
`initialize` contributes itself (so `py_initialize` alone creates no wrapper). -/
def sigWrappers (s : StepperSig) : List Meth :=
  s.methods ++ s.hooks.filter Meth.isStage

def wrappers (cfg : Cfg) : List Meth :=
  cfg.arrays.flatMap (fun a => sigWrappers a.sig)

/-- insertion into a list sorted by array name (Python `sorted` on `str`
compares code points, as Lean's `String` order does) -/
def insertByName (a : ArrayCfg) : List ArrayCfg → List ArrayCfg
  | [] => [a]
  | b :: bs => if b.name < a.name then b :: insertByName a bs else a :: b :: bs

/-- `sorted(helper.object.steppers.keys())` -/
def destOrder (cfg : Cfg) : List ArrayCfg :=
  cfg.arrays.foldr insertByName []

def Cmd.meth? : Cmd → Option Meth
  | .initialize => some .initialize
  | .stage k => some (.stage k)
  | _ => none

/-- the pasted body runs to its end: every `self.stageN()`/`self.initialize()`
it calls is a generated wrapper, every evaluator index exists.  (Cython
compiles a call of a missing wrapper as a run-time attribute lookup: the step
then aborts with AttributeError at that statement, after having executed the
statements before it; the driver models exactly that, see Driver/C04.lean.) -/
def cmdWellFormed (cfg : Cfg) : Cmd → Bool
  | .initialize => decide (Meth.initialize ∈ wrappers cfg)
  | .stage k => decide (Meth.stage k ∈ wrappers cfg)
  | .computeAccelerations i _ => decide (i < cfg.nEvals)
  | .updateDomain => true
  | .doPostStage _ _ => true

def wellFormed (cfg : Cfg) (prog : Program) : Bool := prog.all (cmdWellFormed cfg)

/-! ## the world the integrator acts on -/

structure World (σ τ : Type) where
  /-- `self.steppers[dest].py_<m>(dst.array, t, dt)` -/
  hook : String → Meth → τ → τ → σ → σ
  /-- `self.<dest>_stepper.<m>(d_idx, ..., t, dt)` for one `d_idx` -/
  stepOne : String → Meth → Nat → τ → τ → σ → σ
  /-- `dst.size(real=True)` = `pa.num_real_particles` -/
  nReal : String → σ → Nat
  /-- the `tag` array of `dest` (0 = real) -/
  tags : String → σ → List Nat
  /-- `self.nnps.update()` -/
  nnpsUpdate : σ → σ
  /-- `self.acceleration_evals[index].compute(t, dt)` -/
  evalAcc : Nat → τ → τ → σ → σ
  /-- `self.nnps.update_domain()` -/
  updateDomain : σ → σ
  /-- `self._post_stage_callback(t, dt, stage)` -/
  callback : τ → τ → Nat → σ → σ

/-! ## the generated class -/

/-- `cdef public double dt, t, orig_t` -/
structure Regs (τ : Type) where
  origT : τ
  t : τ
  dt : τ

section
variable {σ τ : Type}

/-- `for d_idx in range(NP_DEST): self.<dest>_stepper.<m>(...)` -/
def loopStep (W : World σ τ) (d : String) (m : Meth) (t dt : τ) (s : σ) (i : Nat) : σ :=
  W.stepOne d m i t dt s

def loopReal (W : World σ τ) (d : String) (m : Meth) (t dt : τ) (n : Nat) (s : σ) : σ :=
  (List.range n).foldl (loopStep W d m t dt) s

/-- the `% for dest in sorted(...)` block of a stage wrapper -/
def wrapperDest (W : World σ τ) (m : Meth) (t dt : τ) (s : σ) (a : ArrayCfg) : σ :=
  let s1 := if m ∈ a.sig.hooks then W.hook a.name m t dt s else s
  if m ∈ a.sig.methods then loopReal W a.name m t dt (W.nReal a.name s1) s1 else s1

/-- `cdef <method>(self)`: `dt = self.dt`, `t = self.t`, then every destination -/
def wrapper (W : World σ τ) (cfg : Cfg) (m : Meth) (r : Regs τ) (s : σ) : σ :=
  (destOrder cfg).foldl (wrapperDest W m r.t r.dt) s

/-- `Integrator.compute_accelerations` (Python) called through the cpdef of
the same name: optional `nnps.update()`, then evaluator `index` at
`(c_integrator.t, c_integrator.dt)` -/
def computeAccelerations (W : World σ τ) (i : Nat) (upd : Bool) (r : Regs τ) (s : σ) : σ :=
  W.evalAcc i r.t r.dt (if upd then W.nnpsUpdate s else s)

/-- one statement of the pasted body; `targ`, `dtarg` are the C arguments
`t`, `dt` of `one_timestep` -/
def execCmd (A : Arith τ) (W : World σ τ) (cfg : Cfg) (targ dtarg : τ)
    (st : Regs τ × σ) (c : Cmd) : Regs τ × σ :=
  match c with
  | .initialize => (st.1, wrapper W cfg .initialize st.1 st.2)
  | .stage k => (st.1, wrapper W cfg (.stage k) st.1 st.2)
  | .computeAccelerations i upd => (st.1, computeAccelerations W i upd st.1 st.2)
  | .updateDomain => (st.1, W.updateDomain st.2)
  | .doPostStage e k =>
    -- self.t = self.orig_t + stage_dt
    let r' : Regs τ := { st.1 with t := A.add st.1.origT (e.eval A targ dtarg) }
    (r', if cfg.hasCallback then W.callback r'.t r'.dt k st.2 else st.2)

/-- `cpdef step(self, double t, double dt)` starting from whatever the
registers held after the previous step -/
def stepR (A : Arith τ) (W : World σ τ) (cfg : Cfg) (prog : Program) (t dt : τ)
    (st : Regs τ × σ) : Regs τ × σ :=
  prog.foldl (execCmd A W cfg t dt) ({ origT := t, t := t, dt := dt }, st.2)

def step (A : Arith τ) (W : World σ τ) (cfg : Cfg) (prog : Program) (t dt : τ) (s : σ) : σ :=
  (stepR A W cfg prog t dt ({ origT := t, t := t, dt := dt }, s)).2

/-- several consecutive steps `(t₁,dt₁), (t₂,dt₂), …` on one compiled object -/
def runStepR (A : Arith τ) (W : World σ τ) (cfg : Cfg) (prog : Program)
    (st : Regs τ × σ) (x : τ × τ) : Regs τ × σ :=
  stepR A W cfg prog x.1 x.2 st

def runR (A : Arith τ) (W : World σ τ) (cfg : Cfg) (prog : Program)
    (steps : List (τ × τ)) (st : Regs τ × σ) : Regs τ × σ :=
  steps.foldl (runStepR A W cfg prog) st

/-! ## the property's reading of the same program -/

/-- the `stage_dt` of the last `do_post_stage` among the statements already
executed -/
def lastPost : List Cmd → Option Expr
  | [] => none
  | c :: cs =>
    match lastPost cs with
    | some e => some e
    | none => (match c with
               | .doPostStage e _ => some e
               | _ => none)

/-- "the current stage time": `t` until the first post-stage call of the step,
`t + stage_dt` of the most recent one afterwards -/
def stageTime (A : Arith τ) (done : List Cmd) (t dt : τ) : τ :=
  match lastPost done with
  | none => t
  | some e => A.add t (e.eval A t dt)

/-- indices of the particles that are real (tag 0), wherever they sit -/
def realIdxs (tags : List Nat) : List Nat :=
  (List.range tags.length).filter (fun i => tags[i]? == some 0)

/-- a stage call for one array: the Python hook, then the stepper method on
every real particle and on no ghost -/
def litDest (W : World σ τ) (m : Meth) (t dt : τ) (s : σ) (a : ArrayCfg) : σ :=
  let s1 := if m ∈ a.sig.hooks then W.hook a.name m t dt s else s
  if m ∈ a.sig.methods then (realIdxs (W.tags a.name s1)).foldl (loopStep W a.name m t dt) s1
  else s1

def litStage (W : World σ τ) (cfg : Cfg) (m : Meth) (t dt : τ) (s : σ) : σ :=
  (destOrder cfg).foldl (litDest W m t dt) s

/-- what one statement means when the step started at `t` with size `dt` and
the current stage time is `cur` -/
def denote (A : Arith τ) (W : World σ τ) (cfg : Cfg) (t dt cur : τ) (c : Cmd) (s : σ) : σ :=
  match c with
  | .initialize => litStage W cfg .initialize cur dt s
  | .stage k => litStage W cfg (.stage k) cur dt s
  | .computeAccelerations i upd => W.evalAcc i cur dt (if upd then W.nnpsUpdate s else s)
  | .updateDomain => W.updateDomain s
  | .doPostStage e k =>
    if cfg.hasCallback then W.callback (A.add t (e.eval A t dt)) dt k s else s

def litGo (A : Arith τ) (W : World σ τ) (cfg : Cfg) (t dt : τ) :
    List Cmd → List Cmd → σ → σ
  | _, [], s => s
  | done, c :: cs, s =>
    litGo A W cfg t dt (done ++ [c]) cs (denote A W cfg t dt (stageTime A done t dt) c s)

/-- executing `one_timestep` literally -/
def literalStep (A : Arith τ) (W : World σ τ) (cfg : Cfg) (prog : Program) (t dt : τ) (s : σ) : σ :=
  litGo A W cfg t dt [] prog s

def literalRun (A : Arith τ) (W : World σ τ) (cfg : Cfg) (prog : Program)
    (steps : List (τ × τ)) (s : σ) : σ :=
  steps.foldl (fun s x => literalStep A W cfg prog x.1 x.2 s) s

end

/-! ## the trace world (what the tracer steppers/equations record) -/

inductive Event (τ : Type) where
  | hook (d : String) (m : Meth) (t dt : τ)
  | step (d : String) (m : Meth) (i : Nat) (t dt : τ)
  | nnps
  | eval (i : Nat) (t dt : τ)
  | domain
  | callback (t dt : τ) (k : Nat)
  deriving Repr

/-- events so far and the array sizes `(name, real, ghost)` -/
structure TState (τ : Type) where
  events : List (Event τ)
  sizes : List (String × Nat × Nat)

def TState.emit {τ : Type} (s : TState τ) (e : Event τ) : TState τ :=
  { s with events := s.events ++ [e] }

def sizeOf? (sizes : List (String × Nat × Nat)) (d : String) : Nat × Nat :=
  match sizes.find? (fun x => x.1 == d) with
  | some x => x.2
  | none => (0, 0)

def growEntry (d : String) (g : Nat) (x : String × Nat × Nat) : String × Nat × Nat :=
  if x.1 == d then (x.1, x.2.1 + g, x.2.2) else x

/-- the tracer world; a Python hook may add `grow d m` real particles to its
array (`add_particles` keeps the array aligned) -/
def traceWorld {τ : Type} (grow : String → Meth → Nat) : World (TState τ) τ where
  hook := fun d m t dt s =>
    { events := s.events ++ [Event.hook d m t dt], sizes := s.sizes.map (growEntry d (grow d m)) }
  stepOne := fun d m i t dt s => s.emit (Event.step d m i t dt)
  nReal := fun d s => (sizeOf? s.sizes d).1
  tags := fun d s => List.replicate (sizeOf? s.sizes d).1 0 ++ List.replicate (sizeOf? s.sizes d).2 2
  nnpsUpdate := fun s => s.emit Event.nnps
  evalAcc := fun i t dt s => s.emit (Event.eval i t dt)
  updateDomain := fun s => s.emit Event.domain
  callback := fun t dt k s => s.emit (Event.callback t dt k)

end PysphVerif.Stepper
