import PysphVerif.Model.StepperHist
/-
C04 — sessions: several integrators compiled one after the other in ONE process.

`Model/Stepper.lean` is one compiled object, `Model/StepperHist.lean` one object
over a history of public calls.  This file is the PROCESS: what survives from one
`SPHCompiler(...).compile()` to the next, and what a later compile may pick up
from it.  Transcribes

  pysph/sph/integrator_cython_helper.py
    IntegratorCythonHelper.get_timestep_code :
        method = self.object.one_timestep
        sourcelines = inspect.getsourcelines(method)[0]
        ... return dedent(''.join(lines))
      -- a function of the integrator OBJECT (the method found on its class by the
         MRO: for a subclass that inherits `one_timestep`, the text of the class that
         defines it); reads no module-level or class-level state.
  pysph/sph/sph_compiler.py
    SPHCompiler._get_code : `main + integrator_code` -- evaluator text + the rendered
        template with the pasted body and the stepper classes
    SPHCompiler.compile   : `helper0.compile(code0)` -> compyle `ExtModule(code).load()`
  compyle/ext_module.py
    ExtModule.__init__ : `name = 'm_' + md5(source + ...)`; `write_and_build`: build only
        if `<root>/<name>.so` does not exist -- THE process/disk-wide state: extension
        modules already built, keyed by a digest of the WHOLE generated text.

A class is what the process can see of it: `__module__`, `__qualname__`, and the
text `inspect` finds for its `one_timestep`.  Two different classes may agree on
both names (classes defined in the branches of a factory function, a class
statement executed again, `type(name, bases, ns)`).

Core Lean only.
-/
namespace PysphVerif.StepperSession
open PysphVerif.Stepper

/-- an integrator class as the process sees it; `ρ` = everything else that is
rendered into the generated module for it (stepper classes with their method
tables, evaluator code) -/
structure IClass (ρ : Type) where
  /-- `cls.__module__` -/
  modName : String
  /-- `cls.__qualname__` -/
  qualName : String
  /-- the program of the text `inspect.getsourcelines(obj.one_timestep)` returns -/
  ownText : Program
  /-- the rest of the rendered module -/
  rest : ρ

/-- the generated module text: pasted body + the rest -/
structure GenText (ρ : Type) where
  body : Program
  rest : ρ
  deriving DecidableEq

/-- `get_timestep_code` + template: no state of the process enters -/
def render {ρ : Type} (c : IClass ρ) : GenText ρ := { body := c.ownText, rest := c.rest }

/-- extension modules built so far, by digest -/
abbrev Built (κ ρ : Type) := List (κ × GenText ρ)

def lookupBuilt {κ ρ : Type} [DecidableEq κ] (k : κ) : Built κ ρ → Option (GenText ρ)
  | [] => none
  | (k', m) :: rest => if k' = k then some m else lookupBuilt k rest

/-- `ExtModule(code).load()`: the module built earlier under the same digest is
loaded if there is one, else the text is built and remembered -/
def loadModule {κ ρ : Type} [DecidableEq κ] (digest : GenText ρ → κ) (built : Built κ ρ)
    (txt : GenText ρ) : GenText ρ × Built κ ρ :=
  match lookupBuilt (digest txt) built with
  | some m => (m, built)
  | none => (txt, (digest txt, txt) :: built)

/-- `SPHCompiler(a_eval, integrator).compile()` in a process whose built modules
are `built`: the module the integrator object ends up driving -/
def compileOne {κ ρ : Type} [DecidableEq κ] (digest : GenText ρ → κ) (built : Built κ ρ)
    (c : IClass ρ) : GenText ρ × Built κ ρ :=
  loadModule digest built (render c)

/-- a session: the classes compiled one after the other; the module each one got -/
def compileSession {κ ρ : Type} [DecidableEq κ] (digest : GenText ρ → κ) :
    Built κ ρ → List (IClass ρ) → List (GenText ρ)
  | _, [] => []
  | built, c :: cs =>
    (compileOne digest built c).1 :: compileSession digest (compileOne digest built c).2 cs

/-- every remembered module sits under its own digest -/
def Consistent {κ ρ : Type} (digest : GenText ρ → κ) (built : Built κ ρ) : Prop :=
  ∀ p ∈ built, p.1 = digest p.2

/-! ## a design that is NOT the code: the body remembered per class name

`get_timestep_code` with a module-level dictionary keyed by
`(cls.__module__, cls.__qualname__)`.  Kept here only to show that the session
theorem is about something: it fails for this design (Props/C04:
`keying_by_class_name_is_unsound`). -/

abbrev NameCache := List ((String × String) × Program)

def lookupName (k : String × String) : NameCache → Option Program
  | [] => none
  | (k', p) :: rest => if k' = k then some p else lookupName k rest

def renderNameKeyed {ρ : Type} (cache : NameCache) (c : IClass ρ) : GenText ρ × NameCache :=
  match lookupName (c.modName, c.qualName) cache with
  | some p => ({ body := p, rest := c.rest }, cache)
  | none => (render c, ((c.modName, c.qualName), c.ownText) :: cache)

def sessionNameKeyed {ρ : Type} : NameCache → List (IClass ρ) → List (GenText ρ)
  | _, [] => []
  | cache, c :: cs =>
    (renderNameKeyed cache c).1 :: sessionNameKeyed (renderNameKeyed cache c).2 cs

end PysphVerif.StepperSession
