import PysphVerif.Model.Stepper
/-
C04 — histories of public calls on ONE integrator object.

`Model/Stepper.lean` is one compiled object stepping in a fixed environment.
Between two steps the user may call the public setters of the Python
`Integrator` object; what a later step then reaches is decided by attributes
that are read AT CALL TIME.  Transcribes

  pysph/sph/integrator.py
    Integrator.set_nnps(nnps)            : `self.nnps = nnps`
                                           (`c_integrator.set_nnps` is `pass`)
    Integrator.set_post_stage_callback   : `c_integrator._post_stage_callback = cb`
    Integrator.set_fixed_h(fixed_h)      : `self.fixed_h = fixed_h` (read by
                                           `compute_time_step` only: by nothing a
                                           step executes)
    Integrator.compute_accelerations     : `self.nnps.update()`  -- attribute
                                           lookup on every call
    Integrator.update_domain             : `self.nnps.update_domain()`
  pysph/sph/integrator_cython.mako
    do_post_stage                        : `if self._post_stage_callback is not None:
                                              self._post_stage_callback(self.t, self.dt, stage)`

The objects (neighbour searches, callbacks) are identified by numbers; an
`HWorld` says what updating NNPS number `k` / calling callback number `c` does
to the state.  `runHist` is the object with its mutable attributes,
`literalHist` the property's reading: a step uses "the integrator's NNPS", i.e.
the one given to the most recent `set_nnps` in the history text.

Core Lean only.
-/
namespace PysphVerif.StepperHist
open PysphVerif.Stepper

/-- the attributes the public setters change -/
structure PyRegs where
  /-- identity of `integrator.nnps` -/
  nnps : Nat
  /-- identity of `c_integrator._post_stage_callback` (`none` = `None`) -/
  callback : Option Nat
  /-- `integrator.fixed_h` -/
  fixedH : Bool
  deriving DecidableEq, Repr, Inhabited

/-- the environment: like `World`, but with one `update`/`update_domain` per
NNPS object and one behaviour per callback object; the user can also add
particles to an array between two steps -/
structure HWorld (σ τ : Type) where
  hook : String → Meth → τ → τ → σ → σ
  stepOne : String → Meth → Nat → τ → τ → σ → σ
  nReal : String → σ → Nat
  tags : String → σ → List Nat
  /-- `<NNPS object k>.update()` -/
  nnpsUpdate : Nat → σ → σ
  evalAcc : Nat → τ → τ → σ → σ
  /-- `<NNPS object k>.update_domain()` -/
  updateDomain : Nat → σ → σ
  /-- `<callback object c>(t, dt, stage)` -/
  callback : Nat → τ → τ → Nat → σ → σ
  /-- `pa.add_particles(...)` of `n` real particles, outside any step -/
  addParticles : String → Nat → σ → σ

section
variable {σ τ : Type}

/-- the callback the compiled object holds -/
def callbackOf (H : HWorld σ τ) : Option Nat → τ → τ → Nat → σ → σ
  | some c => H.callback c
  | none => fun _ _ _ s => s

/-- what the generated class reaches through `self.integrator` and
`self._post_stage_callback` while the attributes are `p` -/
def HWorld.view (H : HWorld σ τ) (p : PyRegs) : World σ τ where
  hook := H.hook
  stepOne := H.stepOne
  nReal := H.nReal
  tags := H.tags
  nnpsUpdate := H.nnpsUpdate p.nnps
  evalAcc := H.evalAcc
  updateDomain := H.updateDomain p.nnps
  callback := callbackOf H p.callback

/-- `_post_stage_callback is not None` -/
def cfgAt (cfg : Cfg) (p : PyRegs) : Cfg := { cfg with hasCallback := p.callback.isSome }

/-- one public call on the integrator object (or on a particle array) -/
inductive Op (τ : Type) where
  | step (t dt : τ)
  | setNnps (k : Nat)
  | setCallback (c : Option Nat)
  | setFixedH (b : Bool)
  | addParticles (d : String) (n : Nat)
  deriving Repr, Inhabited

/-- Python attributes, compiled registers, particles -/
structure HSt (σ τ : Type) where
  py : PyRegs
  regs : Regs τ
  world : σ

def applyOp (A : Arith τ) (H : HWorld σ τ) (cfg : Cfg) (prog : Program)
    (st : HSt σ τ) (op : Op τ) : HSt σ τ :=
  match op with
  | .step t dt =>
    let r := stepR A (H.view st.py) (cfgAt cfg st.py) prog t dt (st.regs, st.world)
    { py := st.py, regs := r.1, world := r.2 }
  | .setNnps k => { st with py := { st.py with nnps := k } }
  | .setCallback c => { st with py := { st.py with callback := c } }
  | .setFixedH b => { st with py := { st.py with fixedH := b } }
  | .addParticles d n => { st with world := H.addParticles d n st.world }

/-- a whole history on one object -/
def runHist (A : Arith τ) (H : HWorld σ τ) (cfg : Cfg) (prog : Program)
    (ops : List (Op τ)) (st : HSt σ τ) : HSt σ τ :=
  ops.foldl (applyOp A H cfg prog) st

/-! ## the property's reading of a history -/

def Op.nnps? : Op τ → Option Nat
  | .setNnps k => some k
  | _ => none

def Op.callback? : Op τ → Option (Option Nat)
  | .setCallback c => some c
  | _ => none

def Op.fixedH? : Op τ → Option Bool
  | .setFixedH b => some b
  | _ => none

/-- the argument of the most recent `set_nnps` among the calls already made -/
def lastNnps (done : List (Op τ)) : Option Nat := done.reverse.findSome? Op.nnps?

def lastCallback (done : List (Op τ)) : Option (Option Nat) := done.reverse.findSome? Op.callback?

def lastFixedH (done : List (Op τ)) : Option Bool := done.reverse.findSome? Op.fixedH?

/-- "the integrator's NNPS / callback / fixed_h" after the calls `done`,
computed from the history text -/
def pyAfter (p0 : PyRegs) (done : List (Op τ)) : PyRegs :=
  { nnps := (lastNnps done).getD p0.nnps,
    callback := (lastCallback done).getD p0.callback,
    fixedH := (lastFixedH done).getD p0.fixedH }

/-- what one call means when the integrator's current objects are `p` -/
def denoteOp (A : Arith τ) (H : HWorld σ τ) (cfg : Cfg) (prog : Program) (p : PyRegs)
    (op : Op τ) (s : σ) : σ :=
  match op with
  | .step t dt => literalStep A (H.view p) (cfgAt cfg p) prog t dt s
  | .addParticles d n => H.addParticles d n s
  | _ => s

def litHistGo (A : Arith τ) (H : HWorld σ τ) (cfg : Cfg) (prog : Program) (p0 : PyRegs) :
    List (Op τ) → List (Op τ) → σ → σ
  | _, [], s => s
  | done, op :: rest, s =>
    litHistGo A H cfg prog p0 (done ++ [op]) rest (denoteOp A H cfg prog (pyAfter p0 done) op s)

/-- executing the history literally -/
def literalHist (A : Arith τ) (H : HWorld σ τ) (cfg : Cfg) (prog : Program) (p0 : PyRegs)
    (ops : List (Op τ)) (s : σ) : σ :=
  litHistGo A H cfg prog p0 [] ops s

end

/-! ## the trace world with object identities -/

inductive HEvent (τ : Type) where
  | hook (d : String) (m : Meth) (t dt : τ)
  | step (d : String) (m : Meth) (i : Nat) (t dt : τ)
  /-- `update()` of NNPS object `k` -/
  | nnps (k : Nat)
  | eval (i : Nat) (t dt : τ)
  /-- `update_domain()` of NNPS object `k` -/
  | domain (k : Nat)
  /-- callback object `c` called with `(t, dt, stage)` -/
  | callback (c : Nat) (t dt : τ) (stage : Nat)
  deriving Repr

structure HState (τ : Type) where
  events : List (HEvent τ)
  sizes : List (String × Nat × Nat)

def HState.emit {τ : Type} (s : HState τ) (e : HEvent τ) : HState τ :=
  { s with events := s.events ++ [e] }

/-- the tracer world: every operation appends one event; a Python hook adds
`grow d m` real particles to its array; `addParticles` only changes sizes -/
def htraceWorld {τ : Type} (grow : String → Meth → Nat) : HWorld (HState τ) τ where
  hook := fun d m t dt s =>
    { events := s.events ++ [HEvent.hook d m t dt], sizes := s.sizes.map (growEntry d (grow d m)) }
  stepOne := fun d m i t dt s => s.emit (HEvent.step d m i t dt)
  nReal := fun d s => (sizeOf? s.sizes d).1
  tags := fun d s => List.replicate (sizeOf? s.sizes d).1 0 ++ List.replicate (sizeOf? s.sizes d).2 2
  nnpsUpdate := fun k s => s.emit (HEvent.nnps k)
  evalAcc := fun i t dt s => s.emit (HEvent.eval i t dt)
  updateDomain := fun k s => s.emit (HEvent.domain k)
  callback := fun c t dt k s => s.emit (HEvent.callback c t dt k)
  addParticles := fun d n s => { s with sizes := s.sizes.map (growEntry d n) }

/-- the NNPS objects refreshed / asked to re-create ghosts in a trace -/
def HEvent.nnpsTarget? {τ : Type} : HEvent τ → Option Nat
  | .nnps k => some k
  | .domain k => some k
  | _ => none

/-- the callback objects invoked in a trace -/
def HEvent.callbackTarget? {τ : Type} : HEvent τ → Option Nat
  | .callback c _ _ _ => some c
  | _ => none

def nnpsTargets {τ : Type} (l : List (HEvent τ)) : List Nat := l.filterMap HEvent.nnpsTarget?

def callbackTargets {τ : Type} (l : List (HEvent τ)) : List Nat :=
  l.filterMap HEvent.callbackTarget?

end PysphVerif.StepperHist
