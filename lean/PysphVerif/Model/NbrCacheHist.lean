/-
C09 — the neighbour cache across population-changing histories.

`AccelerationEval.compute` reads its neighbour lists through
`NNPS.get_nearest_neighbors`, which for `cache=True` (SPHEvaluator,
Interpolator, `Application --cache-nnps`) is `NeighborCache.get_neighbors_raw`
(`pysph/base/nnps_base.pyx`).  One `NeighborCache` object lives as long as its
NNPS: between two evaluations particles may have been removed and added, so
the flag array `_cached`, `_start_stop` and `_pid_to_tid` are *resized* and
re-used, never rebuilt.  The conservation theorems of `Props/C09.lean` take a
symmetric duplicate-free neighbour relation as a hypothesis; this model is the
layer that hands the relation of the search (`find_nearest_neighbors`) to the
equations, transcribed statement by statement with the storage behaviour of
`cyarray.carray` arrays:

* `resize(n)` = `reserve(n)` (re-allocate only when `n > alloc`, old contents
  kept, new memory NOT initialised) followed by `length = n`; memory is never
  given back, so a shrink followed by a growth sees the old contents again;
* no access is bounds-checked.

Serial CPU path (`_n_threads = 1`, thread id 0: one neighbour buffer), which
is what the C09 harness runs.  `_update_last_avg_nbr_size` and `c_reserve` of
the buffer only size allocations and are not modelled.

Core Lean only (the driver links against it).
-/
namespace PysphVerif.NbrCacheHist

/-- a `carray`: the allocated block (`alloc` entries of `mem` are ours; what a
fresh allocation contains is the `junk` of the caller) and the logical
`length` -/
structure CArr where
  mem : Nat → Nat
  alloc : Nat
  length : Nat

/-- `c_reserve(size)`: re-allocate when `size > alloc`; `aligned_realloc` keeps
the old contents, the rest is whatever the allocator returns -/
def CArr.reserve (junk : Nat → Nat) (a : CArr) (size : Nat) : CArr :=
  if a.alloc < size then
    { mem := fun i => if i < a.alloc then a.mem i else junk i, alloc := size, length := a.length }
  else a

/-- `c_resize(size)`: `c_reserve(size); length = size` -/
def CArr.resize (junk : Nat → Nat) (a : CArr) (size : Nat) : CArr :=
  { CArr.reserve junk a size with length := size }

/-- `a.data[i]` -/
def CArr.get (a : CArr) (i : Nat) : Nat := a.mem i

/-- `a.data[i] = v` -/
def CArr.set (a : CArr) (i v : Nat) : CArr :=
  { a with mem := fun j => if j = i then v else a.mem j }

/-- `IntArray(n)` / `UIntArray()`: `n` allocated, uninitialised entries -/
def CArr.new (junk : Nat → Nat) (n : Nat) : CArr := { mem := junk, alloc := n, length := n }

/-- the state of one `NeighborCache` (one destination/source pair) -/
structure St where
  cached : CArr          -- `_cached`
  startStop : CArr       -- `_start_stop`, two entries per destination particle
  pidToTid : CArr        -- `_pid_to_tid`
  buf : List Nat         -- `_neighbors[0]` (`_neighbor_arrays[0]`)

/-- body of the loop `for i in range(n_p): self._cached.data[i] = 0` of `__init__` -/
def initStep (c : CArr) (i : Nat) : CArr := c.set i 0

/-- `NeighborCache.__init__` for `n_p` destination particles -/
def init (junk : Nat → Nat) (n_p : Nat) : St :=
  { cached := (List.range n_p).foldl initStep (CArr.new junk n_p),
    startStop := CArr.new junk 0,
    pidToTid := CArr.new junk 0,
    buf := [] }

/-- body of the loop of `update`:
`_cached.data[i] = 0; _start_stop.data[2*i] = 0; _start_stop.data[2*i+1] = 0` -/
def clearStep (s : St) (i : Nat) : St :=
  { s with cached := s.cached.set i 0,
           startStop := (s.startStop.set (2 * i) 0).set (2 * i + 1) 0 }

/-- `NeighborCache.update()` when the destination array has `np` particles:
the three arrays are resized, the entries of ALL current particles cleared,
the buffer reset -/
def update (junk : Nat → Nat) (s : St) (np : Nat) : St :=
  let s1 : St :=
    { s with startStop := s.startStop.resize junk (np * 2),
             pidToTid := s.pidToTid.resize junk np,
             cached := s.cached.resize junk np }
  let s2 := (List.range np).foldl clearStep s1
  { s2 with buf := [] }

/-- `_find_neighbors(d_idx)` on thread 0; `find d` is what
`find_nearest_neighbors(d, ·)` appends -/
def findNeighbors (find : Nat → List Nat) (s : St) (d : Nat) : St :=
  { s with pidToTid := s.pidToTid.set d 0,
           startStop := (s.startStop.set (d * 2) s.buf.length).set (d * 2 + 1)
                          (s.buf.length + (find d).length),
           buf := s.buf ++ find d,
           cached := s.cached.set d 1 }

/-- the view `_neighbors[tid].data[start:end]` -/
def view (s : St) (d : Nat) : List Nat :=
  (s.buf.drop (s.startStop.get (2 * d))).take (s.startStop.get (2 * d + 1) - s.startStop.get (2 * d))

/-- `get_neighbors_raw(d_idx, nbrs)`: search on a miss, answer the view -/
def getNeighbors (find : Nat → List Nat) (s : St) (d : Nat) : St × List Nat :=
  let s' := if s.cached.get d = 0 then findNeighbors find s d else s
  (s', view s' d)

/-- body of the loop of `find_all_neighbors` -/
def findAllStep (find : Nat → List Nat) (s : St) (d : Nat) : St :=
  if s.cached.get d = 0 then findNeighbors find s d else s

/-- `find_all_neighbors()` (serial) for `np` destination particles -/
def findAll (find : Nat → List Nat) (s : St) (np : Nat) : St :=
  (List.range np).foldl (findAllStep find) s

/-- what a caller does between two `update`s -/
inductive Op where
  | get (d : Nat)     -- `get_neighbors(src, d, nbrs)`
  | all               -- `find_all_neighbors()`

/-- one operation: new state and what was handed out (nothing for `all`) -/
def stepOp (find : Nat → List Nat) (np : Nat) (s : St) : Op → St × Option (List Nat)
  | .get d => let r := getNeighbors find s d; (r.1, some r.2)
  | .all => (findAll find s np, none)

/-- the operations of one round, in order; the lists handed out -/
def runOps (find : Nat → List Nat) (np : Nat) : St → List Op → St × List (List Nat)
  | s, [] => (s, [])
  | s, op :: rest =>
    let r := stepOp find np s op
    let q := runOps find np r.1 rest
    (q.1, match r.2 with | some l => l :: q.2 | none => q.2)

/-- one round of a history: the population size `np` of the destination array
and the search `find` of the NNPS after `NNPS.update()`, then queries -/
structure Round where
  np : Nat
  find : Nat → List Nat
  ops : List Op

/-- `NNPS.update()` (→ `cache.update()`) followed by the round's queries -/
def runRound (junk : Nat → Nat) (s : St) (r : Round) : St × List (List Nat) :=
  runOps r.find r.np (update junk s r.np) r.ops

/-- a whole history on one cache object -/
def runHist (junk : Nat → Nat) : St → List Round → List (List (List Nat))
  | _, [] => []
  | s, r :: rest => let q := runRound junk s r; q.2 :: runHist junk q.1 rest

/-- what the history must hand out: the search's own lists -/
def specOps (find : Nat → List Nat) : List Op → List (List Nat)
  | [] => []
  | .get d :: rest => find d :: specOps find rest
  | .all :: rest => specOps find rest

def specHist (h : List Round) : List (List (List Nat)) := h.map (fun r => specOps r.find r.ops)

/-- every query of the round names a current particle -/
def opsInRange (np : Nat) : List Op → Prop
  | [] => True
  | .get d :: rest => d < np ∧ opsInRange np rest
  | .all :: rest => opsInRange np rest

/-! ### a variant that is NOT the code: flags cleared only for the slots of
the previous round (and the flag array never shrunk).  Kept to show that the
statement about histories depends on exactly the full clear of `update`. -/

/-- `update` clearing `_cached` only on `[0, min(n_prev, np))` and growing it
only beyond the largest size seen -/
def updateKeepFlags (junk : Nat → Nat) (s : St) (np : Nat) : St :=
  let nPrev := s.pidToTid.length
  let nFlags := s.cached.length
  let c1 := if nFlags < np then
      (List.range (np - nFlags)).foldl (fun c i => initStep c (nFlags + i)) (s.cached.resize junk np)
    else s.cached
  let c2 := (List.range (min nPrev np)).foldl initStep c1
  let s1 : St :=
    { s with startStop := s.startStop.resize junk (np * 2),
             pidToTid := s.pidToTid.resize junk np,
             cached := c2 }
  let s2 := (List.range np).foldl
    (fun (t : St) i => { t with startStop := (t.startStop.set (2 * i) 0).set (2 * i + 1) 0 }) s1
  { s2 with buf := [] }

def runHistKeepFlags (junk : Nat → Nat) : St → List Round → List (List (List Nat))
  | _, [] => []
  | s, r :: rest =>
    let q := runOps r.find r.np (updateKeepFlags junk s r.np) r.ops
    q.2 :: runHistKeepFlags junk q.1 rest

end PysphVerif.NbrCacheHist
