/-
C12 — model of "the arrays a scheme sets up have everything its equations and
steppers reference".

Data (filled by `Gen/Schemes.lean`, which translate/schemes2tables.py re-emits
on every run by RUNNING every scheme configuration of the current source):
property / constant names are interned as bit positions, a set of names is a
`Nat` bit mask.

Transcribed code (file : function):
  pysph/sph/equation.py : get_array_names, get_arrays_used_in_equation,
      Group._setup_precomputed (`closure`: the `while not done` loop, here on
      bit masks: one round ORs in the symbols of the code blocks of everything
      found so far), Group.get_array_names (`needsD`/`needsS`)
  pysph/sph/acceleration_eval.py : check_equation_array_properties
      (`acceptsEq`: invalid dest / source, the strict-subset test
      `eq_props < props` per destination and per source)
  pysph/sph/integrator_cython_helper.py : _check_integrator_steppers,
      get_array_declarations + _check_arrays_for_properties (`acceptsStepper`:
      per wrapped method, `props.issubset(available_props)`)
In addition to what those checkers look at, `checkEq`/`checkStepper` also
demand the `dst.<name>` reads of the Python-level hooks (`reduce`,
`py_initialize`, `py_stage*`), which the real checkers do not see.

Core Lean only.
-/
namespace PysphVerif.SchemeNeeds

/-- a set of interned names -/
abbrev Mask := Nat

/-- `a ⊆ b` on masks -/
def subsetB (a b : Mask) : Bool := (a &&& b) == a

/-- Python `set(a) < set(b)` -/
def strictSubsetB (a b : Mask) : Bool := subsetB a b && !(a == b)

/-- one entry of `Group.pre_comp`: the symbol, the precomputed symbols its code
block mentions (mask over positions in the table), the `d_*` and the `s_*`
arrays it reads -/
structure PreSym where
  name : String
  deps : Mask
  d : Mask
  s : Mask
  deriving Repr

/-- the `d_*` / `s_*` arguments of one hook (`initialize`, `initialize_pair`,
`loop`, `loop_all`, `post_loop`, numbered 0–4) -/
structure Hook where
  hook : Nat
  d : Mask
  s : Mask
  deriving Repr

/-- an equation class as the completeness checks see it -/
structure EqKind where
  name : String
  hooks : List Hook
  /-- the precomputed symbols among the arguments of `loop` -/
  loopPre : Mask
  /-- `dst.<name>` reads of `reduce` / `py_initialize` -/
  implicitD : Mask
  /-- `d_*` arguments an ELEMENT of which some hook uses as an index: inside
  the subscript of another array, as an argument of `range`, or assigned to a
  local declared with an integer C type (outside any `cast(...)`) -/
  idxD : Mask
  /-- the same for `s_*` arguments -/
  idxS : Mask
  deriving Repr

structure StepKind where
  name : String
  /-- `initialize` / `stage*` methods with the `d_*`/`s_*` names among their arguments -/
  methods : List (String × Mask)
  /-- `dst.<name>` reads of `py_stage*` -/
  implicitD : Mask
  /-- `d_*`/`s_*` arguments an element of which `initialize` / `stage*` use as an index -/
  idx : Mask
  /-- the stages `<s>` for which the stepper has a Python-level `py_<s>` -/
  pyStages : List String
  deriving Repr

/-- an integrator class: the `self.<member>` names its `one_timestep` uses that
the template of the generated `Integrator` class
(pysph/sph/integrator_cython.mako) does not define by itself — the stepper
method wrappers `initialize`, `stage1`, … -/
structure IntegKind where
  name : String
  calls : List String
  deriving Repr

structure EqInst where
  kind : Nat
  /-- index into `Body.arrays` (out of range ⇔ the name is not a particle array) -/
  dest : Nat
  /-- `none` ⇔ `sources is None` -/
  sources : Option (List Nat)
  deriving Repr

/-- the C element types of the properties and constants of one array after
`setup_properties` (`carray.get_c_type()`: IntArray `int`, UIntArray
`unsigned int`, LongArray `long`, FloatArray `float`, DoubleArray `double`),
one mask of names per type, and the strides that are not 1 (name position,
stride) -/
structure ArrTypes where
  int : Mask
  uint : Mask
  long : Mask
  float : Mask
  double : Mask
  strides : List (Nat × Nat)
  deriving Repr

/-- what one configuration yields: the arrays after `setup_properties`
(name id, properties ∪ constants), the equations of `get_equations` (all
stages and groups flattened, in order), the integrator's steppers
(stepper kind, array index), the C types of every array's properties
(parallel to `arrays`), and the integrator kind -/
structure Body where
  arrays : List (Nat × Mask)
  eqs : List EqInst
  steppers : List (Nat × Nat)
  types : List ArrTypes
  integ : Nat
  deriving Repr

/-- the option grid of one scheme: `bodyOf` has one entry per grid point in
mixed-radix order over `axes` (first axis most significant); entry `0` = the
scheme's own validation rejects the combination with a ValueError, entry
`n+1` = body `n` of the shared body table.  Stored run-length encoded:
`(count, entry)`. -/
structure SchemeGrid where
  name : String
  axes : List (String × List String)
  runs : List (Nat × Nat)
  deriving Repr

/-- run-length decoding -/
def expandRuns : List (Nat × Nat) → List Nat
  | [] => []
  | (n, c) :: rest => List.replicate n c ++ expandRuns rest

def SchemeGrid.bodyOf (g : SchemeGrid) : List Nat := expandRuns g.runs

/-! ## precomputed symbols -/

/-- OR of `f ps` over the table entries whose position (counted from `i`) is in `c` -/
def gather (f : PreSym → Mask) : List PreSym → Nat → Mask → Mask
  | [], _, _ => 0
  | ps :: rest, i, c => (if c.testBit i then f ps else 0) ||| gather f rest (i + 1) c

/-- one round of the `while not done` loop of `_setup_precomputed` -/
def closureStep (t : List PreSym) (c : Mask) : Mask := c ||| gather PreSym.deps t 0 c

/-- the loop, at most `fuel` rounds -/
def closureLoop (t : List PreSym) : Nat → Mask → Mask
  | 0, c => c
  | fuel + 1, c =>
    let c' := closureStep t c
    if c' == c then c else closureLoop t fuel c'

/-- keys of `self.precomputed` for loop symbols `m0` -/
def closure (t : List PreSym) (m0 : Mask) : Mask := closureLoop t (t.length + 1) m0

/-- nothing more to add: the loop has really terminated -/
def closedB (t : List PreSym) (c : Mask) : Bool := subsetB (gather PreSym.deps t 0 c) c

/-! ## needs of an equation: `Group([equation]).get_array_names()` -/

def hooksD (k : EqKind) : Mask := k.hooks.foldl (fun acc h => acc ||| h.d) 0
def hooksS (k : EqKind) : Mask := k.hooks.foldl (fun acc h => acc ||| h.s) 0

/-- destination names `Group([eq]).get_array_names()` returns -/
def needsD (t : List PreSym) (k : EqKind) : Mask :=
  hooksD k ||| gather PreSym.d t 0 (closure t k.loopPre)
/-- source names -/
def needsS (t : List PreSym) (k : EqKind) : Mask :=
  hooksS k ||| gather PreSym.s t 0 (closure t k.loopPre)

/-- names of all wrapped methods of a stepper -/
def stepNeeds (k : StepKind) : Mask := k.methods.foldl (fun acc m => acc ||| m.2) 0

/-! ## the real checkers -/

/-- `check_equation_array_properties` accepts the equation -/
def acceptsEq (t : List PreSym) (kinds : List EqKind) (b : Body) (e : EqInst) : Bool :=
  match kinds[e.kind]?, b.arrays[e.dest]? with
  | some k, some da =>
    strictSubsetB (needsD t k) da.2 &&
    (match e.sources with
     | none => true
     | some srcs => srcs.all (fun s =>
        match b.arrays[s]? with
        | some sa => strictSubsetB (needsS t k) sa.2
        | none => false))
  | _, _ => false

/-- `_check_integrator_steppers` + `_check_arrays_for_properties` for every method -/
def acceptsStepper (sk : List StepKind) (b : Body) (st : Nat × Nat) : Bool :=
  match sk[st.1]?, b.arrays[st.2]? with
  | some k, some a => k.methods.all (fun m => subsetB m.2 a.2)
  | _, _ => false

/-- `AccelerationEval(...)` for every stage followed by the integrator helper's
code generation raise nothing -/
def acceptsBody (t : List PreSym) (kinds : List EqKind) (sk : List StepKind) (b : Body) : Bool :=
  b.eqs.all (acceptsEq t kinds b) && b.steppers.all (acceptsStepper sk b)

/-! ## the completeness check proper (what `all_configs_complete` is decided with) -/

def checkEq (t : List PreSym) (kinds : List EqKind) (b : Body) (e : EqInst) : Bool :=
  match kinds[e.kind]?, b.arrays[e.dest]? with
  | some k, some da =>
    closedB t (closure t k.loopPre) &&
    subsetB (needsD t k ||| k.implicitD) da.2 &&
    (match e.sources with
     | none => true
     | some srcs => srcs.all (fun s =>
        match b.arrays[s]? with
        | some sa => subsetB (needsS t k) sa.2
        | none => false))
  | _, _ => false

def checkStepper (sk : List StepKind) (b : Body) (st : Nat × Nat) : Bool :=
  match sk[st.1]?, b.arrays[st.2]? with
  | some k, some a => subsetB (stepNeeds k ||| k.implicitD) a.2
  | _, _ => false

def checkBody (t : List PreSym) (kinds : List EqKind) (sk : List StepKind) (b : Body) : Bool :=
  b.eqs.all (checkEq t kinds b) && b.steppers.all (checkStepper sk b)

/-! ## C types of the array arguments: what the code generator is told

pysph/sph/acceleration_eval_cython_helper.py : get_all_array_names collects,
over ALL particle arrays of the problem, the names of every carray class;
get_known_types_for_arrays turns them into `KnownType("<c type>*")` for
`d_<name>` and `s_<name>`; compyle's CythonGenerator.detect_type uses the known
type for a hook argument and falls back to `double*` for an unknown `d_`/`s_`
name.  An element of a `double*`/`float*` argument cannot be used as a subscript
(Cython: "Invalid index type 'double'") nor be assigned to a local declared
`int`/`long`/`unsigned int` ("Cannot assign type 'double' to 'int'"): the
generated module is rejected. -/

/-- names with an integer element type in this array -/
def ArrTypes.integral (a : ArrTypes) : Mask := a.int ||| a.uint ||| a.long
/-- names with a floating element type in this array -/
def ArrTypes.floating (a : ArrTypes) : Mask := a.float ||| a.double

/-- names some array of the configuration has with an integer type -/
def intKnown (b : Body) : Mask := b.types.foldl (fun acc a => acc ||| a.integral) 0
/-- names some array of the configuration has with a floating type -/
def floatKnown (b : Body) : Mask := b.types.foldl (fun acc a => acc ||| a.floating) 0

/-- the index uses of one equation instance (0 when the kind does not exist:
`checkBody` is what complains about that) -/
def eqIdx (kinds : List EqKind) (e : EqInst) : Mask :=
  match kinds[e.kind]? with
  | some k => k.idxD ||| k.idxS
  | none => 0

def stIdx (sk : List StepKind) (st : Nat × Nat) : Mask :=
  match sk[st.1]? with
  | some k => k.idx
  | none => 0

/-- every name an element of which is used as an index anywhere in the configuration -/
def idxUsed (kinds : List EqKind) (sk : List StepKind) (b : Body) : Mask :=
  b.eqs.foldl (fun acc e => acc ||| eqIdx kinds e) 0 |||
  b.steppers.foldl (fun acc st => acc ||| stIdx sk st) 0

/-- the recorded types of one array partition its property ∪ constant names -/
def typedArr (a : Nat × Mask) (t : ArrTypes) : Bool :=
  (t.int ||| t.uint ||| t.long ||| t.float ||| t.double) == a.2 &&
  (t.int &&& t.uint) == 0 && ((t.int ||| t.uint) &&& t.long) == 0 &&
  (t.integral &&& t.float) == 0 && ((t.integral ||| t.float) &&& t.double) == 0

def typedAll : List (Nat × Mask) → List ArrTypes → Bool
  | [], [] => true
  | a :: as, t :: ts => typedArr a t && typedAll as ts
  | _, _ => false

/-- **the type check**: every property has exactly one recorded C type, and
every name used as an index is an `int`/`unsigned int`/`long` property of some
array and a `float`/`double` property of none (so the known type the code
generator gets for `d_<name>`/`s_<name>` is an integer pointer) -/
def typesOk (kinds : List EqKind) (sk : List StepKind) (b : Body) : Bool :=
  typedAll b.arrays b.types &&
  subsetB (idxUsed kinds sk b) (intKnown b) &&
  ((idxUsed kinds sk b &&& floatKnown b) == 0)

/-! ## the integrator's stages: what the generated `Integrator` class has

pysph/sph/integrator_cython_helper.py : get_stepper_method_wrapper_names — the
generated cdef class gets one wrapper `cdef <m>(self)` for every `<m>` that is
`initialize` / `stage*` of SOME stepper, or for which some stepper has
`py_<m>`; get_timestep_code pastes the body of the integrator's `one_timestep`
into that class unchanged.  A `self.stage3()` in that body without a wrapper
`stage3` still compiles (attribute lookup on a cdef class at run time) and
raises AttributeError in the first time step. -/

/-- wrappers one stepper contributes -/
def stepWrappers (k : StepKind) : List String := k.methods.map (·.1) ++ k.pyStages

def wrappersOf (sk : List StepKind) (st : Nat × Nat) : List String :=
  match sk[st.1]? with
  | some k => stepWrappers k
  | none => []

/-- `get_stepper_method_wrapper_names()` (as a list, with repetitions) -/
def wrapperNames (sk : List StepKind) (b : Body) : List String :=
  b.steppers.flatMap (wrappersOf sk)

/-- **the stage check**: every member `one_timestep` uses beyond the template's
own is a generated wrapper -/
def stagesOk (ik : List IntegKind) (sk : List StepKind) (b : Body) : Bool :=
  match ik[b.integ]? with
  | some i => i.calls.all (fun m => (wrapperNames sk b).contains m)
  | none => false

/-! ## `extra_steppers`

Every shipped `configure_solver` builds the integrator's steppers as

    steppers = {}
    if extra_steppers is not None: steppers.update(extra_steppers)
    for name in <the arrays the scheme steps>:
        if name not in steppers: steppers[name] = <default stepper>()

`withExtra b ex` is that construction on a table entry `b` (which records the
defaults, `extra_steppers=None`): the caller's steppers `ex` (stepper kind,
array) first, then the defaults of the arrays the caller did not mention. -/

def overridden (ex : List (Nat × Nat)) (st : Nat × Nat) : Bool := ex.any (fun e => e.2 == st.2)

def withExtra (b : Body) (ex : List (Nat × Nat)) : Body :=
  { b with steppers := ex ++ b.steppers.filter (fun st => !overridden ex st) }

/-- the steppers of array `a` only -/
def onlyArray (b : Body) (a : Nat) : Body :=
  { b with steppers := b.steppers.filter (fun st => st.2 == a) }

/-! ## grids -/

/-- number of points of the grid -/
def gridSize (g : SchemeGrid) : Nat := (g.axes.map (fun a => a.2.length)).foldr (· * ·) 1

/-- flat index of a multi-index (one digit per axis, first axis most significant) -/
def flatIndex : List Nat → List Nat → Nat → Nat
  | r :: rs, d :: ds, acc => flatIndex rs ds (acc * r + d)
  | _, _, acc => acc

/-- digits of a flat index, least significant radix first in `radicesRev` -/
def digitsRev : List Nat → Nat → List Nat
  | [], _ => []
  | r :: rs, i => (i % r) :: digitsRev rs (i / r)

/-- the digits of grid point `i`, first axis first -/
def digitsOf (g : SchemeGrid) (i : Nat) : List Nat :=
  (digitsRev (g.axes.map (fun a => a.2.length)).reverse i).reverse

/-- `axis=label` for every axis of grid point `i` -/
def labelsOf (g : SchemeGrid) (i : Nat) : List (String × String) :=
  (g.axes.zip (digitsOf g i)).map (fun (a, d) => (a.1, a.2.getD d "?"))

/-! ## specification: what "complete" means, independently of the check above

Stated on interned names: property `p` is the name at position `p` of the
generated `propNames`; `Mask.testBit p` says the name is in the set. -/

/-- the precomputed symbol at position `i` of the table is used, directly or
through the code block of another used symbol, by a `loop` whose arguments
contain the symbols `m0` -/
inductive Reach (t : List PreSym) (m0 : Mask) : Nat → Prop
  | base {i : Nat} : m0.testBit i = true → Reach t m0 i
  | step {j i : Nat} {ps : PreSym} :
      Reach t m0 j → t[j]? = some ps → ps.deps.testBit i = true → Reach t m0 i

/-- the equation reads / writes property `p` of its destination: `d_p` is an
argument of one of its hooks, or a used precomputed symbol reads `d_p[d_idx]`,
or `reduce` / `py_initialize` read `dst.p` -/
def NeedsD (t : List PreSym) (k : EqKind) (p : Nat) : Prop :=
  (∃ h ∈ k.hooks, h.d.testBit p = true) ∨ k.implicitD.testBit p = true ∨
  ∃ i ps, Reach t k.loopPre i ∧ t[i]? = some ps ∧ ps.d.testBit p = true

/-- the equation reads property `p` of each of its sources -/
def NeedsS (t : List PreSym) (k : EqKind) (p : Nat) : Prop :=
  (∃ h ∈ k.hooks, h.s.testBit p = true) ∨
  ∃ i ps, Reach t k.loopPre i ∧ t[i]? = some ps ∧ ps.s.testBit p = true

/-- the stepper touches property `p` of its array -/
def StepNeeds (k : StepKind) (p : Nat) : Prop :=
  (∃ m ∈ k.methods, m.2.testBit p = true) ∨ k.implicitD.testBit p = true

/-- array number `a` of the configuration has property or constant `p` -/
def HasProp (b : Body) (a p : Nat) : Prop :=
  ∃ arr, b.arrays[a]? = some arr ∧ arr.2.testBit p = true

/-- `a` names one of the particle arrays -/
def IsArray (b : Body) (a : Nat) : Prop := a < b.arrays.length

def CompleteEq (t : List PreSym) (kinds : List EqKind) (b : Body) (e : EqInst) : Prop :=
  ∃ k, kinds[e.kind]? = some k ∧ IsArray b e.dest ∧
    (∀ p, NeedsD t k p → HasProp b e.dest p) ∧
    ∀ srcs, e.sources = some srcs → ∀ s ∈ srcs,
      IsArray b s ∧ ∀ p, NeedsS t k p → HasProp b s p

def CompleteStepper (sk : List StepKind) (b : Body) (st : Nat × Nat) : Prop :=
  ∃ k, sk[st.1]? = some k ∧ IsArray b st.2 ∧ ∀ p, StepNeeds k p → HasProp b st.2 p

/-- every equation and every stepper of the configuration references only
properties and constants that its arrays have -/
def Complete (t : List PreSym) (kinds : List EqKind) (sk : List StepKind) (b : Body) : Prop :=
  (∀ e ∈ b.eqs, CompleteEq t kinds b e) ∧ (∀ st ∈ b.steppers, CompleteStepper sk b st)

/-- grid point `i` of `g` is fine: the scheme itself rejects the combination
(entry 0), or the configuration it yields is complete -/
def PointOk (t : List PreSym) (kinds : List EqKind) (sk : List StepKind) (bodies : List Body)
    (g : SchemeGrid) (i : Nat) : Prop :=
  ∃ c, g.bodyOf[i]? = some c ∧ (c = 0 ∨ ∃ b, bodies[c - 1]? = some b ∧ Complete t kinds sk b)

/-- the same for "the real checkers accept": nothing raises up to code generation -/
def PointAccepted (t : List PreSym) (kinds : List EqKind) (sk : List StepKind) (bodies : List Body)
    (g : SchemeGrid) (i : Nat) : Prop :=
  ∃ c, g.bodyOf[i]? = some c ∧
    (c = 0 ∨ ∃ b, bodies[c - 1]? = some b ∧ acceptsBody t kinds sk b = true)

/-! ### specification of the type check -/

/-- an element of the array argument `d_p` / `s_p` is used as an index by an
equation or a stepper of the configuration -/
def IndexUsed (kinds : List EqKind) (sk : List StepKind) (b : Body) (p : Nat) : Prop :=
  (∃ e ∈ b.eqs, ∃ k, kinds[e.kind]? = some k ∧ (k.idxD.testBit p = true ∨ k.idxS.testBit p = true)) ∨
  (∃ st ∈ b.steppers, ∃ k, sk[st.1]? = some k ∧ k.idx.testBit p = true)

/-- the known type of `d_p` / `s_p` is an integer pointer: some array has `p`
with an integer element type, no array has it with a floating one -/
def KnownIntegral (b : Body) (p : Nat) : Prop :=
  (∃ t ∈ b.types, t.integral.testBit p = true) ∧ ∀ t ∈ b.types, t.floating.testBit p = false

/-- every property / constant of every array has a recorded C type -/
def AllTyped : List (Nat × Mask) → List ArrTypes → Prop
  | [], [] => True
  | a :: as, t :: ts =>
    (∀ p, a.2.testBit p = true ↔ (t.integral ||| t.floating).testBit p = true) ∧ AllTyped as ts
  | _, _ => False

def TypesOk (kinds : List EqKind) (sk : List StepKind) (b : Body) : Prop :=
  AllTyped b.arrays b.types ∧ ∀ p, IndexUsed kinds sk b p → KnownIntegral b p

/-! ### specification of the stage check -/

/-- stepper kind `k` makes the code generator emit the wrapper `m` -/
def Wraps (k : StepKind) (m : String) : Prop := (∃ x ∈ k.methods, x.1 = m) ∨ m ∈ k.pyStages

/-- every member of the generated Integrator class that the integrator's
`one_timestep` uses exists: it is a wrapper contributed by some stepper of the
configuration -/
def StagesProvided (ik : List IntegKind) (sk : List StepKind) (b : Body) : Prop :=
  ∃ i, ik[b.integ]? = some i ∧
    ∀ m ∈ i.calls, ∃ st ∈ b.steppers, ∃ k, sk[st.1]? = some k ∧ Wraps k m

def PointStagesOk (ik : List IntegKind) (sk : List StepKind) (bodies : List Body)
    (g : SchemeGrid) (i : Nat) : Prop :=
  ∃ c, g.bodyOf[i]? = some c ∧ (c = 0 ∨ ∃ b, bodies[c - 1]? = some b ∧ StagesProvided ik sk b)

def PointTypesOk (kinds : List EqKind) (sk : List StepKind) (bodies : List Body)
    (g : SchemeGrid) (i : Nat) : Prop :=
  ∃ c, g.bodyOf[i]? = some c ∧ (c = 0 ∨ ∃ b, bodies[c - 1]? = some b ∧ TypesOk kinds sk b)

/-- a multi-index: one digit per axis, each below the number of values of the axis -/
def ValidDigits : List Nat → List Nat → Prop
  | [], [] => True
  | r :: rs, d :: ds => d < r ∧ ValidDigits rs ds
  | _, _ => False

def radices (g : SchemeGrid) : List Nat := g.axes.map (fun a => a.2.length)

/-! ## decoding for the driver -/

def namesOf (names : List String) (m : Mask) : List String :=
  (names.zipIdx.filter (fun p => m.testBit p.2)).map (·.1)

end PysphVerif.SchemeNeeds
