/-
C19 — model of the adaptive time-step selection.

Transcribes, statement by statement,
  pysph/sph/integrator.py : Integrator._my_max, _get_dt_adapt_factors,
      _get_explicit_dt_adapt, compute_h_minimum, compute_time_step
  pysph/solver/solver.py  : Solver._compute_timestep (serial branch)
  cyarray BaseArray.update_min_max (the `minimum` attribute read by
      compute_h_minimum; third-party, modelled)

Polymorphic in the number type so that the same definitions are *run* at
`Float` (bit-exact tie to the Python code) and *reasoned about* over an
ordered field.  `np.inf` is `none` of `Ext α`; `sqrt` is a parameter.
Core Lean only.
-/
namespace PysphVerif.AdaptDt

/-- extended number: `none` is `+inf` (`np.inf`) -/
abbrev Ext (α : Type) := Option α

/-- One particle array as `compute_time_step` sees it. -/
structure Arr (α : Type) where
  /-- `pa.get_number_of_particles()` (ghosts included) -/
  nAll : Nat
  /-- the whole `h` carray (ghosts included); `update_min_max` scans this -/
  hAll : List α
  /-- `pa.dt_adapt` (real particles only) when the property exists -/
  dtAdapt : Option (List α)
  dtCfl : Option (List α)
  dtForce : Option (List α)
  dtVisc : Option (List α)

/-- outcome of `_get_explicit_dt_adapt` / `compute_time_step` -/
inductive Res (α : Type) where
  | none : Res α                -- Python `None`
  | val : α → Res α
  | inf : Res α                 -- `np.inf` returned as a time step
  | error : Res α               -- the Python code raises (np.min of an empty slice)
  deriving Repr, DecidableEq

section
variable {α : Type} [LT α] [DecidableLT α] [LE α] [DecidableLE α]
  [Div α] [Mul α] [Neg α] [OfNat α 0] [OfNat α 1]

/-- Python `max(a, b)` : `b` only if it is strictly larger -/
def pymax (a b : α) : α := if a < b then b else a
/-- Python `min(a, b)` : `b` only if it is strictly smaller -/
def pymin (a b : α) : α := if b < a then b else a

/-- `np.max` / `np.min` of a non-empty array -/
def npMax : List α → Option α
  | [] => none
  | a :: as => some (as.foldl pymax a)
def npMin : List α → Option α
  | [] => none
  | a :: as => some (as.foldl pymin a)

/-- `Integrator._my_max` -/
def myMax (x : List α) : α :=
  match npMax x with
  | some m => m
  | none => -1

/-- fold step of `_get_dt_adapt_factors` for one criterion -/
def factorStep (sel : Arr α → Option (List α)) (f : α) (pa : Arr α) : α :=
  match sel pa with
  | some vals => pymax f (myMax vals)
  | none => f

/-- `_get_dt_adapt_factors` : (cfl, force, visc) maxima, `-1` initialised -/
def factors (arrs : List (Arr α)) : α × α × α :=
  (arrs.foldl (factorStep Arr.dtCfl) (-1),
   arrs.foldl (factorStep Arr.dtForce) (-1),
   arrs.foldl (factorStep Arr.dtVisc) (-1))

def extLt : Ext α → Ext α → Bool
  | some a, some b => decide (a < b)
  | some _, none => true
  | none, _ => false

/-- Python `min(a, b)` on extended numbers -/
def extMin (a b : Ext α) : Ext α := if extLt b a then b else a

/-- cyarray `update_min_max` : the `minimum` attribute; 0 for an empty array -/
def carrayMin : List α → α
  | [] => 0
  | a :: as => as.foldl (fun m x => if x < m then x else m) a

/-- one array's contribution to `compute_h_minimum` (after the `fix:` commit:
empty arrays are skipped) -/
def hminStep (hmin : Ext α) (pa : Arr α) : Ext α :=
  if pa.nAll = 0 then hmin
  else if extLt (some (carrayMin pa.hAll)) hmin then some (carrayMin pa.hAll) else hmin

/-- `compute_h_minimum` (after the `fix:` commit: starts from `np.inf`) -/
def hMinimum (arrs : List (Arr α)) : Ext α := arrs.foldl hminStep none

/-- one array's contribution to `_get_explicit_dt_adapt`'s running minimum;
the outer `Option` is `none` once the Python code would have raised -/
def explicitStep (acc : Option (Ext α)) (pa : Arr α) : Option (Ext α) :=
  match acc with
  | Option.none => Option.none
  | some dtMin =>
    match pa.dtAdapt with
    | Option.none => some dtMin
    | some vals =>
      -- `pa.get_number_of_particles(real=True) > 0` (after the `fix:` commit;
      -- `vals` is the real-particle slice `pa.dt_adapt`)
      if vals.length > 0 then
        match npMin vals with
        | Option.none => Option.none          -- np.min([]) raises (unreachable)
        | some m => some (extMin dtMin (some m))
      else some (extMin dtMin Option.none)

/-- `_get_explicit_dt_adapt` with the cached `_has_dt_adapt` flag given -/
def explicitDtAdaptWith (flag : Bool) (arrs : List (Arr α)) : Res α :=
  if flag then
    match arrs.foldl explicitStep (some Option.none) with
    | Option.none => Res.error
    | some Option.none => Res.inf                  -- `np.inf > 0.0`
    | some (some d) => if 0 < d then Res.val d else Res.none
  else Res.none

/-- the flag `_has_dt_adapt` as computed on the first call (and cached by the
integrator from then on): does any array carry the property? -/
def hasDtAdapt (arrs : List (Arr α)) : Bool := arrs.any (fun pa => pa.dtAdapt.isSome)

/-- `_get_explicit_dt_adapt` (first call: the flag is computed from the arrays) -/
def explicitDtAdapt (arrs : List (Arr α)) : Res α :=
  explicitDtAdaptWith (hasDtAdapt arrs) arrs

/-- `compute_time_step(dt, cfl)` given the outcome of `_get_explicit_dt_adapt`;
`fixedH = some h` models `fixed_h` with the cached `h_minimum` -/
def computeTimeStepFrom (expl : Res α) (sqrt : α → α) (arrs : List (Arr α)) (cfl : α)
    (fixedH : Option (Ext α)) : Res α :=
  match expl with
  | Res.val d => Res.val d
  | Res.inf => Res.inf
  | Res.error => Res.error
  | Res.none =>
    let (fc, ff, fv) := factors arrs
    let hmin : Ext α := match fixedH with
      | some h => h
      | Option.none => hMinimum arrs
    match hmin with
    | Option.none => Res.none                       -- every candidate is inf
    | some h =>
      let dtCfl : Ext α := if 0 < fc then some (h / fc) else Option.none
      let dtForce : Ext α := if 0 < ff then some (sqrt (h / sqrt ff)) else Option.none
      let dtVisc : Ext α := if 0 < fv then some (h / fv) else Option.none
      -- Python min(a, b, c): first minimal element
      match extMin (extMin dtCfl dtForce) dtVisc with
      | Option.none => Res.none
      | some m => if m ≤ 0 then Res.none else Res.val (cfl * m)

/-- `compute_time_step(dt, cfl)` on the first call of an integrator -/
def computeTimeStep (sqrt : α → α) (arrs : List (Arr α)) (cfl : α)
    (fixedH : Option (Ext α)) : Res α :=
  computeTimeStepFrom (explicitDtAdapt arrs) sqrt arrs cfl fixedH

/-- a later call: the `_has_dt_adapt` flag cached by the first call is reused -/
def computeTimeStepCached (flag : Bool) (sqrt : α → α) (arrs : List (Arr α)) (cfl : α)
    (fixedH : Option (Ext α)) : Res α :=
  computeTimeStepFrom (explicitDtAdaptWith flag arrs) sqrt arrs cfl fixedH

/-! ## the integrator as a state machine over a whole run

`Integrator` keeps three pieces of state between calls: the cached flag
`_has_dt_adapt` (assigned by the first `compute_time_step`), `fixed_h`, and
`h_minimum` (assigned by `compute_h_minimum`, which `set_fixed_h(True)` and a
`compute_time_step` with `fixed_h` off both call).  The arrays handed to each
operation are the particle arrays *as they are at that moment*: between calls
particles come and go, `h` changes and properties are added. -/

structure IState (α : Type) where
  flag : Option Bool            -- `_has_dt_adapt`
  fixedH : Bool                 -- `fixed_h`
  hMin : Option (Ext α)         -- `h_minimum`; `none`: attribute never assigned

def IState.init : IState α := { flag := Option.none, fixedH := false, hMin := Option.none }

inductive IOp (α : Type) where
  | setFixedH (b : Bool) (arrs : List (Arr α))
  | cts (arrs : List (Arr α)) (cfl : α)

/-- `set_fixed_h(b)` with the arrays as they are now -/
def IState.setFixedH (s : IState α) (b : Bool) (arrs : List (Arr α)) : IState α :=
  { flag := s.flag, fixedH := b, hMin := if b then some (hMinimum arrs) else s.hMin }

/-- `compute_time_step(dt, cfl)` with the arrays as they are now: new state and result -/
def IState.cts (sqrt : α → α) (s : IState α) (arrs : List (Arr α)) (cfl : α) :
    IState α × Res α :=
  let flag := s.flag.getD (hasDtAdapt arrs)
  match explicitDtAdaptWith flag arrs with
  | Res.none =>
    if s.fixedH then
      match s.hMin with
      | Option.none => ({ flag := some flag, fixedH := true, hMin := Option.none }, Res.error)
      | some h => ({ flag := some flag, fixedH := true, hMin := some h },
                   computeTimeStepFrom Res.none sqrt arrs cfl (some h))
    else
      ({ flag := some flag, fixedH := false, hMin := some (hMinimum arrs) },
       computeTimeStepFrom Res.none sqrt arrs cfl Option.none)
  | r => ({ flag := some flag, fixedH := s.fixedH, hMin := s.hMin }, r)   -- early return

def istep (sqrt : α → α) (s : IState α) : IOp α → IState α × Option (Res α)
  | IOp.setFixedH b arrs => (s.setFixedH b arrs, Option.none)
  | IOp.cts arrs cfl => let r := s.cts sqrt arrs cfl; (r.1, some r.2)

/-- the state after a whole history of operations on a fresh integrator -/
def irun (sqrt : α → α) (ops : List (IOp α)) : IState α :=
  ops.foldl (fun s op => (istep sqrt s op).1) IState.init

/-- what the history says `fixed_h`/`h_minimum` should be: the smallest `h` at the
latest `set_fixed_h(True)` if no `set_fixed_h(False)` followed it -/
def lastFixedStep (acc : Option (Ext α)) : IOp α → Option (Ext α)
  | IOp.setFixedH true arrs => some (hMinimum arrs)
  | IOp.setFixedH false _ => Option.none
  | IOp.cts _ _ => acc

def lastFixed (ops : List (IOp α)) : Option (Ext α) := ops.foldl lastFixedStep Option.none

/-- the flag cached by the first `compute_time_step` of the history -/
def flagStep (acc : Option Bool) : IOp α → Option Bool
  | IOp.setFixedH _ _ => acc
  | IOp.cts arrs _ => match acc with
    | some b => some b
    | Option.none => some (hasDtAdapt arrs)

def flagOf (ops : List (IOp α)) : Option Bool := ops.foldl flagStep Option.none

/-- `Solver._compute_timestep` (serial, adaptive): fall back to the fixed step -/
def solverTimestepOf (r : Res α) (undamped : α) : Res α :=
  match r with
  | Res.none => Res.val undamped
  | r => r

def solverTimestep (sqrt : α → α) (arrs : List (Arr α)) (cfl undamped : α)
    (fixedH : Option (Ext α)) : Res α :=
  solverTimestepOf (computeTimeStep sqrt arrs cfl fixedH) undamped

/-! ## parallel runs: the min-reduction over ranks

`Solver._compute_timestep` with `in_parallel`: a rank without a local constraint offers the
sentinel `big` (1e20) to `pm.update_time_steps` (an MPI `Allreduce(MIN)`); when the reduced
value is still the sentinel no rank had a constraint and the fixed step is kept (the last
step is the `fix:` commit; `solverTimestepParOrig` is the code before it). -/

/-- what this rank hands to the reduction; `none`: `compute_time_step` raised -/
def parOffer (big : α) : Res α → Option (Ext α)
  | Res.none => some (some big)
  | Res.val d => some (some d)
  | Res.inf => some Option.none
  | Res.error => Option.none

def reduceStep (acc : Ext α) (o : α) : Ext α := extMin acc (some o)

/-- `Allreduce(MIN)` of this rank's offer with the other ranks' offers -/
def reduceMin (x : Ext α) (others : List α) : Ext α := others.foldl reduceStep x

def solverTimestepParOrig (big : α) (loc : Res α) (others : List α) : Res α :=
  match parOffer big loc with
  | Option.none => Res.error
  | some x =>
    match reduceMin x others with
    | Option.none => Res.inf
    | some d => Res.val d

def solverTimestepPar (big und : α) (loc : Res α) (others : List α) : Res α :=
  match solverTimestepParOrig big loc others with
  | Res.val d => if big ≤ d then Res.val und else Res.val d
  | r => r

end
end PysphVerif.AdaptDt
