import PysphVerif.Model.Poly
/-
C08 — kernel tables and their executable checks.

A `KTable` is what `translate/kernels2lean.py` extracts from one kernel class
of `pysph/base/kernels.py` at one dimension (see `Gen/Kernels.lean`):

  fac          = facQ · π^(piHalf/2)                      (`self.fac`)
  kernel(r,h)      = fac · h^-hpowW  · w (q) · [exp(-q²)]
  dwdq(r,h)        = fac · h^-hpowDw · dw(q) · [exp(-q²)]   (`dw0` when `rij ≤ rmin`)
  gradient_h(r,h)  = fac · h^-hpowGh · gh(q) · [exp(-q²)]
  gradient(xij,r,h)[i] = the monomial `grad[i]` in (wdash = dwdq, h, rij, xij)
                                                           (`grad0[i]` when `rij ≤ rmin`)

with q = rij/h and `w, dw, dw0, gh` the coefficient lists of the piece selected
by the `if/elif` chain on `q` (`lookup`).  Core Lean only; everything here is
executable on `Rat` — the driver evaluates it exactly, the property theorems
discharge the `…Ok` checks below by `decide` on the generated tables and turn
them into statements over ℝ with the lemmas of `Lemmas/Kernel.lean`.
-/
namespace PysphVerif.Kernel
open PysphVerif.Poly

structure Piece where
  lo : Rat
  hi : Rat
  /-- does `q = hi` still select this piece (`q > hi` leaves it) or the next (`q < hi` stays) -/
  hiIncl : Bool
  w : List Rat
  dw : List Rat
  dw0 : List Rat
  gh : List Rat
  /-- cut points for the sign certificate of `dw` on `[lo, hi]` (found by the translator, checked here) -/
  cuts : List Rat
  deriving Repr, DecidableEq

/-- `c · wdash^a · h^b · rij^e · x0^.. x1^.. x2^..` -/
structure Mono where
  c : Rat
  wdash : Int
  h : Int
  rij : Int
  x : List Int
  deriving Repr, DecidableEq

structure KTable where
  name : String
  dim : Nat
  radius : Rat
  facQ : Rat
  piHalf : Int
  gauss : Bool
  hpowW : Nat
  hpowDw : Nat
  hpowGh : Nat
  rmin : Rat
  pieces : List Piece
  tail : Piece
  grad : List Mono
  grad0 : List Mono
  deriving Repr, DecidableEq

/-! ## piece selection (the `if q > … elif …` chain), polymorphic in the number type -/
section
variable {β : Type} [LT β] [DecidableLT β] [DecidableEq β]

def inPiece (c : Rat → β) (p : Piece) (q : β) : Bool :=
  decide (q < c p.hi) || (p.hiIncl && decide (q = c p.hi))

def lookup (c : Rat → β) : List Piece → Piece → β → Piece
  | [], t, _ => t
  | p :: ps, t, q => if inPiece c p q then p else lookup c ps t q

end

/-- the piece a rational `q` selects -/
def KTable.pieceAt (K : KTable) (q : Rat) : Piece := lookup id K.pieces K.tail q

/-! ## exact evaluation used by the driver -/

def ipow (x : Rat) (e : Int) : Rat :=
  if 0 ≤ e then x ^ e.toNat else (1 / x) ^ (-e).toNat

def Mono.eval (m : Mono) (wdash h rij : Rat) (x : List Rat) : Rat :=
  m.c * ipow wdash m.wdash * ipow h m.h * ipow rij m.rij *
    (List.zipWith ipow x m.x).foldl (· * ·) 1

/-! ## executable checks on a table (all over `Rat`) -/

/-- pieces are consecutive: `lo₀ = L`, `loᵢ < hiᵢ = loᵢ₊₁`.  The translator
emits a degenerate piece `[b, b]` (closed) when the source treats the single
point `q = b` unlike both neighbouring intervals (e.g. `if q < 1 … elif q > 1`):
`lookup` then reproduces the code at `q = b`, and this check — hence
`table_wellformed` — fails, as it must: the pieces no longer cover `[0, radius)`
by proper intervals. -/
def chain (L : Rat) : List Piece → Bool
  | [] => true
  | p :: ps => (p.lo == L) && decide (p.lo < p.hi) && chain p.hi ps

def lastHi (L : Rat) : List Piece → Rat
  | [] => L
  | p :: ps => lastHi p.hi ps

def chainOk (K : KTable) : Bool :=
  chain 0 K.pieces && (lastHi 0 K.pieces == K.radius) && !K.pieces.isEmpty

/-- every piece that some `q ≥ R` can select evaluates to `0` there -/
def edgeZero (sel : Piece → List Rat) (R : Rat) : List Piece → Bool
  | [] => true
  | p :: ps =>
    (decide (p.hi < R) || ((p.hi == R) && (!p.hiIncl || (eval (sel p) R == 0)))) &&
      edgeZero sel R ps

/-- kernel and dwdq vanish for `q ≥ radius_scale` -/
def supportOk (K : KTable) : Bool :=
  isZero K.tail.w && isZero K.tail.dw && isZero K.tail.dw0 &&
  edgeZero Piece.w K.radius K.pieces && edgeZero Piece.dw K.radius K.pieces &&
  edgeZero Piece.dw0 K.radius K.pieces

/-- `(P·e^{-q²})' = (P' − 2qP)·e^{-q²}` -/
def dshape (gauss : Bool) (w : List Rat) : List Rat :=
  if gauss then sub (deriv w) (mulLin 0 2 w) else deriv w

def pieceDerivOk (g : Bool) (p : Piece) : Bool := peq p.dw (dshape g p.w)

/-- `dwdq`'s polynomial is the derivative of `kernel`'s on every piece -/
def derivOk (K : KTable) : Bool :=
  K.pieces.all (pieceDerivOk K.gauss) && pieceDerivOk K.gauss K.tail

/-- `gh = −(d·w + q·dw)` -/
def pieceGradhOk (d : Nat) (p : Piece) : Bool :=
  peq p.gh (neg (add (smul (d : Rat) p.w) (mulX p.dw)))

def gradhOk (K : KTable) : Bool :=
  (K.hpowW == K.dim) && (K.hpowDw == K.dim) && (K.hpowGh == K.dim + 1) &&
  K.pieces.all (pieceGradhOk K.dim) && pieceGradhOk K.dim K.tail

/-- value and derivative match at every breakpoint (including the support edge);
`ps.headD t` is the piece that follows -/
def junctionsC1 : List Piece → Piece → Bool
  | [], _ => true
  | p :: ps, t =>
    (eval p.w p.hi == eval (ps.headD t).w p.hi) && (eval p.dw p.hi == eval (ps.headD t).dw p.hi) &&
      junctionsC1 ps t

def c1Ok (K : KTable) : Bool := junctionsC1 K.pieces K.tail

/-- at every breakpoint the value does not jump upwards -/
def jumpsDown : List Piece → Piece → Bool
  | [], _ => true
  | p :: ps, t => decide (eval (ps.headD t).w p.hi ≤ eval p.w p.hi) && jumpsDown ps t

/-- the cut points span `[lo, hi]` and certify `dw ≤ 0` there -/
def pieceSignOk (p : Piece) : Bool :=
  match p.cuts with
  | [] => false
  | a :: rest => (a == p.lo) && (lastOr a rest == p.hi) && certCuts p.dw (a :: rest)

/-- `dw ≤ 0` on every piece, no upward jump ⇒ the kernel is non-increasing -/
def signOk (K : KTable) : Bool :=
  K.pieces.all pieceSignOk && jumpsDown K.pieces K.tail

/-- the guard `rij ≤ rmin` returns zero: `dwdq` and `gradient` vanish at the origin -/
def originOk (K : KTable) : Bool :=
  decide (0 < K.rmin) && K.pieces.all (fun p => isZero p.dw0) && isZero K.tail.dw0 &&
  K.grad0.all (fun m => m.c == 0) && (K.grad0.length == 3)

/-- `grad[i] = wdash · h⁻¹ · rij⁻¹ · xij[i]` -/
def gradOk (K : KTable) : Bool :=
  K.grad == [⟨1, 1, -1, -1, [1, 0, 0]⟩, ⟨1, 1, -1, -1, [0, 1, 0]⟩, ⟨1, 1, -1, -1, [0, 0, 1]⟩]

/-- area of the unit sphere: `S_d = sphereQ d · π^(spherePi d)` -/
def sphereQ : Nat → Rat
  | 1 => 2
  | 2 => 2
  | 3 => 4
  | _ => 0
def spherePi : Nat → Int
  | 1 => 0
  | 2 => 1
  | 3 => 1
  | _ => 0

/-- the integrand `q^(d−1)·w(q)` of the radial integral and its antiderivative -/
def radial (d : Nat) (p : Piece) : List Rat := mulXpow (d - 1) p.w
def radialAnti (d : Nat) (p : Piece) : List Rat := antideriv (radial d p)
def pieceAntiOk (d : Nat) (p : Piece) : Bool := peq (deriv (radialAnti d p)) (radial d p)
def pieceMass (d : Nat) (p : Piece) : Rat :=
  eval (radialAnti d p) p.hi - eval (radialAnti d p) p.lo
def massSum (d : Nat) : List Piece → Rat
  | [] => 0
  | p :: ps => pieceMass d p + massSum d ps

/-- polynomial kernels: `S_d · fac · Σ_pieces ∫ q^(d−1) w = 1` with the powers of π cancelling -/
def normOk (K : KTable) : Bool :=
  !K.gauss && decide (1 ≤ K.dim) && decide (K.dim ≤ 3) && K.pieces.all (pieceAntiOk K.dim) &&
  (K.facQ * sphereQ K.dim * massSum K.dim K.pieces == 1) &&
  (K.piHalf + 2 * spherePi K.dim == 0)

/-- Gaussian family: `fac = π^(−d/2)` -/
def gaussFacOk (K : KTable) : Bool :=
  K.gauss && (K.facQ == 1) && (K.piHalf == -(K.dim : Int))

end PysphVerif.Kernel
