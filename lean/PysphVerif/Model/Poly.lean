/-
C08 — polynomials as coefficient lists (lowest degree first).

Core Lean only.  The operations are polymorphic over the core arithmetic
classes so that the same definitions are *run* on `Rat` (exact evaluation in
the model driver, certificate checking by `decide`) and *reasoned about* over
ℝ / any field (Lemmas/Poly.lean).

* `evalC c p x`   Horner evaluation, coefficients injected by `c`
* `deriv`         formal derivative      ((a + X·p)' = p + X·p')
* `mulLin a b p`  (a + b·X)·p
* `mob lo hi p`   Möbius transform: Σ aₖ (lo + hi·s)ᵏ (1+s)ⁿ⁻ᵏ — the numerator of
                  p((lo + hi·s)/(1+s)); all coefficients ≤ 0 ⇒ p ≤ 0 on [lo, hi)
* `antideriv`     formal antiderivative with zero constant term (ℚ only)
-/
namespace PysphVerif.Poly

/-- Horner evaluation of `Σ c(aₖ) xᵏ` -/
def evalC {α β : Type} [Add β] [Mul β] [OfNat β 0] (c : α → β) : List α → β → β
  | [], _ => 0
  | a :: p, x => c a + x * evalC c p x

section
variable {α : Type} [Add α] [Mul α] [OfNat α 0]

def eval (p : List α) (x : α) : α := evalC id p x

def add : List α → List α → List α
  | [], q => q
  | p, [] => p
  | a :: p, b :: q => (a + b) :: add p q

def smul (c : α) (p : List α) : List α := p.map (fun a => c * a)

/-- multiplication by `X` -/
def mulX (p : List α) : List α := 0 :: p

/-- formal derivative: `(a + X·p)' = p + X·p'` -/
def deriv : List α → List α
  | [] => []
  | _ :: p => add p (mulX (deriv p))

/-- `(a + b·X) · p` -/
def mulLin (a b : α) (p : List α) : List α := add (smul a p) (mulX (smul b p))

/-- `Xᵏ · p` -/
def mulXpow : Nat → List α → List α
  | 0, p => p
  | k + 1, p => mulX (mulXpow k p)

variable [OfNat α 1]

/-- `(a + b·X)ⁿ` -/
def powLin (a b : α) : Nat → List α
  | 0 => [1]
  | n + 1 => mulLin a b (powLin a b n)

/-- Möbius transform on `[lo, hi]`:
`mob lo hi [a₀,…,aₙ] = Σ aₖ (lo + hi·s)ᵏ (1+s)ⁿ⁻ᵏ` as a polynomial in `s`. -/
def mob (lo hi : α) : List α → List α
  | [] => []
  | a :: p => add (smul a (powLin 1 1 p.length)) (mulLin lo hi (mob lo hi p))

end

/-! ### ℚ-only, executable checks -/

def neg (p : List Rat) : List Rat := p.map (fun a => -a)
def sub (p q : List Rat) : List Rat := add p (neg q)

/-- every coefficient is zero -/
def isZero (p : List Rat) : Bool := p.all (fun a => a == 0)

/-- equal as polynomials (trailing zeros ignored) -/
def peq (p q : List Rat) : Bool := isZero (sub p q)

/-- every coefficient is ≤ 0 -/
def allNonpos (p : List Rat) : Bool := p.all (fun a => decide (a ≤ 0))

def antiderivFrom : Nat → List Rat → List Rat
  | _, [] => []
  | k, a :: p => (a / ((k + 1 : Nat) : Rat)) :: antiderivFrom (k + 1) p

/-- formal antiderivative with zero constant term -/
def antideriv (p : List Rat) : List Rat := 0 :: antiderivFrom 0 p

/-- sign certificate for `p ≤ 0` on one interval `[a, b]` -/
def certOne (p : List Rat) (a b : Rat) : Bool :=
  decide (a < b) && allNonpos (mob a b p) && decide (eval p b ≤ 0)

/-- sign certificate for `p ≤ 0` on `[c₀, cₘ]` given cut points `c₀ < c₁ < … < cₘ` (m ≥ 1) -/
def certCuts (p : List Rat) : List Rat → Bool
  | [a, b] => certOne p a b
  | a :: b :: rest => certOne p a b && certCuts p (b :: rest)
  | _ => false

/-- last element of `a :: l` -/
def lastOr (a : Rat) : List Rat → Rat
  | [] => a
  | b :: r => lastOr b r

end PysphVerif.Poly
