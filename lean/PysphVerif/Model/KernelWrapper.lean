/-
C08 — the compiled convenience wrappers `c_kernels.<Kernel>Wrapper`
(`pysph/base/c_kernels.pyx.mako`, one template body for all ten classes).

A wrapper object owns two scratch members, `cdef double[3] xij, grad`, that live
as long as the object and are re-used by every call:

    cpdef double kernel(self, xi, yi, zi, xj, yj, zj, h):
        cdef double* xij = self.xij
        xij[0] = xi-xj ; xij[1] = yi-yj ; xij[2] = zi-zj
        cdef double rij = sqrt(xij[0]*xij[0] + xij[1]*xij[1] +xij[2]*xij[2])
        return self.kern.kernel(xij, rij, h)

    cpdef gradient(self, xi, yi, zi, xj, yj, zj, h):
        … same three stores and rij …
        cdef double* grad = self.grad
        self.kern.gradient(xij, rij, h, grad)
        return grad[0], grad[1], grad[2]

`translate/kwrapper2lean.py` transcribes the two method bodies statement by
statement into a `Code` (`Gen/KernelWrapper.lean`).  What a method hands back
to its caller is an `Obj`: a number, a tuple of fresh numbers, or an object
that ALIASES one of the scratch members (a memoryview / `np.asarray` of one) —
the caller keeps such objects while it goes on calling the wrapper, so the
semantics below is that of a whole HISTORY of calls on one wrapper and of
reading every retained result afterwards (`observe`).

Core Lean only; polymorphic in the number type (the driver runs it on `Float`,
bit for bit what the C code computes; the theorems instantiate it at ℝ).
-/
namespace PysphVerif.KernelWrapper

structure V3 (α : Type) where
  x : α
  y : α
  z : α
  deriving Repr, DecidableEq

def V3.get {α : Type} (v : V3 α) : Nat → α
  | 0 => v.x
  | 1 => v.y
  | _ => v.z

def V3.set {α : Type} (v : V3 α) (i : Nat) (a : α) : V3 α :=
  match i with
  | 0 => { v with x := a }
  | 1 => { v with y := a }
  | _ => { v with z := a }

def V3.toList {α : Type} (v : V3 α) : List α := [v.x, v.y, v.z]

/-- the two scratch members of a wrapper object -/
inductive Buf
  | xij
  | grad
  deriving Repr, DecidableEq

/-- statements of a wrapper method (through the local `cdef double* p = self.<member>`);
method arguments are numbered `xi yi zi xj yj zj = 0 … 5` -/
inductive Stmt
  /-- `p[i] = <arg a> - <arg c>` -/
  | sep (b : Buf) (i a c : Nat)
  /-- `cdef double rij = sqrt(p[0]*p[0] + p[1]*p[1] +p[2]*p[2])` -/
  | norm (b : Buf)
  /-- `self.kern.gradient(px, rij, h, pg)` — the kernel writes its result into `pg` -/
  | callGrad (x g : Buf)
  deriving Repr, DecidableEq

/-- the `return` statement -/
inductive Ret
  /-- `return self.kern.kernel(px, rij, h)`: a C double, boxed into a new Python float -/
  | kern (x : Buf)
  /-- `return p[i0], p[i1], …`: a tuple of new Python floats -/
  | copy (b : Buf) (idx : List Nat)
  /-- an object over the storage of the member itself (`<double[:3]>p`, `np.asarray` of it) -/
  | view (b : Buf)
  deriving Repr, DecidableEq

def Ret.isValue : Ret → Bool
  | .view _ => false
  | _ => true

structure Method where
  body : List Stmt
  ret : Ret
  deriving Repr, DecidableEq

structure Code where
  kernel : Method
  gradient : Method
  deriving Repr, DecidableEq

/-- arithmetic of the number type and the kernel object the wrapper holds -/
structure Ops (α : Type) where
  sub : α → α → α
  add : α → α → α
  mul : α → α → α
  sqrt : α → α
  /-- `self.kern.kernel(xij, rij, h)` -/
  kernel : V3 α → α → α → α
  /-- `self.kern.gradient(xij, rij, h, grad)`: the contents of `grad` afterwards, given the
  contents before (a kernel that does not store every component leaves old ones) -/
  gradient : V3 α → α → α → V3 α → V3 α
  /-- what an unassigned C local holds -/
  undef : α

/-- one call on the wrapper: `gradient(xi…, xj…, h)` or `kernel(xi…, xj…, h)` -/
structure Call (α : Type) where
  isGrad : Bool
  xi : V3 α
  xj : V3 α
  h : α
  deriving Repr

def Call.arg {α : Type} (c : Call α) (n : Nat) : α :=
  if n < 3 then c.xi.get n else c.xj.get (n - 3)

/-- the object's state between calls -/
structure St (α : Type) where
  xij : V3 α
  grad : V3 α
  deriving Repr

def St.getBuf {α : Type} (s : St α) : Buf → V3 α
  | .xij => s.xij
  | .grad => s.grad

def St.setBuf {α : Type} (s : St α) (b : Buf) (v : V3 α) : St α :=
  match b with
  | .xij => { s with xij := v }
  | .grad => { s with grad := v }

/-- state + the local `rij` while a method runs -/
structure Frame (α : Type) where
  st : St α
  rij : α

section
variable {α : Type}

def normOf (o : Ops α) (p : V3 α) : α :=
  o.sqrt (o.add (o.add (o.mul p.x p.x) (o.mul p.y p.y)) (o.mul p.z p.z))

def execStmt (o : Ops α) (c : Call α) (f : Frame α) : Stmt → Frame α
  | .sep b i a k =>
    { f with st := f.st.setBuf b ((f.st.getBuf b).set i (o.sub (c.arg a) (c.arg k))) }
  | .norm b => { f with rij := normOf o (f.st.getBuf b) }
  | .callGrad x g =>
    { f with st := f.st.setBuf g (o.gradient (f.st.getBuf x) f.rij c.h (f.st.getBuf g)) }

/-- what the caller holds after a call -/
inductive Obj (α : Type)
  | num (v : α)
  | tup (vs : List α)
  | alias (b : Buf)

/-- looking at a held object while the wrapper is in state `s` -/
def Obj.read (s : St α) : Obj α → List α
  | .num v => [v]
  | .tup vs => vs
  | .alias b => (s.getBuf b).toList

def retObj (o : Ops α) (c : Call α) (f : Frame α) : Ret → Obj α
  | .kern x => .num (o.kernel (f.st.getBuf x) f.rij c.h)
  | .copy b idx => .tup (idx.map (f.st.getBuf b).get)
  | .view b => .alias b

def execBody (o : Ops α) (c : Call α) (f : Frame α) (body : List Stmt) : Frame α :=
  body.foldl (execStmt o c) f

def callMethod (o : Ops α) (m : Method) (s : St α) (c : Call α) : St α × Obj α :=
  (((execBody o c ⟨s, o.undef⟩ m.body).st), retObj o c (execBody o c ⟨s, o.undef⟩ m.body) m.ret)

def Code.method (code : Code) (isGrad : Bool) : Method :=
  if isGrad then code.gradient else code.kernel

def step (o : Ops α) (code : Code) (s : St α) (c : Call α) : St α × Obj α :=
  callMethod o (code.method c.isGrad) s c

/-- a history of calls on ONE wrapper: final state and every returned object, in order -/
def run (o : Ops α) (code : Code) : St α → List (Call α) → St α × List (Obj α)
  | s, [] => (s, [])
  | s, c :: cs => ((run o code (step o code s c).1 cs).1,
                   (step o code s c).2 :: (run o code (step o code s c).1 cs).2)

/-- the caller keeps every result and looks at all of them after the last call -/
def observe (o : Ops α) (code : Code) (s : St α) (cs : List (Call α)) : List (List α) :=
  (run o code s cs).2.map (Obj.read (run o code s cs).1)

/-- the caller looks at each result as soon as it is returned -/
def observeNow (o : Ops α) (code : Code) : St α → List (Call α) → List (List α)
  | _, [] => []
  | s, c :: cs => (step o code s c).2.read (step o code s c).1 ::
      observeNow o code (step o code s c).1 cs

/-! ### what a call means: a function of its own arguments only -/

def sepOf (o : Ops α) (c : Call α) : V3 α :=
  ⟨o.sub c.xi.x c.xj.x, o.sub c.xi.y c.xj.y, o.sub c.xi.z c.xj.z⟩

/-- `z` is any buffer content: a kernel that stores all three components ignores it -/
def pureResult (o : Ops α) (z : V3 α) (c : Call α) : List α :=
  if c.isGrad then (o.gradient (sepOf o c) (normOf o (sepOf o c)) c.h z).toList
  else [o.kernel (sepOf o c) (normOf o (sepOf o c)) c.h]

end

/-- the three separation stores -/
def sepAll (b : Buf) : List Stmt := [.sep b 0 0 3, .sep b 1 1 4, .sep b 2 2 5]

/-- the template as it is expected to read (`table_wrapper_code` states that the
generated transcription equals it) -/
def canonical : Code :=
  { kernel := ⟨sepAll .xij ++ [.norm .xij], .kern .xij⟩,
    gradient := ⟨sepAll .xij ++ [.norm .xij, .callGrad .xij .grad], .copy .grad [0, 1, 2]⟩ }

end PysphVerif.KernelWrapper
