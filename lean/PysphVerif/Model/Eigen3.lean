/-
C13 — model of the 3×3 symmetric eigen-decomposition of pysph/base/linalg3.pyx
(public-domain JAMA / EISPACK code): `tred2`, `tql2`, `zero_matrix_case`,
`eigen_decomposition` (the routine the solid-mechanics equations `cimport`), the
arithmetic part of `get_eigenvalvec` (diagonal fast path, `_nearly_diagonal`, the
`use_iter` decision) and `transform_diag_inv`.

Transcribed statement by statement, loops as folds over `List.range` (the C `for`
loops of Cython, bounds evaluated once), the two `while` loops of `tql2` as fuel
recursion:
  * the search `while m < n` runs at most `n - l ≤ 3` times (`findM`, fuel 3);
    `m = n` (possible only when a comparison with NaN fails, the C code would then
    index out of bounds) is reported as `Err.mOut`;
  * the QL iteration `while cont` has no bound in the source; `qlIter` takes `fuel`
    sweeps per eigenvalue and reports exhaustion as `Err.noConv` — never a default.

Polymorphic in the number type: *run* at `Float` (IEEE doubles: the iterative path
uses only `+ - * / sqrt fabs` and comparisons, which agree bit for bit with the C
code; `Float.sqrt` and C `sqrt` are correctly rounded) and *reasoned about* over a
linearly ordered field with `sqrt` abstract.  `hypot2` is a parameter `hyp` of `tql2`: the
pinned body is `hypotNaive sqrt`, the repaired one `hypotSafe fabs sqrt` (the harness reads
the source to see which one the tree has).  Cython's checked division (a zero divisor
raises ZeroDivisionError, which a `noexcept` function reports as "unraisable" and returns)
is not modelled: the model divides as IEEE does, the theorems show the divisors non-zero in
exact arithmetic, and the harness ties "the code reported ZeroDivisionError" to "the model's
result is not finite".  `fabs`, `sqrt`, the literal
`eps = 2.0**-52.0` and the literal `1e8` of `_nearly_diagonal` are parameters.
A `double[3][3]` is a record of nine cells read with `V i j` (`Mat.get`) and written
with `setM`, a `double*` a record of three cells (`d i`, `setV`).  The trigonometric `get_eigenvalues`
(cos/acos/atan2/sin) is NOT modelled: `getEigenvalvec` takes the eigenvalue triple it
returned as an input (it only decides which path is taken).

`log` fields record the path taken (for the evidence counts of the harness); no
theorem mentions them.  Core Lean only.
-/
namespace PysphVerif.Eigen3

/-- `double [3][3]` (a record of nine cells: a function type would be re-evaluated lazily,
cell by cell, by compiled Lean) -/
structure Mat (α : Type) where
  a00 : α
  a01 : α
  a02 : α
  a10 : α
  a11 : α
  a12 : α
  a20 : α
  a21 : α
  a22 : α

/-- `double *` pointing at three cells -/
structure Vec (α : Type) where
  x0 : α
  x1 : α
  x2 : α

/-- `V[i][j]` (indices are always `< 3` in the code; the last arm is never used) -/
def Mat.get {α : Type} (V : Mat α) (i j : Nat) : α :=
  match i, j with
  | 0, 0 => V.a00 | 0, 1 => V.a01 | 0, 2 => V.a02
  | 1, 0 => V.a10 | 1, 1 => V.a11 | 1, 2 => V.a12
  | 2, 0 => V.a20 | 2, 1 => V.a21 | _, _ => V.a22

/-- `d[i]` -/
def Vec.get {α : Type} (d : Vec α) (i : Nat) : α :=
  match i with
  | 0 => d.x0 | 1 => d.x1 | _ => d.x2

instance {α : Type} : CoeFun (Mat α) (fun _ => Nat → Nat → α) := ⟨Mat.get⟩
instance {α : Type} : CoeFun (Vec α) (fun _ => Nat → α) := ⟨Vec.get⟩

/-- `V[i][j] = v` -/
def setM {α : Type} (V : Mat α) (i j : Nat) (v : α) : Mat α :=
  match i, j with
  | 0, 0 => { V with a00 := v } | 0, 1 => { V with a01 := v } | 0, 2 => { V with a02 := v }
  | 1, 0 => { V with a10 := v } | 1, 1 => { V with a11 := v } | 1, 2 => { V with a12 := v }
  | 2, 0 => { V with a20 := v } | 2, 1 => { V with a21 := v } | 2, 2 => { V with a22 := v }
  | _, _ => V
/-- `d[i] = v` -/
def setV {α : Type} (d : Vec α) (i : Nat) (v : α) : Vec α :=
  match i with
  | 0 => { d with x0 := v } | 1 => { d with x1 := v } | 2 => { d with x2 := v }
  | _ => d

/-- the nine entries, row-major -/
def Mat.toList {α : Type} (V : Mat α) : List α :=
  [V.a00, V.a01, V.a02, V.a10, V.a11, V.a12, V.a20, V.a21, V.a22]
def Vec.toList {α : Type} (d : Vec α) : List α := [d.x0, d.x1, d.x2]

/-- read a row-major list back (cells beyond the list read `z`) -/
def Mat.ofList {α : Type} (z : α) (l : List α) : Mat α :=
  ⟨l.getD 0 z, l.getD 1 z, l.getD 2 z, l.getD 3 z, l.getD 4 z, l.getD 5 z, l.getD 6 z,
   l.getD 7 z, l.getD 8 z⟩
def Vec.ofList {α : Type} (z : α) (l : List α) : Vec α := ⟨l.getD 0 z, l.getD 1 z, l.getD 2 z⟩

/-- the matrix with cells `f i j` -/
def Mat.ofFn {α : Type} (f : Nat → Nat → α) : Mat α :=
  ⟨f 0 0, f 0 1, f 0 2, f 1 0, f 1 1, f 1 2, f 2 0, f 2 1, f 2 2⟩
def Vec.ofFn {α : Type} (f : Nat → α) : Vec α := ⟨f 0, f 1, f 2⟩

/-- working state of `tred2` / result of `tred2` -/
structure St (α : Type) where
  V : Mat α
  d : Vec α
  e : Vec α
  log : List Nat

/-- what can go wrong inside the fuel-bounded loops -/
inductive Err where
  /-- `while cont` of `tql2` still running after `fuel` sweeps for eigenvalue `l` -/
  | noConv (l : Nat)
  /-- the search `while m < n` ended with `m = n` (the C code would read `d[n]`) -/
  | mOut (l : Nat)
  deriving Repr, DecidableEq

section
variable {α : Type} [Add α] [Sub α] [Mul α] [Div α] [Neg α] [OfNat α 0] [OfNat α 1] [OfNat α 2]
  [LT α] [DecidableLT α] [LE α] [DecidableLE α] [BEq α]

/-- `hypot2(x, y) = sqrt(x*x + y*y)` — the pinned code.  `x*x + y*y` overflows for
`|x| > 1.3e154` and underflows to 0 for `|x|, |y| < 1.5e-162` (finding
`C13:eig:graded`, proposed_fixes/C13-hypot2-overflow.diff). -/
def hypotNaive (sqrt : α → α) (x y : α) : α := sqrt (x*x + y*y)

/-- the repaired `hypot2` (JAMA's `Maths.hypot`, proposed_fixes/C13-hypot2-overflow.diff):
```
if fabs(x) > fabs(y):  r = y/x; r = fabs(x)*sqrt(1+r*r)
elif y != 0:           r = x/y; r = fabs(y)*sqrt(1+r*r)
else:                  r = 0.0
``` -/
def hypotSafe (fabs sqrt : α → α) (x y : α) : α :=
  if fabs y < fabs x then
    let r := y / x
    fabs x * sqrt (1 + r*r)
  else if y != 0 then
    let r := x / y
    fabs y * sqrt (1 + r*r)
  else 0

/-- `MAX(a, b) = a if a > b else b` -/
def maxC (a b : α) : α := if b < a then a else b

/-! ## tred2 -/

/-- `for j in range(n): d[j] = V[n-1][j]` -/
def t2CopyBody (V : Mat α) (d : Vec α) (j : Nat) : Vec α := setV d j (V 2 j)

/-- `for k in range(i): scale += fabs(d[k])` -/
def t2ScaleBody (fabs : α → α) (d : Vec α) (scale : α) (k : Nat) : α := scale + fabs (d k)

/-- body of `for j in range(i)` in the `scale == 0.0` branch:
`d[j] = V[i-1][j]; V[i][j] = 0.0; V[j][i] = 0.0` -/
def t2ZeroBody (i : Nat) (s : St α) (j : Nat) : St α :=
  let d := setV s.d j (s.V (i-1) j)
  let V := setM s.V i j 0
  let V := setM V j i 0
  { s with V := V, d := d }

/-- `for k in range(i): d[k] /= scale; h += d[k] * d[k]` -/
def t2NormBody (scale : α) (dh : Vec α × α) (k : Nat) : Vec α × α :=
  let d := setV dh.1 k (dh.1 k / scale)
  (d, dh.2 + d k * d k)

/-- `for j in range(i): e[j] = 0.0` -/
def t2ClearBody (e : Vec α) (j : Nat) : Vec α := setV e j 0

/-- `for k in range(j+1, i): g += V[k][j] * d[k]; e[k] += V[k][j] * f` -/
def t2ApplyInner (V : Mat α) (d : Vec α) (f : α) (j : Nat) (ge : α × Vec α) (k : Nat) :
    α × Vec α :=
  (ge.1 + V k j * d k, setV ge.2 k (ge.2 k + V k j * f))

/-- body of the first `for j in range(i)` of "Apply similarity transformation":
`f = d[j]; V[j][i] = f; g = e[j] + V[j][j] * f; <inner>; e[j] = g` -/
def t2ApplyBody (i : Nat) (s : St α) (j : Nat) : St α :=
  let f := s.d j
  let V := setM s.V j i f
  let g := s.e j + V j j * f
  let ge := (List.range' (j+1) (i - (j+1))).foldl (t2ApplyInner V s.d f j) (g, s.e)
  { s with V := V, e := setV ge.2 j ge.1 }

/-- `for j in range(i): e[j] /= h; f += e[j] * d[j]` -/
def t2DivBody (h : α) (d : Vec α) (ef : Vec α × α) (j : Nat) : Vec α × α :=
  let e := setV ef.1 j (ef.1 j / h)
  (e, ef.2 + e j * d j)

/-- `for j in range(i): e[j] -= hh * d[j]` -/
def t2SubBody (hh : α) (d : Vec α) (e : Vec α) (j : Nat) : Vec α := setV e j (e j - hh * d j)

/-- `for k in range(j, i): V[k][j] -= (f * e[k] + g * d[k])` -/
def t2UpdInner (d e : Vec α) (f g : α) (j : Nat) (V : Mat α) (k : Nat) : Mat α :=
  setM V k j (V k j - (f * e k + g * d k))

/-- body of the last `for j in range(i)` of the Householder branch:
`f = d[j]; g = e[j]; <inner>; d[j] = V[i-1][j]; V[i][j] = 0.0` -/
def t2UpdBody (i : Nat) (s : St α) (j : Nat) : St α :=
  let f := s.d j
  let g := s.e j
  let V := (List.range' j (i - j)).foldl (t2UpdInner s.d s.e f g j) s.V
  let d := setV s.d j (V (i-1) j)
  { s with V := setM V i j 0, d := d }

/-- the `else` branch (scale ≠ 0) of the reduction loop; returns the state and `h` -/
def t2House (sqrt : α → α) (i : Nat) (scale : α) (s : St α) : St α × α :=
  let dh := (List.range i).foldl (t2NormBody scale) (s.d, 0)
  let d := dh.1
  let h := dh.2
  let f := d (i-1)
  let g := sqrt h
  let g := if 0 < f then -g else g
  let e := setV s.e i (scale * g)
  let h := h - f * g
  let d := setV d (i-1) (f - g)
  let e := (List.range i).foldl t2ClearBody e
  let s := (List.range i).foldl (t2ApplyBody i) { s with d := d, e := e }
  let ef := (List.range i).foldl (t2DivBody h s.d) (s.e, 0)
  let f := ef.2
  let hh := f / (h + h)
  let e := (List.range i).foldl (t2SubBody hh s.d) ef.1
  let s := (List.range i).foldl (t2UpdBody i) { s with e := e }
  (s, h)

/-- body of `for i in range(n-1, 0, -1)` -/
def t2Outer (fabs sqrt : α → α) (s : St α) (i : Nat) : St α :=
  let scale := (List.range i).foldl (t2ScaleBody fabs s.d) 0
  if scale == 0 then
    let s := { s with e := setV s.e i (s.d (i-1)) }
    let s := (List.range i).foldl (t2ZeroBody i) s
    -- `d[i] = h` with `h = 0.0`
    { s with d := setV s.d i 0, log := s.log ++ [100 + 10*i] }
  else
    let sh := t2House sqrt i scale s
    { sh.1 with d := setV sh.1.d i sh.2, log := sh.1.log ++ [100 + 10*i + 1] }

/-- `for k in range(i+1): d[k] = V[k][i+1] / h` -/
def t2AccDBody (V : Mat α) (i : Nat) (h : α) (d : Vec α) (k : Nat) : Vec α :=
  setV d k (V k (i+1) / h)

/-- `for k in range(i+1): g += V[k][i+1] * V[k][j]` -/
def t2AccGBody (V : Mat α) (i j : Nat) (g : α) (k : Nat) : α := g + V k (i+1) * V k j

/-- `for k in range(i+1): V[k][j] -= g * d[k]` -/
def t2AccVBody (d : Vec α) (g : α) (j : Nat) (V : Mat α) (k : Nat) : Mat α :=
  setM V k j (V k j - g * d k)

/-- body of `for j in range(i+1)` in the accumulation -/
def t2AccJBody (d : Vec α) (i : Nat) (V : Mat α) (j : Nat) : Mat α :=
  let g := (List.range (i+1)).foldl (t2AccGBody V i j) 0
  (List.range (i+1)).foldl (t2AccVBody d g j) V

/-- `for k in range(i+1): V[k][i+1] = 0.0` -/
def t2AccZBody (i : Nat) (V : Mat α) (k : Nat) : Mat α := setM V k (i+1) 0

/-- body of `for i in range(n-1)` ("Accumulate transformations") -/
def t2Acc (s : St α) (i : Nat) : St α :=
  let V := setM s.V 2 i (s.V i i)
  let V := setM V i i 1
  let h := s.d (i+1)
  let s :=
    if h != 0 then
      let d := (List.range (i+1)).foldl (t2AccDBody V i h) s.d
      let V := (List.range (i+1)).foldl (t2AccJBody d i) V
      { s with V := V, d := d, log := s.log ++ [200 + 10*i + 1] }
    else { s with V := V, log := s.log ++ [200 + 10*i] }
  { s with V := (List.range (i+1)).foldl (t2AccZBody i) s.V }

/-- `for j in range(n): d[j] = V[n-1][j]; V[n-1][j] = 0.0` -/
def t2FinBody (s : St α) (j : Nat) : St α :=
  { s with d := setV s.d j (s.V 2 j), V := setM s.V 2 j 0 }

/-- `tred2(V, d, e)`; `d`, `e` are uninitialised on entry in the C code (every cell is
written before it is read), here they start as whatever `s` holds -/
def tred2 (fabs sqrt : α → α) (s : St α) : St α :=
  let s := { s with d := (List.range 3).foldl (t2CopyBody s.V) s.d }
  let s := [2, 1].foldl (t2Outer fabs sqrt) s
  let s := (List.range 2).foldl t2Acc s
  let s := (List.range 3).foldl t2FinBody s
  { s with V := setM s.V 2 2 1, e := setV s.e 0 0 }

/-! ## tql2 -/

/-- `for i in range(1, n): e[i-1] = e[i]` -/
def tqShiftBody (e : Vec α) (i : Nat) : Vec α := setV e (i-1) (e i)

/-- `while m < n: if fabs(e[m]) <= eps*tst1: break; m += 1` — at most `3 - m` rounds -/
def findM (fabs : α → α) (eps tst1 : α) (e : Vec α) : Nat → Nat → Nat
  | 0, m => m
  | fuel+1, m =>
    if m < 3 then
      if fabs (e m) ≤ eps * tst1 then m else findM fabs eps tst1 e fuel (m+1)
    else m

/-- loop-carried variables of one QL sweep -/
structure QL (α : Type) where
  V : Mat α
  d : Vec α
  e : Vec α
  c : α
  c2 : α
  c3 : α
  s : α
  s2 : α
  p : α

/-- `for k in range(n): h = V[k][i+1]; V[k][i+1] = s*V[k][i] + c*h; V[k][i] = c*V[k][i] - s*h` -/
def qlRotV (c s : α) (i : Nat) (V : Mat α) (k : Nat) : Mat α :=
  let h := V k (i+1)
  let V := setM V k (i+1) (s * V k i + c * h)
  setM V k i (c * V k i - s * h)

/-- body of `for i in range(m-1, l-1, -1)` ("Implicit QL transformation") -/
def qlRotBody (hyp : α → α → α) (q : QL α) (i : Nat) : QL α :=
  let c3 := q.c2
  let c2 := q.c
  let s2 := q.s
  let g := q.c * q.e i
  let h := q.c * q.p
  let r := hyp q.p (q.e i)
  let e := setV q.e (i+1) (q.s * r)
  let s := e i / r
  let c := q.p / r
  let p := c * q.d i - s * g
  let d := setV q.d (i+1) (h + s * (c * g + s * q.d i))
  let V := (List.range 3).foldl (qlRotV c s i) q.V
  { V := V, d := d, e := e, c := c, c2 := c2, c3 := c3, s := s, s2 := s2, p := p }

/-- the indices of `range(m-1, l-1, -1)`: `m-1, m-2, …, l` -/
def downFrom (l m : Nat) : List Nat := (List.range' l (m - l)).reverse

/-- `for i in range(l+2, n): d[i] -= h` -/
def qlShiftBody (h : α) (d : Vec α) (i : Nat) : Vec α := setV d i (d i - h)

/-- state of `tql2` between statements of the `for l` loop -/
structure TQ (α : Type) where
  V : Mat α
  d : Vec α
  e : Vec α
  f : α
  tst1 : α
  log : List Nat
  /-- ghost: every sub-diagonal entry that `tql2` has replaced by `0.0` so far ("negligible":
  `fabs(e[m]) <= eps*tst1`), as `(value, j, V at that moment)` for the entry coupling `j` and
  `j+1`.  Not in the C code; theorem `tql2_decomposition` says what the result is exact for. -/
  drops : List (α × Nat × Mat α)

/-- one pass through the body of `while cont` (without the convergence test) -/
def qlSweep (hyp : α → α → α) (l m : Nat) (t : TQ α) : TQ α :=
  -- Compute implicit shift
  let g := t.d l
  let p := (t.d (l+1) - g) / (2 * t.e l)
  let r := hyp p 1
  let r := if p < 0 then -r else r
  let d := setV t.d l (t.e l / (p + r))
  let d := setV d (l+1) (t.e l * (p + r))
  let dl1 := d (l+1)
  let h := g - d l
  let d := (List.range' (l+2) (3 - (l+2))).foldl (qlShiftBody h) d
  let f := t.f + h
  -- Implicit QL transformation
  let q : QL α := { V := t.V, d := d, e := t.e, c := 1, c2 := 1, c3 := 1, s := 0, s2 := 0,
                    p := d m }
  let el1 := t.e (l+1)
  let q := (downFrom l m).foldl (qlRotBody hyp) q
  let p := -q.s * q.s2 * q.c3 * el1 * q.e l / dl1
  let e := setV q.e l (q.s * p)
  let d := setV q.d l (q.c * p)
  { t with V := q.V, d := d, e := e, f := f }

/-- `while cont:` with `fuel` sweeps allowed; `it` counts the sweeps done.
`cont = bool(fabs(e[l]) > eps*tst1)` -/
def qlIter (fabs : α → α) (hyp : α → α → α) (eps : α) (l m : Nat) :
    Nat → Nat → TQ α → Except Err (TQ α × Nat)
  | 0, _, _ => .error (.noConv l)
  | fuel+1, it, t =>
    let t := qlSweep hyp l m t
    if eps * t.tst1 < fabs (t.e l) then qlIter fabs hyp eps l m fuel (it+1) t
    else .ok (t, it+1)

/-- end of the body of `for l`: `d[l] += f; e[l] = 0.0` (and the path log) -/
def tqFinish (l m : Nat) (t : TQ α) (it : Nat) : TQ α :=
  { t with d := setV t.d l (t.d l + t.f), e := setV t.e l 0,
           log := t.log ++ [100000 + 10000*l + 1000*m + it],
           drops := (t.e l, l, t.V) :: t.drops }

/-- body of `for l in range(n)` -/
def tqStep (fabs : α → α) (hyp : α → α → α) (eps : α) (fuel : Nat) (t : TQ α) (l : Nat) :
    Except Err (TQ α) :=
  let tst1 := maxC t.tst1 (fabs (t.d l) + fabs (t.e l))
  let t := { t with tst1 := tst1 }
  let m := findM fabs eps tst1 t.e 3 l
  if 3 ≤ m then .error (.mOut l)
  else
    if l < m then
      -- the first sweep overwrites `e[m]` (found negligible) with `s*r = 0.0`
      let t := { t with drops := (t.e m, m, t.V) :: t.drops }
      match qlIter fabs hyp eps l m fuel 0 t with
      | .error err => .error err
      | .ok ti => .ok (tqFinish l m ti.1 ti.2)
    else .ok (tqFinish l m t 0)

/-- inner loop of the sort: `if d[j] < p: k = j; p = d[j]` -/
def sortInner (d : Vec α) (kp : Nat × α) (j : Nat) : Nat × α :=
  if d j < kp.2 then (j, d j) else kp

/-- `for j in range(n): p = V[j][i]; V[j][i] = V[j][k]; V[j][k] = p` -/
def sortSwapBody (i k : Nat) (V : Mat α) (j : Nat) : Mat α :=
  let p := V j i
  let V := setM V j i (V j k)
  setM V j k p

/-- body of `for i in range(n-1)` of "Sort eigenvalues and corresponding vectors" -/
def sortOuter (t : TQ α) (i : Nat) : TQ α :=
  let kp := (List.range' (i+1) (3 - (i+1))).foldl (sortInner t.d) (i, t.d i)
  let k := kp.1
  let p := kp.2
  if k != i then
    let d := setV t.d k (t.d i)
    let d := setV d i p
    { t with d := d, V := (List.range 3).foldl (sortSwapBody i k) t.V,
             log := t.log ++ [300 + 10*i + k] }
  else t

/-- the sort at the end of `tql2` -/
def sortEig (t : TQ α) : TQ α := (List.range 2).foldl sortOuter t

/-- `tql2(V, d, e)` before the final sort -/
def tql2Core (fabs : α → α) (hyp : α → α → α) (eps : α) (fuel : Nat) (s : St α) :
    Except Err (TQ α) :=
  let e := (List.range' 1 2).foldl tqShiftBody s.e
  let e := setV e 2 0
  let t : TQ α := { V := s.V, d := s.d, e := e, f := 0, tst1 := 0, log := s.log, drops := [] }
  (List.range 3).foldlM (tqStep fabs hyp eps fuel) t

/-- `tql2(V, d, e)`; `eps` is the literal `2.0**-52.0` -/
def tql2 (fabs : α → α) (hyp : α → α → α) (eps : α) (fuel : Nat) (s : St α) :
    Except Err (TQ α) :=
  match tql2Core fabs hyp eps fuel s with
  | .error err => .error err
  | .ok t => .ok (sortEig t)

/-! ## eigen_decomposition -/

/-- what `eigen_decomposition` / `get_eigenvalvec` hand back -/
structure Out (α : Type) where
  V : Mat α
  d : Vec α
  log : List Nat
  /-- ghost, see `TQ.drops` (values relative to the scaled matrix `A/s`) -/
  drops : List (α × Nat × Mat α) := []

/-- `V[i][j] = (i==j)` -/
def idMat : Mat α := Mat.ofFn (fun i j => if i = j then 1 else 0)

/-- `zero_matrix_case(V, d)`: `d[i] = 0.0; V[i][j] = (i==j)` -/
def zeroMatrixCase : Out α := { V := idMat, d := Vec.ofFn (fun _ => 0), log := [400] }

/-- `s += fabs(V[i][j])` in row-major order -/
def absSumBody (fabs : α → α) (s : α) (x : α) : α := s + fabs x

/-- `for i.. for j..: V[i][j] /= s` -/
def scaleMat (A : Mat α) (s : α) : Mat α := Mat.ofFn (fun i j => A i j / s)

/-- `for i in range(n): d[i] *= s` -/
def unscaleBody (s : α) (d : Vec α) (i : Nat) : Vec α := setV d i (d i * s)

/-- `eigen_decomposition(A, V, d)`.  `fuel` = QL sweeps allowed per eigenvalue. -/
def eigenDecomposition (fabs sqrt : α → α) (hyp : α → α → α) (eps : α) (fuel : Nat) (A : Mat α) :
    Except Err (Out α) :=
  let s := (Mat.toList A).foldl (absSumBody fabs) 0
  if s == 0 then .ok zeroMatrixCase
  else
    let V := scaleMat A s
    let st := tred2 fabs sqrt { V := V, d := Vec.ofFn (fun _ => 0), e := Vec.ofFn (fun _ => 0), log := [401] }
    match tql2 fabs hyp eps fuel st with
    | .error err => .error err
    | .ok t => .ok { V := t.V, d := (List.range 3).foldl (unscaleBody s) t.d, log := t.log,
                     drops := t.drops }

/-! ## get_eigenvalvec (arithmetic part) -/

/-- `SQR(a)` -/
def sqr (a : α) : α := a * a

/-- `_nearly_diagonal(A)`; `big` is the literal `1e8` -/
def nearlyDiagonal (big : α) (A : Mat α) : Bool :=
  decide (big * (sqr (A 0 1) + sqr (A 0 2) + sqr (A 1 2)) <
    sqr (A 0 0) + sqr (A 1 1) + sqr (A 2 2))

/-- the `use_iter` decision of `get_eigenvalvec` from the eigenvalue triple `ev` that
`get_eigenvalues` (trigonometric, not modelled) returned -/
def useIter (big : α) (A : Mat α) (ev : Vec α) : Bool :=
  let u := (ev 0 != ev 1) && (ev 1 != ev 2) && (ev 0 != ev 2)
  if nearlyDiagonal big A then true else u

/-- which way `get_eigenvalvec` went -/
inductive Path (α : Type) where
  /-- `A[0][1] == A[0][2] == A[1][2] == 0.0`: `e = diag A`, `R = I` -/
  | diag (o : Out α)
  /-- `eigen_decomposition(A, R, e)` -/
  | iter (r : Except Err (Out α))
  /-- `get_eigenvec_from_val(A, R, e)` (closed form with a numpy fallback): not modelled;
  the eigenvalues stay those of `get_eigenvalues` -/
  | closedForm (ev : Vec α)

/-- `get_eigenvalvec(A, R, e)` given what `get_eigenvalues(A, e)` wrote into `e` -/
def getEigenvalvec (fabs sqrt : α → α) (hyp : α → α → α) (eps big : α) (fuel : Nat) (A : Mat α)
    (ev : Vec α) : Path α :=
  if (A 0 1 == A 0 2) && (A 0 2 == A 1 2) && (A 1 2 == 0) then
    .diag { V := idMat, d := Vec.ofFn (fun i => A i i), log := [500] }
  else if useIter big A ev then .iter (eigenDecomposition fabs sqrt hyp eps fuel A)
  else .closedForm ev

/-! ## transform_diag_inv -/

/-- `res[i][j] += P[i][k]*A[k]*P[j][k]` -/
def tdiBody (A : Vec α) (P : Mat α) (i j : Nat) (r : α) (k : Nat) : α :=
  r + P i k * A k * P j k

/-- `transform_diag_inv(A, P, res)`: `res = P diag(A) Pᵀ` -/
def transformDiagInv (A : Vec α) (P : Mat α) : Mat α :=
  Mat.ofFn (fun i j => (List.range 3).foldl (tdiBody A P i j) 0)

end

end PysphVerif.Eigen3
