/-
Model of `pysph/solver/controller.py` (`CommandManager`, `Controller`) as a
small-step transition system at synchronisation-primitive granularity.
Core Lean only.

One step of thread `t` = "execute the primitive `t` is about to perform
(acquire / release / Condition.wait / re-acquire after a notify / notify /
notify_all / start of the next operation) and run on up to the next primitive".
The program counter of a thread therefore names its *pending* primitive; the
step is enabled iff that primitive can proceed.

Threads: tid 0 is the solver thread, looping
  `count += 1; CommandManager.execute_commands(solver)`;
tids ≥ 1 are interface threads running arbitrary lists of `Op`.

`Cfg` selects between the protocol as written in the pinned tree (`Cfg.orig`)
and the repaired one (`Cfg.fixed`, proposed_fixes/C18-controller-wakeups.diff):
* `waitPred`         – `wait()` loops on `ident in pause and ident not in paused`
                       (orig: one bare `plock.wait()`); the solver records the
                       honoured pause requests in `paused` under `plock`
* `contNested`       – `cont()` takes `qlock` while still holding `plock` (orig)
* `dispatchNotifies` – `dispatch` does `qlock.notify_all()` after queueing
* `runBeforeWait`    – `wait_for_cmd` runs the queued commands before
                       `qlock.wait()` (orig: after it)

Assumed behaviour of CPython's primitives (exercised by the cooperative
implementation in harness/c18.py): `Lock`, `Condition()` over an `RLock` that is
never re-entered here, `wait` = enqueue + release atomically, block, re-acquire;
`notify` wakes the oldest waiter, `notify_all` all of them.  `DummyComm`
(serial) for the MPI calls; `func_dict` empty.
-/
namespace PysphVerif.Controller

abbrev Tid := Nat

inductive Cmd
  | set (v : Int)      -- queued `set dt v`            (result `None`)
  | probe              -- queued solver method returning `solver.count`
  deriving DecidableEq, Repr

inductive Val
  | none
  | cnt (n : Nat)
  deriving DecidableEq, Repr

inductive Op
  | get | setNow (v : Int) | queue (c : Cmd) | getResult (k : Nat)
  | getMine (j : Nat)      -- get_result of the j-th task id this thread obtained
  | pause | wait | cont
  deriving DecidableEq, Repr

structure Cfg where
  waitPred : Bool
  contNested : Bool
  dispatchNotifies : Bool
  runBeforeWait : Bool
  deriving DecidableEq, Repr

def Cfg.orig : Cfg := ⟨false, true, false, false⟩
def Cfg.fixed : Cfg := ⟨true, false, true, true⟩

/-- which call of `run_queued_commands` the solver is in -/
inductive Ctx
  | first    -- from `execute_commands`
  | loop     -- inside the `while self.pause` loop of `wait_for_cmd`
  deriving DecidableEq, Repr

/-- solver thread: pending primitive -/
inductive SPc
  | start                                   -- next time step, then `execute_commands`
  | acqQ1                                   -- `with self.qlock:` in execute_commands
  | runAcqRes (ctx : Ctx) (id : Nat) (c : Cmd)   -- `with self.res_lock:` (id popped)
  | runRelC (ctx : Ctx) (id : Nat)          -- `self.queue_lock_map[lock_id].release()`
  | runRelRes (ctx : Ctx)                   -- leaving `with self.res_lock`
  | relQ1                                   -- leaving `with self.qlock` in execute_commands
  | acqQ2                                   -- `with self.qlock:` in wait_for_cmd
  | acqP | ntaP | relP                      -- `with self.plock: self.plock.notify_all()`
  | waitQ | blocked | reacqQ                -- `self.qlock.wait()`
  | relQ2                                   -- leaving wait_for_cmd
  | crashed                                 -- KeyError / RuntimeError in the solver thread
  deriving DecidableEq, Repr

/-- interface thread: pending primitive -/
inductive IPc
  | idle
  | gAcqD | gRelD (v : Int)
  | sAcqD (v : Int) | sRelD
  | qAcqD (c : Cmd) | qAcqC (c : Cmd) (id : Nat) | qAcqQ (c : Cmd) (id : Nat)
  | qNtaQ (id : Nat) | qRelQ (id : Nat) | qRelD (id : Nat)
  | rAcqC (k : Nat) | rAcqRes (k : Nat) | rRelRes (k : Nat) (r : Option Val)
  | rRelC (k : Nat) (r : Option Val)
  | pAcqP | pNtfP | pRelP
  | wAcqP | wWaitP | wBlocked | wReacqP | wRelP
  | cAcqP | cNtfP | cAcqQ | cNtaQ | cRelQ | cRelP (err : Bool)
  deriving DecidableEq, Repr

structure IThread where
  pc : IPc
  prog : List Op
  mine : List Nat := []     -- task ids returned to this thread by `dispatch`

structure State where
  dlock : Option Tid          -- the lock of `@synchronized dispatch`
  resLock : Option Tid
  qOwner : Option Tid
  pOwner : Option Tid
  qWaiting : Bool             -- the solver sits un-notified in qlock's wait set
  pWait : List Tid            -- un-notified waiters of plock, oldest first
  cLocked : List Nat          -- per-command locks currently held
  queue : List Nat
  qdict : List (Nat × Cmd)
  lockmap : List Nat          -- keys of queue_lock_map
  results : List (Nat × Val)
  pause : List Tid
  paused : List Tid           -- (repaired code) pause requests the solver honoured
  nextId : Nat
  dt : Int
  count : Nat
  spc : SPc
  th : Tid → IThread
  -- ghost history
  execLog : List (Nat × Nat × Val)  -- (command id, solver.count, result) in order of execution
  queuedLog : List Nat        -- ids in the order they were appended to `queue`
  delivered : List (Nat × Val)  -- what `get_result` returned, per id

inductive LockName
  | d | res | p | q | c (k : Nat)
  deriving DecidableEq, Repr

inductive Res
  | v (x : Int) | none | k (id : Nat) | d (n : Nat) | true | err | cp
  deriving DecidableEq, Repr

inductive Ev
  | acq (l : LockName) | rel (l : LockName) | wait (l : LockName) | reacq (l : LockName)
  | ntf (l : LockName) (woken : List Tid) | nta (l : LockName) (woken : List Tid)
  | start (op : Op) | done (r : Res) | progress
  deriving DecidableEq, Repr

def init (progs : Tid → List Op) : State :=
  { dlock := none, resLock := none, qOwner := none, pOwner := none,
    qWaiting := false, pWait := [], cLocked := [], queue := [], qdict := [],
    lockmap := [], results := [], pause := [], paused := [], nextId := 0,
    dt := 0, count := 0, spc := SPc.start,
    th := fun t => { pc := IPc.idle, prog := progs t, mine := [] },
    execLog := [], queuedLog := [], delivered := [] }

/-! ### small helpers -/

def setPc (s : State) (t : Tid) (pc : IPc) : State :=
  { s with th := fun j => if j = t then { s.th j with pc := pc } else s.th j }

def lookupCmd (l : List (Nat × Cmd)) (id : Nat) : Option Cmd :=
  (l.find? (fun e => e.1 = id)).map (·.2)

def lookupVal (l : List (Nat × Val)) (id : Nat) : Option Val :=
  (l.find? (fun e => e.1 = id)).map (·.2)

def addSet (l : List Tid) (t : Tid) : List Tid := if t ∈ l then l else l ++ [t]

def unionSet (a b : List Tid) : List Tid := b.foldl addSet a

/-- wake every waiter of `plock` (they must re-acquire it) -/
def wakeAllP (s : State) : State :=
  { s with pWait := [],
           th := fun j => if j ∈ s.pWait then { s.th j with pc := IPc.wReacqP } else s.th j }

/-- `plock.notify()`: wake the oldest waiter -/
def wakeOneP (s : State) : State × List Tid :=
  match s.pWait with
  | [] => (s, [])
  | w :: ws => (setPc { s with pWait := ws } w IPc.wReacqP, [w])

/-- `qlock.notify_all()`: only the solver ever waits on qlock -/
def wakeQ (s : State) : State × List Tid :=
  if s.qWaiting then ({ s with qWaiting := false, spc := SPc.reacqQ }, [0]) else (s, [])

/-- `while self.pause:` at the top of the loop in `wait_for_cmd` -/
def checkPause (s : State) : State :=
  if s.pause = [] then { s with spc := SPc.relQ2 } else { s with spc := SPc.acqP }

/-- what follows a drained queue -/
def afterRun (cfg : Cfg) (ctx : Ctx) (s : State) : State :=
  match ctx with
  | Ctx.first => { s with spc := SPc.relQ1 }
  | Ctx.loop => if cfg.runBeforeWait then { s with spc := SPc.waitQ } else checkPause s

/-- `run_queued_commands`: head of the `while self.queue:` loop -/
def runQueue (cfg : Cfg) (ctx : Ctx) (s : State) : State :=
  match s.queue with
  | [] => afterRun cfg ctx s
  | id :: rest =>
    match lookupCmd s.qdict id with
    | some c => { s with queue := rest, spc := SPc.runAcqRes ctx id c }
    | none => { s with spc := SPc.crashed }    -- KeyError ends the solver thread

/-- result of running a command when `solver.count = n` -/
def cmdVal (c : Cmd) (n : Nat) : Val :=
  match c with
  | Cmd.set _ => Val.none
  | Cmd.probe => Val.cnt n

/-- effect of running a command on `solver.dt` -/
def cmdDt (c : Cmd) (dt : Int) : Int :=
  match c with
  | Cmd.set v => v
  | Cmd.probe => dt

/-- the predicate of the repaired `wait()` -/
def mustWait (s : State) (t : Tid) : Bool := decide (t ∈ s.pause) && !decide (t ∈ s.paused)

/-! ### the solver thread -/

def stepSolver (cfg : Cfg) (s : State) : Option (State × List Ev) :=
  match s.spc with
  | SPc.start =>
    some ({ s with count := s.count + 1, spc := SPc.acqQ1 }, [Ev.progress])
  | SPc.acqQ1 =>
    if s.qOwner = none then
      some (runQueue cfg Ctx.first { s with qOwner := some 0 }, [Ev.acq LockName.q])
    else none
  | SPc.runAcqRes ctx id c =>
    if s.resLock = none then
      some ({ s with resLock := some 0,
                     execLog := s.execLog ++ [(id, s.count, cmdVal c s.count)],
                     qdict := s.qdict.filter (fun e => e.1 ≠ id),
                     dt := cmdDt c s.dt,
                     results := s.results ++ [(id, cmdVal c s.count)],
                     spc := SPc.runRelC ctx id }, [Ev.acq LockName.res])
    else none
  | SPc.runRelC ctx id =>
    if id ∈ s.cLocked ∧ id ∈ s.lockmap then
      some ({ s with cLocked := s.cLocked.filter (· ≠ id), spc := SPc.runRelRes ctx },
            [Ev.rel (LockName.c id)])
    else some ({ s with spc := SPc.crashed }, [])
  | SPc.runRelRes ctx =>
    some (runQueue cfg ctx { s with resLock := none }, [Ev.rel LockName.res])
  | SPc.relQ1 =>
    some ({ s with qOwner := none, spc := SPc.acqQ2 }, [Ev.rel LockName.q])
  | SPc.acqQ2 =>
    if s.qOwner = none then
      some (checkPause { s with qOwner := some 0 }, [Ev.acq LockName.q])
    else none
  | SPc.acqP =>
    if s.pOwner = none then
      some ({ s with pOwner := some 0,
                     paused := if cfg.waitPred then unionSet s.paused s.pause else s.paused,
                     spc := SPc.ntaP }, [Ev.acq LockName.p])
    else none
  | SPc.ntaP =>
    some ({ wakeAllP s with spc := SPc.relP }, [Ev.nta LockName.p s.pWait])
  | SPc.relP =>
    let s1 := { s with pOwner := none }
    some (if cfg.runBeforeWait then runQueue cfg Ctx.loop s1 else { s1 with spc := SPc.waitQ },
          [Ev.rel LockName.p])
  | SPc.waitQ =>
    some ({ s with qWaiting := true, qOwner := none, spc := SPc.blocked }, [Ev.wait LockName.q])
  | SPc.blocked => none
  | SPc.reacqQ =>
    if s.qOwner = none then
      let s1 := { s with qOwner := some 0 }
      some (if cfg.runBeforeWait then checkPause s1 else runQueue cfg Ctx.loop s1,
            [Ev.reacq LockName.q])
    else none
  | SPc.relQ2 =>
    some ({ s with qOwner := none, spc := SPc.start }, [Ev.rel LockName.q, Ev.done Res.cp])
  | SPc.crashed => none

/-! ### interface threads -/

def resOfVal : Option Val → Res
  | some Val.none => Res.none
  | some (Val.cnt n) => Res.d n
  | none => Res.err

/-- start of the next operation of thread `t` (code up to its first primitive) -/
def startOp (s : State) (t : Tid) (op : Op) (rest : List Op) : State × List Ev :=
  let s0 := { s with th := fun j => if j = t then { s.th j with prog := rest } else s.th j }
  match op with
  | Op.get => (setPc s0 t IPc.gAcqD, [Ev.start op])
  | Op.setNow v => (setPc s0 t (IPc.sAcqD v), [Ev.start op])
  | Op.queue c => (setPc s0 t (IPc.qAcqD c), [Ev.start op])
  | Op.getResult k =>
    if k ∈ s.lockmap then (setPc s0 t (IPc.rAcqC k), [Ev.start op])
    else (setPc s0 t IPc.idle, [Ev.start op, Ev.done Res.err])
  | Op.getMine j =>
    match (s.th t).mine[j]? with
    | some k =>
      if k ∈ s.lockmap then (setPc s0 t (IPc.rAcqC k), [Ev.start op])
      else (setPc s0 t IPc.idle, [Ev.start op, Ev.done Res.err])
    | none => (setPc s0 t IPc.idle, [Ev.start op, Ev.done Res.err])
  | Op.pause => (setPc s0 t IPc.pAcqP, [Ev.start op])
  | Op.wait => (setPc s0 t IPc.wAcqP, [Ev.start op])
  | Op.cont => (setPc s0 t IPc.cAcqP, [Ev.start op])

def stepIface (cfg : Cfg) (s : State) (t : Tid) : Option (State × List Ev) :=
  match (s.th t).pc with
  | IPc.idle =>
    match (s.th t).prog with
    | [] => none
    | op :: rest => some (startOp s t op rest)
  -- get: immediate dispatch under the dispatch lock
  | IPc.gAcqD =>
    if s.dlock = none then
      some (setPc { s with dlock := some t } t (IPc.gRelD s.dt), [Ev.acq LockName.d])
    else none
  | IPc.gRelD v =>
    some (setPc { s with dlock := none } t IPc.idle, [Ev.rel LockName.d, Ev.done (Res.v v)])
  -- set with block=True: immediate
  | IPc.sAcqD v =>
    if s.dlock = none then
      some (setPc { s with dlock := some t, dt := v } t IPc.sRelD, [Ev.acq LockName.d])
    else none
  | IPc.sRelD =>
    some (setPc { s with dlock := none } t IPc.idle, [Ev.rel LockName.d, Ev.done Res.none])
  -- queued command (block=False)
  | IPc.qAcqD c =>
    if s.dlock = none then
      some (setPc { s with dlock := some t, nextId := s.nextId + 1 } t (IPc.qAcqC c s.nextId),
            [Ev.acq LockName.d])
    else none
  | IPc.qAcqC c id =>
    some (setPc { s with cLocked := s.cLocked ++ [id] } t (IPc.qAcqQ c id),
          [Ev.acq (LockName.c id)])
  | IPc.qAcqQ c id =>
    if s.qOwner = none then
      some (setPc { s with qOwner := some t, lockmap := s.lockmap ++ [id],
                           qdict := s.qdict ++ [(id, c)], queue := s.queue ++ [id],
                           queuedLog := s.queuedLog ++ [id] } t
              (if cfg.dispatchNotifies then IPc.qNtaQ id else IPc.qRelQ id),
            [Ev.acq LockName.q])
    else none
  | IPc.qNtaQ id =>
    let (s1, w) := wakeQ s
    some (setPc s1 t (IPc.qRelQ id), [Ev.nta LockName.q w])
  | IPc.qRelQ id =>
    some (setPc { s with qOwner := none } t (IPc.qRelD id), [Ev.rel LockName.q])
  | IPc.qRelD id =>
    some ({ s with dlock := none,
                   th := fun j => if j = t then { s.th j with pc := IPc.idle,
                                                              mine := (s.th j).mine ++ [id] }
                                  else s.th j },
          [Ev.rel LockName.d, Ev.done (Res.k id)])
  -- get_result
  | IPc.rAcqC k =>
    if k ∈ s.cLocked then none
    else some (setPc { s with cLocked := s.cLocked ++ [k] } t (IPc.rAcqRes k),
               [Ev.acq (LockName.c k)])
  | IPc.rAcqRes k =>
    if s.resLock = none then
      match lookupVal s.results k with
      | some v =>
        some (setPc { s with resLock := some t,
                             results := s.results.filter (fun e => e.1 ≠ k),
                             lockmap := s.lockmap.filter (· ≠ k),
                             delivered := s.delivered ++ [(k, v)] } t
                (IPc.rRelRes k (some v)), [Ev.acq LockName.res])
      | none =>
        some (setPc { s with resLock := some t } t (IPc.rRelRes k none), [Ev.acq LockName.res])
    else none
  | IPc.rRelRes k r =>
    some (setPc { s with resLock := none } t (IPc.rRelC k r), [Ev.rel LockName.res])
  | IPc.rRelC k r =>
    some (setPc { s with cLocked := s.cLocked.filter (· ≠ k) } t IPc.idle,
          [Ev.rel (LockName.c k), Ev.done (resOfVal r)])
  -- pause_on_next
  | IPc.pAcqP =>
    if s.pOwner = none then
      some (setPc { s with pOwner := some t, pause := addSet s.pause t } t IPc.pNtfP,
            [Ev.acq LockName.p])
    else none
  | IPc.pNtfP =>
    let (s1, w) := wakeOneP s
    some (setPc s1 t IPc.pRelP, [Ev.ntf LockName.p w])
  | IPc.pRelP =>
    some (setPc { s with pOwner := none } t IPc.idle, [Ev.rel LockName.p, Ev.done Res.true])
  -- wait
  | IPc.wAcqP =>
    if s.pOwner = none then
      some (setPc { s with pOwner := some t } t
              (if cfg.waitPred then (if mustWait s t then IPc.wWaitP else IPc.wRelP)
               else IPc.wWaitP), [Ev.acq LockName.p])
    else none
  | IPc.wWaitP =>
    some (setPc { s with pWait := s.pWait ++ [t], pOwner := none } t IPc.wBlocked,
          [Ev.wait LockName.p])
  | IPc.wBlocked => none
  | IPc.wReacqP =>
    if s.pOwner = none then
      some (setPc { s with pOwner := some t } t
              (if cfg.waitPred then (if mustWait s t then IPc.wWaitP else IPc.wRelP)
               else IPc.wRelP), [Ev.reacq LockName.p])
    else none
  | IPc.wRelP =>
    some (setPc { s with pOwner := none } t IPc.idle, [Ev.rel LockName.p, Ev.done Res.true])
  -- cont
  | IPc.cAcqP =>
    if s.pOwner = none then
      if t ∈ s.pause then
        some (setPc { s with pOwner := some t, pause := s.pause.filter (· ≠ t),
                             paused := s.paused.filter (· ≠ t) } t IPc.cNtfP,
              [Ev.acq LockName.p])
      else some (setPc { s with pOwner := some t } t (IPc.cRelP true), [Ev.acq LockName.p])
    else none
  | IPc.cNtfP =>
    let (s1, w) := wakeOneP s
    some (setPc s1 t (if cfg.contNested then IPc.cAcqQ else IPc.cRelP false),
          [Ev.ntf LockName.p w])
  | IPc.cRelP err =>
    let s1 := { s with pOwner := none }
    if err then some (setPc s1 t IPc.idle, [Ev.rel LockName.p, Ev.done Res.err])
    else if cfg.contNested then some (setPc s1 t IPc.idle, [Ev.rel LockName.p, Ev.done Res.none])
    else some (setPc s1 t IPc.cAcqQ, [Ev.rel LockName.p])
  | IPc.cAcqQ =>
    if s.qOwner = none then
      some (setPc { s with qOwner := some t } t IPc.cNtaQ, [Ev.acq LockName.q])
    else none
  | IPc.cNtaQ =>
    let (s1, w) := wakeQ s
    some (setPc s1 t IPc.cRelQ, [Ev.nta LockName.q w])
  | IPc.cRelQ =>
    let s1 := { s with qOwner := none }
    if cfg.contNested then some (setPc s1 t (IPc.cRelP false), [Ev.rel LockName.q])
    else some (setPc s1 t IPc.idle, [Ev.rel LockName.q, Ev.done Res.none])

/-- one step of thread `t`; `none` = `t` is blocked or finished -/
def step (cfg : Cfg) (s : State) (t : Tid) : Option (State × List Ev) :=
  if t = 0 then stepSolver cfg s else stepIface cfg s t

def enabled (cfg : Cfg) (s : State) (t : Tid) : Bool := (step cfg s t).isSome

/-- run a schedule (list of thread ids); stops at the first entry that is not enabled -/
def run (cfg : Cfg) (s : State) : List Tid → State
  | [] => s
  | t :: ts =>
    match step cfg s t with
    | some (s', _) => run cfg s' ts
    | none => s

/-- the whole schedule is executable -/
def runs (cfg : Cfg) (s : State) : List Tid → Bool
  | [] => true
  | t :: ts =>
    match step cfg s t with
    | some (s', _) => runs cfg s' ts
    | none => false

/-- programs of `n` interface threads from a list -/
def progsOf (ps : List (List Op)) : Tid → List Op :=
  fun t => if t = 0 then [] else (ps.getD (t - 1) [])

end PysphVerif.Controller
