import PysphVerif.Model.Needs
/-
C20 — the three places of `IntegratorCythonHelper` that look at the `s_*`/`d_*`
arguments of a stepper method, transcribed separately (they are three separate
statements of pysph/sph/integrator_cython_helper.py and nothing in the code
forces them to agree):

  * the CHECK site   `self._check_arrays_for_properties(dest, s | d)`
                     (get_array_declarations; `Needs.checkStepperMethod`)
  * the DECLARATION  `arrays.update(s | d)` … `known_types[arr].type`
    site             (get_array_declarations; a name that is no key of
                     `known_types` is a bare KeyError in the middle of the
                     template)
  * the BINDING site `'%s = dst.%s.data' % (n, n[2:]) for n in sorted(s | d)`
                     (get_array_setup: the pointer the generated `stageN` takes)

and pysph/sph/acceleration_eval_cython_helper.py : get_all_array_names,
get_known_types_for_arrays (the keys of `known_types`).

Core Lean only.
-/
namespace PysphVerif.Needs

/-- keys of `AccelerationEvalCythonHelper.known_types` after `__init__`:
`result['s_' + arr]`, `result['d_' + arr]` for every property and constant of
every particle array (`get_all_array_names` + `get_known_types_for_arrays`) -/
def knownTypes (arrs : List PArr) : List Name :=
  arrs.flatMap (fun a => a.props.flatMap (fun p => ["s_" ++ p, "d_" ++ p]))

/-- `s | d` of `get_array_names(args)` (the names themselves, not stripped) -/
def stepperArrNames (args : List Name) : List Name :=
  args.filter (fun x => isSrcArr x || isDstArr x)

/-- `sorted(arrays)` of `get_array_declarations(method)`:
`for dest in steppers: arrays.update(s | d)` -/
def stepperDeclNames (sts : List Stepper) (m : Name) : List Name :=
  sortNames ((sts.flatMap (fun st => stepperArrNames (st.args m))).eraseDups)

/-- what `get_array_declarations(method)` does -/
inductive DeclOutcome where
  /-- `_check_arrays_for_properties` raised the RuntimeError -/
  | error (v : SVerdict)
  /-- `known_types[arr]` raised KeyError -/
  | keyError (n : Name)
  /-- the `cdef <type> <arr>` lines, by name -/
  | decl (names : List Name)
  deriving Repr

/-- `get_array_declarations(method)`: the check of every stepper comes first
(inside the loop that collects the names), then the look-ups in `known_types` -/
def stepperDecl (arrs : List PArr) (sts : List Stepper) (m : Name) : DeclOutcome :=
  match checkStepperDecl arrs sts m with
  | SVerdict.ok =>
    (match (stepperDeclNames sts m).find? (fun n => !(knownTypes arrs).contains n) with
     | some n => DeclOutcome.keyError n
     | none => DeclOutcome.decl (stepperDeclNames sts m))
  | v => DeclOutcome.error v

/-- `get_array_setup(dest, method)`: the names `n` of the lines
`n = dst.<n[2:]>.data` (source-style names are bound to the array being stepped
as well) -/
def stepperSetupNames (st : Stepper) (m : Name) : List Name :=
  sortNames ((stepperArrNames (st.args m)).eraseDups)

/-- `(array, variable, property)` of every pointer the generated integrator
takes: `dst = self.<dest>` … `<variable> = dst.<property>.data` -/
def stepperBindings (sts : List Stepper) : List (Name × Name × Name) :=
  sts.flatMap (fun st =>
    (wrapperNames sts).flatMap (fun m =>
      (stepperSetupNames st m).map (fun n => (st.dest, n, strip n))))

end PysphVerif.Needs
