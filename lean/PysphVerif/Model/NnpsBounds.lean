import PysphVerif.Model.Nnps
import PysphVerif.Model.NnpsStore
/-
C01 — the padded bounds of the binning grid and the number of cells.

Transcribes
  pysph/base/nnps_base.pyx : NNPS._compute_bounds (min / max over the non-empty
      arrays starting from 1e100 / -1e100, the "no particles at all" reset, the
      1 % padding `xmin -= lx*0.01; xmax += lx*0.01`, the half-cell padding of a
      cloud without extent, `self.xmin / self.xmax`)
  pysph/base/linked_list_nnps.pyx : LinkedListNNPS._get_number_of_cells
      (`ncx = <int>ceil(cell_size1*(xmax - xmin))`, 0 replaced by 1), used by
      LinkedListNNPS and BoxSortNNPS
  pysph/base/nnps_base.pxd : real_to_int / find_cell_id (cell of a particle
      relative to `xmin`: `floor((x - xmin)/cell_size)`, `cellOf` of Model/Nnps)

Polymorphic in the number type: *run* at `Float` (same operations in the same
order as the compiled code, so `xmin / xmax` must agree bit for bit with what
the real NNPS object exposes, and the cell of every particle is the cell the
compiled code computes) and *reasoned about* over a linearly ordered field.
`floor` and `ceil` are parameters.  Core Lean only.
-/
namespace PysphVerif.Nnps

section
variable {α : Type} [Add α] [Sub α] [Mul α] [Div α] [LT α] [DecidableLT α]
  [OfNat α 0] [OfNat α 1] [Neg α]

/-- C `fmin(a, b)` (no NaN); `fmaxA` is in Model/NnpsStore -/
def fminA (a b : α) : α := if b < a then b else a

/-- one array's column in the loop of `_compute_bounds` for one axis:
`xmax = fmax(x.maximum, xmax); xmin = fmin(x.minimum, xmin)`; an empty array is skipped -/
def boundsStep (acc : α × α) (col : List α) : α × α :=
  match col with
  | [] => acc
  | _ :: _ => (fminA (carrayMin col) acc.1, fmaxA (carrayMax col) acc.2)

/-- (min, max) of one axis over all arrays, starting from `(big, -big)` (`big` = 1e100) -/
def rawAxis (big : α) (cols : List (List α)) : α × α := cols.foldl boundsStep (big, -big)

/-- `lx = xmax - xmin; xmin -= lx*pad; xmax += lx*pad` (`pad` = 0.01) -/
def padAxis (pad : α) (r : α × α) : α × α :=
  (r.1 - (r.2 - r.1) * pad, r.2 + (r.2 - r.1) * pad)

/-- the same with only the lower limit moved (the upper padding left out): NOT what the code
does; kept to state why the upper padding is needed (`Props/C01.lean: upper_pad_necessary`) -/
def padAxisLowerOnly (pad : α) (r : α × α) : α × α :=
  (r.1 - (r.2 - r.1) * pad, r.2)

/-- `fabs(xmax - xmin) < _eps` -/
def tinyAxis (eps : α) (r : α × α) : Bool := decide (absA (r.2 - r.1) < eps)

/-- `xmin -= _pad; xmax += _pad` -/
def widenAxis (w : α) (r : α × α) : α × α := (r.1 - w, r.2 + w)

/-- `self.xmin`, `self.xmax` as three (lo, hi) pairs -/
structure Bounds (α : Type) where
  x : α × α
  y : α × α
  z : α × α

/-- the limits before the padding: raw min / max, all zero when `xmax < xmin`
("no particles at all"; the code tests the x axis only) -/
def rawBounds (big : α) (xs ys zs : List (List α)) : Bounds α :=
  let rx := rawAxis big xs
  if rx.2 < rx.1 then { x := (0, 0), y := (0, 0), z := (0, 0) }
  else { x := rx, y := rawAxis big ys, z := rawAxis big zs }

/-- the tail of `_compute_bounds` from padded limits on: a cloud whose three padded extents are
all below `eps` (= 1e-12) gets half a cell (`half` = 0.5) on every side -/
def finishBounds (eps half cs : α) (b : Bounds α) : Bounds α :=
  if tinyAxis eps b.x && tinyAxis eps b.y && tinyAxis eps b.z then
    { x := widenAxis (half * cs) b.x, y := widenAxis (half * cs) b.y,
      z := widenAxis (half * cs) b.z }
  else b

/-- `NNPS._compute_bounds`; `xs ys zs` hold one column per particle array -/
def computeBounds (big pad eps half cs : α) (xs ys zs : List (List α)) : Bounds α :=
  let r := rawBounds big xs ys zs
  finishBounds eps half cs { x := padAxis pad r.x, y := padAxis pad r.y, z := padAxis pad r.z }

/-- the variant without the upper padding (not the code; see `padAxisLowerOnly`) -/
def computeBoundsLowerOnly (big pad eps half cs : α) (xs ys zs : List (List α)) : Bounds α :=
  let r := rawBounds big xs ys zs
  finishBounds eps half cs
    { x := padAxisLowerOnly pad r.x, y := padAxisLowerOnly pad r.y, z := padAxisLowerOnly pad r.z }

/-- one axis of `_get_number_of_cells`: `ncx = <int>ceil(cell_size1*(xmax - xmin))` with
`cell_size1 = 1./cell_size`, then `ncx = 1 if ncx == 0 else ncx` (a negative count makes the
code raise; here it stays negative, so no cell is valid) -/
def ncAxis (ceil : α → Int) (cs : α) (r : α × α) : Int :=
  let n := ceil ((1 / cs) * (r.2 - r.1))
  if n = 0 then 1 else n

/-- `ncells_per_dim` -/
def ncells (ceil : α → Int) (cs : α) (b : Bounds α) : Nat × Nat × Nat :=
  ((ncAxis ceil cs b.x).toNat, (ncAxis ceil cs b.y).toNat, (ncAxis ceil cs b.z).toNat)

/-- the origin `xmin` of the binning grid as a point -/
def Bounds.origin (b : Bounds α) : Pt α := { x := b.x.1, y := b.y.1, z := b.z.1, h := 0 }

/-- columns of one coordinate, one per array -/
def colsOf (f : Pt α → α) (arrs : List (List (Pt α))) : List (List α) := arrs.map (fun a => a.map f)

/-- `_compute_bounds` of a list of particle arrays -/
def boundsOf (big pad eps half cs : α) (arrs : List (List (Pt α))) : Bounds α :=
  computeBounds big pad eps half cs (colsOf (·.x) arrs) (colsOf (·.y) arrs) (colsOf (·.z) arrs)

def boundsOfLowerOnly (big pad eps half cs : α) (arrs : List (List (Pt α))) : Bounds α :=
  computeBoundsLowerOnly big pad eps half cs (colsOf (·.x) arrs) (colsOf (·.y) arrs)
    (colsOf (·.z) arrs)

/-- every particle of every array is binned into a valid cell of the LinkedList / BoxSort box
(executable; run by the driver at `Float` on every state of every run) -/
def allValid (fl ceil : α → Int) (cs : α) (b : Bounds α) (arrs : List (List (Pt α))) : Bool :=
  arrs.all (fun a => a.all (fun p => isValidCell (ncells ceil cs b) (cell3 fl cs b.origin p)))

end

end PysphVerif.Nnps
