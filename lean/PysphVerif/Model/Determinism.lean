/-
# Determinism model for C05 (core Lean only)

What is modelled (pysph/sph/acceleration_eval_cython.mako, `do_group`):

```
nnps.set_context(src_array_index, dst_array_index)
with nogil, parallel():                      # or serial when OpenMP is off
    thread_id = threadid()
    for d_idx in prange(NP_DEST, schedule=...):          # one thread per d_idx
        nnps.get_nearest_neighbors(d_idx, self.nbrs[thread_id])
        for nbr_idx in range(N_NBRS):
            s_idx = NBRS[nbr_idx]
            <loop bodies of the equations: write d_*[d_idx], read d_*[d_idx], s_*[s_idx]>
```

* the state is one row per particle (all arrays of the loop concatenated);
* one micro-step `Op ⟨dst, src⟩` is one execution of the loop bodies: row `dst`
  absorbs row `src` through the pair function `f` (live read of the source row:
  the model does NOT assume that sources are frozen, that is a hypothesis of the
  theorems - the "own-row discipline" extracted from the equation sources);
* a thread's program is, for each destination it was handed (in the order it
  was handed them), the neighbour list of that destination in list order;
* a schedule is any assignment of destinations to threads (`parts`) and any
  interleaving (`sched`, a list of thread ids: who makes the next micro-step;
  ids of finished or non-existent threads are skipped; when the list is
  exhausted the remaining programs run to completion) - so EVERY `List Nat` is a
  schedule and the theorems quantify over all of them;
* `sortNbrs` is `NNPS._sort_neighbors` (nnps_base.pyx): sort the neighbour ids
  by their key (gid, or the id itself in serial runs with invalid gids);
* `gather` is `NNPS.spatially_order_particles`: `new[k] = old[indices[k]]` for
  every property (`c_align_array`).

Assumed, exercised by the tie (harness/c05.py): the generated loop performs
exactly these micro-steps (bit-exact comparison at Float of a non-commutative
fold under random partitions/interleavings against the compiled OpenMP code);
OpenMP's memory model and the absence of data races between *different* rows
are outside the model.
-/
namespace PysphVerif.Determinism

/-- one execution of the loop bodies: destination row `dst` absorbs source row `src` -/
structure Op where
  dst : Nat
  src : Nat
deriving Repr, DecidableEq, BEq

section generic
variable {ρ : Type}

/-- the effect of one micro-step on the state (an out-of-range source is a no-op) -/
def applyOp (f : ρ → ρ → ρ) (st : List ρ) (op : Op) : List ρ :=
  match st[op.src]? with
  | none => st
  | some s => st.modify op.dst (fun r => f r s)

/-- run a sequence of micro-steps -/
def run (f : ρ → ρ → ρ) (ops : List Op) (st : List ρ) : List ρ :=
  ops.foldl (applyOp f) st

/-- the micro-steps of one destination: its neighbour list, in list order -/
def rowOps (nb : Nat → List Nat) (i : Nat) : List Op :=
  (nb i).map (fun j => Op.mk i j)

/-- the program of one thread: the destinations it was handed, in that order -/
def threadProg (nb : Nat → List Nat) (dests : List Nat) : List Op :=
  dests.flatMap (rowOps nb)

/-- take the next micro-step of thread `t`, if it has one -/
def popThread : List (List Op) → Nat → Option (Op × List (List Op))
  | [], _ => none
  | [] :: _, 0 => none
  | (op :: rest) :: ps, 0 => some (op, rest :: ps)
  | p :: ps, t + 1 =>
    match popThread ps t with
    | none => none
    | some (op, ps') => some (op, p :: ps')

/-- the global order of micro-steps produced by a schedule -/
def interleave : List (List Op) → List Nat → List Op
  | progs, [] => progs.flatten
  | progs, t :: sched =>
    match popThread progs t with
    | none => interleave progs sched
    | some (op, progs') => op :: interleave progs' sched

/-- one parallel loop under a schedule -/
def runLoop (f : ρ → ρ → ρ) (nb : Nat → List Nat) (parts : List (List Nat))
    (sched : List Nat) (st : List ρ) : List ρ :=
  run f (interleave (parts.map (threadProg nb)) sched) st

/-- absorb source `j`, read from the snapshot `st` -/
def absorb (f : ρ → ρ → ρ) (st : List ρ) (acc : ρ) (j : Nat) : ρ :=
  match st[j]? with
  | some s => f acc s
  | none => acc

/-- reference value of one row: fold over its neighbour list reading the snapshot -/
def evalRow (f : ρ → ρ → ρ) (st : List ρ) (r : ρ) (nbrs : List Nat) : ρ :=
  nbrs.foldl (absorb f st) r

/-- body of `evalAll` -/
def evalAt (f : ρ → ρ → ρ) (nb : Nat → List Nat) (dests : List Nat) (st : List ρ)
    (i : Nat) (r : ρ) : ρ :=
  if i ∈ dests then evalRow f st r (nb i) else r

/-- sequential reference semantics of one loop: every destination row becomes the fold
over its neighbours, all reads from the state before the loop -/
def evalAll (f : ρ → ρ → ρ) (nb : Nat → List Nat) (dests : List Nat) (st : List ρ) : List ρ :=
  st.mapIdx (evalAt f nb dests st)

/-- `c_align_array(indices)`: `new[k] = old[indices[k]]` -/
def gather (idx : List Nat) (st : List ρ) : List ρ :=
  idx.filterMap (fun j => st[j]?)

end generic

/-- comparison used by `_sort_neighbors` -/
def keyLe (key : Nat → Nat) (a b : Nat) : Bool := decide (key a ≤ key b)

/-- `NNPS._sort_neighbors`: neighbour ids ordered by their key -/
def sortNbrs (key : Nat → Nat) (l : List Nat) : List Nat :=
  l.mergeSort (keyLe key)

/-! ## the concrete pair function used by the tie (harness/c05.py `C05Fold`) -/

/-- the properties the tie equation touches -/
structure Row (α : Type) where
  x : α
  y : α
  m : α
  acc : α
  cnt : Nat
deriving Repr

/-- `d_acc[d_idx] = 0.75*d_acc[d_idx] + s_m[s_idx]*(d_x[d_idx] - s_x[s_idx]) + s_y[s_idx]`,
`d_cnt[d_idx] += 1` (`c` is the constant 0.75) -/
def foldPair {α : Type} [Add α] [Mul α] [Sub α] (c : α) (r s : Row α) : Row α :=
  { r with acc := c * r.acc + s.m * (r.x - s.x) + s.y, cnt := r.cnt + 1 }

/-- what other rows may read of a row -/
def Row.rd {α : Type} (r : Row α) : α × α × α := (r.x, r.y, r.m)

/-- `initialize`: `d_acc[d_idx] = 0`, `d_cnt[d_idx] = 0` -/
def initRow {α : Type} (zero : α) (r : Row α) : Row α := { r with acc := zero, cnt := 0 }

/-! ## the syntactic own-row discipline, checked on the read/write sets that
`translate/c05_rw_sets.py` extracts from the equation sources

Properties and equations are numbered by the translator (names in comments of the
generated file).  A hook is one of the per-particle methods that the generated
code runs inside a `prange` over `d_idx`: `initialize`, `initialize_pair`,
`loop_all`, `loop`, `post_loop`. -/

structure HookRW where
  /-- 0 initialize, 1 initialize_pair, 2 loop_all, 3 loop, 4 post_loop -/
  hook : Nat
  /-- destination properties written at the own row (`[d_idx]`, or within the strided row) -/
  dWritesOwn : List Nat
  /-- destination properties written at any other (or an unrecognised) index -/
  dWritesOther : List Nat
  /-- source properties written -/
  sWrites : List Nat
  /-- source properties read -/
  sReads : List Nat
  /-- destination properties read at an index other than the own row -/
  dReadsOther : List Nat
  /-- particle arrays handed to a helper function (access unknown) -/
  escapes : List Nat

structure EqRW where
  eqId : Nat
  hooks : List HookRW

def disjointIds (a b : List Nat) : Bool := a.all (fun x => !b.contains x)

/-- the rule: writes go to the own row only; sources are never written; nothing
escapes; and no property written by the hook is read by the same hook from the
source array or from another destination row (destination and source may be the
same array, and other rows are being written concurrently by other threads) -/
def hookOk (h : HookRW) : Bool :=
  h.dWritesOther.isEmpty && h.sWrites.isEmpty && h.escapes.isEmpty &&
    disjointIds h.dWritesOwn h.sReads && disjointIds h.dWritesOwn h.dReadsOther

def eqOk (e : EqRW) : Bool := e.hooks.all hookOk

/-! ## a simulation: a sequence of parallel loops, each under its own configuration -/

/-- what may differ between two runs of the same loop: the neighbour lists the search
returned (`--nnps`, `--cache-nnps`), the hand-out of destinations to threads and the
interleaving (`--openmp`, thread count, OpenMP schedule, timing) -/
structure LoopCfg where
  nb : Nat → List Nat
  parts : List (List Nat)
  sched : List Nat

/-- run the loops one after the other (there is a barrier between parallel regions),
neighbours sorted by `key` -/
def runStages {ρ : Type} (key : Nat → Nat) : List ((ρ → ρ → ρ) × LoopCfg) → List ρ → List ρ
  | [], st => st
  | (f, c) :: rest, st =>
    runStages key rest (runLoop f (fun i => sortNbrs key (c.nb i)) c.parts c.sched st)

end PysphVerif.Determinism
