import PysphVerif.Model.NnpsStore
/-
C01 — the z-order family: ZOrderNNPS and ExtendedZOrderNNPS as they are in the tree now
(after the `fix:` commits 78cc8ac, cd2123b, 9f1b77c, b39ea2d, 3f6db30).

Transcribes
  pysph/base/z_order.h : get_key (= `mortonKey` of Model/NnpsStore.lean), CompareSortWrapper
  pysph/base/z_order_nnps.pyx :
    ZOrderNNPS.fill_array          (sorted pids / keys, key_to_idx, the cell-id numbering shared by
                                    all arrays)
    ZOrderNNPS.get_idx, _neighbor_boxes
    ZOrderNNPS._fill_nbr_boxes     (first pass over the cells the array occupies, `lengths`, second
                                    pass over the cells only OTHER arrays occupy)
    ZOrderNNPS.find_nearest_neighbors (walk over the row `nbr_boxes[mask_len*cid ..]`, stop at
                                    the first negative entry, walk the run of each start index)
    ExtendedZOrderNNPS._neighbor_boxes_asym / _neighbor_boxes_sym / _cell_hmax /
                                    _fill_nbr_boxes (per-cid `hmax`)

A particle array enters as `ZIn`: its length, the integer cell of every particle
(`find_cell_id_raw(x - xmin, h_sub)`), and `pids`, the particle ids in the order
`compare_sort` left them (any permutation sorted by key: `std::sort` is not stable; the theorems
hold for every such order, `sortPids` is the one the executable model uses).

C arrays indexed by a key or a cell id are functions here; an array write is a functional update.
Core Lean only.
-/
namespace PysphVerif.Nnps

/-- `get_key(c_x, c_y, c_z)`; the `int` arguments are converted to `uint64_t` (they are
non-negative wherever the code calls it) -/
def zKey (c : Cell) : Nat := mortonKey c.1.toNat c.2.1.toNat c.2.2.toNat

/-- the decidable guard of the theorems: the cell coordinates are non-negative and below 2^21
(`get_key` keeps 21 bits per coordinate) -/
def cellFits21 (c : Cell) : Bool :=
  decide (0 ≤ c.1) && decide (c.1 < 2 ^ 21) && decide (0 ≤ c.2.1) && decide (c.2.1 < 2 ^ 21) &&
    decide (0 ≤ c.2.2) && decide (c.2.2 < 2 ^ 21)

/-- … for a particle's cell: with `H` to spare, so that every mask cell around it fits as well
(`H = 1` for ZOrderNNPS) -/
def cellGuard (H : Nat) (c : Cell) : Bool :=
  decide (0 ≤ c.1) && decide (c.1 + (H : Int) < 2 ^ 21) && decide (0 ≤ c.2.1) &&
    decide (c.2.1 + (H : Int) < 2 ^ 21) && decide (0 ≤ c.2.2) && decide (c.2.2 + (H : Int) < 2 ^ 21)

/-! ## `compare_sort` -/

def insertPid (key : Nat → Nat) (p : Nat) : List Nat → List Nat
  | [] => [p]
  | a :: as => if key p ≤ key a then p :: a :: as else a :: insertPid key p as

/-- one admissible result of `sort(current_pids, …, keys[a] < keys[b])`: insertion sort (core Lean
`mergeSort` does not reduce in the kernel) -/
def sortPids (key : Nat → Nat) (n : Nat) : List Nat := (List.range n).foldr (insertPid key) []

/-- one particle array as `fill_array` sees it after `compare_sort` -/
structure ZIn where
  n : Nat
  cellAt : Nat → Cell
  pids : List Nat

/-- the same after `fill_array`: `tab` holds `(key, found_cid)` for every run start of the sorted
keys, in order (`found_cid` is carried through the run by the loop, so
`current_cids[pid] = found_cid` of the run the particle's key belongs to) -/
structure ZArr where
  n : Nat
  cellAt : Nat → Cell
  pids : List Nat
  /-- `current_keys` after the second `sort`: the keys in the order of the sorted pids -/
  keys : List Nat
  tab : List (Nat × Nat)

/-- keys at the positions `i = 0` or `keys[i] != keys[i-1]` -/
def runKeysAux : Nat → List Nat → List Nat
  | _, [] => []
  | prev, k :: ks => if k = prev then runKeysAux prev ks else k :: runKeysAux k ks

def runKeys : List Nat → List Nat
  | [] => []
  | k :: ks => k :: runKeysAux k ks

def tabLookup (k : Nat) : List (Nat × Nat) → Option Nat
  | [] => none
  | e :: es => if e.1 = k then some e.2 else tabLookup k es

/-- `current_key_to_idx[key]`: the loop writes `i` at every run start of the sorted keys, the
array is initialised to -1 (`none`); for sorted keys that is the first position of the key -/
def firstIdx (K : List Nat) (k : Nat) : Option Nat := if k ∈ K then some (K.idxOf k) else none

def ZArr.key (a : ZArr) (p : Nat) : Nat := zKey (a.cellAt p)
/-- `current_cids[pid]` -/
def ZArr.cids (a : ZArr) (p : Nat) : Nat := (tabLookup (a.key p) a.tab).getD 0
def ZArr.keyToIdx (a : ZArr) (k : Nat) : Option Nat := firstIdx a.keys k
/-- `get_idx`: `-1 if key >= self.max_key else key_to_idx[key]` -/
def ZArr.getIdx (maxKey : Nat) (a : ZArr) (k : Nat) : Option Nat :=
  if maxKey ≤ k then none else a.keyToIdx k

/-- the body of the `for j in range(pa_index)` search of `fill_array` for one earlier array:
`found_idx = iter_key_to_idx[key]; if found_idx != -1: pid = iter_pids[found_idx];
found_cid = iter_cids[pid]` -/
def ZArr.cidOfKey (a : ZArr) (k : Nat) : Option Nat :=
  match a.keyToIdx k with
  | some i => some (a.cids (a.pids.getD i 0))
  | none => none

/-- the search over the earlier arrays in order, `break` at the first hit -/
def lookPrev : List ZArr → Nat → Option Nat
  | [], _ => none
  | a :: as, k =>
    match a.cidOfKey k with
    | some c => some c
    | none => lookPrev as k

/-- one run start: reuse the cell id an earlier array gave this key, else take `curr_cid` and
increment it -/
def cidStep (prev : List ZArr) (st : List (Nat × Nat) × Nat) (k : Nat) : List (Nat × Nat) × Nat :=
  match lookPrev prev k with
  | some c => (st.1 ++ [(k, c)], st.2)
  | none => (st.1 ++ [(k, st.2)], st.2 + 1)

/-- `fill_array(pa_wrapper, pa_index, …, curr_cid)`: returns the array's tables and the new
`curr_cid` (an empty array adds nothing) -/
def zFill (prev : List ZArr) (cur : Nat) (inp : ZIn) : ZArr × Nat :=
  let r := (runKeys (inp.pids.map (fun p => zKey (inp.cellAt p)))).foldl (cidStep prev) ([], cur)
  ({ n := inp.n, cellAt := inp.cellAt, pids := inp.pids,
     keys := inp.pids.map (fun p => zKey (inp.cellAt p)), tab := r.1 }, r.2)

def zBuildStep (st : List ZArr × Nat) (inp : ZIn) : List ZArr × Nat :=
  (st.1 ++ [(zFill st.1 st.2 inp).1], (zFill st.1 st.2 inp).2)

/-- the first loop of `_refresh`: `max_cid = self.fill_array(…, i, …, max_cid)` for every array -/
def zBuild (ins : List ZIn) : List ZArr × Nat := ins.foldl zBuildStep ([], 0)

/-! ## `_neighbor_boxes` -/

/-- the mask of `ExtendedZOrderNNPS._neighbor_boxes_*`: `s` (z shift) outermost, `u` (x shift)
innermost, each over `range(-H, H+1)`; `maskZ 1` is the loop nest of `ZOrderNNPS._neighbor_boxes` -/
def maskZ (H : Nat) : List Cell :=
  (maskRange H).flatMap (fun s => (maskRange H).flatMap (fun t => (maskRange H).map (fun u => (u, t, s))))

/-- `_neighbor_boxes(i, j, k, current_key_to_idx, …, found_indices)`: for every mask entry with
non-negative coordinates, the start index of the box's run in the sorted arrays of `a`, when `a`
has the box -/
def zNbrIdx (maxKey : Nat) (mask : List Cell) (a : ZArr) (c : Cell) : List Int :=
  ((mask.map (Cell.add c)).filter nonnegCell).filterMap
    (fun b => (a.getIdx maxKey (zKey b)).map Int.ofNat)

/-! ## `_fill_nbr_boxes` -/

/-- the writes `current_nbr_boxes[mask_len*cid + k] = found_indices[k]` of one walk over the
sorted positions of array `b`: at every run start whose key is not skipped, the boxes found for
the cell of the particle at that position go to the row of that particle's cell id.
Pass 1: `b` is the source array itself, nothing skipped.  Pass 2: `b` is another array, keys the
source array has (`current_key_to_idx[key] != -1`) are skipped. -/
def zWrites (b : ZArr) (skip : Nat → Bool) (nbrOf : Cell → Nat → List Int) :
    Option Nat → List Nat → List (Nat × List Int)
  | _, [] => []
  | prev, p :: ps =>
    if prev = some (b.key p) then zWrites b skip nbrOf (some (b.key p)) ps
    else if skip (b.key p) then zWrites b skip nbrOf (some (b.key p)) ps
    else (b.cids p, nbrOf (b.cellAt p) (b.cids p)) :: zWrites b skip nbrOf (some (b.key p)) ps

/-- `current_lengths[cid] += 1` at every position that is not a run start -/
def zLens (a : ZArr) : Option Nat → List Nat → (Nat → Nat) → (Nat → Nat)
  | _, [], l => l
  | prev, p :: ps, l =>
    if prev = some (a.key p) then
      zLens a (some (a.key p)) ps (fun c => if c = a.cids p then l c + 1 else l c)
    else zLens a (some (a.key p)) ps l

/-- `for j in range(self.mask_len * self.max_cid): current_nbr_boxes[j] = -1` -/
def rowInit (maskLen : Nat) : List Int := List.replicate maskLen (-1)

/-- writing `found_indices[0 .. num_boxes)` at the start of row `cid` -/
def writeRow (rows : Nat → List Int) (w : Nat × List Int) : Nat → List Int :=
  fun c => if c = w.1 then w.2 ++ (rows c).drop w.2.length else rows c

/-- all writes of `_fill_nbr_boxes` for source array `s`, in order -/
def zAllWrites (zs : List ZArr) (s : Nat) (a : ZArr) (nbrOf : Cell → Nat → List Int) :
    List (Nat × List Int) :=
  zWrites a (fun _ => false) nbrOf none a.pids ++
    ((List.range zs.length).filter (fun d => d ≠ s)).flatMap (fun d =>
      match zs[d]? with
      | some o => zWrites o (fun k => (a.keyToIdx k).isSome) nbrOf none o.pids
      | none => [])

/-- `nbr_boxes[s]` after `_fill_nbr_boxes` (`if num_particles == 0: continue` leaves an empty
array's rows at -1) -/
def zRows (maskLen : Nat) (zs : List ZArr) (s : Nat) (a : ZArr) (nbrOf : Cell → Nat → List Int) :
    Nat → List Int :=
  if a.pids.isEmpty then fun _ => rowInit maskLen
  else (zAllWrites zs s a nbrOf).foldl writeRow (fun _ => rowInit maskLen)

/-- `lengths[s]`: initialised to 1 -/
def zLengths (a : ZArr) : Nat → Nat := zLens a none a.pids (fun _ => 1)

/-! ## `find_nearest_neighbors` -/

/-- the inner loop for one start index: `idx = current_pids[start_idx]`,
`cid_nbr = current_cids_src[idx]`, `length = current_lengths[cid_nbr]`, then
`current_pids[start_idx + j]` for `j < length` -/
def zRun (a : ZArr) (lens : Nat → Nat) (start : Int) : List Nat :=
  (a.pids.drop start.toNat).take (lens (a.cids (a.pids.getD start.toNat 0)))

/-- `for i in range(self.mask_len): start_idx = row[i]; if start_idx < 0: break; …` -/
def zCandsRow (a : ZArr) (lens : Nat → Nat) (row : List Int) : List Nat :=
  (row.takeWhile (fun s => decide (0 ≤ s))).flatMap (zRun a lens)

/-- candidates visited by `find_nearest_neighbors(d_idx)` with context `(src, dst)`, in visiting
order, for a generic box function -/
def zCandsGen (maskLen : Nat) (zs : List ZArr) (nbrOf : ZArr → Cell → Nat → List Int)
    (s d i : Nat) : List Nat :=
  match zs[s]?, zs[d]? with
  | some a, some b => zCandsRow a (zLengths a) (zRows maskLen zs s a (nbrOf a) (b.cids i))
  | _, _ => []

/-- a particle array given by its points: cells by `find_cell_id_raw(x - xmin, h_sub)`, pids sorted
by whatever `srt key n` returns (the theorems quantify over every sorting function) -/
def zInOfPts {α : Type} [Sub α] [Div α] (fl : α → Int) (c : α) (o : Pt α)
    (srt : (Nat → Nat) → Nat → List Nat) (arr : List (Pt α)) : ZIn :=
  { n := arr.length, cellAt := cellAtOf fl c o arr,
    pids := srt (fun p => zKey (cellAtOf fl c o arr p)) arr.length }

/-- **ZOrderNNPS** -/
def zOrderCands (maxKey : Nat) (ins : List ZIn) (s d i : Nat) : List Nat :=
  zCandsGen 27 (zBuild ins).1 (fun a c _ => zNbrIdx maxKey (maskZ 1) a c) s d i

/-- **ExtendedZOrderNNPS**, `asymmetric=True`: sub-cells `cell_size/H`, the full `±H` mask -/
def extZOrderAsymCands (maxKey H : Nat) (ins : List ZIn) (s d i : Nat) : List Nat :=
  zCandsGen ((2 * H + 1) ^ 3) (zBuild ins).1 (fun a c _ => zNbrIdx maxKey (maskZ H) a c) s d i

/-! ## ExtendedZOrderNNPS, symmetric mode -/
section sym
variable {α : Type} [Mul α] [Div α] [LT α] [DecidableLT α] [OfNat α 0]

/-- the `current_hmax[cid]` loop of `ExtendedZOrderNNPS._fill_nbr_boxes`: `h` of the particle at a
run start, `fmax` with the particle's `h` inside the run (`hAt` by pid) -/
def zHmaxWalk (a : ZArr) (hAt : Nat → α) : Option Nat → List Nat → (Nat → α) → (Nat → α)
  | _, [], m => m
  | prev, p :: ps, m =>
    if prev = some (a.key p) then
      zHmaxWalk a hAt (some (a.key p)) ps (fun c => if c = a.cids p then fmaxA (m c) (hAt p) else m c)
    else zHmaxWalk a hAt (some (a.key p)) ps (fun c => if c = a.cids p then hAt p else m c)

/-- `hmax[s]`: initialised to 0 -/
def zHmax (a : ZArr) (hAt : Nat → α) : Nat → α := zHmaxWalk a hAt none a.pids (fun _ => 0)

/-- the `while j < num_particles and self.keys[a][j] == key` loop of `_cell_hmax` for one array -/
def cellHmaxArr (maxKey : Nat) (a : ZArr) (hAt : Nat → α) (k : Nat) (m : α) : α :=
  match a.getIdx maxKey k with
  | none => m
  | some j => ((a.pids.drop j).takeWhile (fun p => decide (a.key p = k))).foldl
      (fun m p => fmaxA m (hAt p)) m

/-- `_cell_hmax(key)`: largest `h` in the cell over all arrays (0 when nobody is there) -/
def cellHmax (maxKey : Nat) (zs : List (ZArr × (Nat → α))) (k : Nat) : α :=
  zs.foldl (fun m ah => cellHmaxArr maxKey ah.1 ah.2 k m) 0

/-- `_neighbor_boxes_sym(i, j, k, …, h)`: as `zNbrIdx`, and the box must lie within
`H' = ceil(radius_scale*fmax(current_hmax[cid of the box], h)/h_sub)` of the cell on every axis
(`cid = current_cids[current_pids[found_idx]]`) -/
def zNbrIdxSym (cl : α → Int) (maxKey : Nat) (mask : List Cell) (rs hsub : α) (a : ZArr)
    (hmaxA : Nat → α) (c : Cell) (h : α) : List Int :=
  (mask.filter (fun m => nonnegCell (Cell.add c m))).filterMap (fun m =>
    match a.getIdx maxKey (zKey (Cell.add c m)) with
    | none => none
    | some f =>
      let Hl := cl (rs * fmaxA (hmaxA (a.cids (a.pids.getD f 0))) h / hsub)
      if decide ((m.1.natAbs : Int) ≤ Hl) && decide ((m.2.1.natAbs : Int) ≤ Hl) &&
          decide ((m.2.2.natAbs : Int) ≤ Hl)
      then some (Int.ofNat f) else none)

/-- `_neighbor_boxes_func` in symmetric mode, called with `h = current_hmax[cid]` of the row's
cell id: `h = fmax(h, self._cell_hmax(get_key(i, j, k)))` first -/
def zNbrSym (cl : α → Int) (maxKey H : Nat) (rs hsub : α) (zh : List (ZArr × (Nat → α)))
    (a : ZArr) (hAt : Nat → α) (c : Cell) (cid : Nat) : List Int :=
  zNbrIdxSym cl maxKey (maskZ H) rs hsub a (zHmax a hAt) c
    (fmaxA (zHmax a hAt cid) (cellHmax maxKey zh (zKey c)))

/-- **ExtendedZOrderNNPS**, `asymmetric=False`; `hs` holds the smoothing lengths per array -/
def extZOrderSymCands (cl : α → Int) (maxKey H : Nat) (rs hsub : α) (ins : List ZIn)
    (hs : List (Nat → α)) (s d i : Nat) : List Nat :=
  let zs := (zBuild ins).1
  let zh := zs.zip hs
  match zs[s]?, zs[d]?, hs[s]? with
  | some a, some b, some hAt =>
    zCandsRow a (zLengths a)
      (zRows ((2 * H + 1) ^ 3) zs s a (zNbrSym cl maxKey H rs hsub zh a hAt) (b.cids i))
  | _, _, _ => []

end sym

end PysphVerif.Nnps
