/-
C07 — model of the periodic / mirror domain manager.

Transcribes  pysph/base/nnps_base.pyx :
  DomainManagerBase.__init__ (xtranslate = xmax - xmin), _remove_ghosts,
  CPUDomainManager.update, _compute_cell_size_for_binning, _box_wrap_periodic,
  _create_ghosts_periodic, _create_ghosts_mirror
and the parts of pysph/base/particle_array.pyx they rely on
  (extract_particles with `props`, extend (default fill), append_parray,
   remove_tagged_particles).

`_create_ghosts_mirror` is modelled AFTER the proposed repair
(/verif/proposed_fixes/C07-mirror-ghosts.diff): the translation arrays are
reset for every particle array and the partial image array `added` is not
re-aligned between an index computation and its use.  Both defects of the
unrepaired code are found by the harness on the real code (keys
`C07:mirror-second-array`, `C07:mirror-after-periodic`).

A particle array is a list of whole particles (rows).  Modelled abstractly
(third-party cyarray, exercised by the tie): `remove_tagged_particles` is an
order-preserving filter (cyarray's swap-remove + `align_particles` keep the
order whenever the ghosts form a suffix, which `update` itself maintains;
otherwise only the order differs, which the property does not talk about);
`update_min_max` gives `maximum = 0` for an empty array.

Polymorphic in the number type: run at `Rat` (dyadic inputs: exact agreement
with the doubles, `<=` ties included) and at `Float` (bit-exact, any doubles),
reasoned about over a linearly ordered field.  Core Lean only.
-/
namespace PysphVerif.Domain

inductive Axis where
  | x | y | z
  deriving DecidableEq, Repr

/-- One particle: the properties the domain manager reads or writes by name,
the tag, and all remaining properties (`extra`, in a fixed order). -/
structure Particle (α : Type) where
  x : α
  y : α
  z : α
  u : α
  v : α
  w : α
  h : α
  /-- 0 Local, 1 Remote, 2 Ghost -/
  tag : Nat
  extra : List α
  deriving DecidableEq, Repr

/-- `utils.ParticleTAGS.Ghost` -/
def ghostTag : Nat := 2

section
variable {α : Type}

def Particle.pos (p : Particle α) : Axis → α
  | .x => p.x | .y => p.y | .z => p.z

def Particle.setPos (p : Particle α) : Axis → α → Particle α
  | .x, c => { p with x := c }
  | .y, c => { p with y := c }
  | .z, c => { p with z := c }

/-- velocity component normal to the faces of an axis: `u`, `v`, `w` -/
def Particle.vel (p : Particle α) : Axis → α
  | .x => p.u | .y => p.v | .z => p.w

def Particle.setVel (p : Particle α) : Axis → α → Particle α
  | .x, c => { p with u := c }
  | .y, c => { p with v := c }
  | .z, c => { p with w := c }

def setTag (t : Nat) (p : Particle α) : Particle α := { p with tag := t }

def isGhost (p : Particle α) : Bool := p.tag == ghostTag

/-- constructor arguments of `DomainManager` + `radius_scale` set by the NNPS;
`eps` is the literal `1e-6` of `_compute_cell_size_for_binning` -/
structure Config (α : Type) where
  xmin : α
  xmax : α
  ymin : α
  ymax : α
  zmin : α
  zmax : α
  px : Bool
  py : Bool
  pz : Bool
  mx : Bool
  my : Bool
  mz : Bool
  nLayers : α
  radiusScale : α
  eps : α

def Config.lo (c : Config α) : Axis → α
  | .x => c.xmin | .y => c.ymin | .z => c.zmin
def Config.hi (c : Config α) : Axis → α
  | .x => c.xmax | .y => c.ymax | .z => c.zmax
def Config.periodic (c : Config α) : Axis → Bool
  | .x => c.px | .y => c.py | .z => c.pz
def Config.mirror (c : Config α) : Axis → Bool
  | .x => c.mx | .y => c.my | .z => c.mz
/-- `self.is_periodic` -/
def Config.isPeriodic (c : Config α) : Bool := c.px || c.py || c.pz
/-- `self.is_mirror` -/
def Config.isMirror (c : Config α) : Bool := c.mx || c.my || c.mz

/-- `DomainManager(props=…)` for one array: which of the named properties and
of the `extra` ones are copied into the images, and the array's
`default_values` for the others (`x, y, z` are always copied: the code reads
them from the ghost buffer).  `props=None` is "keep everything". -/
structure CopySpec (α : Type) where
  keepU : Bool
  keepV : Bool
  keepW : Bool
  keepH : Bool
  keepExtra : List Bool
  dU : α
  dV : α
  dW : α
  dH : α
  dExtra : List α

def pick (k : Bool) (a d : α) : α := if k then a else d

def pickList : List Bool → List α → List α → List α
  | k :: ks, a :: as, d :: ds => pick k a d :: pickList ks as ds
  | _, as, _ => as

/-- A row as it arrives in the main array when only `props` were extracted
into the ghost buffer: `extract_particles(..., props=copy_props)` copies the
listed columns, `append_parray` → `extend` fills the others with
`default_values`. -/
def restrict (cs : CopySpec α) (p : Particle α) : Particle α :=
  { p with u := pick cs.keepU p.u cs.dU, v := pick cs.keepV p.v cs.dV,
           w := pick cs.keepW p.w cs.dW, h := pick cs.keepH p.h cs.dH,
           extra := pickList cs.keepExtra p.extra cs.dExtra }

/-- One axis block of `_create_ghosts_periodic` / `_create_ghosts_mirror`:
membership tests for the low / high layer and the image maps. -/
structure AxisOps (α : Type) where
  selLow : Particle α → Bool
  selHigh : Particle α → Bool
  imgLow : Particle α → Particle α
  imgHigh : Particle α → Particle α

/-- the `if periodic_in_x:` / `if mirror_in_x:` block.  `base` = rows of the
main array `pa`, `g` = rows of the image buffer so far (`ghost_pa` / `added`),
`pre` = column restriction applied when extracting from `pa`.
x_low images are appended first, then x_high. -/
def passX (ops : AxisOps α) (pre : Particle α → Particle α)
    (base g : List (Particle α)) : List (Particle α) :=
  g ++ ((base.filter ops.selLow).map pre).map ops.imgLow
    ++ ((base.filter ops.selHigh).map pre).map ops.imgHigh

/-- the `if periodic_in_y:` / `..._z` blocks: first the images made so far
(`low`, `high` index lists are both computed before anything is appended:
images of `low` then images of `high`), then `pa`'s own `*_high`, then `*_low`. -/
def passYZ (ops : AxisOps α) (pre : Particle α → Particle α)
    (base g : List (Particle α)) : List (Particle α) :=
  g ++ (g.filter ops.selLow).map ops.imgLow
    ++ (g.filter ops.selHigh).map ops.imgHigh
    ++ ((base.filter ops.selHigh).map pre).map ops.imgHigh
    ++ ((base.filter ops.selLow).map pre).map ops.imgLow

/-- the three blocks in sequence, each guarded by its flag; the buffer starts
empty (`ghost_pa.resize(0)` / a fresh `added`) -/
def ghostsFor (on : Axis → Bool) (ops : Axis → AxisOps α) (pre : Particle α → Particle α)
    (base : List (Particle α)) : List (Particle α) :=
  let g0 : List (Particle α) := []
  let g1 := if on .x then passX (ops .x) pre base g0 else g0
  let g2 := if on .y then passYZ (ops .y) pre base g1 else g1
  if on .z then passYZ (ops .z) pre base g2 else g2

/-- `_remove_ghosts` → `pa.remove_tagged_particles(Ghost)` (order abstracted) -/
def removeGhosts (arr : List (Particle α)) : List (Particle α) :=
  arr.filter (fun p => !isGhost p)

end

section
variable {α : Type} [Add α] [Sub α] [Mul α] [Neg α] [LT α] [DecidableLT α] [LE α] [DecidableLE α]
  [OfNat α 0] [OfNat α 1] [OfNat α 2]

/-- `self.xtranslate = xmax - xmin` -/
def Config.translate (c : Config α) (a : Axis) : α := c.hi a - c.lo a

/-- `_box_wrap_periodic`, one coordinate: the two `if`s as written (the second
reads the value the first may have changed) -/
def wrap1 (lo hi L v : α) : α :=
  let v1 := if v < lo then v + L else v
  if hi < v1 then v1 - L else v1

def wrapAxis (c : Config α) (a : Axis) (p : Particle α) : Particle α :=
  if c.periodic a then p.setPos a (wrap1 (c.lo a) (c.hi a) (c.translate a) (p.pos a)) else p

def wrapParticle (c : Config α) (p : Particle α) : Particle α :=
  wrapAxis c .z (wrapAxis c .y (wrapAxis c .x p))

/-- `(xi - xmin) <= cell_size` -/
def inLow (c : Config α) (δ : α) (a : Axis) (p : Particle α) : Bool :=
  decide (p.pos a - c.lo a ≤ δ)
/-- `(xmax - xi) <= cell_size` -/
def inHigh (c : Config α) (δ : α) (a : Axis) (p : Particle α) : Bool :=
  decide (c.hi a - p.pos a ≤ δ)

/-- `_add_to_array(ghost_pa.get_carray('x'), d, start)` on one new row -/
def shift (a : Axis) (d : α) (p : Particle α) : Particle α := p.setPos a (p.pos a + d)

/-- periodic blocks: low layer `+translate`, high layer `-translate` -/
def periodicOps (c : Config α) (δ : α) (a : Axis) : AxisOps α :=
  { selLow := inLow c δ a, selHigh := inHigh c δ a,
    imgLow := shift a (c.translate a), imgHigh := shift a (-(c.translate a)) }

/-- `xt_low.append(-2*(xi - xmin))`, `_add_array_to_array`, `_mul_to_array(u, -1)` -/
def mirrorLow (c : Config α) (a : Axis) (p : Particle α) : Particle α :=
  (p.setPos a (p.pos a + (-2) * (p.pos a - c.lo a))).setVel a (p.vel a * (-1))
/-- `xt_high.append(2*(xmax - xi))`, `_add_array_to_array`, `_mul_to_array(u, -1)` -/
def mirrorHigh (c : Config α) (a : Axis) (p : Particle α) : Particle α :=
  (p.setPos a (p.pos a + 2 * (c.hi a - p.pos a))).setVel a (p.vel a * (-1))

def mirrorOps (c : Config α) (δ : α) (a : Axis) : AxisOps α :=
  { selLow := inLow c δ a, selHigh := inHigh c δ a,
    imgLow := mirrorLow c a, imgHigh := mirrorHigh c a }

/-- cyarray `update_min_max`: the `maximum` attribute (0 for an empty array) -/
def carrayMax : List α → α
  | [] => 0
  | a :: as => as.foldl (fun m x => if m < x then x else m) a

/-- loop body of `_compute_cell_size_for_binning` -/
def hmaxStep (hmax : α) (arr : List (Particle α)) : α :=
  if hmax < carrayMax (arr.map (·.h)) then carrayMax (arr.map (·.h)) else hmax

/-- `_compute_cell_size_for_binning`: `radius_scale * hmax` over ALL rows present
(it runs before the old ghosts are removed), `1.0` if below `1e-6` -/
def cellSize (c : Config α) (arrs : List (List (Particle α))) : α :=
  let cs := c.radiusScale * arrs.foldl hmaxStep (-1)
  if cs < c.eps then 1 else cs

/-- periodic part of `update` for one array: wrap, then images, tagged, appended -/
def periodicStage (c : Config α) (δ : α) (cs : CopySpec α) (a0 : List (Particle α)) :
    List (Particle α) :=
  let w := a0.map (wrapParticle c)
  w ++ (ghostsFor c.periodic (periodicOps c δ) (restrict cs) w).map (setTag ghostTag)

/-- mirror part (repaired code): images of every row present (periodic ghosts
included), all columns, tagged, appended -/
def mirrorStage (c : Config α) (δ : α) (a1 : List (Particle α)) : List (Particle α) :=
  a1 ++ (ghostsFor c.mirror (mirrorOps c δ) id a1).map (setTag ghostTag)

/-- `CPUDomainManager.update` for one array, `δ = n_layers * cell_size` -/
def updateArray (c : Config α) (δ : α) (cs : CopySpec α) (arr : List (Particle α)) :
    List (Particle α) :=
  if c.isPeriodic || c.isMirror then
    let a0 := removeGhosts arr
    let a1 := if c.isPeriodic then periodicStage c δ cs a0 else a0
    if c.isMirror then mirrorStage c δ a1 else a1
  else arr

def updateArrays (c : Config α) (δ : α) : List (CopySpec α) → List (List (Particle α)) →
    List (List (Particle α))
  | cs :: css, arr :: arrs => updateArray c δ cs arr :: updateArrays c δ css arrs
  | _, _ => []

/-- `CPUDomainManager.update` (serial): the new `cell_size` and the arrays -/
def update (c : Config α) (specs : List (CopySpec α)) (arrs : List (List (Particle α))) :
    α × List (List (Particle α)) :=
  let cell := cellSize c arrs
  (cell, updateArrays c (c.nLayers * cell) specs arrs)

end
end PysphVerif.Domain
